(* Proofs/C06EntriesProofs.v — the entries of a well-formed call frame section are returned in
   section order with the expected kind, header fields, augmentation data, pointer-encoded
   initial location, range, LSDA pointer and FDE -> CIE link:
     wf_section s = true -> get_entries (cfi_of s) = Ok (expected_entries s)
   for .debug_frame and .eh_frame, any interleaving (an FDE may precede its CIE), all producer
   choices of Spec/C06Entries.v.  Structure: (1) field parsers on encoded values, (2) the CIE
   header and augmentation, (3) where each entry lies in the section, (4) _parse_entry_at on a
   CIE / ZERO / FDE with a cache that holds only expected entries, (5) the scan loop. *)
From PV Require Import Spec.C06View Proofs.PrimProofs Proofs.C06TableProofs Proofs.C06InstrProofs.
From Coq Require Import ZifyBool.
Ltac Zify.zify_post_hook ::= Z.to_euclidean_division_equations.
Open Scope Z_scope.

(* ================================================================ (1) field parsers *)
Lemma eh_field_of_format St f :
  eh_encoding_to_field St (format_code f) = Some (field_of_kind St (format_kind f)).
Proof. destruct f; reflexivity. Qed.

Lemma ptr_field_ok le fmt asize f v t :
  (asize = 4 \/ asize = 8)%nat -> wf_ptr asize f v = true ->
  field_of_kind (structs_for le fmt asize) (format_kind f) (encode_ptr le asize f v ++ t)
  = Ok (lv v, t).
Proof.
  intros Ha H. destruct f; cbn [format_kind field_of_kind encode_ptr wf_ptr Z.eqb Pos.eqb] in *.
  - apply target_addr_ok; assumption.
  - apply uleb_ok; assumption.
  - apply (uint_ok le 2); assumption.
  - apply (uint_ok le 4); assumption.
  - apply (uint_ok le 8); assumption.
  - apply sleb_ok; assumption.
  - apply (sint_ok le 2); [lia|assumption].
  - apply (sint_ok le 4); [lia|assumption].
  - apply (sint_ok le 8); [lia|assumption].
Qed.

Lemma format_code_range f : 0 <= format_code f < 16.
Proof. destruct f; cbn; lia. Qed.

Lemma enc_byte_parts f pc :
  Z.land (enc_byte f pc) 15 = format_code f
  /\ Z.land (enc_byte f pc) 240 = (if pc then 16 else 0)
  /\ (enc_byte f pc =? DW_EH_PE_omit) = false
  /\ 0 <= enc_byte f pc < 256.
Proof.
  destruct f, pc; repeat split; try reflexivity; vm_compute; try reflexivity; intros; discriminate.
Qed.

Lemma land15 x : Z.land x 15 = x mod 16.
Proof. change 15 with (Z.ones 4). rewrite Z.land_ones by lia. reflexivity. Qed.

Lemma pers_byte hi f : 0 <= hi < 16 ->
  Z.land (16 * hi + format_code f) 15 = format_code f /\ 0 <= 16 * hi + format_code f < 256.
Proof.
  intros H. pose proof (format_code_range f). rewrite land15. split; lia.
Qed.

Lemma read_n_ok (a t : list Z) : read_n (zlen a) (a ++ t) = Ok (a, t).
Proof.
  unfold read_n. rewrite zlen_app. pose proof (zlen_nonneg t).
  rewrite Z.min_l by lia. unfold zlen. rewrite Nat2Z.id.
  rewrite firstn_app, firstn_all, Nat.sub_diag, skipn_app, skipn_all, Nat.sub_diag.
  cbn [firstn skipn app]. rewrite app_nil_r. reflexivity.
Qed.

(* the format of a DWARF entry *)
Definition fmtz (fmt64 : bool) : Z := if fmt64 then 64 else 32.

Lemma offset_ok le fmt64 asize v t : fits_u (offset_size fmt64) v = true ->
  Dwarf_offset (structs_for le (fmtz fmt64) asize) (int_encode le (offset_size fmt64) v ++ t)
  = Ok (v, t).
Proof.
  intros H. unfold Dwarf_offset, structs_for, fmtz. cbn [dwarf_format little_endian].
  destruct fmt64; cbn [offset_size Z.eqb Pos.eqb] in *; apply uint_ok; exact H.
Qed.

Lemma initial_length_ok le fmt64 asize n t : initial_length_wf n fmt64 = true ->
  Dwarf_initial_length (structs_for le (fmtz fmt64) asize)
                       (initial_length_encode le n fmt64 ++ t) = Ok (n, t).
Proof.
  intros H. unfold Dwarf_initial_length, structs_for. cbn [little_endian].
  apply of_dec_ok. rewrite (initial_length_valid le n fmt64 t H). reflexivity.
Qed.

Lemma initial_length_size le n fmt64 :
  zlen (initial_length_encode le n fmt64) = if fmt64 then 12 else 4.
Proof.
  unfold initial_length_encode, zlen. destruct fmt64; rewrite ?app_length, !int_encode_length;
    reflexivity.
Qed.

Lemma ilfs_fmt le fmt64 asize :
  initial_length_field_size (structs_for le (fmtz fmt64) asize) = if fmt64 then 12 else 4.
Proof. destruct fmt64; reflexivity. Qed.

(* ================================================================ (2) the CIE header *)
Lemma pbind_eq {A B} (p : parser A) (f : A -> parser B) bs a r :
  p bs = Ok (a, r) -> pbind p f bs = f a r.
Proof. intros H. unfold pbind. rewrite H. reflexivity. Qed.

Lemma uint8_ok le fmt asize b t : 0 <= b < 256 ->
  Dwarf_uint8 (structs_for le fmt asize) ([b] ++ t) = Ok (b, t).
Proof. intros H. apply byte_ok. exact H. Qed.

Lemma uint32_ok le fmt asize v t : fits_u 4 v = true ->
  Dwarf_uint32 (structs_for le fmt asize) (int_encode le 4 v ++ t) = Ok (v, t).
Proof. intros H. apply uint_ok. exact H. Qed.

Lemma opt_uint8_ok le fmt asize b t : 0 <= b < 256 ->
  (let* v := Dwarf_uint8 (structs_for le fmt asize) in pret (Some v)) ([b] ++ t) = Ok (Some b, t).
Proof. intros H. unfold pbind. rewrite uint8_ok by exact H. reflexivity. Qed.

Lemma item_char_nz a : (item_char a =? 0) = false.
Proof. destruct a; reflexivity. Qed.

Lemma no_nul_aug c : no_nul (aug_string c) = true.
Proof.
  unfold aug_string, no_nul. destruct (c_aug c) as [[len items]|]; [|reflexivity].
  cbn [forallb]. change (negb (122 =? 0)) with true. cbn [andb].
  induction items as [|a r IH]; [reflexivity|].
  cbn [map forallb]. rewrite item_char_nz, IH. reflexivity.
Qed.

Lemma cstring_ok s t : no_nul s = true -> CString (s ++ [0] ++ t) = Ok (s, t).
Proof.
  intros H. unfold CString. apply of_dec_ok. rewrite app_assoc.
  apply (cstring_decode_valid s t H).
Qed.

Definition cie_hdr (eh : bool) (asize : nat) (L : Z) (c : scie) : cie_header :=
  mkcie_header L (cie_id eh (c_fmt64 c)) (c_version c) (aug_string c)
               (if 4 <=? c_version c then Some (Z.of_nat asize) else None)
               (if 4 <=? c_version c then Some 0 else None)
               (lv (c_caf c)) (lv (c_daf c)) (lv (c_rar c)).

Lemma cie_id_fits eh fmt64 : fits_u (offset_size fmt64) (cie_id eh fmt64) = true.
Proof. destruct eh, fmt64; reflexivity. Qed.

Lemma cie_header_ok eh le asize c L rest :
  (asize = 4 \/ asize = 8)%nat ->
  (c_version c = 1 \/ c_version c = 3 \/ c_version c = 4) ->
  wf_uleb (c_caf c) = true -> wf_sleb (c_daf c) = true ->
  (if 1 <? c_version c then wf_uleb (c_rar c) else fits_u 1 (lv (c_rar c))) = true ->
  initial_length_wf L (c_fmt64 c) = true ->
  Dwarf_CIE_header (structs_for le (fmtz (c_fmt64 c)) asize)
    (initial_length_encode le L (c_fmt64 c)
     ++ int_encode le (offset_size (c_fmt64 c)) (cie_id eh (c_fmt64 c))
     ++ cie_fixed asize c ++ rest)
  = Ok (cie_hdr eh asize L c, rest).
Proof.
  intros Ha Hver Hcaf Hdaf Hrar HL. unfold Dwarf_CIE_header, cie_fixed, cie_hdr.
  rewrite <- !app_assoc.
  erewrite pbind_ok by (apply initial_length_ok; exact HL).
  erewrite pbind_ok by (apply offset_ok; apply cie_id_fits).
  assert (Hvb : 0 <= c_version c < 256) by lia.
  erewrite pbind_ok by (apply uint8_ok; exact Hvb).
  rewrite (pbind_eq _ _ _ _ _ (cstring_ok _ _ (no_nul_aug c))).
  assert (Hab : 0 <= Z.of_nat asize < 256) by lia.
  destruct Hver as [E|[E|E]]; rewrite E in *; cbn [Z.leb Z.ltb Z.compare Pos.compare Pos.compare_cont].
  - rewrite app_nil_l. unfold pbind at 1. cbn [pret]. unfold pbind at 1. cbn [pret].
    erewrite pbind_ok by (apply uleb_ok; exact Hcaf).
    erewrite pbind_ok by (apply sleb_ok; exact Hdaf).
    apply fits_u_range in Hrar. change (2 ^ (8 * Z.of_nat 1)) with 256 in Hrar.
    erewrite pbind_ok with (e := [lv (c_rar c)]) by (apply uint8_ok; exact Hrar).
    reflexivity.
  - rewrite app_nil_l. unfold pbind at 1. cbn [pret]. unfold pbind at 1. cbn [pret].
    erewrite pbind_ok by (apply uleb_ok; exact Hcaf).
    erewrite pbind_ok by (apply sleb_ok; exact Hdaf).
    erewrite pbind_ok by (apply uleb_ok; exact Hrar).
    reflexivity.
  - change ([Z.of_nat asize; 0] ++ ?t) with ([Z.of_nat asize] ++ [0] ++ t).
    erewrite pbind_ok with (e := [Z.of_nat asize]) by (apply opt_uint8_ok; exact Hab).
    erewrite pbind_ok with (e := [0]) by (apply opt_uint8_ok; lia).
    erewrite pbind_ok by (apply uleb_ok; exact Hcaf).
    erewrite pbind_ok by (apply sleb_ok; exact Hdaf).
    erewrite pbind_ok by (apply uleb_ok; exact Hrar).
    reflexivity.
Qed.

(* ================================================================ (2b) the augmentation data *)
Fixpoint fields_of (items : list aug_item) : list augfield :=
  match items with
  | [] => []
  | AugR _ _ :: r => FFDE :: fields_of r
  | AugL _ :: r => FLSDA :: fields_of r
  | AugP _ _ _ :: r => FPersonality :: fields_of r
  | AugS :: r => fields_of r
  end.

Lemma aug_fields_items items :
  aug_fields (map item_char items) = (fields_of items, existsb is_S items).
Proof.
  induction items as [|a r IH]; [reflexivity|].
  destruct a; cbn [map item_char aug_fields fields_of existsb is_S orb];
    unfold ch_z, ch_L, ch_R, ch_S, ch_P; cbn [Z.eqb Pos.eqb]; rewrite IH; reflexivity.
Qed.

Lemma parse_aug_fields_ok s fmt items :
  let le := s_le s in let asize := s_asize s in
  (asize = 4 \/ asize = 8)%nat ->
  forallb (wf_item s) items = true -> forall d t,
  parse_aug_fields (structs_for le fmt asize) (fields_of items) d
                   (List.concat (map (item_data le asize) items) ++ t)
  = Ok (dict_of_items items d, t).
Proof.
  intros le asize Ha. induction items as [|a r IH]; intros Hwf d t; [reflexivity|].
  cbn [forallb] in Hwf. apply andb_prop in Hwf. destruct Hwf as [Hi Hr].
  destruct a as [f pc|[[f pc]|]|hi f v|];
    cbn [map List.concat item_data fields_of parse_aug_fields dict_of_items].
  - rewrite <- app_assoc.
    erewrite pbind_ok with (e := [enc_byte f pc]) by (apply uint8_ok; apply enc_byte_parts).
    apply IH. exact Hr.
  - rewrite <- app_assoc.
    erewrite pbind_ok with (e := [enc_byte f pc]) by (apply uint8_ok; apply enc_byte_parts).
    apply IH. exact Hr.
  - rewrite <- app_assoc.
    erewrite pbind_ok with (e := [DW_EH_PE_omit_code])
      by (apply uint8_ok; unfold DW_EH_PE_omit_code; lia).
    apply IH. exact Hr.
  - unfold wf_item in Hi. apply andb_prop in Hi. destruct Hi as [Hi Hp].
    apply andb_prop in Hi. destruct Hi as [H0 H16].
    assert (Hhi : 0 <= hi < 16) by lia.
    destruct (pers_byte hi f Hhi) as [Hland Hb].
    change ((16 * hi + format_code f :: encode_ptr le asize f v) ++ ?x)
      with ([16 * hi + format_code f] ++ encode_ptr le asize f v ++ x).
    rewrite <- !app_assoc.
    erewrite pbind_ok with (e := [16 * hi + format_code f]) by (apply uint8_ok; exact Hb).
    cbv beta. rewrite Hland, eh_field_of_format.
    erewrite pbind_ok by (apply ptr_field_ok; [exact Ha|exact Hp]).
    apply IH. exact Hr.
  - cbn [app]. apply IH. exact Hr.
Qed.

Lemma startswith_z l : startswith (122 :: l) [ch_z] = true.
Proof. cbn [startswith]. unfold ch_z. rewrite Z.eqb_refl. destruct l; reflexivity. Qed.

Lemma cie_augmentation_ok s self c L pos rest fmt :
  let eh := s_eh s in let le := s_le s in let asize := s_asize s in
  (asize = 4 \/ asize = 8)%nat ->
  for_eh_frame self = eh -> (eh || negb (has_z c)) = true ->
  zlen (stream self) < 2 ^ 63 ->
  match c_aug c with
  | None => true
  | Some (len, items) =>
      wf_uleb len && (lv len =? zlen (aug_data le asize c))
      && nodup_chars (map item_char items) && forallb (wf_item s) items
  end = true ->
  cursor (stream self) pos (cie_augpart le asize c ++ rest) ->
  parse_cie_augmentation self (cie_hdr eh asize L c) (structs_for le fmt asize) pos
  = Ok (aug_data le asize c, view_augdict c, pos + zlen (cie_augpart le asize c)).
Proof.
  intros eh le asize Ha Heh Hz Hsz Hwf Hc.
  unfold parse_cie_augmentation, cie_hdr, cie_augpart, aug_string, aug_data, aug_items,
    view_augdict, has_z in *.
  cbn [ch_augmentation].
  destruct (c_aug c) as [[len items]|]; cbv beta iota in *.
  - apply andb_prop in Hwf. destruct Hwf as [Hwf Hitems].
    apply andb_prop in Hwf. destruct Hwf as [Hwf Hnd].
    apply andb_prop in Hwf. destruct Hwf as [Hwf Hlen]. apply Z.eqb_eq in Hlen.
    cbn [negb] in Hz. rewrite orb_false_r in Hz.
    change (startswith (122 :: map item_char items) armcc) with false.
    rewrite startswith_z.
    cbn [negb]. cbn [aug_fields]. change (122 =? ch_z) with true. cbv iota.
    rewrite aug_fields_items.
    (* the Augmentation_Data struct *)
    rewrite <- app_assoc in Hc.
    erewrite (run_at_cursor _ (stream self) pos
                (lb len ++ List.concat (map (item_data le asize) items)) rest _ Hsz).
    2: { rewrite <- app_assoc. exact Hc. }
    2: { cbn [parse_aug_fields]. rewrite <- app_assoc.
         erewrite pbind_ok by (apply uleb_ok; exact Hwf).
         apply parse_aug_fields_ok; [exact Ha|exact Hitems]. }
    cbn [bind].
    (* self.stream.seek(offset); _read_augmentation_data *)
    unfold read_augmentation_data. rewrite Heh. fold eh. rewrite Hz. cbn [negb].
    erewrite (run_at_cursor _ (stream self) pos (lb len) _ _ Hsz Hc)
      by (apply uleb_ok; exact Hwf).
    cbn [bind]. apply cursor_step in Hc.
    rewrite Hlen.
    erewrite (run_at_cursor _ (stream self) _ _ _ _ Hsz Hc) by apply read_n_ok.
    cbn [bind]. rewrite zlen_app. f_equal. f_equal. lia.
  - cbn [map List.concat zlen length]. change (zlen []) with 0. rewrite Z.add_0_r. reflexivity.
Qed.

(* ================================================================ (2c) what FDEs read in the CIE's dict *)
Lemma no_char_find_R items : existsb (Z.eqb 82) (map item_char items) = false -> find_R items = None.
Proof.
  induction items as [|a r IH]; [reflexivity|]. cbn [map existsb]. intros H.
  apply orb_false_elim in H. destruct H as [Ha Hr].
  destruct a; cbn [item_char] in Ha; try discriminate; cbn [find_R]; auto.
Qed.

Lemma dict_FDE items : forall d, nodup_chars (map item_char items) = true ->
  ad_FDE_encoding (dict_of_items items d) =
  match find_R items with Some (f, pc) => Some (enc_byte f pc) | None => ad_FDE_encoding d end.
Proof.
  induction items as [|a r IH]; intros d Hnd; [reflexivity|].
  cbn [map nodup_chars] in Hnd. apply andb_prop in Hnd. destruct Hnd as [Hx Hnd].
  destruct a; cbn [dict_of_items find_R]; try (rewrite IH by exact Hnd; reflexivity).
  rewrite IH by exact Hnd. cbn [item_char] in Hx. apply negb_true_iff in Hx.
  rewrite (no_char_find_R r Hx). reflexivity.
Qed.

Fixpoint first_L (items : list aug_item) : option (option (ptr_format * bool)) :=
  match items with
  | [] => None
  | AugL e :: _ => Some e
  | _ :: r => first_L r
  end.
Lemma find_L_first items : find_L items = match first_L items with Some e => e | None => None end.
Proof. induction items as [|a r IH]; [reflexivity|]. destruct a; cbn [find_L first_L]; auto. Qed.
Lemma no_char_first_L items :
  existsb (Z.eqb 76) (map item_char items) = false -> first_L items = None.
Proof.
  induction items as [|a r IH]; [reflexivity|]. cbn [map existsb]. intros H.
  apply orb_false_elim in H. destruct H as [Ha Hr].
  destruct a; cbn [item_char] in Ha; try discriminate; cbn [first_L]; auto.
Qed.
Definition lsda_byte (e : option (ptr_format * bool)) : Z :=
  match e with Some (f, pc) => enc_byte f pc | None => DW_EH_PE_omit_code end.
Lemma dict_LSDA items : forall d, nodup_chars (map item_char items) = true ->
  ad_LSDA_encoding (dict_of_items items d) =
  match first_L items with Some e => Some (lsda_byte e) | None => ad_LSDA_encoding d end.
Proof.
  induction items as [|a r IH]; intros d Hnd; [reflexivity|].
  cbn [map nodup_chars] in Hnd. apply andb_prop in Hnd. destruct Hnd as [Hx Hnd].
  destruct a; cbn [dict_of_items first_L]; try (rewrite IH by exact Hnd; reflexivity).
  rewrite IH by exact Hnd. cbn [item_char] in Hx. apply negb_true_iff in Hx.
  rewrite (no_char_first_L r Hx). destruct enc as [[f pc]|]; reflexivity.
Qed.

Definition aug_nodup (c : scie) : bool :=
  match c_aug c with Some (_, items) => nodup_chars (map item_char items) | None => true end.

Lemma fde_encoding_view c : aug_nodup c = true ->
  match ad_FDE_encoding (view_augdict c) with Some v => v | None => DW_EH_PE_absptr end
  = enc_byte (fst (fde_enc c)) (snd (fde_enc c)).
Proof.
  unfold aug_nodup, view_augdict, fde_enc, aug_items. destruct (c_aug c) as [[len items]|]; intros H.
  - rewrite dict_FDE by exact H. cbn [ad_FDE_encoding].
    destruct (find_R items) as [[f pc]|]; reflexivity.
  - reflexivity.
Qed.

Lemma lsda_encoding_view c : aug_nodup c = true ->
  match ad_LSDA_encoding (view_augdict c) with Some v => v | None => DW_EH_PE_omit end
  = lsda_byte (lsda_enc c).
Proof.
  unfold aug_nodup, view_augdict, lsda_enc, aug_items. destruct (c_aug c) as [[len items]|]; intros H.
  - rewrite dict_LSDA by exact H. cbn [ad_LSDA_encoding]. rewrite find_L_first.
    destruct (first_L items) as [e|]; reflexivity.
  - reflexivity.
Qed.

(* ================================================================ (3) where the entries lie *)
Section Layout.
  Variable s : ssection.
  Let eh := s_eh s.
  Let le := s_le s.
  Let asize := s_asize s.
  Let es := s_entries s.

  Lemma with_length_size fmt64 body :
    zlen (with_length le fmt64 body) = (if fmt64 then 12 else 4) + zlen body.
  Proof. unfold with_length. rewrite zlen_app, initial_length_size. reflexivity. Qed.

  Lemma fde_body_len c p f :
    zlen (fde_body eh le asize c p f) = zlen (fde_body eh le asize c 0 f).
  Proof.
    unfold fde_body. rewrite !zlen_app. f_equal. unfold zlen. rewrite !int_encode_length.
    reflexivity.
  Qed.

  Lemma entry_len p e : zlen (encode_entry s p e) = entry_size s e.
  Proof.
    unfold entry_size. destruct e as [c|f|]; try reflexivity.
    cbn [encode_entry]. rewrite !with_length_size. f_equal. apply fde_body_len.
  Qed.

  Lemma entry_size_pos e : 4 <= entry_size s e.
  Proof.
    unfold entry_size. destruct e as [c|f|]; cbn [encode_entry].
    - rewrite with_length_size. pose proof (zlen_nonneg (cie_body (s_eh s) (s_le s) (s_asize s) c)).
      destruct (c_fmt64 c); lia.
    - rewrite with_length_size.
      pose proof (zlen_nonneg (fde_body (s_eh s) (s_le s) (s_asize s)
                                        (cie_at (s_entries s) (f_cie f)) 0 f)).
      destruct (f_fmt64 f); lia.
    - unfold zlen. rewrite int_encode_length. lia.
  Qed.

  Lemma offset_in_nonneg l k : 0 <= offset_in s l k.
  Proof.
    revert k. induction l as [|x r IH]; intros [|k]; cbn [offset_in]; try lia.
    pose proof (entry_size_pos x). specialize (IH k). lia.
  Qed.

  Lemma offset_in_lt l : forall k1 k2, (k1 < k2 <= length l)%nat ->
    offset_in s l k1 < offset_in s l k2.
  Proof.
    induction l as [|x r IH]; intros k1 k2 H; [cbn [length] in H; lia|].
    destruct k2 as [|k2]; [lia|]. cbn [length] in H. destruct k1 as [|k1]; cbn [offset_in].
    - pose proof (entry_size_pos x). pose proof (offset_in_nonneg r k2). lia.
    - specialize (IH k1 k2). lia.
  Qed.

  Lemma offset_in_S l : forall k e, nth_error l k = Some e ->
    offset_in s l (S k) = offset_in s l k + entry_size s e.
  Proof.
    induction l as [|x r IH]; intros [|k] e H; cbn [nth_error] in H; try discriminate.
    - inversion H; subst. cbn [offset_in]. destruct r; cbn [offset_in]; lia.
    - specialize (IH k e H). cbn [offset_in] in *. lia.
  Qed.

  Lemma encode_from_len l : forall off, zlen (encode_from s off l) = offset_in s l (length l).
  Proof.
    induction l as [|x r IH]; intros off; [reflexivity|].
    cbn [encode_from length offset_in]. rewrite zlen_app, entry_len, IH. reflexivity.
  Qed.

  Lemma length_le_offset l : Z.of_nat (length l) <= offset_in s l (length l).
  Proof.
    induction l as [|x r IH]; [cbn; lia|]. cbn [length offset_in].
    pose proof (entry_size_pos x). lia.
  Qed.

  Lemma encode_from_nth l : forall off k e, nth_error l k = Some e ->
    exists pre post,
      encode_from s off l
      = pre ++ encode_entry s (entry_pointer s (off + offset_in s l k) e) e ++ post
      /\ zlen pre = offset_in s l k.
  Proof.
    induction l as [|x r IH]; intros off [|k] e H; cbn [nth_error] in H; try discriminate.
    - inversion H; subst. exists [], (encode_from s (off + entry_size s e) r).
      cbn [offset_in encode_from app]. rewrite Z.add_0_r. split; reflexivity.
    - destruct (IH (off + entry_size s x) k e H) as (pre & post & E & Hl).
      exists (encode_entry s (entry_pointer s off x) x ++ pre), post.
      cbn [encode_from offset_in]. rewrite E, <- app_assoc, zlen_app, entry_len, Hl.
      rewrite Z.add_assoc. split; reflexivity.
  Qed.

  Definition wf_entry (off : Z) (e : sentry) : bool :=
    match e with SCie c => wf_cie s c | SFde f => wf_fde s off f | SZero => s_eh s end.

  Lemma wf_from_nth l : forall off k e, wf_from s off l = true -> nth_error l k = Some e ->
    wf_entry (off + offset_in s l k) e = true.
  Proof.
    induction l as [|x r IH]; intros off [|k] e Hwf H; cbn [nth_error] in H; try discriminate.
    - inversion H; subst. cbn [wf_from] in Hwf. apply andb_prop in Hwf. destruct Hwf as [Hx _].
      cbn [offset_in]. rewrite Z.add_0_r. exact Hx.
    - cbn [wf_from] in Hwf. apply andb_prop in Hwf. destruct Hwf as [_ Hr].
      cbn [offset_in]. rewrite Z.add_assoc. apply IH; assumption.
  Qed.

  (* the section's entry number k *)
  Lemma entry_cursor k e : nth_error es k = Some e ->
    exists post,
      cursor (encode_section s) (entry_offset_of s k)
             (encode_entry s (entry_pointer s (entry_offset_of s k) e) e ++ post).
  Proof.
    intros H. destruct (encode_from_nth es 0 k e H) as (pre & post & E & Hl).
    exists post. unfold encode_section, entry_offset_of. fold es. rewrite E.
    rewrite Z.add_0_l, <- Hl. apply cursor_start.
  Qed.

  Lemma entry_wf k e : wf_from s 0 es = true -> nth_error es k = Some e ->
    wf_entry (entry_offset_of s k) e = true.
  Proof. intros Hwf H. apply (wf_from_nth es 0 k e Hwf H). Qed.

  Lemma offset_inj k1 k2 e1 e2 :
    nth_error es k1 = Some e1 -> nth_error es k2 = Some e2 ->
    entry_offset_of s k1 = entry_offset_of s k2 -> k1 = k2.
  Proof.
    intros H1 H2 E. unfold entry_offset_of in E. fold es in E.
    assert (L1 : (k1 < length es)%nat) by (apply nth_error_Some; congruence).
    assert (L2 : (k2 < length es)%nat) by (apply nth_error_Some; congruence).
    destruct (Nat.lt_trichotomy k1 k2) as [Hlt|[Heq|Hgt]]; [|exact Heq|].
    - pose proof (offset_in_lt es k1 k2). lia.
    - pose proof (offset_in_lt es k2 k1). lia.
  Qed.

  Lemma section_size : zlen (encode_section s) = offset_in s es (length es).
  Proof. unfold encode_section. fold es. apply encode_from_len. Qed.

  Lemma entry_end_le k e : nth_error es k = Some e ->
    entry_offset_of s k + entry_size s e <= zlen (encode_section s).
  Proof.
    intros H. rewrite section_size. unfold entry_offset_of. fold es.
    rewrite <- (offset_in_S es k e H).
    assert (L : (k < length es)%nat) by (apply nth_error_Some; congruence).
    destruct (Nat.eq_dec (S k) (length es)) as [->|Hne]; [lia|].
    pose proof (offset_in_lt es (S k) (length es)). lia.
  Qed.
End Layout.

(* ================================================================ (4) _parse_entry_at *)
Lemma initial_length_words le L fmt64 :
  initial_length_encode le L fmt64
  = int_encode le 4 (if fmt64 then 0xffffffff else L) ++ (if fmt64 then int_encode le 8 L else []).
Proof. unfold initial_length_encode. destruct fmt64; [reflexivity|rewrite app_nil_r; reflexivity]. Qed.

Section Entries.
  Variable s : ssection.
  Hypothesis Hwfs : wf_section s = true.
  Let eh := s_eh s.
  Let le := s_le s.
  Let asize := s_asize s.
  Let es := s_entries s.
  Let self := cfi_of s.
  Let off_of := entry_offset_of s.

  Lemma Ha : (asize = 4 \/ asize = 8)%nat.
  Proof.
    unfold wf_section in Hwfs. apply andb_prop in Hwfs. destruct Hwfs as [H _].
    apply andb_prop in H. destruct H as [H _]. fold asize in H.
    apply orb_prop in H. destruct H as [H|H]; apply Nat.eqb_eq in H; auto.
  Qed.
  Lemma Hfrom : wf_from s 0 es = true.
  Proof.
    unfold wf_section in Hwfs. apply andb_prop in Hwfs. destruct Hwfs as [H _].
    apply andb_prop in H. destruct H as [_ H]. exact H.
  Qed.
  Lemma Hsz : zlen (encode_section s) < 2 ^ 63.
  Proof.
    unfold wf_section in Hwfs. apply andb_prop in Hwfs. destruct Hwfs as [_ H]. lia.
  Qed.

  (* the cache holds only expected objects of CIEs and FDEs, under their offsets *)
  Definition cache_ok (c : cache) : Prop :=
    forall o e', cache_get c o = Some e' ->
    exists k e, nth_error es k = Some e /\ o = off_of k /\ e' = view_entry s o e /\ e <> SZero.

  Lemma cache_ok_nil : cache_ok [].
  Proof. intros o e' H. discriminate. Qed.

  Lemma cache_ok_set c k e : cache_ok c -> nth_error es k = Some e -> e <> SZero ->
    cache_ok (cache_set c (off_of k) (view_entry s (off_of k) e)).
  Proof.
    intros Hc Hk Hne o e' H. unfold cache_set in H. cbn [cache_get] in H.
    destruct (Z.eqb_spec o (off_of k)) as [->|Hneq].
    - inversion H; subst. exists k, e. repeat split; assumption.
    - apply Hc. exact H.
  Qed.

  Lemma cache_hit c k e e' : cache_ok c -> nth_error es k = Some e ->
    cache_get c (off_of k) = Some e' -> e' = view_entry s (off_of k) e /\ e <> SZero.
  Proof.
    intros Hc Hk H. destruct (Hc _ _ H) as (k2 & e2 & Hk2 & Eo & Ee & Hne).
    assert (k = k2) by (eapply offset_inj; eauto). subst k2.
    rewrite Hk in Hk2. inversion Hk2; subst e2. split; assumption.
  Qed.

  Lemma extent_view off e : e <> SZero ->
    entry_extent (view_entry s off e) = Ok (entry_size s e).
  Proof.
    intros Hne. destruct e as [c|f|]; [| |contradiction].
    - cbn [view_entry view_cie entry_extent ch_length]. unfold entry_size. cbn [encode_entry].
      rewrite with_length_size. unfold structs_of, initial_length_field_size.
      destruct (c_fmt64 c); cbn [dwarf_format Z.eqb Pos.eqb]; f_equal; lia.
    - cbn [view_entry view_fde entry_extent fh_length]. unfold entry_size. cbn [encode_entry].
      rewrite with_length_size, fde_body_len. unfold structs_of, initial_length_field_size.
      destruct (f_fmt64 f); cbn [dwarf_format Z.eqb Pos.eqb]; f_equal; lia.
  Qed.

  (* a cache hit returns the expected object and skips the entry *)
  Lemma hit_ok rec c pos k e e' : cache_ok c -> nth_error es k = Some e ->
    cache_get c (off_of k) = Some e' ->
    parse_entry_at_body self rec c pos (off_of k)
    = Ok (view_entry s (off_of k) e, c, off_of k + entry_size s e).
  Proof.
    intros Hc Hk H. destruct (cache_hit c k e e' Hc Hk H) as [-> Hne].
    unfold parse_entry_at_body. rewrite H, (extent_view _ _ Hne). reflexivity.
  Qed.

  Lemma cie_miss_ok rec cc pos k c0 :
    nth_error es k = Some (SCie c0) -> cache_get cc (off_of k) = None ->
    parse_entry_at_body self rec cc pos (off_of k)
    = Ok (view_cie s (off_of k) c0, cache_set cc (off_of k) (view_cie s (off_of k) c0),
          off_of k + entry_size s (SCie c0)).
  Proof.
    intros Hk Hmiss.
    pose proof (entry_wf s k _ Hfrom Hk) as Hwf. cbn [wf_entry] in Hwf.
    destruct (entry_cursor s k _ Hk) as (post & Hc).
    pose proof Ha as Ha'. pose proof Hsz as Hsz'.
    fold off_of in Hc. set (off := off_of k) in *.
    cbn [encode_entry entry_pointer] in Hc. unfold with_length in Hc.
    unfold wf_cie in Hwf. fold eh le asize in Hwf, Hc.
    apply andb_prop in Hwf. destruct Hwf as [Hwf HL].
    apply andb_prop in Hwf. destruct Hwf as [Hwf Hsetloc].
    apply andb_prop in Hwf. destruct Hwf as [Hwf Hins].
    apply andb_prop in Hwf. destruct Hwf as [Hwf Haug].
    apply andb_prop in Hwf. destruct Hwf as [Hwf Hrar].
    apply andb_prop in Hwf. destruct Hwf as [Hwf Hdaf].
    apply andb_prop in Hwf. destruct Hwf as [Hwf Hcaf].
    apply andb_prop in Hwf. destruct Hwf as [Hwf Hdbg].
    apply andb_prop in Hwf. destruct Hwf as [Hver Hehfmt].
    assert (Hver' : c_version c0 = 1 \/ c_version c0 = 3 \/ c_version c0 = 4) by lia.
    unfold wf_length in HL.
    unfold entry_size. cbn [encode_entry]. rewrite with_length_size. fold eh le asize.
    set (fmt64 := c_fmt64 c0) in *.
    set (L := zlen (cie_body eh le asize c0)) in *.
    unfold cie_body in Hc. fold fmt64 in Hc.
    set (ID := int_encode le (offset_size fmt64) (cie_id eh fmt64)) in *.
    set (FX := cie_fixed asize c0) in *.
    set (AP := cie_augpart le asize c0) in *.
    set (IN := encode_instrs le asize (c_instrs c0)) in *.
    assert (HLsum : L = zlen ID + zlen FX + zlen AP + zlen IN).
    { unfold L, cie_body. fold fmt64 ID FX AP IN. rewrite !zlen_app. lia. }
    assert (HID : zlen ID = if fmt64 then 8 else 4).
    { unfold ID, zlen. rewrite int_encode_length. destruct fmt64; reflexivity. }
    pose proof (zlen_nonneg FX) as HFX. pose proof (zlen_nonneg AP) as HAP.
    pose proof (zlen_nonneg IN) as HIN.
    set (W := if fmt64 then 0xffffffff else L).
    assert (HWfits : fits_u 4 W = true).
    { unfold W, fits_u, initial_length_wf in *. change (2 ^ (8 * Z.of_nat 4)) with 4294967296.
      destruct fmt64; lia. }
    assert (HW0 : (W =? 0) = false) by (unfold W; destruct fmt64; lia).
    assert (HW64 : (W =? 0xFFFFFFFF) = fmt64).
    { unfold W, initial_length_wf in *. destruct fmt64; lia. }
    set (St := structs_for le (fmtz fmt64) asize).
    (* cursors *)
    assert (Hc1 : cursor (encode_section s) off
                    (int_encode le 4 W ++ (if fmt64 then int_encode le 8 L else [])
                     ++ ID ++ FX ++ AP ++ IN ++ post)).
    { rewrite initial_length_words in Hc. fold W in Hc. rewrite <- !app_assoc in Hc. exact Hc. }
    rewrite <- !app_assoc in Hc.
    pose proof (cursor_step _ _ _ _ Hc) as Hc2. rewrite initial_length_size in Hc2.
    assert (Hc3 : cursor (encode_section s) off
                    ((initial_length_encode le L fmt64 ++ ID ++ FX) ++ AP ++ IN ++ post)).
    { rewrite <- !app_assoc. exact Hc. }
    pose proof (cursor_step _ _ _ _ Hc3) as Hc4.
    rewrite !zlen_app, initial_length_size in Hc4.
    pose proof (cursor_step _ _ _ _ Hc4) as Hc5.
    (* the code *)
    unfold parse_entry_at_body. rewrite Hmiss.
    unfold self. cbn [cfi_of base_structs stream for_eh_frame].
    fold le asize eh.
    erewrite (run_at_cursor _ _ off (int_encode le 4 W) _ _ Hsz' Hc1)
      by (apply (uint32_ok le 32 asize); exact HWfits).
    cbn [bind]. rewrite HW0, andb_false_r. cbv beta zeta. rewrite HW64.
    cbn [little_endian address_size].
    change (mkstructs le (if fmt64 then 64 else 32) (Z.of_nat asize)) with St.
    assert (Hilfs : initial_length_field_size St = if fmt64 then 12 else 4) by apply ilfs_fmt.
    rewrite !Hilfs.
    erewrite (run_at_cursor _ _ _ ID _ _ Hsz' Hc2)
      by (apply offset_ok; apply cie_id_fits).
    cbn [bind].
    assert (HisCIE : (if eh then cie_id eh fmt64 =? 0
                      else ((if fmt64 then 64 else 32) =? 32) && (cie_id eh fmt64 =? 0xFFFFFFFF)
                           || (cie_id eh fmt64 =? 0xFFFFFFFFFFFFFFFF)) = true).
    { destruct eh, fmt64; reflexivity. }
    rewrite HisCIE.
    erewrite (run_at_cursor _ _ off _ _ _ Hsz' Hc3)
      by (rewrite <- !app_assoc; apply cie_header_ok; assumption).
    cbn [bind]. rewrite !zlen_app, initial_length_size.
    pose proof (cie_augmentation_ok s (cfi_of s) c0 L _ (IN ++ post) (fmtz fmt64) Ha' eq_refl Hdbg
                                    Hsz' Haug Hc4) as Haugp.
    cbv zeta in Haugp. fold eh le asize in Haugp. fold St AP in Haugp. rewrite Haugp.
    cbn [bind].
    set (P4 := off + ((if fmt64 then 12 else 4) + (zlen ID + zlen FX)) + zlen AP) in *.
    cbn [cie_hdr ch_length].
    replace (off + L + (if fmt64 then 12 else 4)) with (P4 + zlen IN) by (unfold P4; lia).
    assert (Hfuel : (length (c_instrs c0) < S (length (encode_section s)))%nat).
    { pose proof (encode_instrs_length le asize (c_instrs c0)) as H1. fold IN in H1.
      pose proof (cursor_len _ _ _ Hc5) as H2. destruct Hc5 as [H3 _].
      rewrite zlen_app in H2. pose proof (zlen_nonneg post). unfold zlen in *. lia. }
    unfold St, IN.
    rewrite (parse_instructions_at le (fmtz fmt64) asize Ha' (c_instrs c0) _ P4 post _ Hsz' Hins
                                   Hc5 Hfuel).
    cbn [bind]. fold IN.
    replace (P4 + zlen IN) with (off + ((if fmt64 then 12 else 4) + L)) by (unfold P4; lia).
    reflexivity.
  Qed.


  Lemma cie_at_ok rec cc pos k c0 :
    nth_error es k = Some (SCie c0) -> cache_ok cc ->
    exists cc' pos',
      parse_entry_at_body self rec cc pos (off_of k) = Ok (view_cie s (off_of k) c0, cc', pos')
      /\ cache_ok cc' /\ pos' = off_of k + entry_size s (SCie c0).
  Proof.
    intros Hk Hc. destruct (cache_get cc (off_of k)) as [e'|] eqn:E.
    - rewrite (hit_ok rec cc pos k _ e' Hc Hk E). eexists; eexists. split; [reflexivity|].
      split; [exact Hc|]. reflexivity.
    - rewrite (cie_miss_ok rec cc pos k c0 Hk E). eexists; eexists. split; [reflexivity|].
      split; [|reflexivity]. apply (cache_ok_set cc k (SCie c0) Hc Hk). discriminate.
  Qed.

  Lemma zero_ok rec cc pos k : nth_error es k = Some SZero -> cache_ok cc ->
    parse_entry_at_body self rec cc pos (off_of k) = Ok (ZERO (off_of k), cc, off_of k + 4).
  Proof.
    intros Hk Hc.
    pose proof (entry_wf s k _ Hfrom Hk) as Hwf. cbn [wf_entry] in Hwf.
    destruct (entry_cursor s k _ Hk) as (post & Hcur). cbn [encode_entry] in Hcur.
    fold off_of in Hcur. pose proof Hsz as Hsz'.
    unfold parse_entry_at_body.
    destruct (cache_get cc (off_of k)) as [e'|] eqn:E.
    { destruct (cache_hit cc k _ e' Hc Hk E) as [_ Hne]. contradiction. }
    unfold self. cbn [cfi_of base_structs stream for_eh_frame].
    erewrite (run_at_cursor _ _ _ (int_encode (s_le s) 4 0) _ _ Hsz' Hcur)
      by (apply (uint32_ok (s_le s) 32 (s_asize s)); reflexivity).
    cbn [bind]. rewrite Hwf. cbn [andb Z.eqb]. unfold zlen. rewrite int_encode_length. reflexivity.
  Qed.

  (* what the recursive call must do: on a CIE's offset, with any expected cache *)
  Definition rec_ok (rec : cache -> Z -> Z -> res (entry * cache * Z)) : Prop :=
    forall k c0 cc pos, nth_error es k = Some (SCie c0) -> cache_ok cc ->
    exists cc' pos',
      rec cc pos (off_of k) = Ok (view_cie s (off_of k) c0, cc', pos') /\ cache_ok cc'.

  Lemma rec_ok_fuel fuel : rec_ok (parse_entry_at self (S fuel)).
  Proof.
    intros k c0 cc pos Hk Hc. cbn [parse_entry_at].
    destruct (cie_at_ok (parse_entry_at self fuel) cc pos k c0 Hk Hc) as (cc' & pos' & E & Hc' & _).
    exists cc', pos'. split; assumption.
  Qed.

  Lemma cie_for_fde_ok rec cc pos off f c fmt64 :
    rec_ok rec -> cache_ok cc -> nth_error es (f_cie f) = Some (SCie c) ->
    (eh = true -> fmt64 = false) ->
    exists cc',
      parse_cie_for_fde self rec cc pos off (cie_pointer_of s off f)
                        (structs_for le (fmtz fmt64) asize)
      = Ok (view_cie s (off_of (f_cie f)) c, cc') /\ cache_ok cc'.
  Proof.
    intros Hrec Hc Hk Hfmt. unfold parse_cie_for_fde, cie_pointer_of.
    unfold self. cbn [cfi_of for_eh_frame]. fold eh. cbn [structs_for dwarf_format].
    assert (E : (if eh then off + fmtz fmt64 / 8 - (if eh then off + 4 - entry_offset_of s (f_cie f)
                                                     else entry_offset_of s (f_cie f))
                 else (if eh then off + 4 - entry_offset_of s (f_cie f)
                       else entry_offset_of s (f_cie f))) = off_of (f_cie f)).
    { unfold off_of. destruct eh; [|reflexivity]. rewrite (Hfmt eq_refl). unfold fmtz.
      change (32 / 8) with 4. lia. }
    rewrite E.
    destruct (Hrec (f_cie f) c cc pos Hk Hc) as (cc' & pos' & Er & Hc').
    rewrite Er. cbn [bind]. exists cc'. split; [reflexivity|exact Hc'].
  Qed.

  (* the four header fields of an FDE, the two addresses read by [fld] *)
  Lemma fde_hdr_parse fmt64 (fld : parser Z) L p loc rng LOC RNG rest :
    initial_length_wf L fmt64 = true -> fits_u (offset_size fmt64) p = true ->
    (forall t, fld (LOC ++ t) = Ok (loc, t)) -> (forall t, fld (RNG ++ t) = Ok (rng, t)) ->
    (let* length := Dwarf_initial_length (structs_for le (fmtz fmt64) asize) in
     let* CIE_pointer := Dwarf_offset (structs_for le (fmtz fmt64) asize) in
     let* initial_location := fld in
     let* address_range := fld in
     pret (mkfde_header length CIE_pointer initial_location address_range))
      (initial_length_encode le L fmt64 ++ int_encode le (offset_size fmt64) p ++ LOC ++ RNG ++ rest)
    = Ok (mkfde_header L p loc rng, rest).
  Proof.
    intros HL Hp Hloc Hrng.
    erewrite pbind_ok by (apply initial_length_ok; exact HL).
    erewrite pbind_ok by (apply offset_ok; exact Hp).
    erewrite pbind_ok by apply Hloc.
    erewrite pbind_ok by apply Hrng.
    reflexivity.
  Qed.


  Lemma wf_cie_aug c : wf_cie s c = true ->
    aug_nodup c = true /\ (eh || negb (has_z c)) = true.
  Proof.
    unfold wf_cie. intros Hwf.
    apply andb_prop in Hwf. destruct Hwf as [Hwf _].
    apply andb_prop in Hwf. destruct Hwf as [Hwf _].
    apply andb_prop in Hwf. destruct Hwf as [Hwf _].
    apply andb_prop in Hwf. destruct Hwf as [Hwf Haug].
    apply andb_prop in Hwf. destruct Hwf as [Hwf _].
    apply andb_prop in Hwf. destruct Hwf as [Hwf _].
    apply andb_prop in Hwf. destruct Hwf as [Hwf _].
    apply andb_prop in Hwf. destruct Hwf as [_ Hdbg].
    split; [|exact Hdbg]. unfold aug_nodup. destruct (c_aug c) as [[len items]|]; [|reflexivity].
    apply andb_prop in Haug. destruct Haug as [Haug _].
    apply andb_prop in Haug. destruct Haug as [_ Hnd]. exact Hnd.
  Qed.

  Lemma eh_cases : eh = true \/ eh = false.
  Proof. destruct eh; auto. Qed.

  Lemma fde_header_ok rec cc off f c L rest :
    rec_ok rec -> cache_ok cc -> nth_error es (f_cie f) = Some (SCie c) -> wf_cie s c = true ->
    (negb eh || negb (f_fmt64 f)) = true ->
    initial_length_wf L (f_fmt64 f) = true ->
    fits_u (offset_size (f_fmt64 f)) (cie_pointer_of s off f) = true ->
    wf_ptr asize (fde_format eh c) (f_loc f) = true ->
    wf_ptr asize (fde_format eh c) (f_range f) = true ->
    cursor (encode_section s) off
           (initial_length_encode le L (f_fmt64 f)
            ++ int_encode le (offset_size (f_fmt64 f)) (cie_pointer_of s off f)
            ++ encode_ptr le asize (fde_format eh c) (f_loc f)
            ++ encode_ptr le asize (fde_format eh c) (f_range f) ++ rest) ->
    exists c1,
      parse_fde_header self rec cc (structs_for le (fmtz (f_fmt64 f)) asize) off
      = Ok (mkfde_header L (cie_pointer_of s off f)
                         (ptr_meaning (fde_pcrel eh c) (s_addr s) (loc_field_off off f)
                                      (lv (f_loc f)))
                         (lv (f_range f)),
            c1,
            off + (zlen (initial_length_encode le L (f_fmt64 f))
                   + zlen (int_encode le (offset_size (f_fmt64 f)) (cie_pointer_of s off f))
                   + zlen (encode_ptr le asize (fde_format eh c) (f_loc f))
                   + zlen (encode_ptr le asize (fde_format eh c) (f_range f))))
      /\ cache_ok c1.
  Proof.
    intros Hrec Hc Hk Hwfc Hfmt HL Hp Hloc Hrng Hcur.
    pose proof Ha as Ha'. pose proof Hsz as Hsz'.
    destruct (wf_cie_aug c Hwfc) as [Hnd Hz].
    set (fmt64 := f_fmt64 f) in *. set (p := cie_pointer_of s off f) in *.
    set (St := structs_for le (fmtz fmt64) asize).
    set (IL := initial_length_encode le L fmt64) in *.
    set (CP := int_encode le (offset_size fmt64) p) in *.
    unfold parse_fde_header. unfold self. cbn [cfi_of for_eh_frame stream address]. fold eh.
    destruct eh_cases as [Heh|Heh]; rewrite Heh in *; cbn [negb fde_format fde_pcrel] in *.
    - (* .eh_frame *)
      rewrite orb_false_l in Hfmt. apply negb_true_iff in Hfmt.
      set (LOC := encode_ptr le asize (fst (fde_enc c)) (f_loc f)) in *.
      set (RNG := encode_ptr le asize (fst (fde_enc c)) (f_range f)) in *.
      assert (Hc1 : cursor (encode_section s) off ((IL ++ CP) ++ LOC ++ RNG ++ rest))
        by (rewrite <- app_assoc; exact Hcur).
      erewrite (run_at_cursor _ _ off (IL ++ CP) _ (L, p) Hsz' Hc1).
      2: { rewrite <- !app_assoc. unfold IL, CP.
           erewrite pbind_ok by (apply initial_length_ok; exact HL).
           erewrite pbind_ok by (apply offset_ok; exact Hp).
           reflexivity. }
      cbn [bind].
      destruct (cie_for_fde_ok rec cc (off + zlen (IL ++ CP)) off f c fmt64 Hrec Hc Hk)
        as (c1 & E1 & Hc1ok); [intros _; exact Hfmt|].
      fold p St in E1. unfold self in E1. rewrite E1. cbn [bind view_cie entry_augdict].
      rewrite (fde_encoding_view c Hnd).
      destruct (fde_enc c) as [fm pc] eqn:Efe. cbn [fst snd] in *.
      destruct (enc_byte_parts fm pc) as (Hb & Hm & Ho & _).
      rewrite Ho, Hb, Hm, eh_field_of_format.
      assert (Hc2 : cursor (encode_section s) off ((IL ++ CP ++ LOC ++ RNG) ++ rest))
        by (rewrite <- !app_assoc; exact Hcur).
      erewrite (run_at_cursor _ _ off (IL ++ CP ++ LOC ++ RNG) _ _ Hsz' Hc2).
      2: { rewrite <- !app_assoc. unfold IL, CP, St.
           apply (fde_hdr_parse fmt64 _ L p (lv (f_loc f)) (lv (f_range f)) LOC RNG rest HL Hp);
             intros t; apply ptr_field_ok; assumption. }
      cbn [bind]. exists c1. split; [|exact Hc1ok].
      rewrite !zlen_app. destruct pc; cbn [fh_length fh_CIE_pointer fh_initial_location
                                              fh_address_range ptr_meaning].
      + change (16 =? 0) with false. change (16 =? DW_EH_PE_pcrel) with true. cbv iota.
        unfold loc_field_off. fold fmt64. unfold IL, CP. rewrite initial_length_size.
        unfold zlen at 1. rewrite int_encode_length. rewrite Hfmt. cbn [offset_size Z.of_nat Pos.of_succ_nat Pos.succ].
        f_equal. f_equal; [f_equal; f_equal; lia|lia].
      + change (0 =? 0) with true. cbv iota. f_equal. f_equal. lia.
    - (* .debug_frame *)
      set (LOC := encode_ptr le asize PAbsptr (f_loc f)) in *.
      set (RNG := encode_ptr le asize PAbsptr (f_range f)) in *.
      assert (Hc2 : cursor (encode_section s) off ((IL ++ CP ++ LOC ++ RNG) ++ rest))
        by (rewrite <- !app_assoc; exact Hcur).
      erewrite (run_at_cursor _ _ off (IL ++ CP ++ LOC ++ RNG) _ _ Hsz' Hc2).
      2: { rewrite <- !app_assoc. unfold IL, CP, Dwarf_FDE_header.
           apply (fde_hdr_parse fmt64 _ L p (lv (f_loc f)) (lv (f_range f)) LOC RNG rest HL Hp);
             intros t; apply target_addr_ok; assumption. }
      cbn [bind]. exists cc. split; [|exact Hc].
      rewrite !zlen_app. cbn [ptr_meaning]. f_equal. f_equal. lia.
  Qed.


  (* the FDE's augmentation data bytes *)
  Lemma fde_augbytes_ok c f p3 rest :
    wf_cie s c = true ->
    (negb (fde_has_auglen eh c)
     || (wf_uleb (f_auglen f)
         && (lv (f_auglen f) =? zlen (fde_lsda_bytes eh le asize c f)))) = true ->
    cursor (encode_section s) p3 (fde_augpart eh le asize c f ++ rest) ->
    (if startswith (aug_string c) [ch_z] then read_augmentation_data self p3 else Ok ([], p3))
    = Ok ((if fde_has_auglen eh c then fde_lsda_bytes eh le asize c f else []),
          p3 + zlen (fde_augpart eh le asize c f)).
  Proof.
    intros Hwfc Hal Hcur. pose proof Hsz as Hsz'.
    destruct (wf_cie_aug c Hwfc) as [_ Hz].
    unfold fde_augpart, fde_has_auglen, aug_string, has_z in *.
    destruct (c_aug c) as [[len items]|].
    - rewrite startswith_z. cbn [negb] in Hz. rewrite orb_false_r in Hz. rewrite Hz in *.
      cbn [andb negb orb] in *. apply andb_prop in Hal. destruct Hal as [Hu Hl].
      apply Z.eqb_eq in Hl.
      unfold read_augmentation_data, self. cbn [cfi_of for_eh_frame stream]. fold eh.
      rewrite Hz. cbn [negb].
      rewrite <- app_assoc in Hcur.
      erewrite (run_at_cursor _ _ p3 (lb (f_auglen f)) _ _ Hsz' Hcur) by (apply uleb_ok; exact Hu).
      cbn [bind]. apply cursor_step in Hcur. rewrite Hl.
      erewrite (run_at_cursor _ _ _ _ _ _ Hsz' Hcur) by apply read_n_ok.
      rewrite zlen_app. f_equal. f_equal. lia.
    - change (startswith [] [ch_z]) with false. rewrite andb_false_r.
      change (zlen []) with 0. rewrite Z.add_0_r. reflexivity.
  Qed.

  (* the LSDA pointer *)
  Lemma fde_lsda_ok c f p3 rest fmt :
    wf_cie s c = true ->
    (negb (fde_has_auglen eh c)
     || (wf_uleb (f_auglen f)
         && (lv (f_auglen f) =? zlen (fde_lsda_bytes eh le asize c f)))) = true ->
    match fde_lsda_enc eh c with
    | Some (fm, _) => wf_ptr asize fm (f_lsda f)
    | None => true
    end = true ->
    cursor (encode_section s) p3 (fde_augpart eh le asize c f ++ rest) ->
    let AB := if fde_has_auglen eh c then fde_lsda_bytes eh le asize c f else [] in
    let p4 := p3 + zlen (fde_augpart eh le asize c f) in
    (if negb (lsda_byte (lsda_enc c) =? DW_EH_PE_omit)
     then do (ptr, p) <- parse_lsda_pointer self (structs_for le fmt asize) (p4 - zlen AB)
                                           (lsda_byte (lsda_enc c));
          Ok (Some ptr, p)
     else Ok (None, p4))
    = Ok (match fde_lsda_enc eh c with
          | Some (_, pc) =>
              Some (ptr_meaning pc (s_addr s) (p3 + zlen (lb (f_auglen f))) (lv (f_lsda f)))
          | None => None
          end, p4).
  Proof.
    intros Hwfc Hal Hl Hcur. cbv zeta. pose proof Hsz as Hsz'. pose proof Ha as Ha'.
    destruct (wf_cie_aug c Hwfc) as [_ Hz].
    unfold fde_augpart, fde_lsda_bytes, fde_has_auglen, fde_lsda_enc, has_z, lsda_enc, aug_items in *.
    destruct (c_aug c) as [[len items]|].
    - cbn [negb] in Hz. rewrite orb_false_r in Hz. rewrite Hz in *.
      cbn [andb negb orb] in *. apply andb_prop in Hal. destruct Hal as [Hu Hlen].
      apply Z.eqb_eq in Hlen.
      destruct (find_L items) as [[fm pc]|].
      + cbn [lsda_byte]. destruct (enc_byte_parts fm pc) as (Hb & Hm & Ho & _).
        rewrite Ho. cbn [negb].
        unfold parse_lsda_pointer. rewrite Ho, Hb, Hm, eh_field_of_format.
        unfold self. cbn [cfi_of stream address].
        rewrite <- app_assoc in Hcur. apply cursor_step in Hcur.
        rewrite zlen_app.
        replace (p3 + (zlen (lb (f_auglen f)) + zlen (encode_ptr le asize fm (f_lsda f)))
                 - zlen (encode_ptr le asize fm (f_lsda f)))
          with (p3 + zlen (lb (f_auglen f))) by lia.
        erewrite (run_at_cursor _ _ _ _ _ _ Hsz' Hcur) by (apply ptr_field_ok; assumption).
        cbn [bind].
        replace (p3 + zlen (lb (f_auglen f)) + zlen (encode_ptr le asize fm (f_lsda f)))
          with (p3 + (zlen (lb (f_auglen f)) + zlen (encode_ptr le asize fm (f_lsda f)))) by lia.
        destruct pc; cbn [ptr_meaning].
        * change (16 =? DW_EH_PE_absptr) with false. change (16 =? DW_EH_PE_pcrel) with true.
          reflexivity.
        * change (0 =? DW_EH_PE_absptr) with true. reflexivity.
      + reflexivity.
    - rewrite andb_false_r in *. destruct eh; reflexivity.
  Qed.


  Lemma augmentation_view o c : entry_augmentation (view_cie s o c) = Ok (aug_string c).
  Proof. reflexivity. Qed.
  Lemma augdict_view o c : entry_augdict (view_cie s o c) = Ok (view_augdict c).
  Proof. reflexivity. Qed.

  Lemma fde_miss_ok rec cc pos k f :
    rec_ok rec -> nth_error es k = Some (SFde f) -> cache_ok cc ->
    cache_get cc (off_of k) = None ->
    exists cc',
      parse_entry_at_body self rec cc pos (off_of k)
      = Ok (view_fde s (off_of k) f, cc', off_of k + entry_size s (SFde f))
      /\ cache_ok cc'.
  Proof.
    intros Hrec Hk Hcc Hmiss.
    pose proof (entry_wf s k _ Hfrom Hk) as Hwf. cbn [wf_entry] in Hwf.
    destruct (entry_cursor s k _ Hk) as (post & Hc).
    pose proof Ha as Ha'. pose proof Hsz as Hsz'.
    fold off_of in Hc, Hwf. set (off := off_of k) in *.
    cbn [encode_entry entry_pointer] in Hc. unfold with_length in Hc.
    unfold wf_fde in Hwf. fold es in Hwf, Hc.
    destruct (nth_error es (f_cie f)) as [[c| |]|] eqn:Hcie; try discriminate.
    assert (Hcat : cie_at es (f_cie f) = c) by (unfold cie_at; rewrite Hcie; reflexivity).
    rewrite Hcat in Hc.
    pose proof (entry_wf s (f_cie f) _ Hfrom Hcie) as Hwfc. cbn [wf_entry] in Hwfc.
    fold eh le asize in Hwf, Hc. cbv zeta in Hwf.
    apply andb_prop in Hwf. destruct Hwf as [Hwf HL].
    apply andb_prop in Hwf. destruct Hwf as [Hwf Hsetloc].
    apply andb_prop in Hwf. destruct Hwf as [Hwf Hins].
    apply andb_prop in Hwf. destruct Hwf as [Hwf Hal].
    apply andb_prop in Hwf. destruct Hwf as [Hwf Hlsda].
    apply andb_prop in Hwf. destruct Hwf as [Hwf Hrng0].
    apply andb_prop in Hwf. destruct Hwf as [Hwf Hrng].
    apply andb_prop in Hwf. destruct Hwf as [Hwf Hloc].
    apply andb_prop in Hwf. destruct Hwf as [Hfmt Hp].
    apply andb_prop in Hp. destruct Hp as [Hp Hpne]. apply negb_true_iff in Hpne.
    unfold wf_length in HL.
    unfold entry_size. cbn [encode_entry]. rewrite with_length_size. fold es.
    rewrite Hcat, <- (fde_body_len s c (cie_pointer_of s off f) f). fold eh le asize.
    set (fmt64 := f_fmt64 f) in *. set (p := cie_pointer_of s off f) in *.
    set (L := zlen (fde_body eh le asize c p f)) in *.
    unfold fde_body in Hc. fold fmt64 in Hc.
    set (IL := initial_length_encode le L fmt64) in *.
    set (CP := int_encode le (offset_size fmt64) p) in *.
    set (LOC := encode_ptr le asize (fde_format eh c) (f_loc f)) in *.
    set (RNG := encode_ptr le asize (fde_format eh c) (f_range f)) in *.
    set (AP := fde_augpart eh le asize c f) in *.
    set (IN := encode_instrs le asize (f_instrs f)) in *.
    assert (HLsum : L = zlen CP + zlen LOC + zlen RNG + zlen AP + zlen IN).
    { unfold L, fde_body. fold fmt64 CP LOC RNG AP IN. rewrite !zlen_app. lia. }
    assert (HCP : zlen CP = if fmt64 then 8 else 4).
    { unfold CP, zlen. rewrite int_encode_length. destruct fmt64; reflexivity. }
    assert (HIL : zlen IL = if fmt64 then 12 else 4) by apply initial_length_size.
    pose proof (zlen_nonneg LOC) as HLOC. pose proof (zlen_nonneg RNG) as HRNG.
    pose proof (zlen_nonneg AP) as HAP. pose proof (zlen_nonneg IN) as HIN.
    set (W := if fmt64 then 0xffffffff else L).
    assert (HWfits : fits_u 4 W = true).
    { unfold W, fits_u, initial_length_wf in *. change (2 ^ (8 * Z.of_nat 4)) with 4294967296.
      destruct fmt64; lia. }
    assert (HW0 : (W =? 0) = false) by (unfold W; destruct fmt64; lia).
    assert (HW64 : (W =? 0xFFFFFFFF) = fmt64).
    { unfold W, initial_length_wf in *. destruct fmt64; lia. }
    set (St := structs_for le (fmtz fmt64) asize).
    assert (Hilfs : initial_length_field_size St = if fmt64 then 12 else 4) by apply ilfs_fmt.
    (* cursors *)
    rewrite <- !app_assoc in Hc.
    assert (Hc1 : cursor (encode_section s) off
                    (int_encode le 4 W ++ (if fmt64 then int_encode le 8 L else [])
                     ++ CP ++ LOC ++ RNG ++ AP ++ IN ++ post)).
    { unfold IL in Hc. rewrite initial_length_words in Hc. fold W in Hc.
      rewrite <- !app_assoc in Hc. exact Hc. }
    pose proof (cursor_step _ _ _ _ Hc) as Hc2. rewrite HIL in Hc2.
    assert (Hc3 : cursor (encode_section s) off
                    ((IL ++ CP ++ LOC ++ RNG) ++ AP ++ IN ++ post)).
    { rewrite <- !app_assoc. exact Hc. }
    pose proof (cursor_step _ _ _ _ Hc3) as Hc4. rewrite !zlen_app in Hc4.
    set (P3 := off + (zlen IL + (zlen CP + (zlen LOC + zlen RNG)))) in *.
    pose proof (cursor_step _ _ _ _ Hc4) as Hc5.
    (* the code *)
    unfold parse_entry_at_body. rewrite Hmiss.
    unfold self. cbn [cfi_of base_structs stream for_eh_frame].
    fold le asize eh.
    erewrite (run_at_cursor _ _ off (int_encode le 4 W) _ _ Hsz' Hc1)
      by (apply (uint32_ok le 32 asize); exact HWfits).
    cbn [bind]. rewrite HW0, andb_false_r. cbv beta zeta. rewrite HW64.
    cbn [little_endian address_size].
    change (mkstructs le (if fmt64 then 64 else 32) (Z.of_nat asize)) with St.
    rewrite !Hilfs.
    erewrite (run_at_cursor _ _ _ CP _ _ Hsz' Hc2) by (apply offset_ok; exact Hp).
    cbn [bind].
    assert (HisCIE : (if eh then p =? 0
                      else ((if fmt64 then 64 else 32) =? 32) && (p =? 0xFFFFFFFF)
                           || (p =? 0xFFFFFFFFFFFFFFFF)) = false).
    { apply fits_u_range in Hp. unfold cie_id in Hpne.
      destruct eh_cases as [E|E]; rewrite E in *; [exact Hpne|].
      destruct fmt64; cbn [offset_size] in Hp.
      - change (2 ^ (8 * Z.of_nat 8)) with 18446744073709551616 in Hp. rewrite Hpne. reflexivity.
      - change (2 ^ (8 * Z.of_nat 4)) with 4294967296 in Hp. rewrite Hpne.
        destruct (Z.eqb_spec p 0xFFFFFFFFFFFFFFFF); [lia|reflexivity]. }
    rewrite HisCIE.
    (* header *)
    destruct (fde_header_ok rec cc off f c L (AP ++ IN ++ post) Hrec Hcc Hcie Hwfc Hfmt HL Hp Hloc
                            Hrng Hc) as (c1 & Ehdr & Hc1ok).
    fold fmt64 p St IL CP LOC RNG in Ehdr. unfold self in Ehdr. rewrite Ehdr. cbn [bind fh_CIE_pointer].
    replace (off + (zlen IL + zlen CP + zlen LOC + zlen RNG)) with P3 by (unfold P3; lia).
    assert (Hehfmt : eh = true -> fmt64 = false).
    { intros E. rewrite E in Hfmt. cbn [negb orb] in Hfmt. apply negb_true_iff in Hfmt. exact Hfmt. }
    destruct (cie_for_fde_ok rec c1 P3 off f c fmt64 Hrec Hc1ok Hcie Hehfmt) as (c2 & E2 & Hc2ok).
    fold p St in E2. unfold self in E2. rewrite E2. cbn [bind].
    rewrite augmentation_view. cbn [bind].
    pose proof (fde_augbytes_ok c f P3 (IN ++ post) Hwfc Hal Hc4) as Eab.
    fold AP in Eab. unfold self in Eab. rewrite Eab. cbn [bind].
    rewrite augdict_view. cbn [bind].
    destruct (wf_cie_aug c Hwfc) as [Hnd Hz].
    rewrite (lsda_encoding_view c Hnd).
    pose proof (fde_lsda_ok c f P3 (IN ++ post) (fmtz fmt64) Hwfc Hal Hlsda Hc4) as Els.
    cbv zeta in Els. fold AP St in Els. unfold self in Els. rewrite Els. cbn [bind].
    (* instructions *)
    set (P5 := P3 + zlen AP) in *. cbn [fh_length].
    replace (off + L + (if fmt64 then 12 else 4)) with (P5 + zlen IN)
      by (unfold P5, P3; lia).
    assert (Hfuel : (length (f_instrs f) < S (length (encode_section s)))%nat).
    { pose proof (encode_instrs_length le asize (f_instrs f)) as H1. fold IN in H1.
      pose proof (cursor_len _ _ _ Hc5) as H2. destruct Hc5 as [H3 _].
      rewrite zlen_app in H2. pose proof (zlen_nonneg post). unfold zlen in *. lia. }
    unfold St, IN.
    rewrite (parse_instructions_at le (fmtz fmt64) asize Ha' (f_instrs f) _ P5 post _ Hsz' Hins
                                   Hc5 Hfuel).
    cbn [bind]. fold IN St.
    destruct (cie_for_fde_ok rec c2 (P5 + zlen IN) off f c fmt64 Hrec Hc2ok Hcie Hehfmt)
      as (c3 & E3 & Hc3ok).
    fold p St in E3. unfold self in E3. rewrite E3. cbn [bind].
    match goal with
    | |- exists cc', Ok (?e, _, _) = _ /\ _ => assert (Hview : e = view_fde s off f)
    end.
    { unfold view_fde. fold es. rewrite Hcat. cbv zeta. fold eh le asize.
      fold fmt64 p. fold L. unfold off_of.
      replace (lsda_field_off s off c f) with (P3 + zlen (lb (f_auglen f))); [reflexivity|].
      unfold lsda_field_off, loc_field_off. fold eh le asize fmt64 LOC RNG. unfold P3. lia. }
    rewrite Hview.
    exists (cache_set c3 off (view_fde s off f)). split.
    - f_equal. f_equal. unfold P5, P3. lia.
    - apply (cache_ok_set c3 k (SFde f) Hc3ok Hk). discriminate.
  Qed.


  Lemma entry_at_ok fuel cc k e :
    nth_error es k = Some e -> cache_ok cc ->
    exists cc',
      parse_entry_at self (S (S fuel)) cc (off_of k) (off_of k)
      = Ok (view_entry s (off_of k) e, cc', off_of k + entry_size s e) /\ cache_ok cc'.
  Proof.
    intros Hk Hc.
    change (parse_entry_at self (S (S fuel)) cc (off_of k) (off_of k))
      with (parse_entry_at_body self (parse_entry_at self (S fuel)) cc (off_of k) (off_of k)).
    destruct e as [c|f|].
    - destruct (cie_at_ok (parse_entry_at self (S fuel)) cc (off_of k) k c Hk Hc)
        as (cc' & pos' & E & Hc' & Hpos).
      exists cc'. rewrite E, Hpos. split; [reflexivity|exact Hc'].
    - destruct (cache_get cc (off_of k)) as [e'|] eqn:Eg.
      + rewrite (hit_ok _ cc (off_of k) k _ e' Hc Hk Eg). exists cc. split; [reflexivity|exact Hc].
      + destruct (fde_miss_ok (parse_entry_at self (S fuel)) cc (off_of k) k f (rec_ok_fuel fuel)
                              Hk Hc Eg) as (cc' & E & Hc').
        exists cc'. split; assumption.
    - rewrite (zero_ok _ cc (off_of k) k Hk Hc). exists cc. split; [|exact Hc].
      unfold entry_size. cbn [encode_entry view_entry]. unfold zlen. rewrite int_encode_length.
      reflexivity.
  Qed.

  Lemma offset_in_0 l : offset_in s l 0 = 0.
  Proof. destruct l; reflexivity. Qed.

  (* the scan loop *)
  Lemma loop_ok : forall l pre cc fuel, es = pre ++ l -> cache_ok cc -> (length l < fuel)%nat ->
    parse_entries_loop self fuel cc (off_of (length pre))
    = Ok (view_from s (off_of (length pre)) l).
  Proof.
    induction l as [|e r IH]; intros pre cc fuel Hes Hc Hf;
      (destruct fuel as [|fuel]; [cbn [length] in Hf; lia|]); cbn [parse_entries_loop].
    - rewrite app_nil_r in Hes. subst pre.
      unfold self. cbn [cfi_of size]. rewrite section_size. unfold off_of, entry_offset_of.
      fold es. rewrite Z.ltb_irrefl. reflexivity.
    - assert (Hk : nth_error es (length pre) = Some e).
      { rewrite Hes, nth_error_app2, Nat.sub_diag by lia. reflexivity. }
      pose proof (entry_end_le s _ _ Hk) as Hend. pose proof (entry_size_pos s e) as Hpos.
      fold off_of in Hend.
      unfold self at 1. cbn [cfi_of size].
      destruct (Z.ltb_spec (off_of (length pre)) (zlen (encode_section s))); [|lia].
      change 1000%nat with (S (S 998)).
      destruct (entry_at_ok 998 cc (length pre) e Hk Hc) as (cc' & E & Hc').
      rewrite E. cbn [bind].
      assert (Hnext : off_of (length pre) + entry_size s e = off_of (length (pre ++ [e]))).
      { rewrite app_length. cbn [length]. rewrite Nat.add_1_r. unfold off_of, entry_offset_of.
        fold es. rewrite (offset_in_S s es _ _ Hk). reflexivity. }
      cbn [view_from]. rewrite Hnext.
      rewrite (IH (pre ++ [e]) cc' fuel); [reflexivity| |exact Hc'|cbn [length] in Hf; lia].
      rewrite <- app_assoc. exact Hes.
  Qed.

  Theorem entries_roundtrip_s : get_entries self = Ok (expected_entries s).
  Proof.
    unfold get_entries, expected_entries. fold es.
    pose proof (loop_ok es [] [] (S (Z.to_nat (size self))) eq_refl cache_ok_nil) as H.
    cbn [length] in H. unfold off_of, entry_offset_of in H. rewrite offset_in_0 in H.
    apply H. unfold self. cbn [cfi_of size]. rewrite section_size.
    pose proof (length_le_offset s es) as Hle. unfold es in *. lia.
  Qed.
End Entries.

(* ================================================================ the theorem *)
Theorem entries_roundtrip s :
  wf_section s = true -> get_entries (cfi_of s) = Ok (expected_entries s).
Proof. intros H. apply entries_roundtrip_s. exact H. Qed.

(* ================================================================ tables of a section's entries *)
Lemma wf_instr_low6 asize i : wf_instr asize i = true -> low6_ok i = true.
Proof.
  destruct i; cbn [wf_instr low6_ok]; intros H; try reflexivity; try exact H.
  apply andb_prop in H. destruct H as [H _]. exact H.
Qed.
Lemma wf_instrs_low6 asize is : wf_instrs asize is = true -> low6_all is = true.
Proof.
  unfold wf_instrs, low6_all. induction is as [|i r IH]; [reflexivity|].
  cbn [forallb]. intros H. apply andb_prop in H. destruct H as [Hi Hr].
  rewrite (wf_instr_low6 _ _ Hi), (IH Hr). reflexivity.
Qed.

Lemma wf_cie_instrs s c : wf_cie s c = true -> wf_instrs (s_asize s) (c_instrs c) = true.
Proof.
  unfold wf_cie. intros Hwf.
  apply andb_prop in Hwf. destruct Hwf as [Hwf _].
  apply andb_prop in Hwf. destruct Hwf as [Hwf _].
  apply andb_prop in Hwf. destruct Hwf as [_ H]. exact H.
Qed.

Lemma view_from_nth s l : forall off k e, nth_error l k = Some e ->
  nth_error (view_from s off l) k = Some (view_entry s (off + offset_in s l k) e).
Proof.
  induction l as [|x r IH]; intros off [|k] e H; cbn [nth_error] in H; try discriminate.
  - inversion H; subst. cbn [view_from nth_error offset_in]. rewrite Z.add_0_r. reflexivity.
  - cbn [view_from nth_error offset_in]. rewrite Z.add_assoc. apply IH. exact H.
Qed.

(* entry number k of the section is reported as the view of entry k at its offset *)
Theorem expected_entries_nth s k e : nth_error (s_entries s) k = Some e ->
  nth_error (expected_entries s) k = Some (view_entry s (entry_offset_of s k) e).
Proof.
  intros H. unfold expected_entries, entry_offset_of.
  rewrite (view_from_nth s _ 0 k e H). rewrite Z.add_0_l. reflexivity.
Qed.

(* ... and its decoded table is the table section 6.4 gives that entry *)
Theorem section_tables s k e t :
  wf_section s = true -> nth_error (s_entries s) k = Some e ->
  expected_table s (entry_offset_of s k) e = Some t ->
  entry_domain s (entry_offset_of s k) e = true ->
  result_matches (get_decoded (view_entry s (entry_offset_of s k) e)) t.
Proof.
  intros Hwf Hk Ht Hd. pose proof (entry_wf s k e (Hfrom s Hwf) Hk) as Hwe.
  destruct e as [c|f|]; cbn [view_entry expected_table entry_domain wf_entry] in *.
  - rewrite get_decoded_view_cie. apply table_equal_cie; try assumption.
    apply (wf_instrs_low6 (s_asize s)). apply wf_cie_instrs. exact Hwe.
  - rewrite get_decoded_view_fde. cbv zeta in *.
    unfold wf_fde in Hwe. unfold cie_at in *.
    destruct (nth_error (s_entries s) (f_cie f)) as [[c| |]|] eqn:Hcie; try discriminate.
    pose proof (entry_wf s (f_cie f) _ (Hfrom s Hwf) Hcie) as Hwc. cbn [wf_entry] in Hwc.
    apply andb_prop in Hwe. destruct Hwe as [Hwe _].
    apply andb_prop in Hwe. destruct Hwe as [Hwe _].
    apply andb_prop in Hwe. destruct Hwe as [_ Hfi].
    apply table_equal_fde; try assumption.
    + apply (wf_instrs_low6 (s_asize s)). apply wf_cie_instrs. exact Hwc.
    + apply (wf_instrs_low6 (s_asize s)). exact Hfi.
  - discriminate.
Qed.

(* ================================================================ the DWARFInfo entry points *)
From PV Require Import Model.C06Dwarfinfo.

(* the descriptor of a generated section under any descriptive name and container offset *)
Definition desc_of (name : option (list Z)) (goff : Z) (s : ssection) : DebugSectionDescriptor :=
  mkdsd (encode_section s) name goff (zlen (encode_section s)) (s_addr s).

(* one DWARFInfo holding a .debug_frame and an .eh_frame section: whatever the names and offsets
   in the descriptors (equal, None, swapped), each entry point returns the entries of ITS section *)
Theorem dwarfinfo_entries sd se nd ne gd ge :
  s_eh sd = false -> s_eh se = true -> s_le sd = s_le se -> s_asize sd = s_asize se ->
  wf_section sd = true -> wf_section se = true ->
  let di := mkdwarfinfo (Some (desc_of nd gd sd)) (Some (desc_of ne ge se))
                        (mkstructs (s_le sd) 32 (Z.of_nat (s_asize sd))) in
  CFI_entries di = Ok (expected_entries sd) /\ EH_CFI_entries di = Ok (expected_entries se).
Proof.
  intros Hd He Hle Has Hwd Hwe di. split.
  - rewrite <- (entries_roundtrip sd Hwd). unfold CFI_entries, cfi_of, di, desc_of.
    cbn [debug_frame_sec d_stream d_size d_address di_structs]. rewrite Hd. reflexivity.
  - rewrite <- (entries_roundtrip se Hwe). unfold EH_CFI_entries, cfi_of, di, desc_of.
    cbn [eh_frame_sec d_stream d_size d_address di_structs]. rewrite He, Hle, Has. reflexivity.
Qed.

(* ... in every history of calls on that object *)
Theorem dwarfinfo_calls sd se nd ne gd ge calls :
  s_eh sd = false -> s_eh se = true -> s_le sd = s_le se -> s_asize sd = s_asize se ->
  wf_section sd = true -> wf_section se = true ->
  cfi_calls (mkdwarfinfo (Some (desc_of nd gd sd)) (Some (desc_of ne ge se))
                         (mkstructs (s_le sd) 32 (Z.of_nat (s_asize sd)))) calls
  = map (fun eh : bool => Ok (expected_entries (if eh then se else sd))) calls.
Proof.
  intros Hd He Hle Has Hwd Hwe.
  destruct (dwarfinfo_entries sd se nd ne gd ge Hd He Hle Has Hwd Hwe) as [E1 E2].
  unfold cfi_calls. apply map_ext. intros [|]; assumption.
Qed.
