(* Proofs/PyFunsC20.v — arm_expand_prel31 as TRANSLATED from the live source (Gen/PyFuns.v) equals
   the hand model of Model/C20Ehabi.v and therefore the EHABI prel31 specification. *)
From Coq Require Import ZArith.
From PV Require Import Gen.PyFuns Spec.C20Ehabi Model.C20Ehabi Proofs.C20Ehabi.
Open Scope Z_scope.

Lemma gen_prel31_is_model : forall address place,
  gen_arm_expand_prel31 address place = arm_expand_prel31 address place.
Proof. intros. reflexivity. Qed.

Lemma gen_prel31_spec : forall w place, gen_arm_expand_prel31 w place = prel31_spec w place.
Proof. intros. rewrite gen_prel31_is_model. apply prel31_model_spec. Qed.
