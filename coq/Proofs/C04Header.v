(* Proofs/C04Header.v — unit header round trips (DESIGN 4.4 T2, first half):
   DWARFInfo._parse_CU_at_offset / _parse_TU_at_offset over the standard's header
   encoding, placed at any offset of the section, followed by anything. *)
From Coq Require Import String.
From PV Require Import Base.Outcome Base.Prim Spec.PrimSpec Spec.C04Desc Spec.C04Spec Gen.C04Forms Model.C04Model
                       Proofs.PrimProofs Proofs.C04Forms.
From Coq Require Import ZArith List Bool Lia ZifyBool.
Import ListNotations.
Open Scope string_scope.
Open Scope list_scope.
Open Scope Z_scope.

(* ------------------------------------------------------------------ seeking *)
Lemma zskipn_app (pre rest : list Z) : zskipn (zlen pre) (pre ++ rest) = rest.
Proof.
  unfold zskipn. rewrite zlen_app.
  destruct (Z.leb_spec (zlen pre + zlen rest) (zlen pre)) as [H|H].
  - destruct rest as [|x r]; [reflexivity|]. rewrite zlen_cons in H. pose proof (zlen_nonneg r). lia.
  - unfold zlen. rewrite Nat2Z.id, skipn_app, skipn_all, Nat.sub_diag. reflexivity.
Qed.

Lemma pos_after_app (pos : Z) (enc t : list Z) : pos_after pos (enc ++ t) t = pos + zlen enc.
Proof. unfold pos_after. rewrite zlen_app. lia. Qed.

Lemma int_encode_1 le v : 0 <= v < 256 -> int_encode le 1 v = [v].
Proof.
  intros H. destruct le; cbn [int_encode be_encode le_encode rev app]; rewrite Z.mod_small by lia; reflexivity.
Qed.

Lemma zlen_int_encode le n v : zlen (int_encode le n v) = Z.of_nat n.
Proof. unfold zlen. rewrite int_encode_length. reflexivity. Qed.

Lemma zlen_initial_length le len is64 :
  zlen (initial_length_encode le len is64) = initial_length_field_size is64.
Proof.
  unfold initial_length_encode, initial_length_field_size. destruct is64.
  - rewrite zlen_app, !zlen_int_encode. reflexivity.
  - rewrite zlen_int_encode. reflexivity.
Qed.

Lemma uint_decode_byte v t : uint_decode true 1 (v :: t) = Some (v, t).
Proof. unfold uint_decode. cbn. f_equal. f_equal. lia. Qed.

(* ------------------------------------------------------------------ Struct of integer fields *)
Lemma parse_fields_uint name le w v r t :
  0 <= v < 2 ^ (8 * Z.of_nat w) ->
  parse_fields ((name, DInt le w false) :: r) (int_encode le w v ++ t) =
  match parse_fields r t with Some (vs, t') => Some ((name, v) :: vs, t') | None => None end.
Proof.
  intros H. cbn [parse_fields parse_int]. rewrite uint_decode_valid by exact H. reflexivity.
Qed.

Lemma parse_fields_u8 name v r t :
  0 <= v < 256 ->
  parse_fields ((name, DInt true 1 false) :: r) (v :: t) =
  match parse_fields r t with Some (vs, t') => Some ((name, v) :: vs, t') | None => None end.
Proof.
  intros H. change (v :: t) with ([v] ++ t). rewrite <- (int_encode_1 true v H).
  apply parse_fields_uint. change (2 ^ (8 * Z.of_nat 1)) with 256. exact H.
Qed.

(* ------------------------------------------------------------------ what the header must decode to *)
Definition hdr_fields (c : cfg) (k : ukind) (aoff : Z) : list (string * Z) :=
  let asz := addr_size_z c in
  match k with
  | UKlegacy => [("debug_abbrev_offset", aoff); ("address_size", asz)]
  | UKtypes4 sig toff =>
      [("version", c_ver c); ("debug_abbrev_offset", aoff); ("address_size", asz);
       ("signature", sig); ("type_offset", toff)]
  | UKcompile | UKpartial => [("address_size", asz); ("debug_abbrev_offset", aoff)]
  | UKskeleton id | UKsplit_compile id =>
      [("address_size", asz); ("debug_abbrev_offset", aoff); ("dwo_id", id)]
  | UKtype sig toff | UKsplit_type sig toff =>
      [("address_size", asz); ("debug_abbrev_offset", aoff); ("type_signature", sig); ("type_offset", toff)]
  end.

Definition hdr_unit_type (k : ukind) : option ename :=
  match k with
  | UKlegacy | UKtypes4 _ _ => None
  | UKcompile => Some (EName "DW_UT_compile")
  | UKpartial => Some (EName "DW_UT_partial")
  | UKskeleton _ => Some (EName "DW_UT_skeleton")
  | UKsplit_compile _ => Some (EName "DW_UT_split_compile")
  | UKtype _ _ => Some (EName "DW_UT_type")
  | UKsplit_type _ _ => Some (EName "DW_UT_split_type")
  end.

(* the unit object the library must build for a unit with these parameters placed at [off] *)
Definition expect_uctx (c : cfg) (k : ukind) (aoff len off : Z) : uctx :=
  mkuctx (c_le c) (c_is64 c) (addr_size_z c) (c_ver c) off
         (off + initlen_size c + zlen (encode_header_rest c k aoff)) len
         (hdr_unit_type k) (hdr_fields c k aoff).

Definition is_types4 (k : ukind) : bool := match k with UKtypes4 _ _ => true | _ => false end.

Lemma header_wf_parts c k aoff : header_wf c k aoff = true ->
  2 <= c_ver c <= 5 /\ kind_ok c k = true /\ 0 <= aoff < 2 ^ (8 * Z.of_nat (off_size c)).
Proof.
  unfold header_wf, cfg_ok, off_ok. intros H.
  repeat (apply andb_prop in H; destruct H as [H ?]). lia.
Qed.

Lemma addr_size_z_byte c : 0 <= addr_size_z c < 256.
Proof. unfold addr_size_z. destruct (c_asz8 c); lia. Qed.

Lemma peek_first le len is64 t :
  initial_length_wf len is64 = true ->
  exists first, uint_decode le 4 (initial_length_encode le len is64 ++ t) =
                Some (first, match is64 with true => int_encode le 8 len ++ t | false => t end)
                /\ (first =? 0xFFFFFFFF) = is64.
Proof.
  unfold initial_length_wf, initial_length_encode. intros H. destruct is64.
  - exists 0xffffffff. rewrite <- app_assoc. rewrite uint_decode_valid by (cbn; lia). split; reflexivity.
  - exists len. rewrite uint_decode_valid by (change (2 ^ (8 * Z.of_nat 4)) with 4294967296; lia).
    split; [reflexivity|]. destruct (Z.eqb_spec len 0xFFFFFFFF); [lia|reflexivity].
Qed.

Lemma finish_unit_ok c off die_off len ut fs :
  2 <= c_ver c <= 5 -> fget fs "address_size" = addr_size_z c ->
  finish_unit (c_le c) (c_is64 c) off die_off len (c_ver c) ut fs =
  Ok (mkuctx (c_le c) (c_is64 c) (addr_size_z c) (c_ver c) off die_off len ut fs).
Proof.
  intros Hv Ha. unfold finish_unit. rewrite Ha.
  replace ((addr_size_z c =? 4) || (addr_size_z c =? 8)) with true
    by (unfold addr_size_z; destruct (c_asz8 c); reflexivity).
  cbn [negb]. replace ((2 <=? c_ver c) && (c_ver c <=? 5)) with true by lia. reflexivity.
Qed.

Ltac hdr_bounds :=
  first [ assumption
        | apply addr_size_z_byte
        | match goal with |- 0 <= ?v < 2 ^ (8 * Z.of_nat 8) => change (2 ^ (8 * Z.of_nat 8)) with (2 ^ 64); lia end
        | match goal with |- 0 <= ?v < 2 ^ (8 * Z.of_nat 2) => change (2 ^ (8 * Z.of_nat 2)) with 65536; lia end
        | lia ].

(* ------------------------------------------------------------------ DWARFInfo._parse_CU_at_offset *)
Ltac hdr_step :=
  first [ rewrite parse_fields_uint by hdr_bounds
        | rewrite parse_fields_u8 by hdr_bounds ].

Theorem cu_header_roundtrip (c : cfg) (k : ukind) (aoff len : Z) (pre rest : list Z) :
  header_wf c k aoff = true -> initial_length_wf len (c_is64 c) = true -> is_types4 k = false ->
  parse_cu_at (c_le c)
    (pre ++ initial_length_encode (c_le c) len (c_is64 c) ++ encode_header_rest c k aoff ++ rest) (zlen pre)
  = Ok (expect_uctx c k aoff len (zlen pre)).
Proof.
  intros Hwf Hlen Hk.
  destruct (header_wf_parts c k aoff Hwf) as (Hver & Hkind & Haoff).
  unfold parse_cu_at. rewrite zskipn_app.
  destruct (peek_first (c_le c) len (c_is64 c) (encode_header_rest c k aoff ++ rest) Hlen) as (first & Hpeek & Hfmt).
  rewrite Hpeek, Hfmt. rewrite initial_length_valid by exact Hlen.
  destruct (gen_headers_match_standard (c_le c) (c_is64 c)) as (Hlt5 & Hge5 & _ & Hfrom & _ & _).
  rewrite Hlt5, Hge5, Hfrom. clear Hlt5 Hge5 Hfrom Hpeek Hfmt first.
  unfold encode_header_rest. rewrite <- app_assoc.
  rewrite uint_decode_valid by hdr_bounds.
  unfold expect_uctx, initlen_size, encode_header_rest.
  assert (Hdie : forall hdr : list Z,
             pos_after (zlen pre) (initial_length_encode (c_le c) len (c_is64 c) ++ (int_encode (c_le c) 2 (c_ver c) ++ hdr) ++ rest) rest
             = zlen pre + (if c_is64 c then 12 else 4) + zlen (int_encode (c_le c) 2 (c_ver c) ++ hdr)).
  { intros hdr. unfold pos_after. rewrite !zlen_app, zlen_initial_length. unfold initial_length_field_size. lia. }
  unfold header_wf in Hwf. apply andb_prop in Hwf. destruct Hwf as [_ Hextra].
  pose proof (addr_size_z_byte c) as Hasz.
  pose proof (finish_unit_ok c) as Hfin.
  unfold kind_ok in Hkind. unfold enc_off, std_cu_lt5, std_cu_ge5, std_off, std_u8.
  destruct k as [ | | |id|id|sg toff|sg toff|sg toff]; try discriminate Hk;
    cbn [unit_type_code hdr_unit_type hdr_fields];
    try (apply andb_prop in Hextra; destruct Hextra as [Hsig Htoff]; unfold off_ok in Htoff);
    unfold u64_ok in *;
    remember (addr_size_z c) as asz eqn:Easz; clear Easz;
    destruct c as [le is64 a8 ver]; cbn [c_le c_is64 c_asz8 c_ver] in *.
  2-7: assert (Hv5 : ver = 5) by lia; subst ver; change (5 <=? 5) with true; cbv iota;
    cbn [app]; rewrite uint_decode_byte;
    match goal with |- context [enum_dec gen_dec_ut gen_dec_ut_pass ?n] =>
      let x := eval vm_compute in (enum_dec gen_dec_ut gen_dec_ut_pass n) in
      change (enum_dec gen_dec_ut gen_dec_ut_pass n) with x end;
    cbv iota; cbn [sfind String.eqb Ascii.eqb Bool.eqb]; cbv iota.
  1: destruct (Z.leb_spec 5 ver); [lia|].
  all: destruct is64; cbn [off_size c_is64] in *; rewrite <- ?app_assoc; cbn [app];
      repeat hdr_step; cbn [app]; repeat hdr_step; cbn [parse_fields];
      (rewrite Hfin by auto); f_equal; f_equal; unfold pos_after;
      rewrite ?zlen_app, ?zlen_cons, ?zlen_app, ?zlen_cons, ?zlen_initial_length; unfold initial_length_field_size;
      change (zlen (@nil Z)) with 0; lia.
Qed.

(* ------------------------------------------------------------------ DWARFInfo._parse_TU_at_offset (.debug_types, v4) *)
Theorem tu_header_roundtrip (c : cfg) (sg toff aoff len : Z) (pre rest : list Z) :
  header_wf c (UKtypes4 sg toff) aoff = true -> initial_length_wf len (c_is64 c) = true ->
  parse_tu_at (c_le c)
    (pre ++ initial_length_encode (c_le c) len (c_is64 c) ++ encode_header_rest c (UKtypes4 sg toff) aoff ++ rest)
    (zlen pre)
  = Ok (expect_uctx c (UKtypes4 sg toff) aoff len (zlen pre)).
Proof.
  intros Hwf Hlen.
  destruct (header_wf_parts c _ aoff Hwf) as (Hver & Hkind & Haoff).
  unfold parse_tu_at. rewrite zskipn_app.
  destruct (peek_first (c_le c) len (c_is64 c) (encode_header_rest c (UKtypes4 sg toff) aoff ++ rest) Hlen)
    as (first & Hpeek & Hfmt).
  rewrite Hpeek, Hfmt. rewrite initial_length_valid by exact Hlen.
  destruct (gen_headers_match_standard (c_le c) (c_is64 c)) as (_ & _ & Htu & _).
  rewrite Htu. clear Htu Hpeek Hfmt first.
  unfold expect_uctx, initlen_size, encode_header_rest.
  unfold header_wf in Hwf. apply andb_prop in Hwf. destruct Hwf as [_ Hextra].
  pose proof (addr_size_z_byte c) as Hasz.
  pose proof (finish_unit_ok c) as Hfin.
  unfold enc_off, std_tu, std_off, std_u8.
  cbn [hdr_unit_type hdr_fields].
  apply andb_prop in Hextra; destruct Hextra as [Hsig Htoff]; unfold off_ok in Htoff; unfold u64_ok in *.
  remember (addr_size_z c) as asz eqn:Easz; clear Easz.
  destruct c as [le is64 a8 ver]; cbn [c_le c_is64 c_asz8 c_ver] in *.
  destruct is64; cbn [off_size c_is64] in *; rewrite <- ?app_assoc; cbn [app];
      repeat hdr_step; cbn [app]; repeat hdr_step; cbn [app]; repeat hdr_step; cbn [parse_fields];
      change (fget (("version", ver) :: _) "version") with ver;
      (rewrite Hfin by auto); f_equal; f_equal; unfold pos_after;
      rewrite ?zlen_app, ?zlen_cons, ?zlen_app, ?zlen_cons, ?zlen_initial_length; unfold initial_length_field_size;
      change (zlen (@nil Z)) with 0; lia.
Qed.

(* sizes: the first entry starts right after the header, the unit ends at length + initial length size *)
Lemma expect_uctx_size c k aoff len off :
  uc_size (expect_uctx c k aoff len off) = len + initlen_size c.
Proof. reflexivity. Qed.
