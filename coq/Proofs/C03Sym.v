(* Proofs/C03Sym.v — SymbolTableSection / SymbolTableIndexSection / SUNWSyminfoTableSection:
   a table of ANY number of rows of ANY entry size >= the standard one, placed ANYWHERE in
   an image, with its string table placed anywhere, is enumerated to exactly the encoded
   entries in index order (every field, the name through the linked string table), and
   lookup by name returns exactly the symbols bearing the name, in order, or None. *)
From PV Require Import Base.Fmt Base.Outcome Base.Prim Gen.ElfLayouts Spec.ElfGabi Spec.PrimSpec
                       Spec.C03Sym Spec.C03Hash Model.C03Sections.
From PV Require Import Proofs.PrimProofs Proofs.FmtProofs Proofs.ElfLayoutFacts Proofs.C03Sysv Proofs.C03Gnu.
From Coq Require Import Lia ZifyBool.
Open Scope string_scope.
Open Scope list_scope.
Open Scope Z_scope.

(* ------------------------------------------------------------------ placement *)
Lemma placed_skipn img off bs : placed img off bs ->
  exists post, skipn (Z.to_nat off) img = bs ++ post.
Proof.
  intros [pre [post [-> Hl]]]. exists post.
  replace (Z.to_nat off) with (length pre) by (unfold zlen in Hl; lia).
  rewrite skipn_app, skipn_all, Nat.sub_diag. reflexivity.
Qed.

Lemma placed_sub img off a b c : placed img off (a ++ b ++ c) -> placed img (off + zlen a) b.
Proof.
  intros [pre [post [-> Hl]]]. exists (pre ++ a), (c ++ post). split.
  - rewrite <- !app_assoc. reflexivity.
  - rewrite zlen_app. lia.
Qed.

Lemma placed_prefix img off a b : placed img off (a ++ b) -> placed img off a.
Proof.
  intros [pre [post [-> Hl]]]. exists pre, (b ++ post). split; [|exact Hl].
  rewrite <- !app_assoc. reflexivity.
Qed.

(* tables of fixed-size rows *)
Lemma rows_split {A} (enc : A -> list Z) (es : Z) (d : A) : forall (rows : list A) (i : nat),
  (forall r, In r rows -> zlen (enc r) = es) -> (i < length rows)%nat ->
  exists pre post, concat (map enc rows) = pre ++ enc (nth i rows d) ++ post /\ zlen pre = Z.of_nat i * es.
Proof.
  induction rows as [|a rows IH]; intros i Hsz Hi; [cbn in Hi; lia|].
  destruct i as [|i].
  - exists [], (concat (map enc rows)). split; reflexivity.
  - destruct (IH i) as [pre [post [E Hl]]]; [intros r Hr; apply Hsz; right; exact Hr|cbn in Hi; lia|].
    exists (enc a ++ pre), post. split.
    + cbn [map concat nth]. rewrite E. rewrite <- !app_assoc. reflexivity.
    + rewrite zlen_app, Hl, (Hsz a (or_introl eq_refl)). lia.
Qed.

Lemma placed_row {A} (enc : A -> list Z) (es : Z) (d : A) img off rows i :
  (forall r, In r rows -> zlen (enc r) = es) -> 0 <= i < zlen rows ->
  placed img off (concat (map enc rows)) ->
  placed img (off + i * es) (enc (nth (Z.to_nat i) rows d)).
Proof.
  intros Hsz Hi Hp.
  destruct (rows_split enc es d rows (Z.to_nat i) Hsz) as [pre [post [E Hl]]]; [unfold zlen in Hi; lia|].
  rewrite E in Hp. apply placed_sub in Hp. rewrite Hl in Hp. rewrite Z2Nat.id in Hp by lia. exact Hp.
Qed.

(* ------------------------------------------------------------------ struct_parse at an offset *)
Lemma struct_parse_at_placed L vals sz img off extra :
  layout_size L = Some sz -> fits_layout L vals = true ->
  placed img off (encode_layout L vals ++ extra) ->
  struct_parse_at L img off = Ok (annot_layout L vals).
Proof.
  intros Hs Hf Hp. unfold struct_parse_at. rewrite Hs.
  destruct (placed_skipn _ _ _ Hp) as [post E]. rewrite E.
  assert (Hl : length (encode_layout L vals) = sz) by (eapply encode_fields_length; eassumption).
  rewrite <- !app_assoc. rewrite firstn_app, firstn_all2 by lia.
  replace (sz - length (encode_layout L vals))%nat with O by lia. cbn [firstn]. 
  rewrite decode_encode_layout by exact Hf. reflexivity.
Qed.

Lemma struct_parse_at_dyn L vals img off :
  layout_size L = None -> fits_layout L vals = true ->
  placed img off (encode_layout L vals) ->
  struct_parse_at L img off = Ok (annot_layout L vals).
Proof.
  intros Hs Hf Hp. unfold struct_parse_at. rewrite Hs.
  destruct (placed_skipn _ _ _ Hp) as [post E]. rewrite E.
  rewrite decode_encode_layout by exact Hf. reflexivity.
Qed.

Lemma read_uint_placed le n v img off extra :
  0 <= v < 2 ^ (8 * Z.of_nat n) -> placed img off (int_encode le n v ++ extra) ->
  read_uint le n img off = Some v.
Proof.
  intros Hv Hp. unfold read_uint. destruct (placed_skipn _ _ _ Hp) as [post E]. rewrite E.
  rewrite <- app_assoc. rewrite firstn_app, firstn_all2 by (rewrite int_encode_length; lia).
  rewrite int_encode_length, Nat.sub_diag. cbn [firstn].
  rewrite uint_decode_valid by exact Hv. reflexivity.
Qed.

(* ------------------------------------------------------------------ one Elf_Sym *)
Definition sym_vals (is64 : bool) (s : sym) : list fval :=
  if is64 then
    [VZ (st_name s); VZ (st_bind s); VZ (st_type s); VZ (st_local s); VZ (st_opad s); VZ (st_vis s);
     VZ (st_shndx s); VZ (st_value s); VZ (st_size s)]
  else
    [VZ (st_name s); VZ (st_value s); VZ (st_size s); VZ (st_bind s); VZ (st_type s);
     VZ (st_local s); VZ (st_opad s); VZ (st_vis s); VZ (st_shndx s)].

Lemma sym_ok_facts is64 s : sym_ok is64 s = true ->
  0 <= st_name s < 2 ^ 32 /\ 0 <= st_value s < 2 ^ (8 * Z.of_nat (addr_bytes is64)) /\
  0 <= st_size s < 2 ^ (8 * Z.of_nat (addr_bytes is64)) /\ 0 <= st_bind s < 16 /\ 0 <= st_type s < 16 /\
  0 <= st_local s < 8 /\ 0 <= st_opad s < 4 /\ 0 <= st_vis s < 8 /\ 0 <= st_shndx s < 2 ^ 16.
Proof.
  unfold sym_ok, below. rewrite !andb_true_iff, !Z.leb_le, !Z.ltb_lt. tauto.
Qed.

Lemma byte1 v : 0 <= v < 256 -> be_encode 1 v = [v].
Proof. intros H. unfold be_encode. cbn [le_encode rev app]. rewrite Z.mod_small by lia. reflexivity. Qed.

Lemma encode_sym_layout le is64 s : sym_ok is64 s = true ->
  encode_sym le is64 s = encode_layout (spec_Elf_Sym le is64) (sym_vals is64 s).
Proof.
  intros H. apply sym_ok_facts in H. destruct H as [_ [_ [_ [Hb [Ht [Hl [Hp [Hv _]]]]]]]].
  unfold encode_sym, st_info_byte, st_other_byte.
  destruct is64; cbn [spec_Elf_Sym sym_vals encode_layout encode_fields encode_kind nvals firstn skipn
                      length st_info_bits st_other_bits snd zs_of map join_bits join_bits_rev rev app];
    change (2 ^ Z.of_nat 4) with 16; change (2 ^ Z.of_nat 3) with 8; change (2 ^ Z.of_nat 2) with 4;
    rewrite !byte1 by lia; rewrite ?app_nil_r; cbn [app];
    repeat (f_equal; try lia).
Qed.

Lemma sym_fits le is64 s : sym_ok is64 s = true ->
  fits_layout (spec_Elf_Sym le is64) (sym_vals is64 s) = true.
Proof.
  intros H. apply sym_ok_facts in H.
  destruct H as [Hn [Hva [Hsz [Hb [Ht [Hl [Hp [Hv Hx]]]]]]]].
  destruct is64; cbn in Hva, Hsz |- *; unfold in_urange; cbn; lia.
Qed.

Lemma sym_annot le is64 s :
  entry_fields (annot_layout (spec_Elf_Sym le is64) (sym_vals is64 s)) = sym_fields s.
Proof. destruct is64; reflexivity. Qed.

Lemma sym_annot_name le is64 s :
  rec_z (annot_layout (spec_Elf_Sym le is64) (sym_vals is64 s)) "st_name" = st_name s.
Proof. destruct is64; reflexivity. Qed.

Lemma zlen_encode_sym le is64 s : zlen (encode_sym le is64 s) = sym_size is64.
Proof.
  unfold encode_sym, zlen. destruct is64; repeat rewrite app_length; rewrite !int_encode_length; reflexivity.
Qed.

(* ------------------------------------------------------------------ names *)
Lemma cstr_prefix_split : forall bs nm, cstr_prefix bs = Some nm ->
  exists rest, bs = nm ++ 0 :: rest /\ no_nul nm = true.
Proof.
  induction bs as [|b bs IH]; intros nm H; cbn [cstr_prefix] in H; [discriminate|].
  destruct (Z.eqb_spec b 0) as [->|Hb].
  - inversion H; subst. exists bs. split; reflexivity.
  - destruct (cstr_prefix bs) as [s|] eqn:E; [|discriminate]. inversion H; subst.
    destruct (IH s eq_refl) as [rest [-> Hn]]. exists rest. split; [reflexivity|].
    apply no_nul_cons. split; assumption.
Qed.

Lemma get_string_ok img stroff strtab off nm :
  placed img stroff strtab -> name_at strtab off = Some nm ->
  get_string img stroff off = nm.
Proof.
  intros [pre [post [-> Hl]]] Hn. unfold name_at in Hn.
  destruct (below off (zlen strtab)) eqn:Hb; [|discriminate]. unfold below in Hb.
  apply cstr_prefix_split in Hn. destruct Hn as [rest [E Hnn]].
  unfold get_string.
  assert (Hs : strtab = firstn (Z.to_nat off) strtab ++ nm ++ 0 :: rest)
    by (rewrite <- E; symmetry; apply firstn_skipn).
  rewrite Hs. rewrite <- !app_assoc. rewrite (app_assoc pre).
  replace (Z.to_nat (stroff + off)) with (length (pre ++ firstn (Z.to_nat off) strtab)).
  - cbn [app]. rewrite parse_cstring_at_valid by exact Hnn. reflexivity.
  - rewrite app_length, firstn_length. unfold zlen in *. lia.
Qed.

(* ------------------------------------------------------------------ generic list facts *)
Lemma mapM_range {B} (f : Z -> res B) (d : B) : forall (l : list B) a,
  (forall k, 0 <= k < zlen l -> f (a + k) = Ok (nth (Z.to_nat k) l d)) ->
  mapM f (map (fun k => a + Z.of_nat k) (seq 0 (length l))) = Ok l.
Proof.
  induction l as [|x l IH]; intros a H; [reflexivity|].
  cbn [length seq map mapM]. rewrite <- seq_shift, map_map.
  replace (a + Z.of_nat 0) with (a + 0) by lia. rewrite (H 0) by (rewrite zlen_cons; pose proof (zlen_nonneg l); lia).
  cbn [bind nth Z.to_nat].
  rewrite (map_ext _ (fun k => (a + 1) + Z.of_nat k)) by (intros k; lia).
  rewrite IH; [reflexivity|].
  intros k Hk. replace (a + 1 + k) with (a + (k + 1)) by lia.
  rewrite H by (rewrite zlen_cons; lia).
  replace (Z.to_nat (k + 1)) with (S (Z.to_nat k)) by lia. reflexivity.
Qed.

Definition dd_list (d : list (list Z * list Z)) (k : list Z) : list Z :=
  match dd_get d k with Some l => l | None => [] end.

Lemma bytes_eq_sym a b : bytes_eq a b = bytes_eq b a.
Proof. unfold bytes_eq. destruct (list_eq_dec Z.eq_dec a b), (list_eq_dec Z.eq_dec b a); congruence. Qed.

Lemma bytes_eq_true a b : bytes_eq a b = true <-> a = b.
Proof. unfold bytes_eq. destruct (list_eq_dec Z.eq_dec a b); split; intros; congruence. Qed.

Lemma dd_list_append d : forall k i q,
  dd_list (dd_append d k i) q = if bytes_eq k q then dd_list d q ++ [i] else dd_list d q.
Proof.
  unfold dd_list. induction d as [|[k' l] d IH]; intros k i q; cbn [dd_append dd_get].
  - rewrite (bytes_eq_sym q k). destruct (bytes_eq k q); reflexivity.
  - destruct (bytes_eq k k') eqn:Ekk.
    + apply bytes_eq_true in Ekk. subst k'. cbn [dd_get]. rewrite (bytes_eq_sym q k).
      destruct (bytes_eq k q); reflexivity.
    + cbn [dd_get]. destruct (bytes_eq q k') eqn:Eqk.
      * apply bytes_eq_true in Eqk. subst k'. rewrite Ekk. reflexivity.
      * apply IH.
Qed.

Lemma name_map_go_list : forall (syms : list symbol) d i q,
  dd_list (name_map_go d i syms) q = dd_list d q ++ indices_from i (map fst syms) q.
Proof.
  induction syms as [|s syms IH]; intros d i q; cbn [name_map_go map indices_from].
  - rewrite app_nil_r. reflexivity.
  - rewrite IH, dd_list_append. change (beqb (fst s) q) with (bytes_eq (fst s) q).
    destruct (bytes_eq (fst s) q); [rewrite <- app_assoc|]; reflexivity.
Qed.

Lemma indices_from_filter : forall (l : list symview) (pre : list symview) q,
  map (vth (pre ++ l)) (indices_from (zlen pre) (map fst l) q) = filter (fun v => beqb (fst v) q) l.
Proof.
  induction l as [|v l IH]; intros pre q; [reflexivity|].
  cbn [map indices_from filter].
  assert (E : forall q', map (vth (pre ++ v :: l)) (indices_from (zlen pre + 1) (map fst l) q')
                         = filter (fun v => beqb (fst v) q') l).
  { intros q'. specialize (IH (pre ++ [v]) q'). rewrite <- app_assoc in IH. cbn [app] in IH.
    rewrite zlen_app in IH. exact IH. }
  destruct (beqb (fst v) q).
  - cbn [map]. rewrite E. f_equal. unfold vth, zlen. rewrite Nat2Z.id. rewrite app_nth2, Nat.sub_diag by lia. reflexivity.
  - apply E.
Qed.

Lemma indices_from_range : forall (l : list (list Z)) i q j, In j (indices_from i l q) -> i <= j < i + zlen l.
Proof.
  induction l as [|x l IH]; intros i q j H; cbn [indices_from] in H; [destruct H|].
  rewrite zlen_cons. destruct (beqb x q).
  - destruct H as [<-|H]; [pose proof (zlen_nonneg l); lia|]. apply IH in H. lia.
  - apply IH in H. lia.
Qed.

Lemma mapM_ok {A B} (f : A -> res B) (g : A -> B) : forall l, (forall x, In x l -> f x = Ok (g x)) ->
  mapM f l = Ok (map g l).
Proof.
  induction l as [|x l IH]; intros H; [reflexivity|].
  cbn [mapM map]. rewrite (H x (or_introl eq_refl)). cbn [bind]. rewrite IH; [reflexivity|].
  intros y Hy. apply H. right. exact Hy.
Qed.

(* ------------------------------------------------------------------ SymbolTableSection *)
Section symtab.
Variables (le is64 : bool) (es : Z) (rows : list row) (strtab img : list Z) (off size stroff : Z).
Hypothesis Hok : symtab_ok is64 es rows = true.
Hypothesis Hnames : names_ok strtab rows = true.
Hypothesis Hsym : placed img off (encode_symtab le is64 rows).
Hypothesis Hstr : placed img stroff strtab.
Hypothesis Hsize : es * zlen rows <= size < es * (zlen rows + 1).

Let c := mkSymCfg le is64 (mkSec off size es) stroff.
Let vs := views strtab rows.
Let drow : row := (mkSym 0 0 0 0 0 0 0 0 0, []).

Lemma es_pos : sym_size is64 <= es.
Proof using Hok. unfold symtab_ok in Hok. apply andb_true_iff in Hok. destruct Hok as [H _]. apply Z.leb_le in H. exact H. Qed.

Lemma row_ok r : In r rows -> sym_ok is64 (fst r) = true /\ zlen (snd r) = es - sym_size is64.
Proof.
  intros Hr. unfold symtab_ok in Hok. apply andb_true_iff in Hok. destruct Hok as [_ H].
  rewrite forallb_forall in H. specialize (H r Hr). apply andb_true_iff in H. destruct H as [H1 H2].
  apply Z.eqb_eq in H2. split; assumption.
Qed.

Lemma row_size r : In r rows -> zlen (encode_row le is64 r) = es.
Proof.
  intros Hr. destruct (row_ok r Hr) as [_ H]. unfold encode_row. rewrite zlen_app, zlen_encode_sym. lia.
Qed.

Lemma zlen_views : zlen vs = zlen rows.
Proof. unfold vs, views, zlen. rewrite map_length. reflexivity. Qed.

Lemma vth_views i : 0 <= i < zlen rows -> vth vs i = view_of strtab (fst (nth (Z.to_nat i) rows drow)).
Proof.
  intros Hi. unfold vth, vs, views.
  rewrite (nth_indep _ dview (view_of strtab (fst drow))) by (rewrite map_length; apply to_nat_lt; exact Hi).
  rewrite (map_nth (fun r => view_of strtab (fst r))). reflexivity.
Qed.

Theorem num_symbols_exact : num_symbols c = zlen rows.
Proof using Hok Hsize.
  unfold num_symbols, c. cbn [c_sec s_size s_entsize].
  pose proof es_pos as Hp. clear - Hp Hsize. assert (0 < es) by (destruct is64; cbn in Hp; lia).
  symmetry. apply (Z.div_unique size es (zlen rows) (size - es * zlen rows)); lia.
Qed.

Theorem get_symbol_exact i : 0 <= i < zlen rows -> get_symbol img c i = Ok (vth vs i).
Proof.
  intros Hi. rewrite vth_views by exact Hi.
  set (r := nth (Z.to_nat i) rows drow).
  assert (Hr : In r rows) by (apply nth_In; unfold zlen in Hi; lia).
  destruct (row_ok r Hr) as [Hs _].
  unfold get_symbol, c. cbn [c_sec c_le c_is64 c_stroff s_off s_entsize].
  assert (Hp : placed img (off + i * es) (encode_row le is64 r))
    by (apply (placed_row (encode_row le is64) es drow img off rows i row_size Hi Hsym)).
  unfold encode_row in Hp. rewrite encode_sym_layout in Hp by exact Hs.
  rewrite gen_Elf_Sym_gabi.
  rewrite (struct_parse_at_placed _ (sym_vals is64 (fst r)) _ _ _ _ (size_Sym le is64) (sym_fits le is64 _ Hs) Hp).
  cbn [bind]. rewrite sym_annot, sym_annot_name.
  unfold view_of, sym_name.
  unfold names_ok in Hnames. rewrite forallb_forall in Hnames. specialize (Hnames r Hr).
  destruct (name_at strtab (st_name (fst r))) as [nm|] eqn:En; [|discriminate].
  rewrite (get_string_ok img stroff strtab _ nm Hstr En). reflexivity.
Qed.

Theorem iter_symbols_exact : iter_symbols img c = Ok vs.
Proof.
  unfold iter_symbols. rewrite num_symbols_exact. unfold py_range.
  replace (Z.to_nat (zlen rows - 0)) with (length vs)
    by (pose proof zlen_views as H; unfold zlen in *; lia).
  apply (mapM_range _ dview). intros k Hk. rewrite zlen_views in Hk.
  replace (0 + k) with k by lia. apply get_symbol_exact. exact Hk.
Qed.

(* ---------------------------------------------------------------- lookup by name *)
Theorem by_name_exact q : get_symbol_by_name img c q = Ok (by_name_spec strtab rows q).
Proof.
  unfold get_symbol_by_name, build_symbol_name_map. rewrite iter_symbols_exact. cbn [bind].
  unfold get_symbol_by_name_with, by_name_spec, by_name_views. fold vs.
  pose proof (name_map_go_list vs [] 0 q) as Hl. unfold dd_list at 2 in Hl. cbn [dd_get app] in Hl.
  pose proof (indices_from_filter vs [] q) as Hf. cbn [app] in Hf. change (zlen (@nil symview)) with 0 in Hf.
  assert (Hm : forall idx, (forall j, In j idx -> In j (indices_from 0 (map fst vs) q)) ->
                           mapM (get_symbol img c) idx = Ok (map (vth vs) idx)).
  { intros idx Hin. apply mapM_ok. intros j Hj. apply get_symbol_exact.
    apply Hin in Hj. apply indices_from_range in Hj. rewrite <- zlen_views.
    assert (E : zlen (map fst vs) = zlen vs) by (unfold zlen; rewrite map_length; reflexivity).
    rewrite E in Hj. lia. }
  unfold dd_list in Hl.
  destruct (dd_get (name_map_go [] 0 vs) q) as [[|j0 idx]|] eqn:Ed.
  - rewrite <- Hl in Hf. cbn [map] in Hf. rewrite <- Hf. reflexivity.
  - rewrite Hm by (intros j Hj; rewrite <- Hl; exact Hj).
    rewrite <- Hf, <- Hl. cbn [bind map]. reflexivity.
  - rewrite <- Hl in Hf. cbn [map] in Hf. rewrite <- Hf. reflexivity.
Qed.
End symtab.

(* by_name_spec unfolded: None exactly when no symbol bears the name; otherwise all of them, in table order *)
Lemma by_name_spec_none strtab rows q :
  by_name_spec strtab rows q = None <-> (forall v, In v (views strtab rows) -> fst v <> q).
Proof.
  unfold by_name_spec, by_name_views.
  destruct (filter (fun v => beqb (fst v) q) (views strtab rows)) as [|v l] eqn:E; split; intros H.
  - intros v Hv Hq. assert (Hin : In v (filter (fun v => beqb (fst v) q) (views strtab rows))).
    { apply filter_In. split; [exact Hv|]. apply beqb_true. exact Hq. }
    rewrite E in Hin. destruct Hin.
  - reflexivity.
  - discriminate.
  - exfalso. assert (Hin : In v (filter (fun v => beqb (fst v) q) (views strtab rows))) by (rewrite E; left; reflexivity).
    apply filter_In in Hin. destruct Hin as [Hv Hq]. apply beqb_true in Hq. exact (H v Hv Hq).
Qed.

Lemma by_name_spec_some strtab rows q l :
  by_name_spec strtab rows q = Some l -> l = filter (fun v => beqb (fst v) q) (views strtab rows) /\ l <> [].
Proof.
  unfold by_name_spec, by_name_views.
  destruct (filter (fun v => beqb (fst v) q) (views strtab rows)) as [|v r]; intros H; inversion H.
  split; [reflexivity|discriminate].
Qed.

(* ------------------------------------------------------------------ SymbolTableIndexSection *)
Section shndx.
Variables (le : bool) (es : Z) (xrows : list xrow) (img : list Z) (off size : Z).
Hypothesis Hok : shndx_ok es xrows = true.
Hypothesis Hx : placed img off (encode_shndx le xrows).

Theorem section_index_exact i : 0 <= i < zlen xrows ->
  get_section_index img le (mkSec off size es) i = Ok (fst (nth (Z.to_nat i) xrows (0, []))).
Proof.
  intros Hi. unfold get_section_index. cbn [s_off s_entsize].
  unfold shndx_ok in Hok. apply andb_true_iff in Hok. destruct Hok as [_ Hrows].
  rewrite forallb_forall in Hrows.
  assert (Hsz : forall r, In r xrows -> zlen (encode_xrow le r) = es).
  { intros r Hr. specialize (Hrows r Hr). rewrite !andb_true_iff in Hrows. destruct Hrows as [_ H].
    apply Z.eqb_eq in H. unfold encode_xrow, zlen in *. rewrite app_length, int_encode_length. lia. }
  pose proof (placed_row (encode_xrow le) es (0, []) img off xrows i Hsz Hi Hx) as Hp.
  set (r := nth (Z.to_nat i) xrows (0, [])) in *.
  assert (Hr : In r xrows) by (apply nth_In; unfold zlen in Hi; lia).
  specialize (Hrows r Hr). rewrite !andb_true_iff in Hrows. destruct Hrows as [Hv _].
  unfold below in Hv. unfold encode_xrow in Hp.
  rewrite (read_uint_placed le 4 (fst r) img _ (snd r)); [reflexivity| |exact Hp].
  change (2 ^ (8 * Z.of_nat 4)) with (2 ^ 32). lia.
Qed.
End shndx.

(* ------------------------------------------------------------------ SUNWSyminfoTableSection *)
Section syminfo.
Variables (le is64 : bool) (es : Z) (rows : list row) (strtab img : list Z) (off size stroff : Z).
Variables (ies : Z) (irows : list irow) (ioff isize : Z).
Hypothesis Hok : symtab_ok is64 es rows = true.
Hypothesis Hnames : names_ok strtab rows = true.
Hypothesis Hsym : placed img off (encode_symtab le is64 rows).
Hypothesis Hstr : placed img stroff strtab.
Hypothesis Hiok : syminfo_ok ies irows = true.
Hypothesis Hinfo : placed img ioff (encode_syminfo le irows).
Hypothesis Hlen : zlen irows = zlen rows.
Hypothesis Hisize : ies * zlen irows <= isize < ies * (zlen irows + 1).
Hypothesis Hnonempty : 1 <= zlen irows.

Let c := mkSymCfg le is64 (mkSec off size es) stroff.
Let s := mkSec ioff isize ies.
Let vs := views strtab rows.
Let dirow : irow := ((0, 0), []).

Definition info_view (p : list Z * irow) : symview := (fst p, [fst (fst (snd p)); snd (fst (snd p))]).

Lemma irow_facts r : In r irows ->
  0 <= fst (fst r) < 2 ^ 16 /\ 0 <= snd (fst r) < 2 ^ 16 /\ zlen (encode_irow le r) = ies.
Proof.
  intros Hr. unfold syminfo_ok in Hiok. apply andb_true_iff in Hiok. destruct Hiok as [_ H].
  rewrite forallb_forall in H. specialize (H r Hr). rewrite !andb_true_iff in H.
  destruct H as [[H1 H2] H3]. unfold below in *. apply Z.eqb_eq in H3.
  repeat split; try lia.
  unfold encode_irow, zlen in *. rewrite !app_length, !int_encode_length. lia.
Qed.

Lemma syminfo_get i : 0 <= i < zlen irows ->
  syminfo_get_symbol img c s i
  = Ok (fst (vth vs i), [fst (fst (nth (Z.to_nat i) irows dirow)); snd (fst (nth (Z.to_nat i) irows dirow))]).
Proof.
  intros Hi. unfold syminfo_get_symbol, s. cbn [s_off s_entsize].
  pose proof (placed_row (encode_irow le) ies dirow img ioff irows i
                (fun r Hr => proj2 (proj2 (irow_facts r Hr))) Hi Hinfo) as Hp.
  set (r := nth (Z.to_nat i) irows dirow) in *.
  assert (Hr : In r irows) by (apply nth_In; unfold zlen in Hi; lia).
  destruct (irow_facts r Hr) as [Hb [Hf _]].
  unfold c. cbn [c_le c_is64]. rewrite gen_Elf_Sunw_Syminfo_gabi.
  assert (Hfit : fits_layout (spec_Elf_Sunw_Syminfo le) [VZ (fst (fst r)); VZ (snd (fst r))] = true).
  { cbn. unfold in_urange. change (2 ^ (8 * Z.of_nat 2)) with (2 ^ 16). lia. }
  assert (Henc : encode_irow le r = encode_layout (spec_Elf_Sunw_Syminfo le) [VZ (fst (fst r)); VZ (snd (fst r))] ++ snd r).
  { unfold encode_irow. cbn. rewrite app_nil_r, <- app_assoc. reflexivity. }
  rewrite Henc in Hp.
  rewrite (struct_parse_at_placed (spec_Elf_Sunw_Syminfo le) _ 4%nat _ _ _ eq_refl Hfit Hp). cbn [bind].
  fold c. unfold c.
  rewrite (get_symbol_exact le is64 es rows strtab img off size stroff Hok Hnames Hsym Hstr) by lia.
  cbn [bind]. reflexivity.
Qed.

Theorem syminfo_num_exact : syminfo_num_symbols s = zlen rows - 1.
Proof using Hiok Hlen Hisize.
  unfold syminfo_num_symbols, s. cbn [s_size s_entsize]. rewrite <- Hlen. f_equal.
  assert (0 < ies).
  { pose proof Hiok as W. unfold syminfo_ok in W. apply andb_true_iff in W. destruct W as [H _]. apply Z.leb_le in H.
    clear - H. lia. }
  clear - H Hisize. symmetry. apply (Z.div_unique isize ies (zlen irows) (isize - ies * zlen irows)); lia.
Qed.

Lemma combine_nth_views : forall (names : list (list Z)) (l : list irow) k,
  length names = length l -> (k < length l)%nat ->
  nth k (map info_view (combine names l)) dview
  = (nth k names [], [fst (fst (nth k l dirow)); snd (fst (nth k l dirow))]).
Proof.
  intros names l k Hl Hk.
  rewrite (nth_indep _ dview (info_view ([], dirow))) by (rewrite map_length, combine_length; lia).
  rewrite (map_nth info_view). rewrite combine_nth by exact Hl. reflexivity.
Qed.

Theorem syminfo_iter_exact :
  syminfo_iter_symbols img c s = Ok (syminfo_views (names_of strtab rows) irows).
Proof.
  unfold syminfo_iter_symbols. rewrite syminfo_num_exact. unfold py_range.
  replace (zlen rows - 1 + 1 - 1) with (zlen rows - 1) by lia.
  set (full := map info_view (combine (names_of strtab rows) irows)).
  assert (Hfl : length full = length irows).
  { unfold full. rewrite map_length, combine_length. unfold names_of. rewrite map_length.
    assert (Hl' : length irows = length rows) by (apply Nat2Z.inj; exact Hlen).
    change (Nat.min (length rows) (length irows) = length irows).
    rewrite <- Hl'. apply Nat.min_id. }
  change (syminfo_views (names_of strtab rows) irows) with (tl full).
  replace (Z.to_nat (zlen rows - 1)) with (length (tl full))
    by (destruct full; cbn [length tl] in *; unfold zlen in *; lia).
  apply (mapM_range _ dview). intros k Hk.
  assert (Hk' : 0 <= k < zlen irows - 1).
  { destruct full; cbn [length tl] in *; unfold zlen in *; lia. }
  rewrite syminfo_get by lia.
  replace (nth (Z.to_nat k) (tl full) dview) with (nth (Z.to_nat (1 + k)) full dview)
    by (replace (Z.to_nat (1 + k)) with (S (Z.to_nat k)) by lia; destruct full; [destruct (Z.to_nat k)|]; reflexivity).
  unfold full. rewrite combine_nth_views.
  - f_equal. f_equal. unfold names_of. fold (views strtab rows).
    rewrite <- (names_nth (views strtab rows)). unfold views. rewrite map_map. reflexivity.
  - unfold names_of. rewrite map_length. symmetry. apply Nat2Z.inj. exact Hlen.
  - unfold zlen in *. lia.
Qed.
End syminfo.
