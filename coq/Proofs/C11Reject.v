(* Proofs/C11Reject.v — property C11, the clauses about the MODEL of the code
   (Model/C11Dwarf.v): presence formula, rejection of a debug link whose CRC does
   not match, of a malformed legacy framing, of a gABI header whose declared size
   disagrees with the inflated size (and what the code accepted before commit
   d25be29). *)
From PV Require Import Base.Bytes Base.Outcome Base.Fmt Base.Prim Gen.ElfLayouts
  Spec.C11Container Model.C11Elf Model.C11Dwarf Proofs.C11Names Proofs.C11Crc Proofs.C11View.
From Coq Require Import Lia.
Open Scope list_scope.
Open Scope Z_scope.

(* every Section object of the file can be constructed (the Chdr of each
   SHF_COMPRESSED section is readable): true of every file parse_image returns *)
Definition constructible (e : elf) : bool :=
  forallb (fun s => match make_section e s with Ok _ => true | Err _ => false end) (e_secs e).

Lemma name_map_ok e : forall l i,
  forallb (fun s => match make_section e s with Ok _ => true | Err _ => false end) l = true ->
  exists m, name_map_from e i l = Ok m /\
            forall n, (match map_get m n with Some _ => true | None => false end)
                      = existsb (fun s => bytes_eqb (s_name s) n) l.
Proof.
  induction l as [|s r IH]; intros i H.
  - exists []. split; [reflexivity|]. intros n. reflexivity.
  - cbn [forallb] in H. apply andb_prop in H. destruct H as [Hs Hr].
    destruct (IH (S i) Hr) as [m [Hm Hget]].
    cbn [name_map_from]. destruct (make_section e s) as [sc|x]; [|discriminate].
    cbn [bind]. rewrite Hm. cbn [bind]. eexists. split; [reflexivity|].
    intros n. cbn [map_get existsb]. specialize (Hget n).
    destruct (map_get m n) as [j|].
    + rewrite <- Hget. symmetry. apply orb_true_r.
    + rewrite <- Hget, orb_false_r. destruct (bytes_eqb (s_name s) n); reflexivity.
Qed.

Lemma has_section_named e n : constructible e = true -> has_section e n = Ok (has_named e n).
Proof.
  intros H. unfold has_section, name_map. destruct (name_map_ok e (e_secs e) O H) as [m [Hm Hget]].
  rewrite Hm. cbn [bind]. rewrite Hget. reflexivity.
Qed.

(* has_dwarf_info(strict) = the formula of the property *)
Theorem presence_exact e strict : constructible e = true ->
  has_dwarf_info e strict = Ok (presence e strict).
Proof.
  intros H. unfold has_dwarf_info, presence. rewrite !(has_section_named e _ H). cbn [bind].
  destruct (has_named e n_debug_info); [reflexivity|].
  destruct (has_named e n_zdebug_info); [reflexivity|].
  destruct strict; reflexivity.
Qed.

(* files produced by the model of ELFFile() are constructible *)
Lemma read_sections_constructible img h strtab e0 : forall count i secs,
  e_le e0 = h_le h -> e_is64 e0 = h_is64 h ->
  read_sections img h strtab i count = Ok secs ->
  forallb (fun s => match make_section e0 s with Ok _ => true | Err _ => false end) secs = true.
Proof.
  intros count. induction count as [|c IH]; intros i secs Hle H64 H; cbn [read_sections] in H.
  - inversion H. reflexivity.
  - destruct (get_section_header img h i) as [oh|x]; [|discriminate]. cbn [bind] in H.
    destruct strtab as [t|]; [|discriminate]. cbn [bind] in H.
    destruct (subscript oh) as [r|x]; [|discriminate]. cbn [bind] in H.
    match type of H with context [section_init_ok ?a ?b ?c ?d] => destruct (section_init_ok a b c d) as [u|x] eqn:Ei end;
      [|discriminate].
    cbn [bind] in H.
    destruct (read_sections img h (Some t) (i + 1) c) as [rest|x] eqn:Er; [|discriminate].
    cbn [bind] in H. inversion H; subst secs. cbn [forallb].
    rewrite (IH (i + 1) rest Hle H64 Er), andb_true_r.
    unfold make_section. rewrite Hle, H64. unfold section_init_ok in Ei.
    match goal with |- context [negb ?c] => destruct (negb c) end; [|reflexivity].
    match goal with |- context [decode_layout ?L ?b] => destruct (decode_layout L b) as [[hh tt]|] end;
      [reflexivity|discriminate].
Qed.

Theorem parse_image_constructible img e : parse_image img = Ok e -> constructible e = true.
Proof.
  unfold parse_image. intros H.
  destruct (identify_file img) as [[is64 le]|x]; [|discriminate]. cbn [bind] in H.
  match type of H with context [struct_parse_at ?L ?i ?p] => destruct (struct_parse_at L i p) as [eh|x] end;
    [|discriminate].
  cbn [bind] in H.
  match type of H with (do strndx <- ?X; _) = _ => destruct X as [strndx|x] end; [|discriminate].
  cbn [bind] in H.
  match type of H with (do osh <- ?X; _) = _ => destruct X as [osh|x] end; [|discriminate].
  cbn [bind] in H.
  match type of H with (do strtab_off <- ?X; _) = _ => destruct X as [strtab_off|x] end; [|discriminate].
  cbn [bind] in H.
  match type of H with (do n <- ?X; _) = _ => destruct X as [n|x] end; [|discriminate].
  cbn [bind] in H.
  match type of H with (do secs <- ?X; _) = _ => destruct X as [secs|x] eqn:Es end; [|discriminate].
  cbn [bind] in H. inversion H; subst e. unfold constructible. cbn [e_secs].
  eapply read_sections_constructible; [| |exact Es]; reflexivity.
Qed.

Corollary img_presence_exact img e strict : parse_image img = Ok e ->
  img_has_dwarf_info img strict = Ok (presence e strict).
Proof.
  intros H. unfold img_has_dwarf_info. rewrite H. cbn [bind].
  apply presence_exact. apply (parse_image_constructible img e H).
Qed.

Section Reject.
Variable inflate : list Z -> Z -> option (list Z * bool).

(* ---------- debug link with a wrong CRC ---------- *)
Theorem link_rejected_on_crc_mismatch f load e relocate dls filename checksum ext :
  get_section_by_name e n_debuglink = Ok (Some dls) ->
  has_dwarf_info e true = Ok false ->
  gnu_debuglink_parse (e_le e) (s_stream (sc_sec dls)) = Ok (filename, checksum) ->
  load filename = Some ext -> all_bytes ext = true -> crc32_poly ext <> checksum ->
  get_dwarf_info inflate (S f) (Some load) e relocate true = Err EElf.
Proof.
  intros Hs Hd Hp Hl Hb Hc. cbn [get_dwarf_info]. rewrite Hs, Hd. cbn [bind negb andb].
  rewrite Hp. cbn [bind]. rewrite Hl.
  rewrite file_crc32_is_model, crc32_model_is_poly by exact Hb.
  apply Z.eqb_neq in Hc. rewrite Hc. reflexivity.
Qed.

(* ---------- legacy framing ---------- *)
Definition zdebug_bad (d : descriptor) : Prop :=
  ds_size d <= 12 \/
  firstn 4 (ds_stream d) <> ZLIB_MAGIC \/
  (12 <= zlen (ds_stream d) /\ exists out eof,
     inflate (skipn 12 (ds_stream d)) 0 = Some (out, eof) /\
     be_decode (firstn 8 (skipn 4 (ds_stream d))) <> zlen out).

Theorem zdebug_bad_framing_rejected d : zdebug_bad d ->
  decompress_dwarf_section inflate d = Err ECompress.
Proof.
  unfold decompress_dwarf_section. intros [H|[H|[Hlen [out [eof [Hi Hne]]]]]].
  - destruct (Z.ltb_spec 12 (ds_size d)); [lia|reflexivity].
  - destruct (12 <? ds_size d); [|reflexivity]. cbn [negb].
    apply bytes_eqb_neq in H. rewrite H. reflexivity.
  - destruct (12 <? ds_size d); [|reflexivity]. cbn [negb].
    destruct (bytes_eqb (firstn 4 (ds_stream d)) ZLIB_MAGIC); [|reflexivity]. cbn [negb].
    assert (H8 : length (firstn 8 (skipn 4 (ds_stream d))) = 8%nat).
    { rewrite firstn_length, skipn_length. unfold zlen in Hlen. lia. }
    rewrite H8. cbn [Nat.eqb negb]. rewrite Hi.
    apply Z.eqb_neq in Hne. rewrite Hne. reflexivity.
Qed.

(* the same at the level of the specification: nothing is handed to the DWARF reader *)
Theorem spec_zdebug_bad_framing_rejected raw size :
  size <= 12 \/ firstn 4 raw <> ZLIB_MAGIC \/
  (exists out eof, inflate (skipn 12 raw) 0 = Some (out, eof) /\ be_decode (firstn 8 (skipn 4 raw)) <> zlen out) ->
  zdebug_payload inflate raw size = None.
Proof.
  unfold zdebug_payload. intros [H|[H|[out [eof [Hi Hne]]]]].
  - destruct (Z.leb_spec size 12); [reflexivity|lia].
  - destruct (size <=? 12); [reflexivity|]. apply bytes_eqb_neq in H. rewrite H. reflexivity.
  - destruct (size <=? 12); [reflexivity|].
    destruct (bytes_eqb (firstn 4 raw) ZLIB_MAGIC); [|reflexivity].
    destruct (length (firstn 8 (skipn 4 raw)) =? 8)%nat; [|reflexivity].
    rewrite Hi. apply not_eq_sym in Hne. apply Z.eqb_neq in Hne. rewrite Hne. reflexivity.
Qed.

(* ---------- gABI: declared size ---------- *)
(* the bytes Section.data() hands to zlib *)
Definition compressed_bytes (e : elf) (sc : section) : list Z :=
  py_read (s_size (sc_sec sc) - Z.of_nat (chdr_size (e_is64 e)))
          (skipn (chdr_size (e_is64 e)) (s_stream (sc_sec sc))).

Lemma inflate_declared blob p d : deflated inflate blob p -> 0 <= d < 2 ^ 63 -> d <> zlen p ->
  exists result eof, inflate blob d = Some (result, eof) /\ (eof = false \/ zlen result <> d).
Proof.
  intros [H0 Hn] Hd Hne. destruct (Z.eq_dec d 0) as [->|Hnz].
  - exists p, true. split; [exact H0|right; congruence].
  - rewrite (Hn d) by lia. eexists. eexists. split; [reflexivity|].
    destruct (Z.leb_spec (zlen p) d) as [Hle|Hgt]; [right|left; reflexivity].
    rewrite firstn_all2 by (unfold zlen in *; lia). lia.
Qed.

Theorem declared_size_mismatch_rejected e sc p :
  sc_compressed sc = true -> sc_ctype sc = ELFCOMPRESS_ZLIB -> s_type (sc_sec sc) <> SHT_NOBITS ->
  deflated inflate (compressed_bytes e sc) p ->
  0 <= sc_dsize sc < 2 ^ 63 -> sc_dsize sc <> zlen p ->
  section_data inflate e sc = Err ECompress.
Proof.
  intros Hc Ht Hnb Hd Hr Hne. unfold section_data, section_data_gen, GABI_EOF_CHECK.
  apply Z.eqb_neq in Hnb. rewrite Hnb, Hc, Ht, Z.eqb_refl.
  destruct (Z.leb_spec (2 ^ 63) (sc_dsize sc)); [lia|].
  fold (compressed_bytes e sc).
  destruct (inflate_declared _ p (sc_dsize sc) Hd Hr Hne) as [result [eof [Hi Hbad]]].
  rewrite Hi. destruct Hbad as [->|Hz]; [reflexivity|].
  destruct (true && negb eof); [reflexivity|].
  apply Z.eqb_neq in Hz. rewrite Hz. reflexivity.
Qed.

Theorem spec_declared_size_mismatch_rejected le is64 s h t p :
  decode_layout (Spec.ElfGabi.spec_Elf_Chdr le is64) (s_stream s) = Some (h, t) ->
  is_nobits s = false -> rec_z h "ch_type" = ELFCOMPRESS_ZLIB ->
  deflated inflate (py_read (s_size s - Z.of_nat (chdr_size is64)) (skipn (chdr_size is64) (s_stream s))) p ->
  0 <= rec_z h "ch_size" < 2 ^ 63 -> rec_z h "ch_size" <> zlen p ->
  gabi_payload inflate le is64 s = None.
Proof.
  intros Hdec Hnb Ht Hd H0 Hne. unfold gabi_payload. rewrite Hdec, Hnb, Ht, Z.eqb_refl.
  destruct (inflate_declared _ p (rec_z h "ch_size") Hd H0 Hne) as [result [eof [Hi Hbad]]].
  rewrite Hi. destruct Hbad as [->|Hz]; [reflexivity|].
  apply Z.eqb_neq in Hz. rewrite Hz, andb_false_r. reflexivity.
Qed.

End Reject.

(* before commit d25be29 (no decomp.eof test) a declared size SMALLER than the inflated
   size was accepted and the data silently truncated: witness with the stored codec *)
Definition refute_sec : sec := mkSec (ascii_bytes ".debug_str") 1 SHF_COMPRESSED 0 0 14 0 0 [0;0;0;1; 0;0;0;1; 0;0;0;1; 7; 9].
Definition refute_elf : elf := mkElf false false 3 0 [refute_sec].
Definition refute_section : section := mkSection refute_sec true 1 1.

Theorem declared_size_smaller_accepted_before_repair :
  deflated inflate_stored (compressed_bytes refute_elf refute_section) [7; 9] /\
  sc_dsize refute_section < zlen [7; 9] /\
  make_section refute_elf refute_sec = Ok refute_section /\
  section_data_gen inflate_stored false refute_elf refute_section = Ok [7] /\
  section_data inflate_stored refute_elf refute_section = Err ECompress.
Proof.
  split; [|split; [reflexivity|split; [reflexivity|split; reflexivity]]].
  split; [reflexivity|]. intros n Hn. unfold inflate_stored.
  destruct (Z.eqb_spec n 0); [lia|]. destruct (Z.leb_spec (2 ^ 63) n); [lia|reflexivity].
Qed.
