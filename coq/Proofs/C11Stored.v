(* Proofs/C11Stored.v — the "stored" codec (a stream is its own content) obeys the
   zlib law [deflated]: the hypotheses of the invariance theorems are satisfiable,
   and for this codec they can be checked by computation. *)
From PV Require Import Base.Bytes Spec.C11Container Proofs.C11Names Proofs.C11View Proofs.C11Zgnu.
From Coq Require Import Lia.
Open Scope list_scope.
Open Scope Z_scope.

Lemma stored_deflated p : deflated inflate_stored p p.
Proof.
  split; [reflexivity|]. intros n Hn. unfold inflate_stored.
  destruct (Z.eqb_spec n 0); [lia|]. destruct (Z.leb_spec (2 ^ 63) n); [lia|reflexivity].
Qed.

Definition stored_gabi_blobs (choice : nat -> option gabi_args) (e : elf) : bool :=
  all_idx (fun i s => match choice i with
                      | Some a => bytes_eqb (g_blob a) (firstn (Z.to_nat (s_size s)) (s_stream s))
                      | None => true end) 0 (e_secs e).
Definition stored_zgnu_blobs (choice : nat -> option zgnu_args) (e : elf) : bool :=
  all_idx (fun i s => match choice i with
                      | Some a => bytes_eqb (z_blob a) (firstn (Z.to_nat (s_size s)) (s_stream s))
                      | None => true end) 0 (e_secs e).

Lemma stored_gabi_blobs_ok choice e : stored_gabi_blobs choice e = true ->
  gabi_blobs_ok inflate_stored choice e.
Proof.
  intros H i s a Hi Hc. pose proof (all_idx_nth _ _ _ H i s Hi) as Hp. cbn [Nat.add] in Hp.
  rewrite Hc in Hp. apply bytes_eqb_eq in Hp. rewrite Hp. apply stored_deflated.
Qed.

Lemma stored_zgnu_blobs_ok choice e : stored_zgnu_blobs choice e = true ->
  zgnu_blobs_ok inflate_stored choice e.
Proof.
  intros H i s a Hi Hc. pose proof (all_idx_nth _ _ _ H i s Hi) as Hp. cbn [Nat.add] in Hp.
  rewrite Hc in Hp. apply bytes_eqb_eq in Hp. rewrite Hp. apply stored_deflated.
Qed.
