(* Proofs/C11Names.v — facts about section names as byte lists (Spec/C11Container.v):
   bytes_eqb / is_prefix reflect equality / prefix, zname is injective, the fixed
   prefixes (".debug_", ".zdebug_", ".rel", ".rela") exclude one another. *)
From PV Require Import Base.Bytes Spec.C11Container.
From Coq Require Import Lia.
Open Scope list_scope.
Open Scope Z_scope.

Lemma bytes_eqb_eq a : forall b, bytes_eqb a b = true <-> a = b.
Proof.
  induction a as [|x a IH]; intros [|y b]; cbn [bytes_eqb]; split; intros H;
    try reflexivity; try discriminate.
  - apply andb_prop in H. destruct H as [Hx Hr]. apply Z.eqb_eq in Hx.
    apply IH in Hr. subst. reflexivity.
  - inversion H; subst. rewrite Z.eqb_refl. cbn [andb]. apply IH. reflexivity.
Qed.

Lemma bytes_eqb_refl a : bytes_eqb a a = true.
Proof. apply bytes_eqb_eq. reflexivity. Qed.

Lemma bytes_eqb_neq a b : bytes_eqb a b = false <-> a <> b.
Proof.
  split.
  - intros H E. apply bytes_eqb_eq in E. congruence.
  - intros H. destruct (bytes_eqb a b) eqn:E; [|reflexivity].
    apply bytes_eqb_eq in E. contradiction.
Qed.

Lemma bytes_eqb_sym a b : bytes_eqb a b = bytes_eqb b a.
Proof.
  destruct (bytes_eqb a b) eqn:E.
  - apply bytes_eqb_eq in E. subst. symmetry. apply bytes_eqb_refl.
  - symmetry. apply bytes_eqb_neq. apply bytes_eqb_neq in E. congruence.
Qed.

Lemma is_prefix_iff p : forall l, is_prefix p l = true <-> exists r, l = p ++ r.
Proof.
  induction p as [|x p IH]; intros l; cbn [is_prefix].
  - split; [intros _; exists l; reflexivity|reflexivity].
  - destruct l as [|y l].
    + split; [discriminate|intros [r H]; discriminate].
    + split.
      * intros H. apply andb_prop in H. destruct H as [Hx Hr]. apply Z.eqb_eq in Hx.
        apply IH in Hr. destruct Hr as [r ->]. exists r. subst. reflexivity.
      * intros [r H]. inversion H; subst. rewrite Z.eqb_refl. cbn [andb].
        apply IH. exists r. reflexivity.
Qed.

Lemma is_prefix_app p r : is_prefix p (p ++ r) = true.
Proof. apply is_prefix_iff. exists r. reflexivity. Qed.

Lemma strip_prefix_some p l t : strip_prefix p l = Some t <-> l = p ++ t.
Proof.
  unfold strip_prefix. split.
  - destruct (is_prefix p l) eqn:E; [|discriminate]. intros H. inversion H; subst.
    apply is_prefix_iff in E. destruct E as [r ->].
    rewrite skipn_app, skipn_all, Nat.sub_diag. reflexivity.
  - intros ->. rewrite is_prefix_app. rewrite skipn_app, skipn_all, Nat.sub_diag. reflexivity.
Qed.

Lemma strip_prefix_none p l : strip_prefix p l = None <-> is_prefix p l = false.
Proof. unfold strip_prefix. destruct (is_prefix p l); split; congruence. Qed.

(* ---------- the fixed prefixes, computed ---------- *)
Lemma p_debug_val : p_debug = [46; 100; 101; 98; 117; 103; 95]. Proof. reflexivity. Qed.
Lemma p_zdebug_val : p_zdebug = [46; 122; 100; 101; 98; 117; 103; 95]. Proof. reflexivity. Qed.
Lemma p_rel_val : p_rel = [46; 114; 101; 108]. Proof. reflexivity. Qed.
Lemma p_rela_val : p_rela = [46; 114; 101; 108; 97]. Proof. reflexivity. Qed.

Lemma zname_inj a b : zname a = zname b -> a = b.
Proof.
  destruct a as [|x a], b as [|y b]; cbn [zname]; intros H; try reflexivity; try discriminate.
  inversion H; subst. reflexivity.
Qed.

Lemma zname_debug n : is_prefix p_debug n = true -> exists r, n = p_debug ++ r /\ zname n = p_zdebug ++ r.
Proof.
  intros H. apply is_prefix_iff in H. destruct H as [r ->]. exists r. split; reflexivity.
Qed.

Lemma zname_debug_prefix n : is_prefix p_debug n = true -> is_prefix p_zdebug (zname n) = true.
Proof.
  intros H. destruct (zname_debug n H) as [r [_ ->]]. apply is_prefix_app.
Qed.

(* name_in *)
Lemma name_in_iff n l : name_in n l = true <-> In n l.
Proof.
  unfold name_in. rewrite existsb_exists. split.
  - intros [x [Hx E]]. apply bytes_eqb_eq in E. subst. exact Hx.
  - intros H. exists n. split; [exact H|apply bytes_eqb_refl].
Qed.

Lemma name_in_app n a b : name_in n (a ++ b) = name_in n a || name_in n b.
Proof. unfold name_in. apply existsb_app. Qed.
