(* Proofs/C09History.v — one Dynamic object under ANY history of calls (tag walks started,
   advanced and interleaved in any order with num_tags() and get_tag(n)): the stateful model
   of the code (the _num_tags cache, the suspended _iter_tags generators) answers every
   question exactly as the reference does, for which the array is a fixed list.  Invariant
   lifted over the run: the cache is unset or holds the true count; every suspended walk
   stands at a position of the list. *)
From PV Require Import Model.C09Dynamic Base.Enum.
From PV Require Import Proofs.C09Tags Proofs.C09Views.
From Coq Require Import ZifyBool.
Open Scope string_scope.
Open Scope list_scope.
Open Scope Z_scope.

Section hist.
Variable f : elf.
Variable dy : dynobj.
Hypothesis Hne : dy_empty dy = false.

(* the walk from index n reads exactly l and ends at its DT_NULL *)
Fixpoint chain (n : Z) (l : list rawtag) : Prop :=
  match l with
  | [] => False
  | x :: r => get_tag_raw f dy n = Ok x /\
              (if is_name (fst x) "DT_NULL" then r = [] else chain (n + 1) r)
  end.

Lemma raw_tags_go_chain : forall fuel n l, raw_tags_go fuel f dy n = Ok l ->
  chain n l /\ (length l <= fuel)%nat.
Proof.
  induction fuel as [|k IH]; intros n l H; cbn [raw_tags_go] in H; [discriminate|].
  destruct (get_tag_raw f dy n) as [t|] eqn:Et; [|discriminate]. cbn [bind] in H.
  destruct (is_name (fst t) "DT_NULL") eqn:En.
  - inversion H; subst l. cbn [chain length]. rewrite En. split; [split; [exact Et|reflexivity]|lia].
  - destruct (raw_tags_go k f dy (n + 1)) as [r|] eqn:Er; [|discriminate]. cbn [bind] in H.
    inversion H; subst l. destruct (IH _ _ Er) as [Hc Hl]. cbn [chain length]. rewrite En.
    split; [split; [exact Et|exact Hc]|lia].
Qed.

Lemma chain_nth_error : forall l n i t, chain n l -> nth_error l i = Some t ->
  get_tag_raw f dy (n + Z.of_nat i) = Ok t.
Proof.
  induction l as [|x r IH]; intros n i t Hc Hn; [destruct Hc|]. destruct Hc as [Hx Hr].
  destruct i as [|i]; cbn [nth_error] in Hn.
  - inversion Hn; subst. replace (n + Z.of_nat 0) with n by lia. exact Hx.
  - destruct (is_name (fst x) "DT_NULL"); [subst r; destruct i; discriminate|].
    replace (n + Z.of_nat (S i)) with (n + 1 + Z.of_nat i) by lia. apply (IH _ _ _ Hr Hn).
Qed.

Variable ts : list rawtag.
Hypothesis Hts : raw_tags f dy = Ok ts.

Lemma ts_chain : chain 0 ts /\ (length ts <= S (length (f_img f)))%nat.
Proof. unfold raw_tags in Hts. rewrite Hne in Hts. apply raw_tags_go_chain. exact Hts. Qed.

(* ---------- the invariant ---------- *)
Definition cache_ok (c : option Z) : Prop := c = None \/ c = Some (zlen ts).
Definition wr (w : walk) (r : option string * list rawtag) : Prop :=
  w_type w = fst r /\ 0 <= w_next w /\ w_next w + zlen (snd r) = zlen ts /\
  (if w_done w then snd r = [] else chain (w_next w) (snd r)).
Definition inv (st : dstate) (ws : list (option string * list rawtag)) : Prop :=
  cache_ok (ds_num st) /\ Forall2 wr (ds_walks st) ws.

Lemma get_tag_st_below c n : cache_ok c -> n < zlen ts -> get_tag_st f dy c n = get_tag_raw f dy n.
Proof.
  intros [->| ->] Hn; cbn [get_tag_st]; [reflexivity|].
  destruct (Z.leb_spec (zlen ts) n); [lia|reflexivity].
Qed.

(* next() on a suspended walk = the next matching element of the rest of the list *)
Lemma walk_next_ref c ty : cache_ok c -> forall rest fuel w,
  wr w (ty, rest) -> (length rest <= fuel)%nat ->
  exists w',
    walk_next fuel f dy c w =
      Ok (match first_match rawtag tmatch ty rest with Some (x, _) => Some x | None => None end, w') /\
    wr w' (ty, match first_match rawtag tmatch ty rest with Some (_, r) => r | None => [] end).
Proof.
  intros Hc. induction rest as [|x r IH]; intros fuel w [Hty [H0 [Hpos Hch]]] Hf; cbn [fst snd] in *.
  - destruct (w_done w) eqn:Ed; [|destruct Hch].
    destruct fuel; cbn [walk_next first_match]; rewrite Ed; cbn [orb];
      (eexists; split; [reflexivity|]); repeat split; cbn [fst snd w_type w_next w_done]; auto.
  - destruct (w_done w) eqn:Ed; [discriminate|]. destruct Hch as [Hx Hr].
    destruct fuel as [|k]; [cbn in Hf; lia|]. cbn [walk_next]. rewrite Ed, Hne. cbn [orb].
    rewrite zlen_cons in Hpos.
    rewrite (get_tag_st_below c (w_next w) Hc) by (pose proof (zlen_nonneg r); lia).
    rewrite Hx. cbn [bind first_match]. rewrite Hty.
    destruct (tmatch ty x) eqn:Em.
    + eexists. split; [reflexivity|]. repeat split; cbn [fst snd w_type w_next w_done]; try lia.
      destruct (is_name (fst x) "DT_NULL"); exact Hr.
    + destruct (is_name (fst x) "DT_NULL") eqn:En.
      * subst r. cbn [first_match]. eexists. split; [reflexivity|].
        repeat split; cbn [fst snd w_type w_next w_done]; try (unfold zlen in *; cbn [length] in *; lia).
      * destruct (IH k (mkWalk ty (w_next w + 1) false)) as [w' [Hw Hwr]].
        { repeat split; cbn [fst snd w_type w_next w_done]; try lia. exact Hr. }
        { cbn [length] in Hf. lia. }
        exists w'. split; [exact Hw|exact Hwr].
Qed.

Lemma Forall2_nth_error {A B} (P : A -> B -> Prop) : forall l1 l2 i, Forall2 P l1 l2 ->
  match nth_error l1 i, nth_error l2 i with
  | Some a, Some b => P a b
  | None, None => True
  | _, _ => False
  end.
Proof.
  intros l1 l2 i H. revert i. induction H as [|a b l1 l2 Hab H IH]; intros [|i]; cbn; auto. apply IH.
Qed.
Lemma Forall2_set_nth {A B} (P : A -> B -> Prop) : forall l1 l2 i a b, Forall2 P l1 l2 -> P a b ->
  Forall2 P (set_nth l1 i a) (set_nth l2 i b).
Proof.
  intros l1 l2 i a b H Hab. revert i. induction H as [|x y l1 l2 Hxy H IH]; intros [|i]; cbn [set_nth];
    constructor; auto.
Qed.

Lemma nthz_nth_error_eq {A} (l : list A) n : 0 <= n -> nthz l n = nth_error l (Z.to_nat n).
Proof.
  intros Hn. unfold nthz. destruct (Z.ltb_spec n 0); [lia|]. rewrite seekz_skipn.
  generalize (Z.to_nat n). intros k. revert l. induction k as [|k IH]; intros [|y l]; cbn; auto.
Qed.

Definition hop_ok (op : hop) : Prop := match op with HGetTag n => 0 <= n | _ => True end.

(* every answer of the object under a history is the reference's *)
Theorem history_exact : forall ops st ws, Forall hop_ok ops -> inv st ws ->
  hrun f dy st ops = rrun rawtag tmatch ts ws ops.
Proof.
  destruct ts_chain as [Hch Hlen].
  induction ops as [|op ops IH]; intros st ws Hok [Hc Hw]; [reflexivity|].
  inversion Hok as [|? ? Hop Hops]; subst. cbn [hrun rrun].
  destruct op as [ty|i| |n]; cbn [hstep rstep].
  - f_equal. apply IH; [exact Hops|]. split; [exact Hc|]. cbn [ds_num ds_walks].
    apply Forall2_app; [exact Hw|]. constructor; [|constructor].
    repeat split; cbn [fst snd w_type w_next w_done]; try lia. exact Hch.
  - pose proof (Forall2_nth_error _ _ _ i Hw) as Hi.
    destruct (nth_error (ds_walks st) i) as [w|], (nth_error ws i) as [[ty rest]|]; try contradiction.
    + assert (Hf : (length rest <= S (length (f_img f)))%nat).
      { destruct Hi as [_ [H0 [Hp _]]]. cbn [snd] in Hp. unfold zlen in *. lia. }
      destruct (walk_next_ref (ds_num st) ty Hc rest _ w Hi Hf) as [w' [Hwn Hwr]]. rewrite Hwn.
      destruct (first_match rawtag tmatch ty rest) as [[x r]|]; f_equal;
        (apply IH; [exact Hops|]); (split; [exact Hc|]); cbn [ds_num ds_walks];
        apply Forall2_set_nth; assumption.
    + f_equal. apply IH; [exact Hops|]. split; assumption.
  - assert (Hn : exists c', num_tags_st f dy (ds_num st) = Ok (zlen ts, c') /\ cache_ok c').
    { destruct Hc as [-> | ->]; cbn [num_tags_st]; [rewrite Hts; cbn [bind]|]; eexists; (split; [reflexivity|]); right; reflexivity. }
    destruct Hn as [c' [-> Hc']]. f_equal. apply IH; [exact Hops|]. split; assumption.
  - assert (Hn : exists c', num_tags_st f dy (ds_num st) = Ok (zlen ts, c') /\ cache_ok c').
    { destruct Hc as [-> | ->]; cbn [num_tags_st]; [rewrite Hts; cbn [bind]|]; eexists; (split; [reflexivity|]); right; reflexivity. }
    destruct Hn as [c' [-> Hc']]. cbn [hop_ok] in Hop. rewrite (nthz_nth_error_eq ts n Hop).
    destruct (Z.leb_spec (zlen ts) n) as [Hge|Hlt].
    + assert (Hnone : nth_error ts (Z.to_nat n) = None) by (apply nth_error_None; unfold zlen in Hge; lia).
      rewrite Hnone. f_equal. apply IH; [exact Hops|]. split; assumption.
    + rewrite (get_tag_st_below c' n Hc' Hlt).
      destruct (nth_error ts (Z.to_nat n)) as [t|] eqn:En;
        [|apply nth_error_None in En; unfold zlen in Hlt; lia].
      pose proof (chain_nth_error ts 0 _ t Hch En) as Hg. rewrite Z2Nat.id in Hg by lia. cbn [Z.add] in Hg.
      rewrite Hg. f_equal. apply IH; [exact Hops|]. split; assumption.
Qed.

(* from the state Dynamic.__init__ leaves: whatever is asked, in whatever order *)
Corollary history_exact_init : forall ops, Forall hop_ok ops ->
  hrun f dy (dst_init dy) ops = rrun rawtag tmatch ts [] ops.
Proof.
  intros ops Hok. apply history_exact; [exact Hok|]. unfold dst_init. rewrite Hne.
  split; [left; reflexivity|constructor].
Qed.
End hist.
