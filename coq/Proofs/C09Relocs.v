(* Proofs/C09Relocs.v — views_agree for the relocation tables: for consistent images the
   tables Dynamic.get_relocation_tables builds from the DynamicSegment of the stripped image
   (and of the original) are those of the DynamicSection of the original, entry by entry. *)
From PV Require Import Model.C09Dynamic Base.Enum Spec.PrimSpec.
From PV Require Import Proofs.PrimProofs Proofs.FmtProofs Proofs.ElfLayoutFacts Proofs.C09Tables Proofs.C09Tags
                       Proofs.C09Views.
From Coq Require Import ZifyBool.
Open Scope string_scope.
Open Scope list_scope.
Open Scope Z_scope.

(* ---------- iter_tags(type) for tags that carry no string ---------- *)
Lemma dynamic_tags_unhandled f st : forall ts,
  forallb (fun t : rawtag => negb (handled_tag (fst t))) ts = true ->
  dynamic_tags f (Ok (Some st)) ts = Ok (map (fun t => (t, @None (list Z))) ts).
Proof.
  induction ts as [|t r IH]; intros H; [reflexivity|].
  cbn [forallb] in H. apply andb_prop in H. destruct H as [Ht Hr].
  cbn [dynamic_tags bind map]. unfold dynamic_tag. destruct (handled_tag (fst t)); [discriminate|].
  cbn [bind]. rewrite (IH Hr). reflexivity.
Qed.

Lemma tags_of_type_unhandled name ts : handled_tag (EN name) = false ->
  forallb (fun t : rawtag => negb (handled_tag (fst t))) (tags_of_type ts name) = true.
Proof.
  intros Hn. apply forallb_forall. intros t Hin. unfold tags_of_type in Hin. apply filter_In in Hin.
  destruct Hin as [_ Hin]. destruct (fst t) as [n|v]; cbn [is_name] in Hin; [|discriminate].
  apply String.eqb_eq in Hin. subst n. rewrite Hn. reflexivity.
Qed.

Definition typed (ts : list rawtag) (name : string) : list dyntag :=
  map (fun t => (t, @None (list Z))) (tags_of_type ts name).

Lemma iter_tags_typed_unhandled f ps ts dy st name :
  get_stringtable f ps ts dy = Ok (Some st) -> handled_tag (EN name) = false ->
  iter_tags_typed f ps ts dy name = Ok (typed ts name).
Proof.
  intros Hst Hn. unfold iter_tags_typed. rewrite Hst.
  apply dynamic_tags_unhandled, tags_of_type_unhandled. exact Hn.
Qed.

(* get_relocation_tables does not depend on which string table object the Dynamic holds,
   nor on the image bytes: only on the tags, the class and the PT_LOAD map *)
Lemma get_relocation_tables_same f f' ps ts dy dy' st st' :
  f_is64 f = f_is64 f' -> f_ptab f = f_ptab f' ->
  get_stringtable f ps ts dy = Ok (Some st) -> get_stringtable f' ps ts dy' = Ok (Some st') ->
  get_relocation_tables f ps ts dy = get_relocation_tables f' ps ts dy'.
Proof.
  intros H64 Hpt Hst Hst'.
  pose proof (fun name => iter_tags_typed_unhandled f ps ts dy st name Hst) as Hit.
  pose proof (fun name => iter_tags_typed_unhandled f' ps ts dy' st' name Hst') as Hit'.
  unfold get_relocation_tables, next_val. cbv zeta beta.
  rewrite !Hit by reflexivity. rewrite !Hit' by reflexivity.
  unfold get_table_offset, address_offsets, pt_is, Rel_sizeof, Relr_sizeof.
  rewrite H64, Hpt. reflexivity.
Qed.

(* ---------- entries of a table lying behind the ELF header ---------- *)
Lemma parse_at_same_behind L k img img' off : same_behind k img img' -> 0 <= k <= off ->
  parse_at L img off = parse_at L img' off.
Proof. intros Hs Hk. unfold parse_at. rewrite (same_behind_seekz k img img' off Hs Hk). reflexivity. Qed.

Lemma parse_table_same_behind L k img img' stride : same_behind k img img' -> 0 <= k -> 0 <= stride ->
  forall n off, k <= off -> parse_table L img off stride n = parse_table L img' off stride n.
Proof.
  intros Hs Hk Hst. induction n as [|n IH]; intros off Ho; [reflexivity|]. cbn [parse_table].
  rewrite (parse_at_same_behind L k img img' off Hs) by lia. rewrite (IH (off + stride)) by lia. reflexivity.
Qed.

Definition off_behind (k : Z) (o : option Z) : Prop := match o with Some o => k <= o | None => True end.
Definition tab_off (t : reltab) : option Z := match t with RelTable _ o _ _ => o | RelrTable o _ _ => o end.
Definition tab_behind (k : Z) (t : reltab) : Prop := off_behind k (tab_off t).

Lemma relr_go_same f f' k : same_behind k (f_img f) (f_img f') -> 0 <= k ->
  f_le f = f_le f' -> f_is64 f = f_is64 f' ->
  forall fuel relr limit base entsize, k <= relr -> 0 <= entsize ->
  relr_go fuel f relr limit base entsize = relr_go fuel f' relr limit base entsize.
Proof.
  intros Hs Hk Hle H64. induction fuel as [|fuel IH]; intros relr limit base entsize Hr He; [reflexivity|].
  cbn [relr_go]. rewrite <- Hle, <- H64.
  rewrite (parse_at_same_behind _ k _ _ relr Hs) by lia.
  destruct (relr <? limit); [|reflexivity].
  destruct (parse_at _ (f_img f') relr) as [r|]; [|reflexivity]. cbn [bind].
  destruct (Z.land (rec_z r "r_offset") 1 =? 0).
  - rewrite IH by lia. reflexivity.
  - destruct base as [b|]; [|reflexivity]. rewrite IH by lia. reflexivity.
Qed.

Lemma reltab_entries_same f f' k t : same_behind k (f_img f) (f_img f') -> 0 <= k ->
  f_le f = f_le f' -> f_is64 f = f_is64 f' -> e_machine (f_eh f) = e_machine (f_eh f') ->
  tab_behind k t -> reltab_entries f t = reltab_entries f' t.
Proof.
  intros Hs Hk Hle H64 Hm Ht. pose proof Hs as [Hlen _].
  assert (Hcl : forall n, clampn (f_img f) n = clampn (f_img f') n) by (intros n; unfold clampn, zlen; rewrite Hlen; reflexivity).
  unfold tab_behind in Ht.
  destruct t as [kind [o|] size is_rela|[o|] size entsize]; cbn [reltab_entries tab_off off_behind] in *;
    unfold Rel_sizeof, Relr_sizeof, rel_layout; rewrite <- ?Hle, <- ?H64, <- ?Hm, <- ?Hcl; try reflexivity.
  - destruct (_ <=? 0); [reflexivity|].
    rewrite (parse_table_same_behind _ k _ _ _ Hs Hk) by (destruct is_rela, (f_is64 f); lia). reflexivity.
  - destruct (size =? 0); [reflexivity|]. rewrite Hlen.
    apply (relr_go_same f f' k Hs Hk Hle H64); [lia| destruct (f_is64 f); lia].
Qed.

(* ---------- the tables get_relocation_tables builds lie where the pointers map ---------- *)
Lemma bind_ok {A B} (r : res A) (k : A -> res B) b : bind r k = Ok b -> exists a, r = Ok a /\ k a = Ok b.
Proof. destruct r as [a|e]; cbn [bind]; [eauto|discriminate]. Qed.

Ltac bind_inv H x := apply bind_ok in H; destruct H as [x [_ H]].

Lemma grt_behind f ps ts dy L k :
  get_relocation_tables f ps ts dy = Ok L ->
  (forall name, In name ["DT_REL"; "DT_RELA"; "DT_RELR"; "DT_JMPREL"] ->
                off_behind k (snd (get_table_offset f ps ts name))) ->
  Forall (tab_behind k) L.
Proof.
  unfold get_relocation_tables. cbv zeta beta. intros H Hoffs.
  apply bind_ok in H. destruct H as [b1 [_ H]]. apply bind_ok in H. destruct H as [r1 [H1 H]].
  apply bind_ok in H. destruct H as [b2 [_ H]]. apply bind_ok in H. destruct H as [r2 [H2 H]].
  apply bind_ok in H. destruct H as [b3 [_ H]]. apply bind_ok in H. destruct H as [r3 [H3 H]].
  apply bind_ok in H. destruct H as [b4 [_ H]]. apply bind_ok in H. destruct H as [r4 [H4 H]].
  inversion H; subst L. clear H.
  assert (F1 : Forall (tab_behind k) r1).
  { destruct b1; [|inversion H1; constructor]. bind_inv H1 sz. bind_inv H1 ent.
    destruct (_ =? ent); [|discriminate]. inversion H1; subst. constructor; [|constructor].
    apply (Hoffs "DT_REL"). cbn; tauto. }
  assert (F2 : Forall (tab_behind k) r2).
  { destruct b2; [|inversion H2; constructor]. bind_inv H2 sz. bind_inv H2 ent.
    destruct (_ =? ent); [|discriminate]. inversion H2; subst. constructor; [|constructor].
    apply (Hoffs "DT_RELA"). cbn; tauto. }
  assert (F3 : Forall (tab_behind k) r3).
  { destruct b3; [|inversion H3; constructor]. bind_inv H3 sz. bind_inv H3 ent.
    destruct (_ =? ent); [|discriminate]. inversion H3; subst. constructor; [|constructor].
    apply (Hoffs "DT_RELR"). cbn; tauto. }
  assert (F4 : Forall (tab_behind k) r4).
  { destruct b4; [|inversion H4; constructor]. bind_inv H4 sz. bind_inv H4 pr. bind_inv H4 rela.
    inversion H4; subst. constructor; [|constructor].
    apply (Hoffs "DT_JMPREL"). cbn; tauto. }
  repeat (apply Forall_app; split); assumption.
Qed.

Lemma reloc_ok_behind f is64 img ps es tptr tsz tent ent name :
  reloc_ok is64 img ps es tptr tsz tent ent = true ->
  name_is (f_dtab f) tptr name -> name_is (f_ptab f) PT_LOAD "PT_LOAD" ->
  off_behind (ehdr_size is64) (snd (get_table_offset f ps (map (raw_of (f_dtab f)) es) name)).
Proof.
  intros Hr Hn Hp. rewrite (get_table_offset_spec f ps es tptr name Hn). unfold reloc_ok in Hr.
  destruct (first_val tptr es) as [ptr|]; [|exact I].
  destruct (first_val tsz es) as [sz|]; [|discriminate]. destruct (first_val tent es) as [en|]; [|discriminate].
  apply andb_prop in Hr. destruct Hr as [_ Hr].
  destruct (ptr_ok is64 img ps ptr sz) as [off|] eqn:Ep; [|discriminate].
  destruct (ptr_ok_inv _ _ _ _ _ _ Ep) as [Hmap [Hnz [_ [Hoff _]]]]. cbn [snd].
  destruct (Z.eqb_spec ptr 0); [contradiction|].
  rewrite (address_offset_first f ps ptr sz off Hp Hmap). exact Hoff.
Qed.

Ltac dC C := destruct C as [c_open0 c_open'0 c_img0 c_img'0 c_le'0 c_64'0 c_mach'0 c_dtab0 c_dtab'0 c_pt0 c_sht0 c_pt'0 c_sht'0 c_same0 c_ehpos0 c_ss0 c_ss'0 c_ps0 c_ps'0 c_sec0 c_str0 c_strty0 c_seg0 c_fs0 c_segoff0 c_secoff0 c_es_sec0 c_es_seg0 c_sp0 c_spnz0 c_spmap0 c_stroff0 c_strlen0 c_strend0 c_strings0 c_eh0 c_640 c_le0 c_ptab'0 c_shdr_nth0 c_ptrs0 c_rel0 c_rela0 c_relr0 c_jmprel0].

(* ---------- the three Dynamic objects of a consistent image and its stripped form ---------- *)
Section with_ctx.
Variables (img img' : list Z) (d : dyninfo) (f f' : elf) (sp : Z).
Hypothesis C : vctx img img' d f f' sp.
Let sec := di_sec d.
Let str := di_str d.
Let seg := di_seg d.
Let ps := di_phdrs d.
Let ts := map (raw_of (f_dtab f)) (di_entries d).
Let st_sec := StSection (sh_offset str) true.
Let dy_sec := mkDyn (sh_offset sec) false (Some st_sec).
Let dy_seg := mkDyn (p_offset seg) false (if sh_offset sec =? p_offset seg then Some st_sec else None).
Let dy_seg' := mkDyn (p_offset seg) false None.

Lemma ctx_sec_type : sh_type sec = SHT_DYNAMIC.
Proof. dC C. pose proof (filter_singleton_in _ _ _ c_sec0) as H. unfold sec. clear - H. lia. Qed.

Lemma ctx_null : name_is (f_dtab f) DT_NULL "DT_NULL".
Proof. dC C. apply (dt_name _ _ _ _ _ c_dtab0). cbn; tauto. Qed.

Lemma ctx_dtab_eq : f_dtab f' = f_dtab f.
Proof. dC C. congruence. Qed.

Lemma ctx_dy_sec : the_dynamic_section f = Ok dy_sec.
Proof.
  pose proof ctx_sec_type as Hty. dC C. unfold the_dynamic_section. rewrite c_ss0. cbn [bind].
  rewrite (filter_dynamic_sections f c_sht0), c_sec0. cbn [first_res bind].
  apply (dynamic_section_init_ok f c_sht0); assumption.
Qed.

Lemma ctx_iter_segments : iter_segments f = Ok ps.
Proof.
  dC C. unfold iter_segments. rewrite c_ps0. cbn [bind].
  rewrite (make_segments_full f 0 0 c_sht0 _ _ _ c_ss0 c_sec0 c_str0 c_strty0). reflexivity.
Qed.
Lemma ctx_iter_segments' : iter_segments f' = Ok ps.
Proof.
  dC C. unfold iter_segments. rewrite c_ps'0. cbn [bind].
  rewrite (make_segments_stripped f' c_ss'0). reflexivity.
Qed.

Lemma ctx_dy_seg : the_dynamic_segment f = Ok dy_seg.
Proof.
  pose proof ctx_sec_type as Hty. pose proof ctx_iter_segments as Hit. dC C.
  unfold the_dynamic_segment. rewrite Hit. cbn [bind].
  unfold ps. rewrite (filter_dynamic_segments f c_pt0). destruct (first_where_filter _ _ _ c_seg0) as [r ->].
  cbn [first_res bind]. unfold dynamic_segment_init. rewrite c_ss0. cbn [bind].
  rewrite (proj2 (find_dynsec_strtab_one f c_sht0 (di_seg d) _ _ Hty c_strty0 c_str0 _) c_sec0). cbn [bind].
  replace (p_filesz (di_seg d) =? 0) with false by (clear - c_fs0; lia). reflexivity.
Qed.
Lemma ctx_dy_seg' : the_dynamic_segment f' = Ok dy_seg'.
Proof.
  pose proof ctx_iter_segments' as Hit. dC C.
  unfold the_dynamic_segment. rewrite Hit. cbn [bind].
  unfold ps. rewrite (filter_dynamic_segments f' c_pt'0). destruct (first_where_filter _ _ _ c_seg0) as [r ->].
  cbn [first_res bind]. unfold dynamic_segment_init. rewrite c_ss'0. cbn [bind find_dynsec_strtab].
  replace (p_filesz (di_seg d) =? 0) with false by (clear - c_fs0; lia). reflexivity.
Qed.

Lemma ctx_raw_sec : raw_tags f dy_sec = Ok ts.
Proof.
  pose proof ctx_null as Hn. dC C. apply (raw_tags_read f dy_sec _ eq_refl Hn); cbn [dy_sec dy_off].
  - clear - c_ehpos0 c_secoff0. unfold sec. lia.
  - rewrite c_img0. assumption.
Qed.
Lemma ctx_raw_seg : raw_tags f dy_seg = Ok ts.
Proof.
  pose proof ctx_null as Hn. dC C. apply (raw_tags_read f dy_seg _ eq_refl Hn); cbn [dy_seg dy_off].
  - clear - c_ehpos0 c_segoff0. unfold seg. lia.
  - rewrite c_img0. assumption.
Qed.
Lemma ctx_raw_seg' : raw_tags f' dy_seg' = Ok ts.
Proof.
  pose proof ctx_null as Hn. pose proof ctx_dtab_eq as Hd. pose proof (ctx_es_seg' _ _ _ _ _ _ C) as He.
  dC C. unfold ts. rewrite <- Hd. rewrite <- Hd in Hn.
  apply (raw_tags_read f' dy_seg' _ eq_refl Hn); cbn [dy_seg' dy_off].
  - clear - c_ehpos0 c_segoff0. unfold seg. lia.
  - exact He.
Qed.

(* the string table object each of them ends up with *)
Lemma ctx_st_pointed g : f_dtab g = f_dtab f -> name_is (f_ptab g) PT_LOAD "PT_LOAD" ->
  forall off, get_stringtable g ps ts (mkDyn off false None) = Ok (Some (StDynamic (sh_offset str))).
Proof.
  intros Hd Hp off. dC C. unfold get_stringtable. cbn [dy_str]. unfold ts. rewrite <- Hd.
  rewrite (get_table_offset_spec g ps _ DT_STRTAB "DT_STRTAB")
    by (rewrite Hd; apply (dt_name _ _ _ _ _ c_dtab0); cbn; tauto).
  rewrite c_sp0. cbn [snd]. destruct (Z.eqb_spec sp 0); [contradiction|].
  rewrite (address_offset_first g ps sp _ _ Hp c_spmap0). reflexivity.
Qed.
Lemma ctx_st_seg : exists st, get_stringtable f ps ts dy_seg = Ok (Some st).
Proof.
  unfold dy_seg. destruct (sh_offset sec =? p_offset seg).
  - eexists. reflexivity.
  - eexists. apply ctx_st_pointed; [reflexivity|]. dC C. apply c_pt0. cbn; tauto.
Qed.
Lemma ctx_st_seg' : exists st, get_stringtable f' ps ts dy_seg' = Ok (Some st).
Proof.
  eexists. apply ctx_st_pointed; [apply ctx_dtab_eq|]. dC C. apply c_pt'0. cbn; tauto.
Qed.

(* the relocation tables *)
Lemma ctx_rel_behind : forall name, In name ["DT_REL"; "DT_RELA"; "DT_RELR"; "DT_JMPREL"] ->
  off_behind (ehdr_size (f_is64 f)) (snd (get_table_offset f ps ts name)).
Proof.
  dC C. assert (Hp : name_is (f_ptab f) PT_LOAD "PT_LOAD") by (apply c_pt0; cbn; tauto).
  assert (Hn : forall val name, In (val, name) spec_dt_names -> name_is (f_dtab f) val name)
    by (intros val name H; apply (dt_name _ _ _ _ _ c_dtab0 H)).
  intros name [<-|[<-|[<-|[<-|[]]]]].
  - apply (reloc_ok_behind f _ _ _ _ _ _ _ _ _ c_rel0); [apply Hn; cbn; tauto|exact Hp].
  - apply (reloc_ok_behind f _ _ _ _ _ _ _ _ _ c_rela0); [apply Hn; cbn; tauto|exact Hp].
  - apply (reloc_ok_behind f _ _ _ _ _ _ _ _ _ c_relr0); [apply Hn; cbn; tauto|exact Hp].
  - apply (reloc_ok_behind f _ _ _ _ _ _ _ _ _ c_jmprel0); [apply Hn; cbn; tauto|exact Hp].
Qed.

Lemma ctx_view_relocs_seg : view_relocs f dy_seg = view_relocs f dy_sec.
Proof.
  destruct ctx_st_seg as [st Hst]. unfold view_relocs.
  rewrite ctx_raw_sec, ctx_raw_seg, ctx_iter_segments. cbn [bind].
  rewrite (get_relocation_tables_same f f ps ts dy_seg dy_sec st st_sec eq_refl eq_refl Hst eq_refl). reflexivity.
Qed.

Lemma ctx_view_relocs_seg' : view_relocs f' dy_seg' = view_relocs f dy_sec.
Proof.
  destruct ctx_st_seg' as [st Hst]. unfold view_relocs.
  rewrite ctx_raw_sec, ctx_raw_seg', ctx_iter_segments, ctx_iter_segments'. cbn [bind].
  pose proof ctx_rel_behind as Hb. dC C.
  rewrite (get_relocation_tables_same f' f ps ts dy_seg' dy_sec st st_sec c_64'0 c_ptab'0 Hst eq_refl).
  destruct (get_relocation_tables f ps ts dy_sec) as [L|e] eqn:EL; [|reflexivity]. cbn [bind]. f_equal.
  pose proof (grt_behind _ _ _ _ _ _ EL Hb) as HF. rewrite Forall_forall in HF.
  apply map_ext_in. intros t Ht. f_equal. symmetry.
  apply (reltab_entries_same f f' (ehdr_size (f_is64 f))); try (symmetry; assumption).
  - rewrite c_img0, c_img'0. exact c_same0.
  - clear - c_ehpos0. lia.
  - apply HF. exact Ht.
Qed.
End with_ctx.

Theorem views_agree_relocs img img' :
  consistent_b img = true -> stripped_of_b img img' = true ->
  segment_relocs img' = section_relocs img /\ segment_relocs img = section_relocs img.
Proof.
  intros Hc Hst. destruct (describe img) as [d|] eqn:Hd; [|unfold consistent_b in Hc; rewrite Hd in Hc; discriminate].
  destruct (consistent_ctx _ _ _ Hd Hc Hst) as [f [f' [sp C]]].
  unfold segment_relocs, section_relocs. rewrite (c_open _ _ _ _ _ _ C), (c_open' _ _ _ _ _ _ C). cbn [bind].
  rewrite (ctx_dy_sec _ _ _ _ _ _ C), (ctx_dy_seg _ _ _ _ _ _ C), (ctx_dy_seg' _ _ _ _ _ _ C). cbn [bind].
  split; [apply (ctx_view_relocs_seg' _ _ _ _ _ _ C) | apply (ctx_view_relocs_seg _ _ _ _ _ _ C)].
Qed.
