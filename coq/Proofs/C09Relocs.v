(* Proofs/C09Relocs.v — views_agree for the relocation tables: for consistent images the
   tables Dynamic.get_relocation_tables builds from the DynamicSegment of the stripped image
   (and of the original) are those of the DynamicSection of the original, entry by entry. *)
From PV Require Import Model.C09Dynamic Base.Enum Spec.PrimSpec.
From PV Require Import Proofs.PrimProofs Proofs.FmtProofs Proofs.ElfLayoutFacts Proofs.C09Tables Proofs.C09Tags
                       Proofs.C09Views.
From Coq Require Import ZifyBool.
Open Scope string_scope.
Open Scope list_scope.
Open Scope Z_scope.

(* ---------- iter_tags(type) for tags that carry no string ---------- *)
Lemma dynamic_tags_unhandled f st : forall ts,
  forallb (fun t : rawtag => negb (handled_tag (fst t))) ts = true ->
  dynamic_tags f (Ok (Some st)) ts = Ok (map (fun t => (t, @None (list Z))) ts).
Proof.
  induction ts as [|t r IH]; intros H; [reflexivity|].
  cbn [forallb] in H. apply andb_prop in H. destruct H as [Ht Hr].
  cbn [dynamic_tags bind map]. unfold dynamic_tag. destruct (handled_tag (fst t)); [discriminate|].
  cbn [bind]. rewrite (IH Hr). reflexivity.
Qed.

Lemma tags_of_type_unhandled name ts : handled_tag (EN name) = false ->
  forallb (fun t : rawtag => negb (handled_tag (fst t))) (tags_of_type ts name) = true.
Proof.
  intros Hn. apply forallb_forall. intros t Hin. unfold tags_of_type in Hin. apply filter_In in Hin.
  destruct Hin as [_ Hin]. destruct (fst t) as [n|v]; cbn [is_name] in Hin; [|discriminate].
  apply String.eqb_eq in Hin. subst n. rewrite Hn. reflexivity.
Qed.

Definition typed (ts : list rawtag) (name : string) : list dyntag :=
  map (fun t => (t, @None (list Z))) (tags_of_type ts name).

Lemma iter_tags_typed_unhandled f ps ts dy st name :
  get_stringtable f ps ts dy = Ok (Some st) -> handled_tag (EN name) = false ->
  iter_tags_typed f ps ts dy name = Ok (typed ts name).
Proof.
  intros Hst Hn. unfold iter_tags_typed. rewrite Hst.
  apply dynamic_tags_unhandled, tags_of_type_unhandled. exact Hn.
Qed.

(* get_relocation_tables does not depend on which string table object the Dynamic holds,
   nor on the image bytes: only on the tags, the class and the PT_LOAD map *)
Lemma get_relocation_tables_same f f' ps ts dy dy' st st' :
  f_is64 f = f_is64 f' -> f_ptab f = f_ptab f' ->
  get_stringtable f ps ts dy = Ok (Some st) -> get_stringtable f' ps ts dy' = Ok (Some st') ->
  get_relocation_tables f ps ts dy = get_relocation_tables f' ps ts dy'.
Proof.
  intros H64 Hpt Hst Hst'.
  pose proof (fun name => iter_tags_typed_unhandled f ps ts dy st name Hst) as Hit.
  pose proof (fun name => iter_tags_typed_unhandled f' ps ts dy' st' name Hst') as Hit'.
  unfold get_relocation_tables, next_val. cbv zeta beta.
  rewrite !Hit by reflexivity. rewrite !Hit' by reflexivity.
  unfold get_table_offset, address_offsets, pt_is, Rel_sizeof, Relr_sizeof.
  rewrite H64, Hpt. reflexivity.
Qed.

(* ---------- entries of a table lying behind the ELF header ---------- *)
Lemma parse_at_same_behind L k img img' off : same_behind k img img' -> 0 <= k <= off ->
  parse_at L img off = parse_at L img' off.
Proof. intros Hs Hk. unfold parse_at. rewrite (same_behind_seekz k img img' off Hs Hk). reflexivity. Qed.

Lemma parse_table_same_behind L k img img' stride : same_behind k img img' -> 0 <= k -> 0 <= stride ->
  forall n off, k <= off -> parse_table L img off stride n = parse_table L img' off stride n.
Proof.
  intros Hs Hk Hst. induction n as [|n IH]; intros off Ho; [reflexivity|]. cbn [parse_table].
  rewrite (parse_at_same_behind L k img img' off Hs) by lia. rewrite (IH (off + stride)) by lia. reflexivity.
Qed.

Definition off_behind (k : Z) (o : option Z) : Prop := match o with Some o => k <= o | None => True end.
Definition tab_off (t : reltab) : option Z := match t with RelTable _ o _ _ => o | RelrTable o _ _ => o end.
Definition tab_behind (k : Z) (t : reltab) : Prop := off_behind k (tab_off t).

Lemma relr_go_same f f' k : same_behind k (f_img f) (f_img f') -> 0 <= k ->
  f_le f = f_le f' -> f_is64 f = f_is64 f' ->
  forall fuel relr limit base entsize, k <= relr -> 0 <= entsize ->
  relr_go fuel f relr limit base entsize = relr_go fuel f' relr limit base entsize.
Proof.
  intros Hs Hk Hle H64. induction fuel as [|fuel IH]; intros relr limit base entsize Hr He; [reflexivity|].
  cbn [relr_go]. rewrite <- Hle, <- H64.
  rewrite (parse_at_same_behind _ k _ _ relr Hs) by lia.
  destruct (relr <? limit); [|reflexivity].
  destruct (parse_at _ (f_img f') relr) as [r|]; [|reflexivity]. cbn [bind].
  destruct (Z.land (rec_z r "r_offset") 1 =? 0).
  - rewrite IH by lia. reflexivity.
  - destruct base as [b|]; [|reflexivity]. rewrite IH by lia. reflexivity.
Qed.

Lemma reltab_entries_same f f' k t : same_behind k (f_img f) (f_img f') -> 0 <= k ->
  f_le f = f_le f' -> f_is64 f = f_is64 f' -> e_machine (f_eh f) = e_machine (f_eh f') ->
  tab_behind k t -> reltab_entries f t = reltab_entries f' t.
Proof.
  intros Hs Hk Hle H64 Hm Ht. pose proof Hs as [Hlen _].
  assert (Hcl : forall n, clampn (f_img f) n = clampn (f_img f') n) by (intros n; unfold clampn, zlen; rewrite Hlen; reflexivity).
  unfold tab_behind in Ht.
  destruct t as [kind [o|] size is_rela|[o|] size entsize]; cbn [reltab_entries tab_off off_behind] in *;
    unfold Rel_sizeof, Relr_sizeof, rel_layout; rewrite <- ?Hle, <- ?H64, <- ?Hm, <- ?Hcl; try reflexivity.
  - destruct (_ <=? 0); [reflexivity|].
    rewrite (parse_table_same_behind _ k _ _ _ Hs Hk) by (destruct is_rela, (f_is64 f); lia). reflexivity.
  - destruct (size =? 0); [reflexivity|]. rewrite Hlen.
    apply (relr_go_same f f' k Hs Hk Hle H64); [lia| destruct (f_is64 f); lia].
Qed.

(* ---------- the tables get_relocation_tables builds lie where the pointers map ---------- *)
Lemma bind_ok {A B} (r : res A) (k : A -> res B) b : bind r k = Ok b -> exists a, r = Ok a /\ k a = Ok b.
Proof. destruct r as [a|e]; cbn [bind]; [eauto|discriminate]. Qed.

Ltac bind_inv H x := apply bind_ok in H; destruct H as [x [_ H]].

Lemma grt_behind f ps ts dy L k :
  get_relocation_tables f ps ts dy = Ok L ->
  (forall name, In name ["DT_REL"; "DT_RELA"; "DT_RELR"; "DT_JMPREL"] ->
                off_behind k (snd (get_table_offset f ps ts name))) ->
  Forall (tab_behind k) L.
Proof.
  unfold get_relocation_tables. cbv zeta beta. intros H Hoffs.
  apply bind_ok in H. destruct H as [b1 [_ H]]. apply bind_ok in H. destruct H as [r1 [H1 H]].
  apply bind_ok in H. destruct H as [b2 [_ H]]. apply bind_ok in H. destruct H as [r2 [H2 H]].
  apply bind_ok in H. destruct H as [b3 [_ H]]. apply bind_ok in H. destruct H as [r3 [H3 H]].
  apply bind_ok in H. destruct H as [b4 [_ H]]. apply bind_ok in H. destruct H as [r4 [H4 H]].
  inversion H; subst L. clear H.
  assert (F1 : Forall (tab_behind k) r1).
  { destruct b1; [|inversion H1; constructor]. bind_inv H1 sz. bind_inv H1 ent.
    destruct (_ =? ent); [|discriminate]. inversion H1; subst. constructor; [|constructor].
    apply (Hoffs "DT_REL"). cbn; tauto. }
  assert (F2 : Forall (tab_behind k) r2).
  { destruct b2; [|inversion H2; constructor]. bind_inv H2 sz. bind_inv H2 ent.
    destruct (_ =? ent); [|discriminate]. inversion H2; subst. constructor; [|constructor].
    apply (Hoffs "DT_RELA"). cbn; tauto. }
  assert (F3 : Forall (tab_behind k) r3).
  { destruct b3; [|inversion H3; constructor]. bind_inv H3 sz. bind_inv H3 ent.
    destruct (_ =? ent); [|discriminate]. inversion H3; subst. constructor; [|constructor].
    apply (Hoffs "DT_RELR"). cbn; tauto. }
  assert (F4 : Forall (tab_behind k) r4).
  { destruct b4; [|inversion H4; constructor]. bind_inv H4 sz. bind_inv H4 pr. bind_inv H4 rela.
    inversion H4; subst. constructor; [|constructor].
    apply (Hoffs "DT_JMPREL"). cbn; tauto. }
  repeat (apply Forall_app; split); assumption.
Qed.
