(* Proofs/C05Program.v — DWARFInfo._parse_line_program_at_offset on a unit lying anywhere in
   .debug_line: resolved header tables = the encoded ones, legacy-compatible tables, program extent
   = [first program byte, end of unit); get_entries over that extent = the standard's rows;
   line_program_for_CU and its offset cache. *)
From PV Require Import Base.Outcome Base.Prim Spec.PrimSpec Proofs.PrimProofs
  Spec.C05Line Spec.C05Header Model.C05Kinds Model.C05LineProgram Model.C05Header
  Gen.C05Tables Proofs.C05Leb Proofs.C05Tables Proofs.C05Machine Proofs.C05Header Proofs.C05Unit.
From Coq Require Import ZifyBool.
Ltac Zify.zify_post_hook ::= Z.to_euclidean_division_equations.
Open Scope list_scope.
Open Scope Z_scope.

(* ---------------------------------------------------------------- strings by offset *)
Lemma str_at_split sec off s : str_at sec off s ->
  exists pre tail, sec = pre ++ s ++ 0 :: tail /\ length pre = Z.to_nat off /\ 0 <= off /\ no_nul s = true.
Proof.
  intros (Hoff & Hnn & Hf).
  exists (firstn (Z.to_nat off) sec), (skipn (length s + 1) (skipn (Z.to_nat off) sec)).
  assert (Hlen : (Z.to_nat off <= length sec)%nat).
  { destruct (Nat.le_gt_cases (Z.to_nat off) (length sec)) as [H|H]; [exact H|].
    rewrite skipn_all2 in Hf by lia. rewrite firstn_nil in Hf. destruct s; discriminate. }
  repeat split; try assumption.
  - rewrite <- (firstn_skipn (Z.to_nat off) sec) at 1. f_equal.
    rewrite <- (firstn_skipn (length s + 1) (skipn (Z.to_nat off) sec)) at 1.
    rewrite Hf, <- app_assoc. reflexivity.
  - apply firstn_length_le. exact Hlen.
Qed.

Lemma get_string_valid sec off s : str_at sec off s -> zlen sec < 2 ^ 63 ->
  get_string (Some sec) (DInt off) = Ok (DBytes s).
Proof.
  intros Hat Hsz. destruct (str_at_split sec off s Hat) as (pre & tail & -> & Hpre & Hoff & Hnn).
  unfold get_string.
  assert (Hlt : off < zlen (pre ++ s ++ 0 :: tail)).
  { rewrite !zlen_app, zlen_cons. pose proof (zlen_nonneg s). pose proof (zlen_nonneg tail).
    unfold zlen at 1. lia. }
  replace (off >=? 2 ^ 63) with false by lia.
  replace (zlen (pre ++ s ++ 0 :: tail) <=? off) with false by lia.
  rewrite <- Hpre. rewrite parse_cstring_at_valid by exact Hnn. reflexivity.
Qed.

(* the strings a value refers to by offset are present in the sections the DWARFInfo holds *)
Definition refs_ok (secs : msections) (v : fval) : Prop :=
  refs_present (sec_line_str secs) (sec_str secs)
               (match sec_sup_str secs with Some sup => sup | None => None end) v.

(* ---------------------------------------------------------------- partially resolved entries *)
(* the entry after the first n fields of the format have been visited by resolve_strings *)
Fixpoint mixed (n : nat) (keys : list Z) (entry : list fval) : list (Z * dval) :=
  match keys, entry with
  | k :: ks, v :: vs =>
      (k, match n with O => raw_meaning v | S _ => meaning v end) :: mixed (Nat.pred n) ks vs
  | _, _ => []
  end.

Lemma mixed_0 keys entry : mixed 0 keys entry = combine keys (map raw_meaning entry).
Proof.
  revert entry. induction keys as [|k ks IH]; intros [|v vs]; cbn [mixed combine map Nat.pred]; try reflexivity.
  rewrite IH. reflexivity.
Qed.
Lemma mixed_all keys entry n : (length entry <= n)%nat -> mixed n keys entry = combine keys (map meaning entry).
Proof.
  revert entry n. induction keys as [|k ks IH]; intros [|v vs] n Hn; cbn [mixed combine map]; try reflexivity.
  cbn [length] in Hn. destruct n as [|n]; [lia|]. cbn [Nat.pred]. rewrite IH by lia. reflexivity.
Qed.

Lemma mixed_split kd k kt ed v et :
  length ed = length kd ->
  mixed (length kd) (kd ++ k :: kt) (ed ++ v :: et) =
    combine kd (map meaning ed) ++ (k, raw_meaning v) :: mixed 0 kt et /\
  mixed (S (length kd)) (kd ++ k :: kt) (ed ++ v :: et) =
    combine kd (map meaning ed) ++ (k, meaning v) :: mixed 0 kt et.
Proof.
  revert ed. induction kd as [|k0 kd IH]; intros ed Hl.
  - destruct ed; [|discriminate]. cbn [length app mixed Nat.pred combine map]. split; reflexivity.
  - destruct ed as [|v0 ed]; [discriminate|]. cbn [length] in Hl.
    destruct (IH ed ltac:(lia)) as [H1 H2].
    cbn [length app mixed Nat.pred combine map]. rewrite H1.
    split; [reflexivity|]. destruct (length kd) eqn:E.
    + cbn [Nat.pred]. destruct kd; [|discriminate]. destruct ed; [|discriminate].
      cbn [app mixed Nat.pred combine map]. reflexivity.
    + rewrite <- E. cbn [Nat.pred]. rewrite <- E in H2. cbn [Nat.pred] in H2. rewrite H2. reflexivity.
Qed.

Lemma alist_find_combine_notin k ks vs : ~ In k ks -> alist_find k (combine ks vs) = None.
Proof.
  revert vs. induction ks as [|k0 ks IH]; intros vs Hn; [reflexivity|].
  destruct vs as [|v vs]; [reflexivity|]. cbn [combine alist_find].
  destruct (Z.eqb_spec k0 k) as [->|Hne]; [exfalso; apply Hn; left; reflexivity|].
  apply IH. intros Hin. apply Hn. right. exact Hin.
Qed.

Lemma nodupb_NoDup l : nodupb l = true -> NoDup l.
Proof.
  induction l as [|x l IH]; intros H; [constructor|].
  apply nodupb_cons in H. destruct H as [Hn Hl]. constructor; [exact Hn|apply IH; exact Hl].
Qed.

Lemma forms_match_length fmt entry : forms_match fmt entry = true -> length entry = length fmt.
Proof.
  revert entry. induction fmt as [|d fmt IH]; intros [|v entry] H; cbn [forms_match] in H; try discriminate.
  - reflexivity.
  - apply andb_prop in H. destruct H as [_ H]. cbn [length]. rewrite (IH _ H). reflexivity.
Qed.

Lemma forms_match_split done d todo entry : forms_match (done ++ d :: todo) entry = true ->
  exists ed v et, entry = ed ++ v :: et /\ length ed = length done /\ snd d = form_of v.
Proof.
  revert entry. induction done as [|d0 done IH]; intros [|v entry] H; cbn [app forms_match] in H; try discriminate.
  - apply andb_prop in H. destruct H as [Hf _]. exists [], v, entry. repeat split.
    unfold lform_eqb in Hf. apply Z.eqb_eq in Hf. apply lform_code_inj. exact Hf.
  - apply andb_prop in H. destruct H as [_ H]. destruct (IH entry H) as (ed & v' & et & -> & Hl & Hf).
    exists (v :: ed), v', et. repeat split; [cbn [length]; lia|exact Hf].
Qed.

(* ---------------------------------------------------------------- replace_value on one column *)
Section Resolve.
  Variable secs : msections.

  Lemma replace_value_column done d todo (replacer : dval -> res dval) entries :
    NoDup (map fst (done ++ d :: todo)) ->
    Forall (fun e => forms_match (done ++ d :: todo) e = true /\
                     Forall (fun v => form_of v = snd d -> replacer (raw_meaning v) = Ok (meaning v)) e) entries ->
    replace_value (map (mixed (length done) (map fst (done ++ d :: todo))) entries) (fst d) replacer
    = Ok (map (mixed (S (length done)) (map fst (done ++ d :: todo))) entries).
  Proof.
    intros Hnd Hall. induction Hall as [|e entries [Hm Hv] Hrest IH]; [reflexivity|].
    cbn [map replace_value].
    destruct (forms_match_split done d todo e Hm) as (ed & v & et & -> & Hl & Hf).
    rewrite map_app in *. cbn [map] in *. rewrite <- (map_length fst done) in *.
    assert (Hl' : length ed = length (map fst done)) by (rewrite map_length in *; lia).
    destruct (mixed_split (map fst done) (fst d) (map fst todo) ed v et Hl') as [H1 H2].
    rewrite H1, H2.
    assert (Hfresh : alist_find (fst d) (combine (map fst done) (map meaning ed)) = None).
    { apply alist_find_combine_notin. apply NoDup_remove_2 in Hnd. intros Hin. apply Hnd.
      apply in_or_app. left. exact Hin. }
    rewrite alist_find_here by exact Hfresh.
    rewrite Forall_forall in Hv. rewrite (Hv v) by (try (apply in_or_app; right; left; reflexivity); auto).
    cbn [bind]. rewrite IH. cbn [bind]. rewrite alist_set_here by exact Hfresh. reflexivity.
  Qed.

  Lemma mixed_same done d todo e :
    forms_match (done ++ d :: todo) e = true ->
    (forall v, form_of v = snd d -> raw_meaning v = meaning v) ->
    mixed (length done) (map fst (done ++ d :: todo)) e = mixed (S (length done)) (map fst (done ++ d :: todo)) e.
  Proof.
    intros Hm Hsame. destruct (forms_match_split done d todo e Hm) as (ed & v & et & -> & Hl & Hf).
    rewrite map_app. cbn [map]. rewrite <- (map_length fst done).
    assert (Hl' : length ed = length (map fst done)) by (rewrite map_length in *; lia).
    destruct (mixed_split (map fst done) (fst d) (map fst todo) ed v et Hl') as [H1 H2].
    rewrite H1, H2, (Hsame v) by (symmetry; exact Hf). reflexivity.
  Qed.

  Lemma app_cons_assoc {A} (a : list A) x b : (a ++ [x]) ++ b = a ++ x :: b.
  Proof. rewrite <- app_assoc. reflexivity. Qed.

  Lemma resolve_fields_mixed : forall todo done entries,
    NoDup (map fst (done ++ todo)) ->
    Forall (fun e => forms_match (done ++ todo) e = true /\ Forall (refs_ok secs) e) entries ->
    resolve_fields secs (format_view todo) (map (mixed (length done) (map fst (done ++ todo))) entries)
    = Ok (map (mixed (length (done ++ todo)) (map fst (done ++ todo))) entries).
  Proof.
    induction todo as [|[ct lf] todo IH]; intros done entries Hnd Hall.
    - rewrite app_nil_r. reflexivity.
    - cbn [format_view map fst snd resolve_fields]. fold (format_view todo).
      unfold form_name. rewrite gen_forms_standard.
      assert (Hnext : forall data,
                data = map (mixed (S (length done)) (map fst (done ++ (ct, lf) :: todo))) entries ->
                resolve_fields secs (format_view todo) data
                = Ok (map (mixed (length (done ++ (ct, lf) :: todo)) (map fst (done ++ (ct, lf) :: todo))) entries)).
      { intros data ->. specialize (IH (done ++ [(ct, lf)]) entries).
        rewrite app_cons_assoc in IH. rewrite app_length in IH. cbn [length] in IH.
        rewrite Nat.add_1_r in IH. apply IH; assumption. }
      assert (Hkeep : (forall v, form_of v = lf -> raw_meaning v = meaning v) ->
                map (mixed (length done) (map fst (done ++ (ct, lf) :: todo))) entries
                = map (mixed (S (length done)) (map fst (done ++ (ct, lf) :: todo))) entries).
      { intros Hsame. apply map_ext_in. intros e He. rewrite Forall_forall in Hall.
        apply (mixed_same done (ct, lf) todo e); [apply (Hall e He)|exact Hsame]. }
      assert (sup_column : forall lf', lf = lf' ->
                name_in (spec_form_name lf') ["DW_FORM_strp_sup"; "DW_FORM_GNU_strp_alt"]%string = true ->
                (forall v, form_of v = lf' -> exists off str, v = FV_strp_sup off str \/ v = FV_GNU_strp_alt off str) ->
                (do data' <- match sec_sup_str secs with
                             | Some sup => replace_value (map (mixed (length done) (map fst (done ++ (ct, lf) :: todo))) entries) ct (get_string sup)
                             | None => replace_value (map (mixed (length done) (map fst (done ++ (ct, lf) :: todo))) entries) ct str_of_offset
                             end;
                 resolve_fields secs (format_view todo) data')
                = Ok (map (mixed (length (done ++ (ct, lf) :: todo)) (map fst (done ++ (ct, lf) :: todo))) entries)).
      { intros lf' -> _ Hshape.
        destruct entries as [|e0 er] eqn:Eent.
        - destruct (sec_sup_str secs); cbn [map replace_value bind]; apply Hnext; reflexivity.
        - rewrite <- Eent in *.
          destruct (sec_sup_str secs) as [sup|] eqn:Esup.
          + pose proof (replace_value_column done (ct, lf') todo (get_string sup) entries Hnd) as HR.
            cbn [fst] in HR. rewrite HR; [cbn [bind]; apply Hnext; reflexivity|].
            eapply Forall_impl; [|exact Hall]. intros e [Hm Hr]. split; [exact Hm|].
            eapply Forall_impl; [|exact Hr]. intros v Hv Hf. cbn [snd] in Hf.
            destruct (Hshape v Hf) as (off & str & [-> | ->]); unfold refs_ok in Hv; rewrite Esup in Hv;
              cbn [refs_present] in Hv; destruct Hv as (sec & -> & Hat & Hsz);
              cbn [raw_meaning meaning]; apply get_string_valid; assumption.
          + (* no supplementary file: no value of this form satisfies refs_ok *)
            exfalso. rewrite Eent in Hall. inversion Hall as [|? ? [Hm Hr] _]; subst.
            destruct (forms_match_split done (ct, lf') todo e0 Hm) as (ed & v & et & -> & Hl & Hf).
            cbn [snd] in Hf. rewrite Forall_forall in Hr.
            specialize (Hr v ltac:(apply in_or_app; right; left; reflexivity)).
            destruct (Hshape v (eq_sym Hf)) as (off & str & [-> | ->]); unfold refs_ok in Hr; rewrite Esup in Hr;
              cbn [refs_present] in Hr; destruct Hr as (sec & Hsec & _); discriminate. }
      destruct lf; cbn [spec_form_name String.eqb Ascii.eqb Bool.eqb name_in existsb orb].
      + apply Hnext, Hkeep. intros [] Hv; try discriminate; reflexivity.
      + (* line_strp *)
        pose proof (replace_value_column done (ct, LF_line_strp) todo (get_string (sec_line_str secs)) entries Hnd) as HR.
        cbn [fst] in HR. rewrite HR.
        * cbn [bind]. apply Hnext. reflexivity.
        * eapply Forall_impl; [|exact Hall]. intros e [Hm Hr]. split; [exact Hm|].
          eapply Forall_impl; [|exact Hr]. intros v Hv Hf. cbn [snd] in Hf.
          destruct v; try discriminate. unfold refs_ok in Hv. cbn [refs_present] in Hv. destruct Hv as (sec & -> & Hat & Hsz).
          cbn [raw_meaning meaning]. apply get_string_valid; assumption.
      + (* strp *)
        pose proof (replace_value_column done (ct, LF_strp) todo (get_string (sec_str secs)) entries Hnd) as HR.
        cbn [fst] in HR. rewrite HR.
        * cbn [bind]. apply Hnext. reflexivity.
        * eapply Forall_impl; [|exact Hall]. intros e [Hm Hr]. split; [exact Hm|].
          eapply Forall_impl; [|exact Hr]. intros v Hv Hf. cbn [snd] in Hf.
          destruct v; try discriminate. unfold refs_ok in Hv. cbn [refs_present] in Hv. destruct Hv as (sec & -> & Hat & Hsz).
          cbn [raw_meaning meaning]. apply get_string_valid; assumption.
      + apply Hnext, Hkeep. intros [] Hv; try discriminate; reflexivity.
      + apply Hnext, Hkeep. intros [] Hv; try discriminate; reflexivity.
      + apply Hnext, Hkeep. intros [] Hv; try discriminate; reflexivity.
      + apply Hnext, Hkeep. intros [] Hv; try discriminate; reflexivity.
      + apply Hnext, Hkeep. intros [] Hv; try discriminate; reflexivity.
      + apply Hnext, Hkeep. intros [] Hv; try discriminate; reflexivity.
      + apply Hnext, Hkeep. intros [] Hv; try discriminate; reflexivity.
      + (* LF_strp_sup: the supplementary file's .debug_str *)
        apply (sup_column LF_strp_sup); [reflexivity|reflexivity|intros v Hf; destruct v; try discriminate; do 2 eexists; ((left; reflexivity) || (right; reflexivity))].
      + (* LF_GNU_strp_alt: the supplementary file's .debug_str *)
        apply (sup_column LF_GNU_strp_alt); [reflexivity|reflexivity|intros v Hf; destruct v; try discriminate; do 2 eexists; ((left; reflexivity) || (right; reflexivity))].
  Qed.

  (* resolve_strings(lineprog_header, format_field, data_field) *)
  Theorem resolve_strings_valid fmt entries :
    nodupb (map fst fmt) = true -> forallb (forms_match fmt) entries = true ->
    Forall (Forall (refs_ok secs)) entries ->
    resolve_strings secs (Some (format_view fmt)) (Some (map (raw_entry fmt) entries))
    = Ok (Some (map (entry_view fmt) entries)).
  Proof.
    intros Hnd Hm Hr.
    assert (Hall : Forall (fun e => forms_match ([] ++ fmt) e = true /\ Forall (refs_ok secs) e) entries).
    { apply forallb_Forall in Hm. rewrite Forall_forall in *. intros e He. split; [apply Hm|apply Hr]; exact He. }
    pose proof (resolve_fields_mixed fmt [] entries (nodupb_NoDup _ Hnd) Hall) as H.
    cbn [app length] in H.
    assert (H0 : map (mixed 0 (map fst fmt)) entries = map (raw_entry fmt) entries).
    { apply map_ext. intros e. apply mixed_0. }
    assert (H1 : map (mixed (length fmt) (map fst fmt)) entries = map (entry_view fmt) entries).
    { apply map_ext_in. intros e He. apply mixed_all. rewrite Forall_forall in Hall.
      destruct (Hall e He) as [Hf _]. cbn [app] in Hf. rewrite (forms_match_length _ _ Hf). lia. }
    rewrite H0, H1 in H. unfold resolve_strings.
    destruct fmt as [|d fr].
    - reflexivity.
    - cbn [format_view map]. cbn [format_view map] in H. rewrite H. reflexivity.
  Qed.
End Resolve.

(* ---------------------------------------------------------------- legacy-compatible tables *)
Lemma mapM_ok {A B} (f : A -> res B) (g : A -> B) l :
  (forall x, In x l -> f x = Ok (g x)) -> mapM f l = Ok (map g l).
Proof.
  induction l as [|x l IH]; intros H; [reflexivity|]. cbn [mapM map].
  rewrite (H x (or_introl eq_refl)). cbn [bind]. rewrite IH; [reflexivity|].
  intros y Hy. apply H. right. exact Hy.
Qed.

Lemma some_list_case {A B} (L : list A) (f : A -> res B) (g : A -> B) :
  (forall x, In x L -> f x = Ok (g x)) ->
  match Some L with Some (d :: ds) => mapM f (d :: ds) | _ => Ok [] end = Ok (map g L).
Proof. intros H. destruct L as [|d ds]; [reflexivity|]. apply mapM_ok. exact H. Qed.

Lemma entry_get_view n k e : lnct n = Ok k -> entry_get n e = Ok (alist_get k e).
Proof.
  intros Hk. unfold entry_get. rewrite Hk. cbn [bind]. rewrite alist_find_get.
  destruct (alist_find k e); reflexivity.
Qed.
Lemma entry_attr_view e : alist_find DW_LNCT_path e <> None ->
  entry_attr "DW_LNCT_path" e = Ok (alist_get DW_LNCT_path e).
Proof.
  intros H. unfold entry_attr. change (lnct "DW_LNCT_path") with (Ok DW_LNCT_path : res Z). cbn [bind].
  rewrite alist_find_get. destruct (alist_find DW_LNCT_path e); [reflexivity|congruence].
Qed.

Lemma alist_find_combine_in k ks (vs : list dval) : In k ks -> length ks = length vs ->
  alist_find k (combine ks vs) <> None.
Proof.
  revert vs. induction ks as [|k0 ks IH]; intros vs Hin Hl; [contradiction|].
  destruct vs as [|v vs]; [discriminate|]. cbn [combine alist_find].
  destruct (Z.eqb_spec k0 k) as [->|Hne]; [discriminate|].
  destruct Hin as [->|Hin]; [congruence|]. apply IH; [exact Hin|]. cbn [length] in Hl. lia.
Qed.

Lemma path_present fmt e : existsb (fun d => fst d =? DW_LNCT_path) fmt = true ->
  forms_match fmt e = true -> alist_find DW_LNCT_path (entry_view fmt e) <> None.
Proof.
  intros Hp Hm. unfold entry_view. apply alist_find_combine_in.
  - apply existsb_exists in Hp. destruct Hp as (d & Hin & Hd). apply Z.eqb_eq in Hd.
    rewrite <- Hd. apply in_map. exact Hin.
  - rewrite !map_length. symmetry. apply forms_match_length. exact Hm.
Qed.

Lemma legacy_file_valid e :
  (do n <- entry_get "DW_LNCT_path" e;
   do d <- entry_get "DW_LNCT_directory_index" e;
   do m <- entry_get "DW_LNCT_timestamp" e;
   do l <- entry_get "DW_LNCT_size" e;
   Ok (n, d, m, l)) = Ok (legacy_file e).
Proof.
  rewrite (entry_get_view _ DW_LNCT_path) by reflexivity. cbn [bind].
  rewrite (entry_get_view _ DW_LNCT_directory_index) by reflexivity. cbn [bind].
  rewrite (entry_get_view _ DW_LNCT_timestamp) by reflexivity. cbn [bind].
  rewrite (entry_get_view _ DW_LNCT_size) by reflexivity. cbn [bind]. reflexivity.
Qed.

(* ---------------------------------------------------------------- the unit in the section *)
Lemma enc_unit_bytes le h prog e :
  enc_unit le h prog e <-> exists body, enc_body le h body /\ e = unit_bytes le h body prog.
Proof. reflexivity. Qed.
Lemma unit_bytes_split le h body prog :
  unit_bytes le h body prog = unit_header_bytes le h body prog ++ prog.
Proof. unfold unit_bytes, unit_header_bytes, unit_rest. rewrite <- !app_assoc. reflexivity. Qed.
Lemma zlen_unit_bytes le h body prog :
  zlen (unit_bytes le h body prog) = ilsz (h_is64 h) + zlen (unit_rest le h body prog).
Proof. unfold unit_bytes. rewrite zlen_app, zlen_initial_length. reflexivity. Qed.

Lemma skipn_zlen_app {A} (pre rest : list A) : skipn (Z.to_nat (zlen pre)) (pre ++ rest) = rest.
Proof. unfold zlen. rewrite Nat2Z.id, skipn_app, skipn_all, Nat.sub_diag. reflexivity. Qed.

Section Unit.
  Variable secs : msections.
  Variable s : mstructs.
  Variable h : lheader.
  Variable body prog pre tail : list Z.
  Let le := ms_le s.
  Let e := unit_bytes le h body prog.
  Let ul := zlen (unit_rest le h body prog).

  Hypothesis Hwf : wf_header h = true.
  Hypothesis Hs64 : ms_is64 s = h_is64 h.
  Hypothesis Hbody : enc_body le h body.
  Hypothesis Hsz : sizes_ok (h_is64 h) ul (zlen body) = true.
  Hypothesis Hsec : sec_line secs = pre ++ e ++ tail.
  Hypothesis Hdirs : Forall (Forall (refs_ok secs)) (h_dirs h).
  Hypothesis Hfiles : Forall (Forall (refs_ok secs)) (h_file_names h).

  (* DWARFInfo._parse_line_program_at_offset (cache miss) *)
  Theorem parse_line_program_valid :
    parse_line_program_uncached secs (zlen pre) s =
    Ok {| lp_header := expected_view h ul (zlen body);
          lp_start := zlen pre + zlen e - zlen prog;
          lp_end := zlen pre + zlen e;
          lp_structs := s |}.
  Proof.
    destruct (wf_header_spec h Hwf) as (Hver & _ & _ & _ & _ & _ & Hv5).
    unfold parse_line_program_uncached. rewrite Hsec, skipn_zlen_app.
    subst e. unfold unit_bytes. fold ul.
    pose proof (parse_header_valid s h body prog tail Hwf Hs64 Hbody) as HP. cbn zeta in HP.
    fold le in HP. fold (unit_rest le h body prog) in HP. fold ul in HP.
    rewrite (HP Hsz). clear HP. cbn [bind rh_view rh_rest].
    assert (Hend : zlen pre + ul + initial_length_field_size s =
                   zlen pre + zlen (initial_length_encode le ul (h_is64 h) ++ unit_rest le h body prog)).
    { rewrite zlen_app, zlen_initial_length. unfold initial_length_field_size, ilsz. rewrite Hs64. fold ul. lia. }
    assert (Hstart : zlen (pre ++ (initial_length_encode le ul (h_is64 h) ++ unit_rest le h body prog) ++ tail)
                     - zlen (prog ++ tail) =
                     zlen pre + zlen (initial_length_encode le ul (h_is64 h) ++ unit_rest le h body prog) - zlen prog).
    { rewrite !zlen_app. lia. }
    unfold raw_view, expected_view.
    destruct (Z.leb_spec 5 (h_version h)) as [H5|H5].
    - destruct (Hv5 H5) as (Hdf & Hff & Hdm & Hfm & Hpath).
      destruct (format_ok_spec _ Hdf) as (Hnd1 & _ & _). destruct (format_ok_spec _ Hff) as (Hnd2 & _ & _).
      cbn [v_unit_length v_version v_address_size v_seg_sel_size v_header_length v_params v_std_lengths
           v_dir_format v_directories v_file_format v_file_names v_include_directory v_file_entry].
      rewrite (resolve_strings_valid secs _ _ Hnd1 Hdm Hdirs). cbn [bind].
      rewrite (resolve_strings_valid secs _ _ Hnd2 Hfm Hfiles). cbn [bind].
      rewrite (some_list_case _ (entry_attr "DW_LNCT_path") (alist_get DW_LNCT_path)).
      + cbn [bind].
        rewrite (some_list_case _ _ legacy_file) by (intros x _; apply legacy_file_valid).
        cbn [bind]. rewrite Hend, Hstart. reflexivity.
      + intros x Hx. apply entry_attr_view. apply in_map_iff in Hx. destruct Hx as (en & <- & Hen).
        destruct Hpath as [Hnil|Hp]; [rewrite Hnil in Hen; contradiction|].
        apply path_present; [exact Hp|]. apply forallb_Forall in Hdm. rewrite Forall_forall in Hdm.
        apply Hdm. exact Hen.
    - cbn [v_unit_length v_version v_address_size v_seg_sel_size v_header_length v_params v_std_lengths
           v_dir_format v_directories v_file_format v_file_names v_include_directory v_file_entry
           resolve_strings bind].
      rewrite Hend, Hstart. reflexivity.
  Qed.

  (* LineProgram.get_entries() on that program object *)
  Variable instrs : list instr.
  Hypothesis Hprog : enc_prog (cfg_of s) (h_params h) instrs prog.
  Hypothesis Hdef : h_version h < 5 \/ defined_files instrs = [].

  Theorem unit_rows :
    exists lp es,
      parse_line_program_uncached secs (zlen pre) s = Ok lp /\
      lp_header lp = expected_view h ul (zlen body) /\
      lp_start lp = zlen pre + zlen e - zlen prog /\ lp_end lp = zlen pre + zlen e /\
      get_entries secs lp = Ok (es, defined_files instrs, 0, tail) /\
      map regs_of (entry_states es) = rows_spec (h_params h) instrs.
  Proof.
    destruct (wf_header_spec h Hwf) as (_ & Hpar & _).
    eexists. rewrite parse_line_program_valid.
    assert (Happ : (h_version h <? 5) = true \/ defined_files instrs = []).
    { destruct Hdef as [Hd|Hd]; [left; lia|right; exact Hd]. }
    destruct (decode_line_program_sound (cfg_of s) (h_params h) (h_version h <? 5) Hpar instrs prog
                (pre ++ unit_header_bytes le h body prog) tail Hprog Happ) as (es & Hdec & Hrows).
    exists es. split; [reflexivity|].
    cbn [lp_header lp_start lp_end]. repeat split; try assumption.
    unfold get_entries. cbn [lp_header lp_start lp_end lp_structs].
    replace (v_params (expected_view h ul (zlen body))) with (h_params h) by reflexivity.
    replace (v_version (expected_view h ul (zlen body))) with (h_version h) by reflexivity.
    rewrite Hsec. subst e. rewrite unit_bytes_split.
    rewrite <- app_assoc in Hdec. rewrite <- (app_assoc _ prog tail).
    rewrite !zlen_app in *.
    replace (zlen pre + (zlen (unit_header_bytes le h body prog) + zlen prog) - zlen prog)
      with (zlen pre + zlen (unit_header_bytes le h body prog)) by lia.
    replace (zlen pre + (zlen (unit_header_bytes le h body prog) + zlen prog))
      with (zlen pre + zlen (unit_header_bytes le h body prog) + zlen prog) by lia.
    exact Hdec.
  Qed.
End Unit.

(* ---------------------------------------------------------------- line_program_for_CU *)
(* every cached program is what parsing at its offset (with these structs) gives *)
Definition cache_coherent (secs : msections) (s : mstructs) (c : lcache) : Prop :=
  forall k lp, cache_get c k = Some lp -> parse_line_program_uncached secs k s = Ok lp.

Lemma cache_coherent_nil secs s : cache_coherent secs s [].
Proof. intros k lp H. discriminate. Qed.

(* the program attached to a unit is the one its DW_AT_stmt_list designates, whatever was looked up
   before; the cache stays coherent *)
Theorem program_for_unit secs cache cu off lp :
  cache_coherent secs (cu_structs cu) cache ->
  attr_get (cu_top_attrs cu) "DW_AT_stmt_list" = Some off ->
  parse_line_program_uncached secs off (cu_structs cu) = Ok lp ->
  exists cache', line_program_for_CU secs cache cu = Ok (Some lp, cache') /\
                 cache_coherent secs (cu_structs cu) cache' /\ cache_get cache' off = Some lp.
Proof.
  intros Hc Hattr Hp. unfold line_program_for_CU, parse_line_program_at_offset. rewrite Hattr.
  destruct (cache_get cache off) as [lp0|] eqn:Hg.
  - pose proof (Hc off lp0 Hg) as H0. rewrite Hp in H0. injection H0 as <-.
    exists cache. cbn [bind]. repeat split; assumption.
  - rewrite Hp. cbn [bind]. exists ((off, lp) :: cache). repeat split.
    + intros k lp' Hk. cbn [cache_get] in Hk. destruct (Z.eqb_spec off k) as [<-|Hne].
      * injection Hk as <-. exact Hp.
      * apply Hc. exact Hk.
    + cbn [cache_get]. rewrite Z.eqb_refl. reflexivity.
Qed.

Theorem program_for_unit_none secs cache cu :
  attr_get (cu_top_attrs cu) "DW_AT_stmt_list" = None ->
  line_program_for_CU secs cache cu = Ok (None, cache).
Proof. intros H. unfold line_program_for_CU. rewrite H. reflexivity. Qed.
