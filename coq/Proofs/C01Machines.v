(* Proofs/C01Machines.v — C01: the machine -> sh_type / p_type dictionary maps generated from
   the live structs.py respect the gABI rule of Spec/C01Machines.v (checked by computation on
   the finite map), and what that check means for every machine key and every code. *)
From Coq Require Import String.
From PV Require Import Base.Bytes Base.Fmt Base.Enum.
From PV Require Import Gen.ElfLayouts Spec.C01Obs Spec.C01Image Spec.C01Machines.
From Coq Require Import ZifyBool.
Open Scope string_scope.
Open Scope list_scope.
Open Scope Z_scope.

Lemma entry_eqb_eq a b : entry_eqb a b = true -> a = b.
Proof.
  destruct a as [z n], b as [z' n']. unfold entry_eqb. cbn [fst snd]. intros H.
  apply andb_prop in H. destruct H as [H1 H2]. apply Z.eqb_eq in H1. apply String.eqb_eq in H2.
  subst. reflexivity.
Qed.
Lemma tbl_eqb_eq a : forall b, tbl_eqb a b = true -> a = b.
Proof.
  induction a as [|x a IH]; intros [|y b] H; try discriminate; [reflexivity|].
  cbn [tbl_eqb] in H. apply andb_prop in H. destruct H as [H1 H2].
  rewrite (entry_eqb_eq _ _ H1), (IH _ H2). reflexivity.
Qed.

Lemma dict_get_generic t z : in_proc z = false ->
  Enum.dict_get (generic_part t) z = Enum.dict_get t z.
Proof.
  intros Hz. unfold generic_part. induction t as [|[k n] t IH]; [reflexivity|].
  cbn [filter fst Enum.dict_get]. destruct (in_proc k) eqn:Ek; cbn [negb].
  - destruct (Z.eqb_spec k z) as [E|_]; [subst k; congruence|exact IH].
  - cbn [Enum.dict_get]. destruct (k =? z); [reflexivity|exact IH].
Qed.

Lemma dict_get_in t z n : Enum.dict_get t z = Some n -> In (z, n) t.
Proof.
  induction t as [|[k m] t IH]; [discriminate|]. cbn [Enum.dict_get].
  destruct (Z.eqb_spec k z) as [->|_]; intros H.
  - inversion H. left. reflexivity.
  - right. exact (IH H).
Qed.

Lemma assoc_str_in {A} (l : list (string * A)) k v : assoc_str l k = Some v -> In (k, v) l.
Proof.
  induction l as [|[k' v'] l IH]; [discriminate|]. cbn [assoc_str].
  destruct (String.eqb_spec k' k) as [->|_]; intros H.
  - inversion H. left. reflexivity.
  - right. exact (IH H).
Qed.

(* the reading of one table's check *)
Lemma machine_table_ok_sound P base k t : machine_table_ok P base k t = true ->
  forall z,
  (in_proc z = false -> Enum.dict_get t z = Enum.dict_get base z) /\
  (forall n, in_proc z = true -> Enum.dict_get t z = Some n ->
     exists pfx, In pfx (prefixes_of P k) /\ String.prefix pfx n = true).
Proof.
  intros H z. unfold machine_table_ok in H. apply andb_prop in H. destruct H as [Hg Hp].
  apply tbl_eqb_eq in Hg. split.
  - intros Hz. rewrite <- (dict_get_generic t z Hz), <- (dict_get_generic base z Hz), Hg. reflexivity.
  - intros n Hz Hd. apply dict_get_in in Hd. rewrite forallb_forall in Hp.
    specialize (Hp _ Hd). cbn [fst snd] in Hp. rewrite Hz in Hp. cbn [implb] in Hp.
    apply existsb_exists in Hp. exact Hp.
Qed.

Section Map.
Variable P : list (string * list string).
Variable A : list (string * Z * string).
Variable M : list (string * string).
Hypothesis Hok : machine_tables_ok P A M = true.
Hypothesis Hraw : prefixes_of P "<raw>" = [].

(* for EVERY machine key (also one the map does not list: it gets the "<raw>" dictionary):
   generic codes mean the same as for an unknown machine; a name in the processor range
   carries a prefix of that machine *)
Lemma machine_tables_sound k z :
  (in_proc z = false ->
   Enum.dict_get (table_of_id (table_id_for M k)) z = Enum.dict_get (table_of_id (table_id_for M "<raw>")) z) /\
  (forall n, in_proc z = true -> Enum.dict_get (table_of_id (table_id_for M k)) z = Some n ->
     exists pfx, In pfx (prefixes_of P k) /\ String.prefix pfx n = true).
Proof.
  pose proof Hok as H0. unfold machine_tables_ok in H0. cbv zeta in H0.
  apply andb_prop in H0. destruct H0 as [H12 _]. apply andb_prop in H12. destruct H12 as [H1 H2].
  destruct (assoc_str M k) as [id|] eqn:Ek.
  - assert (E : table_id_for M k = id) by (unfold table_id_for; rewrite Ek; reflexivity).
    rewrite E. apply assoc_str_in in Ek. rewrite forallb_forall in H1. specialize (H1 _ Ek).
    cbn [fst snd] in H1. exact (machine_table_ok_sound _ _ _ _ H1 z).
  - assert (E : table_id_for M k = table_id_for M "<raw>")
      by (unfold table_id_for; rewrite Ek; destruct (assoc_str M "<raw>"); reflexivity).
    rewrite E. split; [intros _; reflexivity|].
    intros n Hz Hd. destruct (machine_table_ok_sound _ _ _ _ H2 z) as [_ Hb].
    destruct (Hb n Hz Hd) as (pfx & Hin & _). rewrite Hraw in Hin. destruct Hin.
Qed.

Lemma machine_anchors_sound k z n : In (k, z, n) A ->
  Enum.dict_get (table_of_id (table_id_for M k)) z = Some n.
Proof.
  intros Hin. pose proof Hok as H0. unfold machine_tables_ok in H0. cbv zeta in H0.
  apply andb_prop in H0. destruct H0 as [_ H3]. rewrite forallb_forall in H3.
  specialize (H3 _ Hin). cbn beta iota in H3.
  destruct (Enum.dict_get (table_of_id (table_id_for M k)) z) as [m|]; [|discriminate].
  apply String.eqb_eq in H3. subst m. reflexivity.
Qed.
End Map.

(* ---- the maps generated from the live code pass the check *)
Lemma gen_sh_tables_ok : machine_tables_ok sh_proc_prefixes sh_anchors gen_sh_type_table_of_machine = true.
Proof. vm_compute. reflexivity. Qed.
Lemma gen_p_tables_ok : machine_tables_ok p_proc_prefixes p_anchors gen_p_type_table_of_machine = true.
Proof. vm_compute. reflexivity. Qed.


Lemma sh_tables_rule k z :
  (in_proc z = false -> Enum.dict_get (sh_dict k) z = Enum.dict_get (sh_dict "<raw>") z) /\
  (forall n, in_proc z = true -> Enum.dict_get (sh_dict k) z = Some n ->
     exists pfx, In pfx (prefixes_of sh_proc_prefixes k) /\ String.prefix pfx n = true).
Proof. exact (machine_tables_sound _ _ _ gen_sh_tables_ok eq_refl k z). Qed.

Lemma p_tables_rule k z :
  (in_proc z = false -> Enum.dict_get (p_dict k) z = Enum.dict_get (p_dict "<raw>") z) /\
  (forall n, in_proc z = true -> Enum.dict_get (p_dict k) z = Some n ->
     exists pfx, In pfx (prefixes_of p_proc_prefixes k) /\ String.prefix pfx n = true).
Proof. exact (machine_tables_sound _ _ _ gen_p_tables_ok eq_refl k z). Qed.

Lemma sh_tables_anchors k z n : In (k, z, n) sh_anchors -> Enum.dict_get (sh_dict k) z = Some n.
Proof. exact (machine_anchors_sound _ _ _ gen_sh_tables_ok k z n). Qed.
Lemma p_tables_anchors k z n : In (k, z, n) p_anchors -> Enum.dict_get (p_dict k) z = Some n.
Proof. exact (machine_anchors_sound _ _ _ gen_p_tables_ok k z n). Qed.
