(* Proofs/C14Iter.v — the note walk, the two front ends and the stab walk. *)
From PV Require Import Base.Outcome Base.Fmt Base.Enum Base.Prim.
From PV Require Import Gen.ElfLayouts Gen.C14Notes Spec.ElfGabi Spec.PrimSpec Spec.C14Notes Model.C14Notes.
From PV Require Import Proofs.PrimProofs Proofs.FmtProofs Proofs.ElfLayoutFacts Proofs.C14Proofs Proofs.C14Desc.
From Coq Require Import Lia ZifyBool.
Ltac Zify.zify_post_hook ::= Z.to_euclidean_division_equations.
Open Scope string_scope.
Open Scope list_scope.
Open Scope Z_scope.

(* ================================================================== one note *)
Lemma nhdr_bytes le a b t :
  encode_layout (spec_Elf_Nhdr le) [VZ a; VZ b; VZ t]
  = int_encode le 4 a ++ int_encode le 4 b ++ int_encode le 4 t.
Proof. cbn. rewrite app_nil_r. reflexivity. Qed.

Lemma zlen_nhdr le a b t : zlen (encode_layout (spec_Elf_Nhdr le) [VZ a; VZ b; VZ t]) = 12.
Proof. rewrite nhdr_bytes, !zlen_app, !zlen_int_encode. reflexivity. Qed.

Lemma sizeof_nhdr c : sizeof (Elf_Nhdr c) = 12.
Proof. destruct c as [[|] [|] et em]; reflexivity. Qed.

Lemma kind_eqb_eq a b : kind_eqb a b = true -> a = b.
Proof. destruct a, b; cbn; intros H; try discriminate; reflexivity. Qed.

Lemma pad4_0 : pad4 0 = 0.
Proof. reflexivity. Qed.

Lemma read_name_ok (n : note) img (A1 NP Rest : list Z) off :
  match n_name n with None => true | Some s => no_nul s && all_bytes s end = true ->
  zlen NP = pad4 (zlen (name_bytes n)) ->
  img = A1 ++ name_bytes n ++ NP ++ Rest -> off = zlen A1 ->
  read_name img off off (zlen (name_bytes n))
  = Ok (n_name n, off + (zlen (name_bytes n) + pad4 (zlen (name_bytes n))),
        off + (zlen (name_bytes n) + pad4 (zlen (name_bytes n)))).
Proof.
  unfold name_bytes. intros Hname Hnp Hi Ho. unfold read_name, read_cur. destruct (n_name n) as [s|].
  - apply andb_prop in Hname. destruct Hname as [Hnn _].
    set (X := n_nextra n) in *.
    pose proof (zlen_nonneg s) as H0. pose proof (zlen_nonneg X) as H1.
    assert (Hz : zlen (cstring_encode s ++ X) = zlen s + 1 + zlen X).
    { unfold cstring_encode. rewrite !zlen_app. change (zlen [0]) with 1. lia. }
    rewrite Hz in *.
    destruct (Z.eqb_spec (zlen s + 1 + zlen X) 0); [lia|].
    rewrite roundup_2.
    rewrite (read_at_at img A1 ((cstring_encode s ++ X) ++ NP) Rest off _).
    + rewrite <- app_assoc. rewrite cstring_decode_valid by exact Hnn.
      unfold cstring_encode. rewrite !zlen_app. change (zlen [0]) with 1. rewrite Hnp.
      repeat (f_equal; try lia).
    + rewrite Hi. rewrite <- !app_assoc. reflexivity.
    + exact Ho.
    + rewrite zlen_app, Hz. lia.
  - change (zlen (@nil Z)) with 0. cbn [Z.eqb]. rewrite pad4_0.
    f_equal. f_equal; [f_equal|]; lia.
Qed.

Lemma decode_desc_at c d img (A R : list Z) off dsz :
  wf_desc (scfg_of c) d = true ->
  img = A ++ desc_bytes (scfg_of c) d ++ R -> off = zlen A -> dsz = zlen (desc_bytes (scfg_of c) d) ->
  decode_desc c img (desc_kind d) off dsz (desc_bytes (scfg_of c) d) = Ok (desc_view (scfg_of c) d).
Proof. intros Hwf Hi -> ->. apply (decode_desc_ok c d img A R); assumption. Qed.

Lemma zlen_encode_note c n : wf_note (scfg_of c) n = true ->
  zlen (encode_note (scfg_of c) n) = note_size (scfg_of c) n.
Proof.
  intros Hwf. unfold wf_note in Hwf. rewrite !andb_true_iff in Hwf.
  destruct Hwf as [[[[[[[[[[Hname Hxb] Hnpb] Hnpl] Hdpb] Hdpl] Hnsz] Hdsz] Hty] Hwd] Hk].
  apply Z.eqb_eq in Hnpl. apply Z.eqb_eq in Hdpl.
  unfold encode_note, note_size. rewrite !zlen_app, zlen_nhdr.
  unfold namesz, descsz in *. lia.
Qed.

Lemma note_size_ge c n : 12 <= note_size (scfg_of c) n.
Proof.
  unfold note_size.
  pose proof (pad_to_bound 4 (namesz n) ltac:(lia)).
  pose proof (pad_to_bound 4 (descsz (scfg_of c) n) ltac:(lia)).
  unfold pad4. unfold namesz, descsz in *.
  pose proof (zlen_nonneg (name_bytes n)). pose proof (zlen_nonneg (desc_bytes (scfg_of c) (n_desc n))). lia.
Qed.

Theorem one_note_ok c n img cur (A R : list Z) :
  wf_cfg c = true -> wf_note (scfg_of c) n = true ->
  img = A ++ encode_note (scfg_of c) n ++ R ->
  one_note c img cur (zlen A) = Ok (expected_note (scfg_of c) (zlen A) n, zlen A + note_size (scfg_of c) n).
Proof.
  intros Hc Hwf Hi.
  unfold wf_note in Hwf. rewrite !andb_true_iff in Hwf.
  destruct Hwf as [[[[[[[[[[Hname Hxb] Hnpb] Hnpl] Hdpb] Hdpl] Hnsz] Hdsz] Hty] Hwd] Hk].
  apply Z.eqb_eq in Hnpl. apply Z.eqb_eq in Hdpl. apply kind_eqb_eq in Hk.
  set (sc := scfg_of c) in *.
  set (H := encode_layout (spec_Elf_Nhdr (c_le c)) [VZ (namesz n); VZ (descsz sc n); VZ (n_type n)]).
  set (NB := name_bytes n) in *. set (NP := n_npad n) in *.
  set (DB := desc_bytes sc (n_desc n)) in *. set (DP := n_dpad n) in *.
  assert (Himg : img = A ++ H ++ NB ++ NP ++ DB ++ DP ++ R).
  { rewrite Hi. unfold encode_note. fold NB NP DB DP. rewrite <- !app_assoc. reflexivity. }
  assert (HlenH : zlen H = 12) by apply zlen_nhdr.
  unfold one_note.
  (* header *)
  unfold Elf_Nhdr at 1. rewrite gen_Elf_Nhdr_gabi.
  rewrite (struct_parse_at_ok (spec_Elf_Nhdr (c_le c)) [VZ (namesz n); VZ (descsz sc n); VZ (n_type n)]
             img A (NB ++ NP ++ DB ++ DP ++ R) (zlen A)); [| | exact Himg | reflexivity].
  2:{ unfold fits_layout.
      cbn [fits_fields spec_Elf_Nhdr nvals firstn skipn length fits_kind annot_kind rev app Nat.eqb andb].
      change (u32 (namesz n) && (u32 (descsz sc n) && (u32 (n_type n) && true)) = true).
      rewrite Hnsz, Hdsz, Hty. reflexivity. }
  cbn [bind].
  change (annot_layout (spec_Elf_Nhdr (c_le c)) [VZ (namesz n); VZ (descsz sc n); VZ (n_type n)])
    with [("n_namesz", VZ (namesz n)); ("n_descsz", VZ (descsz sc n)); ("n_type", VZ (n_type n))].
  cbn [rec_z rec_get String.eqb Ascii.eqb Bool.eqb].
  rewrite n_type_strict_false, enum_field_pass. cbn [bind].
  rewrite sizeof_nhdr.
  (* name *)
  unfold namesz at 1. fold NB.
  assert (Hrn := read_name_ok n img (A ++ H) NP (DB ++ DP ++ R) (zlen A + 12) Hname Hnpl).
  fold NB in Hrn. rewrite Hrn; [ | rewrite Himg, <- !app_assoc; reflexivity | rewrite zlen_app; lia ].
  clear Hrn. cbn [bind].
  (* descriptor *)
  assert (Hoff2 : zlen A + 12 + (zlen NB + pad4 (zlen NB)) = zlen (A ++ H ++ NB ++ NP)).
  { rewrite !zlen_app. unfold namesz in Hnpl. fold NB in Hnpl. lia. }
  unfold read_cur.
  rewrite (read_at_at img (A ++ H ++ NB ++ NP) DB (DP ++ R) _ _);
    [ | rewrite Himg, <- !app_assoc; reflexivity | exact Hoff2 | reflexivity ].
  rewrite (dispatch_spec c (n_name n) (n_type n) Hc). fold sc. rewrite <- Hk.
  rewrite (decode_desc_at c (n_desc n) img (A ++ H ++ NB ++ NP) (DP ++ R));
    [ | exact Hwd | rewrite Himg, <- !app_assoc; reflexivity | exact Hoff2 | reflexivity ].
  cbn [bind].
  rewrite roundup_2.
  unfold expected_note, note_size. unfold namesz, descsz. fold sc NB DB.
  f_equal. f_equal; [f_equal|]; try lia.
  rewrite (n_type_table_spec c Hc). reflexivity.
Qed.

(* ================================================================== the whole extent *)
Lemma iter_notes_go_ok c adv : wf_cfg c = true -> forall ns fuel i img (A R : list Z),
  (length ns < fuel)%nat -> wf_notes (scfg_of c) ns = true ->
  img = A ++ encode_notes (scfg_of c) ns ++ R ->
  iter_notes_go fuel c img adv i (zlen A) (zlen A + zlen (encode_notes (scfg_of c) ns))
  = (expected_notes (scfg_of c) (zlen A) ns, None).
Proof.
  intros Hc. induction ns as [|n ns IH]; intros fuel i img A R Hfuel Hwf Hi.
  - destruct fuel as [|f]; [cbn in Hfuel; lia|].
    cbn [iter_notes_go encode_notes map concat expected_notes]. rewrite sizeof_nhdr.
    change (zlen (@nil Z)) with 0.
    destruct (Z.leb_spec (zlen A + 12) (zlen A + 0)); [lia|]. reflexivity.
  - destruct fuel as [|f]; [cbn in Hfuel; lia|]. cbn [length] in Hfuel.
    unfold wf_notes in Hwf. cbn [forallb] in Hwf. apply andb_prop in Hwf. destruct Hwf as [Hn Hns].
    unfold encode_notes in *. cbn [map concat] in *. fold (encode_notes (scfg_of c) ns) in *.
    pose proof (zlen_encode_note c n Hn) as Hlen. pose proof (note_size_ge c n) as Hge.
    pose proof (zlen_nonneg (encode_notes (scfg_of c) ns)) as Hr0.
    cbn [iter_notes_go expected_notes]. rewrite sizeof_nhdr. rewrite zlen_app.
    destruct (Z.leb_spec (zlen A + 12)
                (zlen A + (zlen (encode_note (scfg_of c) n) + zlen (encode_notes (scfg_of c) ns)))); [|lia].
    rewrite <- app_assoc in Hi.
    rewrite (one_note_ok c n img (adv i) A _ Hc Hn Hi).
    replace (zlen A + note_size (scfg_of c) n) with (zlen (A ++ encode_note (scfg_of c) n))
      by (rewrite zlen_app; lia).
    replace (zlen A + (zlen (encode_note (scfg_of c) n) + zlen (encode_notes (scfg_of c) ns)))
      with (zlen (A ++ encode_note (scfg_of c) n) + zlen (encode_notes (scfg_of c) ns))
      by (rewrite zlen_app; lia).
    rewrite (IH f (S i) img (A ++ encode_note (scfg_of c) n) R); [reflexivity | lia | exact Hns |].
    rewrite Hi, <- !app_assoc. reflexivity.
Qed.

Lemma notes_count_le c ns : wf_notes (scfg_of c) ns = true ->
  (length ns <= length (encode_notes (scfg_of c) ns))%nat.
Proof.
  induction ns as [|n ns IH]; intros Hwf; [cbn; lia|].
  unfold wf_notes in Hwf. cbn [forallb] in Hwf. apply andb_prop in Hwf. destruct Hwf as [Hn Hns].
  unfold encode_notes in *. cbn [map concat length]. rewrite app_length.
  pose proof (zlen_encode_note c n Hn) as Hlen. pose proof (note_size_ge c n) as Hge.
  unfold zlen in Hlen. specialize (IH Hns). lia.
Qed.

(* iterating the encoding of any well-formed note list, placed anywhere in any image, yields
   exactly the notes with their offsets and padded sizes, without error *)
Theorem notes_exact c adv ns (pre tail : list Z) :
  wf_cfg c = true -> wf_notes (scfg_of c) ns = true ->
  iter_notes c (pre ++ encode_notes (scfg_of c) ns ++ tail) adv (zlen pre) (zlen (encode_notes (scfg_of c) ns))
  = (expected_notes (scfg_of c) (zlen pre) ns, None).
Proof.
  intros Hc Hwf. unfold iter_notes.
  apply (iter_notes_go_ok c adv Hc ns _ _ _ pre tail); [| exact Hwf | reflexivity].
  pose proof (notes_count_le c ns Hwf). rewrite !app_length. lia.
Qed.

(* the yielded notes tile the extent: consecutive offsets, sizes summing to the extent size *)
Definition total_size (l : list onote) : Z := fold_right (fun n a => o_size n + a) 0 l.

Theorem extent_consumed c ns off :
  wf_notes (scfg_of c) ns = true ->
  total_size (expected_notes (scfg_of c) off ns) = zlen (encode_notes (scfg_of c) ns).
Proof.
  revert off. induction ns as [|n ns IH]; intros off Hwf; [reflexivity|].
  unfold wf_notes in Hwf. cbn [forallb] in Hwf. apply andb_prop in Hwf. destruct Hwf as [Hn Hns].
  unfold encode_notes. cbn [map concat expected_notes total_size fold_right].
  fold (total_size (expected_notes (scfg_of c) (off + note_size (scfg_of c) n) ns)).
  fold (encode_notes (scfg_of c) ns).
  rewrite zlen_app, (IH _ Hns), (zlen_encode_note c n Hn). reflexivity.
Qed.

Fixpoint consecutive (off : Z) (l : list onote) : Prop :=
  match l with
  | [] => True
  | n :: r => o_offset n = off /\ consecutive (off + o_size n) r
  end.

Theorem offsets_consecutive c ns off : consecutive off (expected_notes (scfg_of c) off ns).
Proof.
  revert off. induction ns as [|n ns IH]; intros off; cbn [expected_notes consecutive]; [exact I|].
  split; [reflexivity|]. apply IH.
Qed.

(* ================================================================== the two views *)
Theorem views_agree c img adv sh ph :
  rec_z sh "sh_offset" = rec_z ph "p_offset" -> rec_z sh "sh_size" = rec_z ph "p_filesz" ->
  NoteSection_iter_notes c img adv sh = NoteSegment_iter_notes c img adv ph.
Proof. intros H1 H2. unfold NoteSection_iter_notes, NoteSegment_iter_notes. rewrite H1, H2. reflexivity. Qed.

(* image level: a section header and a program header, wherever they lie in the file, that
   describe the same extent give the same — exact — notes *)
Theorem views_exact c adv adv' ns (pre tail : list Z) shoff phoff sh ph :
  wf_cfg c = true -> wf_notes (scfg_of c) ns = true ->
  let img := pre ++ encode_notes (scfg_of c) ns ++ tail in
  section_header_at c img shoff = Ok sh -> segment_header_at c img phoff = Ok ph ->
  rec_z sh "sh_offset" = zlen pre -> rec_z sh "sh_size" = zlen (encode_notes (scfg_of c) ns) ->
  rec_z ph "p_offset" = zlen pre -> rec_z ph "p_filesz" = zlen (encode_notes (scfg_of c) ns) ->
  section_notes_at c img adv shoff = Ok (expected_notes (scfg_of c) (zlen pre) ns, None) /\
  segment_notes_at c img adv' phoff = Ok (expected_notes (scfg_of c) (zlen pre) ns, None).
Proof.
  intros Hc Hwf img Hsh Hph H1 H2 H3 H4.
  unfold section_notes_at, segment_notes_at. rewrite Hsh, Hph. cbn [bind].
  unfold NoteSection_iter_notes, NoteSegment_iter_notes. rewrite H1, H2, H3, H4.
  unfold img. rewrite (notes_exact c adv ns pre tail Hc Hwf), (notes_exact c adv' ns pre tail Hc Hwf). split; reflexivity.
Qed.

(* ================================================================== stabs *)
Lemma sizeof_stabs c : sizeof (gen_Elf_Stabs (c_le c) (c_is64 c)) = 12.
Proof. destruct c as [[|] [|] et em]; reflexivity. Qed.

Lemma zlen_encode_stab le s : wf_stab le s = true -> zlen (encode_layout (stab_layout le) s) = 12.
Proof.
  intros H. unfold zlen, encode_layout.
  rewrite (encode_fields_length (stab_layout le) [] s 12%nat H); [reflexivity|].
  destruct le; reflexivity.
Qed.

Lemma iter_stabs_go_ok c adv : forall ss fuel i img (A R : list Z),
  (length ss < fuel)%nat -> forallb (wf_stab (c_le c)) ss = true ->
  img = A ++ encode_stabs (c_le c) ss ++ R ->
  iter_stabs_go fuel c img adv i (zlen A) (zlen A + zlen (encode_stabs (c_le c) ss))
  = (expected_stabs (c_le c) (zlen A) ss, None).
Proof.
  induction ss as [|s ss IH]; intros fuel i img A R Hfuel Hwf Hi.
  - destruct fuel as [|f]; [cbn in Hfuel; lia|].
    cbn [iter_stabs_go encode_stabs map concat expected_stabs]. change (zlen (@nil Z)) with 0.
    destruct (Z.ltb_spec (zlen A) (zlen A + 0)); [lia|]. reflexivity.
  - destruct fuel as [|f]; [cbn in Hfuel; lia|]. cbn [length] in Hfuel.
    cbn [forallb] in Hwf. apply andb_prop in Hwf. destruct Hwf as [Hs Hss].
    unfold encode_stabs in *. cbn [map concat] in *. fold (encode_stabs (c_le c) ss) in *.
    pose proof (zlen_encode_stab (c_le c) s Hs) as Hlen.
    pose proof (zlen_nonneg (encode_stabs (c_le c) ss)) as Hr0.
    cbn [iter_stabs_go expected_stabs]. rewrite zlen_app.
    destruct (Z.ltb_spec (zlen A)
                (zlen A + (zlen (encode_layout (stab_layout (c_le c)) s) + zlen (encode_stabs (c_le c) ss)))); [|lia].
    rewrite <- app_assoc in Hi.
    unfold one_stab. rewrite sizeof_stabs. rewrite gen_Elf_Stabs_gabi.
    rewrite (struct_parse_at_ok (spec_Elf_Stabs (c_le c)) s img A _ (zlen A) Hs Hi eq_refl).
    cbn [bind].
    replace (zlen A + 12) with (zlen (A ++ encode_layout (stab_layout (c_le c)) s))
      by (rewrite zlen_app; lia).
    replace (zlen A + (zlen (encode_layout (stab_layout (c_le c)) s) + zlen (encode_stabs (c_le c) ss)))
      with (zlen (A ++ encode_layout (stab_layout (c_le c)) s) + zlen (encode_stabs (c_le c) ss))
      by (rewrite zlen_app; lia).
    rewrite (IH f (S i) img (A ++ encode_layout (stab_layout (c_le c)) s) R); [reflexivity | lia | exact Hss |].
    rewrite Hi, <- !app_assoc. reflexivity.
Qed.

(* a stab section (header fields sh_offset, sh_size) over any image that holds the encoded
   records there yields exactly the records with their offsets *)
Theorem stabs_exact c adv ss (pre tail : list Z) sh :
  forallb (wf_stab (c_le c)) ss = true ->
  rec_z sh "sh_offset" = zlen pre -> rec_z sh "sh_size" = zlen (encode_stabs (c_le c) ss) ->
  StabSection_iter_stabs c (pre ++ encode_stabs (c_le c) ss ++ tail) adv sh
  = (expected_stabs (c_le c) (zlen pre) ss, None).
Proof.
  intros Hwf H1 H2. unfold StabSection_iter_stabs. rewrite H1, H2.
  apply (iter_stabs_go_ok c adv ss _ _ _ pre tail); [| exact Hwf | reflexivity].
  assert (Hge : (length ss <= length (encode_stabs (c_le c) ss))%nat).
  { clear H1 H2. induction ss as [|s ss IH]; [cbn; lia|].
    cbn [forallb] in Hwf. apply andb_prop in Hwf. destruct Hwf as [Hs Hss].
    unfold encode_stabs in *. cbn [map concat length]. rewrite app_length.
    pose proof (zlen_encode_stab (c_le c) s Hs) as Hl. unfold zlen in Hl. specialize (IH Hss). lia. }
  rewrite !app_length. lia.
Qed.

(* ================================================================== the other header fields are free *)
(* what the decoded headers say about the extent *)
Lemma shdr_offset_size le is64 h :
  rec_z (annot_layout (spec_Elf_Shdr le is64) (shdr_vals h)) "sh_offset" = sh_offset h /\
  rec_z (annot_layout (spec_Elf_Shdr le is64) (shdr_vals h)) "sh_size" = sh_size h /\
  rec_z (annot_layout (spec_Elf_Shdr le is64) (shdr_vals h)) "sh_entsize" = sh_entsize h.
Proof. destruct le, is64; repeat split; reflexivity. Qed.

Lemma phdr_offset_size le is64 p :
  rec_z (annot_layout (spec_Elf_Phdr le is64) (phdr_vals is64 p)) "p_offset" = p_offset p /\
  rec_z (annot_layout (spec_Elf_Phdr le is64) (phdr_vals is64 p)) "p_filesz" = p_filesz p.
Proof. destruct le, is64; split; reflexivity. Qed.

Lemma section_header_at_ok c img (A R : list Z) h :
  wf_shdr (c_le c) (c_is64 c) h = true -> img = A ++ encode_shdr (c_le c) (c_is64 c) h ++ R ->
  section_header_at c img (zlen A) = Ok (annot_layout (spec_Elf_Shdr (c_le c) (c_is64 c)) (shdr_vals h)).
Proof.
  intros Hf Hi. unfold section_header_at. rewrite gen_Elf_Shdr_gabi.
  exact (struct_parse_at_ok _ _ img A R (zlen A) Hf Hi eq_refl).
Qed.

Lemma segment_header_at_ok c img (A R : list Z) p :
  wf_phdr (c_le c) (c_is64 c) p = true -> img = A ++ encode_phdr (c_le c) (c_is64 c) p ++ R ->
  segment_header_at c img (zlen A) = Ok (annot_layout (spec_Elf_Phdr (c_le c) (c_is64 c)) (phdr_vals (c_is64 c) p)).
Proof.
  intros Hf Hi. unfold segment_header_at. rewrite gen_Elf_Phdr_gabi.
  exact (struct_parse_at_ok _ _ img A R (zlen A) Hf Hi eq_refl).
Qed.

(* two section headers that locate the same bytes enumerate the same stabs, on every image:
   sh_entsize, sh_link, sh_info, sh_addralign, sh_flags, sh_addr, ... do not matter *)
Theorem stabs_header_free c img adv sh sh' :
  rec_z sh "sh_offset" = rec_z sh' "sh_offset" -> rec_z sh "sh_size" = rec_z sh' "sh_size" ->
  StabSection_iter_stabs c img adv sh = StabSection_iter_stabs c img adv sh'.
Proof. intros H1 H2. unfold StabSection_iter_stabs. rewrite H1, H2. reflexivity. Qed.

(* in particular: overriding sh_entsize (or any field other than sh_offset / sh_size) with any value *)
Theorem stabs_field_irrelevant c img adv sh f v :
  f <> "sh_offset" -> f <> "sh_size" ->
  StabSection_iter_stabs c img adv ((f, v) :: sh) = StabSection_iter_stabs c img adv sh.
Proof.
  intros H1 H2. apply stabs_header_free; unfold rec_z; cbn [rec_get].
  - destruct (String.eqb_spec f "sh_offset") as [E|_]; [contradiction|reflexivity].
  - destruct (String.eqb_spec f "sh_size") as [E|_]; [contradiction|reflexivity].
Qed.

Theorem notes_header_free c img adv sh sh' ph ph' :
  rec_z sh "sh_offset" = rec_z sh' "sh_offset" -> rec_z sh "sh_size" = rec_z sh' "sh_size" ->
  rec_z ph "p_offset" = rec_z ph' "p_offset" -> rec_z ph "p_filesz" = rec_z ph' "p_filesz" ->
  NoteSection_iter_notes c img adv sh = NoteSection_iter_notes c img adv sh' /\
  NoteSegment_iter_notes c img adv ph = NoteSegment_iter_notes c img adv ph'.
Proof.
  intros H1 H2 H3 H4. unfold NoteSection_iter_notes, NoteSegment_iter_notes.
  rewrite H1, H2, H3, H4. split; reflexivity.
Qed.

(* file level, every header field a parameter: the image holds the encoded records at [pre] and
   a section header [h] (any sh_name, sh_type, sh_flags, sh_addr, sh_link, sh_info, sh_addralign,
   sh_entsize that fit their fields) anywhere *)
Theorem stabs_file_exact c adv ss (pre tail A R : list Z) h img :
  forallb (wf_stab (c_le c)) ss = true -> wf_shdr (c_le c) (c_is64 c) h = true ->
  sh_offset h = zlen pre -> sh_size h = zlen (encode_stabs (c_le c) ss) ->
  img = pre ++ encode_stabs (c_le c) ss ++ tail ->
  img = A ++ encode_shdr (c_le c) (c_is64 c) h ++ R ->
  section_stabs_at c img adv (zlen A) = Ok (expected_stabs (c_le c) (zlen pre) ss, None).
Proof.
  intros Hwf Hh Ho Hs Hi Hi'. unfold section_stabs_at.
  rewrite (section_header_at_ok c img A R h Hh Hi'). cbn [bind].
  destruct (shdr_offset_size (c_le c) (c_is64 c) h) as [E1 [E2 _]].
  rewrite Hi. f_equal. apply stabs_exact; [exact Hwf | rewrite E1; exact Ho | rewrite E2; exact Hs].
Qed.

(* the same for notes: section header and program header with every other field free *)
Theorem notes_file_exact c adv adv' ns (pre tail A R A' R' : list Z) h p img :
  wf_cfg c = true -> wf_notes (scfg_of c) ns = true ->
  wf_shdr (c_le c) (c_is64 c) h = true -> wf_phdr (c_le c) (c_is64 c) p = true ->
  sh_offset h = zlen pre -> sh_size h = zlen (encode_notes (scfg_of c) ns) ->
  p_offset p = zlen pre -> p_filesz p = zlen (encode_notes (scfg_of c) ns) ->
  img = pre ++ encode_notes (scfg_of c) ns ++ tail ->
  img = A ++ encode_shdr (c_le c) (c_is64 c) h ++ R ->
  img = A' ++ encode_phdr (c_le c) (c_is64 c) p ++ R' ->
  section_notes_at c img adv (zlen A) = Ok (expected_notes (scfg_of c) (zlen pre) ns, None) /\
  segment_notes_at c img adv' (zlen A') = Ok (expected_notes (scfg_of c) (zlen pre) ns, None).
Proof.
  intros Hc Hwf Hh Hp Ho Hs Hpo Hps Hi Hi1 Hi2.
  pose proof (section_header_at_ok c img A R h Hh Hi1) as Hsh.
  pose proof (segment_header_at_ok c img A' R' p Hp Hi2) as Hph.
  destruct (shdr_offset_size (c_le c) (c_is64 c) h) as [E1 [E2 _]].
  destruct (phdr_offset_size (c_le c) (c_is64 c) p) as [E3 E4].
  rewrite Hi in Hsh, Hph. rewrite Hi.
  apply (views_exact c adv adv' ns pre tail (zlen A) (zlen A') _ _ Hc Hwf Hsh Hph); congruence.
Qed.

(* ================================================================== every read of the walk is absolute *)
(* a step does not depend on the cursor it is resumed with: its first read seeks *)
Lemma one_note_cursor_free c img cur cur' offset : one_note c img cur offset = one_note c img cur' offset.
Proof. reflexivity. Qed.
Lemma one_stab_cursor_free c img cur cur' offset : one_stab c img cur offset = one_stab c img cur' offset.
Proof. reflexivity. Qed.

Lemma iter_notes_go_cursor_free c img adv adv' : forall fuel i i' offset end_,
  iter_notes_go fuel c img adv i offset end_ = iter_notes_go fuel c img adv' i' offset end_.
Proof.
  induction fuel as [|f IH]; intros i i' offset end_; [reflexivity|].
  cbn [iter_notes_go]. rewrite (one_note_cursor_free c img (adv i) (adv' i') offset).
  destruct (offset + sizeof (Elf_Nhdr c) <=? end_); [|reflexivity].
  destruct (one_note c img (adv' i') offset) as [[n offset']|e]; [|reflexivity].
  rewrite (IH (S i) (S i') offset' end_). reflexivity.
Qed.

Lemma iter_stabs_go_cursor_free c img adv adv' : forall fuel i i' offset end_,
  iter_stabs_go fuel c img adv i offset end_ = iter_stabs_go fuel c img adv' i' offset end_.
Proof.
  induction fuel as [|f IH]; intros i i' offset end_; [reflexivity|].
  cbn [iter_stabs_go]. rewrite (one_stab_cursor_free c img (adv i) (adv' i') offset).
  destruct (offset <? end_); [|reflexivity].
  destruct (one_stab c img (adv' i') offset) as [[r offset']|e]; [|reflexivity].
  rewrite (IH (S i) (S i') offset' end_). reflexivity.
Qed.

(* whatever the consumer does with the stream between two yields (other reads, another walk in
   lock step, seeks): the notes / stabs yielded are the same, on every image, well-formed or not *)
Theorem notes_cursor_free c img adv adv' offset size :
  iter_notes c img adv offset size = iter_notes c img adv' offset size.
Proof. unfold iter_notes. apply iter_notes_go_cursor_free. Qed.

Theorem stabs_cursor_free c img adv adv' sh :
  StabSection_iter_stabs c img adv sh = StabSection_iter_stabs c img adv' sh.
Proof. unfold StabSection_iter_stabs. apply iter_stabs_go_cursor_free. Qed.

(* ================================================================== adjacent extents, one file *)
(* the usual linker layout: several note sections one after the other and a PT_NOTE segment that
   spans them (same start as the first section, larger size) *)
Lemma encode_notes_app sc a b : encode_notes sc (a ++ b) = encode_notes sc a ++ encode_notes sc b.
Proof. unfold encode_notes. rewrite map_app, concat_app. reflexivity. Qed.

Lemma wf_notes_app sc a b : wf_notes sc (a ++ b) = wf_notes sc a && wf_notes sc b.
Proof. unfold wf_notes. apply forallb_app. Qed.

Lemma expected_notes_app c off a b : wf_notes (scfg_of c) a = true ->
  expected_notes (scfg_of c) off (a ++ b)
  = expected_notes (scfg_of c) off a ++ expected_notes (scfg_of c) (off + zlen (encode_notes (scfg_of c) a)) b.
Proof.
  revert off. induction a as [|n a IH]; intros off Hwf.
  - cbn [app expected_notes encode_notes map concat]. change (zlen (@nil Z)) with 0. rewrite Z.add_0_r. reflexivity.
  - unfold wf_notes in Hwf. cbn [forallb] in Hwf. apply andb_prop in Hwf. destruct Hwf as [Hn Ha].
    cbn [app expected_notes]. rewrite (IH _ Ha). unfold encode_notes. cbn [map concat].
    fold (encode_notes (scfg_of c) a). rewrite zlen_app, (zlen_encode_note c n Hn).
    rewrite Z.add_assoc. reflexivity.
Qed.

(* a sub-extent [ns2] of a longer note table [ns1 ++ ns2 ++ ns3] (a section inside the segment):
   walking it yields exactly its own notes, at their offsets in the file *)
Theorem sub_extent_exact c adv ns1 ns2 ns3 (pre tail : list Z) :
  wf_cfg c = true -> wf_notes (scfg_of c) ns2 = true ->
  iter_notes c (pre ++ encode_notes (scfg_of c) (ns1 ++ ns2 ++ ns3) ++ tail) adv
    (zlen pre + zlen (encode_notes (scfg_of c) ns1)) (zlen (encode_notes (scfg_of c) ns2))
  = (expected_notes (scfg_of c) (zlen pre + zlen (encode_notes (scfg_of c) ns1)) ns2, None).
Proof.
  intros Hc H2. rewrite !encode_notes_app. rewrite <- zlen_app.
  replace (pre ++ (encode_notes (scfg_of c) ns1 ++ encode_notes (scfg_of c) ns2 ++ encode_notes (scfg_of c) ns3) ++ tail)
    with ((pre ++ encode_notes (scfg_of c) ns1) ++ encode_notes (scfg_of c) ns2 ++ (encode_notes (scfg_of c) ns3 ++ tail))
    by (rewrite <- !app_assoc; reflexivity).
  apply notes_exact; assumption.
Qed.

(* the spanning extent yields the concatenation of what its parts yield *)
Theorem spanning_extent_concat c adv adv1 adv2 adv3 ns1 ns2 ns3 (pre tail : list Z) :
  wf_cfg c = true -> wf_notes (scfg_of c) ns1 = true -> wf_notes (scfg_of c) ns2 = true ->
  wf_notes (scfg_of c) ns3 = true ->
  let sc := scfg_of c in
  let img := pre ++ encode_notes sc (ns1 ++ ns2 ++ ns3) ++ tail in
  let o1 := zlen pre in
  let o2 := o1 + zlen (encode_notes sc ns1) in
  let o3 := o2 + zlen (encode_notes sc ns2) in
  fst (iter_notes c img adv o1 (zlen (encode_notes sc (ns1 ++ ns2 ++ ns3))))
  = fst (iter_notes c img adv1 o1 (zlen (encode_notes sc ns1))) ++
    fst (iter_notes c img adv2 o2 (zlen (encode_notes sc ns2))) ++
    fst (iter_notes c img adv3 o3 (zlen (encode_notes sc ns3))) /\
  snd (iter_notes c img adv o1 (zlen (encode_notes sc (ns1 ++ ns2 ++ ns3)))) = None.
Proof.
  intros Hc H1 H2 H3. cbv zeta.
  assert (Hall : wf_notes (scfg_of c) (ns1 ++ ns2 ++ ns3) = true).
  { rewrite !wf_notes_app, H1, H2, H3. reflexivity. }
  rewrite (notes_exact c adv _ pre tail Hc Hall).
  pose proof (sub_extent_exact c adv1 [] ns1 (ns2 ++ ns3) pre tail Hc H1) as E1.
  pose proof (sub_extent_exact c adv2 ns1 ns2 ns3 pre tail Hc H2) as E2.
  pose proof (sub_extent_exact c adv3 (ns1 ++ ns2) ns3 [] pre tail Hc H3) as E3.
  cbn [app] in E1. change (encode_notes (scfg_of c) []) with (@nil Z) in E1.
  change (zlen (@nil Z)) with 0 in E1. rewrite Z.add_0_r in E1.
  rewrite app_nil_r, <- app_assoc in E3. rewrite (encode_notes_app _ ns1 ns2), zlen_app, Z.add_assoc in E3.
  rewrite E1, E2, E3. cbn [fst snd]. split; [|reflexivity].
  rewrite (expected_notes_app c _ ns1 _ H1), (expected_notes_app c _ ns2 _ H2). reflexivity.
Qed.
