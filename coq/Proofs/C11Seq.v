(* Proofs/C11Seq.v — calls on ONE ELFFile object: the object's only state (the cached section
   name map) always holds the map of the file, a lookup through the cache is the stateless
   lookup, so the n-th answer of any call sequence is the answer of a fresh object to the
   n-th call's own arguments — and its view is the specification's debug_view of them. *)
From PV Require Import Base.Bytes Base.Outcome Spec.C11Container Model.C11Elf Model.C11Dwarf
  Proofs.C11Reject Proofs.C11Refine.
Open Scope list_scope.
Open Scope Z_scope.

Definition st_valid (e : elf) (st : obj_state) : Prop :=
  st = None \/ exists m, name_map e = Ok m /\ st = Some m.

Lemma cached_lookup e m n : name_map e = Ok m ->
  get_section_by_name e n = get_section_by_name_m e m n.
Proof. intros H. unfold get_section_by_name, get_section_by_name_m. rewrite H. reflexivity. Qed.

Lemma make_name_map_st_valid e st : constructible e = true -> st_valid e st ->
  exists m, name_map e = Ok m /\ make_name_map_st e st = (Ok m, Some m).
Proof.
  intros Hc Hv. destruct (name_map_ok e (e_secs e) O Hc) as [m [Hm _]]. fold (name_map e) in Hm.
  exists m. split; [exact Hm|]. unfold make_name_map_st.
  destruct Hv as [->|[m' [Hm' ->]]].
  - rewrite Hm. reflexivity.
  - rewrite Hm in Hm'. inversion Hm'; subst. reflexivity.
Qed.

Section Seq.
Variable inflate : list Z -> Z -> option (list Z * bool).

Theorem calls_stateless fuel loader e : constructible e = true -> forall calls st, st_valid e st ->
  obj_run inflate fuel loader e st calls
  = map (fun c => get_dwarf_info inflate fuel loader e (fst c) (snd c)) calls.
Proof.
  intros Hc. induction calls as [|[relocate follow] cs IH]; intros st Hv; [reflexivity|].
  cbn [obj_run map fst snd]. unfold obj_get_dwarf_info.
  destruct (make_name_map_st_valid e st Hc Hv) as [m [Hm ->]].
  rewrite (IH (Some m)) by (right; exists m; split; [exact Hm|reflexivity]). reflexivity.
Qed.

(* with the refinement theorem: every answer of the sequence shows the view of its own flags *)
Corollary calls_views fuel loader e :
  (forall d n, 2 ^ 63 <= n -> inflate d n = None) ->
  (forall (load : list Z -> option (list Z)) (n b : list Z),
     loader = Some load -> load n = Some b -> all_bytes b = true) ->
  constructible e = true -> forall calls,
  map res_view (obj_run inflate fuel loader e None calls)
  = map (fun c => debug_view inflate parse_opt fuel loader e (fst c) (snd c)) calls.
Proof.
  intros Hovf Hb Hc calls. rewrite (calls_stateless fuel loader e Hc calls None) by (left; reflexivity).
  rewrite map_map. apply map_ext. intros [relocate follow]. cbn [fst snd].
  apply (model_refines_spec inflate Hovf loader Hb); exact Hc.
Qed.
End Seq.
