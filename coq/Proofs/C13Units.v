(* Proofs/C13Units.v — unit headers round trip; get_CU_containing / get_CU_at /
   get_DIE_from_lut_entry answer the stateless spec from every cache state that
   satisfies the invariant, and every history of valid queries preserves it. *)
From PV Require Import Base.PyData Base.Prim Spec.PrimSpec Spec.C13Spec Proofs.PrimProofs
     Model.C13DwarfInfo Proofs.C13Aranges.
From Coq Require Import ZArith List Bool Lia ZifyBool.
Import ListNotations.
Open Scope Z_scope.

(* ------------------------------------------------------------------ unit header *)
Lemma wf_unit_facts u : wf_unit u = true ->
  2 <= us_version u <= 5 /\
  (5 <= us_version u -> 1 <= us_unit_type u <= 6) /\
  (us_addr_size u = 4 \/ us_addr_size u = 8) /\
  u_ok (osz (us_is64 u)) (us_abbrev_off u) = true /\ u_ok 8 (us_id u) = true /\
  u_ok (osz (us_is64 u)) (us_type_off u) = true /\
  initial_length_wf (us_unit_length u) (us_is64 u) = true.
Proof.
  intros H. unfold wf_unit in H.
  apply andb_prop in H; destruct H as [H H9].
  apply andb_prop in H; destruct H as [H H8].
  apply andb_prop in H; destruct H as [H H7].
  apply andb_prop in H; destruct H as [H H6].
  apply andb_prop in H; destruct H as [H H5].
  apply andb_prop in H; destruct H as [H H4].
  apply andb_prop in H; destruct H as [H H3].
  apply andb_prop in H; destruct H as [H1 H2].
  split; [lia|]. split; [intros Hv; destruct (5 <=? us_version u) eqn:E; lia|].
  split; [lia|]. auto.
Qed.

Lemma osz_pos b : Z.of_nat (osz b) = if b then 8 else 4.
Proof. destruct b; reflexivity. Qed.

Lemma us_header_rest_length le u : zlen (us_header_rest le u) = us_header_rest_len u.
Proof.
  unfold us_header_rest, us_header_rest_len.
  destruct (5 <=? us_version u), (ut_has_id (us_unit_type u)), (ut_has_type_off (us_unit_type u));
    repeat rewrite zlen_app; repeat rewrite zlen_int_encode; unfold zlen; cbn [length]; lia.
Qed.

Lemma encode_unit_eq le u :
  encode_unit le u =
  initial_length_encode le (us_unit_length u) (us_is64 u) ++ us_header_rest le u ++ us_body u.
Proof.
  unfold encode_unit, us_unit_length. rewrite zlen_app, us_header_rest_length. reflexivity.
Qed.

Lemma zlen_initial_length_encode le len is64 :
  zlen (initial_length_encode le len is64) = if is64 then 12 else 4.
Proof.
  unfold initial_length_encode. destruct is64; rewrite ?zlen_app, !zlen_int_encode; reflexivity.
Qed.

Lemma zlen_encode_unit le u : zlen (encode_unit le u) = us_size u.
Proof.
  rewrite encode_unit_eq, !zlen_app, zlen_initial_length_encode, us_header_rest_length.
  unfold us_size, us_initlen_size, us_unit_length. lia.
Qed.

Lemma unit_type_kind_ok t : 1 <= t <= 6 ->
  unit_type_kind t = Some (ut_has_id t, ut_has_type_off t).
Proof.
  intros H. assert (E : t = 1 \/ t = 2 \/ t = 3 \/ t = 4 \/ t = 5 \/ t = 6) by lia.
  destruct E as [->|[->|[->|[->|[->| ->]]]]]; reflexivity.
Qed.

Lemma cu_header_decode_valid le u rest : wf_unit u = true ->
  cu_header_decode le (us_is64 u) (encode_unit le u ++ rest) =
  Some (unit_header_of u, us_body u ++ rest).
Proof.
  intros Hwf. destruct (wf_unit_facts u Hwf) as (Hv & Ht & Ha & Hab & Hid & Hto & Hil).
  rewrite encode_unit_eq, <- !app_assoc. unfold cu_header_decode.
  rewrite initial_length_valid by exact Hil.
  unfold us_header_rest. rewrite <- !app_assoc.
  rewrite uint_decode_valid by (apply u_ok_range; unfold u_ok; lia).
  unfold unit_header_of.
  destruct (Z.leb_spec 5 (us_version u)) as [Hv5|Hv4].
  - specialize (Ht Hv5). rewrite <- !app_assoc.
    rewrite uint_decode_valid by (apply u_ok_range; unfold u_ok; lia).
    rewrite unit_type_kind_ok by exact Ht.
    rewrite uint_decode_valid by (apply u_ok_range; unfold u_ok; lia).
    change (if us_is64 u then 8%nat else 4%nat) with (osz (us_is64 u)).
    rewrite uint_decode_valid by (apply u_ok_range; exact Hab).
    cbn [andb].
    destruct (ut_has_id (us_unit_type u)); destruct (ut_has_type_off (us_unit_type u));
      cbn [app]; rewrite <- ?app_assoc;
      rewrite ?(uint_decode_valid le 8 (us_id u)) by (apply u_ok_range; exact Hid);
      rewrite ?(uint_decode_valid le (osz (us_is64 u)) (us_type_off u)) by (apply u_ok_range; exact Hto);
      reflexivity.
  - change (if us_is64 u then 8%nat else 4%nat) with (osz (us_is64 u)). rewrite <- !app_assoc.
    rewrite uint_decode_valid by (apply u_ok_range; exact Hab).
    rewrite uint_decode_valid by (apply u_ok_range; unfold u_ok; lia).
    reflexivity.
Qed.

Lemma peek_format le u rest : wf_unit u = true ->
  exists w t, uint_decode le 4 (encode_unit le u ++ rest) = Some (w, t) /\
              (w =? 0xFFFFFFFF) = us_is64 u.
Proof.
  intros Hwf. destruct (wf_unit_facts u Hwf) as (_ & _ & _ & _ & _ & _ & Hil).
  rewrite encode_unit_eq. unfold initial_length_encode, initial_length_wf in *.
  destruct (us_is64 u).
  - rewrite <- !app_assoc. eexists _, _. split.
    + apply uint_decode_valid. cbn. lia.
    + reflexivity.
  - rewrite <- !app_assoc. eexists _, _. split.
    + apply uint_decode_valid. cbn. lia.
    + lia.
Qed.

(* the parse at the start of an encoded unit placed anywhere in a stream *)
Theorem parse_CU_at_unit le u pre post : wf_unit u = true ->
  parse_CU_at_offset le (pre ++ encode_unit le u ++ post) (zlen pre) = Ok (unit_at (zlen pre) u).
Proof.
  intros Hwf. destruct (wf_unit_facts u Hwf) as (Hv & Ht & Ha & _).
  unfold parse_CU_at_offset. rewrite skipn_zlen_app by reflexivity.
  destruct (peek_format le u post Hwf) as (w & t & Ew & Ef). rewrite Ew, Ef.
  rewrite cu_header_decode_valid by exact Hwf.
  cbn [unit_header_of ch_addr_size ch_version].
  assert (Hasz : negb ((us_addr_size u =? 8) || (us_addr_size u =? 4)) = false) by lia.
  rewrite Hasz.
  assert (Hver : (2 <=? us_version u) && (us_version u <=? 5) = true) by lia.
  rewrite Hver. unfold unit_at. f_equal. f_equal.
  rewrite encode_unit_eq, <- !app_assoc, !zlen_app, zlen_initial_length_encode, us_header_rest_length.
  unfold us_initlen_size. lia.
Qed.

(* ------------------------------------------------------------------ tilings *)
Fixpoint tiling (off : Z) (cus : list cu) (size : Z) : Prop :=
  match cus with
  | [] => off = size
  | c :: r => cu_offset c = off /\ 0 < cu_size c /\ tiling (off + cu_size c) r size
  end.

Lemma tiling_le : forall cus off size, tiling off cus size -> off + zlen cus <= size.
Proof.
  induction cus as [|c r IH]; intros off size H; cbn [tiling] in H.
  - rewrite zlen_nil. lia.
  - destruct H as (_ & Hp & Hr). specialize (IH _ _ Hr). rewrite zlen_cons. lia.
Qed.

Lemma tiling_bounds : forall cus off size u, tiling off cus size -> In u cus ->
  off <= cu_offset u /\ cu_offset u + cu_size u <= size /\ 0 < cu_size u.
Proof.
  induction cus as [|c r IH]; intros off size u H Hin; [destruct Hin|].
  cbn [tiling] in H. destruct H as (Ho & Hp & Hr).
  pose proof (tiling_le _ _ _ Hr) as Hle. pose proof (zlen_nonneg r).
  destruct Hin as [<-|Hin]; [lia|].
  specialize (IH _ _ u Hr Hin). lia.
Qed.

Lemma tiling_split : forall cus off size u, tiling off cus size -> In u cus ->
  exists p s, cus = p ++ u :: s /\ tiling (cu_offset u) (u :: s) size /\
              (forall c, In c p -> cu_offset c + cu_size c <= cu_offset u).
Proof.
  induction cus as [|c r IH]; intros off size u H Hin; [destruct Hin|].
  pose proof H as H0. cbn [tiling] in H. destruct H as (Ho & Hp & Hr).
  destruct Hin as [<-|Hin].
  - exists [], r. split; [reflexivity|]. split; [rewrite Ho; exact H0|]. intros x [].
  - destruct (IH _ _ u Hr Hin) as (p & s & E & Ht & Hpre).
    exists (c :: p), s. split; [rewrite E; reflexivity|]. split; [exact Ht|].
    intros x [<-|Hx]; [|apply Hpre; exact Hx].
    pose proof (tiling_bounds _ _ _ u Hr Hin). lia.
Qed.

Lemma units_from_tiling : forall us off,
  forallb wf_unit us = true ->
  tiling off (units_from off us) (off + zlen (concat (map (encode_unit true) us))).
Proof.
  induction us as [|u r IH]; intros off Hwf; cbn [units_from tiling map concat].
  - rewrite zlen_nil. lia.
  - cbn [forallb] in Hwf. apply andb_prop in Hwf. destruct Hwf as [Hu Hr].
    assert (Hsz : cu_size (unit_at off u) = us_size u).
    { unfold cu_size, unit_at, unit_header_of, us_size, us_initlen_size. cbn. destruct (us_is64 u); lia. }
    rewrite Hsz. repeat split.
    + destruct (wf_unit_facts u Hu) as (_ & _ & _ & _ & _ & _ & Hil).
      unfold us_size, us_initlen_size, initial_length_wf in *. destruct (us_is64 u); lia.
    + rewrite zlen_app, zlen_encode_unit.
      replace (off + (us_size u + zlen (concat (map (encode_unit true) r))))
        with (off + us_size u + zlen (concat (map (encode_unit true) r))) by lia.
      apply IH. exact Hr.
Qed.

Lemma zlen_encode_units le us : zlen (encode_units le us) = zlen (encode_units true us).
Proof.
  unfold encode_units. induction us as [|u r IH]; cbn [map concat]; [reflexivity|].
  rewrite !zlen_app, !zlen_encode_unit, IH. reflexivity.
Qed.

Lemma units_from_parse le : forall us pre,
  forallb wf_unit us = true ->
  forall c, In c (units_from (zlen pre) us) ->
  parse_CU_at_offset le (pre ++ encode_units le us) (cu_offset c) = Ok c.
Proof.
  induction us as [|u r IH]; intros pre Hwf c Hin; [destruct Hin|].
  cbn [forallb] in Hwf. apply andb_prop in Hwf. destruct Hwf as [Hu Hr].
  unfold encode_units. cbn [map concat]. fold (encode_units le r).
  cbn [units_from] in Hin. destruct Hin as [<-|Hin].
  - cbn [unit_at cu_offset]. apply parse_CU_at_unit. exact Hu.
  - replace (pre ++ encode_unit le u ++ encode_units le r)
      with ((pre ++ encode_unit le u) ++ encode_units le r) by (rewrite <- app_assoc; reflexivity).
    apply IH; [exact Hr|]. rewrite zlen_app, zlen_encode_unit. exact Hin.
Qed.

(* ------------------------------------------------------------------ list helpers *)
Lemma nth_error_firstn_in {A} : forall (l : list A) j i x,
  nth_error l j = Some x -> (j < i)%nat -> In x (firstn i l).
Proof.
  induction l as [|h l IH]; intros [|j] [|i] x H Hlt; cbn in H; try discriminate; try lia.
  - inversion H. cbn. auto.
  - cbn [firstn]. right. apply (IH j i); [exact H | lia].
Qed.

Lemma find_app_skip {A} (f : A -> bool) p l :
  (forall x, In x p -> f x = false) -> find f (p ++ l) = find f l.
Proof.
  induction p as [|h p IH]; intros H; [reflexivity|].
  cbn [app find]. rewrite (H h) by (cbn; auto). apply IH. intros x Hx. apply H. cbn. auto.
Qed.

Lemma in_combine_of_key {A} : forall (ks : list Z) (vs : list A) k,
  length ks = length vs -> In k ks -> exists v, In (k, v) (combine ks vs).
Proof.
  induction ks as [|a ks IH]; intros [|b vs] k Hl Hin; cbn [length] in Hl; try discriminate; [destruct Hin|].
  destruct Hin as [->|Hin].
  - exists b. cbn. auto.
  - destruct (IH vs k ltac:(lia) Hin) as (v & Hv). exists v. cbn. auto.
Qed.

(* an offset at which an offset-exact lookup fails on a fresh object: outside the section, or the
   unit header parse raises (truncated header, unsupported version, bad address size) *)
Definition offset_fails (le : bool) (stream : list Z) (size off : Z) : bool :=
  negb (in_section size off) ||
  match parse_CU_at_offset le stream off with Err _ => true | Ok _ => false end.
Definition lookup_fails (le : bool) (stream : list Z) (size : Z) (o : di_op) : bool :=
  match o with
  | OpContaining _ => false
  | OpAt off => offset_fails le stream size off
  | OpDie off _ => offset_fails le stream size off
  end.

(* the bisect cache parses before it inserts: a failing get leaves the lists as they were *)
Lemma bcache_get_err_state {A} (parse : Z -> res A) c k e :
  snd (bcache_get parse c k) = Err e -> fst (bcache_get parse c k) = c.
Proof.
  unfold bcache_get.
  destruct ((1 <=? bisect_right (fst c) k)%nat && (k =? nth (bisect_right (fst c) k - 1) (fst c) 0)); [reflexivity|].
  destruct (parse k); cbn [fst snd]; [discriminate | reflexivity].
Qed.

(* ------------------------------------------------------------------ unit lookup *)
Section Units.
  Variables (le : bool) (stream : list Z) (size : Z) (cus : list cu).
  Hypothesis Htile : tiling 0 cus size.
  Hypothesis Hparse : forall c, In c cus -> parse_CU_at_offset le stream (cu_offset c) = Ok c.

  (* the cache invariant: bisect-cache invariant + every cached offset starts a unit *)
  Definition cu_inv (c : bcache cu) : Prop :=
    bcache_inv (parse_CU_at_offset le stream) c /\
    forall k, In k (fst c) -> exists u, In u cus /\ cu_offset u = k.

  Lemma cu_inv_empty : cu_inv ([], []).
  Proof. split; [apply bcache_inv_empty | intros k []]. Qed.

  Lemma unit_offset_unique u v : In u cus -> In v cus -> cu_offset u = cu_offset v -> u = v.
  Proof.
    intros Hu Hv E. pose proof (Hparse u Hu) as Pu. pose proof (Hparse v Hv) as Pv.
    rewrite E in Pu. rewrite Pu in Pv. inversion Pv. reflexivity.
  Qed.

  Lemma at_spec_unit u : In u cus -> at_spec cus (cu_offset u) = Some u.
  Proof.
    intros Hu. unfold at_spec.
    destruct (find (fun c => cu_offset c =? cu_offset u) cus) as [v|] eqn:Hf.
    - apply find_some in Hf. destruct Hf as [Hv Ev]. apply Z.eqb_eq in Ev.
      f_equal. apply unit_offset_unique; auto.
    - pose proof (find_none _ _ Hf u Hu) as Hn. cbv beta in Hn. rewrite Z.eqb_refl in Hn. discriminate.
  Qed.

  Lemma unit_in_section u : In u cus -> in_section size (cu_offset u) = true.
  Proof.
    intros Hu. pose proof (tiling_bounds cus 0 size u Htile Hu). unfold in_section. lia.
  Qed.

  Lemma cached_unit c u : cu_inv c -> In u cus ->
    snd (cached_CU_at_offset le stream c (cu_offset u)) = Ok u /\
    cu_inv (fst (cached_CU_at_offset le stream c (cu_offset u))).
  Proof.
    intros [Hb Hk] Hu. unfold cached_CU_at_offset.
    destruct (bcache_get_spec (parse_CU_at_offset le stream) c (cu_offset u) Hb) as (Hs & Hi & Hkeys).
    split; [rewrite Hs; apply Hparse; exact Hu|].
    split; [exact Hi|]. intros k Hin.
    destruct (Hkeys k Hin) as [->|Hold]; [exists u; auto | apply Hk; exact Hold].
  Qed.

  Lemma containing_loop_spec : forall suffix off c fuel r,
    tiling off suffix size -> (forall u, In u suffix -> In u cus) -> cu_inv c ->
    off <= r < size -> (length suffix < fuel)%nat ->
    exists u, find (fun x => cu_contains x r) suffix = Some u /\
      snd (containing_loop fuel le stream size c off r) = Ok u /\
      cu_inv (fst (containing_loop fuel le stream size c off r)).
  Proof.
    induction suffix as [|u rest IH]; intros off c fuel r Ht Hsub Hinv Hr Hf.
    - cbn [tiling] in Ht. lia.
    - destruct fuel as [|f]; [cbn in Hf; lia|]. cbn [length] in Hf.
      cbn [tiling] in Ht. destruct Ht as (Ho & Hp & Hrest).
      cbn [containing_loop]. destruct (Z.ltb_spec off size) as [_|]; [|lia].
      assert (Hu : In u cus) by (apply Hsub; cbn; auto).
      destruct (cached_unit c u Hinv Hu) as [Hs Hi]. rewrite Ho in Hs, Hi.
      destruct (cached_CU_at_offset le stream c off) as [c1 ru]. cbn [fst snd] in Hs, Hi. subst ru.
      cbv beta iota. cbn [find]. unfold cu_contains at 1.
      destruct ((cu_offset u <=? r) && (r <? cu_offset u + cu_size u)) eqn:Hc.
      + exists u. cbn [fst snd]. auto.
      + apply IH; auto.
        * intros x Hx. apply Hsub. cbn. auto.
        * lia.
        * lia.
  Qed.

  (* get_CU_containing: for ANY cache state satisfying the invariant *)
  Theorem unit_containing c r : cu_inv c -> 0 <= r < size ->
    exists u, containing_spec cus r = Some u /\
      snd (get_CU_containing le stream size c r) = Ok u /\
      cu_inv (fst (get_CU_containing le stream size c r)).
  Proof.
    intros Hinv Hr. unfold get_CU_containing.
    assert (Hrange : negb ((0 <=? r) && (r <? size)) = false) by lia. rewrite Hrange.
    pose proof Hinv as [Hb Hk]. pose proof Hb as (Hsorted & Hlen & Hall).
    rewrite bisect_right_count by exact Hsorted.
    destruct (count_le_split r (fst c) Hsorted) as [Hlow _].
    pose proof (count_le_bound r (fst c)) as Hib.
    set (i := count_le r (fst c)) in *.
    destruct (Nat.ltb_spec 0 i) as [Hi|Hi].
    - (* start at the largest cached offset <= r: it starts a unit *)
      destruct (nth_error (fst c) (i - 1)) as [k|] eqn:Hn; [|apply nth_error_None in Hn; lia].
      replace (Z.of_nat i - 1) with (Z.of_nat (i - 1)) by lia.
      rewrite (py_index_nonneg _ _ _ Hn).
      assert (Hkin : In k (fst c)) by (eapply nth_error_In; eauto).
      assert (Hkr : k <= r) by (apply Hlow; apply (nth_error_firstn_in _ (i - 1)%nat); [exact Hn | lia]).
      destruct (Hk k Hkin) as (u & Hu & Eu). subst k.
      destruct (tiling_split cus 0 size u Htile Hu) as (p & s & E & Ht & Hpre).
      pose proof (tiling_bounds cus 0 size u Htile Hu) as Hbd.
      pose proof (tiling_le _ _ _ Ht) as Hle.
      destruct (containing_loop_spec (u :: s) (cu_offset u) c (S (Z.to_nat size)) r Ht) as (v & Hf & Hs & Hi').
      + intros x Hx. rewrite E. apply in_or_app. right. exact Hx.
      + exact Hinv.
      + lia.
      + unfold zlen in Hle. lia.
      + exists v. split; [|auto]. unfold containing_spec. rewrite E.
        rewrite find_app_skip; [exact Hf|].
        intros x Hx. specialize (Hpre x Hx). unfold cu_contains. lia.
    - (* nothing cached at or below r: start at offset 0 *)
      pose proof (tiling_le _ _ _ Htile) as Hle.
      destruct (containing_loop_spec cus 0 c (S (Z.to_nat size)) r Htile) as (v & Hf & Hs & Hi').
      + auto.
      + exact Hinv.
      + lia.
      + unfold zlen in Hle. lia.
      + exists v. auto.
  Qed.

  Theorem unit_containing_out_of_range c r : ~ (0 <= r < size) ->
    get_CU_containing le stream size c r = (c, Err EDwarf).
  Proof.
    intros H. unfold get_CU_containing.
    assert (Hrange : negb ((0 <=? r) && (r <? size)) = true) by lia. rewrite Hrange. reflexivity.
  Qed.

  (* get_CU_at at the start of a unit returns exactly that unit, for ANY cache state *)
  Theorem unit_at_exact c u : cu_inv c -> In u cus ->
    snd (get_CU_at le stream size c (cu_offset u)) = Ok u /\
    cu_inv (fst (get_CU_at le stream size c (cu_offset u))).
  Proof.
    intros Hinv Hu. unfold get_CU_at.
    pose proof (unit_in_section u Hu) as Hs. unfold in_section in Hs. rewrite Hs. cbn [negb].
    apply cached_unit; auto.
  Qed.

  Theorem unit_at_out_of_range c o : ~ (0 <= o < size) ->
    get_CU_at le stream size c o = (c, Err EDwarf).
  Proof.
    intros H. unfold get_CU_at.
    assert (Hrange : negb ((0 <=? o) && (o <? size)) = true) by lia. rewrite Hrange. reflexivity.
  Qed.
End Units.

(* ------------------------------------------------------------------ DIEs and histories *)
Lemma count_le_pos k x l : In k l -> k <= x -> (1 <= count_le x l)%nat.
Proof.
  induction l as [|h l IH]; intros Hin Hk; [destruct Hin|].
  rewrite count_le_cons. destruct Hin as [->|Hin].
  - destruct (Z.leb_spec k x); lia.
  - specialize (IH Hin Hk). destruct (h <=? x); lia.
Qed.

Lemma nth_error_nth0 : forall (l : list Z) j, (j < length l)%nat -> nth_error l j = Some (nth j l 0).
Proof.
  induction l as [|h l IH]; intros [|j] H; cbn [length] in H; try lia; cbn [nth_error nth]; auto.
  apply IH. lia.
Qed.

Section History.
  Variables (le : bool) (stream : list Z) (size : Z) (cus : list cu).
  Hypothesis Htile : tiling 0 cus size.
  Hypothesis Hparse : forall c, In c cus -> parse_CU_at_offset le stream (cu_offset c) = Ok c.
  Context {D : Type} (parse_die : cu -> Z -> res D).

  (* per unit object: bisect-cache invariant; once non-empty the first DIE is cached *)
  Definition die_inv (u : cu) (dc : bcache D) : Prop :=
    bcache_inv (parse_die u) dc /\ (fst dc = [] \/ In (cu_die_offset u) (fst dc)).

  Definition st_inv (st : di_state (D := D)) : Prop :=
    cu_inv le stream cus (st_cus st) /\
    forall o dc, dict_get Z.eqb (st_dies st) o = Some dc ->
                 exists u, In u cus /\ cu_offset u = o /\ die_inv u dc.

  Lemma die_inv_empty u : die_inv u ([], []).
  Proof. split; [apply bcache_inv_empty | left; reflexivity]. Qed.

  Lemma st_inv_init : st_inv di_init.
  Proof. split; [apply cu_inv_empty | intros o dc H; discriminate]. Qed.

  Lemma get_top_DIE_spec u dc : die_inv u dc ->
    match get_top_DIE parse_die u dc with
    | (dc1, Ok _) => (exists top, parse_die u (cu_die_offset u) = Ok top) /\
                     bcache_inv (parse_die u) dc1 /\ In (cu_die_offset u) (fst dc1)
    | (dc1, Err e) => parse_die u (cu_die_offset u) = Err e /\ dc1 = dc
    end.
  Proof.
    intros [(Hs & Hl & Hall) Htop]. unfold get_top_DIE. destruct dc as [ks vs]. cbn [fst snd] in *.
    destruct ks as [|k0 ks].
    - destruct vs as [|v0 vs]; [|discriminate].
      destruct (parse_die u (cu_die_offset u)) as [top|e] eqn:Hp; [|auto].
      split; [eauto|]. unfold list_insert. cbn [firstn skipn app fst snd]. split; [|cbn; auto].
      repeat split; cbn [fst snd combine sorted length]; auto.
      intros y [].
    - destruct vs as [|v0 vs]; [discriminate|].
      change 0 with (Z.of_nat 0). rewrite (py_index_nonneg (v0 :: vs) 0 v0 eq_refl).
      destruct Htop as [Hnil|Hin]; [discriminate|].
      split; [|split; [split; [exact Hs | split; [exact Hl | exact Hall]] | exact Hin]].
      destruct (in_combine_of_key (k0 :: ks) (v0 :: vs) _ Hl Hin) as (v & Hv).
      rewrite Forall_forall in Hall. specialize (Hall _ Hv). cbn [fst snd] in Hall. eauto.
  Qed.

  Lemma get_cached_DIE_spec u dc off : die_inv u dc -> cu_die_offset u <= off ->
    snd (get_cached_DIE parse_die u dc off) =
      match parse_die u (cu_die_offset u) with Err e => Err e | Ok _ => parse_die u off end /\
    die_inv u (fst (get_cached_DIE parse_die u dc off)).
  Proof.
    intros Hinv Hoff. unfold get_cached_DIE.
    pose proof (get_top_DIE_spec u dc Hinv) as Htop.
    destruct (get_top_DIE parse_die u dc) as [dc1 [top|e]].
    2:{ destruct Htop as [Hp ->]. rewrite Hp. cbn [fst snd]. auto. }
    destruct Htop as ((top' & Hp) & Hb & Hin). rewrite Hp.
    pose proof Hb as (Hs & Hl & Hall).
    (* the remaining code is the generic bisect cache, because bisect_right >= 1 *)
    assert (Hi : (1 <= count_le off (fst dc1))%nat) by (eapply count_le_pos; eauto).
    pose proof (count_le_bound off (fst dc1)) as Hib.
    pose proof (bcache_get_spec (parse_die u) dc1 off Hb) as (Hget & Hinv' & Hkeys).
    assert (E : (let i := bisect_right (fst dc1) off in
                 match py_index (fst dc1) (Z.of_nat i - 1) with
                 | Err e => (dc1, Err e)
                 | Ok k =>
                     if off =? k then (dc1, py_index (snd dc1) (Z.of_nat i - 1))
                     else match parse_die u off with
                          | Ok die => ((list_insert i off (fst dc1), list_insert i die (snd dc1)), Ok die)
                          | Err e => (dc1, Err e)
                          end
                 end) = bcache_get (parse_die u) dc1 off).
    { unfold bcache_get. rewrite bisect_right_count by exact Hs. cbv zeta.
      set (i := count_le off (fst dc1)) in *.
      replace (Z.of_nat i - 1) with (Z.of_nat (i - 1)) by lia.
      rewrite (py_index_nonneg (fst dc1) (i - 1) (nth (i - 1) (fst dc1) 0)) by (apply nth_error_nth0; lia).
      destruct (Nat.leb_spec 1 i) as [_|]; [|lia]. cbn [andb].
      destruct (off =? nth (i - 1) (fst dc1) 0); [|reflexivity].
      destruct (nth_error (snd dc1) (i - 1)) as [v|] eqn:Hn.
      - rewrite (py_index_nonneg _ _ _ Hn). reflexivity.
      - apply nth_error_None in Hn. lia. }
    cbv zeta in E. rewrite E. split; [exact Hget|].
    split; [exact Hinv'|]. right.
    unfold bcache_get. destruct ((1 <=? bisect_right (fst dc1) off)%nat && (off =? nth (bisect_right (fst dc1) off - 1) (fst dc1) 0));
      cbn [fst]; [exact Hin|].
    destruct (parse_die u off); cbn [fst]; [|exact Hin].
    apply list_insert_in. right. exact Hin.
  Qed.

  (* get_DIE_from_lut_entry: the DIE at the absolute offset inside the unit at cu_ofs *)
  Theorem die_from_lut st u d : st_inv st -> In u cus ->
    snd (get_DIE_from_lut_entry parse_die le stream size st (cu_offset u) d) =
      die_spec parse_die cus size (cu_offset u) d /\
    st_inv (fst (get_DIE_from_lut_entry parse_die le stream size st (cu_offset u) d)).
  Proof.
    intros [Hc Hd] Hu. unfold get_DIE_from_lut_entry, die_spec.
    destruct (unit_at_exact le stream size cus Htile Hparse (st_cus st) u Hc Hu) as [Hr Hc1].
    destruct (get_CU_at le stream size (st_cus st) (cu_offset u)) as [c1 r].
    cbn [fst snd] in Hr, Hc1. subst r.
    rewrite (unit_in_section size cus Htile u Hu). cbn [negb].
    rewrite (at_spec_unit le stream cus Hparse u Hu).
    destruct ((cu_die_offset u <=? d) && (d <? cu_offset u + cu_size u)) eqn:Hrng.
    2:{ cbn [fst snd]. split; [reflexivity|]. split; [exact Hc1 | exact Hd]. }
    assert (Hdc : die_inv u (die_cache_of st (cu_offset u))).
    { unfold die_cache_of. destruct (dict_get Z.eqb (st_dies st) (cu_offset u)) as [dc|] eqn:Hg.
      - destruct (Hd _ _ Hg) as (v & Hv & Ev & Hi).
        rewrite <- (unit_offset_unique le stream cus Hparse v u Hv Hu Ev). exact Hi.
      - apply die_inv_empty. }
    destruct (get_cached_DIE_spec u _ d Hdc ltac:(lia)) as [Hres Hinv'].
    destruct (get_cached_DIE parse_die u (die_cache_of st (cu_offset u)) d) as [dc1 r].
    cbn [fst snd] in *. split; [exact Hres|]. split; [exact Hc1|].
    cbn [st_dies]. intros o dc Hg.
    destruct (Z.eq_dec o (cu_offset u)) as [->|Hne].
    - rewrite (dict_get_set_same Z.eqb Z.eqb_eq) in Hg. inversion Hg. subst dc. exists u. auto.
    - rewrite (dict_get_set_other Z.eqb Z.eqb_eq) in Hg by exact Hne. apply Hd. exact Hg.
  Qed.

  Lemma is_unit_start_in o : is_unit_start cus o = true -> exists u, In u cus /\ cu_offset u = o.
  Proof.
    unfold is_unit_start. rewrite existsb_exists. intros (u & Hu & E). apply Z.eqb_eq in E. eauto.
  Qed.

  (* one query from any state satisfying the invariant: the answer is the stateless spec *)
  Theorem di_step_spec st o : st_inv st -> valid_op cus o = true ->
    snd (di_step parse_die le stream size st o) = answer_spec parse_die cus size o /\
    st_inv (fst (di_step parse_die le stream size st o)).
  Proof.
    intros Hinv Hv. pose proof Hinv as [Hc Hd]. destruct o as [r|off|cu_ofs die_ofs]; cbn [di_step answer_spec].
    - unfold in_section. destruct ((0 <=? r) && (r <? size)) eqn:Hr; cbn [negb].
      + destruct (unit_containing le stream size cus Htile Hparse (st_cus st) r Hc ltac:(lia)) as (u & Hs & Ha & Hi).
        destruct (get_CU_containing le stream size (st_cus st) r) as [c1 a]. cbn [fst snd] in *.
        rewrite Hs, Ha. split; [reflexivity|]. split; auto.
      + rewrite (unit_containing_out_of_range le stream size (st_cus st) r) by lia.
        cbn [fst snd]. split; [reflexivity|]. exact Hinv.
    - cbn [valid_op] in Hv. destruct (is_unit_start_in off Hv) as (u & Hu & <-).
      destruct (unit_at_exact le stream size cus Htile Hparse (st_cus st) u Hc Hu) as [Ha Hi].
      destruct (get_CU_at le stream size (st_cus st) (cu_offset u)) as [c1 a]. cbn [fst snd] in *.
      rewrite (unit_in_section size cus Htile u Hu). cbn [negb].
      rewrite (at_spec_unit le stream cus Hparse u Hu). rewrite Ha.
      split; [reflexivity|]. split; auto.
    - cbn [valid_op] in Hv. destruct (is_unit_start_in cu_ofs Hv) as (u & Hu & <-).
      destruct (die_from_lut st u die_ofs Hinv Hu) as [Ha Hi].
      destruct (get_DIE_from_lut_entry parse_die le stream size st (cu_offset u) die_ofs) as [st1 a].
      cbn [fst snd] in *. rewrite Ha. auto.
  Qed.

  (* ---- failed lookups.  An offset-exact lookup (get_CU_at, get_DIE_from_lut_entry) whose offset is outside the
     section, or at which the unit header parse of a fresh object raises, fails the same way in every state
     and leaves the state as it was: _cached_CU_at_offset parses BEFORE it inserts into the parallel lists *)
  Definition expected_answer (o : di_op) : di_answer D :=
    if valid_op cus o then answer_spec parse_die cus size o
    else snd (di_step parse_die le stream size di_init o).

  Lemma get_CU_at_failing c off : bcache_inv (parse_CU_at_offset le stream) c ->
    offset_fails le stream size off = true ->
    exists e, get_CU_at le stream size c off = (c, Err e) /\
              get_CU_at le stream size ([], []) off = (([], []), Err e).
  Proof.
    intros Hb Hf. unfold offset_fails, in_section in Hf. unfold get_CU_at.
    destruct (negb ((0 <=? off) && (off <? size))) eqn:Hs; [exists EDwarf; auto|].
    cbn [orb] in Hf. destruct (parse_CU_at_offset le stream off) as [v|e] eqn:Hp; [discriminate|].
    exists e. unfold cached_CU_at_offset. cbv beta iota. split.
    - pose proof (bcache_get_spec (parse_CU_at_offset le stream) c off Hb) as (Hsnd & _ & _).
      rewrite Hp in Hsnd. pose proof (bcache_get_err_state (parse_CU_at_offset le stream) c off e Hsnd) as Hfst.
      destruct (bcache_get (parse_CU_at_offset le stream) c off) as [c1 r]. cbn [fst snd] in *. congruence.
    - pose proof (bcache_get_spec (parse_CU_at_offset le stream) ([], []) off (bcache_inv_empty _)) as (Hsnd & _ & _).
      rewrite Hp in Hsnd. pose proof (bcache_get_err_state (parse_CU_at_offset le stream) ([], []) off e Hsnd) as Hfst.
      destruct (bcache_get (parse_CU_at_offset le stream) ([], []) off) as [c1 r]. cbn [fst snd] in Hsnd, Hfst.
      rewrite Hsnd, Hfst. reflexivity.
  Qed.

  Theorem di_step_failing st o : st_inv st -> lookup_fails le stream size o = true ->
    di_step parse_die le stream size st o = (st, snd (di_step parse_die le stream size di_init o)).
  Proof.
    intros [[Hb _] _] Hf. destruct st as [c dies]. cbn [st_cus] in Hb.
    destruct o as [r|off|off d]; cbn [lookup_fails] in Hf; [discriminate| |].
    - destruct (get_CU_at_failing c off Hb Hf) as (e & E1 & E2).
      cbn [di_step st_cus st_dies di_init]. rewrite E1, E2. reflexivity.
    - destruct (get_CU_at_failing c off Hb Hf) as (e & E1 & E2).
      cbn [di_step]. unfold get_DIE_from_lut_entry. cbn [st_cus st_dies di_init]. rewrite E1, E2. reflexivity.
  Qed.

  (* histories in which failed lookups stand between valid ones: the valid ones are answered by the stateless
     spec, the failed ones as a fresh object answers them *)
  Theorem di_run_spec_failures : forall h st, st_inv st ->
    forallb (fun o => valid_op cus o || lookup_fails le stream size o) h = true ->
    snd (di_run parse_die le stream size st h) = map expected_answer h /\
    st_inv (fst (di_run parse_die le stream size st h)).
  Proof.
    induction h as [|o r IH]; intros st Hinv Hv; cbn [di_run map]; [auto|].
    cbn [forallb] in Hv. apply andb_prop in Hv. destruct Hv as [Ho Hr].
    unfold expected_answer at 1.
    destruct (valid_op cus o) eqn:Hvo.
    - destruct (di_step_spec st o Hinv Hvo) as [Ha Hi].
      destruct (di_step parse_die le stream size st o) as [st1 a]. cbn [fst snd] in *.
      destruct (IH st1 Hi Hr) as [Hl Hi2].
      destruct (di_run parse_die le stream size st1 r) as [st2 l]. cbn [fst snd] in *.
      rewrite Ha, Hl. auto.
    - cbn [orb] in Ho. rewrite (di_step_failing st o Hinv Ho).
      destruct (IH st Hinv Hr) as [Hl Hi2].
      destruct (di_run parse_die le stream size st r) as [st2 l]. cbn [fst snd] in *.
      rewrite Hl. auto.
  Qed.

  (* ... lifted over every finite history of valid queries *)
  Theorem di_run_spec : forall h st, st_inv st -> forallb (valid_op cus) h = true ->
    snd (di_run parse_die le stream size st h) = map (answer_spec parse_die cus size) h /\
    st_inv (fst (di_run parse_die le stream size st h)).
  Proof.
    induction h as [|o r IH]; intros st Hinv Hv; cbn [di_run map]; [auto|].
    cbn [forallb] in Hv. apply andb_prop in Hv. destruct Hv as [Ho Hr].
    destruct (di_step_spec st o Hinv Ho) as [Ha Hi].
    destruct (di_step parse_die le stream size st o) as [st1 a]. cbn [fst snd] in *.
    destruct (IH st1 Hi Hr) as [Hl Hi2].
    destruct (di_run parse_die le stream size st1 r) as [st2 l]. cbn [fst snd] in *.
    rewrite Ha, Hl. auto.
  Qed.
End History.

(* ------------------------------------------------------------------ on the bytes *)
Section OnBytes.
  Variables (le : bool) (us : list unit_spec).
  Hypothesis Hwf : wf_units us = true.
  Let stream := encode_units le us.
  Let size := zlen (encode_units le us).
  Let cus := section_units us.

  Lemma section_tiles : tiling 0 cus size.
  Proof.
    unfold cus, size, section_units. rewrite zlen_encode_units.
    pose proof (units_from_tiling us 0 Hwf) as H. rewrite Z.add_0_l in H. exact H.
  Qed.

  Lemma section_parses : forall c, In c cus -> parse_CU_at_offset le stream (cu_offset c) = Ok c.
  Proof.
    intros c Hc. pose proof (units_from_parse le us [] Hwf c) as H. cbn [app] in H.
    rewrite zlen_nil in H. apply H. exact Hc.
  Qed.
End OnBytes.

(* every state reachable from a fresh object by valid queries answers every further valid
   history with the stateless spec *)
Theorem units_history_exact {D} (parse_die : cu -> Z -> res D) le us h1 h2 :
  wf_units us = true ->
  forallb (valid_op (section_units us)) h1 = true ->
  forallb (valid_op (section_units us)) h2 = true ->
  let stream := encode_units le us in
  let size := zlen stream in
  let st := fst (di_run parse_die le stream size di_init h1) in
  snd (di_run parse_die le stream size st h2) =
  map (answer_spec parse_die (section_units us) size) h2.
Proof.
  intros Hwf Hv1 Hv2 stream size st.
  pose proof (section_tiles le us Hwf) as Ht. pose proof (section_parses le us Hwf) as Hp.
  destruct (di_run_spec le stream size (section_units us) Ht Hp parse_die h1 di_init
              (st_inv_init le stream (section_units us) parse_die) Hv1) as [_ Hi].
  apply (di_run_spec le stream size (section_units us) Ht Hp parse_die h2 st Hi Hv2).
Qed.

(* ... also when lookups that fail (offset outside the section, or a unit header parse that raises on a fresh
   object) stand anywhere in the history: they fail as on a fresh object and change nothing *)
Theorem units_history_with_failures {D} (parse_die : cu -> Z -> res D) le us h1 h2 :
  wf_units us = true ->
  let stream := encode_units le us in
  let size := zlen stream in
  let cus := section_units us in
  let ok := fun o => valid_op cus o || lookup_fails le stream size o in
  forallb ok h1 = true -> forallb ok h2 = true ->
  let st := fst (di_run parse_die le stream size di_init h1) in
  snd (di_run parse_die le stream size st h2) =
  map (fun o => if valid_op cus o then answer_spec parse_die cus size o
                else snd (di_step parse_die le stream size di_init o)) h2.
Proof.
  intros Hwf stream size cus ok Hv1 Hv2 st.
  pose proof (section_tiles le us Hwf) as Ht. pose proof (section_parses le us Hwf) as Hp.
  destruct (di_run_spec_failures le stream size cus Ht Hp parse_die h1 di_init
              (st_inv_init le stream cus parse_die) Hv1) as [_ Hi].
  apply (di_run_spec_failures le stream size cus Ht Hp parse_die h2 st Hi Hv2).
Qed.

Theorem unit_containing_exact {D} (parse_die : cu -> Z -> res D) le us h r :
  wf_units us = true -> forallb (valid_op (section_units us)) h = true ->
  let stream := encode_units le us in
  let size := zlen stream in
  let st := fst (di_run parse_die le stream size di_init h) in
  0 <= r < size ->
  exists u, In u (section_units us) /\ cu_contains u r = true /\
            snd (get_CU_containing le stream size (st_cus st) r) = Ok u.
Proof.
  intros Hwf Hv stream size st Hr.
  pose proof (section_tiles le us Hwf) as Ht. pose proof (section_parses le us Hwf) as Hp.
  destruct (di_run_spec le stream size (section_units us) Ht Hp parse_die h di_init
              (st_inv_init le stream (section_units us) parse_die) Hv) as [_ [Hc _]].
  destruct (unit_containing le stream size (section_units us) Ht Hp (st_cus st) r Hc Hr) as (u & Hs & Ha & _).
  exists u. unfold containing_spec in Hs. apply find_some in Hs. destruct Hs as [Hin Hcon]. auto.
Qed.

Theorem unit_at_exact_bytes {D} (parse_die : cu -> Z -> res D) le us h u :
  wf_units us = true -> forallb (valid_op (section_units us)) h = true ->
  let stream := encode_units le us in
  let size := zlen stream in
  let st := fst (di_run parse_die le stream size di_init h) in
  In u (section_units us) ->
  snd (get_CU_at le stream size (st_cus st) (cu_offset u)) = Ok u.
Proof.
  intros Hwf Hv stream size st Hu.
  pose proof (section_tiles le us Hwf) as Ht. pose proof (section_parses le us Hwf) as Hp.
  destruct (di_run_spec le stream size (section_units us) Ht Hp parse_die h di_init
              (st_inv_init le stream (section_units us) parse_die) Hv) as [_ [Hc _]].
  apply (unit_at_exact le stream size (section_units us) Ht Hp (st_cus st) u Hc Hu).
Qed.

Theorem die_from_lut_bytes {D} (parse_die : cu -> Z -> res D) le us h u d :
  wf_units us = true -> forallb (valid_op (section_units us)) h = true ->
  let stream := encode_units le us in
  let size := zlen stream in
  let st := fst (di_run parse_die le stream size di_init h) in
  In u (section_units us) ->
  snd (get_DIE_from_lut_entry parse_die le stream size st (cu_offset u) d) =
  die_spec parse_die (section_units us) size (cu_offset u) d.
Proof.
  intros Hwf Hv stream size st Hu.
  pose proof (section_tiles le us Hwf) as Ht. pose proof (section_parses le us Hwf) as Hp.
  destruct (di_run_spec le stream size (section_units us) Ht Hp parse_die h di_init
              (st_inv_init le stream (section_units us) parse_die) Hv) as [_ Hi].
  apply (die_from_lut le stream size (section_units us) Ht Hp parse_die st u d Hi Hu).
Qed.

(* the units of a well-formed section partition it: the containing unit is unique *)
Theorem containing_unique us r u v :
  wf_units us = true -> In u (section_units us) -> In v (section_units us) ->
  cu_contains u r = true -> cu_contains v r = true -> u = v.
Proof.
  intros Hwf Hu Hv Cu Cv.
  pose proof (section_tiles true us Hwf) as Ht.
  destruct (tiling_split _ _ _ u Ht Hu) as (p & s & E & Htu & Hpre).
  rewrite E in Hv. apply in_app_or in Hv. destruct Hv as [Hv|[Hv|Hv]]; [| auto |].
  - specialize (Hpre v Hv). unfold cu_contains in *. lia.
  - cbn [tiling] in Htu. destruct Htu as (_ & _ & Hts).
    pose proof (tiling_bounds _ _ _ v Hts Hv). unfold cu_contains in *. lia.
Qed.
