(* Proofs/C11Examples.v — concrete files used by the non-vacuity Examples of Props/C11.v
   (definitions only).  The zlib oracle is instantiated with the stored codec. *)
From PV Require Import Base.Bytes Spec.C11Container.
Open Scope list_scope.
Open Scope Z_scope.

Definition ex_info : list Z := [11; 0; 0; 0; 4; 0; 0; 0; 0; 0; 8; 1; 0; 0; 0].
Definition ex_abbrev : list Z := [1; 17; 0; 0; 0; 0].
Definition ex_rela : list Z := [6; 0; 0; 0; 0; 0; 0; 0; 10; 0; 0; 0; 2; 0; 0; 0; 0; 0; 0; 0; 0; 0; 0; 0].
Definition ex_junk : list Z := [165; 90].

(* a relocatable ELF64 little-endian x86-64 file: two .debug_info sections (the later
   one shadows), .debug_abbrev, .rela.debug_info, .eh_frame; every section is followed
   by junk (what comes next in the file) *)
Definition ex_elf : elf :=
  mkElf true true 62 0
    [ mkSec (ascii_bytes ".text") 1 6 0 64 2 0 0 ([144; 195] ++ ex_junk);
      mkSec (ascii_bytes ".debug_info") 1 0 0 66 3 0 0 ([9; 9; 9] ++ ex_junk);
      mkSec (ascii_bytes ".debug_info") 1 0 0 70 15 0 0 (ex_info ++ ex_junk);
      mkSec (ascii_bytes ".debug_abbrev") 1 0 0 90 6 0 0 (ex_abbrev ++ ex_junk);
      mkSec (ascii_bytes ".rela.debug_info") 4 64 0 100 24 6 2 (ex_rela ++ ex_junk);
      mkSec (ascii_bytes ".eh_frame") 1 2 4096 130 4 0 0 ([0; 0; 0; 0] ++ ex_junk) ].

(* gABI: sections 2 and 3 re-encoded (reserved word, alignment, offset, tail all arbitrary) *)
Definition ex_gabi_choice (i : nat) : option gabi_args :=
  match i with
  | 2%nat => Some (mkGabi 3735928559 8 4096 ex_info [1; 2; 3])
  | 3%nat => Some (mkGabi 0 1 8192 ex_abbrev [])
  | _ => None
  end.

(* legacy: BOTH sections called .debug_info (the choice is per name) *)
Definition ex_zgnu_choice (i : nat) : option zgnu_args :=
  match i with
  | 1%nat => Some (mkZgnu 4096 [9; 9; 9] [7])
  | 2%nat => Some (mkZgnu 5000 ex_info [])
  | _ => None
  end.
(* a choice that is NOT per name (only the later .debug_info) *)
Definition ex_zgnu_bad_choice (i : nat) : option zgnu_args :=
  match i with
  | 2%nat => Some (mkZgnu 5000 ex_info [])
  | _ => None
  end.

(* the stripped file and its debug file *)
Definition ex_stripped : elf :=
  mkElf true true 62 0
    [ mkSec (ascii_bytes ".text") 1 6 0 64 2 0 0 ([144; 195] ++ ex_junk);
      mkSec (ascii_bytes ".eh_frame") 1 2 4096 130 4 0 0 ([0; 0; 0; 0] ++ ex_junk) ].
Definition ex_dbg_bytes : list Z := [127; 69; 76; 70; 1; 2; 3].
Definition ex_dbg_name : list Z := ascii_bytes "a/x.debug".
Definition ex_load (n : list Z) : option (list Z) :=
  if bytes_eqb n ex_dbg_name then Some ex_dbg_bytes else None.
Definition ex_parse (b : list Z) : option elf :=
  if bytes_eqb b ex_dbg_bytes then Some ex_elf else None.
Definition ex_crc : Z := crc32_poly ex_dbg_bytes.
Definition ex_pad : list Z := [0; 0].          (* 3 - 9 mod 4 *)
Definition ex_id : list Z := [1;2;3;4;5;6;7;8;9;10;11;12;13;14;15;16;17;18;19;20].

(* two hops: ex_stripped --.gnu_debuglink--> a debug file (ex_elf + .gnu_debugaltlink) --> a supplementary file *)
Definition ex2_sup_name : list Z := ascii_bytes "s.sup".
Definition ex2_sup_bytes : list Z := [127; 69; 76; 70; 9].
Definition ex2_dbg_bytes : list Z := [127; 69; 76; 70; 2].
Definition ex2_dbg_elf : elf :=
  add_section (link_section n_debugaltlink (altlink_body ex2_sup_name (ex_id ++ [])) 300 []) ex_elf.
Definition ex2_load (n : list Z) : option (list Z) :=
  if bytes_eqb n ex_dbg_name then Some ex2_dbg_bytes
  else if bytes_eqb n ex2_sup_name then Some ex2_sup_bytes else None.
Definition ex2_parse (b : list Z) : option elf :=
  if bytes_eqb b ex2_dbg_bytes then Some ex2_dbg_elf
  else if bytes_eqb b ex2_sup_bytes then Some ex_elf else None.
Definition ex2_crc : Z := crc32_poly ex2_dbg_bytes.
