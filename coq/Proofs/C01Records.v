(* Proofs/C01Records.v — C01, part 1: the three header records are decoded in place.
   Constants of the model taken from Gen, construct's Enum adapter applied to the
   gABI records, a record of a table read at  start + i * entsize. *)
From Coq Require Import String.
From PV Require Import Base.Bytes Base.Outcome Base.Prim Base.Fmt Base.Enum Base.PyData.
From PV Require Import Proofs.FmtProofs Proofs.PrimProofs Proofs.ElfLayoutFacts.
From PV Require Import Gen.ElfLayouts Gen.Tables.
From PV Require Import Spec.PrimSpec Spec.ElfGabi Spec.C01Obs Spec.C01Image Model.C01ElfFile Proofs.C01Lemmas.
From Coq Require Import ZifyBool.
Ltac Zify.zify_post_hook ::= Z.to_euclidean_division_equations.
Open Scope string_scope.
Open Scope list_scope.
Open Scope Z_scope.

(* ------------------------------------------------------------------ constants read from Gen *)
Lemma SHN_XINDEX_val : SHN_XINDEX = 65535. Proof. vm_compute. reflexivity. Qed.
Lemma SHF_COMPRESSED_val : SHF_COMPRESSED = 2048. Proof. vm_compute. reflexivity. Qed.
Lemma SEEK_LIMIT_val : SEEK_LIMIT = FILE_LIMIT. Proof. reflexivity. Qed.

Lemma sizeof_Shdr le is64 : sizeof (gen_Elf_Shdr le is64) = if is64 then 64 else 40.
Proof. destruct le, is64; reflexivity. Qed.
Lemma sizeof_Phdr le is64 : sizeof (gen_Elf_Phdr le is64) = if is64 then 56 else 32.
Proof. destruct le, is64; reflexivity. Qed.
Lemma sizeof_Relr le is64 : sizeof (gen_Elf_Relr le is64) = if is64 then 8 else 4.
Proof. destruct le, is64; reflexivity. Qed.
Lemma sizeof_Rel le is64 : sizeof (gen_Elf_Rel le is64) = if is64 then 16 else 8.
Proof. destruct le, is64; reflexivity. Qed.
Lemma sizeof_Rela le is64 : sizeof (gen_Elf_Rela le is64) = if is64 then 24 else 12.
Proof. destruct le, is64; reflexivity. Qed.
Lemma sizeof_Rel_mips64 le : sizeof (gen_Elf_Rel_mips64 le) = 16.
Proof. destruct le; reflexivity. Qed.
Lemma sizeof_Rela_mips64 le : sizeof (gen_Elf_Rela_mips64 le) = 24.
Proof. destruct le; reflexivity. Qed.

Lemma nonstrict_chdr is64 : nonstrict (pick is64 gen_binds_Elf_Chdr_32 gen_binds_Elf_Chdr_64) = true.
Proof. destruct is64; reflexivity. Qed.

(* ------------------------------------------------------------------ Enum adapter on the gABI records *)
Lemma class_lookup (is64 : bool) :
  enum_lookup (table_of_id "E000_EI_CLASS") true (if is64 then 2 else 1)
  = Some (HName (if is64 then "ELFCLASS64" else "ELFCLASS32")).
Proof. destruct is64; vm_compute; reflexivity. Qed.
Lemma data_lookup (le : bool) :
  enum_lookup (table_of_id "E001_EI_DATA") true (if le then 1 else 2)
  = Some (HName (if le then "ELFDATA2LSB" else "ELFDATA2MSB")).
Proof. destruct le; vm_compute; reflexivity. Qed.

Lemma adapt_ehdr s :
  adapt (pick (i_is64 s) gen_binds_Elf_Ehdr_32 gen_binds_Elf_Ehdr_64)
        (annot_layout (L_ehdr s) (ehdr_vals s)) = Some (exp_ehdr s).
Proof.
  destruct s as [is64 le e secs segs k]. destruct e.
  destruct le, is64; cbv -[enum_lookup table_of_id named];
    rewrite ?enum_lookup_nonstrict;
    try rewrite (class_lookup true); try rewrite (class_lookup false);
    try rewrite (data_lookup true); try rewrite (data_lookup false); reflexivity.
Qed.

Definition shdr_rec (tbl : list (Z * string)) (h : shdr_spec) : hrec :=
  [ ("sh_name", HZ (sh_name h)); ("sh_type", named tbl (sh_type h));
    ("sh_flags", HZ (sh_flags h)); ("sh_addr", HZ (sh_addr h)); ("sh_offset", HZ (sh_offset h));
    ("sh_size", HZ (sh_size h)); ("sh_link", HZ (sh_link h)); ("sh_info", HZ (sh_info h));
    ("sh_addralign", HZ (sh_addralign h)); ("sh_entsize", HZ (sh_entsize h)) ].

Lemma adapt_shdr id h le is64 :
  adapt [("sh_type", id, false)] (annot_layout (spec_Elf_Shdr le is64) (shdr_vals h))
  = Some (shdr_rec (table_of_id id) h).
Proof.
  destruct h. destruct le, is64; cbv -[enum_lookup table_of_id named];
    rewrite enum_lookup_nonstrict; reflexivity.
Qed.

Definition phdr_rec (is64 : bool) (tbl : list (Z * string)) (p : phdr_spec) : hrec :=
  if is64 then
    [ ("p_type", named tbl (p_type p)); ("p_flags", HZ (p_flags p));
      ("p_offset", HZ (p_offset p)); ("p_vaddr", HZ (p_vaddr p)); ("p_paddr", HZ (p_paddr p));
      ("p_filesz", HZ (p_filesz p)); ("p_memsz", HZ (p_memsz p)); ("p_align", HZ (p_align p)) ]
  else
    [ ("p_type", named tbl (p_type p)); ("p_offset", HZ (p_offset p));
      ("p_vaddr", HZ (p_vaddr p)); ("p_paddr", HZ (p_paddr p)); ("p_filesz", HZ (p_filesz p));
      ("p_memsz", HZ (p_memsz p)); ("p_flags", HZ (p_flags p)); ("p_align", HZ (p_align p)) ].

Lemma adapt_phdr id p le is64 :
  adapt [("p_type", id, false)] (annot_layout (spec_Elf_Phdr le is64) (phdr_vals is64 p))
  = Some (phdr_rec is64 (table_of_id id) p).
Proof.
  destruct p. destruct le, is64; cbv -[enum_lookup table_of_id named];
    rewrite enum_lookup_nonstrict; reflexivity.
Qed.

Lemma rebind_shdr is64 id :
  rebind (pick is64 gen_binds_Elf_Shdr_32 gen_binds_Elf_Shdr_64) "sh_type" id = [("sh_type", id, false)].
Proof. destruct is64; reflexivity. Qed.
Lemma rebind_phdr is64 id :
  rebind (pick is64 gen_binds_Elf_Phdr_32 gen_binds_Elf_Phdr_64) "p_type" id = [("p_type", id, false)].
Proof. destruct is64; reflexivity. Qed.

(* ------------------------------------------------------------------ a record of a table, in place *)
Lemma table_entry img off stride recs i r :
  0 <= off -> 0 <= stride -> 0 <= i ->
  table_at (drop off img) (Z.to_nat stride) recs = true ->
  nth_error recs (Z.to_nat i) = Some r ->
  exists t, skipn (Z.to_nat (off + i * stride)) img = r ++ t.
Proof.
  intros Ho Hs Hi Ht Hn. destruct (table_at_nth _ _ _ _ _ Ht Hn) as [t Hsk].
  exists t. rewrite drop_skipn, skipn_skipn' in Hsk.
  replace (Z.to_nat (off + i * stride)) with (Z.to_nat off + Z.to_nat i * Z.to_nat stride)%nat by nia.
  exact Hsk.
Qed.

(* a nonempty record read at [pos] starts inside the stream *)
Lemma record_inside img pos (r t : list Z) :
  0 <= pos -> skipn (Z.to_nat pos) img = r ++ t -> r <> [] -> pos < zlen img.
Proof.
  intros Hp Hs Hr. pose proof (skipn_nonempty_lt _ _ _ _ Hs Hr) as H. unfold zlen. lia.
Qed.

Lemma encode_layout_nonempty L vals sz :
  fits_layout L vals = true -> layout_size L = Some (S sz) -> encode_layout L vals <> [].
Proof.
  intros Hf Hs E. pose proof (encode_fields_length L [] vals (S sz) Hf Hs) as Hl.
  unfold encode_layout in E. rewrite E in Hl. discriminate.
Qed.
