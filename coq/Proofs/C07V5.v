(* Proofs/C07V5.v — .debug_loclists / .debug_rnglists lists.  The model's entry parser is driven by
   tables (enum, Switch cases, terminator predicate, entry_length, entry_translate).  The lemmas
   here hold for ANY tables satisfying [tables_ok] (what the standard's Table 7.10 / 7.30 require
   of them); Proofs/C07Tables.v shows that the tables regenerated from the code satisfy it. *)
From Coq Require Import String.
From PV Require Import Base.Bytes Base.Outcome Base.Prim Base.Enum Spec.PrimSpec Proofs.PrimProofs
  Model.C07Kinds Model.C07Lists Spec.C07Lists Proofs.C07V4.
From Coq Require Import ZArith List Bool Lia ZifyBool.
Import ListNotations.
Open Scope string_scope.
Open Scope list_scope.
Open Scope Z_scope.

(* ------------------------------------------------------------------ ULEB128 operands: all valid encodings *)
Lemma uleb_pad_zero_valid k : uleb_valid (uleb_pad_zero k) 0.
Proof.
  induction k as [|k IH]; cbn [uleb_pad_zero].
  - constructor. lia.
  - change 0 with ((128 - 128) + 128 * 0). constructor; [lia | exact IH].
Qed.

Lemma uleb_valid_nonempty bs v : uleb_valid bs v -> bs <> [].
Proof. intros H. destruct H; discriminate. Qed.

Lemma uleb_pad_valid bs v n : uleb_valid bs v -> uleb_valid (uleb_pad bs n) v.
Proof.
  intros H. induction H as [b Hb | b r v Hb Hr IH].
  - cbn [uleb_pad]. destruct n as [|k]; [constructor; exact Hb|].
    replace b with ((b + 128 - 128) + 128 * 0) at 2 by lia.
    constructor; [lia | apply uleb_pad_zero_valid].
  - cbn [uleb_pad]. destruct r as [|c r']; [exfalso; eapply uleb_valid_nonempty; eauto|].
    constructor; [exact Hb | exact IH].
Qed.

Lemma uleb_operand u t : wf_uleb u = true -> uleb_decode (enc_uleb u ++ t) = Some (fst u, t).
Proof.
  intros H. unfold wf_uleb in H. apply uleb_decode_valid. unfold enc_uleb.
  apply uleb_pad_valid. apply uleb_encode_valid. lia.
Qed.

Lemma counted_operand c t : block_decode uleb_decode (enc_counted c ++ t) = Some (snd c, t).
Proof.
  unfold enc_counted. rewrite <- app_assoc. apply block_decode_valid.
  intros t'. rewrite uleb_operand; [reflexivity|]. unfold wf_uleb. cbn [fst]. pose proof (zlen_nonneg (snd c)). lia.
Qed.

Lemma parse_operand_valid le asz v t :
  wf_opval asz v = true ->
  parse_operand le asz (opval_kind v) (enc_opval le asz v ++ t) = Some (opval_fval v, t).
Proof.
  intros H. destruct v as [u | a | c]; cbn [wf_opval opval_kind enc_opval parse_operand opval_fval] in *.
  - rewrite uleb_operand by exact H. reflexivity.
  - rewrite uint_addr by exact H. reflexivity.
  - rewrite counted_operand. reflexivity.
Qed.

Definition op_kinds (ops : named_ops) : operands := map (fun o => (fst o, opval_kind (snd o))) ops.
Definition op_fields (ops : named_ops) : container := map (fun o => (fst o, opval_fval (snd o))) ops.
Definition wf_ops (asz : nat) (ops : named_ops) : bool := forallb (fun o => wf_opval asz (snd o)) ops.

Lemma parse_operands_valid le asz ops t :
  wf_ops asz ops = true ->
  parse_operands le asz (op_kinds ops) (concat (map (fun o => enc_opval le asz (snd o)) ops) ++ t)
  = Some (op_fields ops, t).
Proof.
  induction ops as [|[n v] r IH]; intros H; cbn [op_kinds op_fields map concat app parse_operands].
  - reflexivity.
  - cbn [wf_ops forallb snd] in H. apply andb_prop in H. destruct H as [Hv Hr].
    cbn [fst snd]. rewrite <- app_assoc, parse_operand_valid by exact Hv.
    fold (op_kinds r). rewrite IH by exact Hr. reflexivity.
Qed.

(* ------------------------------------------------------------------ what the proofs need of the tables *)
Definition frame_name (n : string) : bool :=
  existsb (String.eqb n) ["entry_offset"; "entry_type"; "entry_end_offset"; "entry_length"].

Record tables_ok {A : Type} (T : entry_tables) (code : A -> Z) (name : A -> string)
    (ops : A -> named_ops) (end_name : string) : Prop := {
  ok_enum : forall x, enum_decode (et_enum T) DefRaise (code x) = Name (name x);
  ok_switch : forall x, assoc (et_switch T) (name x) = Some (op_kinds (ops x));
  ok_frame : forall x, forallb (fun o => negb (frame_name (fst o))) (ops x) = true;
  ok_not_term : forall x, existsb (String.eqb (name x)) (et_terminators T) = false;
  ok_end_enum : enum_decode (et_enum T) DefRaise 0 = Name end_name;
  ok_end_switch : assoc (et_switch T) end_name = Some [];
  ok_end_term : existsb (String.eqb end_name) (et_terminators T) = true;
  ok_length : forall c off e,
      cget c "entry_offset" = Some (FInt off) -> cget c "entry_end_offset" = Some (FInt e) ->
      eval_texpr no_addr c (et_length T) = Ok (FInt (e - off)) }.

Lemma uint_byte le c t : uint_decode le 1 (c :: t) = Some (c, t).
Proof.
  change (c :: t) with ([c] ++ t). change 1%nat with (length [c]).
  rewrite uint_decode_any. f_equal. f_equal.
  destruct le; cbn [int_decode le_decode be_decode rev app]; lia.
Qed.

Lemma assoc_app_notin {A} (l1 l2 : list (string * A)) k :
  assoc l1 k = None -> assoc (l1 ++ l2) k = assoc l2 k.
Proof.
  induction l1 as [|[k' v] r IH]; cbn [assoc app]; auto.
  destruct (String.eqb k' k); [discriminate | exact IH].
Qed.

Lemma op_fields_frame_free ops k :
  forallb (fun o => negb (frame_name (fst o))) ops = true -> frame_name k = true ->
  assoc (op_fields ops) k = None.
Proof.
  intros H Hk. induction ops as [|[n v] r IH]; cbn [op_fields map assoc fst snd]; auto.
  cbn [forallb fst] in H. apply andb_prop in H. destruct H as [Hn Hr].
  destruct (String.eqb_spec n k) as [->|Hne].
  - rewrite Hk in Hn. discriminate.
  - apply IH. exact Hr.
Qed.

Section Entries.
  Context {A : Type} (T : entry_tables) (code : A -> Z) (name : A -> string)
          (ops : A -> named_ops) (end_name : string).
  Hypothesis OK : tables_ok T code name ops end_name.
  Variables (le : bool) (asz : nat).

  Definition enc1 (x : A) : list Z := enc_entry le asz (code x) (ops x).
  Definition raw1 (off len : Z) (x : A) : container := raw_entry off len (name x) (ops x).

  Lemma parse_entry_valid x t pos :
    wf_ops asz (ops x) = true ->
    parse_entry le asz T (enc1 x ++ t) pos = Ok (raw1 pos (zlen (enc1 x)) x, t).
  Proof.
    intros Hwf. unfold enc1, enc_entry, parse_entry. cbn [app].
    rewrite uint_byte, (ok_enum _ _ _ _ _ OK), (ok_switch _ _ _ _ _ OK).
    rewrite parse_operands_valid by exact Hwf.
    set (body := concat (map (fun o => enc_opval le asz (snd o)) (ops x))).
    replace (zlen (code x :: body ++ t) - zlen t) with (zlen (code x :: body))
      by (rewrite !zlen_cons, zlen_app; lia).
    set (len := zlen (code x :: body)).
    set (c := ("entry_offset", FInt pos) :: ("entry_type", FStr (name x))
              :: op_fields (ops x) ++ [("entry_end_offset", FInt (pos + len))]).
    assert (Hoff : cget c "entry_offset" = Some (FInt pos)) by reflexivity.
    assert (Hend : cget c "entry_end_offset" = Some (FInt (pos + len))).
    { unfold c, cget. cbn [assoc String.eqb Ascii.eqb Bool.eqb].
      rewrite assoc_app_notin; [cbn [assoc]; rewrite String.eqb_refl; reflexivity|].
      apply op_fields_frame_free; [apply (ok_frame _ _ _ _ _ OK) | reflexivity]. }
    rewrite (ok_length _ _ _ _ _ OK c pos (pos + len) Hoff Hend). cbn [bind].
    unfold raw1, raw_entry, c. fold (op_fields (ops x)). cbn [app]. rewrite <- app_assoc. cbn [app].
    replace (pos + len - pos) with len by lia. reflexivity.
  Qed.

  Lemma raw1_type off len x : cget (raw1 off len x) "entry_type" = Some (FStr (name x)).
  Proof. reflexivity. Qed.

  Lemma raw1_not_terminator off len x : is_terminator T (raw1 off len x) = false.
  Proof. unfold is_terminator. rewrite raw1_type. apply (ok_not_term _ _ _ _ _ OK). Qed.

  Lemma parse_end_entry t pos :
    exists e, parse_entry le asz T (0 :: t) pos = Ok (e, t) /\ is_terminator T e = true.
  Proof.
    unfold parse_entry. rewrite uint_byte, (ok_end_enum _ _ _ _ _ OK), (ok_end_switch _ _ _ _ _ OK).
    cbn [parse_operands].
    replace (zlen (0 :: t) - zlen t) with 1 by (rewrite zlen_cons; lia).
    set (c := (("entry_offset", FInt pos) :: ("entry_type", FStr end_name) :: [])
              ++ [("entry_end_offset", FInt (pos + 1))]).
    rewrite (ok_length _ _ _ _ _ OK c pos (pos + 1)) by reflexivity. cbn [bind].
    eexists. split; [reflexivity|].
    unfold is_terminator, c. cbn [app cget assoc String.eqb Ascii.eqb Bool.eqb].
    apply (ok_end_term _ _ _ _ _ OK).
  Qed.

  Definition enc_list (l : list A) : list Z := concat (map enc1 l) ++ [0].

  Lemma enc1_pos x : 1 <= zlen (enc1 x).
  Proof. unfold enc1, enc_entry. rewrite zlen_cons. pose proof (zlen_nonneg (concat (map (fun o => enc_opval le asz (snd o)) (ops x)))). lia. Qed.

  Lemma parse_entries_valid : forall l fuel pos t,
    forallb (fun x => wf_ops asz (ops x)) l = true -> (length l < fuel)%nat ->
    parse_entries fuel le asz T (concat (map enc1 l) ++ 0 :: t) pos
    = Ok (layout_raw enc1 raw1 pos l, t).
  Proof.
    induction l as [|x l IH]; intros fuel pos t Hwf Hfuel;
      (destruct fuel as [|f]; [cbn in Hfuel; lia|]).
    - cbn [map concat app parse_entries layout_raw].
      destruct (parse_end_entry t pos) as (e & He & Hterm).
      rewrite He. cbn [bind]. rewrite Hterm. reflexivity.
    - cbn [forallb] in Hwf. apply andb_prop in Hwf. destruct Hwf as [Hx Hl].
      cbn [map concat parse_entries layout_raw]. rewrite <- app_assoc.
      rewrite parse_entry_valid by exact Hx. cbn [bind].
      rewrite raw1_not_terminator.
      replace (pos + (zlen (enc1 x ++ concat (map enc1 l) ++ 0 :: t) - zlen (concat (map enc1 l) ++ 0 :: t)))
        with (pos + zlen (enc1 x)) by (rewrite zlen_app; lia).
      rewrite IH; [reflexivity | exact Hl | cbn [length] in Hfuel; lia].
  Qed.

  Lemma enc_list_length l : (length l < S (length (concat (map enc1 l) ++ [0%Z])))%nat.
  Proof.
    rewrite app_length. cbn [length].
    induction l as [|x l IH]; cbn [map concat length]; [lia|].
    rewrite app_length. pose proof (enc1_pos x) as H. unfold zlen in H. lia.
  Qed.

  (* translation of a whole list, given the translation of each entry *)
  Variable addr : Z -> res Z.
  Variable tupf : Z -> Z -> A -> tup.
  Variable good : A -> bool.
  Hypothesis TR : forall off len x, good x = true -> translate_entry T addr (raw1 off len x) = Ok (tupf off len x).

  Lemma translate_all : forall l pos,
    forallb good l = true ->
    mapM (translate_entry T addr) (layout_raw enc1 raw1 pos l) = Ok (layout_tups enc1 tupf pos l).
  Proof.
    induction l as [|x l IH]; intros pos H; cbn [layout_raw layout_tups mapM]; [reflexivity|].
    cbn [forallb] in H. apply andb_prop in H. destruct H as [Hx Hl].
    rewrite TR by exact Hx. cbn [bind]. rewrite IH by exact Hl. reflexivity.
  Qed.

  Theorem parse_list_v5_valid l pos t :
    forallb (fun x => wf_ops asz (ops x)) l = true -> forallb good l = true ->
    parse_list_v5 le asz T addr (enc_list l ++ t) pos = Ok (layout_tups enc1 tupf pos l, t).
  Proof.
    intros Hwf Hgood. unfold parse_list_v5, enc_list. rewrite <- app_assoc. cbn [app].
    rewrite parse_entries_valid; [| exact Hwf |].
    - cbn [bind]. rewrite translate_all by exact Hgood. reflexivity.
    - pose proof (enc_list_length l) as H. rewrite !app_length in *. cbn [length] in *. lia.
  Qed.
End Entries.

(* ------------------------------------------------------------------ the address table (.debug_addr) *)
Lemma concat_map_split {A} (f : A -> list Z) (l : list A) (i : nat) (d : A) :
  (i < length l)%nat ->
  concat (map f l) = concat (map f (firstn i l)) ++ f (nth i l d) ++ concat (map f (skipn (S i) l)).
Proof.
  revert i. induction l as [|x l IH]; intros i Hi; [cbn in Hi; lia|].
  destruct i as [|i]; cbn [firstn skipn nth map concat app]; [reflexivity|].
  rewrite <- app_assoc. f_equal. apply IH. cbn [length] in Hi. lia.
Qed.

Lemma concat_fixed_length {A} (f : A -> list Z) (w : nat) (l : list A) :
  (forall x, length (f x) = w) -> length (concat (map f l)) = (length l * w)%nat.
Proof.
  intros H. induction l as [|x l IH]; cbn [map concat length]; [reflexivity|].
  rewrite app_length, H, IH. lia.
Qed.

Lemma at_pos_app2 (pre a b : list Z) p :
  p = zlen pre + zlen a -> at_pos (pre ++ a ++ b) p = b.
Proof.
  intros ->. rewrite app_assoc. rewrite <- zlen_app. apply at_pos_app.
Qed.

(* index_resolution: DWARF 5 §7.27 — entry i of the unit's address table is at addr_base + i * address_size *)
Theorem get_addr_valid le asz tbl apre apost cu i :
  cu_addr_base cu = Some (zlen apre) -> cu_asz cu = asz ->
  wf_addr_table asz tbl = true -> 0 <= i < zlen tbl ->
  get_addr le (Some (apre ++ enc_addr_table le asz tbl ++ apost)) (Some cu) i = Ok (addr_at tbl i).
Proof.
  intros Hbase Hasz Hwf Hi. unfold get_addr. rewrite Hbase, Hasz. cbn [get_base_offset bind].
  unfold enc_addr_table.
  assert (Hn : (Z.to_nat i < length tbl)%nat) by (unfold zlen in Hi; lia).
  rewrite (concat_map_split (int_encode le asz) tbl (Z.to_nat i) 0 Hn).
  rewrite <- !app_assoc. rewrite at_pos_app2.
  - unfold wf_addr_table in Hwf. rewrite forallb_forall in Hwf.
    rewrite uint_addr by (apply Hwf; apply nth_In; exact Hn). reflexivity.
  - unfold zlen. rewrite (concat_fixed_length _ asz) by (intros; apply int_encode_length).
    rewrite firstn_length_le by lia. lia.
Qed.
