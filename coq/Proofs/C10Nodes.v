(* Proofs/C10Nodes.v — the entry tree of a unit as a set of nodes: every entry of the flat table is the
   own entry or the closing null entry of exactly one node; children tile the extent between the end of
   their parent entry and the closing null entry. *)
From PV Require Import Spec.C10Spec Proofs.C10Tree.
From Coq Require Import ZArith List Bool Lia ZifyBool.
Import ListNotations.
Open Scope Z_scope.

Definition node_toff (n : node) : Z := match n with Node _ _ _ toff _ => toff end.
Definition node_traw (n : node) : die_raw := match n with Node _ _ _ _ traw => traw end.
Definition own_entry (par : option Z) (n : node) : entry :=
  mk_entry (node_raw n) par (map node_off (node_kids n)) (if dr_hc (node_raw n) then Some (node_toff n) else None).
Definition term_entry (n : node) : entry := mk_entry (node_traw n) (Some (node_off n)) [] None.

Fixpoint subnodes (par : option Z) (n : node) : list (option Z * node) :=
  match n with Node off _ kids _ _ => (par, n) :: flat_map (subnodes (Some off)) kids end.

Lemma flat_unfold par n :
  flat par n = (node_off n, own_entry par n) :: flat_map (flat (Some (node_off n))) (node_kids n)
               ++ (if dr_hc (node_raw n) then [(node_toff n, term_entry n)] else []).
Proof. destruct n; reflexivity. Qed.

Lemma subnodes_unfold par n :
  subnodes par n = (par, n) :: flat_map (subnodes (Some (node_off n))) (node_kids n).
Proof. destruct n; reflexivity. Qed.

Lemma subnodes_self par n : In (par, n) (subnodes par n).
Proof. rewrite subnodes_unfold. left. reflexivity. Qed.

(* entries of a sub-node are entries of the root *)
Lemma subnodes_flat_incl root : forall p0 par n, In (par, n) (subnodes p0 root) -> incl (flat par n) (flat p0 root).
Proof.
  induction root as [off raw kids toff traw IH] using node_ind'. intros p0 par n Hin.
  rewrite subnodes_unfold in Hin. destruct Hin as [E|Hin].
  - inversion E. subst. apply incl_refl.
  - apply in_flat_map in Hin. destruct Hin as (k & Hk & Hin). cbn [node_off node_kids] in *.
    rewrite Forall_forall in IH. specialize (IH k Hk _ _ _ Hin).
    intros x Hx. rewrite flat_unfold. right. apply in_or_app. left. cbn [node_kids node_off].
    apply in_flat_map. exists k. split; [exact Hk|apply IH; exact Hx].
Qed.

Lemma subnodes_trans root : forall p0 par n par' n', In (par, n) (subnodes p0 root) ->
  In (par', n') (subnodes par n) -> In (par', n') (subnodes p0 root).
Proof.
  induction root as [off raw kids toff traw IH] using node_ind'. intros p0 par n par' n' Hin Hin'.
  rewrite subnodes_unfold in Hin. destruct Hin as [E|Hin].
  - inversion E. subst. exact Hin'.
  - apply in_flat_map in Hin. destruct Hin as (k & Hk & Hin). cbn [node_off node_kids] in *.
    rewrite Forall_forall in IH. specialize (IH k Hk _ _ _ _ _ Hin Hin').
    rewrite subnodes_unfold. right. apply in_flat_map. exists k. auto.
Qed.

Lemma subnodes_kid root p0 par n k : In (par, n) (subnodes p0 root) -> In k (node_kids n) ->
  In (Some (node_off n), k) (subnodes p0 root).
Proof.
  intros Hin Hk. eapply subnodes_trans; [exact Hin|].
  rewrite subnodes_unfold. right. apply in_flat_map. exists k. split; [exact Hk|apply subnodes_self].
Qed.

Lemma subnodes_wf u root : forall p0 par n, wf_node u root = true -> In (par, n) (subnodes p0 root) -> wf_node u n = true.
Proof.
  induction root as [off raw kids toff traw IH] using node_ind'. intros p0 par n Hwf Hin.
  rewrite subnodes_unfold in Hin. destruct Hin as [E|Hin].
  - inversion E. subst. exact Hwf.
  - apply in_flat_map in Hin. destruct Hin as (k & Hk & Hin).
    destruct (wf_node_unfold _ _ _ _ _ _ Hwf) as (_ & _ & _ & _ & Hkids).
    rewrite forallb_forall in Hkids. rewrite Forall_forall in IH. eapply IH; eauto.
Qed.

(* every entry is the own entry or the closing null entry of a node *)
Lemma flat_subnode root : forall p0 o e, In (o, e) (flat p0 root) ->
  exists par n, In (par, n) (subnodes p0 root) /\
    ((o = node_off n /\ e = own_entry par n) \/
     (dr_hc (node_raw n) = true /\ o = node_toff n /\ e = term_entry n)).
Proof.
  induction root as [off raw kids toff traw IH] using node_ind'. intros p0 o e Hin.
  rewrite flat_unfold in Hin. cbn [node_off node_kids node_raw node_toff] in Hin.
  destruct Hin as [E|Hin].
  - inversion E as [[Eo Ee]]. exists p0, (Node o raw kids toff traw). split; [apply subnodes_self|]. left. split; reflexivity.
  - apply in_app_or in Hin. destruct Hin as [Hin|Hin].
    + apply in_flat_map in Hin. destruct Hin as (k & Hk & Hin). rewrite Forall_forall in IH.
      destruct (IH k Hk _ _ _ Hin) as (par & n & Hsn & Hcase). exists par, n. split; [|exact Hcase].
      rewrite subnodes_unfold. right. apply in_flat_map. exists k. auto.
    + destruct (dr_hc raw) eqn:Ehc; [|destruct Hin]. destruct Hin as [E|[]]. inversion E as [[Eo Ee]].
      exists p0, (Node off raw kids o traw). split; [apply subnodes_self|]. right. cbn. auto.
Qed.

(* ---- children tile [end of the parent entry, closing null entry) *)
Lemma chain_app pos pre post toff : chain pos (pre ++ post) toff = true ->
  exists mid, chain pos pre mid = true /\ chain mid post toff = true.
Proof.
  revert pos. induction pre as [|k r IH]; intros pos H; cbn [app chain] in *.
  - exists pos. split; [apply Z.eqb_refl|exact H].
  - apply andb_prop in H. destruct H as [H1 H2]. destruct (IH _ H2) as (mid & A & B).
    exists mid. rewrite H1, A. auto.
Qed.

Lemma chain_last pos pre k mid : chain pos (pre ++ [k]) mid = true -> mid = node_end k.
Proof.
  intros H. destruct (chain_app _ _ _ _ H) as (m & _ & B). cbn [chain] in B. lia.
Qed.

(* after the child k come either the next child, starting where k ends, or the closing null entry *)
Lemma chain_after pos pre k post toff : chain pos (pre ++ k :: post) toff = true ->
  chain (node_end k) post toff = true.
Proof.
  intros H. destruct (chain_app _ _ _ _ H) as (m & _ & B). cbn [chain] in B.
  apply andb_prop in B. tauto.
Qed.

Lemma chain_head pos k post toff : chain pos (k :: post) toff = true -> node_off k = pos.
Proof. cbn [chain]. intros H. lia. Qed.

Lemma chain_nil pos toff : chain pos [] toff = true -> pos = toff.
Proof. cbn [chain]. lia. Qed.

(* offsets of children increase *)
Lemma chain_offsets pos kids toff : chain pos kids toff = true ->
  (forall k, In k kids -> node_off k < node_end k) ->
  forall pre k post, kids = pre ++ k :: post ->
    (forall x, In x pre -> node_off x < node_off k) /\ (forall x, In x post -> node_end k <= node_off x).
Proof.
  intros Hc Hpos pre k post E. subst kids. split.
  - destruct (chain_app _ _ _ _ Hc) as (m & A & B). pose proof (chain_head _ _ _ _ B) as Hk.
    destruct (chain_range _ _ _ A) as [_ Hr]; [intros x Hx; apply Hpos; apply in_or_app; auto|].
    intros x Hx. destruct (Hr x Hx). specialize (Hpos x (in_or_app _ _ _ (or_introl Hx))). lia.
  - pose proof (chain_after _ _ _ _ _ Hc) as B.
    destruct (chain_range _ _ _ B) as [_ Hr]; [intros x Hx; apply Hpos; apply in_or_app; right; cbn; auto|].
    intros x Hx. destruct (Hr x Hx). lia.
Qed.

Lemma after_skip c l1 l2 : ~ In c l1 -> after c (l1 ++ c :: l2) = l2.
Proof.
  induction l1 as [|x r IH]; intros H; cbn [app after].
  - rewrite Z.eqb_refl. reflexivity.
  - destruct (Z.eqb_spec x c) as [->|Hne]; [exfalso; apply H; cbn; auto|]. apply IH. intros Hin. apply H. cbn; auto.
Qed.

Section UnitNodes.
  Set Default Proof Using "All".
  Variable F : file.
  Hypothesis WF : wf_file F = true.

  (* facts about the node (par, n) of the unit ud *)
  Lemma node_entries ud par n : wf_unit F ud = true -> In (par, n) (subnodes None (ud_tree ud)) ->
    zassoc (node_off n) (ud_entries ud) = Some (own_entry par n) /\
    (dr_hc (node_raw n) = true -> zassoc (node_toff n) (ud_entries ud) = Some (term_entry n)) /\
    wf_node (ud_off ud) n = true.
  Proof.
    intros Hw Hin. destruct (wf_unit_facts F WF _ Hw) as (Hwn & _ & _ & _ & Hnd & _).
    pose proof (subnodes_flat_incl _ _ _ _ Hin) as Hincl. split; [|split].
    - apply in_zassoc; [exact Hnd|]. apply Hincl. rewrite flat_unfold. left. reflexivity.
    - intros Hhc. apply in_zassoc; [exact Hnd|]. apply Hincl. rewrite flat_unfold. right.
      apply in_or_app. right. rewrite Hhc. left. reflexivity.
    - eapply subnodes_wf; eauto.
  Qed.

  Lemma entry_node ud o e : zassoc o (ud_entries ud) = Some e ->
    exists par n, In (par, n) (subnodes None (ud_tree ud)) /\
      ((o = node_off n /\ e = own_entry par n) \/ (dr_hc (node_raw n) = true /\ o = node_toff n /\ e = term_entry n)).
  Proof. intros H. apply zassoc_in in H. apply flat_subnode. exact H. Qed.

  (* an entry that has children is the own entry of a node *)
  Lemma entry_node_hc ud o e : wf_unit F ud = true -> zassoc o (ud_entries ud) = Some e ->
    dr_hc (en_raw e) = true ->
    exists par n, In (par, n) (subnodes None (ud_tree ud)) /\ o = node_off n /\ e = own_entry par n.
  Proof.
    intros Hw Hz Hhc. destruct (entry_node _ _ _ Hz) as (par & n & Hin & [[A B]|(A & B & C)]); [eauto|].
    exfalso. destruct (node_entries ud par n Hw Hin) as (_ & _ & Hwn).
    destruct n as [off raw kids toff traw]. destruct (wf_node_unfold _ _ _ _ _ _ Hwn) as (_ & _ & Hc & _).
    cbn [node_raw] in A. rewrite A in Hc. destruct Hc as (_ & _ & Hth & _).
    subst e. cbn in Hhc. congruence.
  Qed.

  Lemma node_hc_facts ud par n : wf_unit F ud = true -> In (par, n) (subnodes None (ud_tree ud)) ->
    dr_hc (node_raw n) = true ->
    chain (node_off n + dr_size (node_raw n)) (node_kids n) (node_toff n) = true /\
    dr_null (node_traw n) = true /\ 0 < dr_size (node_traw n) /\
    (forall k, In k (node_kids n) -> node_off k < node_end k) /\
    node_end n = node_toff n + dr_size (node_traw n).
  Proof.
    intros Hw Hin Hhc. destruct (node_entries ud par n Hw Hin) as (_ & _ & Hwn).
    destruct n as [off raw kids toff traw]. cbn [node_raw node_off node_kids node_toff node_traw node_end] in *.
    destruct (wf_node_unfold _ _ _ _ _ _ Hwn) as (_ & _ & Hc & _ & Hk). rewrite Hhc in *.
    destruct Hc as (A & B & C & D). repeat split; auto.
    intros k Hk'. rewrite forallb_forall in Hk. apply (node_extent (ud_off ud) k (Hk k Hk')).
  Qed.

  Lemma kids_of_node ud par n : wf_unit F ud = true -> In (par, n) (subnodes None (ud_tree ud)) ->
    kids_of (ud_entries ud) (node_off n) = map node_off (node_kids n).
  Proof.
    intros Hw Hin. unfold kids_of. destruct (node_entries ud par n Hw Hin) as (-> & _). reflexivity.
  Qed.
End UnitNodes.
