(* Proofs/C11Refine.v — the MODEL of the code (Model/C11Dwarf.v get_dwarf_info) computes
   the SPECIFICATION's debug_view (Spec/C11Container.v): same view when the model
   returns a DWARFInfo, no view when it raises.  Hence every invariance theorem about
   debug_view is a theorem about the model.
   Assumed of the oracle: max_length >= 2^63 is refused (CPython: OverflowError, a C
   ssize_t); of the loader: it returns byte strings. *)
From PV Require Import Base.Bytes Base.Outcome Base.Fmt Base.Prim Gen.ElfLayouts Spec.ElfGabi
  Proofs.ElfLayoutFacts Spec.C11Container Model.C11Elf Model.C11Dwarf
  Proofs.C11Names Proofs.C11Crc Proofs.C11View Proofs.C11Zgnu Proofs.C11Reject.
From Coq Require Import Lia.
Open Scope list_scope.
Open Scope Z_scope.

Definition parse_opt (img : list Z) : option elf :=
  match parse_image img with Ok e => Some e | Err _ => None end.

Definition res_view (r : res dwarfinfo) : option view :=
  match r with Ok di => Some (view_of di) | Err _ => None end.

(* ---------- names ---------- *)
Lemma find_last_nth n : forall l i j s, find_last_from i n l = Some (j, s) ->
  exists k, j = (i + k)%nat /\ nth_error l k = Some s.
Proof.
  induction l as [|x r IH]; intros i j s H; [discriminate|].
  cbn [find_last_from] in H. destruct (find_last_from (S i) n r) as [[j' s']|] eqn:Er.
  - inversion H; subst. destruct (IH (S i) j s Er) as [k [Hk Hn]].
    exists (S k). split; [lia|exact Hn].
  - destruct (bytes_eqb (s_name x) n); [|discriminate]. inversion H; subst.
    exists O. split; [lia|reflexivity].
Qed.

Lemma name_map_find e : forall l i m, name_map_from e i l = Ok m ->
  forall n, map_get m n = option_map fst (find_last_from i n l).
Proof.
  induction l as [|s r IH]; intros i m H n; cbn [name_map_from] in H.
  - inversion H. reflexivity.
  - destruct (make_section e s) as [sc|x]; [|discriminate]. cbn [bind] in H.
    destruct (name_map_from e (S i) r) as [m'|x] eqn:Em; [|discriminate]. cbn [bind] in H.
    inversion H; subst m. cbn [map_get find_last_from]. rewrite (IH (S i) m' Em n).
    destruct (find_last_from (S i) n r) as [[j t]|]; cbn [option_map fst]; [reflexivity|].
    destruct (bytes_eqb (s_name s) n); reflexivity.
Qed.

Lemma constructible_in e s : constructible e = true -> In s (e_secs e) ->
  exists sc, make_section e s = Ok sc.
Proof.
  unfold constructible. rewrite forallb_forall. intros H Hin. specialize (H s Hin).
  destruct (make_section e s) as [sc|x]; [exists sc; reflexivity|discriminate].
Qed.

Lemma get_section_by_name_spec e n : constructible e = true ->
  get_section_by_name e n =
  match sec_named e n with
  | None => Ok None
  | Some s => do sc <- make_section e s; Ok (Some sc)
  end.
Proof.
  intros Hc. unfold get_section_by_name, name_map, sec_named.
  destruct (name_map_ok e (e_secs e) O Hc) as [m [Hm _]]. rewrite Hm. cbn [bind].
  rewrite (name_map_find e _ _ _ Hm n).
  destruct (find_last_from 0 n (e_secs e)) as [[j s]|] eqn:Ef; cbn [option_map fst snd]; [|reflexivity].
  destruct (find_last_nth n _ _ _ _ Ef) as [k [Hk Hn]]. cbn [Nat.add] in Hk. subst j.
  rewrite Hn. reflexivity.
Qed.

Lemma sec_named_in e n s : sec_named e n = Some s -> In s (e_secs e).
Proof.
  unfold sec_named. destruct (find_last_from 0 n (e_secs e)) as [[j t]|] eqn:Ef; [|discriminate].
  cbn [option_map snd]. intros H. inversion H; subst.
  destruct (find_last_nth n _ _ _ _ Ef) as [k [_ Hn]]. apply (nth_error_In _ _ Hn).
Qed.

Section Refine.
Variable inflate : list Z -> Z -> option (list Z * bool).
Hypothesis Hovf : forall d n, 2 ^ 63 <= n -> inflate d n = None.

(* ---------- one section ---------- *)
Lemma section_data_spec e s sc : make_section e s = Ok sc ->
  sc_sec sc = s /\
  match section_data inflate e sc with
  | Ok data => stored_payload inflate (e_le e) (e_is64 e) s = Some (data, sc_dsize sc)
  | Err _ => stored_payload inflate (e_le e) (e_is64 e) s = None
  end.
Proof.
  unfold make_section, section_data, section_data_gen, stored_payload, is_compressed, GABI_EOF_CHECK.
  destruct (negb (Z.land (s_flags s) SHF_COMPRESSED =? 0)) eqn:Ec.
  - rewrite gen_Elf_Chdr_gabi. unfold gabi_payload.
    destruct (decode_layout (spec_Elf_Chdr (e_le e) (e_is64 e)) (s_stream s)) as [[h t]|]; [|discriminate].
    intros H. inversion H; subst sc. cbn [sc_sec sc_compressed sc_ctype sc_dsize]. split; [reflexivity|].
    unfold is_nobits. destruct (s_type s =? SHT_NOBITS); [reflexivity|].
    destruct (rec_z h "ch_type" =? ELFCOMPRESS_ZLIB); [|reflexivity].
    destruct (Z.leb_spec (2 ^ 63) (rec_z h "ch_size")) as [Hbig|Hsmall].
    + rewrite Hovf by exact Hbig. reflexivity.
    + destruct (inflate _ (rec_z h "ch_size")) as [[result eof]|]; [|reflexivity].
      destruct eof; cbn [andb negb]; [|reflexivity].
      destruct (zlen result =? rec_z h "ch_size"); reflexivity.
  - intros H. inversion H; subst sc. cbn [sc_sec sc_compressed sc_ctype sc_dsize]. split; [reflexivity|].
    unfold is_nobits. destruct (s_type s =? SHT_NOBITS); reflexivity.
Qed.

Lemma decompress_spec d :
  match decompress_dwarf_section inflate d with
  | Ok d' => zdebug_payload inflate (ds_stream d) (ds_size d) = Some (ds_stream d', ds_size d') /\
             ds_name d' = ds_name d /\ ds_address d' = ds_address d /\ ds_reloc d' = ds_reloc d
  | Err _ => zdebug_payload inflate (ds_stream d) (ds_size d) = None
  end.
Proof.
  unfold decompress_dwarf_section, zdebug_payload.
  replace (ds_size d <=? 12) with (negb (12 <? ds_size d))
    by (destruct (Z.ltb_spec 12 (ds_size d)), (Z.leb_spec (ds_size d) 12); try reflexivity; lia).
  destruct (negb (12 <? ds_size d)); [reflexivity|].
  destruct (bytes_eqb (firstn 4 (ds_stream d)) ZLIB_MAGIC); cbn [negb]; [|reflexivity].
  destruct (length (firstn 8 (skipn 4 (ds_stream d))) =? 8)%nat; cbn [negb]; [|reflexivity].
  destruct (inflate (skipn 12 (ds_stream d)) 0) as [[out eof]|]; [|reflexivity].
  rewrite (Z.eqb_sym (zlen out)).
  destruct (be_decode (firstn 8 (skipn 4 (ds_stream d))) =? zlen out); cbn [negb]; [|reflexivity].
  cbn [ds_stream ds_size ds_name ds_address ds_reloc]. repeat split; reflexivity.
Qed.

Lemma read_dwarf_section_spec e s sc relocate zdebug : make_section e s = Ok sc ->
  match read_dwarf_section inflate e sc relocate zdebug with
  | Ok d => read_container inflate e relocate zdebug s = Some (desc_of d)
  | Err _ => read_container inflate e relocate zdebug s = None
  end.
Proof.
  intros Hmk. destruct (section_data_spec e s sc Hmk) as [Hs Hdata].
  unfold read_dwarf_section, read_container.
  change (has_phantom_bytes e) with (has_phantom e).
  change (find_relocations_from 0 (s_name (sc_sec sc)) (e_secs e)) with (reloc_index e (s_name (sc_sec sc))).
  destruct (section_data inflate e sc) as [data|x]; rewrite Hdata; [|reflexivity]. cbn [bind].
  rewrite Hs.
  set (d0 := mkDescriptor (s_name s) (s_offset s) (if has_phantom e then evens data else data)
                          (if has_phantom e then sc_dsize sc / 2 else sc_dsize sc) (s_addr s) None).
  destruct zdebug.
  - pose proof (decompress_spec d0) as Hd.
    change (ds_stream d0) with (if has_phantom e then evens data else data) in Hd.
    change (ds_size d0) with (if has_phantom e then sc_dsize sc / 2 else sc_dsize sc) in Hd.
    destruct (decompress_dwarf_section inflate d0) as [d1|x]; [|rewrite Hd; reflexivity].
    destruct Hd as [Hp [Hn [Ha Hr]]]. rewrite Hp. cbn [bind].
    change (ds_address d0) with (s_addr s) in Ha. change (ds_reloc d0) with (@None nat) in Hr.
    destruct relocate.
    + destruct (reloc_index e (s_name s)) as [k|].
      * destruct (has_phantom e); [reflexivity|]. unfold desc_of. cbn [ds_stream ds_size ds_address ds_reloc].
        rewrite Ha. reflexivity.
      * unfold desc_of. rewrite Ha, Hr. reflexivity.
    + unfold desc_of. rewrite Ha, Hr. reflexivity.
  - cbn [bind]. destruct relocate.
    + destruct (reloc_index e (s_name s)) as [k|].
      * destruct (has_phantom e); reflexivity.
      * reflexivity.
    + reflexivity.
Qed.

(* ---------- the slots ---------- *)
Lemma read_debug_sections_spec e relocate : constructible e = true -> forall names,
  match read_debug_sections inflate e relocate names with
  | Ok ds => read_slots inflate e relocate names = Some (slots_of ds)
  | Err _ => read_slots inflate e relocate names = None
  end.
Proof.
  intros Hc. induction names as [|n r IH]; [reflexivity|].
  cbn [read_debug_sections read_slots]. unfold read_slot.
  rewrite (get_section_by_name_spec e n Hc).
  destruct (sec_named e n) as [s|] eqn:En.
  - destruct (constructible_in e s Hc (sec_named_in e n s En)) as [sc Hsc]. rewrite Hsc. cbn [bind].
    pose proof (read_dwarf_section_spec e s sc relocate false Hsc) as Hr.
    destruct (read_dwarf_section inflate e sc relocate false) as [d|x]; rewrite Hr; [|reflexivity].
    cbn [bind option_map].
    destruct (read_debug_sections inflate e relocate r) as [ds|x]; rewrite IH; reflexivity.
  - cbn [bind]. destruct (is_prefix p_debug n).
    + rewrite (get_section_by_name_spec e (zname n) Hc).
      destruct (sec_named e (zname n)) as [s|] eqn:Ez.
      * destruct (constructible_in e s Hc (sec_named_in e _ s Ez)) as [sc Hsc]. rewrite Hsc. cbn [bind].
        pose proof (read_dwarf_section_spec e s sc relocate true Hsc) as Hr.
        destruct (read_dwarf_section inflate e sc relocate true) as [d|x]; rewrite Hr; [|reflexivity].
        cbn [bind option_map].
        destruct (read_debug_sections inflate e relocate r) as [ds|x]; rewrite IH; reflexivity.
      * cbn [bind]. destruct (read_debug_sections inflate e relocate r) as [ds|x]; rewrite IH; reflexivity.
    + cbn [bind]. destruct (read_debug_sections inflate e relocate r) as [ds|x]; rewrite IH; reflexivity.
Qed.

(* ---------- the supplementary link ---------- *)
Lemma sec_stream_slot ds i : sec_stream ds i = slot_data (slots_of ds) i.
Proof.
  unfold sec_stream, slot_data, slots_of.
  change (@None desc) with (option_map desc_of None). rewrite map_nth.
  destruct (nth i ds None); reflexivity.
Qed.

Lemma take_2_1 (bs : list Z) :
  match take 2 bs with
  | None => take 3 bs = None
  | Some (a, r) =>
      match take 1 r with
      | None => take 3 bs = None
      | Some (b, r') => take 3 bs = Some (a ++ b, r') /\ length a = 2%nat /\ nth 0 b 0 = nth 2 (a ++ b) 0
      end
  end.
Proof.
  destruct bs as [|x [|y [|z t]]]; try reflexivity. cbn. repeat split; reflexivity.
Qed.

Lemma parse_debugsupinfo_spec le ds :
  match parse_debugsupinfo le ds with
  | Ok o => sup_path le (slots_of ds) = Some o
  | Err _ => sup_path le (slots_of ds) = None
  end.
Proof.
  unfold parse_debugsupinfo, sup_path. rewrite <- !sec_stream_slot.
  set (alt_m := match sec_stream ds SLOT_ALTLINK with
                | Some bs => do n <- parse_debugaltlink bs; Ok (Some n)
                | None => Ok None end).
  set (alt_s := match sec_stream ds SLOT_ALTLINK with
                | None => Some None
                | Some bs => match altlink_parse bs with Some n => Some (Some n) | None => None end
                end).
  assert (Halt : match alt_m with Ok o => alt_s = Some o | Err _ => alt_s = None end).
  { unfold alt_m, alt_s. destruct (sec_stream ds SLOT_ALTLINK) as [bs|]; [|reflexivity].
    unfold parse_debugaltlink, altlink_parse.
    destruct (cstring_decode bs) as [[name r]|]; [|reflexivity].
    destruct (take 20 r) as [[a b]|]; reflexivity. }
  destruct (sec_stream ds SLOT_SUP) as [bs|]; [|exact Halt].
  unfold debugsup_parse. pose proof (take_2_1 bs) as Ht.
  destruct (take 2 bs) as [[a r]|]; [|rewrite Ht; reflexivity].
  destruct (take 1 r) as [[b r']|]; [|rewrite Ht; reflexivity].
  destruct Ht as [-> [_ Hnth]].
  destruct (cstring_decode r') as [[name t]|]; [|reflexivity].
  rewrite <- Hnth. destruct (nth 0 b 0 =? 0); [reflexivity|exact Halt].
Qed.

(* ---------- links ---------- *)
Lemma gnu_debuglink_parse_spec le bs :
  match gnu_debuglink_parse le bs with
  | Ok l => debuglink_parse le bs = Some l
  | Err _ => debuglink_parse le bs = None
  end.
Proof.
  unfold gnu_debuglink_parse, debuglink_parse, debuglink_padlen.
  destruct (cstring_decode bs) as [[name r]|]; [|reflexivity].
  destruct (take (3 - length name mod 4) r) as [[pad r']|]; [|reflexivity].
  destruct (forallb (Z.eqb 0) pad); [|reflexivity].
  destruct (uint_decode le 4 r') as [[c t]|]; reflexivity.
Qed.

Lemma nolinks_spec e : constructible e = true ->
  match get_dwarf_info_nolinks inflate e with
  | Ok (c, ds) =>
      c = config_of e /\ own_slots inflate e true = Some (slots_of ds) /\
      sup_path (e_le e) (slots_of ds) <> None
  | Err _ =>
      match own_slots inflate e true with
      | Some sl => sup_path (e_le e) sl = None
      | None => True
      end
  end.
Proof.
  intros Hc. unfold get_dwarf_info_nolinks, own_slots, section_names.
  rewrite (get_section_by_name_spec e n_debuglink Hc).
  assert (Hdl : exists o, (match sec_named e n_debuglink with
                           | None => Ok None
                           | Some s => do sc <- make_section e s; Ok (Some sc) end) = Ok o).
  { destruct (sec_named e n_debuglink) as [s|] eqn:En; [|eexists; reflexivity].
    destruct (constructible_in e s Hc (sec_named_in e _ s En)) as [sc ->]. eexists; reflexivity. }
  destruct Hdl as [o ->]. cbn [bind].
  pose proof (read_debug_sections_spec e true Hc slot_names) as Hr.
  destruct (read_debug_sections inflate e true slot_names) as [ds|x]; rewrite Hr; [|exact I]. cbn [bind].
  pose proof (parse_debugsupinfo_spec (e_le e) ds) as Hp.
  destruct (parse_debugsupinfo (e_le e) ds) as [p|x]; [|exact Hp]. cbn [bind].
  split; [reflexivity|]. split; [reflexivity|]. rewrite Hp. discriminate.
Qed.

Variable loader : option (list Z -> option (list Z)).
Hypothesis Hbytes : forall load n b, loader = Some load -> load n = Some b -> all_bytes b = true.

Definition own_m (e : elf) (relocate follow : bool) : res dwarfinfo :=
  do ds <- read_debug_sections inflate e relocate section_names;
  do sup <- (if follow then get_supplementary_dwarfinfo inflate loader e ds else Ok None);
  Ok (mkDwarfinfo (config_of e) ds sup).

Lemma own_view_spec e relocate follow : constructible e = true ->
  res_view (own_m e relocate follow) = own_view inflate parse_opt loader e relocate follow.
Proof.
  intros Hc. unfold own_m, own_view, own_slots, section_names.
  pose proof (read_debug_sections_spec e relocate Hc slot_names) as Hr.
  destruct (read_debug_sections inflate e relocate slot_names) as [ds|x]; rewrite Hr; [|reflexivity].
  cbn [bind]. destruct follow; [|reflexivity].
  unfold get_supplementary_dwarfinfo.
  pose proof (parse_debugsupinfo_spec (e_le e) ds) as Hp.
  destruct (parse_debugsupinfo (e_le e) ds) as [p|x]; rewrite Hp; [|reflexivity]. cbn [bind].
  destruct p as [path|]; [|reflexivity].
  destruct loader as [load|]; [|reflexivity].
  destruct (load path) as [b|]; [|reflexivity].
  unfold parse_opt. destruct (parse_image b) as [e'|x] eqn:Ep; [|reflexivity]. cbn [bind].
  pose proof (nolinks_spec e' (parse_image_constructible b e' Ep)) as Hn.
  unfold own_slots in Hn.
  destruct (get_dwarf_info_nolinks inflate e') as [[c ds']|x].
  - destruct Hn as [-> [Hs Hsp]]. rewrite Hs. cbn [bind].
    destruct (sup_path (e_le e') (slots_of ds')); [reflexivity|contradiction].
  - cbn [bind]. destruct (read_slots inflate e' true slot_names) as [sl'|]; [|reflexivity].
    rewrite Hn. reflexivity.
Qed.

Theorem model_refines_spec : forall fuel e relocate follow, constructible e = true ->
  res_view (get_dwarf_info inflate fuel loader e relocate follow)
  = debug_view inflate parse_opt fuel loader e relocate follow.
Proof.
  induction fuel as [|f IH]; intros e relocate follow Hc; [reflexivity|].
  cbn [get_dwarf_info debug_view].
  rewrite (get_section_by_name_spec e n_debuglink Hc), (presence_exact e true Hc).
  pose proof (own_view_spec e relocate follow Hc) as Hown'.
  fold (own_m e relocate follow).
  destruct (sec_named e n_debuglink) as [s|] eqn:En; cbn [bind]; [|exact Hown'].
  destruct (constructible_in e s Hc (sec_named_in e _ s En)) as [sc Hsc]. rewrite Hsc. cbn [bind].
  destruct loader as [load|] eqn:El; [|exact Hown'].
  destruct (negb (presence e true) && follow); [|exact Hown'].
  destruct (section_data_spec e s sc Hsc) as [-> _].
  pose proof (gnu_debuglink_parse_spec (e_le e) (s_stream s)) as Hp.
  destruct (gnu_debuglink_parse (e_le e) (s_stream s)) as [[filename checksum]|x]; rewrite Hp; [|reflexivity].
  cbn [bind]. destruct (load filename) as [ext|] eqn:Eload; [|reflexivity].
  rewrite file_crc32_is_model, crc32_model_is_poly by (apply (Hbytes load filename ext eq_refl Eload)).
  destruct (crc32_poly ext =? checksum); cbn [negb]; [|reflexivity].
  unfold parse_opt at 1. destruct (parse_image ext) as [e'|x] eqn:Ep; [|reflexivity]. cbn [bind].
  apply IH. apply (parse_image_constructible ext e' Ep).
Qed.

End Refine.

(* the invariance theorems, transported to the model: re-encoding a file does not change
   what the model of get_dwarf_info hands to DWARFInfo *)
Corollary model_view_invariant inflate loader (T : elf -> elf) :
  (forall d n, 2 ^ 63 <= n -> inflate d n = None) ->
  (forall load n b, loader = Some load -> load n = Some b -> all_bytes b = true) ->
  forall e, constructible e = true -> constructible (T e) = true ->
  (forall fuel relocate follow, debug_view inflate parse_opt fuel loader (T e) relocate follow
                                = debug_view inflate parse_opt fuel loader e relocate follow) ->
  forall fuel relocate follow,
    res_view (get_dwarf_info inflate fuel loader (T e) relocate follow)
    = res_view (get_dwarf_info inflate fuel loader e relocate follow).
Proof.
  intros Hovf Hb e Hc Hc' Hinv fuel relocate follow.
  rewrite !(model_refines_spec inflate Hovf loader Hb) by assumption. apply Hinv.
Qed.

(* ---------- the transforms keep files constructible ---------- *)
Definition sec_ok (le is64 : bool) (flags : Z) (stream : list Z) : bool :=
  if negb (Z.land flags SHF_COMPRESSED =? 0) then
    match decode_layout (gen_Elf_Chdr le is64) stream with Some _ => true | None => false end
  else true.

Lemma make_section_ok e s :
  (match make_section e s with Ok _ => true | Err _ => false end)
  = sec_ok (e_le e) (e_is64 e) (s_flags s) (s_stream s).
Proof.
  unfold make_section, sec_ok. destruct (negb (Z.land (s_flags s) SHF_COMPRESSED =? 0)); [|reflexivity].
  destruct (decode_layout (gen_Elf_Chdr (e_le e) (e_is64 e)) (s_stream s)) as [[h t]|]; reflexivity.
Qed.

Lemma constructible_sec_ok e :
  constructible e = forallb (fun s => sec_ok (e_le e) (e_is64 e) (s_flags s) (s_stream s)) (e_secs e).
Proof.
  unfold constructible. induction (e_secs e) as [|s r IH]; [reflexivity|].
  cbn [forallb]. rewrite make_section_ok, IH. reflexivity.
Qed.

Lemma forallb_map_idx {A B} (p : B -> bool) (f : nat -> A -> B) l : forall i,
  (forall j s, nth_error l j = Some s -> p (f (i + j)%nat s) = true) ->
  forallb p (map_idx f i l) = true.
Proof.
  induction l as [|x r IH]; intros i H; [reflexivity|]. cbn [map_idx forallb].
  pose proof (H O x eq_refl) as H0. rewrite Nat.add_0_r in H0. rewrite H0. cbn [andb].
  apply IH. intros j s Hj. specialize (H (S j) s Hj). rewrite Nat.add_succ_r in H. exact H.
Qed.

Lemma forallb_nth {A} (p : A -> bool) l : forallb p l = true ->
  forall j s, nth_error l j = Some s -> p s = true.
Proof. intros H j s Hj. rewrite forallb_forall in H. apply H. apply (nth_error_In _ _ Hj). Qed.

Lemma gabi_constructible choice e : gabi_choice_ok choice e = true -> constructible e = true ->
  constructible (T_gabi choice e) = true.
Proof.
  intros Hok Hc. rewrite constructible_sec_ok in *. unfold T_gabi. cbn [e_le e_is64 e_secs].
  apply forallb_map_idx. intros j s Hj. cbn [Nat.add].
  pose proof (all_idx_nth _ _ _ Hok j s Hj) as Hp. cbn [Nat.add] in Hp.
  destruct (choice j) as [a|]; [|apply (forallb_nth _ _ Hc j s Hj)].
  unfold gabi_ok in Hp. rewrite !andb_true_iff in Hp. destruct Hp as [_ Hfit].
  unfold sec_ok, gabi_compress. cbn [s_flags s_stream]. rewrite land_lor_bit. cbn [negb].
  rewrite gen_Elf_Chdr_gabi. unfold gabi_body. rewrite <- app_assoc.
  destruct (chdr_decode (e_le e) (e_is64 e) (g_reserved a) (s_size s) (g_align a) (g_blob a ++ g_tail a) Hfit)
    as [h [Hdec _]].
  rewrite Hdec. reflexivity.
Qed.

Lemma zgnu_constructible choice e : zgnu_choice_ok choice e = true -> constructible e = true ->
  constructible (T_zgnu choice e) = true.
Proof.
  intros Hok Hc. rewrite constructible_sec_ok in *. unfold T_zgnu. cbn [e_le e_is64 e_secs].
  apply forallb_map_idx. intros j s Hj. cbn [Nat.add].
  unfold zgnu_choice_ok in Hok.
  pose proof (all_idx_nth _ _ _ Hok j s Hj) as Hp. cbn [Nat.add] in Hp.
  pose proof (forallb_nth _ _ Hc j s Hj) as Hs. cbn beta in Hs.
  unfold zgnu_sec. destruct (choice j) as [a|].
  - unfold zgnu_ok, plain_complete, is_compressed in Hp. rewrite !andb_true_iff in Hp.
    destruct Hp as [[[[[[Hnc _] _] _] _] _] _].
    unfold sec_ok, zgnu_compress. cbn [s_flags s_stream]. apply negb_true_iff in Hnc. rewrite Hnc. reflexivity.
  - destruct (is_reloc_sec s); [|exact Hs].
    destruct (reloc_target (s_name s)) as [[pre t]|]; [|exact Hs].
    destruct (name_in t _); exact Hs.
Qed.

(* ---------- invariance, stated of the model of the code ---------- *)
Section ModelInvariance.
Variable inflate : list Z -> Z -> option (list Z * bool).
Hypothesis Hovf : forall d n, 2 ^ 63 <= n -> inflate d n = None.
Variable loader : option (list Z -> option (list Z)).
Hypothesis Hbytes : forall (load : list Z -> option (list Z)) (n b : list Z),
  loader = Some load -> load n = Some b -> all_bytes b = true.

Theorem model_gabi_invariant choice e :
  constructible e = true -> gabi_choice_ok choice e = true -> gabi_blobs_ok inflate choice e ->
  forall fuel relocate follow,
    res_view (get_dwarf_info inflate fuel loader (T_gabi choice e) relocate follow)
    = res_view (get_dwarf_info inflate fuel loader e relocate follow).
Proof.
  intros Hc Hok Hb fuel relocate follow.
  rewrite !(model_refines_spec inflate Hovf loader Hbytes) by (try apply gabi_constructible; assumption).
  apply gabi_view_invariant; assumption.
Qed.

Theorem model_zgnu_invariant choice e :
  constructible e = true -> zgnu_choice_ok choice e = true -> C11Zgnu.zgnu_blobs_ok inflate choice e ->
  plain_names e = true -> no_phantom e = true ->
  forall fuel relocate follow,
    res_view (get_dwarf_info inflate fuel loader (T_zgnu choice e) relocate follow)
    = res_view (get_dwarf_info inflate fuel loader e relocate follow).
Proof.
  intros Hc Hok Hb Hpl Hph fuel relocate follow.
  rewrite !(model_refines_spec inflate Hovf loader Hbytes) by (try apply zgnu_constructible; assumption).
  apply C11Zgnu.zgnu_view_invariant; assumption.
Qed.
End ModelInvariance.
