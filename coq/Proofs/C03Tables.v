(* Proofs/C03Tables.v — the data of the symbol structs as the live code defines it
   (Gen/ElfLayouts.v, regenerated on every run) equals the standard's: record layouts
   for both classes and byte orders, and the value -> name table bound to every
   enum-valued field of Elf_Sym and Elf_Sunw_Syminfo. *)
From PV Require Import Base.Fmt Gen.ElfLayouts Spec.ElfGabi Spec.C03Sym Proofs.ElfLayoutFacts.
Open Scope string_scope.
Open Scope list_scope.

Fixpoint table_named (n : string) (ts : list (string * list (Z * string))) : option (list (Z * string)) :=
  match ts with
  | [] => None
  | (k, t) :: r => if (k =? n)%string then Some t else table_named n r
  end.

(* every binding of the code (field, table, strict?) is non-strict and its table answers as the
   standard's table for that field does, and no field of the standard is left unbound *)
Definition binds_agree (binds : list (string * string * bool)) (spec : list (string * list (Z * string))) : bool :=
  forallb (fun b => match b with
                    | (field, tab, strict) =>
                        negb strict &&
                        match table_named tab gen_enum_tables, table_named field spec with
                        | Some g, Some s => table_eqv g s
                        | _, _ => false
                        end
                    end) binds &&
  forallb (fun fs => existsb (fun b => match b with (field, _, _) => (field =? fst fs)%string end) binds) spec.

Lemma sym_binds_agree :
  binds_agree gen_binds_Elf_Sym_32 spec_sym_binds = true /\
  binds_agree gen_binds_Elf_Sym_64 spec_sym_binds = true /\
  binds_agree gen_binds_Elf_Sunw_Syminfo_32 spec_syminfo_binds = true /\
  binds_agree gen_binds_Elf_Sunw_Syminfo_64 spec_syminfo_binds = true.
Proof. vm_compute. repeat split; reflexivity. Qed.

Lemma sym_layouts_gabi : forall le is64,
  gen_Elf_Sym le is64 = spec_Elf_Sym le is64 /\
  gen_Elf_Sunw_Syminfo le is64 = spec_Elf_Sunw_Syminfo le /\
  gen_Elf_Hash le is64 = spec_Elf_Hash le /\
  gen_Gnu_Hash le is64 = spec_Gnu_Hash le is64.
Proof.
  intros le is64. repeat split.
  - apply gen_Elf_Sym_gabi.
  - apply gen_Elf_Sunw_Syminfo_gabi.
  - apply gen_Elf_Hash_gabi.
  - apply gen_Gnu_Hash_gabi.
Qed.
