(* Proofs/C10NavTop.v — C10: the navigation operations as steps of the machine: get_parent, and the
   resumption of iter_children / iter_siblings / iter_DIEs generators. *)
From PV Require Import Spec.C10Spec Proofs.C10Base Proofs.C10Tree Proofs.C10Nodes Proofs.C10Elf Proofs.C10Units
  Proofs.C10Lines Proofs.C10Main Proofs.C10Top Proofs.C10TUs Proofs.C10Nav Proofs.C10Nav2 Proofs.C10Nav3.
From Coq Require Import ZArith List Bool Lia ZifyBool.
Import ListNotations.
Open Scope Z_scope.

Lemma units_max_ge (l : list udesc) ud : In ud l ->
  (nav_fuel (ud_tree ud) <= fold_right (fun ud acc => Nat.max (nav_fuel (ud_tree ud)) acc) 0 l)%nat.
Proof. induction l as [|x r IH]; intros H; [destruct H|]. cbn [fold_right]. destruct H as [->|H]; [lia|]. specialize (IH H). lia. Qed.

Section NavTop.
  Set Default Proof Using "All".
  Variable F : file.
  Hypothesis WF : wf_file F = true.
  Variable fuel : nat.
  Hypothesis Hfuel : fuel_ok F fuel = true.
  Let P := parsers_of F.
  Let Hfu := Hfu F WF fuel Hfuel.

  Lemma Hnav : forall ud, In ud (f_units F) -> (2 * nav_fuel (ud_tree ud) < fuel)%nat.
  Proof.
    intros ud Hin. pose proof Hfuel as Hf. unfold fuel_ok, fuel_bound in Hf. apply Nat.ltb_lt in Hf.
    pose proof (units_max_ge _ _ Hin). lia.
  Qed.

  Lemma fuel_pos' : exists f', fuel = S f'.
  Proof. pose proof Hfuel as Hf. unfold fuel_ok, fuel_bound in Hf. apply Nat.ltb_lt in Hf. exists (fuel - 1)%nat. lia. Qed.

  Notation next_ok := (next_ok F fuel).

  Lemma die_at_has_unit s id u o : Inv F s -> die_at s id u o -> exists ud, unit_at F u = Some ud.
  Proof.
    intros HI Hat. destruct (die_facts F WF fuel Hfu _ _ _ _ HI Hat) as (d & c & e & _ & _ & _ & _ & He & _).
    destruct (entry_at_unit F WF fuel Hfu _ _ _ He) as (ud & Hu & _). eauto.
  Qed.

  (* ---------------------------------------------------------------- iter_children *)
  Lemma next_children s cf u acf : Inv F s -> frame_rel F s (FChildren cf) (AFChildren u acf) ->
    next_ok s (FChildren cf) (AFChildren u acf).
  Proof.
    intros HI Hf. inversion Hf as [| | |u0 cf0 acf0 Hrel| | | | | |]. subst u0 cf0 acf0.
    unfold C10Top.next_ok. cbn [frame_next aframe_next].
    assert (Hunit : (exists ud, unit_at F u = Some ud) \/ (cf = CDone /\ acf = ACDone)).
    { inversion Hrel; subst; [left|left|right; auto]; eapply die_at_has_unit; eauto. }
    destruct Hunit as [(ud & Hu)|[-> ->]].
    - rewrite Hu.
      destruct (children_next_frame F WF fuel Hfu Hnav s u ud cf acf HI Hu Hrel) as (s1 & cf' & r0 & E1 & HI1 & X1 & Hrel1 & Hpost).
      fold P in E1. rewrite (bind_ok _ _ _ _ _ E1).
      destruct (achildren_next (ud_entries ud) acf) as [acf' ar]. cbn [fst snd] in *.
      unfold cnext_post in Hpost. destruct r0 as [c|], ar as [oc|]; try contradiction.
      + destruct Hpost as (Hc & _).
        rewrite (bind_ok _ _ _ _ _ (die_answer_ok F WF fuel Hfuel s1 c u oc HI1 Hc)).
        exists s1, (Ok (Some (FChildren cf', die_ans F u oc))). split; [reflexivity|]. split; [exact HI1|]. split; [exact X1|].
        eexists. split; [reflexivity|]. constructor. exact Hrel1.
      + exists s1, (Ok None). split; [reflexivity|]. split; [exact HI1|]. split; [exact X1|reflexivity].
    - destruct fuel_pos' as (f' & Ef). exists s, (Ok None). split.
      + rewrite Ef. reflexivity.
      + split; [exact HI|]. split; [apply ext_refl|]. destruct (unit_at F u); reflexivity.
  Qed.

  (* ---------------------------------------------------------------- get_parent *)
  Lemma ref_Parent s afs u o : Inv F s -> frames_rel F s afs -> valid_op F (Parent u o) = true ->
    refines F fuel s afs (Parent u o).
  Proof.
    intros HI Hfr Hv. cbn [valid_op] in Hv. destruct (valid_die_some F WF fuel Hfuel _ _ Hv) as (e & He).
    destruct (the_DIE_ok F WF fuel Hfu s u o e HI He) as (s1 & id & E1 & HI1 & X1 & Hat).
    destruct (get_parent_ok F WF fuel Hfu Hnav s1 id u o e HI1 Hat He) as (s2 & r & E2 & HI2 & X2 & Hr).
    eapply (query_finish F WF fuel Hfuel) with (s' := s2) (r := Ok (query_spec F (Parent u o)));
      [exact Hfr| |exact HI2|eapply ext_trans; eauto|reflexivity|reflexivity].
    cbn [run_op query_spec]. fold P. rewrite (bind_ok _ _ _ _ _ E1), (bind_ok _ _ _ _ _ E2). rewrite He.
    destruct (en_parent e) as [po|].
    - destruct Hr as (pid & -> & Hp). cbn [opt_die_answer]. apply (die_answer_ok F WF fuel Hfuel); auto.
    - subst r. reflexivity.
  Qed.

  (* ---------------------------------------------------------------- iter_siblings *)
  Lemma siblings_from s u ud self so cf acf : Inv F s -> unit_at F u = Some ud -> die_at s self u so ->
    cframe_rel F s u cf acf ->
    exists s1 r, (r0 <- siblings_loop P fuel fuel self cf;;
                  match r0 with
                  | None => ret None
                  | Some (f', sib) => a <- die_answer sib;; ret (Some (f', a))
                  end) s = (s1, Ok r) /\ Inv F s1 /\ ext s s1 /\
      match asiblings_rest (ud_entries ud) so acf, acframe_parent acf with
      | k :: _, Some p => exists f', r = Some (f', die_ans F u k) /\
                                     frame_rel F s1 f' (AFSiblings u so (Some (ACYield p k)))
      | _, _ => r = None
      end.
  Proof.
    intros HI Hu Hself Hrel.
    pose proof (remaining_length F WF fuel Hfu Hnav s u ud cf acf HI Hu Hrel) as Hlen.
    destruct (siblings_loop_ok F WF fuel Hfu Hnav u ud self so Hu _ fuel s cf acf eq_refl ltac:(lia) HI Hrel Hself)
      as (s1 & r0 & E1 & HI1 & X1 & Hm).
    fold P in E1. rewrite (bind_ok _ _ _ _ _ E1). rewrite (asiblings_rest_remaining F WF fuel Hfu Hnav).
    destruct (filter (fun k => negb (k =? so)) (remaining (ud_entries ud) acf)) as [|k rest].
    - subst r0. exists s1, None. split; [reflexivity|]. split; [exact HI1|]. split; [exact X1|reflexivity].
    - destruct (acframe_parent acf) as [p|].
      + destruct Hm as (sib & cf' & -> & Hsib & Hrel').
        rewrite (bind_ok _ _ _ _ _ (die_answer_ok F WF fuel Hfuel s1 sib u k HI1 Hsib)).
        exists s1, (Some (FSiblings self (Some cf'), die_ans F u k)).
        split; [reflexivity|]. split; [exact HI1|]. split; [exact X1|].
        eexists. split; [reflexivity|]. constructor; [eapply die_at_ext; eauto|exact Hrel'].
      + subst r0. exists s1, None. split; [reflexivity|]. split; [exact HI1|]. split; [exact X1|reflexivity].
  Qed.

  Lemma next_siblings s self c u so ac : Inv F s -> frame_rel F s (FSiblings self c) (AFSiblings u so ac) ->
    next_ok s (FSiblings self c) (AFSiblings u so ac).
  Proof.
    intros HI Hf. unfold C10Top.next_ok. cbn [frame_next].
    inversion Hf as [| | | |u0 self0 o0 Hself|u0 self0 o0 cf acf Hself Hrel| | | |]; subst.
    - (* not started: parent = self.get_parent() *)
      destruct (die_at_has_unit s self u so HI Hself) as (ud & Hu).
      destruct (die_facts F WF fuel Hfu _ _ _ _ HI Hself) as (d & c & e & _ & _ & _ & _ & He & _).
      destruct (entry_at_unit F WF fuel Hfu _ _ _ He) as (ud' & Hu' & Hz). assert (ud' = ud) by congruence. subst ud'.
      destruct (get_parent_ok F WF fuel Hfu Hnav s self u so e HI Hself He) as (s1 & r & E1 & HI1 & X1 & Hr).
      cbn [aframe_next siblings_of_top]. rewrite Hu, He, Hz.
      destruct (en_parent e) as [po|].
      + destruct Hr as (pid & -> & Hp).
        destruct (siblings_from s1 u ud self so (CStart pid) (ACStart po) HI1 Hu (die_at_ext _ _ _ _ _ X1 Hself))
          as (s2 & r & E2 & HI2 & X2 & Hm); [constructor; exact Hp|].
        exists s2, (Ok r). split.
        * unfold siblings_next. fold P. rewrite <- E2.
          unfold bindM at 1 2 4. fold P in E1. rewrite E1. reflexivity.
        * split; [exact HI2|]. split; [eapply ext_trans; eauto|]. cbn [acframe_parent] in *.
          destruct (asiblings_rest (ud_entries ud) so (ACStart po)) as [|k rest].
          -- subst r. reflexivity.
          -- destruct Hm as (f' & -> & Hf'). eauto.
      + subst r. exists s1, (Err (EPy "RuntimeError")). split.
        * unfold siblings_next. fold P. unfold bindM at 1 2. fold P in E1. rewrite E1. reflexivity.
        * split; [exact HI1|]. split; [exact X1|reflexivity].
    - destruct (die_at_has_unit s self u so HI Hself) as (ud & Hu).
      destruct (siblings_from s u ud self so cf acf HI Hu Hself Hrel) as (s2 & r & E2 & HI2 & X2 & Hm).
      exists s2, (Ok r). split; [exact E2|]. split; [exact HI2|]. split; [exact X2|].
      cbn [aframe_next siblings_of_top]. rewrite Hu.
      destruct (asiblings_rest (ud_entries ud) so acf) as [|k rest]; [subst r; reflexivity|].
      destruct (acframe_parent acf) as [p|]; [|subst r; reflexivity].
      destruct Hm as (f' & -> & Hf'). eauto.
  Qed.

  (* ---------------------------------------------------------------- iter_DIEs *)
  Lemma next_subtree s st u ast : Inv F s -> frame_rel F s (FSubtree st) (AFSubtree u ast) ->
    next_ok s (FSubtree st) (AFSubtree u ast).
  Proof.
    intros HI Hf. unfold C10Top.next_ok. cbn [frame_next aframe_next].
    inversion Hf as [| | | | | |u0 st0 ast0 Hall Hsn| | |]; subst.
    destruct (unit_at F u) as [ud|] eqn:Hu.
    - pose proof (stack_fuel F WF fuel Hfu Hnav u ud st ast s Hu Hall Hsn) as Hw.
      destruct (subtree_next_ok F WF fuel Hfu Hnav u ud Hu fuel s st ast Hw HI Hall Hsn) as (s1 & r & E1 & HI1 & X1 & Hp).
      fold P in E1. rewrite (bind_ok _ _ _ _ _ E1). unfold sub_post in Hp.
      destruct (asubtree_next (ud_entries ud) ast) as [[ast' od]|].
      + destruct Hp as (st' & oid & -> & Hall' & Hsn' & Ho). unfold oid_rel in Ho.
        destruct oid as [id|], od as [o|]; try contradiction.
        * cbn [opt_die_answer]. rewrite (bind_ok _ _ _ _ _ (die_answer_ok F WF fuel Hfuel s1 id u o HI1 Ho)).
          exists s1, (Ok (Some (FSubtree st', die_ans F u o))). split; [reflexivity|]. split; [exact HI1|]. split; [exact X1|].
          eexists. split; [reflexivity|]. constructor; auto.
        * exists s1, (Ok (Some (FSubtree st', ANone))). split; [reflexivity|]. split; [exact HI1|]. split; [exact X1|].
          eexists. split; [reflexivity|]. constructor; auto.
      + subst r. exists s1, (Ok None). split; [reflexivity|]. split; [exact HI1|]. split; [exact X1|reflexivity].
    - destruct Hsn as [->|(ud' & ns & Hu' & _)]; [|congruence].
      inversion Hall. subst. destruct fuel_pos' as (f' & Ef).
      exists s, (Ok None). split; [rewrite Ef; reflexivity|]. split; [exact HI|]. split; [apply ext_refl|reflexivity].
  Qed.

  (* next(generator) for every kind of frame *)
  Lemma ref_Next s afs slot : Inv F s -> frames_rel F s afs -> refines F fuel s afs (Next slot).
  Proof.
    intros HI Hfr. apply (next_finish F WF fuel Hfuel); auto.
    assert (Hrel : frame_rel F s (nth slot (frames s) FEmpty) (nth slot afs AFEmpty)).
    { apply Forall2_nth; [exact Hfr|constructor]. }
    destruct Hrel.
    - apply (next_empty F WF fuel Hfuel); auto.
    - apply (next_cus F WF fuel Hfuel); auto. constructor; auto.
    - apply (next_tus F WF fuel Hfuel); auto. constructor; auto.
    - apply next_children; auto. constructor; auto.
    - apply next_siblings; auto. constructor; auto.
    - apply next_siblings; auto. constructor; auto.
    - apply next_subtree; auto. constructor; auto.
    - apply (next_sections F WF fuel Hfuel); auto. constructor; auto.
    - apply (next_symbols F WF fuel Hfuel); auto. constructor; auto.
    - apply (next_tags F WF fuel Hfuel); auto. constructor; auto.
  Qed.
End NavTop.
