(* Proofs/C04Values.v — resolved attribute values (DESIGN 4.4 S "Resolved values"):
   DIE._translate_attr_value (strp / line_strp strings, flags, the strx*, addrx*, loclistx,
   rnglistx index forms through the DW_AT_*_base attributes of the unit's top entry) gives
   the value the standard assigns (Spec/C04Sem.v resolve) whenever that value exists. *)
From Coq Require Import String.
From PV Require Import Base.Outcome Base.Prim Spec.PrimSpec Spec.C04Desc Spec.C04Spec Spec.C04Sem Gen.C04Forms
                       Model.C04Model Proofs.PrimProofs Proofs.C04Forms Proofs.C04Header Proofs.C04Abbrev
                       Proofs.C04Entry Proofs.C04Unit Proofs.C04Tree.
From Coq Require Import ZArith List Bool Lia ZifyBool.
Import ListNotations.
Open Scope string_scope.
Open Scope list_scope.
Open Scope Z_scope.

(* ------------------------------------------------------------------ strings at an offset of a string section *)
Lemma until_nul_split bs s : until_nul bs = Some s -> exists t, bs = s ++ 0 :: t /\ no_nul s = true.
Proof.
  revert s. induction bs as [|b r IH]; intros s H; [discriminate|].
  cbn [until_nul] in H. destruct (Z.eqb_spec b 0) as [->|Hb].
  - injection H as <-. exists r. split; reflexivity.
  - destruct (until_nul r) as [s'|]; [|discriminate]. injection H as <-.
    destruct (IH s' eq_refl) as (t & -> & Hs). exists t. split; [reflexivity|].
    apply no_nul_cons. split; assumption.
Qed.

Lemma string_at_ok sec off s : cstring_at sec off = Some s -> string_at sec off = Ok (VBytes s).
Proof.
  unfold cstring_at, string_at. intros H.
  destruct (Z.leb_spec 0 off) as [H0|]; [|discriminate]. destruct (Z.leb_spec off (zlen sec)) as [H1|]; [|discriminate].
  cbn [andb] in H. destruct (until_nul_split _ _ H) as (t & Hsk & Hnn).
  destruct (Z.ltb_spec off 0); [lia|].
  assert (Hlen : (Z.to_nat off + length (s ++ 0%Z :: t) = length sec)%nat).
  { rewrite <- Hsk, skipn_length. unfold zlen in H1. lia. }
  rewrite app_length in Hlen. cbn [length] in Hlen.
  destruct (Z.leb_spec (zlen sec) off) as [Hge|_]; [unfold zlen in Hge; lia|].
  assert (Hsec : sec = firstn (Z.to_nat off) sec ++ s ++ 0 :: t) by (rewrite <- Hsk; symmetry; apply firstn_skipn).
  assert (Hfl : length (firstn (Z.to_nat off) sec) = Z.to_nat off) by (apply firstn_length_le; lia).
  rewrite Hsec at 1. rewrite <- Hfl at 2. rewrite parse_cstring_at_valid by exact Hnn. reflexivity.
Qed.

(* ------------------------------------------------------------------ table entries *)
Lemma read_uint_at_ok le n sec pos a : uint_at le n sec pos = Some a -> read_uint_at le n sec pos = Ok a.
Proof.
  unfold uint_at, read_uint_at. intros H.
  destruct (Z.leb_spec 0 pos) as [H0|]; [|discriminate].
  destruct (Z.leb_spec (pos + Z.of_nat n) (zlen sec)) as [H1|]; [|discriminate].
  cbn [andb] in H. injection H as <-. destruct (Z.ltb_spec pos 0); [lia|].
  unfold zskipn, uint_decode. rewrite ?take_unfold.
  destruct (Z.leb_spec (zlen sec) pos) as [Hge|Hlt].
  - assert (n = 0%nat) by lia. subst n. cbn. reflexivity.
  - rewrite skipn_length. unfold zlen in H1, Hlt.
    destruct (Nat.leb_spec n (length sec - Z.to_nat pos)); [reflexivity|lia].
Qed.

(* ------------------------------------------------------------------ the form tests of _translate_attr_value *)
Lemma is_addrx_codes f : is_addrx (dn_form f) = is_addrx_form f.
Proof.
  unfold is_addrx, is_addrx_form, gen_translate_addrx_forms. cbn [existsb].
  rewrite (form_is f 0x1b "DW_FORM_addrx" eq_refl), (form_is f 0x29 "DW_FORM_addrx1" eq_refl),
          (form_is f 0x2a "DW_FORM_addrx2" eq_refl), (form_is f 0x2b "DW_FORM_addrx3" eq_refl),
          (form_is f 0x2c "DW_FORM_addrx4" eq_refl). lia.
Qed.
Lemma is_strx_codes f : is_strx (dn_form f) = is_strx_form f.
Proof.
  unfold is_strx, is_strx_form, gen_translate_strx_forms. cbn [existsb].
  rewrite (form_is f 0x1a "DW_FORM_strx" eq_refl), (form_is f 0x25 "DW_FORM_strx1" eq_refl),
          (form_is f 0x26 "DW_FORM_strx2" eq_refl), (form_is f 0x27 "DW_FORM_strx3" eq_refl),
          (form_is f 0x28 "DW_FORM_strx4" eq_refl). lia.
Qed.

(* ------------------------------------------------------------------ DW_AT_*_base of the top entry *)
Definition base_names : list (Z * string) :=
  [(AT_str_offsets_base, "DW_AT_str_offsets_base"); (AT_addr_base, "DW_AT_addr_base");
   (AT_rnglists_base, "DW_AT_rnglists_base"); (AT_loclists_base, "DW_AT_loclists_base")].

Definition bases_match (top_attrs : list xattr) (root : list (Z * Z * rawval)) : Prop :=
  forall n nm b, In (n, nm) base_names -> base_of root n = Some b -> get_base_offset top_attrs nm = Ok b.

Lemma find_attr_codes c n nm : zfind gen_dec_at n = Some nm ->
  forall specs vals pos, vals_wf c specs vals = true ->
  option_map xa_raw (find_attr (expect_attrs dn_at dn_form c specs vals pos) nm)
  = option_map snd (find_code (attr_codes c specs vals) n).
Proof.
  intros Hn. induction specs as [|a sr IH]; intros vals pos Hv; destruct vals as [|v vr]; try discriminate Hv; [reflexivity|].
  destruct (vals_wf_cons _ _ _ _ _ Hv) as (k & Hk & _ & Hvr).
  cbn [expect_attrs attr_codes find_code]. rewrite Hk. cbn [find_attr xa_name].
  unfold dn_at. rewrite (is_name_enum_pass gen_dec_at n nm gen_at_names_one_to_one Hn).
  destruct (lv (a_name a) =? n); [reflexivity|]. apply IH. exact Hvr.
Qed.

Lemma bases_match_root c ds (root : die) off : entry_wf c ds (root_fentry root) = true ->
  bases_match (x_attrs (root_entry c ds root off)) (entry_codes c ds (die_code root) (die_vals root)).
Proof.
  intros Hwf n nm b Hin Hb.
  destruct (root_entry_facts c ds root off Hwf) as (dc & Hfd & Hv & Hre & _).
  rewrite Hre. cbn [x_attrs]. unfold entry_codes in Hb. rewrite Hfd in Hb.
  assert (Hn : zfind gen_dec_at n = Some nm).
  { unfold base_names in Hin. cbn [In] in Hin.
    destruct Hin as [H|[H|[H|[H|[]]]]]; injection H as <- <-; reflexivity. }
  pose proof (find_attr_codes c n nm Hn (d_attrs dc) (die_vals root) (off + zlen (lenc (die_code root))) Hv) as Hf.
  unfold base_of in Hb. unfold get_base_offset.
  destruct (find_code (attr_codes c (d_attrs dc) (die_vals root)) n) as [[f r]|]; [|discriminate].
  destruct (find_attr _ nm) as [a|]; cbn [option_map snd] in Hf; [|discriminate].
  injection Hf as ->. destruct r; try discriminate Hb. injection Hb as ->. reflexivity.
Qed.

(* ------------------------------------------------------------------ _translate_attr_value *)
Record ctx_match (S : dsections) (U : uctx) (c : cfg) (xs : xsections) : Prop := {
  cm_le : uc_le U = c_le c;
  cm_is64 : uc_is64 U = c_is64 c;
  cm_asz : uc_asz U = addr_size_z c;
  cm_aszf : fget (uc_fields U) "address_size" = addr_size_z c;
  cm_str : s_str S = xs_str xs;
  cm_line_str : s_line_str S = xs_line_str xs;
  cm_str_offsets : s_str_offsets S = xs_str_offsets xs;
  cm_addr : s_addr S = xs_addr xs;
  cm_loclists : s_loclists S = xs_loclists xs;
  cm_rnglists : s_rnglists S = xs_rnglists xs
}.

Lemma opt_bytes_some o v : opt_bytes o = Some v -> exists s, o = Some s /\ v = VBytes s.
Proof. destruct o as [s|]; [|discriminate]. intros H. injection H as <-. exists s. auto. Qed.

Theorem translate_value_exact (S : dsections) (U : uctx) (c : cfg) (xs : xsections)
        (top_attrs : list xattr) (root : list (Z * Z * rawval)) (f : Z) (raw : rawval) (v : value) :
  ctx_match S U c xs -> bases_match top_attrs root ->
  resolve c xs root f raw = Some v ->
  translate_attr_value S U top_attrs (dn_form f) raw = Ok v.
Proof.
  intros [Hle H64 Hasz Haszf Hs1 Hs2 Hs3 Hs4 Hs5 Hs6] Hb Hr.
  unfold resolve in Hr. unfold translate_attr_value.
  rewrite Hle, H64, Hasz, Haszf, Hs1, Hs2, Hs3, Hs4, Hs5, Hs6.
  destruct raw as [rv|bs|l].
  2,3: rewrite (form_is f 0x19 "DW_FORM_flag_present" eq_refl);
       destruct (f =? 25); injection Hr as <-; reflexivity.
  rewrite (form_is f 0x0e "DW_FORM_strp" eq_refl), (form_is f 0x1f "DW_FORM_line_strp" eq_refl),
          (form_is f 0x0c "DW_FORM_flag" eq_refl), is_addrx_codes, is_strx_codes,
          (form_is f 0x22 "DW_FORM_loclistx" eq_refl), (form_is f 0x23 "DW_FORM_rnglistx" eq_refl).
  assert (Haddr : Z.to_nat (addr_size_z c) = addr_size c /\ addr_size_z c = Z.of_nat (addr_size c))
    by (unfold addr_size_z, addr_size; destruct (c_asz8 c); split; reflexivity).
  destruct Haddr as [Ha1 Ha2].
  assert (Hoff : offset_size (c_is64 c) = off_size c) by reflexivity.
  destruct (f =? 14).
  { destruct (opt_bytes_some _ _ Hr) as (s & Hs & ->). apply string_at_ok. exact Hs. }
  destruct (f =? 31).
  { destruct (opt_bytes_some _ _ Hr) as (s & Hs & ->). apply string_at_ok. exact Hs. }
  destruct (f =? 12). { injection Hr as <-. reflexivity. }
  destruct (is_addrx_form f).
  { destruct (base_of root AT_addr_base) as [b|] eqn:Eb; [|discriminate].
    rewrite (Hb AT_addr_base "DW_AT_addr_base" b) by (auto; unfold base_names; cbn [In]; tauto).
    rewrite Ha1, Ha2.
    destruct (uint_at (c_le c) (addr_size c) (xs_addr xs) (b + rv * Z.of_nat (addr_size c))) as [a|] eqn:Ea; [|discriminate].
    rewrite (read_uint_at_ok _ _ _ _ _ Ea). injection Hr as <-. reflexivity. }
  destruct (is_strx_form f).
  { destruct (base_of root AT_str_offsets_base) as [b|] eqn:Eb; [|discriminate].
    rewrite (Hb AT_str_offsets_base "DW_AT_str_offsets_base" b) by (auto; unfold base_names; cbn [In]; tauto).
    rewrite Hoff.
    destruct (uint_at (c_le c) (off_size c) (xs_str_offsets xs) (b + rv * Z.of_nat (off_size c))) as [o|] eqn:Eo; [|discriminate].
    rewrite (read_uint_at_ok _ _ _ _ _ Eo).
    destruct (opt_bytes_some _ _ Hr) as (s & Hs & ->). apply string_at_ok. exact Hs. }
  destruct (f =? 34).
  { destruct (base_of root AT_loclists_base) as [b|] eqn:Eb; [|discriminate].
    rewrite (Hb AT_loclists_base "DW_AT_loclists_base" b) by (auto; unfold base_names; cbn [In]; tauto).
    rewrite Hoff.
    destruct (uint_at (c_le c) (off_size c) (xs_loclists xs) (b + rv * Z.of_nat (off_size c))) as [o|] eqn:Eo; [|discriminate].
    rewrite (read_uint_at_ok _ _ _ _ _ Eo). injection Hr as <-. reflexivity. }
  destruct (f =? 35).
  { destruct (base_of root AT_rnglists_base) as [b|] eqn:Eb; [|discriminate].
    rewrite (Hb AT_rnglists_base "DW_AT_rnglists_base" b) by (auto; unfold base_names; cbn [In]; tauto).
    rewrite Hoff.
    destruct (uint_at (c_le c) (off_size c) (xs_rnglists xs) (b + rv * Z.of_nat (off_size c))) as [o|] eqn:Eo; [|discriminate].
    rewrite (read_uint_at_ok _ _ _ _ _ Eo). injection Hr as <-. reflexivity. }
  injection Hr as <-. reflexivity.
Qed.

(* ------------------------------------------------------------------ all attributes of an entry *)
Lemma expect_attrs_codes c : forall specs vals pos, vals_wf c specs vals = true ->
  map (fun a => (xa_form a, xa_raw a)) (expect_attrs dn_at dn_form c specs vals pos)
  = map (fun nfr => (dn_form (snd (fst nfr)), snd nfr)) (attr_codes c specs vals).
Proof.
  induction specs as [|a sr IH]; intros vals pos Hv; destruct vals as [|v vr]; try discriminate Hv; [reflexivity|].
  destruct (vals_wf_cons _ _ _ _ _ Hv) as (k & Hk & _ & Hvr).
  cbn [expect_attrs attr_codes map]. rewrite Hk. cbn [map xa_form xa_raw fst snd]. rewrite IH by exact Hvr. reflexivity.
Qed.

Lemma res_map_ok {A B} (f : A -> res B) (g : A -> B) l : (forall x, In x l -> f x = Ok (g x)) -> res_map f l = Ok (map g l).
Proof.
  induction l as [|x r IH]; intros H; [reflexivity|].
  cbn [res_map map]. rewrite (H x (or_introl eq_refl)), IH; [reflexivity|]. intros y Hy. apply H. right. exact Hy.
Qed.

(* the .value of every attribute of an entry, in order = the standard's resolved values, when all of them exist *)
Theorem die_values_exact (S : dsections) (U : uctx) (c : cfg) (ds : list adecl) (xs : xsections)
        (top_attrs : list xattr) (root : list (Z * Z * rawval)) (d : die) (off : Z) (vs : list value) :
  ctx_match S U c xs -> bases_match top_attrs root ->
  entry_wf c ds (root_fentry d) = true ->
  resolve_all c xs root (entry_codes c ds (die_code d) (die_vals d)) = map Some vs ->
  die_values S U top_attrs (root_entry c ds d off) = Ok vs.
Proof.
  intros Hcm Hb Hwf Hr.
  destruct (root_entry_facts c ds d off Hwf) as (dc & Hfd & Hv & Hre & _).
  unfold die_values. rewrite Hre. cbn [x_attrs]. unfold entry_codes in Hr. rewrite Hfd in Hr.
  pose proof (expect_attrs_codes c (d_attrs dc) (die_vals d) (off + zlen (lenc (die_code d))) Hv) as Hc.
  revert Hc Hr. generalize (expect_attrs dn_at dn_form c (d_attrs dc) (die_vals d) (off + zlen (lenc (die_code d)))).
  generalize (attr_codes c (d_attrs dc) (die_vals d)). unfold resolve_all.
  intros codes. revert vs. induction codes as [|[[n f] r] cr IH]; intros vs attrs Hc Hr;
    destruct attrs as [|a ar]; try discriminate Hc; destruct vs as [|v vr]; try discriminate Hr; [reflexivity|].
  cbn [map fst snd] in Hc, Hr. injection Hc as Hf Hraw Hcr. injection Hr as Hv1 Hvr.
  cbn [res_map]. rewrite Hf, Hraw.
  rewrite (translate_value_exact S U c xs top_attrs root f r v Hcm Hb Hv1).
  rewrite (IH vr ar Hcr Hvr). reflexivity.
Qed.

(* ------------------------------------------------------------------ the unit *)
Definition sections_match (S : dsections) (xs : xsections) : Prop :=
  s_str S = xs_str xs /\ s_line_str S = xs_line_str xs /\ s_str_offsets S = xs_str_offsets xs /\
  s_addr S = xs_addr xs /\ s_loclists S = xs_loclists xs /\ s_rnglists S = xs_rnglists xs.

Lemma hdr_addr_size c k aoff : fget (hdr_fields c k aoff) "address_size" = addr_size_z c.
Proof. destruct k; reflexivity. Qed.

Theorem unit_values_exact (u : unit) (S : dsections) (xs : xsections) (uoff : Z) (d : die) (off : Z) (vs : list value) :
  unit_wf u = true -> sections_match S xs ->
  let c := u_cfg u in let ds := t_decls (u_table u) in
  entry_wf c ds (root_fentry d) = true ->
  resolve_all c xs (root_codes u) (entry_codes c ds (die_code d) (die_vals d)) = map Some vs ->
  die_values S (expect_unit_ctx u uoff) (x_attrs (root_entry c ds (u_root u) (uoff + header_size u)))
             (root_entry c ds d off) = Ok vs.
Proof.
  intros Hwf (H1 & H2 & H3 & H4 & H5 & H6) c ds Hd Hr.
  destruct (unit_wf_parts u Hwf) as (_ & _ & _ & He & _).
  apply (die_values_exact S (expect_unit_ctx u uoff) c ds xs _ (root_codes u)); auto.
  - unfold expect_unit_ctx, expect_uctx. constructor; cbn [uc_le uc_is64 uc_asz uc_fields]; auto.
    apply hdr_addr_size.
  - unfold root_codes. destruct (u_root u) as [code vs' ks tm] eqn:Er.
    change code with (die_code (Node code vs' ks tm)). change vs' with (die_vals (Node code vs' ks tm)) at 2.
    apply bases_match_root.
    unfold unit_entries in He. rewrite Er in He. fold ds in He. fold c in He.
    rewrite flatten_eq in He. cbn [forallb] in He. apply andb_prop in He. tauto.
Qed.
