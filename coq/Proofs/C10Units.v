(* Proofs/C10Units.v — C10 refinement, DWARF caches:
     - the bisect-maintained unit cache (_cu_offsets_map/_cu_cache): get_CU_at, _parse_CUs_iter,
       get_CU_containing;
     - the abbreviation-table cache and the per-unit memo;
     - the bisect-maintained per-unit entry cache (_diemap/_dielist): get_top_DIE, _get_cached_DIE,
       get_DIE_from_refaddr (unit and file level);
     - the line-program cache with its memoised entries; CFI.
   Each lemma: from [Inv], the call succeeds, returns the object of the pure parse, re-establishes
   [Inv] and only extends the heaps ([ext]). *)
From PV Require Import Spec.C10Spec Proofs.C10Base Proofs.C10Tree Proofs.C10Elf.
From Coq Require Import ZArith List Bool Lia ZifyBool.
Import ListNotations.
Open Scope Z_scope.

Ltac scbn := cbn [cu_keys cu_objs cus dies abbrevs lines e_secmap e_symmap e_numtags cur frames
                  set_cu_cache set_cus set_dies set_abbrevs set_lines set_secmap set_symmap set_numtags
                  set_cur set_frames cfis set_cfis tu_map set_tu_map].

Lemma bind_get_cu {B} id c (k : cu_obj -> M B) s : nth_error (cus s) id = Some c -> bindM (get_cu id) k s = k c s.
Proof. intros H. unfold bindM, get_cu, nth_res. rewrite H. reflexivity. Qed.
Lemma bind_get_die {B} id d (k : die_obj -> M B) s : nth_error (dies s) id = Some d -> bindM (get_die id) k s = k d s.
Proof. intros H. unfold bindM, get_die, nth_res. rewrite H. reflexivity. Qed.

Section Units.
  Set Default Proof Using "All".
  Variable F : file.
  Hypothesis WF : wf_file F = true.
  Variable fuel : nat.
  Hypothesis Hfuel : (length (f_units F) < fuel)%nat.
  Let P := parsers_of F.

  (* ---------------------------------------------------------------- heap monotonicity *)
  Lemma cu_ok_mono D D' id c : dies_mono D D' -> cu_ok F D id c -> cu_ok F D' id c.
  Proof.
    intros Hm (ud & Hs & Hl & Hh & Hobj & Ha). exists ud.
    refine (conj Hs (conj Hl (conj Hh (conj _ Ha)))).
    intros o did Hin. destruct (Hobj _ _ Hin) as (d & Hd & E1 & E2).
    destruct (Hm _ _ Hd) as (d' & Hd' & E1' & E2' & _). exists d'. repeat split; congruence.
  Qed.

  Lemma die_ok_mono C D C' D' id d : cus_mono C C' -> dies_mono D D' -> die_ok F C D id d -> die_ok F C' D' id d.
  Proof.
    intros HC HD (c & e & Hc & He & Hr & Hin & Hp & Ht).
    destruct (HC _ _ Hc) as (c' & Hc' & E1 & E2 & E3 & I). exists c', e. rewrite E1.
    split; [exact Hc'|]. split; [exact He|]. split; [exact Hr|]. split; [apply I; exact Hin|]. split.
    - intros p Ep. destruct (Hp _ Ep) as (pd & Hpd & A & B).
      destruct (HD _ _ Hpd) as (pd' & Hpd' & A' & B' & _). exists pd'. repeat split; congruence.
    - intros t Et. destruct (Ht _ Et) as (td & Htd & A & B).
      destruct (HD _ _ Htd) as (td' & Htd' & A' & B' & _). exists td'. repeat split; congruence.
  Qed.

  Lemma cus_mono_upd C cu f :
    (forall c, nth_error C cu = Some c ->
       c_off (f c) = c_off c /\ c_hdr (f c) = c_hdr c /\ c_die_off (f c) = c_die_off c /\
       incl (combine (c_diemap c) (c_dielist c)) (combine (c_diemap (f c)) (c_dielist (f c)))) ->
    cus_mono C (upd_nth cu f C).
  Proof.
    intros Hf id c H. destruct (Nat.eq_dec cu id) as [->|Hne].
    - exists (f c). destruct (Hf _ H) as (A & B & C0 & I). repeat split; auto.
      apply nth_error_upd_nth_same. exact H.
    - exists c. rewrite nth_error_upd_nth_other by exact Hne. repeat split; auto using incl_refl.
  Qed.

  Lemma cuheap_upd (C : list cu_obj) cu f (keys : list Z) (objs : list nat) :
    (forall c, c_off (f c) = c_off c) ->
    (forall id c, nth_error C id = Some c -> In (c_off c, id) (combine keys objs)) ->
    forall id c, nth_error (upd_nth cu f C) id = Some c -> In (c_off c, id) (combine keys objs).
  Proof.
    intros Hf H id c Hc. apply nth_error_upd_nth in Hc. destruct Hc as [(-> & y & Hy & ->)|(_ & Hc)]; [|auto].
    rewrite Hf. auto.
  Qed.

  (* facts about a cached unit object *)
  Lemma cu_facts s id c : Inv F s -> nth_error (cus s) id = Some c ->
    exists ud, unit_at F (c_off c) = Some ud /\ c_hdr c = ud_hdr ud /\ c_die_off c = ud_die_off ud /\
               wf_unit F ud = true.
  Proof.
    intros HI Hc. destruct (inv_cus _ _ HI _ _ Hc) as (ud & (A & B & C0) & _).
    exists ud. repeat split; auto. eapply unit_wf; eauto.
  Qed.

  Lemma die_facts s id u o : Inv F s -> die_at s id u o ->
    exists d c e, nth_error (dies s) id = Some d /\ nth_error (cus s) (d_cu d) = Some c /\ c_off c = u /\
                  d_off d = o /\ entry_at F u o = Some e /\ d_raw d = en_raw e.
  Proof.
    intros HI (d & c & Hd & Hc & Eu & Eo).
    destruct (inv_dies _ _ HI _ _ Hd) as (c' & e & Hc' & He & Hr & _).
    assert (c' = c) by congruence. subst c'. exists d, c, e. subst. repeat split; auto.
  Qed.

  (* ---------------------------------------------------------------- the unit cache *)
  Lemma p_unit_at u ud : unit_at F u = Some ud -> p_unit P u = Ok (ud_hdr ud, ud_die_off ud).
  Proof. intros H. unfold P. pcbn. rewrite H. reflexivity. Qed.

  Lemma sid_ok s sid : Inv F s -> (sid < NSTREAMS)%nat -> (sid < length (cur s))%nat.
  Proof. intros HI H. rewrite (inv_cur _ _ HI). exact H. Qed.

  Lemma cached_CU_ok s u ud : Inv F s -> unit_at F u = Some ud ->
    exists s' id, cached_CU_at_offset P u s = (s', Ok id) /\ Inv F s' /\ ext s s' /\ cu_at s' id u.
  Proof.
    intros HI Hu. unfold cached_CU_at_offset. rewrite bind_get_state.
    destruct (inv_culists _ _ HI) as (Hs & Hnd & Hl).
    set (i := bisect_right (cu_keys s) u).
    destruct ((1 <=? i)%nat && (u =? nth (i - 1) (cu_keys s) 0)) eqn:Hit.
    - destruct (bisect_hit u (cu_keys s) (cu_objs s) Hs Hl Hit) as (v & Hv & Hin). fold i in Hv.
      unfold lift, nth_res. rewrite Hv. exists s, v. split; [reflexivity|]. split; [exact HI|].
      split; [apply ext_refl|]. apply (inv_cucache _ _ HI). exact Hin.
    - pose proof (bisect_miss u (cu_keys s) Hs Hit) as Hnin.
      assert (Hsid : (S_INFO < length (cur s))%nat) by (apply sid_ok; auto; unfold S_INFO, NSTREAMS; lia).
      destruct (seek_parse_tell (p_unit P) S_INFO u s _ _ Hsid (p_unit_at _ _ Hu)) as (c1 & E1 & L1 & T1).
      set (newc := mk_cu u (ud_hdr ud) (ud_die_off ud) None [] []).
      assert (Epar : parse_CU_at_offset P u s = (set_cus (set_cur s c1) (cus s ++ [newc]), Ok (length (cus s)))).
      { unfold parse_CU_at_offset, struct_parse. rewrite (bind_ok _ _ _ _ _ E1), bind_tell.
        cbn [cur set_cur]. rewrite T1. reflexivity. }
      rewrite (bind_ok _ _ _ _ _ Epar), bind_modify. scbn.
      eexists _, _. split; [reflexivity|]. split; [|split].
      + constructor; scbn.
        * rewrite L1. apply (inv_cur _ _ HI).
        * split; [apply sorted_insert_bisect; exact Hs|]. split; [apply NoDup_list_insert; auto|].
          rewrite !list_insert_length. congruence.
        * intros k id Hin. apply in_combine_insert in Hin; [|exact Hl]. destruct Hin as [E|Hin].
          -- inversion E. subst. exists newc. split; [apply nth_error_snoc_new|reflexivity].
          -- destruct (inv_cucache _ _ HI _ _ Hin) as (c & Hc & Ec). exists c. split; [apply nth_error_snoc_old; exact Hc|exact Ec].
        * intros id c Hn. apply nth_error_snoc in Hn. destruct Hn as [[_ Hn]|[-> ->]].
          -- apply (inv_cus _ _ HI). exact Hn.
          -- exists ud. split; [repeat split; auto|]. split; [repeat split; cbn; auto; constructor|].
             split; [exact I|]. split; [intros o did []|exact I].
        * intros id d Hn. eapply die_ok_mono; [apply cus_mono_snoc | apply dies_mono_refl | apply (inv_dies _ _ HI); exact Hn].
        * apply (inv_abbrevs _ _ HI).
        * apply (inv_lines _ _ HI).
        * apply (inv_secmap _ _ HI).
        * apply (inv_symmap _ _ HI).
        * apply (inv_numtags _ _ HI).
        * intros id c Hn. apply in_combine_insert; [exact Hl|]. apply nth_error_snoc in Hn.
          destruct Hn as [[_ Hn]|[-> ->]]; [right; apply (inv_cuheap _ _ HI); exact Hn|left; reflexivity].
        * apply (inv_cfis _ _ HI).
        * apply (inv_tumap _ _ HI).
      + split; [scbn; apply cus_mono_snoc|]. split; [scbn; apply dies_mono_refl|reflexivity].
      + exists newc. scbn. split; [apply nth_error_snoc_new|reflexivity].
  Qed.

  Lemma get_CU_at_ok s u ud : Inv F s -> unit_at F u = Some ud ->
    exists s' id, get_CU_at P u s = (s', Ok id) /\ Inv F s' /\ ext s s' /\ cu_at s' id u.
  Proof.
    intros HI Hu. unfold get_CU_at. destruct (unit_bounds F WF _ _ Hu) as (A & B & C0). unfold usize in *.
    replace (p_info_size P) with (f_info_size F) by reflexivity.
    destruct (Z.leb_spec 0 u); [|lia]. destruct (Z.ltb_spec u (f_info_size F)); [|lia]. cbn [andb negb].
    eapply cached_CU_ok; eauto.
  Qed.

  (* a unit object obtained for offset u is the unit at u *)
  Lemma cu_at_facts s id u : Inv F s -> cu_at s id u ->
    exists c ud, nth_error (cus s) id = Some c /\ c_off c = u /\ unit_at F u = Some ud /\
                 c_hdr c = ud_hdr ud /\ c_die_off c = ud_die_off ud /\ wf_unit F ud = true.
  Proof.
    intros HI (c & Hc & Eu). destruct (cu_facts _ _ _ HI Hc) as (ud & A & B & C0 & D).
    exists c, ud. subst u. repeat split; auto.
  Qed.

  (* one resumption of _parse_CUs_iter *)
  Lemma cus_iter_next_ok s off ud : Inv F s -> unit_at F off = Some ud ->
    exists s' id, cus_iter_next P off s = (s', Ok (Some (id, off + usize ud))) /\ Inv F s' /\ ext s s' /\ cu_at s' id off.
  Proof.
    intros HI Hu. unfold cus_iter_next. destruct (unit_bounds F WF _ _ Hu) as (A & B & C0).
    replace (p_info_size P) with (f_info_size F) by reflexivity.
    destruct (Z.ltb_spec off (f_info_size F)); [|lia].
    destruct (cached_CU_ok s off ud HI Hu) as (s1 & id & E1 & HI1 & X1 & Hat).
    rewrite (bind_ok _ _ _ _ _ E1).
    destruct (cu_at_facts _ _ _ HI1 Hat) as (c & ud' & Hc & Eo & Hu' & Eh & _).
    assert (ud' = ud) by congruence. subst ud'.
    rewrite (bind_get_cu _ _ _ _ Hc). unfold ret, usize. rewrite Eh. eauto 8.
  Qed.

  Lemma containing_loop_ok a l : forall pos n s, Inv F s ->
    units_chain pos l (f_info_size F) = true -> (forall ud, In ud l -> unit_at F (ud_off ud) = Some ud) ->
    pos <= a < f_info_size F -> (length l < n)%nat ->
    exists ud s' id, find (contains a) l = Some ud /\ containing_loop P n pos a s = (s', Ok id) /\
                     Inv F s' /\ ext s s' /\ cu_at s' id (ud_off ud).
  Proof.
    induction l as [|ud r IH]; intros pos n s HI Hch Hself Ha Hn.
    - cbn [units_chain] in Hch. lia.
    - destruct n as [|n]; [cbn in Hn; lia|]. cbn [containing_loop].
      pose proof Hch as Hch0.
      cbn [units_chain] in Hch. apply andb_prop in Hch. destruct Hch as [Hch H3].
      apply andb_prop in Hch. destruct Hch as [H1 H2].
      assert (Epos : ud_off ud = pos) by lia.
      pose proof (Hself ud (or_introl eq_refl)) as Hu. rewrite Epos in Hu.
      destruct (cus_iter_next_ok s pos ud HI Hu) as (s1 & id & E1 & HI1 & X1 & Hat).
      rewrite (bind_ok _ _ _ _ _ E1).
      destruct (cu_at_facts _ _ _ HI1 Hat) as (c & ud' & Hc & Eo & Hu' & Eh & _).
      assert (ud' = ud) by congruence. subst ud'.
      rewrite (bind_get_cu _ _ _ _ Hc). rewrite Eo, Eh. cbn [find]. unfold contains at 1. rewrite Epos.
      unfold usize in *.
      destruct ((pos <=? a) && (a <? pos + uh_size (ud_hdr ud))) eqn:Hin.
      + exists ud, s1, id. rewrite Epos. split; [reflexivity|]. split; [reflexivity|]. split; [exact HI1|]. split; [exact X1|exact Hat].
      + assert (Hge : pos + uh_size (ud_hdr ud) <= a) by lia.
        edestruct (IH (pos + uh_size (ud_hdr ud)) n s1) as (ud2 & s2 & id2 & Hf & E2 & HI2 & X2 & Hat2); auto.
        * intros x Hx. apply Hself. cbn; auto.
        * lia.
        * cbn in Hn. lia.
        * exists ud2, s2, id2. split; [exact Hf|]. split; [exact E2|]. split; [exact HI2|]. split; [eapply ext_trans; eauto|exact Hat2].
  Qed.

  Lemma get_CU_containing_ok s a : Inv F s -> 0 <= a < f_info_size F ->
    exists ud s' id, unit_containing F a = Some ud /\ get_CU_containing P fuel a s = (s', Ok id) /\
                     Inv F s' /\ ext s s' /\ cu_at s' id (ud_off ud).
  Proof.
    intros HI Ha. unfold get_CU_containing.
    replace (p_info_size P) with (f_info_size F) by reflexivity.
    destruct (Z.leb_spec 0 a); [|lia]. destruct (Z.ltb_spec a (f_info_size F)); [|lia]. cbn [andb negb].
    rewrite bind_get_state.
    destruct (inv_culists _ _ HI) as (Hs & Hnd & Hl).
    destruct (wf_file_parts F WF) as (Hchain & _).
    rewrite bisect_right_count by exact Hs. set (i := count_le a (cu_keys s)).
    destruct (Nat.ltb_spec 0 i) as [Hi|Hi].
    - pose proof (count_le_bound a (cu_keys s)) as Hb. fold i in Hb.
      destruct (nth_error (cu_keys s) (i - 1)) as [k|] eqn:Hk; [|apply nth_error_None in Hk; lia].
      rewrite (py_index_pred _ _ _ Hi Hk). rewrite bind_lift_ok.
      destruct (count_le_split a (cu_keys s) Hs) as [Hle _]. fold i in Hle.
      assert (Hka : k <= a).
      { apply Hle. rewrite <- (firstn_skipn i (cu_keys s)) in Hk.
        rewrite nth_error_app1 in Hk by (rewrite firstn_length; lia). eapply nth_error_In; eauto. }
      destruct (nth_error (cu_objs s) (i - 1)) as [id0|] eqn:Hid; [|apply nth_error_None in Hid; lia].
      destruct (inv_cucache _ _ HI k id0 (nth_combine_in _ _ _ _ _ Hk Hid)) as (c0 & Hc0 & Ec0).
      destruct (cu_facts _ _ _ HI Hc0) as (ud0 & Hu0 & _). rewrite Ec0 in Hu0.
      destruct (containing_from F WF k ud0 a Hu0 Hka) as (pre & l & El & Hcl & Hfind).
      edestruct (containing_loop_ok a l k fuel s HI Hcl) as (ud & s' & id & Hf & E & HI' & X & Hat).
      + intros x Hx. apply unit_at_self; auto. rewrite El. apply in_or_app. auto.
      + lia.
      + rewrite El, app_length in Hfuel. lia.
      + exists ud, s', id. rewrite Hfind. auto.
    - rewrite bind_lift_ok.
      edestruct (containing_loop_ok a (f_units F) 0 fuel s HI Hchain) as (ud & s' & id & Hf & E & HI' & X & Hat).
      + intros x Hx. apply unit_at_self; auto.
      + lia.
      + exact Hfuel.
      + exists ud, s', id. auto.
  Qed.

  (* ---------------------------------------------------------------- abbreviation tables *)
  Lemma get_abbrev_table_ok s off v : Inv F s -> off < f_abbrev_size F -> zassoc off (f_abbrevs F) = Some v ->
    exists c' A', get_abbrev_table P off s = (set_abbrevs (set_cur s c') A', Ok (fst v)) /\
                  length c' = NSTREAMS /\
                  (forall k t, dict_get Z.eqb A' k = Some t -> exists e, zassoc k (f_abbrevs F) = Some (t, e)).
  Proof.
    intros HI Hlt Hz. unfold get_abbrev_table.
    replace (p_abbrev_size P) with (f_abbrev_size F) by reflexivity.
    destruct (Z.ltb_spec off (f_abbrev_size F)); [|lia]. cbn [negb]. rewrite bind_get_state.
    destruct (dict_get Z.eqb (abbrevs s) off) as [t|] eqn:Hd.
    - exists (cur s), (abbrevs s). destruct (inv_abbrevs _ _ HI _ _ Hd) as (e & He).
      assert (v = (t, e)) by congruence. subst v. cbn [fst]. split; [|split].
      + unfold ret. f_equal. destruct s; reflexivity.
      + apply (inv_cur _ _ HI).
      + apply (inv_abbrevs _ _ HI).
    - assert (Hsid : (S_ABBREV < length (cur s))%nat) by (apply sid_ok; auto; unfold S_ABBREV, NSTREAMS; lia).
      destruct v as [t e].
      assert (Hp : p_abbrev P off = Ok (t, e)) by (unfold P; pcbn; rewrite Hz; reflexivity).
      pose proof (cur_only_seek_parse (p_abbrev P) S_ABBREV off s Hsid) as X. rewrite Hp in X.
      destruct X as (c1 & E1 & L1).
      rewrite (bind_assoc_ok _ _ _ _ _ _ E1). rewrite bind_modify. scbn.
      exists c1, (dict_set Z.eqb (abbrevs s) off t). split; [reflexivity|]. split; [rewrite L1; apply (inv_cur _ _ HI)|].
      intros k t' Hk. destruct (Z.eq_dec k off) as [->|Hne].
      + rewrite (dict_get_set_same Z.eqb Z.eqb_eq) in Hk. inversion Hk. subst. eauto.
      + rewrite (dict_get_set_other Z.eqb Z.eqb_eq) in Hk by exact Hne. apply (inv_abbrevs _ _ HI _ _ Hk).
  Qed.

  Definition same_cu (c c' : cu_obj) : Prop :=
    c_off c' = c_off c /\ c_hdr c' = c_hdr c /\ c_die_off c' = c_die_off c /\
    c_diemap c' = c_diemap c /\ c_dielist c' = c_dielist c.

  Lemma same_cu_refl c : same_cu c c.
  Proof. repeat split. Qed.

  Lemma cu_get_abbrev_ok s cu c : Inv F s -> nth_error (cus s) cu = Some c ->
    exists s' t, cu_get_abbrev_table P cu s = (s', Ok t) /\ Inv F s' /\ ext s s' /\ dies s' = dies s /\
                 exists c', nth_error (cus s') cu = Some c' /\ same_cu c c'.
  Proof.
    intros HI Hc. unfold cu_get_abbrev_table. rewrite (bind_get_cu _ _ _ _ Hc).
    destruct (c_abbrev c) as [t|] eqn:Ea.
    - exists s, t. split; [reflexivity|]. split; [exact HI|]. split; [apply ext_refl|]. split; [reflexivity|].
      exists c. split; [exact Hc|apply same_cu_refl].
    - destruct (cu_facts _ _ _ HI Hc) as (ud & Hu & Eh & Ed & Hw).
      destruct (wf_unit_facts F WF _ Hw) as (_ & _ & _ & _ & _ & Hlt & (v & Hv) & _).
      rewrite <- Eh in Hlt, Hv.
      destruct (get_abbrev_table_ok s _ v HI Hlt Hv) as (c1 & A1 & E1 & L1 & HA).
      rewrite (bind_ok _ _ _ _ _ E1). unfold upd_cu. rewrite bind_modify. scbn.
      set (f := fun c0 => set_c_abbrev c0 (Some (fst v))).
      assert (Hmono : cus_mono (cus s) (upd_nth cu f (cus s))).
      { apply cus_mono_upd. intros c0 _. repeat split; auto using incl_refl. }
      eexists _, _. split; [reflexivity|]. split; [|split; [|split]].
      + destruct HI as [I1 I2 I3 I4 I5 I6 I7 I8 I9 I10 I11 I12 I13]. constructor; scbn; auto.
        * intros k id Hin. destruct (I3 _ _ Hin) as (c0 & Hc0 & Ec0).
          destruct (Hmono _ _ Hc0) as (c0' & Hc0' & Eo & _). exists c0'. split; congruence.
        * intros id x Hx. apply nth_error_upd_nth in Hx. destruct Hx as [(-> & y & Hy & ->)|(Hne & Hx)]; [|auto].
          destruct (I4 _ _ Hy) as (ud0 & Hs0 & Hl0 & Hh0 & Ho0 & Ha0).
          exists ud0. refine (conj Hs0 (conj Hl0 (conj Hh0 (conj Ho0 _)))).
          unfold f. cbn [set_c_abbrev c_abbrev c_hdr].
          assert (y = c) by congruence. subst y. destruct v as [t e]. cbn [fst]. eauto.
        * intros id d Hd. eapply die_ok_mono; [exact Hmono | apply dies_mono_refl | auto].
        * apply cuheap_upd; [intros c0; reflexivity|exact I11].
      + split; [scbn; exact Hmono|]. split; [scbn; apply dies_mono_refl|reflexivity].
      + reflexivity.
      + exists (f c). scbn. split; [apply nth_error_upd_nth_same; exact Hc|]. repeat split.
  Qed.

  (* ---------------------------------------------------------------- entries: DIE.__init__ *)
  Lemma p_die_at u o e : entry_at F u o = Some e -> p_die P u o = Ok (en_raw e, o + dr_size (en_raw e)).
  Proof. intros H. unfold P. pcbn. rewrite H. reflexivity. Qed.

  Lemma new_DIE_ok s cu c off e : Inv F s -> nth_error (cus s) cu = Some c -> entry_at F (c_off c) off = Some e ->
    exists s', new_DIE P cu off s =
                 (set_dies s' (dies s' ++ [mk_die cu off (en_raw e) None None]), Ok (length (dies s'))) /\
               Inv F s' /\ ext s s' /\ exists c', nth_error (cus s') cu = Some c' /\ same_cu c c'.
  Proof.
    intros HI Hc He. unfold new_DIE. rewrite (bind_get_cu _ _ _ _ Hc).
    assert (Hsid : (S_INFO < length (cur s))%nat) by (apply sid_ok; auto; unfold S_INFO, NSTREAMS; lia).
    pose proof (cur_only_seek_parse (p_die P (c_off c)) S_INFO off s Hsid) as X.
    rewrite (p_die_at _ _ _ He) in X. destruct X as (c1 & E1 & L1).
    rewrite (bind_assoc_ok _ _ _ _ _ _ E1).
    assert (HI1 : Inv F (set_cur s c1)) by (apply Inv_set_cur; auto).
    assert (Hc1 : nth_error (cus (set_cur s c1)) cu = Some c) by exact Hc.
    assert (Hstep : exists s2, (if dr_null (en_raw e) then ret tt else cu_get_abbrev_table P cu;;; ret tt) (set_cur s c1) = (s2, Ok tt) /\
                     Inv F s2 /\ ext s s2 /\ exists c', nth_error (cus s2) cu = Some c' /\ same_cu c c').
    { destruct (dr_null (en_raw e)).
      - exists (set_cur s c1). split; [reflexivity|]. split; [exact HI1|]. split; [apply ext_set_cur|].
        exists c. split; [assumption|apply same_cu_refl].
      - destruct (cu_get_abbrev_ok _ _ _ HI1 Hc1) as (s2 & t & E2 & HI2 & X2 & _ & Hc2).
        exists s2. rewrite (bind_ok _ _ _ _ _ E2). split; [reflexivity|]. split; [exact HI2|].
        split; [eapply ext_trans; [apply ext_set_cur|exact X2]|exact Hc2]. }
    destruct Hstep as (s2 & E2 & HI2 & X2 & Hc2).
    rewrite (bind_ok _ _ _ _ _ E2).
    destruct (cur_only_apply_eff (dr_eff (en_raw e)) s2) as (c3 & E3 & L3).
    rewrite (bind_ok _ _ _ _ _ E3).
    exists (set_cur s2 c3). split; [reflexivity|]. split; [apply Inv_set_cur; auto|].
    split; [eapply ext_trans; [exact X2|apply ext_set_cur]|exact Hc2].
  Qed.

  (* ---------------------------------------------------------------- the bisect-maintained entry cache:
     inserting the freshly parsed entry object at the bisect position re-establishes the invariant *)
  Lemma Inv_insert_die s cu c off e : Inv F s -> nth_error (cus s) cu = Some c ->
    entry_at F (c_off c) off = Some e -> ~ In off (c_diemap c) ->
    (c_diemap c = [] -> off = c_die_off c) -> c_die_off c <= off ->
    let i := bisect_right (c_diemap c) off in
    let f := fun c0 => set_c_cache c0 (list_insert i off (c_diemap c0)) (list_insert i (length (dies s)) (c_dielist c0)) in
    let s' := set_cus (set_dies s (dies s ++ [mk_die cu off (en_raw e) None None])) (upd_nth cu f (cus s)) in
    Inv F s' /\ ext s s' /\ die_at s' (length (dies s)) (c_off c) off.
  Proof.
    intros HI Hc He Hnin Hempty Hge i f s'.
    set (nd := mk_die cu off (en_raw e) None None).
    destruct (inv_cus _ _ HI _ _ Hc) as (ud & Hst & (Hso & Hnd & Hlen) & Hhd & Hobj & Hab).
    assert (Hmono : cus_mono (cus s) (upd_nth cu f (cus s))).
    { apply cus_mono_upd. intros c0 Hc0. assert (c0 = c) by congruence. subst c0.
      repeat split; auto. intros x Hx. destruct x as [k v]. unfold f. cbn [set_c_cache c_diemap c_dielist].
      apply in_combine_insert; auto. }
    assert (Hdm : dies_mono (dies s) (dies s ++ [nd])) by apply dies_mono_snoc.
    assert (Hfc : nth_error (upd_nth cu f (cus s)) cu = Some (f c)) by (apply nth_error_upd_nth_same; exact Hc).
    split; [|split].
    - destruct HI as [I1 I2 I3 I4 I5 I6 I7 I8 I9 I10 I11 I12 I13]. unfold s'. constructor; scbn; auto.
      + intros k id Hin. destruct (I3 _ _ Hin) as (c0 & Hc0 & Ec0).
        destruct (Hmono _ _ Hc0) as (c0' & Hc0' & Eo & _). exists c0'. split; congruence.
      + intros id x Hx. apply nth_error_upd_nth in Hx. destruct Hx as [(-> & y & Hy & ->)|(Hne & Hx)].
        * assert (y = c) by congruence. subst y. exists ud. unfold f. cbn [set_c_cache c_diemap c_dielist c_abbrev c_hdr c_off c_die_off].
          split; [exact Hst|]. split.
          { split; [apply sorted_insert_bisect; exact Hso|]. split; [apply NoDup_list_insert; auto|].
            rewrite !list_insert_length. congruence. }
          split.
          { unfold i. destruct (c_diemap c) as [|h r] eqn:Em.
            - cbn. apply Hempty. reflexivity.
            - destruct (insert_bisect_head off (h :: r) h r Hso eq_refl) as (r' & ->); [subst h; exact Hge|]. exact Hhd. }
          split; [|exact Hab].
          intros o did Hin. apply in_combine_insert in Hin; [|exact Hlen]. destruct Hin as [E|Hin].
          -- inversion E. subst. exists nd. split; [apply nth_error_snoc_new|]. split; reflexivity.
          -- destruct (Hobj _ _ Hin) as (d & Hd & E1 & E2). exists d. split; [apply nth_error_snoc_old; exact Hd|auto].
        * eapply cu_ok_mono; [exact Hdm|auto].
      + intros id d Hd. apply nth_error_snoc in Hd. destruct Hd as [[_ Hd]|[-> ->]].
        * eapply die_ok_mono; [exact Hmono|exact Hdm|auto].
        * exists (f c), e. unfold nd, f. cbn [d_cu d_off d_raw d_parent d_term set_c_cache c_off c_diemap c_dielist].
          split; [exact Hfc|]. split; [exact He|]. split; [reflexivity|].
          split; [apply in_combine_insert; auto|]. split; intros x Hx; discriminate.
      + apply cuheap_upd; [intros c0; reflexivity|exact I11].
    - unfold s'. split; [scbn; exact Hmono|]. split; [scbn; exact Hdm|reflexivity].
    - exists nd, (f c). unfold s'. scbn. split; [apply nth_error_snoc_new|]. split; [exact Hfc|]. split; reflexivity.
  Qed.

  Lemma entry_at_unit u o e : entry_at F u o = Some e -> exists ud, unit_at F u = Some ud /\ zassoc o (ud_entries ud) = Some e.
  Proof. unfold entry_at. destruct (unit_at F u) as [ud|]; [eauto|discriminate]. Qed.

  Lemma get_top_DIE_ok s cu c : Inv F s -> nth_error (cus s) cu = Some c ->
    exists s' id, get_top_DIE P cu s = (s', Ok id) /\ Inv F s' /\ ext s s' /\
                  die_at s' id (c_off c) (c_die_off c) /\
                  exists c', nth_error (cus s') cu = Some c' /\ c_diemap c' <> [].
  Proof.
    intros HI Hc. unfold get_top_DIE. rewrite (bind_get_cu _ _ _ _ Hc).
    destruct (inv_cus _ _ HI _ _ Hc) as (ud & Hst & (Hso & Hnd & Hlen) & Hhd & Hobj & Hab).
    destruct (c_diemap c) as [|h r] eqn:Em.
    - destruct (cu_facts _ _ _ HI Hc) as (ud' & Hu & Eh & Ed & Hw).
      destruct (top_entry F WF _ Hw) as (e & Hz & _).
      assert (He : entry_at F (c_off c) (c_die_off c) = Some e) by (unfold entry_at; rewrite Hu, Ed; exact Hz).
      destruct (new_DIE_ok s cu c _ e HI Hc He) as (s1 & E1 & HI1 & X1 & (c1 & Hc1 & S1)).
      rewrite (bind_ok _ _ _ _ _ E1). unfold upd_cu. rewrite bind_modify. scbn.
      destruct S1 as (So & Sh & Sd & Sm & Sl).
      assert (He1 : entry_at F (c_off c1) (c_die_off c) = Some e) by (rewrite So; exact He).
      edestruct (Inv_insert_die s1 cu c1 (c_die_off c) e HI1 Hc1 He1) as (HI2 & X2 & Hat).
      { rewrite Sm, Em. intros []. }
      { intros _. congruence. }
      { lia. }
      rewrite Sm, Em in HI2, X2, Hat. change (bisect_right [] (c_die_off c)) with 0%nat in HI2, X2, Hat.
      eexists _, _. split; [reflexivity|].
      assert (Hup : upd_nth cu (fun c0 => set_c_cache c0 (list_insert 0 (c_die_off c0) (c_diemap c0))
                                            (list_insert 0 (length (dies s1)) (c_dielist c0))) (cus s1) =
                    upd_nth cu (fun c0 => set_c_cache c0 (list_insert 0 (c_die_off c) (c_diemap c0))
                                            (list_insert 0 (length (dies s1)) (c_dielist c0))) (cus s1)).
      { clear -Hc1 Sd. revert Hc1. generalize (cus s1). intros l. revert cu.
        induction l as [|x l IH]; intros [|cu] H; cbn [upd_nth nth_error] in *; try reflexivity.
        - inversion H. subst. rewrite Sd. reflexivity.
        - f_equal. apply IH. exact H. }
      rewrite Hup. split; [exact HI2|]. split; [eapply ext_trans; eauto|]. split; [rewrite <- So; exact Hat|].
      eexists. scbn. split; [apply nth_error_upd_nth_same; exact Hc1|]. cbn. rewrite Sm, Em. discriminate.
    - destruct (c_dielist c) as [|did rl] eqn:El; [cbn in Hlen; discriminate|].
      unfold lift. cbn [py_index]. change (py_index (did :: rl) 0) with (Ok did) .
      exists s, did. split; [reflexivity|]. split; [exact HI|]. split; [apply ext_refl|]. split.
      + destruct (Hobj h did (or_introl eq_refl)) as (d & Hd & E1 & E2).
        exists d, c. rewrite E1. subst h. repeat split; auto.
      + exists c. split; auto. rewrite Em. discriminate.
  Qed.

  (* the object belongs to the unit object [cu] *)
  Definition die_in (s : state) (id cu : nat) (o : Z) : Prop :=
    exists d, nth_error (dies s) id = Some d /\ d_cu d = cu /\ d_off d = o.

  Lemma get_cached_DIE_ok' s cu c off e : Inv F s -> nth_error (cus s) cu = Some c ->
    entry_at F (c_off c) off = Some e ->
    exists s' id, get_cached_DIE P cu off s = (s', Ok id) /\ Inv F s' /\ ext s s' /\ die_at s' id (c_off c) off /\
                  die_in s' id cu off.
  Proof.
    intros HI Hc He. unfold get_cached_DIE.
    destruct (get_top_DIE_ok s cu c HI Hc) as (s1 & top & E1 & HI1 & X1 & _ & (c1 & Hc1 & Hne)).
    rewrite (bind_ok _ _ _ _ _ E1). rewrite (bind_get_cu _ _ _ _ Hc1).
    pose proof X1 as X1'. destruct X1 as (XA & XB & XF). destruct (XA _ _ Hc) as (c1' & Hc1' & Eo & Eh & Ed & _).
    assert (c1' = c1) by congruence. subst c1'.
    destruct (inv_cus _ _ HI1 _ _ Hc1) as (ud & (Hu & _ & Edo) & (Hso & Hnd & Hlen) & Hhd & Hobj & Hab).
    destruct (entry_at_unit _ _ _ He) as (ud' & Hu' & Hz). rewrite <- Eo in Hu'.
    assert (ud' = ud) by congruence. subst ud'.
    pose proof (entry_range F WF _ _ _ _ Hu Hz) as Hrange. rewrite <- Edo in Hrange.
    assert (Hhead : exists r, c_diemap c1 = c_die_off c1 :: r).
    { destruct (c_diemap c1) as [|h r]; [contradiction|]. exists r. congruence. }
    destruct Hhead as (r & Em).
    set (i := bisect_right (c_diemap c1) off).
    assert (Hi : i = count_le off (c_diemap c1)) by (apply bisect_right_count; exact Hso).
    assert (Hi1 : (1 <= i)%nat).
    { rewrite Hi, Em, count_le_cons. destruct (Z.leb_spec (c_die_off c1) off); lia. }
    pose proof (count_le_bound off (c_diemap c1)) as Hb. rewrite <- Hi in Hb.
    fold i.
    destruct (nth_error (c_diemap c1) (i - 1)) as [k|] eqn:Hk; [|apply nth_error_None in Hk; lia].
    rewrite (py_index_pred _ _ _ Hi1 Hk). rewrite bind_lift_ok.
    destruct (Z.eqb_spec off k) as [<-|Hne'].
    - destruct (nth_error (c_dielist c1) (i - 1)) as [did|] eqn:Hd; [|apply nth_error_None in Hd; lia].
      rewrite (py_index_pred _ _ _ Hi1 Hd). unfold lift.
      exists s1, did. split; [reflexivity|]. split; [exact HI1|]. split; [exact X1'|].
      destruct (Hobj off did (nth_combine_in _ _ _ _ _ Hk Hd)) as (d & Hdd & E2 & E3).
      split; [exists d, c1; rewrite E2; repeat split; auto|]. exists d. auto.
    - assert (Hnin : ~ In off (c_diemap c1)).
      { intros Hin. destruct (count_le_hit off _ Hso Hin) as [_ Hn]. rewrite <- Hi in Hn.
        apply (nth_error_nth_default _ _ 0) in Hk. congruence. }
      assert (He1 : entry_at F (c_off c1) off = Some e) by (rewrite Eo; exact He).
      destruct (new_DIE_ok s1 cu c1 off e HI1 Hc1 He1) as (s2 & E2 & HI2 & X2 & (c2 & Hc2 & S2)).
      rewrite (bind_ok _ _ _ _ _ E2). unfold upd_cu. rewrite bind_modify. scbn.
      destruct S2 as (So & Sh & Sd & Sm & Sl).
      assert (He2 : entry_at F (c_off c2) off = Some e) by (rewrite So; exact He1).
      edestruct (Inv_insert_die s2 cu c2 off e HI2 Hc2 He2) as (HI3 & X3 & Hat).
      { rewrite Sm. exact Hnin. }
      { rewrite Sm, Em. discriminate. }
      { rewrite Sd. lia. }
      rewrite Sm in HI3, X3, Hat. fold i in HI3, X3, Hat.
      eexists _, _. split; [reflexivity|]. split; [exact HI3|].
      split; [eapply ext_trans; [exact X1'|eapply ext_trans; [exact X2|exact X3]]|].
      split; [rewrite <- Eo, <- So; exact Hat|].
      eexists. scbn. split; [apply nth_error_snoc_new|]. split; reflexivity.
  Qed.

  Lemma get_cached_DIE_ok s cu c off e : Inv F s -> nth_error (cus s) cu = Some c ->
    entry_at F (c_off c) off = Some e ->
    exists s' id, get_cached_DIE P cu off s = (s', Ok id) /\ Inv F s' /\ ext s s' /\ die_at s' id (c_off c) off.
  Proof.
    intros HI Hc He. destruct (get_cached_DIE_ok' s cu c off e HI Hc He) as (s' & id & A & B & C & D & _). eauto 8.
  Qed.

  (* CompileUnit.get_DIE_from_refaddr on the offset of an entry of the unit *)
  Lemma cu_get_DIE_ok s cu c off e : Inv F s -> nth_error (cus s) cu = Some c ->
    entry_at F (c_off c) off = Some e ->
    exists s' id, cu_get_DIE_from_refaddr P cu off s = (s', Ok id) /\ Inv F s' /\ ext s s' /\ die_at s' id (c_off c) off.
  Proof.
    intros HI Hc He. unfold cu_get_DIE_from_refaddr. rewrite (bind_get_cu _ _ _ _ Hc).
    destruct (cu_facts _ _ _ HI Hc) as (ud & Hu & Eh & Ed & Hw).
    destruct (entry_at_unit _ _ _ He) as (ud' & Hu' & Hz). assert (ud' = ud) by congruence. subst ud'.
    pose proof (entry_range F WF _ _ _ _ Hu Hz) as Hr. unfold usize in Hr. rewrite <- Ed, <- Eh in Hr.
    destruct (Z.leb_spec (c_die_off c) off); [|lia].
    destruct (Z.ltb_spec off (c_off c + uh_size (c_hdr c))); [|lia]. cbn [andb].
    eapply get_cached_DIE_ok; eauto.
  Qed.

  (* <DIE u o> *)
  Lemma the_DIE_ok s u o e : Inv F s -> entry_at F u o = Some e ->
    exists s' id, the_DIE P u o s = (s', Ok id) /\ Inv F s' /\ ext s s' /\ die_at s' id u o.
  Proof.
    intros HI He. unfold the_DIE. destruct (entry_at_unit _ _ _ He) as (ud & Hu & Hz).
    destruct (get_CU_at_ok s u ud HI Hu) as (s1 & cu & E1 & HI1 & X1 & (c & Hc & Eo)).
    rewrite (bind_ok _ _ _ _ _ E1). subst u.
    destruct (cu_get_DIE_ok s1 cu c o e HI1 Hc He) as (s2 & id & E2 & HI2 & X2 & Hat).
    exists s2, id. unfold bindM in E2 |- *. split; [exact E2|]. split; [exact HI2|]. split; [eapply ext_trans; eauto|exact Hat].
  Qed.

  (* DWARFInfo.get_DIE_from_refaddr *)
  Lemma di_get_DIE_ok s a ud e : Inv F s -> 0 <= a < f_info_size F -> unit_containing F a = Some ud ->
    entry_at F (ud_off ud) a = Some e ->
    exists s' id, di_get_DIE_from_refaddr P fuel a s = (s', Ok id) /\ Inv F s' /\ ext s s' /\ die_at s' id (ud_off ud) a.
  Proof.
    intros HI Ha Hu He. unfold di_get_DIE_from_refaddr.
    destruct (get_CU_containing_ok s a HI Ha) as (ud' & s1 & cu & Hu' & E1 & HI1 & X1 & (c & Hc & Eo)).
    assert (ud' = ud) by congruence. subst ud'.
    rewrite (bind_ok _ _ _ _ _ E1). rewrite <- Eo in He.
    destruct (cu_get_DIE_ok s1 cu c a e HI1 Hc He) as (s2 & id & E2 & HI2 & X2 & Hat).
    exists s2, id. rewrite <- Eo. split; [exact E2|]. split; [exact HI2|]. split; [eapply ext_trans; eauto|exact Hat].
  Qed.
End Units.
