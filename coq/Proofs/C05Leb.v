(* Proofs/C05Leb.v — the executable LEB128 encoders used by the C05 generators (canonical encoding
   plus any number of padding continuation bytes) produce valid encodings, so the bytes the
   correspondence feeds to the implementation are inside the hypotheses of the C05 theorems. *)
From PV Require Import Base.Bytes Spec.PrimSpec Proofs.PrimProofs Spec.C05Line.
From Coq Require Import ZifyBool.
Ltac Zify.zify_post_hook ::= Z.to_euclidean_division_equations.
Open Scope list_scope.
Open Scope Z_scope.

Lemma uleb_valid_nonempty e v : uleb_valid e v -> e <> [].
Proof. intros H; inversion H; discriminate. Qed.
Lemma sleb_valid_nonempty e v : sleb_valid e v -> e <> [].
Proof. intros H; inversion H; discriminate. Qed.
Lemma uleb_valid_len e v : uleb_valid e v -> 1 <= zlen e.
Proof. intros H; inversion H; subst; rewrite zlen_cons; pose proof (zlen_nonneg (A:=Z)); 
  match goal with |- 1 <= 1 + zlen ?l => pose proof (zlen_nonneg l) end; lia. Qed.
Lemma sleb_valid_len e v : sleb_valid e v -> 1 <= zlen e.
Proof. intros H; inversion H; subst; rewrite zlen_cons;
  match goal with |- 1 <= 1 + zlen ?l => pose proof (zlen_nonneg l) end; lia. Qed.

(* ---- unsigned *)
Lemma uleb_pad_zero_valid k : uleb_valid (uleb_pad_zero k) 0.
Proof.
  induction k as [|k IH]; cbn [uleb_pad_zero].
  - constructor; lia.
  - eapply uv_more'; [| exact IH |]; lia.
Qed.

Lemma uleb_pad_valid bs v n : uleb_valid bs v -> uleb_valid (uleb_pad bs n) v.
Proof.
  intros H. induction H as [b Hb | b r v Hb Hr IH].
  - cbn [uleb_pad]. destruct n as [|k]; [constructor; exact Hb|].
    eapply uv_more'; [| apply uleb_pad_zero_valid |]; lia.
  - destruct r as [|b' r']; [exfalso; eapply uleb_valid_nonempty; eauto|].
    change (uleb_pad (b :: b' :: r') n) with (b :: uleb_pad (b' :: r') n).
    constructor; auto.
Qed.

Theorem uleb_enc_valid v k : 0 <= v -> uleb_valid (uleb_enc v k) v.
Proof. intros H. unfold uleb_enc. apply uleb_pad_valid, uleb_encode_valid, H. Qed.

(* ---- signed *)
Lemma sv_more' b r v v' : 128 <= b < 256 -> sleb_valid r v ->
  v' = (b - 128) + 128 * v -> sleb_valid (b :: r) v'.
Proof. intros Hb Hr ->. constructor; auto. Qed.

Lemma sleb_encode_fuel_valid fuel : forall v,
  - 2 ^ (7 * Z.of_nat fuel + 6) <= v < 2 ^ (7 * Z.of_nat fuel + 6) ->
  sleb_valid (sleb_encode_fuel fuel v) v.
Proof.
  induction fuel as [|f IH]; intros v Hv.
  - cbn [sleb_encode_fuel]. change (2 ^ (7 * Z.of_nat 0 + 6)) with 64 in Hv.
    destruct (Z.ltb_spec v 0) as [Hn|Hp].
    + replace v with (v mod 128 - 128) at 2 by lia. apply sv_neg. lia.
    + rewrite Z.mod_small by lia. apply sv_pos. lia.
  - cbn [sleb_encode_fuel].
    destruct (Z.leb_spec (-64) v) as [Hlo|Hlo]; destruct (Z.ltb_spec v 64) as [Hhi|Hhi]; cbn [andb].
    + destruct (Z.ltb_spec v 0) as [Hn|Hp].
      * replace v with (v mod 128 - 128) at 2 by lia. apply sv_neg. lia.
      * rewrite Z.mod_small by lia. apply sv_pos. lia.
    + eapply sv_more'; [| apply IH |]; try lia.
      replace (7 * Z.of_nat (S f) + 6) with (7 + (7 * Z.of_nat f + 6)) in Hv by lia.
      rewrite Z.pow_add_r in Hv by lia. change (2 ^ 7) with 128 in Hv.
      assert (0 < 2 ^ (7 * Z.of_nat f + 6)) by (apply Z.pow_pos_nonneg; lia). lia.
    + eapply sv_more'; [| apply IH |]; try lia.
      replace (7 * Z.of_nat (S f) + 6) with (7 + (7 * Z.of_nat f + 6)) in Hv by lia.
      rewrite Z.pow_add_r in Hv by lia. change (2 ^ 7) with 128 in Hv.
      assert (0 < 2 ^ (7 * Z.of_nat f + 6)) by (apply Z.pow_pos_nonneg; lia). lia.
    + lia.
Qed.

Theorem sleb_encode_valid v : sleb_valid (sleb_encode v) v.
Proof.
  unfold sleb_encode. apply sleb_encode_fuel_valid.
  set (a := Z.abs v). set (n := Z.log2 a).
  assert (Hn : 0 <= n) by apply Z.log2_nonneg.
  assert (Ha : a < 2 ^ (n + 1)).
  { destruct (Z.eq_dec a 0) as [E|E].
    - rewrite E. apply Z.pow_pos_nonneg; lia.
    - pose proof (Z.log2_spec a ltac:(unfold a in *; lia)) as [_ Hhi].
      replace (n + 1) with (Z.succ n) by lia. exact Hhi. }
  assert (Hle : 2 ^ (n + 1) <= 2 ^ (7 * Z.of_nat (S (Z.to_nat n)) + 6)).
  { apply Z.pow_le_mono_r; [lia|]. rewrite Nat2Z.inj_succ, Z2Nat.id by lia. lia. }
  unfold a in *. lia.
Qed.

Lemma sleb_pad_tail_valid neg k : sleb_valid (sleb_pad_tail neg k) (if neg then -1 else 0).
Proof.
  induction k as [|k IH]; cbn [sleb_pad_tail].
  - destruct neg.
    + change (-1) with (127 - 128). apply sv_neg. lia.
    + apply sv_pos. lia.
  - destruct neg.
    + eapply sv_more'; [| exact IH |]; lia.
    + eapply sv_more'; [| exact IH |]; lia.
Qed.

Lemma sleb_pad_valid bs v n : sleb_valid bs v -> sleb_valid (sleb_pad bs (v <? 0) n) v.
Proof.
  intros H. induction H as [b Hb | b Hb | b r v Hb Hr IH].
  - cbn [sleb_pad]. destruct n as [|k]; [apply sv_pos; exact Hb|].
    destruct (Z.ltb_spec b 0); [lia|].
    eapply sv_more'; [| apply (sleb_pad_tail_valid false) |]; lia.
  - cbn [sleb_pad]. destruct n as [|k]; [apply sv_neg; exact Hb|].
    destruct (Z.ltb_spec (b - 128) 0); [|lia].
    eapply sv_more'; [| apply (sleb_pad_tail_valid true) |]; lia.
  - destruct r as [|b' r']; [exfalso; eapply sleb_valid_nonempty; eauto|].
    replace (b - 128 + 128 * v <? 0) with (v <? 0) by lia.
    change (sleb_pad (b :: b' :: r') (v <? 0) n) with (b :: sleb_pad (b' :: r') (v <? 0) n).
    constructor; auto.
Qed.

Theorem sleb_enc_valid v k : sleb_valid (sleb_enc v k) v.
Proof. unfold sleb_enc. apply sleb_pad_valid, sleb_encode_valid. Qed.
