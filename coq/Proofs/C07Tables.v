(* Proofs/C07Tables.v — the tables regenerated from the live modules (Gen/C07Tables.v) are the
   standard's: enum values, operand kinds per entry kind, unit header layout; the entry_translate
   tables implement the meaning of every entry kind.  Every lemma here is about the Gen terms, so an
   edit of the data in /repo changes Gen and stops one of these proofs. *)
From Coq Require Import String.
From PV Require Import Base.Bytes Base.Outcome Base.Prim Base.Enum Spec.PrimSpec Proofs.PrimProofs
  Model.C07Kinds Model.C07Lists Model.C07Inst Gen.C07Tables Spec.C07Lists Proofs.C07V4 Proofs.C07V5.
From Coq Require Import ZArith List Bool Lia ZifyBool.
Import ListNotations.
Open Scope string_scope.
Open Scope list_scope.
Open Scope Z_scope.

(* ------------------------------------------------------------------ same entries, any order *)
Ltac in_list := cbn [In]; repeat (first [left; reflexivity | right]); fail.
Ltac same_entries :=
  intros e; split; intros H; cbn [In] in H;
  repeat (destruct H as [<-|H]; [in_list|]); destruct H.

Lemma lle_enum_standard : forall e, In e gen_ENUM_DW_LLE <-> In e spec_ENUM_DW_LLE.
Proof. unfold gen_ENUM_DW_LLE, spec_ENUM_DW_LLE. same_entries. Qed.

Lemma rle_enum_standard : forall e, In e gen_ENUM_DW_RLE <-> In e spec_ENUM_DW_RLE.
Proof. unfold gen_ENUM_DW_RLE, spec_ENUM_DW_RLE. same_entries. Qed.

Lemma unit_headers_standard :
  gen_loclists_CU_header = spec_list_header /\ gen_rnglists_CU_header = spec_list_header.
Proof. split; reflexivity. Qed.

(* operand kinds of every entry kind (the Switch of the entry struct) *)
Lemma lle_struct_standard : forall x,
  assoc gen_lle_switch (lle_name x) = Some (op_kinds (lle_ops x)).
Proof. intros x; destruct x; reflexivity. Qed.

Lemma rle_struct_standard : forall x,
  assoc gen_rle_switch (rle_name x) = Some (op_kinds (rle_ops x)).
Proof. intros x; destruct x; reflexivity. Qed.

(* ------------------------------------------------------------------ tables_ok *)
Lemma length_expr_ok (t : texpr) :
  t = TSub (TField "entry_end_offset") (TField "entry_offset") ->
  forall c off e, cget c "entry_offset" = Some (FInt off) -> cget c "entry_end_offset" = Some (FInt e) ->
  eval_texpr no_addr c t = Ok (FInt (e - off)).
Proof. intros -> c off e Ho He. cbn [eval_texpr]. rewrite Ho, He. reflexivity. Qed.

Lemma lle_tables_ok : tables_ok LLE_TABLES lle_code lle_name lle_ops "DW_LLE_end_of_list".
Proof.
  constructor; try reflexivity; try (intros x; destruct x; reflexivity).
  apply length_expr_ok. reflexivity.
Qed.

Lemma rle_tables_ok : tables_ok RLE_TABLES rle_code rle_name rle_ops "DW_RLE_end_of_list".
Proof.
  constructor; try reflexivity; try (intros x; destruct x; reflexivity).
  apply length_expr_ok. reflexivity.
Qed.

(* ------------------------------------------------------------------ entry_translate implements the meaning *)
Lemma wf_index_range n u : wf_index n u = true -> 0 <= fst u < n.
Proof. unfold wf_index. lia. Qed.

Section Translate.
  Variables (tbl : list Z) (addr : Z -> res Z).
  Hypothesis ADDR : forall i, 0 <= i < zlen tbl -> addr i = Ok (addr_at tbl i).

  Lemma lle_translate_standard asz off len x :
    wf_lle asz (zlen tbl) x = true ->
    translate_entry LLE_TABLES addr (lle_raw off len x) = Ok (lle_tup tbl off len x).
  Proof.
    intros Hwf. destruct x; cbn [wf_lle] in Hwf;
      repeat match goal with
             | H : _ && _ = true |- _ => apply andb_prop in H; destruct H
             | H : wf_index _ _ = true |- _ => apply wf_index_range in H
             end;
      unfold translate_entry; cbn [lle_raw raw_entry lle_name lle_ops map fst snd opval_fval app cget assoc
                                    String.eqb Ascii.eqb Bool.eqb];
      cbn [LLE_TABLES et_translate gen_lle_translate assoc String.eqb Ascii.eqb Bool.eqb];
      cbn [mapM eval_texpr cget assoc String.eqb Ascii.eqb Bool.eqb bind];
      rewrite ?ADDR by assumption; cbn [bind mapM]; rewrite ?ADDR by assumption; cbn [bind];
      reflexivity.
  Qed.

  Lemma rle_translate_standard asz off len x :
    wf_rle asz (zlen tbl) x = true ->
    translate_entry RLE_TABLES addr (rle_raw off len x) = Ok (rle_tup tbl off len x).
  Proof.
    intros Hwf. destruct x; cbn [wf_rle] in Hwf;
      repeat match goal with
             | H : _ && _ = true |- _ => apply andb_prop in H; destruct H
             | H : wf_index _ _ = true |- _ => apply wf_index_range in H
             end;
      unfold translate_entry; cbn [rle_raw raw_entry rle_name rle_ops map fst snd opval_fval app cget assoc
                                    String.eqb Ascii.eqb Bool.eqb];
      cbn [RLE_TABLES et_translate gen_rle_translate assoc String.eqb Ascii.eqb Bool.eqb];
      cbn [mapM eval_texpr cget assoc String.eqb Ascii.eqb Bool.eqb bind];
      rewrite ?ADDR by assumption; cbn [bind mapM]; rewrite ?ADDR by assumption; cbn [bind];
      reflexivity.
  Qed.
End Translate.
