(* Proofs/C01Top.v — C01: the statements exposed by Props/C01.v, about any [ef] returned by
   elf_open on a well-formed image. *)
From Coq Require Import String.
From PV Require Import Base.Bytes Base.Outcome Base.Prim Base.Fmt Base.Enum Base.PyData.
From PV Require Import Gen.ElfLayouts Gen.Tables Gen.PyFuns.
From PV Require Import Spec.PrimSpec Spec.ElfGabi Spec.C01Obs Spec.C01Image Model.C01ElfFile.
From PV Require Import Proofs.ElfLayoutFacts.
From PV Require Import Proofs.C01Lemmas Proofs.C01Records Proofs.C01Open Proofs.C01Sections Proofs.C01Iter
  Proofs.C01Dispatch Proofs.C01Machines.
From PV Require Import Spec.C01Machines.
From Coq Require Import ZifyBool.
Open Scope string_scope.
Open Scope list_scope.
Open Scope Z_scope.

Lemma gen_layouts_match_gabi le is64 :
  gen_Elf_Ehdr le is64 = spec_Elf_Ehdr le is64 /\
  gen_Elf_Shdr le is64 = spec_Elf_Shdr le is64 /\
  gen_Elf_Phdr le is64 = spec_Elf_Phdr le is64.
Proof. split; [apply gen_Elf_Ehdr_gabi|split; [apply gen_Elf_Shdr_gabi|apply gen_Elf_Phdr_gabi]]. Qed.

Lemma opened img s ef : wf_image img s = true -> elf_open img = Ok ef -> ef = exp_file img s.
Proof. intros Hwf Ho. rewrite (open_ok img s Hwf) in Ho. inversion Ho. reflexivity. Qed.

Lemma open_exact img s : wf_image img s = true ->
  exists ef, elf_open img = Ok ef /\
    c_img (ef_core ef) = img /\ c_is64 (ef_core ef) = i_is64 s /\ c_le (ef_core ef) = i_le s /\
    c_hdr (ef_core ef) = exp_ehdr s.
Proof. intros Hwf. exists (exp_file img s). split; [apply open_ok; exact Hwf|]. repeat split. Qed.

Lemma shdr_at_exact img s ef i x : wf_image img s = true -> elf_open img = Ok ef ->
  nth_sec s i = Some x -> get_section_header (ef_core ef) i = Ok (Some (exp_shdr s (snd x))).
Proof. intros Hwf Ho Hx. rewrite (opened img s ef Hwf Ho). apply section_header_ok; assumption. Qed.

Lemma phdr_at_exact img s ef j p : wf_image img s = true -> elf_open img = Ok ef ->
  nth_seg s j = Some p -> get_segment_header (ef_core ef) j = Ok (exp_phdr s p).
Proof. intros Hwf Ho Hp. rewrite (opened img s ef Hwf Ho). apply segment_header_ok; assumption. Qed.

Lemma shstrndx_ok img s : wf_image img s = true -> get_shstrndx (exp_core img s) = Ok (i_shstrndx s).
Proof.
  intros Hwf. destruct (Z.eq_dec (n_sections s) 0) as [E|E].
  - pose proof (wf_counts img s Hwf) as H. rewrite counts_ok_eq in H. cbv zeta in H.
    destruct (Z.eqb_spec (n_sections s) 0) as [_|N]; [|contradiction].
    unfold get_shstrndx. rewrite hdr_shstrndx, SHN_XINDEX_val.
    assert (E0 : e_shstrndx (i_ehdr s) = 0) by lia. assert (K0 : i_shstrndx s = 0) by lia.
    rewrite E0, K0. reflexivity.
  - apply get_shstrndx_ok; [exact Hwf|]. pose proof (zlen_nonneg (i_sections s)). unfold n_sections in *. lia.
Qed.

Lemma counts_exact img s ef : wf_image img s = true -> elf_open img = Ok ef ->
  num_sections ef = Ok (n_sections s) /\ num_segments ef = Ok (n_segments s) /\
  get_shstrndx (ef_core ef) = Ok (i_shstrndx s).
Proof.
  intros Hwf Ho. rewrite (opened img s ef Hwf Ho).
  split; [apply num_sections_ok; exact Hwf|]. split; [apply num_segments_ok; exact Hwf|].
  apply shstrndx_ok. exact Hwf.
Qed.

Lemma names_exact img s ef i x : wf_image img s = true -> elf_open img = Ok ef ->
  nth_sec s i = Some x -> get_section_name ef (Some (exp_shdr s (snd x))) = Ok (fst x).
Proof.
  intros Hwf Ho Hx. rewrite (opened img s ef Hwf Ho).
  apply section_name_ok; [exact Hwf|exact (nth_sec_in _ _ _ Hx)].
Qed.

Lemma section_exact img s ef i x : wf_image img s = true -> elf_open img = Ok ef ->
  nth_sec s i = Some x -> get_section ef i = Ok (sec_of s x).
Proof. intros Hwf Ho Hx. rewrite (opened img s ef Hwf Ho). apply get_section_ok; assumption. Qed.

Lemma segment_exact img s ef j p : wf_image img s = true -> elf_open img = Ok ef ->
  nth_seg s j = Some p -> get_segment ef j = Ok (seg_of s p).
Proof. intros Hwf Ho Hp. rewrite (opened img s ef Hwf Ho). apply get_segment_ok; assumption. Qed.

Lemma iter_sections_exact img s ef ty : wf_image img s = true -> elf_open img = Ok ef ->
  iter_sections ef ty =
  Ok (map (sec_of s) (match ty with
                      | None => i_sections s
                      | Some t => filter (fun x => hval_eqb (sh_tyname s (snd x)) t) (i_sections s)
                      end)).
Proof. intros Hwf Ho. rewrite (opened img s ef Hwf Ho). apply iter_sections_ok. exact Hwf. Qed.

Lemma iter_segments_exact img s ef ty : wf_image img s = true -> elf_open img = Ok ef ->
  iter_segments ef ty =
  Ok (map (seg_of s) (match ty with
                      | None => i_segments s
                      | Some t => filter (fun p => hval_eqb (p_tyname s p) t) (i_segments s)
                      end)).
Proof. intros Hwf Ho. rewrite (opened img s ef Hwf Ho). apply iter_segments_ok. exact Hwf. Qed.

(* lookups by index agree with the enumeration *)
Lemma index_agrees img s ef i : wf_image img s = true -> elf_open img = Ok ef ->
  0 <= i < n_sections s ->
  exists sec l, get_section ef i = Ok sec /\ iter_sections ef None = Ok l /\
                nth_error l (Z.to_nat i) = Some sec.
Proof.
  intros Hwf Ho Hi. destruct (nth_sec_some s i Hi) as [x Hx].
  exists (sec_of s x), (map (sec_of s) (i_sections s)).
  split; [exact (section_exact img s ef i x Hwf Ho Hx)|].
  split; [exact (iter_sections_exact img s ef None Hwf Ho)|].
  apply nth_sec_inv in Hx. destruct Hx as [_ Hx]. rewrite nth_error_map, Hx. reflexivity.
Qed.

Lemma lookup_agrees img s ef name : wf_image img s = true -> elf_open img = Ok ef ->
  get_section_index ef name = Ok (exp_index_by_name s name) /\
  has_section ef name = Ok (match exp_index_by_name s name with Some _ => true | None => false end) /\
  get_section_by_name ef name =
    Ok (match exp_index_by_name s name with
        | Some j => match nth_sec s j with Some x => Some (sec_of s x) | None => None end
        | None => None
        end).
Proof.
  intros Hwf Ho. rewrite (opened img s ef Hwf Ho).
  split; [apply section_index_ok; exact Hwf|]. split; [apply has_section_ok; exact Hwf|].
  apply section_by_name_ok. exact Hwf.
Qed.

(* what the expected answer of a lookup is: the section with the greatest index among those
   bearing the name; nothing iff no section bears it *)
Lemma lookup_meaning s name :
  (forall j, exp_index_by_name s name = Some j ->
     exists x, nth_sec s j = Some x /\ fst x = name /\
               forall j' x', nth_sec s j' = Some x' -> fst x' = name -> j' <= j) /\
  (exp_index_by_name s name = None <-> forall x, In x (i_sections s) -> fst x <> name).
Proof.
  split.
  - intros j H. destruct (index_by_name_nth s name j H) as (x & Hx & Hn).
    exists x. split; [exact Hx|]. split; [exact Hn|].
    intros j' x' Hx' Hn'. unfold exp_index_by_name in H.
    destruct (index_of_last_some name _ _ _ H) as (_ & _ & Hmax).
    apply nth_sec_inv in Hx'. destruct Hx' as [Hr Hx'].
    specialize (Hmax _ _ Hx' Hn'). lia.
  - apply index_of_last_none.
Qed.

(* the enum-typed fields of the three records, and the dictionaries they are decoded with *)
Lemma enum_fields img s ef : wf_image img s = true -> elf_open img = Ok ef ->
  let h := c_hdr (ef_core ef) in let e := i_ehdr s in
  hty h "e_ident.EI_VERSION" = named (T_ehdr "e_ident.EI_VERSION") (ei_version e) /\
  hty h "e_ident.EI_OSABI" = named (T_ehdr "e_ident.EI_OSABI") (ei_osabi e) /\
  hty h "e_type" = named (T_ehdr "e_type") (e_type e) /\
  hty h "e_machine" = named (T_ehdr "e_machine") (e_machine e) /\
  hty h "e_version" = named (T_ehdr "e_version") (e_version e) /\
  (forall i x, nth_sec s i = Some x -> exists r,
     get_section_header (ef_core ef) i = Ok (Some r) /\
     hty r "sh_type" = named (T_sh_type s) (sh_type (snd x))) /\
  (forall j p, nth_seg s j = Some p -> exists r,
     get_segment_header (ef_core ef) j = Ok r /\ hty r "p_type" = named (T_p_type s) (p_type p)).
Proof.
  intros Hwf Ho. rewrite (opened img s ef Hwf Ho). cbv zeta.
  change (c_hdr (ef_core (exp_file img s))) with (exp_ehdr s).
  split; [|split; [|split; [|split; [|split; [|split]]]]].
  6:{ intros i x Hx. exists (exp_shdr s (snd x)). split; [apply section_header_ok; assumption|].
      rewrite shdr_get_type. reflexivity. }
  6:{ intros j p Hp. exists (exp_phdr s p). split; [apply segment_header_ok; assumption|].
      rewrite phdr_get_type. reflexivity. }
  all: unfold exp_ehdr;
    generalize (named (T_ehdr "e_ident.EI_VERSION") (ei_version (i_ehdr s)));
    generalize (named (T_ehdr "e_ident.EI_OSABI") (ei_osabi (i_ehdr s)));
    generalize (named (T_ehdr "e_type") (e_type (i_ehdr s)));
    generalize (named (T_ehdr "e_machine") (e_machine (i_ehdr s)));
    generalize (named (T_ehdr "e_version") (e_version (i_ehdr s)));
    intros v1 v2 v3 v4 v5; reflexivity.
Qed.

(* the dictionaries of an image are the ones its decoded e_machine selects *)
Lemma image_dicts s :
  T_sh_type s = sh_dict (machine_key (exp_machine s)) /\ T_p_type s = p_dict (machine_key (exp_machine s)).
Proof. split; reflexivity. Qed.

(* the extended-numbering rules with their thresholds, as the well-formedness predicate reads
   them (gABI: e_shnum, e_phnum, e_shstrndx): below the threshold the field may hold the value
   itself (or use the escape), from the threshold on the escape is the only encoding *)
Lemma escape_thresholds img s : wf_image img s = true ->
  let e := i_ehdr s in
  (0 < n_sections s -> n_sections s < 0xff00 ->
     e_shnum e = n_sections s \/ (e_shnum e = 0 /\ sh_size (sec0 s) = n_sections s)) /\
  (0xff00 <= n_sections s -> e_shnum e = 0 /\ sh_size (sec0 s) = n_sections s) /\
  (0 < n_segments s -> n_segments s < 0xffff ->
     e_phnum e = n_segments s \/ (e_phnum e = 0xffff /\ sh_info (sec0 s) = n_segments s)) /\
  (0xffff <= n_segments s -> e_phnum e = 0xffff /\ sh_info (sec0 s) = n_segments s) /\
  (0 < n_sections s -> i_shstrndx s < 0xff00 ->
     e_shstrndx e = i_shstrndx s \/ (e_shstrndx e = 0xffff /\ sh_link (sec0 s) = i_shstrndx s)) /\
  (0xff00 <= i_shstrndx s -> e_shstrndx e = 0xffff /\ sh_link (sec0 s) = i_shstrndx s).
Proof.
  intros Hwf. cbv zeta.
  pose proof (counts_sections img s Hwf) as H1. pose proof (counts_segments img s Hwf) as H2.
  unfold SHN_LORESERVE, PN_XNUM in *.
  assert (H3 : 0 < n_sections s -> 0 <= i_shstrndx s < n_sections s /\
     ((e_shstrndx (i_ehdr s) = i_shstrndx s /\ i_shstrndx s < 65280) \/
      (e_shstrndx (i_ehdr s) = 65535 /\ sh_link (sec0 s) = i_shstrndx s))).
  { intros Hn. exact (counts_strndx img s Hwf Hn). }
  assert (H4 : n_sections s = 0 -> i_shstrndx s = 0) by exact (counts_strndx0 img s Hwf).
  pose proof (zlen_nonneg (i_sections s)) as Hn0. fold (n_sections s) in Hn0.
  repeat split; intros; try lia.
  all: destruct (Z.eq_dec (n_sections s) 0) as [E|E]; [lia|]; specialize (H3 ltac:(lia)); lia.
Qed.
