(* Proofs/C01Dispatch.v — C01, part 5: facts about the model that hold for EVERY stream
   (no well-formedness hypothesis): whenever _make_section / _make_segment produce an
   object, its class is the one the decoded type calls for; construct's Enum adapter
   yields a dictionary name or the raw integer. *)
From Coq Require Import String.
From PV Require Import Base.Bytes Base.Outcome Base.Prim Base.Fmt Base.Enum Base.PyData.
From PV Require Import Gen.ElfLayouts Gen.Tables Gen.PyFuns.
From PV Require Import Spec.PrimSpec Spec.ElfGabi Spec.C01Obs Spec.C01Image Model.C01ElfFile.
From PV Require Import Proofs.C01Lemmas Proofs.C01Sections.
Open Scope string_scope.
Open Scope list_scope.
Open Scope Z_scope.

Lemma mk_sect_inv ef r nm k sec :
  mk_sect ef r nm k = Ok sec -> sec = {| s_name := nm; s_hdr := r; s_kind := k |}.
Proof.
  unfold mk_sect. destruct (section_init (ef_core ef) r); cbn [bind]; intros H; [|discriminate].
  inversion H. reflexivity.
Qed.

Lemma make_symtab_inv ef r nm sec :
  make_symbol_table_section ef r nm = Ok sec ->
  sec = {| s_name := nm; s_hdr := r; s_kind := "SymbolTableSection" |}.
Proof.
  unfold make_symbol_table_section.
  destruct (get_linked_strtab_section ef (hz r "sh_link")); cbn [bind]; [|discriminate].
  destruct (mk_sect ef r nm "SymbolTableSection") as [s0|] eqn:E; cbn [bind]; [|discriminate].
  apply mk_sect_inv in E. subst s0.
  destruct (elf_assert (0 <? hz r "sh_entsize")); cbn [bind]; [|discriminate].
  destruct (elf_assert (hz r "sh_size" mod hz r "sh_entsize" =? 0)); cbn [bind]; [|discriminate].
  intros H. inversion H. reflexivity.
Qed.

Ltac inv_chain H :=
  repeat match type of H with
  | bind ?m _ = Ok _ => let E := fresh "E" in destruct m eqn:E; cbn [bind] in H; [|discriminate H]
  end.

Ltac to_record H :=
  inv_chain H;
  repeat match goal with E : mk_sect _ _ _ _ = Ok _ |- _ => apply mk_sect_inv in E end;
  try apply mk_sect_inv in H; try apply make_symtab_inv in H;
  try (inversion H; clear H); subst; cbn [s_hdr s_kind s_name];
  split; [reflexivity|split; [reflexivity|]]; unfold spec_kind.

Ltac known t nm := rewrite (kind_entry_tbl t nm _ ltac:(discriminate) eq_refl); reflexivity.

(* the class of the object is a function of the decoded type and the name: Spec.kind_table,
   with the '.stab' rule, NullSection for SHT_NULL, the plain Section for everything else *)
Lemma make_section_kind ef r sec :
  make_section ef (Some r) = Ok sec ->
  get_section_name ef (Some r) = Ok (s_name sec) /\ s_hdr sec = r /\
  s_kind sec = spec_kind (hty r "sh_type") (s_name sec).
Proof.
  unfold make_section.
  destruct (get_section_name ef (Some r)) as [nm|] eqn:En; cbn [bind some_hdr]; [|discriminate].
  generalize (hty r "sh_type"). intros ty H.
  assert (K : s_name sec = nm /\ s_hdr sec = r /\ s_kind sec = spec_kind ty nm).
  2:{ destruct K as (K1 & K2 & K3). rewrite K1. auto. }
  destruct ty as [z|bs|zs|t].
  1-3: cbn [is_name orb andb] in H; apply mk_sect_inv in H; subst sec; cbn; auto.
  cbn [is_name] in H.
  destruct (String.eqb_spec t "SHT_STRTAB") as [E0|N1]. { subst t.  to_record H. known "SHT_STRTAB" nm. }
  destruct (String.eqb_spec t "SHT_NULL") as [E0|N2]. { subst t.  to_record H. known "SHT_NULL" nm. }
  destruct (String.eqb_spec t "SHT_SYMTAB") as [E0|N3]. { subst t.  cbn [orb] in H. to_record H. known "SHT_SYMTAB" nm. }
  destruct (String.eqb_spec t "SHT_DYNSYM") as [E0|N4]. { subst t.  cbn [orb] in H. to_record H. known "SHT_DYNSYM" nm. }
  destruct (String.eqb_spec t "SHT_SUNW_LDYNSYM") as [E0|N5]. { subst t.  cbn [orb] in H. to_record H. known "SHT_SUNW_LDYNSYM" nm. }
  cbn [orb] in H.
  destruct (String.eqb_spec t "SHT_SYMTAB_SHNDX") as [E0|N6]. { subst t.  to_record H. known "SHT_SYMTAB_SHNDX" nm. }
  destruct (String.eqb_spec t "SHT_SUNW_syminfo") as [E0|N7]. { subst t.  to_record H. known "SHT_SUNW_syminfo" nm. }
  destruct (String.eqb_spec t "SHT_GNU_verneed") as [E0|N8]. { subst t.  to_record H. known "SHT_GNU_verneed" nm. }
  destruct (String.eqb_spec t "SHT_GNU_verdef") as [E0|N9]. { subst t.  to_record H. known "SHT_GNU_verdef" nm. }
  destruct (String.eqb_spec t "SHT_GNU_versym") as [E0|N10]. { subst t.  to_record H. known "SHT_GNU_versym" nm. }
  destruct (String.eqb_spec t "SHT_REL") as [E0|N11]. { subst t.  cbn [orb] in H. to_record H. known "SHT_REL" nm. }
  destruct (String.eqb_spec t "SHT_RELA") as [E0|N12]. { subst t.  cbn [orb] in H. to_record H. known "SHT_RELA" nm. }
  cbn [orb] in H.
  destruct (String.eqb_spec t "SHT_DYNAMIC") as [E0|N13]. { subst t.  to_record H. known "SHT_DYNAMIC" nm. }
  destruct (String.eqb_spec t "SHT_NOTE") as [E0|N14]. { subst t.  to_record H. known "SHT_NOTE" nm. }
  destruct (String.eqb_spec t "SHT_PROGBITS") as [E0|N15].
  { subst t. str_const. cbn [andb] in H. unfold spec_kind, kind_entry. str_const. cbn [andb]. unfold STAB_NAME.
    destruct (bytes_eqb nm [46; 115; 116; 97; 98]);
      apply mk_sect_inv in H; subst sec; cbn; auto. }
  cbn [andb] in H.
  destruct (String.eqb_spec t "SHT_ARM_ATTRIBUTES") as [E0|N16]. { subst t.  to_record H. known "SHT_ARM_ATTRIBUTES" nm. }
  destruct (String.eqb_spec t "SHT_RISCV_ATTRIBUTES") as [E0|N17]. { subst t.  to_record H. known "SHT_RISCV_ATTRIBUTES" nm. }
  destruct (String.eqb_spec t "SHT_HASH") as [E0|N18]. { subst t.  to_record H. known "SHT_HASH" nm. }
  destruct (String.eqb_spec t "SHT_GNU_HASH") as [E0|N19]. { subst t.  to_record H. known "SHT_GNU_HASH" nm. }
  destruct (String.eqb_spec t "SHT_RELR") as [E0|N20]. { subst t.  to_record H. known "SHT_RELR" nm. }
  apply mk_sect_inv in H. subst sec. cbn [s_hdr s_kind s_name].
  split; [reflexivity|split; [reflexivity|]]. unfold spec_kind.
  rewrite kind_entry_other; [reflexivity|exact N15|].
  intros k v Hin. unfold kind_table in Hin. cbn [In] in Hin.
  repeat (destruct Hin as [Hin|Hin]; [inversion Hin; subst k; intros E; subst t; congruence|]).
  destruct Hin.
Qed.

Lemma make_segment_kind ef h g :
  make_segment ef h = Ok g -> g_hdr g = h /\ g_kind g = spec_segment_kind (hty h "p_type").
Proof.
  unfold make_segment. generalize (hty h "p_type"). intros ty H.
  destruct ty as [z|bs|zs|t]; try (inversion H; subst g; cbn; auto).
  cbn [is_name] in H.
  destruct (String.eqb_spec t "PT_INTERP") as [E0|N1]. { subst t. inversion H; subst g; cbn; auto. }
  destruct (String.eqb_spec t "PT_DYNAMIC") as [E0|N2].
  { subst t. inv_chain H. inversion H; subst g; cbn; auto. }
  destruct (String.eqb_spec t "PT_NOTE") as [E0|N3]. { subst t. inversion H; subst g; cbn; auto. }
  inversion H; subst g. cbn [g_hdr g_kind spec_segment_kind]. split; [reflexivity|].
  unfold segment_kind_table. cbn [assoc_str].
  rewrite (proj2 (String.eqb_neq _ _) (not_eq_sym N1)), (proj2 (String.eqb_neq _ _) (not_eq_sym N2)),
    (proj2 (String.eqb_neq _ _) (not_eq_sym N3)). reflexivity.
Qed.

(* ------------------------------------------------------------------ construct's Enum adapter *)
(* a non-strict Enum field reports the dictionary name of the value, or the raw integer *)
Lemma adapt_field_bound b f id z :
  bind_of b f = Some (id, false) -> adapt_field b f (VZ z) = Some (named (table_of_id id) z).
Proof. intros H. cbn [adapt_field]. rewrite H. apply enum_lookup_nonstrict. Qed.
Lemma adapt_field_unbound b f z : bind_of b f = None -> adapt_field b f (VZ z) = Some (HZ z).
Proof. intros H. cbn [adapt_field]. rewrite H. reflexivity. Qed.
