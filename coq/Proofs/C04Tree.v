(* Proofs/C04Tree.v — the tree walk (DESIGN 4.4 T5): CompileUnit.iter_DIE_children /
   TypeUnit.iter_DIE_children with the DW_AT_sibling shortcut and terminator tracking, and
   _iter_DIE_subtree (= iter_DIEs), over a unit whose entries decode as expected at their
   offsets (Proofs/C04Unit.v).  Induction over the encoded tree. *)
From Coq Require Import String.
From PV Require Import Base.Outcome Base.Prim Spec.PrimSpec Spec.C04Desc Spec.C04Spec Spec.C04Sem Gen.C04Forms
                       Model.C04Model Proofs.PrimProofs Proofs.C04Forms Proofs.C04Header Proofs.C04Abbrev
                       Proofs.C04Entry Proofs.C04Unit.
From Coq Require Import ZArith List Bool Lia ZifyBool.
Import ListNotations.
Open Scope string_scope.
Open Scope list_scope.
Open Scope Z_scope.

Definition die_kids (d : die) : list die := match d with Node _ _ k _ => k end.
Definition die_term (d : die) : list Z := match d with Node _ _ _ t => t end.

(* induction over the tree with the hypothesis for every child *)
Lemma die_ind2 (P : die -> Prop) :
  (forall c vs ks tm, Forall P ks -> P (Node c vs ks tm)) -> forall d, P d.
Proof.
  intros H. fix IH 1. intros [c vs ks tm]. apply H.
  induction ks as [|k r IHr]; constructor; [apply IH | exact IHr].
Qed.

(* ------------------------------------------------------------------ names the walk tests for *)
Lemma at_is_sibling n : is_name (dn_at n) "DW_AT_sibling" = (n =? 1).
Proof. apply is_name_enum_pass; [exact gen_at_names_one_to_one | reflexivity]. Qed.
Lemma form_is f code name : zfind gen_dec_form code = Some name -> is_name (dn_form f) name = (f =? code).
Proof. intros H. apply is_name_enum_pass; [exact gen_form_names_one_to_one | exact H]. Qed.

Lemma unit_ref_form_codes f : is_unit_ref_form (dn_form f) = is_unit_ref f || (f =? 2).
Proof.
  unfold is_unit_ref_form, is_unit_ref, gen_die_ref_unit_forms. cbn [existsb].
  rewrite (form_is f 0x11 "DW_FORM_ref1" eq_refl), (form_is f 0x12 "DW_FORM_ref2" eq_refl),
          (form_is f 0x13 "DW_FORM_ref4" eq_refl), (form_is f 0x14 "DW_FORM_ref8" eq_refl),
          (form_is f 2 "DW_FORM_ref" eq_refl), (form_is f 0x15 "DW_FORM_ref_udata" eq_refl).
  destruct (f =? 17), (f =? 18), (f =? 19), (f =? 20), (f =? 21), (f =? 2); reflexivity.
Qed.

(* ------------------------------------------------------------------ positions inside an encoded tree *)
Section Tree.
  Variable c : cfg.
  Variable ds : list adecl.
  Variable M : munit.
  Variable in_info : bool.

  Definition ok (x : xdie) : Prop := get_die M (x_off x) = Ok x.

  Definition tree_size (d : die) : Z := zlen (encode_entries c ds (flatten ds d)).
  Definition root_fentry (d : die) : fentry := FEntry (die_code d) (die_vals d).
  Definition root_size (d : die) : Z := zlen (encode_entry c ds (root_fentry d)).
  Definition root_entry (d : die) (off : Z) : xdie := expect_entry dn_tag dn_at dn_form c ds (root_fentry d) off.
  Definition null_entry (tm : list Z) (off : Z) : xdie := expect_entry dn_tag dn_at dn_form c ds (FNull tm) off.
  Definition kids_size (ks : list die) : Z := zlen (encode_entries c ds (flat_map (flatten ds) ks)).
  Definition d_has_kids (d : die) : bool := has_kids ds (lv (die_code d)).

  (* the root entries of a sibling list that starts at [cur] *)
  Fixpoint kid_roots (ks : list die) (cur : Z) : list xdie :=
    match ks with
    | [] => []
    | k :: r => root_entry k cur :: kid_roots r (cur + tree_size k)
    end.

  Definition kid_rest (d : die) : list fentry :=
    if d_has_kids d then flat_map (flatten ds) (die_kids d) ++ [FNull (die_term d)] else [].
  Lemma flatten_eq d : flatten ds d = root_fentry d :: kid_rest d.
  Proof. destruct d as [code vs ks tm]. reflexivity. Qed.

  Lemma encode_entries_app a b : encode_entries c ds (a ++ b) = encode_entries c ds a ++ encode_entries c ds b.
  Proof. unfold encode_entries. rewrite map_app, concat_app. reflexivity. Qed.

  Lemma tree_size_eq d :
    tree_size d = root_size d + (if d_has_kids d then kids_size (die_kids d) + zlen (die_term d) else 0).
  Proof.
    unfold tree_size, root_size, kids_size. rewrite flatten_eq. unfold kid_rest.
    change (root_fentry d :: ?l) with ([root_fentry d] ++ l).
    rewrite encode_entries_app, zlen_app. unfold encode_entries at 1. cbn [map concat]. rewrite app_nil_r.
    destruct (d_has_kids d).
    - rewrite encode_entries_app, zlen_app. unfold encode_entries at 2. cbn [map concat encode_entry].
      rewrite app_nil_r. reflexivity.
    - reflexivity.
  Qed.

  Lemma kids_size_cons k r : kids_size (k :: r) = tree_size k + kids_size r.
  Proof. unfold kids_size, tree_size. cbn [flat_map]. rewrite encode_entries_app, zlen_app. reflexivity. Qed.

  (* ------------------------------------------------------------------ DW_AT_sibling, when present, designates the next sibling *)
  Section Go.
    Variable f : die -> Z -> bool.
    Fixpoint kids_go (l : list die) (cur : Z) : bool :=
      match l with
      | [] => true
      | k :: r =>
          let next := cur + tree_size k in
          (negb (d_has_kids k) ||
           sibling_ok in_info (uc_off (mu_ctx M)) (entry_codes c ds (die_code k) (die_vals k)) next)
          && f k cur && kids_go r next
      end.
  End Go.
  Fixpoint tree_sibs_ok (d : die) (off : Z) {struct d} : bool :=
    match d with
    | Node code vs ks tm =>
        if has_kids ds (lv code)
        then kids_go tree_sibs_ok ks (off + zlen (encode_entry c ds (FEntry code vs)))
        else true
    end.
  Lemma tree_sibs_ok_eq d off :
    tree_sibs_ok d off = if d_has_kids d then kids_go tree_sibs_ok (die_kids d) (off + root_size d) else true.
  Proof. destruct d; reflexivity. Qed.

  (* ------------------------------------------------------------------ facts about an expected root entry *)
  Lemma root_entry_facts d off : entry_wf c ds (root_fentry d) = true ->
    exists dc, find_decl ds (lv (die_code d)) = Some dc /\
               vals_wf c (d_attrs dc) (die_vals d) = true /\
               root_entry d off = mkxdie off (root_size d) (lv (die_code d)) (Some (dn_tag (lv (d_tag dc))))
                                         (Some (d_kids dc))
                                         (expect_attrs dn_at dn_form c (d_attrs dc) (die_vals d)
                                                       (off + zlen (lenc (die_code d)))) /\
               d_has_kids d = d_kids dc.
  Proof.
    unfold root_entry, root_size, root_fentry, d_has_kids, has_kids. cbn [entry_wf expect_entry]. intros H.
    apply andb_prop in H. destruct H as [_ H].
    destruct (find_decl ds (lv (die_code d))) as [dc|]; [|discriminate].
    apply andb_prop in H. destruct H as [Hv _]. exists dc. repeat split; auto.
  Qed.

  Lemma find_sibling_codes : forall specs vals pos, vals_wf c specs vals = true ->
    option_map (fun a => (xa_form a, xa_raw a)) (find_attr (expect_attrs dn_at dn_form c specs vals pos) "DW_AT_sibling")
    = option_map (fun fr => (dn_form (fst fr), snd fr)) (find_code (attr_codes c specs vals) AT_sibling).
  Proof.
    induction specs as [|a sr IH]; intros vals pos Hv; destruct vals as [|v vr]; try discriminate Hv; [reflexivity|].
    destruct (vals_wf_cons _ _ _ _ _ Hv) as (k & Hk & _ & Hvr).
    cbn [expect_attrs attr_codes find_code]. rewrite Hk. cbn [find_attr xa_name]. rewrite at_is_sibling.
    unfold AT_sibling. destruct (lv (a_name a) =? 1); [reflexivity|]. apply IH. exact Hvr.
  Qed.

  (* the "next" the loop computes from a present DW_AT_sibling *)
  Definition sibling_next (child : xdie) : option (res Z) :=
    match find_attr (x_attrs child) "DW_AT_sibling" with
    | Some sib =>
        Some match xa_raw sib with
             | RInt v =>
                 if is_unit_ref_form (xa_form sib) then Ok (v + uc_off (mu_ctx M))
                 else if is_name (xa_form sib) "DW_FORM_ref_addr" then Ok v
                 else Err (EPy "NotImplementedError")
             | _ => Err (EPy "NotImplementedError")
             end
    | None => None
    end.

  Lemma sibling_next_ok d off next : entry_wf c ds (root_fentry d) = true ->
    sibling_ok in_info (uc_off (mu_ctx M)) (entry_codes c ds (die_code d) (die_vals d)) next = true ->
    sibling_next (root_entry d off) = None \/ sibling_next (root_entry d off) = Some (Ok next).
  Proof.
    intros Hwf Hs. destruct (root_entry_facts d off Hwf) as (dc & Hfd & Hv & Hre & _).
    unfold sibling_next. rewrite Hre. cbn [x_attrs].
    pose proof (find_sibling_codes (d_attrs dc) (die_vals d) (off + zlen (lenc (die_code d))) Hv) as Hf.
    unfold sibling_ok, entry_codes in Hs. rewrite Hfd in Hs.
    destruct (find_code (attr_codes c (d_attrs dc) (die_vals d)) AT_sibling) as [[f r]|];
      destruct (find_attr _ "DW_AT_sibling") as [sib|]; cbn [option_map fst snd] in Hf; try discriminate Hf;
      [|left; reflexivity].
    right. injection Hf as Hform Hraw. rewrite Hform, Hraw. f_equal.
    destruct r as [v| |]; try discriminate Hs.
    rewrite unit_ref_form_codes.
    destruct (is_unit_ref f) eqn:Eu; cbn [orb].
    - f_equal. lia.
    - unfold FORM_ref_addr in Hs. destruct (Z.eqb_spec f 16) as [->|]; [|discriminate Hs].
      cbn [Z.eqb Pos.eqb]. rewrite (form_is 16 16 "DW_FORM_ref_addr" eq_refl). cbn [Z.eqb Pos.eqb].
      f_equal. lia.
  Qed.

  (* children_loop, one step, with the sibling computation named *)
  Lemma children_loop_step fuel cur acc child :
    get_die M cur = Ok child -> x_is_null child = false ->
    children_loop M (S fuel) cur acc =
    match (if negb (has_children child) then Ok (cur + x_size child)
           else match sibling_next child with
                | Some r => r
                | None => match children_loop M fuel (x_off child + x_size child) [] with
                          | Err e => Err e
                          | Ok (_, term) => Ok (x_off term + x_size term)
                          end
                end) with
    | Err e => Err e
    | Ok n => children_loop M fuel n (child :: acc)
    end.
  Proof.
    intros Hg Hn. cbn [children_loop]. rewrite Hg, Hn. unfold sibling_next.
    destruct (negb (has_children child)); [reflexivity|].
    destruct (find_attr (x_attrs child) "DW_AT_sibling"); reflexivity.
  Qed.

  (* ------------------------------------------------------------------ iter_DIE_children *)
  Definition children_spec (d : die) : Prop := forall off fuel,
    Forall ok (expect_dies c ds (flatten ds d) off) ->
    forallb (entry_wf c ds) (flatten ds d) = true ->
    tree_sibs_ok d off = true ->
    d_has_kids d = true ->
    (length (flat_map (flatten ds) (die_kids d)) < fuel)%nat ->
    children_loop M fuel (off + root_size d) []
    = Ok (kid_roots (die_kids d) (off + root_size d),
          null_entry (die_term d) (off + root_size d + kids_size (die_kids d))).

  Lemma flatten_nonempty d : (1 <= length (flatten ds d))%nat.
  Proof. rewrite flatten_eq. cbn [length]. lia. Qed.

  Lemma kids_loop (ks : list die) : Forall children_spec ks ->
    forall fuel cur acc tm,
    Forall ok (expect_dies c ds (flat_map (flatten ds) ks ++ [FNull tm]) cur) ->
    forallb (entry_wf c ds) (flat_map (flatten ds) ks ++ [FNull tm]) = true ->
    kids_go tree_sibs_ok ks cur = true ->
    (length (flat_map (flatten ds) ks) < fuel)%nat ->
    children_loop M fuel cur acc = Ok (rev acc ++ kid_roots ks cur, null_entry tm (cur + kids_size ks)).
  Proof.
    induction 1 as [|k r Hk Hr IH]; intros fuel cur acc tm Hok Hwf Hsib Hfuel.
    - destruct fuel as [|f]; [cbn in Hfuel; lia|].
      cbn [flat_map app] in Hok. unfold expect_dies in Hok. cbn [expect_entries] in Hok.
      apply Forall_inv in Hok. unfold ok in Hok. rewrite expect_entry_off in Hok.
      cbn [children_loop]. rewrite Hok. cbn [expect_entry x_is_null x_tag kid_roots].
      unfold kids_size, null_entry. cbn [flat_map encode_entries map concat]. rewrite app_nil_r.
      change (zlen (@nil Z)) with 0. rewrite Z.add_0_r. reflexivity.
    - destruct fuel as [|f]; [cbn in Hfuel; lia|].
      cbn [flat_map] in Hok, Hwf, Hfuel. rewrite <- app_assoc in Hok, Hwf.
      rewrite expect_dies_app in Hok. apply Forall_app in Hok. destruct Hok as [Hokk Hokr].
      rewrite forallb_app in Hwf. apply andb_prop in Hwf. destruct Hwf as [Hwfk Hwfr].
      fold (tree_size k) in Hokr.
      cbn [kids_go] in Hsib. apply andb_prop in Hsib. destruct Hsib as [Hsib Hsr].
      apply andb_prop in Hsib. destruct Hsib as [Hsk Hst].
      rewrite app_length in Hfuel. pose proof (flatten_nonempty k) as Hne.
      (* the child at cur *)
      assert (Hwfroot : entry_wf c ds (root_fentry k) = true).
      { rewrite flatten_eq in Hwfk. cbn [forallb] in Hwfk. apply andb_prop in Hwfk. tauto. }
      destruct (root_entry_facts k cur Hwfroot) as (dc & Hfd & Hv & Hre & Hhk).
      assert (Hget : get_die M cur = Ok (root_entry k cur)).
      { rewrite flatten_eq in Hokk. unfold expect_dies in Hokk. cbn [expect_entries] in Hokk.
        apply Forall_inv in Hokk. unfold ok in Hokk. rewrite expect_entry_off in Hokk. exact Hokk. }
      rewrite (children_loop_step f cur acc (root_entry k cur) Hget) by (rewrite Hre; reflexivity).
      assert (Hnext : (if negb (has_children (root_entry k cur)) then Ok (cur + x_size (root_entry k cur))
                       else match sibling_next (root_entry k cur) with
                            | Some r0 => r0
                            | None => match children_loop M f (x_off (root_entry k cur) + x_size (root_entry k cur)) [] with
                                      | Err e => Err e
                                      | Ok (_, term) => Ok (x_off term + x_size term)
                                      end
                            end) = Ok (cur + tree_size k)).
      { assert (Hhc : has_children (root_entry k cur) = d_has_kids k) by (rewrite Hre, Hhk; reflexivity).
        rewrite Hhc. unfold root_entry. rewrite expect_entry_off, expect_entry_size. fold (root_size k).
        rewrite (tree_size_eq k).
        destruct (d_has_kids k) eqn:Ehk; cbn [negb].
        - cbn [orb negb] in Hsk.
          destruct (sibling_next_ok k cur _ Hwfroot Hsk) as [Hsn|Hsn]; fold (root_entry k cur); rewrite Hsn.
          + (* no DW_AT_sibling: walk the child's own children for the terminator *)
            rewrite (Hk cur f Hokk Hwfk Hst Ehk).
            * unfold null_entry. rewrite expect_entry_off, expect_entry_size. cbn [encode_entry]. f_equal. lia.
            * rewrite flatten_eq in Hfuel. unfold kid_rest in Hfuel. rewrite Ehk in Hfuel.
              cbn [length] in Hfuel. rewrite app_length in Hfuel. cbn [length] in Hfuel. lia.
          + rewrite (tree_size_eq k), Ehk. reflexivity.
        - f_equal. lia. }
      rewrite Hnext.
      rewrite (IH f (cur + tree_size k) (root_entry k cur :: acc) tm Hokr Hwfr Hsr) by lia.
      cbn [rev kid_roots]. rewrite <- app_assoc. cbn [app]. rewrite kids_size_cons, Z.add_assoc. reflexivity.
  Qed.

  Theorem children_exact : forall d, children_spec d.
  Proof.
    apply die_ind2. intros code vs ks tm IH off fuel Hok Hwf Hsib Hhk Hfuel.
    set (d := Node code vs ks tm) in *.
    rewrite flatten_eq in Hok, Hwf. unfold kid_rest in Hok, Hwf. rewrite Hhk in Hok, Hwf.
    unfold expect_dies in Hok. cbn [expect_entries] in Hok. apply Forall_inv_tail in Hok.
    cbn [forallb] in Hwf. apply andb_prop in Hwf. destruct Hwf as [_ Hwf].
    rewrite tree_sibs_ok_eq, Hhk in Hsib.
    pose proof (kids_loop ks IH fuel (off + root_size d) [] tm Hok Hwf Hsib Hfuel) as H.
    exact H.
  Qed.

  (* ------------------------------------------------------------------ _iter_DIE_subtree *)
  Definition subtree_spec (d : die) : Prop := forall off fuel,
    Forall ok (expect_dies c ds (flatten ds d) off) ->
    forallb (entry_wf c ds) (flatten ds d) = true ->
    tree_sibs_ok d off = true ->
    (length (flatten ds d) < unit_fuel M)%nat ->
    (length (flatten ds d) <= fuel)%nat ->
    iter_subtree M fuel (root_entry d off) = Ok (expect_dies c ds (flatten ds d) off).

  Lemma kids_subtrees (ks : list die) : Forall subtree_spec ks ->
    forall fuel cur,
    Forall ok (expect_dies c ds (flat_map (flatten ds) ks) cur) ->
    forallb (entry_wf c ds) (flat_map (flatten ds) ks) = true ->
    kids_go tree_sibs_ok ks cur = true ->
    (length (flat_map (flatten ds) ks) < unit_fuel M)%nat ->
    (length (flat_map (flatten ds) ks) <= fuel)%nat ->
    res_flat_map (iter_subtree M fuel) (kid_roots ks cur) = Ok (expect_dies c ds (flat_map (flatten ds) ks) cur).
  Proof.
    induction 1 as [|k r Hk Hr IH]; intros fuel cur Hok Hwf Hsib Hu Hfuel; [reflexivity|].
    cbn [flat_map] in *. rewrite expect_dies_app in Hok. apply Forall_app in Hok. destruct Hok as [Hokk Hokr].
    rewrite forallb_app in Hwf. apply andb_prop in Hwf. destruct Hwf as [Hwfk Hwfr].
    cbn [kids_go] in Hsib. apply andb_prop in Hsib. destruct Hsib as [Hsib Hsr].
    apply andb_prop in Hsib. destruct Hsib as [_ Hst].
    rewrite app_length in Hu, Hfuel. fold (tree_size k) in Hokr.
    cbn [kid_roots res_flat_map].
    rewrite (Hk cur fuel Hokk Hwfk Hst) by lia.
    rewrite (IH fuel (cur + tree_size k) Hokr Hwfr Hsr) by lia.
    rewrite expect_dies_app. reflexivity.
  Qed.

  Lemma expect_dies_cons e r off :
    expect_dies c ds (e :: r) off
    = expect_entry dn_tag dn_at dn_form c ds e off :: expect_dies c ds r (off + zlen (encode_entry c ds e)).
  Proof. reflexivity. Qed.

  Theorem subtree_exact : forall d, subtree_spec d.
  Proof.
    apply die_ind2. intros code vs ks tm IH off fuel Hok Hwf Hsib Hu Hfuel.
    set (d := Node code vs ks tm) in *.
    pose proof (children_exact d off (unit_fuel M) Hok Hwf Hsib) as Hch.
    assert (Hwfroot : entry_wf c ds (root_fentry d) = true).
    { rewrite flatten_eq in Hwf. cbn [forallb] in Hwf. apply andb_prop in Hwf. tauto. }
    destruct (root_entry_facts d off Hwfroot) as (dc & Hfd & Hv & Hre & Hhk).
    assert (Hhc : has_children (root_entry d off) = d_has_kids d) by (rewrite Hre, Hhk; reflexivity).
    rewrite flatten_eq in Hok, Hwf, Hu, Hfuel |- *. unfold kid_rest in *.
    destruct fuel as [|f]; [cbn [length] in Hfuel; lia|].
    cbn [iter_subtree]. rewrite Hhc.
    rewrite expect_dies_cons in Hok |- *. fold (root_entry d off) in Hok |- *. fold (root_size d) in Hok |- *.
    destruct (d_has_kids d) eqn:Ehk.
    - unfold root_entry at 1 2. rewrite expect_entry_off, expect_entry_size. fold (root_size d).
      cbn [length] in Hu, Hfuel. rewrite app_length in Hu, Hfuel. cbn [length] in Hu, Hfuel.
      rewrite Hch by (auto; lia).
      apply Forall_inv_tail in Hok.
      rewrite expect_dies_app in Hok |- *. apply Forall_app in Hok. destruct Hok as [Hokk _].
      cbn [forallb] in Hwf. apply andb_prop in Hwf. destruct Hwf as [_ Hwf].
      rewrite forallb_app in Hwf. apply andb_prop in Hwf. destruct Hwf as [Hwfk _].
      rewrite tree_sibs_ok_eq, Ehk in Hsib.
      change (die_kids d) with ks in *. change (die_term d) with tm in *.
      rewrite (kids_subtrees ks IH f (off + root_size d) Hokk Hwfk Hsib) by lia.
      rewrite expect_dies_cons. fold (kids_size ks). reflexivity.
    - reflexivity.
  Qed.
End Tree.

(* ------------------------------------------------------------------ every node of the tree *)
Section Nodes.
  Variable c : cfg.
  Variable ds : list adecl.
  Variable M : munit.
  Variable in_info : bool.

  (* k sits at offset cur' in a sibling list ks that starts at cur *)
  Inductive kid_at : list die -> Z -> die -> Z -> Prop :=
  | kid_here k r cur : kid_at (k :: r) cur k cur
  | kid_later k r cur k' cur' : kid_at r (cur + tree_size c ds k) k' cur' -> kid_at (k :: r) cur k' cur'.

  (* d' at off' is a node of the tree d placed at off *)
  Inductive node_at : die -> Z -> die -> Z -> Prop :=
  | node_self d off : node_at d off d off
  | node_below d off k cur d' off' :
      d_has_kids ds d = true -> kid_at (die_kids d) (off + root_size c ds d) k cur ->
      node_at k cur d' off' -> node_at d off d' off'.

  Definition placed (d : die) (off : Z) : Prop :=
    Forall (ok M) (expect_dies c ds (flatten ds d) off) /\
    forallb (entry_wf c ds) (flatten ds d) = true /\
    tree_sibs_ok c ds M in_info d off = true /\
    (length (flatten ds d) < unit_fuel M)%nat.

  Lemma placed_kid : forall ks cur k cur', kid_at ks cur k cur' ->
    Forall (ok M) (expect_dies c ds (flat_map (flatten ds) ks) cur) ->
    forallb (entry_wf c ds) (flat_map (flatten ds) ks) = true ->
    kids_go c ds M in_info (tree_sibs_ok c ds M in_info) ks cur = true ->
    (length (flat_map (flatten ds) ks) < unit_fuel M)%nat ->
    placed k cur'.
  Proof.
    induction 1 as [k r cur|k r cur k' cur' Hk IH]; intros Hok Hwf Hsib Hlen;
      cbn [flat_map] in Hok, Hwf, Hlen; rewrite expect_dies_app in Hok; apply Forall_app in Hok;
      destruct Hok as [Hokk Hokr]; rewrite forallb_app in Hwf; apply andb_prop in Hwf; destruct Hwf as [Hwfk Hwfr];
      cbn [kids_go] in Hsib; apply andb_prop in Hsib; destruct Hsib as [Hsib Hsr];
      apply andb_prop in Hsib; destruct Hsib as [_ Hst]; rewrite app_length in Hlen.
    - repeat split; auto. lia.
    - apply IH; auto. lia.
  Qed.

  Lemma placed_node : forall d off d' off', node_at d off d' off' -> placed d off -> placed d' off'.
  Proof.
    induction 1 as [d off|d off k cur d' off' Hhk Hkid Hnode IH]; intros Hp; [exact Hp|].
    apply IH. destruct Hp as (Hok & Hwf & Hsib & Hlen).
    rewrite flatten_eq in Hok, Hwf, Hlen. unfold kid_rest in *. rewrite Hhk in *.
    rewrite expect_dies_cons in Hok. apply Forall_inv_tail in Hok.
    rewrite expect_dies_app in Hok. apply Forall_app in Hok. destruct Hok as [Hok _].
    cbn [forallb] in Hwf. apply andb_prop in Hwf. destruct Hwf as [_ Hwf].
    rewrite forallb_app in Hwf. apply andb_prop in Hwf. destruct Hwf as [Hwf _].
    rewrite tree_sibs_ok_eq, Hhk in Hsib. cbn [length] in Hlen. rewrite app_length in Hlen.
    eapply placed_kid; eauto. lia.
  Qed.

  (* DIE.iter_children() of any node: exactly the encoded children, in order, and the null entry that closes
     them is the terminator; nothing for a childless abbreviation *)
  Theorem iter_children_node d off d' off' :
    placed d off -> node_at d off d' off' ->
    iter_children M (unit_fuel M) (root_entry c ds d' off')
    = Ok (if d_has_kids ds d' then kid_roots c ds (die_kids d') (off' + root_size c ds d') else [],
          if d_has_kids ds d'
          then Some (null_entry c ds (die_term d') (off' + root_size c ds d' + kids_size c ds (die_kids d')))
          else None).
  Proof.
    intros Hp Hn. destruct (placed_node _ _ _ _ Hn Hp) as (Hok & Hwf & Hsib & Hlen).
    assert (Hwfroot : entry_wf c ds (root_fentry d') = true).
    { rewrite flatten_eq in Hwf. cbn [forallb] in Hwf. apply andb_prop in Hwf. tauto. }
    destruct (root_entry_facts c ds d' off' Hwfroot) as (dc & Hfd & Hv & Hre & Hhk).
    assert (Hhc : has_children (root_entry c ds d' off') = d_has_kids ds d') by (rewrite Hre, Hhk; reflexivity).
    unfold iter_children. rewrite Hhc.
    destruct (d_has_kids ds d') eqn:Ehk; cbn [negb]; [|reflexivity].
    unfold root_entry at 1 2. rewrite expect_entry_off, expect_entry_size. fold (root_size c ds d').
    rewrite (children_exact c ds M in_info d' off' (unit_fuel M) Hok Hwf Hsib Ehk); [reflexivity|].
    rewrite flatten_eq in Hlen. unfold kid_rest in Hlen. rewrite Ehk in Hlen.
    cbn [length] in Hlen. rewrite app_length in Hlen. lia.
  Qed.
End Nodes.

(* ------------------------------------------------------------------ the unit *)
Lemma entries_length_le c ds es : forallb (entry_wf c ds) es = true ->
  (length es <= length (encode_entries c ds es))%nat.
Proof.
  intros H. unfold encode_entries. apply concat_length_ge. intros x Hx.
  rewrite forallb_forall in H. pose proof (encode_entry_nonempty c ds x (H x Hx)) as Hn. unfold zlen in Hn. lia.
Qed.

Definition unit_sibs_ok (u : unit) (in_info : bool) (sec : list Z) (off : Z) : bool :=
  tree_sibs_ok (u_cfg u) (t_decls (u_table u)) (expect_munit u sec off) in_info (u_root u) (off + header_size u).

Lemma unit_placed (u : unit) (pre tail : list Z) (in_info : bool) :
  unit_wf u = true ->
  let sec := pre ++ encode_unit u ++ tail in
  unit_sibs_ok u in_info sec (zlen pre) = true ->
  placed (u_cfg u) (t_decls (u_table u)) (expect_munit u sec (zlen pre)) in_info (u_root u) (zlen pre + header_size u).
Proof.
  intros Hwf sec Hs. destruct (unit_wf_parts u Hwf) as (_ & _ & _ & He & _).
  repeat split; auto.
  - apply unit_entries_exact. exact Hwf.
  - unfold unit_fuel, expect_munit. cbn [mu_sec]. unfold sec. rewrite !app_length.
    pose proof (entries_length_le _ _ _ He) as Hl. unfold unit_entries in Hl.
    unfold encode_unit, unit_body. rewrite !app_length. unfold unit_entries. lia.
Qed.

(* cu.iter_DIEs(): exactly the pre-order flattening, null entries included *)
Theorem iter_DIEs_exact (u : unit) (pre tail : list Z) (in_info : bool) :
  unit_wf u = true ->
  let sec := pre ++ encode_unit u ++ tail in
  unit_sibs_ok u in_info sec (zlen pre) = true ->
  iter_DIEs (expect_munit u sec (zlen pre))
  = Ok (expect_dies (u_cfg u) (t_decls (u_table u)) (unit_entries u) (zlen pre + header_size u)).
Proof.
  intros Hwf sec Hs. destruct (unit_placed u pre tail in_info Hwf Hs) as (Hok & Hwfe & Hsib & Hlen).
  fold sec in Hok, Hsib, Hlen.
  unfold iter_DIEs, get_top_DIE.
  assert (Hdo : uc_die_off (mu_ctx (expect_munit u sec (zlen pre))) = zlen pre + header_size u).
  { unfold expect_munit, expect_unit_ctx, expect_uctx, header_size. cbn [mu_ctx uc_die_off]. lia. }
  rewrite Hdo.
  assert (Hget : get_die (expect_munit u sec (zlen pre)) (zlen pre + header_size u)
                 = Ok (root_entry (u_cfg u) (t_decls (u_table u)) (u_root u) (zlen pre + header_size u))).
  { rewrite flatten_eq in Hok. rewrite expect_dies_cons in Hok. apply Forall_inv in Hok.
    unfold ok in Hok. rewrite expect_entry_off in Hok. exact Hok. }
  rewrite Hget.
  apply (subtree_exact _ _ _ in_info (u_root u) _ _ Hok Hwfe Hsib Hlen). lia.
Qed.

Theorem unit_children_exact (u : unit) (pre tail : list Z) (in_info : bool) (d : die) (off : Z) :
  unit_wf u = true ->
  let sec := pre ++ encode_unit u ++ tail in
  let c := u_cfg u in let ds := t_decls (u_table u) in let M := expect_munit u sec (zlen pre) in
  unit_sibs_ok u in_info sec (zlen pre) = true ->
  node_at c ds (u_root u) (zlen pre + header_size u) d off ->
  iter_children M (unit_fuel M) (root_entry c ds d off)
  = Ok (if d_has_kids ds d then kid_roots c ds (die_kids d) (off + root_size c ds d) else [],
        if d_has_kids ds d
        then Some (null_entry c ds (die_term d) (off + root_size c ds d + kids_size c ds (die_kids d)))
        else None).
Proof.
  intros Hwf sec c ds M Hs Hn.
  apply (iter_children_node c ds M in_info (u_root u) (zlen pre + header_size u) d off); [|exact Hn].
  apply unit_placed; assumption.
Qed.
