(* Proofs/C07Tails.v — lists that share a tail: an offset that designates the first byte of the k-th
   entry of an encoded list designates the list made of that entry and the following ones.  Fetching
   there returns exactly the tail of the host list's entries (with their own offsets and lengths);
   the specification of the enumeration with such designations (Spec/C07Sections.v enum_designated)
   coincides with enum_expected when every designated offset is the first byte of an item; and the
   one place where the code does not visit a designated tail (known finding). *)
From Coq Require Import String.
From PV Require Import Base.Bytes Base.Outcome Base.Prim Base.PyData Model.C07Kinds Model.C07Lists
  Model.C07Inst Gen.C07Tables Spec.C07Lists Spec.C07Sections Proofs.C07Top Proofs.C07Enum.
From Coq Require Import ZArith List Bool Lia.
Import ListNotations.
Open Scope string_scope.
Open Scope list_scope.
Open Scope Z_scope.

Section Layout.
  Context {A : Type} (enc : A -> list Z) (mean : Z -> Z -> A -> tup).

  Lemma layout_tups_app : forall a b pos,
    layout_tups enc mean pos (a ++ b)
    = layout_tups enc mean pos a ++ layout_tups enc mean (pos + zlen (concat (map enc a))) b.
  Proof.
    induction a as [|x r IH]; intros b pos; cbn [app layout_tups map concat].
    - replace (pos + zlen (@nil Z)) with pos by (unfold zlen; cbn; lia). reflexivity.
    - rewrite IH, zlen_app. replace (pos + zlen (enc x) + zlen (concat (map enc r)))
        with (pos + (zlen (enc x) + zlen (concat (map enc r)))) by lia. reflexivity.
  Qed.

  Lemma layout_tups_length : forall a pos, length (layout_tups enc mean pos a) = length a.
  Proof. induction a as [|x r IH]; intros pos; cbn [layout_tups length]; [reflexivity|]. rewrite IH. reflexivity. Qed.

  Lemma layout_tups_tail a b pos :
    skipn (length a) (layout_tups enc mean pos (a ++ b))
    = layout_tups enc mean (pos + zlen (concat (map enc a))) b.
  Proof.
    rewrite layout_tups_app. rewrite <- (layout_tups_length a pos) at 1.
    rewrite skipn_app, skipn_all, Nat.sub_diag. reflexivity.
  Qed.
End Layout.

Lemma concat_map_app {A} (f : A -> list Z) a b : concat (map f (a ++ b)) = concat (map f a) ++ concat (map f b).
Proof. rewrite map_app, concat_app. reflexivity. Qed.

(* the bytes of the host list from its k-th entry on are the encoding of the tail *)
Lemma reassoc (pre skip body term tail : list Z) :
  pre ++ ((skip ++ body) ++ term) ++ tail = (pre ++ skip) ++ (body ++ term) ++ tail.
Proof. rewrite <- !app_assoc. reflexivity. Qed.

Theorem v5_loc_tail_sharing S version a b pre tail cu tbl :
  5 <= version -> addr_table_at S cu tbl -> forallb (wf_lle (s_asz S) (zlen tbl)) (a ++ b) = true ->
  get_location_list_at_offset LLE_TABLES S version
    (pre ++ enc_lle_list (s_le S) (s_asz S) (a ++ b) ++ tail)
    (zlen pre + zlen (concat (map (enc_lle (s_le S) (s_asz S)) a))) (Some cu)
  = Ok (skipn (length a) (lle_meaning (s_le S) (s_asz S) tbl (zlen pre) (a ++ b))).
Proof.
  intros Hv Htbl Hwf. rewrite forallb_app in Hwf. apply andb_true_iff in Hwf. destruct Hwf as [_ Hb].
  unfold lle_meaning. rewrite layout_tups_tail. unfold enc_lle_list at 1. rewrite concat_map_app, reassoc.
  rewrite <- zlen_app. exact (get_location_list_v5 S version b _ tail cu tbl Hv Htbl Hb).
Qed.

Theorem v5_rng_tail_sharing S version a b pre tail cu tbl :
  5 <= version -> addr_table_at S cu tbl -> forallb (wf_rle (s_asz S) (zlen tbl)) (a ++ b) = true ->
  get_range_list_at_offset RLE_TABLES S version
    (pre ++ enc_rle_list (s_le S) (s_asz S) (a ++ b) ++ tail)
    (zlen pre + zlen (concat (map (enc_rle (s_le S) (s_asz S)) a))) (Some cu)
  = Ok (skipn (length a) (rle_meaning (s_le S) (s_asz S) tbl (zlen pre) (a ++ b))).
Proof.
  intros Hv Htbl Hwf. rewrite forallb_app in Hwf. apply andb_true_iff in Hwf. destruct Hwf as [_ Hb].
  unfold rle_meaning. rewrite layout_tups_tail. unfold enc_rle_list at 1. rewrite concat_map_app, reassoc.
  rewrite <- zlen_app. exact (get_range_list_v5 S version b _ tail cu tbl Hv Htbl Hb).
Qed.

Theorem v4_loc_tail_sharing S version a b pre tail cu :
  version < 5 -> (0 < s_asz S)%nat -> forallb (wf_v4loc (s_asz S)) (a ++ b) = true ->
  get_location_list_at_offset LLE_TABLES S version
    (pre ++ enc_v4loc_list (s_le S) (s_asz S) (a ++ b) ++ tail)
    (zlen pre + zlen (concat (map (enc_v4loc (s_le S) (s_asz S)) a))) cu
  = Ok (skipn (length a) (v4loc_meaning (s_le S) (s_asz S) (zlen pre) (a ++ b))).
Proof.
  intros Hv Hasz Hwf. rewrite forallb_app in Hwf. apply andb_true_iff in Hwf. destruct Hwf as [_ Hb].
  unfold v4loc_meaning. rewrite layout_tups_tail. unfold enc_v4loc_list at 1. rewrite concat_map_app, reassoc.
  rewrite <- zlen_app. exact (get_location_list_v4 S version b _ tail cu Hv Hasz Hb).
Qed.

Theorem v4_rng_tail_sharing S version a b pre tail cu :
  version < 5 -> (0 < s_asz S)%nat -> forallb (wf_v4rng (s_asz S)) (a ++ b) = true ->
  get_range_list_at_offset RLE_TABLES S version
    (pre ++ enc_v4rng_list (s_le S) (s_asz S) (a ++ b) ++ tail)
    (zlen pre + zlen (concat (map (enc_v4rng (s_le S) (s_asz S)) a))) cu
  = Ok (skipn (length a) (v4rng_meaning (s_le S) (s_asz S) (zlen pre) (a ++ b))).
Proof.
  intros Hv Hasz Hwf. rewrite forallb_app in Hwf. apply andb_true_iff in Hwf. destruct Hwf as [_ Hb].
  unfold v4rng_meaning. rewrite layout_tups_tail. unfold enc_v4rng_list at 1. rewrite concat_map_app, reassoc.
  rewrite <- zlen_app. exact (get_range_list_v4 S version b _ tail cu Hv Hasz Hb).
Qed.

(* ------------------------------------------------------------------ enum_designated *)
Lemma designated_start (ex : list ex_item) e :
  incr (map ex_start ex) -> In e ex -> designated ex (ex_start e) = Some (snd e).
Proof.
  intros Hincr Hin. unfold designated.
  match goal with |- context [find ?p ex] => destruct (find p ex) as [e'|] eqn:F end.
  - apply find_some in F. destruct F as [Hin' Heq]. apply Z.eqb_eq in Heq.
    assert (E : e' = e) by (apply (start_determines ex); auto).
    subst e'. reflexivity.
  - pose proof (find_none _ _ F e Hin) as Hn. cbn beta in Hn. unfold ex_start in Hn. rewrite Z.eqb_refl in Hn. discriminate.
Qed.

(* without tail sharing it is the enumeration of C07_range_enumeration_exact *)
Theorem enum_designated_items refs (ex : list ex_item) :
  incr (map ex_start ex) -> (forall o, In o refs -> In o (map ex_start ex)) ->
  enum_designated refs ex = enum_expected refs ex.
Proof.
  intros Hincr Hsub. unfold enum_designated, enum_expected.
  rewrite (visited_offsets refs ex Hincr Hsub). fold ex_start.
  assert (H : forall fl : list ex_item, (forall e, In e fl -> In e ex) ->
            flat_map (fun o => match designated ex o with Some l => [l] | None => [] end) (map ex_start fl)
            = map snd fl).
  { induction fl as [|e r IH]; intros Hfl; cbn [map flat_map]; [reflexivity|].
    rewrite (designated_start ex e Hincr (Hfl e (or_introl eq_refl))).
    rewrite IH by (intros e' He'; apply Hfl; right; exact He'). reflexivity. }
  apply H. intros e He. apply filter_In in He. tauto.
Qed.

(* ------------------------------------------------------------------ repaired finding: a designated tail of
   the LAST list of a .debug_loclists block was not visited by iter_location_lists *)
Definition tail_loclists : list Z :=
  enc_unit true {| ub_is64 := false; ub_version := 5; ub_asz := 4; ub_seg := 0; ub_offsets := [];
                   ub_body := enc_lle_list true 4 [LOffsetPair (1, 0%nat) (2, 0%nat) (0%nat, [0x50]); LBaseAddress 0x1000] |}.
Definition tail_S : sections :=
  {| s_le := true; s_asz := 4; s_loc := None; s_ranges := None;
     s_loclists := Some tail_loclists; s_rnglists := None; s_addr := None |}.
Definition tail_cus : list cuview :=
  [ {| cv_version := 5; cv_is64 := false; cv_asz := 4;
       cv_dies := [ []; [ {| a_name := "DW_AT_location"; a_form := "DW_FORM_sec_offset"; a_raw := AInt 12 |};
                          {| a_name := "DW_AT_frame_base"; a_form := "DW_FORM_sec_offset"; a_raw := AInt 17 |} ] ] |} ].
Definition tail_items : list ex_item :=
  [(12, 12, lle_meaning true 4 [] 12 [LOffsetPair (1, 0%nat) (2, 0%nat) (0%nat, [0x50]); LBaseAddress 0x1000])].

Lemma tail_at_unit_end :
  (* both offsets are designated and fetch the two lists *)
  get_location_list_at_offset LLE_TABLES tail_S 5 tail_loclists 17 (Some (cuinfo_of (hd (Build_cuview 0 false 0 []) tail_cus)))
    = Ok (lle_meaning true 4 [] 17 [LBaseAddress 0x1000])
  /\ enum_designated [12; 17] tail_items
     = [lle_meaning true 4 [] 12 [LOffsetPair (1, 0%nat) (2, 0%nat) (0%nat, [0x50]); LBaseAddress 0x1000];
        lle_meaning true 4 [] 17 [LBaseAddress 0x1000]]
  (* the enumeration before the repair visited only the first *)
  /\ iter_location_lists_unfixed LLE_TABLES gen_loclists_CU_header gen_locview_pair tail_S 5 tail_loclists tail_cus
     = Ok [lle_meaning true 4 [] 12 [LOffsetPair (1, 0%nat) (2, 0%nat) (0%nat, [0x50]); LBaseAddress 0x1000]].
Proof. split; [|split]; vm_compute; reflexivity. Qed.

(* the repaired walk visits both *)
Lemma tail_at_unit_end_fixed :
  iter_location_lists LLE_TABLES gen_loclists_CU_header gen_locview_pair tail_S 5 tail_loclists tail_cus
  = Ok (enum_designated [12; 17] tail_items).
Proof. vm_compute. reflexivity. Qed.

(* ------------------------------------------------------------------ the two generations' offset spaces
   the offset -> unit map of iter_range_lists only ever holds units of the enumerated section's
   generation: a pre-v5 unit can neither supply nor mask (by a numerically equal offset) a list of
   .debug_rnglists, and conversely *)
Lemma mapM_tagged {A B C} (g : A -> res B) (c : C) : forall l r,
  mapM (fun x => do o <- g x; Ok (o, c)) l = Ok r -> forall p, In p r -> snd p = c.
Proof.
  induction l as [|x t IH]; intros r H p Hin; cbn [mapM] in H.
  - inversion H; subst. destruct Hin.
  - destruct (g x) as [o|e]; cbn [bind] in H; [|discriminate].
    destruct (mapM _ t) as [rs|e] eqn:E; cbn [bind] in H; [|discriminate].
    inversion H; subst. destruct Hin as [<-|Hin]; [reflexivity|]. exact (IH rs eq_refl p Hin).
Qed.

Lemma mapM_concat_in {A B} (f : A -> res (list B)) : forall l rs,
  mapM f l = Ok rs -> forall p, In p (concat rs) -> exists x r, In x l /\ f x = Ok r /\ In p r.
Proof.
  induction l as [|x t IH]; intros rs H p Hin; cbn [mapM] in H.
  - inversion H; subst. destruct Hin.
  - destruct (f x) as [r|e] eqn:E; cbn [bind] in H; [|discriminate].
    destruct (mapM f t) as [rs'|e] eqn:E2; cbn [bind] in H; [|discriminate].
    inversion H; subst. cbn [concat] in Hin. apply in_app_or in Hin. destruct Hin as [Hin|Hin].
    + exists x, r. cbn. auto.
    + destruct (IH rs' eq_refl p Hin) as (x' & r' & Hx & Hf & Hp). exists x', r'. cbn. auto.
Qed.

Theorem range_refs_generation S ver5 cus refs :
  range_refs S ver5 cus = Ok refs ->
  forall o cv, In (o, cv) refs -> In cv cus /\ (5 <=? cv_version cv) = ver5.
Proof.
  unfold range_refs. intros H o cv Hin.
  destruct (mapM (range_refs_of_cu S ver5) cus) as [rs|e] eqn:E; cbn [bind] in H; [|discriminate].
  inversion H; subst. destruct (mapM_concat_in _ _ _ E _ Hin) as (cv' & r & Hcv & Hf & Hp).
  unfold range_refs_of_cu in Hf. destruct (mapM (translate_die S cv') (cv_dies cv')) as [dies|e]; cbn [bind] in Hf; [|discriminate].
  unfold range_refs_of_dies in Hf. destruct (Bool.eqb (5 <=? cv_version cv') ver5) eqn:W.
  - pose proof (mapM_tagged _ cv' _ _ Hf _ Hp) as Hs. cbn [snd] in Hs. subst cv'.
    split; [exact Hcv|]. apply Bool.eqb_prop. exact W.
  - inversion Hf; subst. destruct Hp.
Qed.
