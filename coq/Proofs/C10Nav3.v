(* Proofs/C10Nav3.v — C10 refinement: DIE.get_parent, DIE.iter_siblings, CompileUnit.iter_DIEs on top of
   the navigation lemmas of C10Nav / C10Nav2. *)
From PV Require Import Spec.C10Spec Proofs.C10Base Proofs.C10Tree Proofs.C10Nodes Proofs.C10Elf Proofs.C10Units
  Proofs.C10Nav Proofs.C10Nav2.
From Coq Require Import ZArith List Bool Lia ZifyBool.
Import ListNotations.
Open Scope Z_scope.

Section Nav3.
  Set Default Proof Using "All".
  Variable F : file.
  Hypothesis WF : wf_file F = true.
  Variable fuel : nat.
  Hypothesis Hfuel : (length (f_units F) < fuel)%nat.
  Hypothesis Hnav : forall ud, In ud (f_units F) -> (2 * nav_fuel (ud_tree ud) < fuel)%nat.
  Let P := parsers_of F.

  (* ---------------------------------------------------------------- get_parent *)
  Lemma get_parent_ok s self u o e : Inv F s -> die_at s self u o -> entry_at F u o = Some e ->
    exists s' r, get_parent P fuel self s = (s', Ok r) /\ Inv F s' /\ ext s s' /\
      match en_parent e with
      | Some po => exists pid, r = Some pid /\ die_at s' pid u po
      | None => r = None
      end.
  Proof.
    intros HI Hself He.
    destruct (entry_at_unit F WF fuel Hfuel _ _ _ He) as (ud & Hu & Hz).
    pose proof (unit_wf F WF _ _ Hu) as Hw.
    destruct Hself as (me & cme & Hme & Hcme & Eume & Eome).
    assert (Hself : die_at s self u o) by (exists me, cme; auto).
    (* what the link says once it is read *)
    assert (Hread : forall s1, Inv F s1 -> ext s s1 -> (en_parent e <> None -> parent_set s1 self) ->
              exists r, (me0 <- get_die self;; ret (d_parent me0)) s1 = (s1, Ok r) /\
                match en_parent e with Some po => exists pid, r = Some pid /\ die_at s1 pid u po | None => r = None end).
    { intros s1 HI1 X1 Hps. pose proof (die_at_ext _ _ _ _ _ X1 Hself) as Hself1.
      destruct Hself1 as (me1 & cme1 & Hme1 & Hcme1 & Eume1 & Eome1).
      assert (Hself1 : die_at s1 self u o) by (exists me1, cme1; auto).
      exists (d_parent me1). rewrite (bind_get_die _ _ _ _ Hme1). split; [reflexivity|].
      destruct (d_parent me1) as [p|] eqn:Ep.
      - destruct (parent_facts F WF fuel Hfuel s1 self u o me1 p HI1 Hself1 Hme1 Ep) as (e' & pd & He' & Hpd & Een & Hatp).
        assert (e' = e) by congruence. subst e'. rewrite Een. eauto.
      - destruct (en_parent e) as [po|]; [|reflexivity]. exfalso.
        destruct Hps as (d & Hd & Hne); [discriminate|]. congruence. }
    unfold get_parent. rewrite (bind_get_die _ _ _ _ Hme).
    destruct (d_parent me) as [p|] eqn:Ep.
    - destruct (parent_facts F WF fuel Hfuel s self u o me p HI Hself Hme Ep) as (e' & pd & He' & Hpd & Een & Hatp).
      assert (e' = e) by congruence. subst e'. exists s, (Some p). split; [reflexivity|]. split; [exact HI|].
      split; [apply ext_refl|]. rewrite Een. eauto.
    - destruct (get_top_DIE_ok F WF fuel Hfuel s (d_cu me) cme HI Hcme) as (s1 & top & E1 & HI1 & X1 & Htop & _).
      fold P in E1. rewrite (bind_ok _ _ _ _ _ E1). rewrite Eume in Htop.
      destruct (cu_facts F WF fuel Hfuel _ _ _ HI Hcme) as (ud' & Hu' & _ & Edo & _).
      rewrite Eume in Hu'. assert (ud' = ud) by congruence. subst ud'. rewrite Edo in Htop.
      destruct (wf_unit_facts F WF _ Hw) as (_ & Hroot & _).
      destruct (search_loop_ok F WF fuel Hfuel Hnav u ud o e Hu Hz fuel s1 self top HI1 (die_at_ext _ _ _ _ _ X1 Hself))
        as (s2 & E2 & HI2 & X2 & Hps).
      { right. exists None, (ud_tree ud). split; [apply subnodes_self|]. split; [rewrite Hroot; exact Htop|].
        split; [apply zassoc_in; exact Hz|]. split; [intros H; congruence|].
        destruct (unit_at_in F WF _ _ Hu) as [Hin _]. pose proof (Hnav _ Hin). lia. }
      rewrite (bind_ok _ _ _ _ _ E2).
      destruct (Hread s2 HI2 (ext_trans _ _ _ X1 X2) Hps) as (r & Er & Hr).
      exists s2, r. split; [exact Er|]. split; [exact HI2|]. split; [eapply ext_trans; eauto|exact Hr].
  Qed.

  (* ---------------------------------------------------------------- iter_siblings *)
  Lemma remaining_length s u ud cf acf : Inv F s -> unit_at F u = Some ud -> cframe_rel F s u cf acf ->
    (2 * length (remaining (ud_entries ud) acf) < fuel)%nat.
  Proof.
    intros HI Hu Hrel.
    destruct (cframe_cases F WF fuel Hfuel Hnav s u ud cf acf HI Hu Hrel)
      as [(_ & -> & _)|(par & n & post & die & Hn & _ & _ & Hpos & -> & _)].
    - destruct (fuel_pos F WF fuel Hfuel Hnav _ _ Hu) as (f' & ->). cbn. lia.
    - rewrite map_length. destruct (node_fuel F WF fuel Hfuel Hnav u ud par n Hu Hn) as [Hnf _].
      rewrite (nav_fuel_unfold n) in Hnf.
      assert (length post <= length (node_kids n))%nat.
      { destruct Hpos as [[_ ->]|(ch & k & pre & _ & -> & _)]; [lia|]. rewrite app_length. cbn [length]. lia. }
      destruct (unit_at_in F WF _ _ Hu) as [Hin _]. pose proof (Hnav _ Hin).
      pose proof (nav_fuel_sub _ _ _ _ Hn). rewrite (nav_fuel_unfold n) in *. lia.
  Qed.

  (* the tail of the children still to come after one resumption *)
  Lemma remaining_step s u ud cf acf : Inv F s -> unit_at F u = Some ud -> cframe_rel F s u cf acf ->
    remaining (ud_entries ud) (fst (achildren_next (ud_entries ud) acf)) = tl (remaining (ud_entries ud) acf).
  Proof.
    intros HI Hu Hrel. pose proof (unit_wf F WF _ _ Hu) as Hw. rewrite achildren_next_remaining.
    destruct (cframe_cases F WF fuel Hfuel Hnav s u ud cf acf HI Hu Hrel)
      as [(_ & Hr & _)|(par & n & post & die & Hn & Hhc & _ & Hpos & Hr & Hp & _ & Hsub)].
    - rewrite Hr. destruct (acframe_parent acf); reflexivity.
    - rewrite Hr, Hp. destruct post as [|k' post']; [reflexivity|]. cbn [map fst tl remaining].
      rewrite (kids_of_node F WF ud par n Hw Hn).
      assert (Ekids : exists pre, node_kids n = pre ++ k' :: post').
      { destruct Hpos as [[_ E]|(ch & k & pre & _ & E & _)]; [exists []; auto|].
        exists (pre ++ [k]). rewrite <- app_assoc. exact E. }
      destruct Ekids as (pre & Ekids). rewrite Ekids, map_app. cbn [map]. apply after_skip.
      intros Hc. apply in_map_iff in Hc. destruct Hc as (x & Ex & Hx).
      destruct (node_hc_facts F WF ud par n Hw Hn Hhc) as (Hchain & _ & _ & Hpos' & _).
      destruct (chain_offsets _ _ _ Hchain Hpos' pre k' post' Ekids) as [Hlt _]. specialize (Hlt x Hx). lia.
  Qed.

  Lemma siblings_loop_ok u ud self so : unit_at F u = Some ud ->
    forall l n s cf acf, remaining (ud_entries ud) acf = l -> (length l < n)%nat -> Inv F s ->
      cframe_rel F s u cf acf -> die_at s self u so ->
      exists s' r, siblings_loop P fuel n self cf s = (s', Ok r) /\ Inv F s' /\ ext s s' /\
        match filter (fun k => negb (k =? so)) l, acframe_parent acf with
        | k :: _, Some p => exists sib cf', r = Some (FSiblings self (Some cf'), sib) /\ die_at s' sib u k /\
                                           cframe_rel F s' u cf' (ACYield p k)
        | _, _ => r = None
        end.
  Proof.
    intros Hu. induction l as [|k l IH]; intros n s cf acf Hrem Hn HI Hrel Hself;
      (destruct n as [|n]; [cbn in Hn; lia|]); cbn [siblings_loop];
      destruct (children_next_frame F WF fuel Hfuel Hnav s u ud cf acf HI Hu Hrel) as (s1 & cf' & r0 & E1 & HI1 & X1 & Hrel1 & Hpost);
      pose proof (remaining_step s u ud cf acf HI Hu Hrel) as Hstep;
      rewrite achildren_next_remaining in Hrel1, Hpost, Hstep; rewrite Hrem in *;
      fold P in E1; rewrite (bind_ok _ _ _ _ _ E1).
    - assert (Hr0 : r0 = None).
      { destruct (acframe_parent acf); cbn [snd] in Hpost; destruct r0; try contradiction; reflexivity. }
      subst r0. exists s1, None. split; [reflexivity|]. split; [exact HI1|]. split; [exact X1|]. reflexivity.
    - destruct (acframe_parent acf) as [p|] eqn:Ep.
      2:{ exfalso. destruct acf; cbn in Ep, Hrem; try discriminate. }
      cbn [fst snd tl] in *. destruct r0 as [sib|]; [|contradiction].
      destruct Hpost as (Hsib & _ & _ & _).
      pose proof (die_at_ext _ _ _ _ _ X1 Hself) as Hself1.
      cbn [filter]. destruct (Z.eqb_spec k so) as [->|Hne]; cbn [negb].
      + assert (sib = self) by (eapply die_at_identity; eauto). subst sib. rewrite Nat.eqb_refl.
        destruct (IH n s1 cf' (ACYield p so) Hstep ltac:(cbn in Hn; lia) HI1 Hrel1 Hself1) as (s2 & r & E2 & HI2 & X2 & Hm).
        exists s2, r. split; [exact E2|]. split; [exact HI2|]. split; [eapply ext_trans; eauto|]. exact Hm.
      + assert (Hneq : Nat.eqb sib self = false).
        { apply Nat.eqb_neq. intros ->. destruct (die_at_fun F WF fuel Hfuel Hnav _ _ _ _ _ _ Hsib Hself1). contradiction. }
        rewrite Hneq. exists s1, (Some (FSiblings self (Some cf'), sib)).
        split; [reflexivity|]. split; [exact HI1|]. split; [exact X1|]. exists sib, cf'. auto.
  Qed.

  Lemma asiblings_rest_remaining E self acf :
    asiblings_rest E self acf = filter (fun k => negb (k =? self)) (remaining E acf).
  Proof. destruct acf; reflexivity. Qed.

  (* ---------------------------------------------------------------- iter_DIEs *)
  Definition lvl_weight (l : slevel) : nat := match sl_pc l with PDie => 2 | _ => 1 end.
  Definition stack_weight (st : list slevel) : nat :=
    match st with [] => 0 | l :: r => 2 * length r + lvl_weight l end.

  Lemma stack_weight_le st : (stack_weight st <= 2 * length st)%nat.
  Proof. destruct st as [|[d pc] r]; cbn [stack_weight length]; [lia|]. unfold lvl_weight. cbn [sl_pc]. destruct pc; lia. Qed.

  Lemma nchain_tail a r : nchain (a :: r) -> nchain r.
  Proof. destruct r as [|b r']; cbn [nchain]; tauto. Qed.

  Lemma nchain_sub ud ns : nchain ns -> last ns (ud_tree ud) = ud_tree ud ->
    forall n, In n ns -> exists par, In (par, n) (subnodes None (ud_tree ud)).
  Proof.
    induction ns as [|a r IH]; intros Hc Hl n Hin; [destruct Hin|].
    destruct r as [|b r'].
    - cbn in Hl. destruct Hin as [<-|[]]. subst a. exists None. apply subnodes_self.
    - destruct Hc as [Hab Hc]. assert (Hl' : last (b :: r') (ud_tree ud) = ud_tree ud) by exact Hl.
      destruct Hin as [<-|Hin]; [|apply IH; auto].
      destruct (IH Hc Hl' b (or_introl eq_refl)) as (par & Hb). exists (Some (node_off b)). eapply subnodes_kid; eauto.
  Qed.

  Lemma last_cons_default {A} (l : list A) : forall x d, last (x :: l) d = last l x.
  Proof.
    induction l as [|y l' IH]; intros x d; [reflexivity|].
    change (last (x :: y :: l') d) with (last (y :: l') d). rewrite (IH y d), (IH y x). reflexivity.
  Qed.

  Lemma nchain_len r : forall a, nchain (a :: r) -> (length (a :: r) + nav_fuel a <= nav_fuel (last r a) + 1)%nat.
  Proof.
    induction r as [|b r' IH]; intros a Hc; [cbn; lia|].
    destruct Hc as [Hab Hc]. specialize (IH b Hc). pose proof (nav_fuel_kid b a Hab).
    rewrite (nav_fuel_unfold b) in IH. rewrite last_cons_default. cbn [length] in *. lia.
  Qed.

  Definition oid_rel (s' : state) (u : Z) (oid : option nat) (od : option Z) : Prop :=
    match oid, od with Some id, Some o => die_at s' id u o | None, None => True | _, _ => False end.

  Definition sub_post (s' : state) (u : Z) (ud : udesc) (r : option (list slevel * option nat))
                      (spec : option (list (Z * apc) * option Z)) : Prop :=
    match spec with
    | Some (ast', od) => exists st' oid, r = Some (st', oid) /\ Forall2 (level_rel F s' u) st' ast' /\
                                        stack_nodes F u ast' /\ oid_rel s' u oid od
    | None => r = None
    end.

  Section Sub.
    Variables (u : Z) (ud : udesc).
    Hypothesis Hu : unit_at F u = Some ud.

    Lemma sub_kids_ok s die o cf acf rest arest b parb ns' : Inv F s -> die_at s die u o ->
      cframe_rel F s u cf acf -> cframe_die cf = Some die -> Forall2 (level_rel F s u) rest arest ->
      o = node_off b -> In (parb, b) (subnodes None (ud_tree ud)) -> nchain (b :: ns') ->
      map node_off ns' = map fst arest -> last (b :: ns') (ud_tree ud) = ud_tree ud ->
      exists s' r,
        (r0 <- children_next P fuel cf;;
         match r0 with
         | (cf', Some c) => ret (Some (mk_sl c PDie :: mk_sl die (PKids cf') :: rest, Some c))
         | (cf', None) => d <- get_die die;; ret (Some (mk_sl die PTerm :: rest, d_term d))
         end) s = (s', Ok r) /\ Inv F s' /\ ext s s' /\
        sub_post s' u ud r (asub_kids (ud_entries ud) o acf arest).
    Proof.
      intros HI Hdie Hrel Hcd Hrest Eo Hb Hchain Hmap Hlast. pose proof (unit_wf F WF _ _ Hu) as Hw.
      destruct (node_entries F WF ud parb b Hw Hb) as (Hown & _ & _). rewrite <- Eo in Hown.
      destruct (children_next_frame F WF fuel Hfuel Hnav s u ud cf acf HI Hu Hrel) as (s1 & cf' & r0 & E1 & HI1 & X1 & Hrel1 & Hpost).
      fold P in E1. rewrite (bind_ok _ _ _ _ _ E1). unfold asub_kids.
      destruct (achildren_next (ud_entries ud) acf) as [acf' ar]. cbn [fst snd] in *.
      pose proof (die_at_ext _ _ _ _ _ X1 Hdie) as Hdie1.
      assert (Hrest1 : Forall2 (level_rel F s1 u) rest arest).
      { eapply Forall2_imp; [|exact Hrest]. intros x y Hxy. eapply level_rel_ext; eauto. }
      assert (Hpar : forall p, acframe_parent acf = Some p -> p = o).
      { intros p Hp. inversion Hrel as [d0 p0 H0|d0 ch p0 c0 H0 _ _|]; subst; cbn in Hp, Hcd; try discriminate;
          inversion Hp; inversion Hcd; subst; apply (die_at_fun F WF fuel Hfuel Hnav _ _ _ _ _ _ H0 Hdie). }
      unfold cnext_post in Hpost. destruct r0 as [c|], ar as [oc|]; try contradiction.
      - destruct Hpost as (Hc & _ & Hcd' & (p & Hp & Hkid)). rewrite (Hpar p Hp) in Hkid.
        destruct Hkid as (ud' & Hu' & Hin). assert (ud' = ud) by congruence. subst ud'.
        unfold kids_of in Hin. rewrite Hown in Hin. cbn [own_entry en_kids] in Hin.
        apply in_map_iff in Hin. destruct Hin as (k & Ek & Hk).
        exists s1, (Some (mk_sl c PDie :: mk_sl die (PKids cf') :: rest, Some c)).
        split; [reflexivity|]. split; [exact HI1|]. split; [exact X1|].
        exists (mk_sl c PDie :: mk_sl die (PKids cf') :: rest), (Some c). split; [reflexivity|]. split; [|split].
        + constructor; [constructor; exact Hc|]. constructor; [|exact Hrest1].
          constructor; [exact Hdie1|exact Hrel1|congruence].
        + right. exists ud, (k :: b :: ns'). split; [exact Hu|]. split; [cbn [map fst]; rewrite Ek, <- Eo, Hmap; reflexivity|].
          split; [split; [exact Hk|exact Hchain]|exact Hlast].
        + exact Hc.
      - destruct Hpost as (_ & Hterm). destruct Hdie1 as (d1 & c1 & Hd1 & Hc1 & Eu1 & Eo1).
        assert (Hdie1 : die_at s1 die u o) by (exists d1, c1; auto).
        rewrite (bind_get_die _ _ _ _ Hd1).
        exists s1, (Some (mk_sl die PTerm :: rest, d_term d1)).
        split; [reflexivity|]. split; [exact HI1|]. split; [exact X1|].
        exists (mk_sl die PTerm :: rest), (d_term d1). split; [reflexivity|]. split; [|split].
        + constructor; [constructor; exact Hdie1|exact Hrest1].
        + right. exists ud, (b :: ns'). split; [exact Hu|]. split; [cbn [map fst]; rewrite <- Eo, Hmap; reflexivity|]. auto.
        + rewrite Hown. cbn [own_entry en_term].
          assert (He : entry_at F u o = Some (own_entry parb b)) by (unfold entry_at; rewrite Hu; exact Hown).
          destruct (dr_hc (node_raw b)) eqn:Ehc.
          * destruct (Hterm die o _ Hcd Hdie1 He Ehc) as (toff & Et & (d2 & t & Hd2 & Et2 & Hat & _)).
            cbn [own_entry en_term] in Et. rewrite Ehc in Et. inversion Et. subst toff.
            assert (d2 = d1) by congruence. subst d2. rewrite Et2. exact Hat.
          * destruct (d_term d1) as [t|] eqn:Et; [|exact I]. exfalso.
            destruct (term_facts F WF fuel Hfuel s1 die u o d1 t HI1 Hdie1 Hd1 Et) as (e & td & et & He' & _ & Een & _).
            assert (e = own_entry parb b) by congruence. subst e. cbn [own_entry en_term] in Een. rewrite Ehc in Een. discriminate.
    Qed.

    Lemma subtree_next_ok : forall n s st ast, (stack_weight st < n)%nat -> Inv F s ->
      Forall2 (level_rel F s u) st ast -> stack_nodes F u ast ->
      exists s' r, subtree_next P fuel n st s = (s', Ok r) /\ Inv F s' /\ ext s s' /\
                   sub_post s' u ud r (asubtree_next (ud_entries ud) ast).
    Proof.
      pose proof (unit_wf F WF _ _ Hu) as Hw.
      induction n as [|n IH]; intros s st ast Hn HI Hall Hsn; [lia|].
      destruct Hall as [|[die pc] [o apc0] rest arest Hlvl Hrest].
      - exists s, None. split; [reflexivity|]. split; [exact HI|]. split; [apply ext_refl|reflexivity].
      - destruct Hsn as [E|(ud' & ns & Hu' & Hmap & Hchain & Hlast)]; [discriminate|].
        assert (ud' = ud) by congruence. subst ud'.
        destruct ns as [|b ns']; [discriminate|]. cbn [map fst] in Hmap. inversion Hmap as [[Eo Hmap']]. subst o.
        destruct (nchain_sub ud (b :: ns') Hchain Hlast b (or_introl eq_refl)) as (parb & Hb).
        destruct (node_entries F WF ud parb b Hw Hb) as (Hown & _ & _).
        assert (Hsn_rest : stack_nodes F u arest).
        { destruct ns' as [|b' ns'']; [left; destruct arest; [reflexivity|discriminate]|].
          right. exists ud, (b' :: ns''). split; [exact Hu|]. split; [exact Hmap'|]. split; [eapply nchain_tail; eauto|exact Hlast]. }
        inversion Hlvl as [d0 o0 Hat Epc Eapc|d0 o0 Hat Epc Eapc|d0 o0 cf acf Hat Hrel Hcd Epc Eapc|d0 o0 Hat Epc Eapc];
          subst d0 o0 pc apc0; cbn [subtree_next].
        + (* PStart: yield die *)
          exists s, (Some (mk_sl die PDie :: rest, Some die)).
          split; [reflexivity|]. split; [exact HI|]. split; [apply ext_refl|]. cbn [asubtree_next sub_post].
          exists (mk_sl die PDie :: rest), (Some die). split; [reflexivity|]. split; [constructor; [apply LR_die; exact Hat|exact Hrest]|].
          split; [right; exists ud, (b :: ns'); auto|exact Hat].
        + (* PDie *)
          destruct (node_die_raw F WF fuel Hfuel u ud Hu Hw s die parb b HI Hat Hb) as (dd & c & Hd & Hc & Ecu & Eoff & Eraw).
          rewrite (bind_get_die _ _ _ _ Hd). rewrite Eraw. cbn [asubtree_next]. rewrite Hown.
          cbn [own_entry en_raw]. destruct (dr_hc (node_raw b)) eqn:Ehc.
          * destruct n as [|n']; [cbn [stack_weight lvl_weight sl_pc] in Hn; lia|]. cbn [subtree_next].
            apply (sub_kids_ok s die (node_off b) (CStart die) (ACStart (node_off b)) rest arest b parb ns'); auto.
            constructor. exact Hat.
          * apply IH; auto. pose proof (stack_weight_le rest). cbn [stack_weight lvl_weight sl_pc] in Hn. lia.
        + (* PKids *)
          cbn [asubtree_next].
          apply (sub_kids_ok s die (node_off b) cf acf rest arest b parb ns'); auto.
        + (* PTerm *)
          cbn [asubtree_next]. apply IH; auto. pose proof (stack_weight_le rest). cbn [stack_weight lvl_weight sl_pc] in Hn. lia.
    Qed.
  End Sub.

  (* the stack of a live iter_DIEs generator is short enough for the fuel *)
  Lemma stack_fuel u ud st ast s : unit_at F u = Some ud -> Forall2 (level_rel F s u) st ast -> stack_nodes F u ast ->
    (stack_weight st < fuel)%nat.
  Proof.
    intros Hu Hall Hsn. pose proof (stack_weight_le st). pose proof (Forall2_len _ _ _ Hall) as Hlen.
    destruct (unit_at_in F WF _ _ Hu) as [Hin _]. pose proof (Hnav _ Hin).
    destruct Hsn as [->|(ud' & ns & Hu' & Hmap & Hchain & Hlast)].
    - destruct st; [cbn; lia|discriminate].
    - assert (ud' = ud) by congruence. subst ud'.
      assert (Hl : length ns = length ast) by (rewrite <- (map_length node_off ns), Hmap, map_length; reflexivity).
      destruct ns as [|a r]; [destruct ast; [destruct st; [cbn; lia|discriminate]|discriminate]|].
      pose proof (nchain_len r a Hchain). pose proof (nav_fuel_ge2 a).
      rewrite last_cons_default in Hlast. rewrite Hlast in *.
      cbn [length] in *. lia.
  Qed.
End Nav3.
