(* Proofs/C01Open.v — C01, part 2: opening a well-formed image.  Everything is proved
   inside one section whose only hypothesis is  wf_image img s = true. *)
From Coq Require Import String.
From PV Require Import Base.Bytes Base.Outcome Base.Prim Base.Fmt Base.Enum Base.PyData.
From PV Require Import Proofs.FmtProofs Proofs.PrimProofs Proofs.ElfLayoutFacts.
From PV Require Import Gen.ElfLayouts Gen.Tables.
From PV Require Import Spec.PrimSpec Spec.ElfGabi Spec.C01Obs Spec.C01Image Model.C01ElfFile.
From PV Require Import Proofs.C01Lemmas Proofs.C01Records.
From Coq Require Import ZifyBool.
Ltac Zify.zify_post_hook ::= Z.to_euclidean_division_equations.
Open Scope string_scope.
Open Scope list_scope.
Open Scope Z_scope.

(* ------------------------------------------------------------------ e_ident *)
Lemma encode_ehdr_prefix s : exists rest,
  encode_ehdr s = ELFMAG ++ (if i_is64 s then 2 else 1) :: (if i_le s then 1 else 2) :: rest.
Proof.
  destruct s as [is64 le e secs segs k]. destruct e.
  destruct le, is64; eexists; cbv -[Z.modulo Z.div Z.pow]; reflexivity.
Qed.

Lemma identify_file_ok (is64 le : bool) rest :
  identify_file (ELFMAG ++ (if is64 then 2 else 1) :: (if le then 1 else 2) :: rest) = Ok (is64, le).
Proof. destruct is64, le; reflexivity. Qed.

(* ------------------------------------------------------------------ the opened file *)
(* what ELFFile(stream) holds for an image carrying [s] *)
Definition exp_core (img : list Z) (s : image_spec) : efcore :=
  mk_core img (i_is64 s) (i_le s) (exp_ehdr s).
Definition exp_strtab (s : image_spec) : option hrec :=
  match nth_sec s (i_shstrndx s) with Some x => Some (exp_shdr s (snd x)) | None => None end.
Definition exp_file (img : list Z) (s : image_spec) : elffile :=
  {| ef_core := exp_core img s; ef_strtab := exp_strtab s |}.

Definition sh_id (s : image_spec) : string :=
  table_id_for gen_sh_type_table_of_machine (machine_key (exp_machine s)).
Definition p_id (s : image_spec) : string :=
  table_id_for gen_p_type_table_of_machine (machine_key (exp_machine s)).

Lemma core_shb img s : c_shb (exp_core img s) = [("sh_type", sh_id s, false)].
Proof. unfold exp_core, mk_core. cbn [c_shb]. rewrite rebind_shdr. reflexivity. Qed.
Lemma core_phb img s : c_phb (exp_core img s) = [("p_type", p_id s, false)].
Proof. unfold exp_core, mk_core. cbn [c_phb]. rewrite rebind_phdr. reflexivity. Qed.
Lemma exp_shdr_rec s h : exp_shdr s h = shdr_rec (table_of_id (sh_id s)) h.
Proof. reflexivity. Qed.
Lemma exp_phdr_rec s p : exp_phdr s p = phdr_rec (i_is64 s) (table_of_id (p_id s)) p.
Proof. unfold exp_phdr, phdr_rec. destruct (i_is64 s); reflexivity. Qed.

Lemma hdr_shoff img s : hz (c_hdr (exp_core img s)) "e_shoff" = e_shoff (i_ehdr s). Proof. reflexivity. Qed.
Lemma hdr_phoff img s : hz (c_hdr (exp_core img s)) "e_phoff" = e_phoff (i_ehdr s). Proof. reflexivity. Qed.
Lemma hdr_shentsize img s : hz (c_hdr (exp_core img s)) "e_shentsize" = e_shentsize (i_ehdr s). Proof. reflexivity. Qed.
Lemma hdr_phentsize img s : hz (c_hdr (exp_core img s)) "e_phentsize" = e_phentsize (i_ehdr s). Proof. reflexivity. Qed.
Lemma hdr_shnum img s : hz (c_hdr (exp_core img s)) "e_shnum" = e_shnum (i_ehdr s). Proof. reflexivity. Qed.
Lemma hdr_phnum img s : hz (c_hdr (exp_core img s)) "e_phnum" = e_phnum (i_ehdr s). Proof. reflexivity. Qed.
Lemma hdr_shstrndx img s : hz (c_hdr (exp_core img s)) "e_shstrndx" = e_shstrndx (i_ehdr s). Proof. reflexivity. Qed.

Lemma shdr_get_name s h : hz (exp_shdr s h) "sh_name" = sh_name h. Proof. reflexivity. Qed.
Lemma shdr_get_type s h : hty (exp_shdr s h) "sh_type" = sh_tyname s h. Proof. reflexivity. Qed.
Lemma shdr_get_flags s h : hz (exp_shdr s h) "sh_flags" = sh_flags h. Proof. reflexivity. Qed.
Lemma shdr_get_offset s h : hz (exp_shdr s h) "sh_offset" = sh_offset h. Proof. reflexivity. Qed.
Lemma shdr_get_size s h : hz (exp_shdr s h) "sh_size" = sh_size h. Proof. reflexivity. Qed.
Lemma shdr_get_link s h : hz (exp_shdr s h) "sh_link" = sh_link h. Proof. reflexivity. Qed.
Lemma shdr_get_info s h : hz (exp_shdr s h) "sh_info" = sh_info h. Proof. reflexivity. Qed.
Lemma shdr_get_entsize s h : hz (exp_shdr s h) "sh_entsize" = sh_entsize h. Proof. reflexivity. Qed.
Lemma phdr_get_type s p : hty (exp_phdr s p) "p_type" = p_tyname s p.
Proof. unfold exp_phdr. destruct (i_is64 s); reflexivity. Qed.
Lemma phdr_get_offset s p : hz (exp_phdr s p) "p_offset" = p_offset p.
Proof. unfold exp_phdr. destruct (i_is64 s); reflexivity. Qed.

Lemma nth_sec_inv s i x : nth_sec s i = Some x ->
  0 <= i < n_sections s /\ nth_error (i_sections s) (Z.to_nat i) = Some x.
Proof.
  unfold nth_sec. destruct (Z.leb_spec 0 i) as [H0|H0]; destruct (Z.ltb_spec i (n_sections s)) as [H1|H1];
    cbn [andb]; intros H; try discriminate. split; [lia|exact H].
Qed.
Lemma nth_sec_some s i : 0 <= i < n_sections s -> exists x, nth_sec s i = Some x.
Proof.
  intros H. unfold nth_sec. destruct (Z.leb_spec 0 i) as [H0|H0]; [|lia].
  destruct (Z.ltb_spec i (n_sections s)) as [H1|H1]; [|lia]. cbn [andb].
  destruct (nth_error (i_sections s) (Z.to_nat i)) as [x|] eqn:E; [exists x; reflexivity|].
  apply nth_error_None in E. unfold n_sections, zlen in H. lia.
Qed.
Lemma nth_sec_in s i x : nth_sec s i = Some x -> In x (i_sections s).
Proof. intros H. apply nth_sec_inv in H. destruct H as [_ H]. eapply nth_error_In. exact H. Qed.

Section WF.
Variable img : list Z.
Variable s : image_spec.
Hypothesis Hwf : wf_image img s = true.

Local Notation C := (exp_core img s).
Local Notation EF := (exp_file img s).

Lemma wf_len : zlen img < FILE_LIMIT.
Proof. unfold wf_image in Hwf. rewrite !andb_true_iff in Hwf. lia. Qed.
Lemma wf_ehdr : ehdr_ok img s = true.
Proof. unfold wf_image in Hwf. rewrite !andb_true_iff in Hwf. tauto. Qed.
Lemma wf_counts : counts_ok s = true.
Proof. unfold wf_image in Hwf. rewrite !andb_true_iff in Hwf. tauto. Qed.
Lemma wf_sections : sections_ok img s = true.
Proof. unfold wf_image in Hwf. rewrite !andb_true_iff in Hwf. tauto. Qed.
Lemma wf_segments : segments_ok img s = true.
Proof. unfold wf_image in Hwf. rewrite !andb_true_iff in Hwf. tauto. Qed.
Lemma wf_names : names_ok img s = true.
Proof. unfold wf_image in Hwf. rewrite !andb_true_iff in Hwf. tauto. Qed.
Lemma wf_kinds : kinds_ok img s = true.
Proof. unfold wf_image in Hwf. rewrite !andb_true_iff in Hwf. tauto. Qed.

(* ---- the file header *)
Lemma img_ehdr : exists t, img = encode_ehdr s ++ t.
Proof.
  pose proof wf_ehdr as H. unfold ehdr_ok in H. apply andb_prop in H. destruct H as [_ H].
  apply at_skipn in H. destruct H as [_ [t Ht]]. exists t. exact Ht.
Qed.

Lemma identify_ok : identify_file img = Ok (i_is64 s, i_le s).
Proof.
  destruct img_ehdr as [t Ht]. destruct (encode_ehdr_prefix s) as [rest Hr].
  rewrite Ht, Hr. rewrite <- app_assoc. cbn [app]. apply identify_file_ok.
Qed.

Lemma parse_header_ok : parse_elf_header img (i_is64 s) (i_le s) = Ok (exp_ehdr s).
Proof.
  destruct img_ehdr as [t Ht]. pose proof wf_ehdr as H. unfold ehdr_ok in H.
  apply andb_prop in H. destruct H as [Hf _].
  unfold parse_elf_header.
  apply struct_parse_at_exact with (L := L_ehdr s) (vals := ehdr_vals s) (t := t).
  - apply gen_Elf_Ehdr_gabi.
  - exact Hf.
  - exact Ht.
  - reflexivity.
  - apply adapt_ehdr.
Qed.

(* ---- section headers *)
Lemma sections_parts : 0 < n_sections s ->
  shdr_size s <= e_shentsize (i_ehdr s) /\ 0 <= e_shoff (i_ehdr s) /\
  forallb (fun x => fits_layout (L_shdr s) (shdr_vals (snd x))) (i_sections s) = true /\
  table_at (drop (e_shoff (i_ehdr s)) img) (Z.to_nat (e_shentsize (i_ehdr s)))
           (map (fun x => encode_shdr s (snd x)) (i_sections s)) = true.
Proof.
  intros Hn. pose proof wf_sections as H. unfold sections_ok in H.
  destruct (Z.eqb_spec (n_sections s) 0) as [E|_]; [lia|]. cbn [orb] in H.
  rewrite !andb_true_iff in H. destruct H as [[[H1 H2] H3] H4]. repeat split; try assumption; lia.
Qed.

Lemma shdr_size_pos : 0 < shdr_size s. Proof. unfold shdr_size. destruct (i_is64 s); lia. Qed.

(* header i sits at e_shoff + i * e_shentsize, inside the stream, and decodes to the content *)
Lemma section_record i x : nth_sec s i = Some x ->
  let pos := e_shoff (i_ehdr s) + i * e_shentsize (i_ehdr s) in
  0 <= pos < zlen img /\
  struct_parse_at (gen_Elf_Shdr (i_le s) (i_is64 s)) [("sh_type", sh_id s, false)] img pos
  = Ok (exp_shdr s (snd x)).
Proof.
  intros Hx pos. apply nth_sec_inv in Hx. destruct Hx as [Hi Hx].
  destruct (sections_parts ltac:(lia)) as (Hsz & Hoff & Hfits & Htab).
  pose proof shdr_size_pos as Hp.
  assert (Hf : fits_layout (L_shdr s) (shdr_vals (snd x)) = true)
    by exact (forallb_nth_error _ _ _ _ Hfits Hx).
  destruct (table_entry img _ _ _ i _ Hoff ltac:(lia) ltac:(lia) Htab
              (nth_error_map_some (fun x => encode_shdr s (snd x)) _ _ _ Hx)) as [t Ht].
  fold pos in Ht.
  assert (Hpos : 0 <= pos) by (unfold pos; nia).
  assert (Hlt : pos < zlen img).
  { eapply record_inside; [exact Hpos|exact Ht|].
    unfold encode_shdr. eapply encode_layout_nonempty; [exact Hf|].
    unfold L_shdr. rewrite size_Shdr. destruct (i_is64 s); reflexivity. }
  split; [lia|].
  apply struct_parse_at_exact with (L := L_shdr s) (vals := shdr_vals (snd x)) (t := t).
  - apply gen_Elf_Shdr_gabi.
  - exact Hf.
  - exact Ht.
  - pose proof wf_len. rewrite SEEK_LIMIT_val. lia.
  - rewrite exp_shdr_rec. apply adapt_shdr.
Qed.

Lemma section_header_ok i x : nth_sec s i = Some x ->
  get_section_header C i = Ok (Some (exp_shdr s (snd x))).
Proof.
  intros Hx. destruct (section_record i x Hx) as [Hpos Hparse].
  pose proof (nth_sec_inv _ _ _ Hx) as [Hi _].
  destruct (sections_parts ltac:(lia)) as (Hsz & _).
  unfold get_section_header, section_offset.
  rewrite hdr_shoff, hdr_shentsize.
  change (Shdr C) with (gen_Elf_Shdr (i_le s) (i_is64 s)). rewrite sizeof_Shdr.
  unfold shdr_size in Hsz.
  replace (e_shentsize (i_ehdr s) <? (if i_is64 s then 64 else 40)) with false
    by (symmetry; apply Z.ltb_ge; exact Hsz).
  rewrite andb_false_r. cbn [bind].
  change (stream_len C) with (zlen img).
  replace (zlen img <? e_shoff (i_ehdr s) + i * e_shentsize (i_ehdr s)) with false
    by (symmetry; apply Z.ltb_ge; lia).
  rewrite core_shb. change (c_img C) with img. rewrite Hparse. reflexivity.
Qed.
End WF.
