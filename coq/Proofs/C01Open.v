(* Proofs/C01Open.v — C01, part 2: opening a well-formed image.  Everything is proved
   inside one section whose only hypothesis is  wf_image img s = true. *)
From Coq Require Import String.
From PV Require Import Base.Bytes Base.Outcome Base.Prim Base.Fmt Base.Enum Base.PyData.
From PV Require Import Proofs.FmtProofs Proofs.PrimProofs Proofs.ElfLayoutFacts.
From PV Require Import Gen.ElfLayouts Gen.Tables Gen.PyFuns.
From PV Require Import Spec.PrimSpec Spec.ElfGabi Spec.C01Obs Spec.C01Image Model.C01ElfFile.
From PV Require Import Proofs.C01Lemmas Proofs.C01Records.
From Coq Require Import ZifyBool.
Ltac Zify.zify_post_hook ::= Z.to_euclidean_division_equations.
Open Scope string_scope.
Open Scope list_scope.
Open Scope Z_scope.

(* ------------------------------------------------------------------ e_ident *)
Lemma encode_ehdr_prefix s : exists rest,
  encode_ehdr s = ELFMAG ++ (if i_is64 s then 2 else 1) :: (if i_le s then 1 else 2) :: rest.
Proof.
  destruct s as [is64 le e secs segs k]. destruct e.
  destruct le, is64; eexists; cbv -[Z.modulo Z.div Z.pow]; reflexivity.
Qed.

Lemma identify_file_ok (is64 le : bool) rest :
  identify_file (ELFMAG ++ (if is64 then 2 else 1) :: (if le then 1 else 2) :: rest) = Ok (is64, le).
Proof. destruct is64, le; reflexivity. Qed.

(* ------------------------------------------------------------------ the opened file *)
(* what ELFFile(stream) holds for an image carrying [s] *)
Definition exp_core (img : list Z) (s : image_spec) : efcore :=
  mk_core img (i_is64 s) (i_le s) (exp_ehdr s).
Definition exp_strtab (s : image_spec) : option hrec :=
  match nth_sec s (i_shstrndx s) with Some x => Some (exp_shdr s (snd x)) | None => None end.
Definition exp_file (img : list Z) (s : image_spec) : elffile :=
  {| ef_core := exp_core img s; ef_strtab := exp_strtab s |}.

Definition sh_id (s : image_spec) : string :=
  table_id_for gen_sh_type_table_of_machine (machine_key (exp_machine s)).
Definition p_id (s : image_spec) : string :=
  table_id_for gen_p_type_table_of_machine (machine_key (exp_machine s)).

Lemma core_shb img s : c_shb (exp_core img s) = [("sh_type", sh_id s, false)].
Proof. unfold exp_core, mk_core. cbn [c_shb]. rewrite rebind_shdr. reflexivity. Qed.
Lemma core_phb img s : c_phb (exp_core img s) = [("p_type", p_id s, false)].
Proof. unfold exp_core, mk_core. cbn [c_phb]. rewrite rebind_phdr. reflexivity. Qed.
Lemma T_sh_type_eq s : T_sh_type s = table_of_id (sh_id s). Proof. reflexivity. Qed.
Lemma T_p_type_eq s : T_p_type s = table_of_id (p_id s). Proof. reflexivity. Qed.
Lemma exp_shdr_rec s h : exp_shdr s h = shdr_rec (table_of_id (sh_id s)) h.
Proof. unfold exp_shdr, shdr_rec. rewrite T_sh_type_eq. reflexivity. Qed.
Lemma exp_phdr_rec s p : exp_phdr s p = phdr_rec (i_is64 s) (table_of_id (p_id s)) p.
Proof. unfold exp_phdr, phdr_rec. rewrite T_p_type_eq. reflexivity. Qed.

Lemma hdr_shoff img s : hz (c_hdr (exp_core img s)) "e_shoff" = e_shoff (i_ehdr s). Proof. reflexivity. Qed.
Lemma hdr_phoff img s : hz (c_hdr (exp_core img s)) "e_phoff" = e_phoff (i_ehdr s). Proof. reflexivity. Qed.
Lemma hdr_shentsize img s : hz (c_hdr (exp_core img s)) "e_shentsize" = e_shentsize (i_ehdr s). Proof. reflexivity. Qed.
Lemma hdr_phentsize img s : hz (c_hdr (exp_core img s)) "e_phentsize" = e_phentsize (i_ehdr s). Proof. reflexivity. Qed.
Lemma hdr_shnum img s : hz (c_hdr (exp_core img s)) "e_shnum" = e_shnum (i_ehdr s). Proof. reflexivity. Qed.
Lemma hdr_phnum img s : hz (c_hdr (exp_core img s)) "e_phnum" = e_phnum (i_ehdr s). Proof. reflexivity. Qed.
Lemma hdr_shstrndx img s : hz (c_hdr (exp_core img s)) "e_shstrndx" = e_shstrndx (i_ehdr s). Proof. reflexivity. Qed.

Lemma shdr_rec_type tbl h : hty (shdr_rec tbl h) "sh_type" = named tbl (sh_type h). Proof. reflexivity. Qed.
Lemma phdr_rec_type is64 tbl p : hty (phdr_rec is64 tbl p) "p_type" = named tbl (p_type p).
Proof. destruct is64; reflexivity. Qed.
Lemma phdr_rec_offset is64 tbl p : hz (phdr_rec is64 tbl p) "p_offset" = p_offset p.
Proof. destruct is64; reflexivity. Qed.

Lemma shdr_get_name s h : hz (exp_shdr s h) "sh_name" = sh_name h. Proof. rewrite exp_shdr_rec. reflexivity. Qed.
Lemma shdr_get_type s h : hty (exp_shdr s h) "sh_type" = sh_tyname s h.
Proof. rewrite exp_shdr_rec, shdr_rec_type. unfold sh_tyname. rewrite T_sh_type_eq. reflexivity. Qed.
Lemma shdr_get_flags s h : hz (exp_shdr s h) "sh_flags" = sh_flags h. Proof. rewrite exp_shdr_rec. reflexivity. Qed.
Lemma shdr_get_offset s h : hz (exp_shdr s h) "sh_offset" = sh_offset h. Proof. rewrite exp_shdr_rec. reflexivity. Qed.
Lemma shdr_get_size s h : hz (exp_shdr s h) "sh_size" = sh_size h. Proof. rewrite exp_shdr_rec. reflexivity. Qed.
Lemma shdr_get_link s h : hz (exp_shdr s h) "sh_link" = sh_link h. Proof. rewrite exp_shdr_rec. reflexivity. Qed.
Lemma shdr_get_info s h : hz (exp_shdr s h) "sh_info" = sh_info h. Proof. rewrite exp_shdr_rec. reflexivity. Qed.
Lemma shdr_get_entsize s h : hz (exp_shdr s h) "sh_entsize" = sh_entsize h. Proof. rewrite exp_shdr_rec. reflexivity. Qed.
Lemma phdr_get_type s p : hty (exp_phdr s p) "p_type" = p_tyname s p.
Proof. rewrite exp_phdr_rec, phdr_rec_type. unfold p_tyname. rewrite T_p_type_eq. reflexivity. Qed.
Lemma phdr_get_offset s p : hz (exp_phdr s p) "p_offset" = p_offset p.
Proof. rewrite exp_phdr_rec. apply phdr_rec_offset. Qed.

(* the predicates of Spec/C01Image.v, unfolded one level (stated in this direction on purpose:
   the checker then unfolds the predicate, not the booleans inside it) *)
Lemma ehdr_ok_eq img s :
  ehdr_ok img s = fits_layout (L_ehdr s) (ehdr_vals s) && at_ img 0 (encode_ehdr s).
Proof. reflexivity. Qed.
Lemma sections_ok_eq img s : sections_ok img s =
  (n_sections s =? 0) ||
  ((shdr_size s <=? e_shentsize (i_ehdr s)) && (0 <=? e_shoff (i_ehdr s)) &&
   forallb (fun x => fits_layout (L_shdr s) (shdr_vals (snd x))) (i_sections s) &&
   table_at (drop (e_shoff (i_ehdr s)) img) (Z.to_nat (e_shentsize (i_ehdr s)))
            (map (fun x => encode_shdr s (snd x)) (i_sections s))).
Proof. reflexivity. Qed.
Lemma segments_ok_eq img s : segments_ok img s =
  (n_segments s =? 0) ||
  ((phdr_size s <=? e_phentsize (i_ehdr s)) && (0 <=? e_phoff (i_ehdr s)) &&
   forallb (fun p => fits_layout (L_phdr s) (phdr_vals (i_is64 s) p)) (i_segments s) &&
   table_at (drop (e_phoff (i_ehdr s)) img) (Z.to_nat (e_phentsize (i_ehdr s)))
            (map (encode_phdr s) (i_segments s))).
Proof. reflexivity. Qed.

Lemma nth_sec_inv s i x : nth_sec s i = Some x ->
  0 <= i < n_sections s /\ nth_error (i_sections s) (Z.to_nat i) = Some x.
Proof.
  unfold nth_sec. destruct (Z.leb_spec 0 i) as [H0|H0]; destruct (Z.ltb_spec i (n_sections s)) as [H1|H1];
    cbn [andb]; intros H; try discriminate. split; [lia|exact H].
Qed.
Lemma nth_sec_some s i : 0 <= i < n_sections s -> exists x, nth_sec s i = Some x.
Proof.
  intros H. unfold nth_sec. destruct (Z.leb_spec 0 i) as [H0|H0]; [|lia].
  destruct (Z.ltb_spec i (n_sections s)) as [H1|H1]; [|lia]. cbn [andb].
  destruct (nth_error (i_sections s) (Z.to_nat i)) as [x|] eqn:E; [exists x; reflexivity|].
  apply nth_error_None in E. unfold n_sections, zlen in H. lia.
Qed.
Lemma nth_sec_in s i x : nth_sec s i = Some x -> In x (i_sections s).
Proof. intros H. apply nth_sec_inv in H. destruct H as [_ H]. eapply nth_error_In. exact H. Qed.

Lemma counts_ok_eq s : counts_ok s =
  let e := i_ehdr s in
  let n := n_sections s in let m := n_segments s in let k := i_shstrndx s in
  (   ((n =? 0) && (e_shoff e =? 0) && (e_shnum e =? 0))
   || ((0 <? n) && (0 <? e_shoff e) && (n <? SHN_LORESERVE) && (e_shnum e =? n))
   || ((0 <? n) && (0 <? e_shoff e) && (e_shnum e =? 0) && (sh_size (sec0 s) =? n)) )
  &&
  (   ((m =? 0) && (e_phoff e =? 0))
   || ((0 <? e_phoff e) && (m <? PN_XNUM) && (e_phnum e =? m))
   || ((0 <? e_phoff e) && (e_phnum e =? PN_XNUM) && (0 <? n) && (sh_info (sec0 s) =? m)) )
  &&
  ( if n =? 0 then (e_shstrndx e =? 0) && (k =? 0)
    else (0 <=? k) && (k <? n) &&
         (   ((k <? SHN_LORESERVE) && (e_shstrndx e =? k))
          || ((e_shstrndx e =? XINDEX) && (sh_link (sec0 s) =? k)) ) ).
Proof. reflexivity. Qed.
Lemma kinds_ok_eq img s : kinds_ok img s = forallb (kind_ok img s) (i_sections s).
Proof. reflexivity. Qed.
Lemma names_ok_eq img s : names_ok img s = forallb (name_at img s) (i_sections s).
Proof. reflexivity. Qed.
Lemma kind_ok_eq img s x : kind_ok img s x =
  base_ok img s (snd x) && req_ok img s (snd x) (snd (kind_entry (sh_tyname s (snd x)) (fst x))).
Proof. reflexivity. Qed.
Lemma base_ok_eq img s h : base_ok img s h =
  (Z.land (sh_flags h) SHF_COMPRESSED_STD =? 0) ||
  readable img (sh_offset h) (spec_Elf_Chdr (i_le s) (i_is64 s)).
Proof. reflexivity. Qed.
Lemma name_at_eq img s x : name_at img s x =
  no_nul (fst x) && at_ img (strtab_offset s + sh_name (snd x)) (fst x ++ [0]).
Proof. reflexivity. Qed.

Lemma sec0_nth s x : nth_sec s 0 = Some x -> sec0 s = snd x.
Proof.
  intros H. apply nth_sec_inv in H. destruct H as [_ H]. unfold sec0.
  destruct (i_sections s) as [|y l]; [discriminate|]. cbn in H. inversion H. reflexivity.
Qed.

Section WF.
Variable img : list Z.
Variable s : image_spec.
Hypothesis Hwf : wf_image img s = true.

Local Notation C := (exp_core img s).
Local Notation EF := (exp_file img s).

Lemma wf_len : zlen img < FILE_LIMIT.
Proof. unfold wf_image in Hwf. rewrite !andb_true_iff, zlenT_eq in Hwf. lia. Qed.
Lemma wf_ehdr : ehdr_ok img s = true.
Proof. unfold wf_image in Hwf. rewrite !andb_true_iff in Hwf. tauto. Qed.
Lemma wf_counts : counts_ok s = true.
Proof. unfold wf_image in Hwf. rewrite !andb_true_iff in Hwf. tauto. Qed.
Lemma wf_sections : sections_ok img s = true.
Proof. unfold wf_image in Hwf. rewrite !andb_true_iff in Hwf. tauto. Qed.
Lemma wf_segments : segments_ok img s = true.
Proof. unfold wf_image in Hwf. rewrite !andb_true_iff in Hwf. tauto. Qed.
Lemma wf_names : names_ok img s = true.
Proof. unfold wf_image in Hwf. rewrite !andb_true_iff in Hwf. tauto. Qed.
Lemma wf_kinds : kinds_ok img s = true.
Proof. unfold wf_image in Hwf. rewrite !andb_true_iff in Hwf. tauto. Qed.

(* ---- the file header *)
Lemma img_ehdr : exists t, img = encode_ehdr s ++ t.
Proof.
  pose proof wf_ehdr as H. rewrite ehdr_ok_eq in H. apply andb_prop in H. destruct H as [_ H].
  apply at_skipn in H. destruct H as [_ [t Ht]]. exists t. exact Ht.
Qed.

Lemma identify_ok : identify_file img = Ok (i_is64 s, i_le s).
Proof.
  destruct img_ehdr as [t Ht]. destruct (encode_ehdr_prefix s) as [rest Hr].
  rewrite Ht, Hr. rewrite <- app_assoc. cbn [app]. apply identify_file_ok.
Qed.

Lemma parse_header_ok : parse_elf_header img (i_is64 s) (i_le s) = Ok (exp_ehdr s).
Proof.
  destruct img_ehdr as [t Ht]. pose proof wf_ehdr as H. rewrite ehdr_ok_eq in H.
  apply andb_prop in H. destruct H as [Hf _].
  unfold parse_elf_header.
  apply struct_parse_at_exact with (L := L_ehdr s) (vals := ehdr_vals s) (t := t)
                                   (n := if i_is64 s then 64%nat else 52%nat).
  - apply gen_Elf_Ehdr_gabi.
  - apply size_Ehdr.
  - exact Hf.
  - exact Ht.
  - reflexivity.
  - apply adapt_ehdr.
Qed.

(* ---- section headers *)
Lemma sections_parts : 0 < n_sections s ->
  shdr_size s <= e_shentsize (i_ehdr s) /\ 0 <= e_shoff (i_ehdr s) /\
  forallb (fun x => fits_layout (L_shdr s) (shdr_vals (snd x))) (i_sections s) = true /\
  table_at (drop (e_shoff (i_ehdr s)) img) (Z.to_nat (e_shentsize (i_ehdr s)))
           (map (fun x => encode_shdr s (snd x)) (i_sections s)) = true.
Proof.
  intros Hn. pose proof wf_sections as H. rewrite sections_ok_eq in H.
  destruct (Z.eqb_spec (n_sections s) 0) as [E|_]; [lia|]. cbn [orb] in H.
  rewrite !andb_true_iff in H. destruct H as [[[H1 H2] H3] H4]. repeat split; try assumption; lia.
Qed.

Lemma shdr_size_pos : 0 < shdr_size s. Proof. unfold shdr_size. destruct (i_is64 s); lia. Qed.

(* header i sits at e_shoff + i * e_shentsize, inside the stream, and decodes to the content *)
Lemma section_record i x : nth_sec s i = Some x ->
  let pos := e_shoff (i_ehdr s) + i * e_shentsize (i_ehdr s) in
  0 <= pos < zlen img /\
  struct_parse_at (gen_Elf_Shdr (i_le s) (i_is64 s)) [("sh_type", sh_id s, false)] img pos
  = Ok (exp_shdr s (snd x)).
Proof.
  intros Hx pos. apply nth_sec_inv in Hx. destruct Hx as [Hi Hx].
  destruct (sections_parts ltac:(lia)) as (Hsz & Hoff & Hfits & Htab).
  pose proof shdr_size_pos as Hp.
  assert (Hf : fits_layout (L_shdr s) (shdr_vals (snd x)) = true)
    by exact (forallb_nth_error _ _ _ _ Hfits Hx).
  assert (Hst : 0 <= e_shentsize (i_ehdr s)) by lia.
  assert (Hi0 : 0 <= i) by lia.
  destruct (table_entry img _ _ _ i _ Hoff Hst Hi0 Htab
              (nth_error_map_some (fun x => encode_shdr s (snd x)) _ _ _ Hx)) as [t Ht].
  fold pos in Ht.
  assert (Hpos : 0 <= pos) by (unfold pos; apply Z.add_nonneg_nonneg; [lia|apply Z.mul_nonneg_nonneg; lia]).
  assert (Hlt : pos < zlen img).
  { eapply record_inside; [exact Hpos|exact Ht|].
    unfold encode_shdr.
    apply encode_layout_nonempty with (sz := if i_is64 s then 63%nat else 39%nat); [exact Hf|].
    unfold L_shdr. rewrite size_Shdr. destruct (i_is64 s); reflexivity. }
  split; [lia|].
  apply struct_parse_at_exact with (L := L_shdr s) (vals := shdr_vals (snd x)) (t := t)
                                   (n := if i_is64 s then 64%nat else 40%nat).
  - apply gen_Elf_Shdr_gabi.
  - apply size_Shdr.
  - exact Hf.
  - exact Ht.
  - pose proof wf_len. rewrite SEEK_LIMIT_val. lia.
  - rewrite exp_shdr_rec. apply adapt_shdr.
Qed.

Lemma section_header_ok i x : nth_sec s i = Some x ->
  get_section_header C i = Ok (Some (exp_shdr s (snd x))).
Proof.
  intros Hx. destruct (section_record i x Hx) as [Hpos Hparse].
  pose proof (nth_sec_inv _ _ _ Hx) as [Hi _].
  destruct (sections_parts ltac:(lia)) as (Hsz & _).
  unfold get_section_header, section_offset, gen_section_offset.
  rewrite hdr_shoff, hdr_shentsize.
  change (Shdr C) with (gen_Elf_Shdr (i_le s) (i_is64 s)). rewrite sizeof_Shdr.
  unfold shdr_size in Hsz.
  replace (e_shentsize (i_ehdr s) <? (if i_is64 s then 64 else 40)) with false
    by (symmetry; apply Z.ltb_ge; exact Hsz).
  rewrite andb_false_r. cbn [bind].
  rewrite (stream_len_eq C); change (c_img C) with img.
  replace (zlen img <? e_shoff (i_ehdr s) + i * e_shentsize (i_ehdr s)) with false
    by (symmetry; apply Z.ltb_ge; lia).
  rewrite core_shb. change (c_img C) with img. rewrite Hparse. reflexivity.
Qed.
(* ---- what every section object needs: Section.__init__ *)
Lemma in_kind_ok x : In x (i_sections s) -> kind_ok img s x = true.
Proof.
  intros Hx. pose proof wf_kinds as H. rewrite kinds_ok_eq, forallb_forall in H. exact (H x Hx).
Qed.
Lemma in_base_ok x : In x (i_sections s) -> base_ok img s (snd x) = true.
Proof.
  intros Hx. pose proof (in_kind_ok x Hx) as H. rewrite kind_ok_eq in H.
  apply andb_prop in H. tauto.
Qed.
Lemma in_req_ok x : In x (i_sections s) ->
  req_ok img s (snd x) (snd (kind_entry (sh_tyname s (snd x)) (fst x))) = true.
Proof.
  intros Hx. pose proof (in_kind_ok x Hx) as H. rewrite kind_ok_eq in H.
  apply andb_prop in H. tauto.
Qed.

Lemma section_init_ok h : base_ok img s h = true -> section_init C (exp_shdr s h) = Ok tt.
Proof.
  intros Hb. unfold section_init. rewrite shdr_get_flags, shdr_get_offset, SHF_COMPRESSED_val.
  rewrite base_ok_eq in Hb. unfold SHF_COMPRESSED_STD in Hb.
  destruct (Z.land (sh_flags h) 2048 =? 0); [reflexivity|]. cbn [orb negb] in Hb |- *.
  destruct (struct_parse_at_readable (Chdr C) _ (chdr_binds C) (c_img C) (sh_offset h)
              (gen_Elf_Chdr_gabi _ _) Hb) as [r Hr].
  - pose proof wf_len. rewrite SEEK_LIMIT_val. exact H.
  - apply nonstrict_chdr.
  - rewrite Hr. reflexivity.
Qed.

(* ---- counts *)
Lemma counts_sections :
  (n_sections s = 0 /\ e_shoff (i_ehdr s) = 0) \/
  (0 < n_sections s /\ 0 < e_shoff (i_ehdr s) /\
   ((e_shnum (i_ehdr s) = n_sections s /\ n_sections s < SHN_LORESERVE) \/
    (e_shnum (i_ehdr s) = 0 /\ sh_size (sec0 s) = n_sections s))).
Proof. pose proof wf_counts as H. rewrite counts_ok_eq in H. cbv zeta in H. lia. Qed.

Lemma counts_segments :
  (n_segments s = 0 /\ e_phoff (i_ehdr s) = 0) \/
  (0 < e_phoff (i_ehdr s) /\
   ((e_phnum (i_ehdr s) = n_segments s /\ n_segments s < PN_XNUM) \/
    (e_phnum (i_ehdr s) = PN_XNUM /\ 0 < n_sections s /\ sh_info (sec0 s) = n_segments s))).
Proof. pose proof wf_counts as H. rewrite counts_ok_eq in H. cbv zeta in H. lia. Qed.

Lemma counts_strndx : 0 < n_sections s ->
  0 <= i_shstrndx s < n_sections s /\
  ((e_shstrndx (i_ehdr s) = i_shstrndx s /\ i_shstrndx s < SHN_LORESERVE) \/
   (e_shstrndx (i_ehdr s) = XINDEX /\ sh_link (sec0 s) = i_shstrndx s)).
Proof.
  intros Hn. pose proof wf_counts as H. rewrite counts_ok_eq in H. cbv zeta in H.
  destruct (Z.eqb_spec (n_sections s) 0) as [E|_]; [lia|]. lia.
Qed.
Lemma counts_strndx0 : n_sections s = 0 -> i_shstrndx s = 0.
Proof.
  intros Hn. pose proof wf_counts as H. rewrite counts_ok_eq in H. cbv zeta in H.
  destruct (Z.eqb_spec (n_sections s) 0) as [_|E]; [|lia]. lia.
Qed.

Lemma section0 : 0 < n_sections s -> exists x, nth_sec s 0 = Some x /\ sec0 s = snd x.
Proof.
  intros Hn. destruct (nth_sec_some s 0 ltac:(lia)) as [x Hx]. exists x. split; [exact Hx|].
  apply sec0_nth. exact Hx.
Qed.

Lemma num_sections_ok : num_sections EF = Ok (n_sections s).
Proof.
  unfold num_sections. cbn [ef_core exp_file]. rewrite hdr_shoff, hdr_shnum.
  destruct counts_sections as [[Hn Ho]|(Hn & Ho & Hc)].
  - rewrite Ho, Hn. reflexivity.
  - destruct (Z.eqb_spec (e_shoff (i_ehdr s)) 0) as [E|_]; [lia|].
    destruct (section0 Hn) as (x0 & Hx0 & Hs0).
    destruct (Z.eqb_spec (e_shnum (i_ehdr s)) 0) as [E|E].
    + rewrite (section_header_ok 0 x0 Hx0). cbn [bind some_hdr]. rewrite shdr_get_size.
      rewrite <- Hs0. f_equal. unfold SHN_LORESERVE in Hc. lia.
    + f_equal. lia.
Qed.

Lemma get_shstrndx_ok : 0 < n_sections s -> get_shstrndx C = Ok (i_shstrndx s).
Proof.
  intros Hn. unfold get_shstrndx. rewrite hdr_shstrndx, SHN_XINDEX_val.
  destruct (counts_strndx Hn) as [Hk Hc]. unfold SHN_LORESERVE, XINDEX in Hc.
  destruct (Z.eqb_spec (e_shstrndx (i_ehdr s)) 65535) as [E|E]; cbn [negb].
  - destruct (section0 Hn) as (x0 & Hx0 & Hs0).
    rewrite (section_header_ok 0 x0 Hx0). cbn [bind]. rewrite shdr_get_link, <- Hs0. f_equal. lia.
  - f_equal. lia.
Qed.

Lemma strtab_some : 0 < n_sections s ->
  exists xk, nth_sec s (i_shstrndx s) = Some xk /\ exp_strtab s = Some (exp_shdr s (snd xk)).
Proof.
  intros Hn. destruct (counts_strndx Hn) as [Hk _].
  destruct (nth_sec_some s _ Hk) as [xk Hxk]. exists xk. split; [exact Hxk|].
  unfold exp_strtab. rewrite Hxk. reflexivity.
Qed.

Lemma stringtable_ok : get_section_header_stringtable C = Ok (exp_strtab s).
Proof.
  unfold get_section_header_stringtable. rewrite hdr_shoff.
  destruct counts_sections as [[Hn Ho]|(Hn & Ho & _)].
  - rewrite Ho. cbn [Z.eqb]. unfold exp_strtab, nth_sec. rewrite (counts_strndx0 Hn), Hn. reflexivity.
  - destruct (Z.eqb_spec (e_shoff (i_ehdr s)) 0) as [E|_]; [lia|].
    rewrite (get_shstrndx_ok Hn). cbn [bind].
    destruct (strtab_some Hn) as (xk & Hxk & Est).
    rewrite (section_header_ok _ xk Hxk), Est. cbn [bind].
    rewrite (section_init_ok _ (in_base_ok xk (nth_sec_in _ _ _ Hxk))). reflexivity.
Qed.

(* ---- ELFFile(stream) succeeds and holds the abstract content *)
Lemma open_ok : elf_open img = Ok EF.
Proof.
  unfold elf_open. rewrite identify_ok. cbn [bind]. rewrite parse_header_ok. cbn [bind].
  fold C. rewrite stringtable_ok. reflexivity.
Qed.

(* ---- names *)
Lemma in_name_at x : In x (i_sections s) -> name_at img s x = true.
Proof.
  intros Hx. pose proof wf_names as H. rewrite names_ok_eq, forallb_forall in H. exact (H x Hx).
Qed.

Lemma section_name_ok x : In x (i_sections s) ->
  get_section_name EF (Some (exp_shdr s (snd x))) = Ok (fst x).
Proof.
  intros Hx. assert (Hn : 0 < n_sections s).
  { unfold n_sections, zlen. destruct (i_sections s); [destruct Hx|cbn [length]; lia]. }
  destruct (strtab_some Hn) as (xk & Hxk & Est).
  unfold get_section_name. cbn [ef_strtab exp_file ef_core]. rewrite Est. cbn [some_hdr bind].
  unfold get_string. rewrite shdr_get_offset, shdr_get_name.
  pose proof (in_name_at x Hx) as Hna. rewrite name_at_eq in Hna.
  apply andb_prop in Hna. destruct Hna as [Hnn Hat].
  unfold strtab_offset in Hat. rewrite Hxk in Hat.
  apply at_skipn in Hat. destruct Hat as [Hpos [t Ht]].
  set (pos := sh_offset (snd xk) + sh_name (snd x)) in *.
  assert (Hlt : pos < zlen img).
  { eapply record_inside; [exact Hpos|exact Ht|]. destruct (fst x); discriminate. }
  pose proof wf_len as Hl.
  destruct (Z.leb_spec SEEK_LIMIT pos) as [E|_]; [rewrite SEEK_LIMIT_val in E; lia|].
  rewrite (stream_len_eq C); change (c_img C) with img. destruct (Z.leb_spec (zlen img) pos) as [E|_]; [lia|].
  change (c_img C) with img. rewrite drop_skipn, Ht, <- app_assoc. cbn [app].
  rewrite (cstr_chunks_valid _ _ _ Hnn); [reflexivity|].
  assert (Hs : (length (fst x) < length img)%nat).
  { assert (Hl' : (length (skipn (Z.to_nat pos) img) <= length img)%nat) by (rewrite skipn_length; lia).
    rewrite Ht, !app_length in Hl'. cbn [length] in Hl'. lia. }
  unfold CHUNK, zlen. pose proof (Z.div_mod (Z.of_nat (length img)) 64 ltac:(lia)) as Hdm.
  pose proof (Z.mod_pos_bound (Z.of_nat (length img)) 64 ltac:(lia)) as Hmb.
  assert (0 <= Z.of_nat (length img) / 64) by (apply Z.div_pos; lia).
  lia.
Qed.
End WF.
