(* Proofs/C19Battery.v — lemmas for C19 part 2: every loop of the enumeration battery
   (Model/C19Battery.v) ends within |file| + 1 iterations, i.e. the fuel the model gives its
   loops is never exhausted (Err EFuel is unreachable), and the counters are bounded.

   [safe m Q] = "m returns a value satisfying Q or raises some exception of the code; it never
   runs out of fuel".  The loop rule [loop_safe] asks for a measure that every continuing
   iteration decreases and keeps non-negative: for the battery's loops the measure is
   |file| - (offset of the record the next iteration parses), and "continuing" means that the
   record at the current offset was parsed, hence lies inside the file. *)
From Coq Require Import String.
From PV Require Import Base.Bytes Base.Outcome Base.Fmt Base.Prim Base.Enum.
From PV Require Import Gen.ElfLayouts Gen.Tables Model.C19Base Model.C19Ctor Model.C19Battery.
From PV Require Import Proofs.FmtProofs Proofs.C19Proofs.
From Coq Require Import Lia ZifyBool.
Open Scope list_scope.
Open Scope Z_scope.

(* ------------------------------------------------------------------ the logic *)
Definition safe {A} (m : M A) (Q : A -> Prop) : Prop :=
  forall c, match fst (m c) with Ok a => Q a | Err e => e <> EFuel end.

Lemma safe_ret {A} (a : A) (Q : A -> Prop) : Q a -> safe (ret a) Q.
Proof. intros H c. exact H. Qed.

Lemma safe_fail {A} (e : err) (Q : A -> Prop) : e <> EFuel -> safe (fail e) Q.
Proof. intros H c. exact H. Qed.

Lemma safe_bind {A B} (m : M A) (f : A -> M B) (Q : A -> Prop) (R : B -> Prop) :
  safe m Q -> (forall a, Q a -> safe (f a) R) -> safe (mbind m f) R.
Proof.
  intros Hm Hf c. unfold mbind. specialize (Hm c).
  destruct (m c) as [[a|e] c1]; cbn [fst] in *.
  - apply Hf. exact Hm.
  - exact Hm.
Qed.

Lemma safe_weaken {A} (m : M A) (Q R : A -> Prop) :
  safe m Q -> (forall a, Q a -> R a) -> safe m R.
Proof.
  intros H HQR c. specialize (H c). destruct (fst (m c)) as [a|e]; auto.
Qed.

Lemma safe_and {A} (m : M A) (Q : A -> Prop) (P : Prop) : P -> safe m Q -> safe m (fun a => P /\ Q a).
Proof. intros HP H. eapply safe_weaken; [exact H|]. intros a Ha. split; assumption. Qed.

Lemma safe_if {A} (b : bool) (m1 m2 : M A) Q : safe m1 Q -> safe m2 Q -> safe (if b then m1 else m2) Q.
Proof. destruct b; auto. Qed.

(* try/except catches everything but fuel exhaustion *)
Lemma safe_mtry {A} (m : M A) (Q : A -> Prop) :
  safe m Q -> safe (mtry m) (fun r => match r with Ok a => Q a | Err _ => True end).
Proof.
  intros H c. unfold mtry. specialize (H c).
  destruct (m c) as [[a|e] c1]; cbn [fst] in *.
  - exact H.
  - destruct e; cbn [fst]; try exact I. congruence.
Qed.

(* THE loop rule.  Inv: invariant of the loop state; mu: measure. *)
Lemma loop_safe {St : Type} (Inv : St -> Prop) (mu : St -> Z) (step : St -> M (St + St)) :
  (forall s, Inv s ->
     safe (step s) (fun r => match r with inl s' => Inv s' /\ 0 <= mu s' < mu s | inr _ => True end)) ->
  forall fuel s, Inv s -> 0 <= mu s < Z.of_nat fuel -> safe (loop fuel step s) (fun _ => True).
Proof.
  intros Hstep. induction fuel as [|f IH]; intros s Hs Hmu.
  - cbn in Hmu. lia.
  - cbn [loop]. eapply safe_bind; [apply Hstep; exact Hs|].
    intros [s'|s'] Hr.
    + destruct Hr as [Hs' Hm]. apply IH; [exact Hs'|lia].
    + apply safe_ret. exact I.
Qed.

(* ------------------------------------------------------------------ lengths *)
Lemma blen_go_len (l : list Z) : forall acc, blen_go l acc = acc + Z.of_nat (length l).
Proof.
  induction l as [|b r IH]; intros acc; cbn [blen_go length].
  - lia.
  - rewrite IH. lia.
Qed.
Lemma blen_len (l : list Z) : blen l = Z.of_nat (length l).
Proof. unfold blen. rewrite blen_go_len. lia. Qed.

Lemma skip_pos_len : forall p (l : list Z), length (skip_pos p l) = (length l - Pos.to_nat p)%nat.
Proof.
  induction p as [q IH|q IH|]; intros [|b r]; cbn [skip_pos length]; try reflexivity.
  - rewrite IH, IH. lia.
  - rewrite IH, IH. cbn [length]. lia.
  - lia.
Qed.

Lemma rest_at_len (bs : list Z) pos : 0 <= pos -> length (rest_at bs pos) = (length bs - Z.to_nat pos)%nat.
Proof.
  intros H. unfold rest_at, skipz. destruct pos as [|p|p]; [cbn; lia| |lia].
  rewrite skip_pos_len. lia.
Qed.

Lemma takez_len_le : forall (l : list Z) n, (length (takez l n) <= length l)%nat.
Proof.
  induction l as [|b r IH]; intros n; cbn [takez]; destruct (n <=? 0); cbn [length]; try lia.
  specialize (IH (n - 1)). lia.
Qed.

Lemma takez_len : forall (l : list Z) n, 0 <= n -> Z.of_nat (length (takez l n)) = Z.min n (Z.of_nat (length l)).
Proof.
  induction l as [|b r IH]; intros n Hn; cbn [takez].
  - destruct (n <=? 0); cbn [length]; lia.
  - destruct (Z.leb_spec n 0); cbn [length]; [lia|]. rewrite Nat2Z.inj_succ, IH by lia. lia.
Qed.

(* ------------------------------------------------------------------ primitives *)
Definition flen (bs : list Z) : Z := Z.of_nat (length bs).

Lemma seek_error_some_ne pos t (A : Type) :
  seek_error pos = Some t -> True.
Proof. auto. Qed.

(* a parsed static record lies inside the file *)
Lemma safe_struct_parse_at legacy L binds bs pos n :
  layout_size L = Some n -> (0 < n)%nat ->
  safe (struct_parse_at legacy L binds bs pos)
       (fun _ => 0 <= pos /\ pos + Z.of_nat n <= flen bs).
Proof.
  intros Hn Hn0 c. unfold struct_parse_at, seek_error.
  destruct (Z.ltb_spec pos 0) as [Hneg|Hpos]; [destruct legacy; cbn; discriminate|].
  destruct (Z.ltb_spec MAX_SSIZE pos) as [Hbig|Hsm].
  { destruct legacy; cbn; discriminate. }
  rewrite Hn. unfold decode_layout.
  set (win := read_n (rest_at bs pos) (Z.of_nat n)).
  destruct (decode_fields L [] win) as [[r t]|] eqn:Ed; cbn [fst]; [|discriminate].
  destruct (strict_ok binds r); cbn [fst]; [|discriminate].
  split; [exact Hpos|].
  assert (Hw : (n <= length win)%nat).
  { destruct (Nat.le_gt_cases n (length win)) as [H|H]; [exact H|].
    rewrite (decode_fields_short L [] win n Hn H) in Ed. discriminate. }
  pose proof (takez_len_le (rest_at bs pos) (Z.of_nat n)) as H1. fold (read_n (rest_at bs pos) (Z.of_nat n)) in H1.
  fold win in H1. rewrite rest_at_len in H1 by exact Hpos. unfold flen. lia.
Qed.

(* ... and, for unsigned layouts over bytes, carries non-negative integers *)
Lemma safe_struct_parse_at_nn legacy L binds bs pos n :
  unsigned_layout L = true -> all_bytes bs = true -> layout_size L = Some n -> (0 < n)%nat ->
  safe (struct_parse_at legacy L binds bs pos)
       (fun r => rec_nonneg r /\ 0 <= pos /\ pos + Z.of_nat n <= flen bs).
Proof.
  intros HL Hb Hn Hn0 c.
  pose proof (safe_struct_parse_at legacy L binds bs pos n Hn Hn0 c) as H1.
  unfold struct_parse_at, seek_error in *.
  destruct (Z.ltb_spec pos 0) as [Hneg|Hpos]; [destruct legacy; cbn; discriminate|].
  destruct (Z.ltb_spec MAX_SSIZE pos) as [Hbig|Hsm].
  { destruct legacy; cbn; discriminate. }
  rewrite Hn in *. unfold decode_layout in *.
  set (win := read_n (rest_at bs pos) (Z.of_nat n)) in *.
  assert (Hw : all_bytes win = true) by (apply all_bytes_takez, all_bytes_rest_at; exact Hb).
  destruct (decode_fields L [] win) as [[r t]|] eqn:Ed; cbn [fst] in *; [|discriminate].
  destruct (strict_ok binds r); cbn [fst] in *; [|discriminate].
  split; [|exact H1]. exact (decode_fields_nonneg L [] _ r t HL Hw Ed).
Qed.

Lemma safe_raw_read bs pos n :
  safe (raw_read bs pos n) (fun d => 0 <= pos /\ (0 <= n -> flen d = Z.min n (Z.max 0 (flen bs - pos)))).
Proof.
  intros c. unfold raw_read, seek_error.
  destruct (Z.ltb_spec pos 0) as [Hneg|Hpos]; [cbn; discriminate|].
  destruct (Z.ltb_spec MAX_SSIZE pos) as [Hbig|Hsm]; [cbn; discriminate|].
  cbn [fst]. split; [exact Hpos|]. intros Hn. unfold flen, read_n.
  rewrite takez_len by exact Hn. rewrite rest_at_len by exact Hpos. lia.
Qed.

Lemma safe_cstring_at fuel bs pos : safe (cstring_at fuel bs pos) (fun _ => True).
Proof.
  intros c. unfold cstring_at. destruct (seek_error pos); [cbn; discriminate|].
  destruct (cstr_scan fuel (rest_at bs pos) 0) as [s n]. exact I.
Qed.

Lemma safe_spa_T legacy L binds bs pos : safe (struct_parse_at legacy L binds bs pos) (fun _ => True).
Proof.
  intros c. unfold struct_parse_at. destruct (seek_error pos) as [t|].
  - destruct legacy; cbn; discriminate.
  - destruct (decode_layout L _) as [[r t]|]; cbn [fst]; [|discriminate].
    destruct (strict_ok binds r); cbn [fst]; [exact I|discriminate].
Qed.

Lemma safe_raw_read_T bs pos n : safe (raw_read bs pos n) (fun _ => True).
Proof. eapply safe_weaken; [apply safe_raw_read|]. intros; exact I. Qed.

(* loop-free monadic code never runs out of fuel: walk it *)
Ltac safe_T :=
  repeat lazymatch goal with
  | |- safe (ret _) _ => apply safe_ret; exact I
  | |- safe (fail (if ?b then _ else _)) _ => destruct b
  | |- safe (fail _) _ => apply safe_fail; discriminate
  | |- safe unmodelled _ => apply safe_fail; discriminate
  | |- safe (if _ then _ else _) _ => apply safe_if
  | |- safe (mbind _ _) _ => eapply safe_bind with (Q := fun _ => True); [|intros ? _]
  | |- safe (raw_read _ _ _) _ => apply safe_raw_read_T
  | |- safe (struct_parse_at _ _ _ _ _) _ => apply safe_spa_T
  | |- safe (parse_rec _ _ _) _ => apply safe_spa_T
  | |- safe (cstring_at _ _ _) _ => apply safe_cstring_at
  | |- safe (match ?x with _ => _ end) _ => destruct x
  | |- safe (let '(_, _) := ?x in _) _ => destruct x
  end.

Lemma safe_identify_file bs : safe (identify_file bs) (fun _ => True).
Proof. unfold identify_file. safe_T. Qed.

Lemma safe_section_offset_T x n : safe (section_offset x n) (fun _ => True).
Proof. unfold section_offset. safe_T. Qed.

Lemma safe_get_section_header_T x n : safe (get_section_header x n) (fun _ => True).
Proof. unfold get_section_header. safe_T. apply safe_section_offset_T. Qed.

Lemma safe_get_shstrndx_T x : safe (get_shstrndx x) (fun _ => True).
Proof. unfold get_shstrndx. safe_T. apply safe_get_section_header_T. Qed.

Lemma safe_section_init_T x sh : safe (section_init x sh) (fun _ => True).
Proof. unfold section_init. safe_T. Qed.

(* what the battery needs to know about the object the constructor built *)
Definition fgood (bs : list Z) (f : elffile) : Prop :=
  x_bs (f_ctx f) = bs /\ x_legacy (f_ctx f) = false /\ rec_nonneg (x_hdr (f_ctx f)).

Lemma safe_ctor bs : all_bytes bs = true -> safe (ctor false bs) (fgood bs).
Proof.
  intros Hb. unfold ctor.
  eapply safe_bind; [apply safe_identify_file|]. intros cl _.
  eapply safe_bind.
  { apply (safe_struct_parse_at_nn false (gen_Elf_Ehdr (snd cl) (fst cl)) (binds_Ehdr (fst cl)) bs 0
             (if fst cl then 64 else 52)%nat); [apply unsigned_Ehdr|exact Hb| |].
    - destruct (snd cl), (fst cl); reflexivity.
    - destruct (fst cl); lia. }
  intros hdr [Hh _].
  set (x := mkctx bs (blen bs) false (fst cl) (snd cl) hdr).
  assert (Hg : forall st, fgood bs (mkelf x st)) by (intros st; repeat split; assumption).
  eapply safe_bind; [apply safe_raw_read_T|]. intros raw _.
  apply safe_if; [apply safe_ret; apply Hg|].
  eapply safe_bind; [apply safe_get_shstrndx_T|]. intros n _.
  eapply safe_bind; [apply safe_get_section_header_T|]. intros [sh|] _.
  - eapply safe_bind; [apply safe_section_init_T|]. intros si _. apply safe_ret. apply Hg.
  - apply safe_ret. apply Hg.
Qed.

(* ------------------------------------------------------------------ battery context *)
Definition bgood (b : bctx) : Prop :=
  all_bytes (bs_of b) = true /\ leg_of b = false /\ rec_nonneg (x_hdr (b_x b)) /\
  b_fuel b = S (length (bs_of b)).

Lemma bgood_mk bs f : all_bytes bs = true -> fgood bs f -> bgood (mk_bctx f).
Proof.
  intros Hb (H1 & H2 & H3). unfold bgood, mk_bctx, bs_of, leg_of. cbn [b_x b_fuel].
  rewrite H1. repeat split; assumption.
Qed.

Lemma fuel_of b : bgood b -> Z.of_nat (b_fuel b) = flen (bs_of b) + 1.
Proof. intros (_ & _ & _ & H). rewrite H. unfold flen. lia. Qed.

Lemma shdr_layout_size le is64 : layout_size (gen_Elf_Shdr le is64) = Some (if is64 then 64 else 40)%nat.
Proof. destruct le, is64; reflexivity. Qed.
Lemma phdr_layout_size le is64 : layout_size (gen_Elf_Phdr le is64) = Some (if is64 then 56 else 32)%nat.
Proof. destruct le, is64; reflexivity. Qed.

(* the section header #n was parsed: it lies inside the file and the entry size was validated *)
Definition sec_in (b : bctx) (n : Z) : Prop :=
  let x := b_x b in
  (0 < hz x "e_shoff" -> 40 <= hz x "e_shentsize") /\
  0 <= hz x "e_shoff" + n * hz x "e_shentsize" /\
  hz x "e_shoff" + n * hz x "e_shentsize" + 40 <= flen (bs_of b).

Lemma safe_get_section_header b n :
  safe (get_section_header (b_x b) n) (fun oh => match oh with Some _ => sec_in b n | None => True end).
Proof.
  unfold get_section_header, section_offset.
  set (x := b_x b). unfold shdr_size, lsize. rewrite shdr_layout_size.
  destruct ((0 <? hz x "e_shoff") && (hz x "e_shentsize" <? Z.of_nat (if x_is64 x then 64 else 40))) eqn:Eg.
  - unfold mbind, fail. intros c. cbn. discriminate.
  - unfold mbind at 1. unfold ret at 1. intros c. cbn [fst].
    destruct (stream_len x <? hz x "e_shoff" + n * hz x "e_shentsize"); [cbn; exact I|].
    pose proof (safe_struct_parse_at (x_legacy x) (gen_Elf_Shdr (x_le x) (x_is64 x)) (binds_Shdr (x_is64 x))
                  (x_bs x) (hz x "e_shoff" + n * hz x "e_shentsize") _ (shdr_layout_size _ _)) as Hp.
    assert (H0 : (0 < (if x_is64 x then 64 else 40))%nat) by (destruct (x_is64 x); lia).
    specialize (Hp H0 c). unfold mbind.
    destruct (struct_parse_at _ _ _ _ _ c) as [[r|e] c1]; cbn [fst] in *; [|exact Hp].
    unfold sec_in. fold x. unfold bs_of. fold x. destruct Hp as [Hp1 Hp2].
    split; [|split; [exact Hp1|]].
    + intros Hs. destruct (x_is64 x); lia.
    + destruct (x_is64 x); lia.
Qed.

Lemma sec_index_bound b i :
  bgood b -> 0 <= i -> hz (b_x b) "e_shoff" <> 0 -> sec_in b i -> i + 1 <= flen (bs_of b).
Proof.
  intros (_ & _ & Hh & _) Hi Hne (H1 & H2 & H3).
  pose proof (rec_z_nonneg _ "e_shoff" Hh) as Ha. unfold hz in *.
  assert (Hb : 40 <= rec_z (x_hdr (b_x b)) "e_shentsize") by (apply H1; lia).
  nia.
Qed.

(* ------------------------------------------------------------------ making a section object:
   loop free, so it cannot run out of fuel *)
Lemma safe_get_section_name_T b h : safe (get_section_name b h) (fun _ => True).
Proof. unfold get_section_name. safe_T. Qed.

Lemma safe_mk_plain_T b h k : safe (mk_plain b h k) (fun _ => True).
Proof. unfold mk_plain. safe_T. apply safe_section_init_T. Qed.

Lemma safe_linked_strtab_T b n : safe (linked_strtab b n) (fun _ => True).
Proof.
  unfold linked_strtab. safe_T; try apply safe_get_section_header_T;
    try apply safe_get_section_name_T; try apply safe_mk_plain_T.
Qed.

Lemma safe_mk_symtab_T b h : safe (mk_symtab b h) (fun _ => True).
Proof.
  unfold mk_symtab, symtab_init. safe_T; try apply safe_linked_strtab_T; try apply safe_section_init_T.
Qed.

Lemma safe_linked_symtab_T b n : safe (linked_symtab b n) (fun _ => True).
Proof.
  unfold linked_symtab. safe_T; try apply safe_get_section_header_T;
    try apply safe_get_section_name_T; try apply safe_mk_symtab_T.
Qed.

Lemma safe_struct_parse_arr_at_T b L pos : safe (struct_parse_arr_at b L pos) (fun _ => True).
Proof.
  intros c. unfold struct_parse_arr_at. destruct (seek_error pos) as [t|].
  - destruct (leg_of b); cbn; discriminate.
  - destruct (decode_fields_g L [] _ _) as [[r a]|]; cbn [fst]; [exact I|discriminate].
Qed.

Lemma safe_get_section_typed_T b n : safe (get_section_typed b n) (fun _ => True).
Proof.
  unfold get_section_typed. safe_T; try apply safe_get_section_header_T;
    try apply safe_get_section_name_T; try apply safe_mk_plain_T.
Qed.

Lemma safe_mk_attr_T b h k : safe (mk_attr b h k) (fun _ => True).
Proof. unfold mk_attr. safe_T. apply safe_section_init_T. Qed.

Lemma safe_make_section_T b h : safe (make_section b h) (fun _ => True).
Proof.
  unfold make_section.
  eapply safe_bind with (Q := fun _ => True); [apply safe_get_section_name_T|]. intros name _.
  repeat (apply safe_if;
          [safe_T; first [apply safe_mk_plain_T | apply safe_mk_symtab_T | apply safe_linked_symtab_T
                         | apply safe_linked_strtab_T | apply safe_section_init_T
                         | apply safe_get_section_typed_T | apply safe_mk_attr_T
                         | apply safe_struct_parse_arr_at_T ]|]).
  apply safe_mk_plain_T.
Qed.

(* ELFFile.get_section(i) returned: the header #i was parsed *)
Lemma safe_get_section b i : safe (get_section b i) (fun _ => sec_in b i).
Proof.
  unfold get_section. eapply safe_bind; [apply safe_get_section_header|].
  intros [h|] Hh.
  - eapply safe_weaken; [apply safe_make_section_T|]. intros; exact Hh.
  - destruct (b_strtab b); apply safe_fail; discriminate.
Qed.

Lemma safe_num_sections b :
  safe (num_sections b) (fun n => hz (b_x b) "e_shoff" = 0 -> n <= 0).
Proof.
  unfold num_sections.
  destruct (Z.eqb_spec (hz (b_x b) "e_shoff") 0) as [E|E].
  - apply safe_ret. lia.
  - apply safe_if.
    + eapply safe_bind with (Q := fun _ => True); [apply safe_get_section_header_T|].
      intros [h|] _; [apply safe_ret; intros; contradiction|apply safe_fail; discriminate].
    + apply safe_ret. intros; contradiction.
Qed.

(* ------------------------------------------------------------------ the section loops *)
Lemma safe_sections_loop {A} b n (visit : A -> sobj -> A * bool) a0 :
  bgood b -> (hz (b_x b) "e_shoff" = 0 -> n <= 0) ->
  safe (sections_loop b n visit a0) (fun _ => True).
Proof.
  intros Hg Hn. unfold sections_loop.
  eapply safe_bind with (Q := fun _ => True); [|intros; apply safe_ret; exact I].
  apply (loop_safe (fun st : Z * A => 0 <= fst st) (fun st => Z.max 0 (flen (bs_of b) - fst st))).
  - intros [i a] Hi. cbn [fst] in Hi.
    destruct (Z.leb_spec n i) as [Hle|Hlt]; [apply safe_ret; exact I|].
    eapply safe_bind; [apply safe_get_section|]. intros s Hs.
    destruct (visit a s) as [a' stop]. apply safe_ret. destruct stop; [exact I|].
    cbn [fst]. assert (Hne : hz (b_x b) "e_shoff" <> 0) by (intros E; specialize (Hn E); lia).
    pose proof (sec_index_bound b i Hg Hi Hne Hs). lia.
  - cbn [fst]. lia.
  - cbn [fst]. rewrite (fuel_of b Hg). unfold flen. lia.
Qed.

Lemma safe_collect_sections b : bgood b -> safe (collect_sections b) (fun _ => True).
Proof.
  intros Hg. unfold collect_sections.
  eapply safe_bind; [apply safe_mtry, safe_num_sections|]. intros [n|e] Hn; [|apply safe_ret; exact I].
  eapply safe_bind with (Q := fun _ => True); [|intros [[i acc] e] _; apply safe_ret; exact I].
  apply (loop_safe (fun st : Z * list sobj * option err => 0 <= fst (fst st))
                   (fun st => Z.max 0 (flen (bs_of b) - fst (fst st)))).
  - intros [[i acc] e] Hi. cbn [fst] in Hi.
    destruct (Z.leb_spec n i) as [Hle|Hlt]; [apply safe_ret; exact I|].
    eapply safe_bind; [apply safe_mtry, safe_get_section|]. intros [s|e'] Hs; apply safe_ret; [|exact I].
    cbn [fst]. assert (Hne : hz (b_x b) "e_shoff" <> 0) by (intros E; specialize (Hn E); lia).
    pose proof (sec_index_bound b i Hg Hi Hne Hs). lia.
  - cbn [fst]. lia.
  - cbn [fst]. rewrite (fuel_of b Hg). unfold flen. lia.
Qed.

(* ------------------------------------------------------------------ segments *)
Definition seg_in (b : bctx) (n : Z) : Prop :=
  let x := b_x b in
  (0 < hz x "e_phoff" -> 32 <= hz x "e_phentsize") /\
  0 <= hz x "e_phoff" + n * hz x "e_phentsize" /\
  hz x "e_phoff" + n * hz x "e_phentsize" + 32 <= flen (bs_of b).

Lemma safe_dynseg_init_T b ph : bgood b -> safe (dynseg_init b ph) (fun _ => True).
Proof.
  intros Hg. unfold dynseg_init.
  eapply safe_bind; [apply safe_num_sections|]. intros n Hn.
  eapply safe_bind with (Q := fun _ => True); [apply safe_sections_loop; assumption|].
  intros [s|] _; [|apply safe_ret; exact I].
  eapply safe_bind with (Q := fun _ => True); [|intros; apply safe_ret; exact I].
  eapply safe_weaken; [apply safe_get_section|]. intros; exact I.
Qed.

Lemma safe_make_segment_T b ph : bgood b -> safe (make_segment b ph) (fun _ => True).
Proof.
  intros Hg. unfold make_segment.
  repeat (apply safe_if; [first [apply safe_ret; exact I | apply safe_dynseg_init_T; exact Hg]|]).
  apply safe_ret; exact I.
Qed.

Lemma safe_get_segment b n : bgood b -> safe (get_segment b n) (fun _ => seg_in b n).
Proof.
  intros Hg. unfold get_segment, segment_offset, phdr_size, lsize. rewrite phdr_layout_size.
  set (x := b_x b).
  destruct ((0 <? hz x "e_phoff") && (hz x "e_phentsize" <? Z.of_nat (if is64_of b then 56 else 32))) eqn:Eg.
  - eapply safe_bind with (Q := fun _ => False); [apply safe_fail; discriminate|]. intros a [].
  - eapply safe_bind with (Q := fun pos => pos = hz x "e_phoff" + n * hz x "e_phentsize"); [apply safe_ret; reflexivity|].
    intros pos ->.
    eapply safe_bind.
    { apply (safe_struct_parse_at (leg_of b) (gen_Elf_Phdr (le_of b) (is64_of b)) [] (bs_of b) _ _
               (phdr_layout_size _ _)). destruct (is64_of b); lia. }
    intros ph [Hp1 Hp2].
    eapply safe_weaken; [apply safe_make_segment_T; exact Hg|]. intros _ _.
    unfold seg_in. fold x. split; [|split; [exact Hp1|]].
    + intros Hs. destruct (is64_of b); lia.
    + destruct (is64_of b); lia.
Qed.

Lemma seg_index_bound b i :
  bgood b -> 0 <= i -> hz (b_x b) "e_phoff" <> 0 -> seg_in b i -> i + 1 <= flen (bs_of b).
Proof.
  intros (_ & _ & Hh & _) Hi Hne (H1 & H2 & H3).
  pose proof (rec_z_nonneg _ "e_phoff" Hh) as Ha. unfold hz in *.
  assert (Hb : 32 <= rec_z (x_hdr (b_x b)) "e_phentsize") by (apply H1; lia).
  nia.
Qed.

(* num_segments of the repaired code: no program header table, no segments *)
Lemma safe_num_segments b :
  bgood b -> safe (num_segments b) (fun n => hz (b_x b) "e_phoff" = 0 -> n <= 0).
Proof.
  intros (_ & Hl & _ & _). unfold num_segments. rewrite Hl. cbn [negb andb].
  destruct (Z.eqb_spec (hz (b_x b) "e_phoff") 0) as [E|E].
  - apply safe_ret. lia.
  - apply safe_if; [apply safe_ret; intros; contradiction|].
    eapply safe_bind with (Q := fun _ => True).
    + eapply safe_weaken; [apply safe_get_section|]. intros; exact I.
    + intros s _. apply safe_ret. intros; contradiction.
Qed.

Lemma safe_collect_segments b : bgood b -> safe (collect_segments b) (fun _ => True).
Proof.
  intros Hg. unfold collect_segments.
  eapply safe_bind; [apply safe_mtry, safe_num_segments; exact Hg|].
  intros [n|e] Hn; [|apply safe_ret; exact I].
  eapply safe_bind with (Q := fun _ => True); [|intros [[i acc] e] _; apply safe_ret; exact I].
  apply (loop_safe (fun st : Z * list gobj * option err => 0 <= fst (fst st))
                   (fun st => Z.max 0 (flen (bs_of b) - fst (fst st)))).
  - intros [[i acc] e] Hi. cbn [fst] in Hi.
    destruct (Z.leb_spec n i) as [Hle|Hlt]; [apply safe_ret; exact I|].
    eapply safe_bind; [apply safe_mtry, safe_get_segment; exact Hg|].
    intros [s|e'] Hs; apply safe_ret; [|exact I].
    cbn [fst]. assert (Hne : hz (b_x b) "e_phoff" <> 0) by (intros E; specialize (Hn E); lia).
    pose proof (seg_index_bound b i Hg Hi Hne Hs). lia.
  - cbn [fst]. lia.
  - cbn [fst]. rewrite (fuel_of b Hg). unfold flen. lia.
Qed.

(* ------------------------------------------------------------------ offset-driven loops:
   the measure |file| - offset; a continuing iteration parsed a record at [off] (so
   0 <= off < |file|) and moves to a strictly larger offset *)
Definition mu_off (F off : Z) : Z := Z.max 0 (F - Z.max 0 off).
Lemma mu_off_step F off off' : 0 <= off -> off + 1 <= F -> off < off' -> 0 <= mu_off F off' < mu_off F off.
Proof. unfold mu_off. lia. Qed.
Lemma mu_off_init F off : 0 <= F -> 0 <= mu_off F off < F + 1.
Proof. unfold mu_off. lia. Qed.
Lemma flen_nonneg (bs : list Z) : 0 <= flen bs.
Proof. unfold flen. lia. Qed.

(* ------------------------------------------------------------------ dynamic tags *)
Lemma dyn_layout_size le is64 : layout_size (gen_Elf_Dyn le is64) = Some (if is64 then 16 else 8)%nat.
Proof. destruct le, is64; reflexivity. Qed.

Lemma safe_dynamic_tag_T b tag lk loff : safe (dynamic_tag b tag lk loff) (fun _ => True).
Proof. unfold dynamic_tag. safe_T. Qed.

Lemma safe_iter_tags b offset lk loff : bgood b -> safe (iter_tags b offset lk loff) (fun _ => True).
Proof.
  intros Hg. unfold iter_tags.
  eapply safe_bind with (Q := fun _ => True); [|intros; apply safe_ret; exact I].
  apply (loop_safe (fun n : Z => 0 <= n /\ (0 < n -> 0 <= offset)) (fun n => Z.max 0 (flen (bs_of b) - n))).
  - intros n [Hn Ho]. unfold dyn_layout, lsize. rewrite dyn_layout_size.
    eapply safe_bind.
    { apply (safe_struct_parse_at (leg_of b) (gen_Elf_Dyn (le_of b) (is64_of b)) [] (bs_of b) _ _
               (dyn_layout_size _ _)). destruct (is64_of b); lia. }
    intros tag [Hp1 Hp2].
    eapply safe_bind with (Q := fun _ => True); [apply safe_dynamic_tag_T|]. intros _ _.
    apply safe_ret. destruct (named _ _ _); [exact I|].
    assert (Hoff : 0 <= offset) by (destruct (Z.eq_dec n 0) as [->|]; [lia|apply Ho; lia]).
    assert (n + 1 <= flen (bs_of b)) by (destruct (is64_of b); nia).
    repeat split; lia.
  - split; lia.
  - pose proof (flen_nonneg (bs_of b)). rewrite (fuel_of b Hg). lia.
Qed.

(* ------------------------------------------------------------------ version chains *)
Lemma safe_iter_aux b L name_f next_f stroff off0 count n :
  bgood b -> unsigned_layout L = true -> layout_size L = Some n -> (0 < n)%nat ->
  safe (iter_aux b L name_f next_f stroff off0 count) (fun _ => True).
Proof.
  intros Hg HL Hn Hn0. pose proof Hg as (Hb & Hl & Hh & Hf).
  unfold iter_aux.
  eapply safe_bind with (Q := fun _ => True); [|intros; apply safe_ret; exact I].
  apply (loop_safe (fun _ : Z * Z => True) (fun st => mu_off (flen (bs_of b)) (snd st))).
  - intros [i off] _.
    apply safe_if; [apply safe_ret; exact I|].
    eapply safe_bind.
    { unfold parse_rec. apply (safe_struct_parse_at_nn (leg_of b) L [] (bs_of b) off n HL Hb Hn Hn0). }
    intros e (He & Hp1 & Hp2).
    eapply safe_bind with (Q := fun _ => True); [apply safe_cstring_at|]. intros _ _.
    rewrite Hl. cbn [negb andb].
    destruct (Z.eqb_spec (rec_z e next_f) 0) as [E|E]; apply safe_ret; [exact I|].
    split; [exact I|]. cbn [snd].
    pose proof (rec_z_nonneg e next_f He). apply mu_off_step; lia.
  - exact I.
  - cbn [snd]. rewrite (fuel_of b Hg). apply mu_off_init. apply flen_nonneg.
Qed.

Lemma ver_layout_facts le is64 :
  (unsigned_layout (gen_Elf_Verneed le is64) = true /\ layout_size (gen_Elf_Verneed le is64) = Some 16%nat) /\
  (unsigned_layout (gen_Elf_Verdef le is64) = true /\ layout_size (gen_Elf_Verdef le is64) = Some 20%nat) /\
  (unsigned_layout (gen_Elf_Vernaux le is64) = true /\ layout_size (gen_Elf_Vernaux le is64) = Some 16%nat) /\
  (unsigned_layout (gen_Elf_Verdaux le is64) = true /\ layout_size (gen_Elf_Verdaux le is64) = Some 8%nat).
Proof. destruct le, is64; repeat split; reflexivity. Qed.

Lemma safe_iter_versions b s : bgood b -> safe (iter_versions b s) (fun _ => True).
Proof.
  intros Hg. pose proof Hg as (Hb & Hl & Hh & Hf).
  destruct (ver_layout_facts (le_of b) (is64_of b)) as ((U1 & S1) & (U2 & S2) & (U3 & S3) & (U4 & S4)).
  unfold iter_versions.
  set (need := o_kind s =? K_VerNeed).
  set (L := if need then gen_Elf_Verneed (le_of b) (is64_of b) else gen_Elf_Verdef (le_of b) (is64_of b)).
  set (LA := if need then gen_Elf_Vernaux (le_of b) (is64_of b) else gen_Elf_Verdaux (le_of b) (is64_of b)).
  assert (HL : exists n, unsigned_layout L = true /\ layout_size L = Some n /\ (0 < n)%nat).
  { unfold L. destruct need; [exists 16%nat|exists 20%nat]; repeat split; auto; lia. }
  assert (HLA : exists n, unsigned_layout LA = true /\ layout_size LA = Some n /\ (0 < n)%nat).
  { unfold LA. destruct need; [exists 16%nat|exists 8%nat]; repeat split; auto; lia. }
  destruct HL as (n & UL & SL & NL). destruct HLA as (na & ULA & SLA & NLA).
  eapply safe_bind with (Q := fun _ => True); [|intros [[[i off] k] m] _; apply safe_ret; exact I].
  apply (loop_safe (fun _ : Z * Z * Z * Z => True) (fun st => mu_off (flen (bs_of b)) (snd (fst (fst st))))).
  - intros [[[i off] k] m] _.
    apply safe_if; [apply safe_ret; exact I|].
    eapply safe_bind.
    { unfold parse_rec. apply (safe_struct_parse_at_nn (leg_of b) L [] (bs_of b) off n UL Hb SL NL). }
    intros e (He & Hp1 & Hp2).
    apply safe_if; [apply safe_fail; discriminate|].
    eapply safe_bind with (Q := fun _ => True).
    { destruct need; [|apply safe_ret; exact I].
      eapply safe_bind with (Q := fun _ => True); [apply safe_cstring_at|]. intros; apply safe_ret; exact I. }
    intros _ _.
    eapply safe_bind with (Q := fun _ => True); [eapply safe_iter_aux; eassumption|]. intros ka _.
    rewrite Hl. cbn [negb andb].
    set (nx := rec_z e _).
    destruct (Z.eqb_spec nx 0) as [E|E]; apply safe_ret; [exact I|].
    split; [exact I|]. cbn [fst snd].
    assert (0 <= nx) by (apply rec_z_nonneg; exact He). apply mu_off_step; lia.
  - exact I.
  - cbn [fst snd]. rewrite (fuel_of b Hg). apply mu_off_init. apply flen_nonneg.
Qed.

(* ------------------------------------------------------------------ notes *)
Lemma roundup4_nonneg n : 0 <= n -> 0 <= roundup4 n.
Proof.
  intros H. unfold roundup4. destruct (Z.eq_dec n 0) as [->|Hne]; [reflexivity|].
  assert (0 <= Z.lor (n - 1) 3) by (apply Z.lor_nonneg; lia). lia.
Qed.
Lemma roundup_bits_pos n k : 1 <= n -> 0 <= k -> 1 <= roundup_bits n k.
Proof.
  intros H Hk. unfold roundup_bits.
  assert (0 < 2 ^ k) by (apply Z.pow_pos_nonneg; lia).
  assert (0 <= Z.lor (n - 1) (2 ^ k - 1)) by (apply Z.lor_nonneg; lia). lia.
Qed.

Lemma nhdr_layout_facts le is64 :
  unsigned_layout (gen_Elf_Nhdr le is64) = true /\ layout_size (gen_Elf_Nhdr le is64) = Some 12%nat.
Proof. destruct le, is64; split; reflexivity. Qed.

Lemma safe_stream_read_T b pos n : safe (stream_read b pos n) (fun _ => True).
Proof. unfold stream_read. safe_T. Qed.

(* a parsed property record starts inside the file and has a non-negative size field *)
Lemma safe_parse_prop b off :
  bgood b -> safe (parse_prop b off) (fun datasz => 0 <= off /\ off + 1 <= flen (bs_of b) /\ 0 <= datasz).
Proof.
  intros (Hb & _ & _ & _) c. unfold parse_prop, seek_error.
  destruct (Z.ltb_spec off 0) as [Hneg|Hpos]; [destruct (leg_of b); cbn; discriminate|].
  destruct (Z.ltb_spec MAX_SSIZE off) as [Hbig|Hsm].
  { destruct (leg_of b); cbn; discriminate. }
  set (rest := rest_at (bs_of b) off). set (win := read_n rest 8).
  unfold decode_layout.
  destruct (decode_fields (prop_head b) [] win) as [[r t]|] eqn:Ed; cbn [fst]; [|discriminate].
  match goal with |- context [if ?g then _ else _] => destruct g end; cbn [fst]; [|discriminate].
  assert (Hs : layout_size (prop_head b) = Some 8%nat) by reflexivity.
  assert (Hw : (8 <= length win)%nat).
  { destruct (Nat.le_gt_cases 8 (length win)) as [H|H]; [exact H|].
    rewrite (decode_fields_short (prop_head b) [] win 8 Hs H) in Ed. discriminate. }
  pose proof (takez_len_le rest 8) as H1. fold (read_n rest 8) in H1. fold win in H1.
  unfold rest in H1. rewrite rest_at_len in H1 by exact Hpos.
  assert (Hwb : all_bytes win = true) by (apply all_bytes_takez, all_bytes_rest_at; exact Hb).
  assert (Hu : unsigned_layout (prop_head b) = true) by reflexivity.
  pose proof (decode_fields_nonneg (prop_head b) [] win r t Hu Hwb Ed) as Hr.
  split; [exact Hpos|]. split; [unfold flen; lia|]. apply rec_z_nonneg. exact Hr.
Qed.

Lemma safe_iter_props b offset descsz : bgood b -> safe (iter_props b offset descsz) (fun _ => True).
Proof.
  intros Hg. unfold iter_props.
  eapply safe_bind with (Q := fun _ => True); [|intros; apply safe_ret; exact I].
  apply (loop_safe (fun _ : Z => True) (fun off => mu_off (flen (bs_of b)) off)).
  - intros off _. apply safe_if; [apply safe_ret; exact I|].
    eapply safe_bind; [apply safe_parse_prop; exact Hg|]. intros datasz (H1 & H2 & H3).
    apply safe_ret. split; [exact I|].
    assert (1 <= roundup_bits (datasz + 8) (if is64_of b then 3 else 2))
      by (apply roundup_bits_pos; [lia|destruct (is64_of b); lia]).
    apply mu_off_step; lia.
  - exact I.
  - rewrite (fuel_of b Hg). apply mu_off_init. apply flen_nonneg.
Qed.

Lemma safe_iter_notes b offset size : bgood b -> safe (iter_notes b offset size) (fun _ => True).
Proof.
  intros Hg. pose proof Hg as (Hb & Hl & Hh & Hf).
  destruct (nhdr_layout_facts (le_of b) (is64_of b)) as [UN SN].
  unfold iter_notes.
  eapply safe_bind with (Q := fun _ => True); [|intros; apply safe_ret; exact I].
  apply (loop_safe (fun _ : Z * Z => True) (fun st => mu_off (flen (bs_of b)) (fst st))).
  - intros [off n] _. unfold nhdr_layout, lsize. rewrite SN.
    apply safe_if; [apply safe_ret; exact I|].
    eapply safe_bind.
    { unfold parse_rec. apply (safe_struct_parse_at_nn (leg_of b) _ [] (bs_of b) off 12 UN Hb SN). lia. }
    intros note (Hn & Hp1 & Hp2).
    destruct (seek_error (off + Z.of_nat 12)) as [t|]; [apply safe_fail; discriminate|].
    pose proof (rec_z_nonneg note "n_namesz" Hn) as Hns.
    pose proof (rec_z_nonneg note "n_descsz" Hn) as Hds.
    eapply safe_bind with (Q := fun nm : option (list Z) * Z * Z => off + 12 <= snd (fst nm)).
    { apply safe_if; [apply safe_ret; cbn; lia|].
      eapply safe_bind with (Q := fun _ => True); [apply safe_stream_read_T|]. intros d _.
      destruct (find0 d); [|apply safe_fail; discriminate].
      apply safe_ret. cbn [fst snd]. pose proof (roundup4_nonneg _ Hns). lia. }
    intros [[name off2] pos2] Hoff2. cbn [fst snd] in Hoff2.
    eapply safe_bind with (Q := fun _ => True); [apply safe_stream_read_T|]. intros desc _.
    eapply safe_bind with (Q := fun _ => True).
    { repeat (apply safe_if; [first [apply safe_ret; exact I | apply safe_fail; discriminate
                                    | apply safe_iter_props; exact Hg
                                    | eapply safe_bind with (Q := fun _ => True);
                                      [apply safe_spa_T|intros; apply safe_ret; exact I]]|]).
      apply safe_ret; exact I. }
    intros _ _. apply safe_ret. split; [exact I|]. cbn [fst].
    pose proof (roundup4_nonneg _ Hds). apply mu_off_step; lia.
  - exact I.
  - cbn [fst]. rewrite (fuel_of b Hg). apply mu_off_init. apply flen_nonneg.
Qed.

(* ------------------------------------------------------------------ GNU hash chain walk *)
Lemma safe_gnu_hash_nsyms b s : bgood b -> safe (gnu_hash_nsyms b s) (fun _ => True).
Proof.
  intros Hg. unfold gnu_hash_nsyms.
  destruct (rec_list (o_params s) "buckets") as [|b0 rest]; [apply safe_fail; discriminate|].
  apply safe_if; [apply safe_ret; exact I|].
  match goal with |- safe (match seek_error ?p with _ => _ end) _ => destruct (seek_error p) end;
    [apply safe_fail; discriminate|].
  eapply safe_bind with (Q := fun _ => True); [|intros; apply safe_ret; exact I].
  apply (loop_safe (fun _ : Z * Z => True) (fun st => mu_off (flen (bs_of b)) (fst st))).
  - intros [pos idx] _.
    eapply safe_bind; [apply safe_raw_read|]. intros w [Hp Hw].
    rewrite blen_len. fold (flen w).
    destruct (Z.ltb_spec (flen w) 4) as [Hlt|Hge]; [apply safe_fail; discriminate|].
    destruct (Z.odd _); apply safe_ret; [exact I|].
    split; [exact I|]. cbn [fst]. specialize (Hw ltac:(lia)). apply mu_off_step; lia.
  - exact I.
  - cbn [fst]. rewrite (fuel_of b Hg). apply mu_off_init. apply flen_nonneg.
Qed.

(* ------------------------------------------------------------------ the battery *)
Lemma safe_each {A B} (f : A -> M B) (l : list A) :
  (forall a, safe (f a) (fun _ => True)) -> safe (each f l) (fun _ => True).
Proof.
  intros Hf. unfold each. induction l as [|a l IH]; cbn [fold_right].
  - apply safe_ret; exact I.
  - eapply safe_bind with (Q := fun _ => True).
    + eapply safe_weaken; [apply safe_mtry, Hf|]. intros; exact I.
    + intros r _. eapply safe_bind with (Q := fun _ => True); [exact IH|]. intros; apply safe_ret; exact I.
Qed.

Lemma safe_segment_tags b g : bgood b -> safe (segment_tags b g) (fun _ => True).
Proof.
  intros Hg. unfold segment_tags. apply safe_if; [apply safe_ret; exact I|].
  destruct (g_strtab g); [apply safe_iter_tags; exact Hg|apply safe_fail; discriminate].
Qed.

Lemma safe_battery bs f : all_bytes bs = true -> fgood bs f -> safe (battery f) (fun _ => True).
Proof.
  intros Hb Hf. pose proof (bgood_mk bs f Hb Hf) as Hg. unfold battery.
  set (b := mk_bctx f) in *.
  eapply safe_bind with (Q := fun _ => True); [apply safe_collect_sections; exact Hg|]. intros secs _.
  eapply safe_bind with (Q := fun _ => True); [apply safe_collect_segments; exact Hg|]. intros segs _.
  eapply safe_bind with (Q := fun _ => True).
  { apply safe_each. intros s. apply safe_iter_tags; exact Hg. } intros stags _.
  eapply safe_bind with (Q := fun _ => True).
  { apply safe_each. intros s. apply safe_iter_notes; exact Hg. } intros snotes _.
  eapply safe_bind with (Q := fun _ => True).
  { apply safe_each. intros s. apply safe_iter_notes; exact Hg. } intros gnotes _.
  eapply safe_bind with (Q := fun _ => True).
  { apply safe_each. intros s. apply safe_if; [apply safe_ret; exact I|apply safe_gnu_hash_nsyms; exact Hg]. }
  intros hs _.
  eapply safe_bind with (Q := fun _ => True).
  { apply safe_each. intros s. apply safe_iter_versions; exact Hg. } intros vs _.
  eapply safe_bind with (Q := fun _ => True).
  { apply safe_each. intros s. apply safe_segment_tags; exact Hg. } intros gtags _.
  apply safe_ret; exact I.
Qed.

(* C19 part 2, termination: on EVERY byte string, constructing the file object and running the
   whole battery never exhausts the fuel |file| + 1 of any loop *)
Theorem battery_terminates : forall bs, all_bytes bs = true -> fst (battery_model bs) <> Err EFuel.
Proof.
  intros bs Hb. unfold battery_model, run, open_and_enumerate.
  assert (H : safe (dom f <- ctor false bs; battery f) (fun _ => True)).
  { eapply safe_bind; [apply safe_ctor; exact Hb|]. intros f Hf. eapply safe_battery; eassumption. }
  specialize (H cnt0). destruct (fst _) as [a|e]; [discriminate|]. intros E. apply H. congruence.
Qed.

(* ------------------------------------------------------------------ the two unbounded loops of
   the code before the repairs 690af1e / eedb89f: with the fuel |file| + 1 the legacy model does
   not finish (the real code iterated 2^32 - 1 times) *)
Definition ehdr64p (e_phoff e_phentsize e_phnum e_shoff e_shentsize e_shnum e_shstrndx : Z) : list Z :=
  [127; 69; 76; 70; 2; 1; 1; 0; 0; 0; 0; 0; 0; 0; 0; 0] ++
  le_encode 2 2 ++ le_encode 2 62 ++ le_encode 4 1 ++ le_encode 8 0 ++ le_encode 8 e_phoff ++
  le_encode 8 e_shoff ++ le_encode 4 0 ++ le_encode 2 64 ++ le_encode 2 e_phentsize ++ le_encode 2 e_phnum ++
  le_encode 2 e_shentsize ++ le_encode 2 e_shnum ++ le_encode 2 e_shstrndx.

Definition shdr64i (sh_name sh_type sh_flags sh_offset sh_size sh_link sh_info sh_entsize : Z) : list Z :=
  le_encode 4 sh_name ++ le_encode 4 sh_type ++ le_encode 8 sh_flags ++ le_encode 8 0 ++
  le_encode 8 sh_offset ++ le_encode 8 sh_size ++ le_encode 4 sh_link ++ le_encode 4 sh_info ++
  le_encode 8 0 ++ le_encode 8 sh_entsize.

(* (a) 129 bytes: e_phoff = 0, e_phentsize = 0, e_phnum = PN_XNUM, section 0 with sh_info = 2^32 - 1 *)
Definition witness_segments : list Z :=
  ehdr64p 0 0 0xffff 64 64 1 0 ++ shdr64i 0 0 0 0 0 0 0xffffffff 0 ++ [0].

(* (b) 291 bytes: one version-needed entry (vn_next = 0) under sh_info = 2^32 - 1 *)
Definition witness_versions : list Z :=
  ehdr64p 0 56 0 64 64 3 1 ++
  shdr64i 0 0 0 0 0 0 0 0 ++
  shdr64i 0 3 0 256 3 0 0 0 ++
  shdr64i 0 0x6ffffffe 0 259 32 1 0xffffffff 0 ++
  [0; 97; 0] ++
  (le_encode 2 1 ++ le_encode 2 1 ++ le_encode 4 1 ++ le_encode 4 16 ++ le_encode 4 0) ++
  (le_encode 4 0x1234 ++ le_encode 2 0 ++ le_encode 2 2 ++ le_encode 4 1 ++ le_encode 4 0).

Lemma legacy_segments_unbounded :
  all_bytes witness_segments = true /\ fst (battery_legacy witness_segments) = Err EFuel.
Proof. split; vm_compute; reflexivity. Qed.

Lemma legacy_versions_unbounded :
  all_bytes witness_versions = true /\ fst (battery_legacy witness_versions) = Err EFuel.
Proof. split; vm_compute; reflexivity. Qed.

Theorem battery_terminates_legacy_refuted :
  exists bs, all_bytes bs = true /\ fst (battery_legacy bs) = Err EFuel.
Proof. exists witness_segments. exact legacy_segments_unbounded. Qed.

(* the repaired code on the same inputs: no segments; one version entry with one auxiliary *)
Lemma repaired_segments :
  match fst (battery_model witness_segments) with
  | Ok o => r_sections o = ([K_Null], None) /\ r_segments o = ([], None)
  | Err _ => False
  end.
Proof. vm_compute. split; reflexivity. Qed.

Lemma repaired_versions :
  match fst (battery_model witness_versions) with
  | Ok o => r_sections o = ([K_Null; K_StrTab; K_VerNeed], None) /\ r_versions o = [Ok (1, 1)]
  | Err _ => False
  end.
Proof. vm_compute. split; reflexivity. Qed.

(* ------------------------------------------------------------------ "all byte strings": every
   list of integers reduced mod 256 is a byte string, so the two main theorems hold without any
   hypothesis on such lists *)
Lemma all_bytes_mod256 (l : list Z) : all_bytes (map (fun z => z mod 256) l) = true.
Proof.
  induction l as [|z l IH]; [reflexivity|]. cbn [map all_bytes forallb].
  fold (all_bytes (map (fun z => z mod 256) l)). rewrite IH.
  pose proof (Z.mod_pos_bound z 256 ltac:(lia)). unfold is_byte.
  destruct (Z.leb_spec 0 (z mod 256)); destruct (Z.ltb_spec (z mod 256) 256); try lia; reflexivity.
Qed.

Theorem construct_total_any : forall l : list Z,
  elf_outcome (construct_model (map (fun z => z mod 256) l)).
Proof. intros l. apply construct_total. apply all_bytes_mod256. Qed.

Theorem battery_terminates_any : forall l : list Z,
  fst (battery_model (map (fun z => z mod 256) l)) <> Err EFuel.
Proof. intros l. apply battery_terminates. apply all_bytes_mod256. Qed.

(* ------------------------------------------------------------------ counters: a cost logic.
   ops = struct parses + string reads, the two counters the harness measures on the real code
   (wrapped Construct.parse_stream / parse_cstring_from_stream). *)
Definition ops (c : cnt) : Z := c_parses c + c_strs c.
Definition cost {A} (m : M A) (k : Z) : Prop := forall c, ops (snd (m c)) <= ops c + k.

Lemma cost_ret {A} (a : A) : cost (ret a) 0.
Proof. intros c. cbn. lia. Qed.
Lemma cost_fail {A} (e : err) : cost (@fail A e) 0.
Proof. intros c. cbn. lia. Qed.
Lemma cost_weaken {A} (m : M A) k k' : cost m k -> k <= k' -> cost m k'.
Proof. intros H Hk c. specialize (H c). lia. Qed.
Lemma cost_bind {A B} (m : M A) (f : A -> M B) k1 k2 :
  0 <= k2 -> cost m k1 -> (forall a, cost (f a) k2) -> cost (mbind m f) (k1 + k2).
Proof.
  intros H0 Hm Hf c. unfold mbind. specialize (Hm c). destruct (m c) as [[a|e] c1]; cbn [snd] in *.
  - specialize (Hf a c1). lia.
  - lia.
Qed.
Lemma cost_if {A} (b : bool) (m1 m2 : M A) k : cost m1 k -> cost m2 k -> cost (if b then m1 else m2) k.
Proof. destruct b; auto. Qed.

Lemma cost_struct_parse_at legacy L binds bs pos : cost (struct_parse_at legacy L binds bs pos) 1.
Proof.
  intros c. unfold struct_parse_at. destruct (seek_error pos) as [t|].
  - destruct legacy; cbn; lia.
  - destruct (decode_layout L _) as [[r t]|]; [destruct (strict_ok binds r)|]; cbn; unfold ops; cbn; lia.
Qed.
Lemma cost_cstring_at fuel bs pos : cost (cstring_at fuel bs pos) 1.
Proof.
  intros c. unfold cstring_at. destruct (seek_error pos); [cbn; unfold ops; cbn; lia|].
  destruct (cstr_scan fuel (rest_at bs pos) 0) as [s n]. cbn. unfold ops. cbn. lia.
Qed.

Lemma cost_loop {St} (step : St -> M (St + St)) k :
  0 <= k -> (forall s, cost (step s) k) -> forall fuel s, cost (loop fuel step s) (Z.of_nat fuel * k).
Proof.
  intros Hk Hs. induction fuel as [|f IH]; intros s; cbn [loop].
  - apply cost_fail.
  - replace (Z.of_nat (S f) * k) with (k + Z.of_nat f * k) by lia.
    apply cost_bind; [nia|apply Hs|]. intros [s'|s']; [apply IH|].
    eapply cost_weaken; [apply cost_ret|nia].
Qed.

Lemma cost_dynamic_tag b tag lk loff : cost (dynamic_tag b tag lk loff) 1.
Proof.
  unfold dynamic_tag. destruct (dict_get _ _) as [nm|]; [|eapply cost_weaken; [apply cost_ret|lia]].
  apply cost_if; [|eapply cost_weaken; [apply cost_ret|lia]].
  apply cost_if; [|eapply cost_weaken; [apply cost_fail|lia]].
  replace 1 with (1 + 0) by lia. apply cost_bind; [lia|apply cost_cstring_at|]. intros; apply cost_ret.
Qed.

(* iter_tags is LINEAR in the file size: at most one Elf_Dyn parse and one string read per
   iteration, at most |file| + 1 iterations *)
Theorem iter_tags_linear b offset lk loff :
  cost (iter_tags b offset lk loff) (2 * Z.of_nat (b_fuel b)).
Proof.
  unfold iter_tags. replace (2 * Z.of_nat (b_fuel b)) with (Z.of_nat (b_fuel b) * 2 + 0) by lia.
  apply cost_bind; [lia| |intros; apply cost_ret].
  apply cost_loop; [lia|]. intros n.
  replace 2 with (1 + (1 + 0)) by lia.
  apply cost_bind; [lia|apply cost_struct_parse_at|]. intros tag.
  apply cost_bind; [lia|apply cost_dynamic_tag|]. intros _. apply cost_ret.
Qed.

Corollary iter_tags_linear_bytes b offset lk loff c :
  bgood b ->
  ops (snd (iter_tags b offset lk loff c)) <= ops c + 2 * (flen (bs_of b) + 1).
Proof. intros Hg. pose proof (iter_tags_linear b offset lk loff c). rewrite (fuel_of b Hg) in H. exact H. Qed.

(* the hypothesis [bgood] of the per-loop theorems is what the constructor establishes *)
Lemma bgood_of_ctor bs :
  all_bytes bs = true ->
  match construct_model bs with Ok f => bgood (mk_bctx f) | Err _ => True end.
Proof.
  intros Hb. pose proof (safe_ctor bs Hb cnt0) as H.
  unfold construct_model, construct_gen, run.
  destruct (fst (ctor false bs cnt0)) as [f|e]; [|exact I]. apply (bgood_mk bs); assumption.
Qed.

Lemma bgood_witness :
  match construct_model witness_versions with Ok f => bgood (mk_bctx f) | Err _ => False end.
Proof.
  pose proof (bgood_of_ctor witness_versions (proj1 legacy_versions_unbounded)) as H.
  destruct (construct_model witness_versions) as [f|e] eqn:E; [exact H|].
  vm_compute in E. discriminate.
Qed.
