(* Proofs/C09Seg.v — the segment view alone: when no SHT_DYNAMIC section lies at the
   offset of PT_DYNAMIC (section headers absent, or describing another array elsewhere,
   linked to another string table), DynamicSegment yields the segment's own entries with
   the strings of the table its own DT_STRTAB / DT_STRSZ designate. *)
From PV Require Import Model.C09Dynamic Base.Enum Spec.PrimSpec.
From PV Require Import Proofs.PrimProofs Proofs.FmtProofs Proofs.ElfLayoutFacts Proofs.C09Tables Proofs.C09Tags
                       Proofs.C09Views.
From Coq Require Import ZifyBool.
Open Scope string_scope.
Open Scope list_scope.
Open Scope Z_scope.

Lemma read_shdrs_model f ss :
  read_shdrs (f_le f) (f_is64 f) (f_eh f) (f_img f) = Some ss ->
  section_headers f = Ok ss /\ (forall n st, nthz ss n = Some st -> section_header f n = Ok st).
Proof.
  unfold read_shdrs. destruct (Z.eqb_spec (e_shoff (f_eh f)) 0) as [H0|H0].
  - intros H. inversion H; subst ss. split; [apply section_headers_stripped; exact H0|].
    intros n st Hn. unfold nthz in Hn. destruct (n <? 0); [discriminate|]. cbn in Hn. discriminate.
  - destruct (_ && _) eqn:Ec; [|discriminate]. rewrite !andb_true_iff in Ec. destruct Ec as [[C1 C2] C3].
    destruct (read_recs _ _ _ _ _) as [srs|] eqn:Er; [|discriminate]. intros H. inversion H; subst ss.
    assert (Hpos : 0 < ehdr_size (f_is64 f)) by (destruct (f_is64 f); cbn; lia).
    split.
    + apply section_headers_read; try lia. exact Er.
    + intros n st Hn. apply (section_header_nth f srs); try lia; assumption.
Qed.

Section seg.
Variable f : elf.
Hypothesis Hsht : forall val name, In (val, name) spec_sht_names -> name_is (f_stab f) val name.
Hypothesis Hpt : forall val name, In (val, name) spec_pt_names -> name_is (f_ptab f) val name.
Variables (ps : list phdr) (ss : list shdr).
Hypothesis Hnth : forall n st, nthz ss n = Some st -> section_header f n = Ok st.

(* every DynamicSection constructed on the way is well formed and none lies at p's offset *)
Lemma find_dynsec_none p : In p ps -> p_type p = PT_DYNAMIC ->
  forall ss', forallb (foreign_dynsec_ok ps ss) ss' = true -> find_dynsec_strtab f p ss' = Ok None.
Proof.
  intros Hin Hp. induction ss' as [|s r IH]; intros H; [reflexivity|].
  cbn [forallb] in H. apply andb_prop in H. destruct H as [Hs Hr]. cbn [find_dynsec_strtab].
  rewrite (sht_is_num f Hsht s SHT_DYNAMIC "SHT_DYNAMIC") by (cbn; tauto).
  unfold foreign_dynsec_ok in Hs. destruct (sh_type s =? SHT_DYNAMIC); cbn [negb orb] in Hs; [|apply IH; exact Hr].
  apply andb_prop in Hs. destruct Hs as [Hl Hoff].
  destruct (nthz ss (sh_link s)) as [st|] eqn:En; [|discriminate].
  unfold dynamic_section_init. rewrite (Hnth _ _ En). cbn [bind].
  rewrite (sht_is_num f Hsht st SHT_STRTAB "SHT_STRTAB"), (sht_is_num f Hsht st SHT_NOBITS "SHT_NOBITS") by (cbn; tauto).
  rewrite Hl. cbn [bind].
  rewrite forallb_forall in Hoff. specialize (Hoff p Hin). rewrite Hp in Hoff. cbn [Z.eqb negb orb] in Hoff.
  destruct (sh_offset s =? p_offset p); [discriminate|]. apply IH. exact Hr.
Qed.

Hypothesis Hss : section_headers f = Ok ss.
Hypothesis Hforeign : forallb (foreign_dynsec_ok ps ss) ss = true.

Lemma dynamic_segment_init_alone p : In p ps -> p_type p = PT_DYNAMIC ->
  dynamic_segment_init f p = Ok (mkDyn (p_offset p) (p_filesz p =? 0) None).
Proof.
  intros Hin Hp. unfold dynamic_segment_init. rewrite Hss. cbn [bind].
  rewrite (find_dynsec_none p Hin Hp ss Hforeign). reflexivity.
Qed.

Lemma make_segments_alone : forall ps', incl ps' ps -> make_segments f ps' = Ok tt.
Proof.
  induction ps' as [|p r IH]; intros Hi; [reflexivity|]. cbn [make_segments].
  rewrite (pt_is_num f Hpt p PT_DYNAMIC "PT_DYNAMIC") by (cbn; tauto).
  destruct (Z.eqb_spec (p_type p) PT_DYNAMIC) as [Hp|Hp].
  - rewrite (dynamic_segment_init_alone p (Hi p (or_introl eq_refl)) Hp). cbn [bind].
    apply IH. intros x Hx. apply Hi. right. exact Hx.
  - cbn [bind]. apply IH. intros x Hx. apply Hi. right. exact Hx.
Qed.
End seg.

Definition expected_seg_view (img : list Z) (s : seginfo) : list dyntag :=
  let m := e_machine (si_eh s) in let o := e_osabi (si_eh s) in
  map (expected_tag (spec_dtab m o) (spec_is_solaris m o) (seg_strtab s img)) (si_entries s).

Theorem segment_view_alone img : seg_consistent_b img = true ->
  exists s, describe_seg img = Some s /\ segment_tags img = Ok (expected_seg_view img s).
Proof.
  unfold seg_consistent_b. destruct (describe_seg img) as [s|] eqn:Hd; [|discriminate].
  intros Hc. exists s. split; [reflexivity|].
  rewrite !andb_true_iff in Hc. destruct Hc as [[[K1 K2] K3] K4].
  unfold describe_seg in Hd.
  destruct (spec_open img) as [[[le is64] h]|] eqn:Hso; [|discriminate].
  destruct (_ && _) eqn:Ec; [|discriminate]. rewrite !andb_true_iff in Ec. destruct Ec as [[C1 C2] C3].
  destruct (read_recs (spec_Elf_Phdr le is64) _ _ _ _) as [prs|] eqn:Rp; [|discriminate].
  destruct (read_shdrs le is64 h img) as [ss|] eqn:Rs; [|discriminate].
  destruct (first_where _ (map phdr_of prs)) as [seg|] eqn:Hseg; [|discriminate].
  destruct (dyn_table le is64 _) as [es|] eqn:Hes; [|discriminate].
  destruct (first_val DT_STRTAB es) as [sp|] eqn:Hsp; [|discriminate].
  destruct (first_val DT_STRSZ es) as [sz|] eqn:Hsz; [|discriminate].
  destruct (ptr_ok is64 img (map phdr_of prs) sp sz) as [off|] eqn:Hptr; [|discriminate].
  inversion Hd; subst s. clear Hd.
  unfold expected_seg_view, seg_strtab in *.
  cbn [si_le si_is64 si_eh si_phdrs si_shdrs si_seg si_entries si_stroff si_strsz] in *.
  destruct (spec_open_elf_open _ _ _ _ Hso) as [f [Ho [Hi [Hle [His Heh]]]]].
  destruct (elf_open_inv _ _ Ho) as [_ [HT [Hpt Hsht]]].
  subst le is64 h. rewrite <- Hi in Rs.
  destruct (read_shdrs_model f ss Rs) as [Hss Hnth].
  destruct (ptr_ok_inv _ _ _ _ _ _ Hptr) as [Hmap [Hnz [Hlen0 [Hoff1 Hoff2]]]].
  assert (Hpos : 0 < ehdr_size (f_is64 f)) by (clear; destruct (f_is64 f); cbn; lia).
  destruct (img_split img off sz ltac:(clear - Hpos Hoff1; lia) Hlen0 Hoff2) as [pre2 [tail2 [Hsplit Hpre2]]].
  set (ps := map phdr_of prs) in *.
  assert (Hps : segment_headers f = Ok ps).
  { apply segment_headers_read; try (clear - C2 C3; lia). rewrite Hi. exact Rp. }
  assert (Hit : iter_segments f = Ok ps).
  { unfold iter_segments. rewrite Hps. cbn [bind].
    rewrite (make_segments_alone f Hsht Hpt ps ss Hnth Hss K3 ps (incl_refl ps)). reflexivity. }
  destruct (first_where_filter _ _ _ Hseg) as [r Hfil].
  assert (Hin : In seg ps /\ p_type seg = PT_DYNAMIC).
  { assert (Hx : In seg (filter (fun p => p_type p =? PT_DYNAMIC) ps)) by (rewrite Hfil; left; reflexivity).
    apply filter_In in Hx. destruct Hx as [Hx Hy]. split; [exact Hx|]. clear - Hy. lia. }
  destruct Hin as [Hin Hpd].
  unfold segment_tags. rewrite Ho. cbn [bind]. unfold the_dynamic_segment. rewrite Hit. cbn [bind].
  rewrite (filter_dynamic_segments f Hpt), Hfil. cbn [first_res bind].
  rewrite (dynamic_segment_init_alone f Hsht ps ss Hnth Hss K3 seg Hin Hpd). cbn [bind].
  replace (p_filesz seg =? 0) with false by (clear - K1; lia).
  assert (Hnull : name_is (f_dtab f) DT_NULL "DT_NULL") by (apply (dt_name _ _ _ _ _ HT); cbn; tauto).
  unfold view_tags.
  rewrite (raw_tags_read f (mkDyn (p_offset seg) false None) es eq_refl Hnull)
    by (cbn [dy_off]; first [rewrite Hi; exact Hes | clear - K2 Hpos; lia]).
  cbn [bind dy_str]. rewrite Hit. cbn [bind]. rewrite <- HT.
  apply (iter_tags_all_pointed f _ _ HT Hpt ps _ es sp sz pre2 _ tail2); try assumption.
  - rewrite Hi. exact Hsplit.
  - rewrite Hpre2. exact Hmap.
Qed.
