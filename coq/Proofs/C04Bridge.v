(* Proofs/C04Bridge.v — the tree-shaped expected results of Spec/C04Sem.v (expect_tree,
   siblings_wf: what the driver's "spec" and "wf" answers are computed from) in terms of the
   positional functions the tree theorems are stated with (Proofs/C04Tree.v). *)
From Coq Require Import String.
From PV Require Import Base.Outcome Base.Prim Spec.PrimSpec Spec.C04Desc Spec.C04Spec Spec.C04Sem Gen.C04Forms
                       Model.C04Model Proofs.PrimProofs Proofs.C04Forms Proofs.C04Header Proofs.C04Abbrev
                       Proofs.C04Entry Proofs.C04Unit Proofs.C04Tree.
From Coq Require Import ZArith List Bool Lia ZifyBool.
Import ListNotations.
Open Scope string_scope.
Open Scope list_scope.
Open Scope Z_scope.

Section Bridge.
  Variable c : cfg.
  Variable ds : list adecl.
  Variable M : munit.
  Variable in_info : bool.

  Definition ET : die -> Z -> xnode := expect_tree dn_tag dn_at dn_form c ds.

  Fixpoint exp_kids (l : list die) (o : Z) : list xnode * Z :=
    match l with
    | [] => ([], o)
    | k :: r => let n := ET k o in
                let '(ns, o') := exp_kids r (xn_end n) in (n :: ns, o')
    end.

  Lemma expect_tree_eq code vs ks tm off :
    ET (Node code vs ks tm) off =
    let e := expect_entry dn_tag dn_at dn_form c ds (FEntry code vs) off in
    if has_kids ds (lv code)
    then let '(ns, o) := exp_kids ks (x_end e) in
         XNode e ns (Some (expect_entry dn_tag dn_at dn_form c ds (FNull tm) o))
    else XNode e [] None.
  Proof. reflexivity. Qed.

  Definition tree_pos (d : die) : Prop := forall off,
    xn_die (ET d off) = root_entry c ds d off /\ xn_end (ET d off) = off + tree_size c ds d.

  Lemma exp_kids_pos (ks : list die) : Forall tree_pos ks -> forall o,
    snd (exp_kids ks o) = o + kids_size c ds ks /\
    map xn_die (fst (exp_kids ks o)) = kid_roots c ds ks o.
  Proof.
    induction 1 as [|k r Hk Hr IH]; intros o.
    - cbn. unfold kids_size. cbn. change (zlen (@nil Z)) with 0. split; [lia|reflexivity].
    - cbn [exp_kids]. destruct (Hk o) as [Hd He]. rewrite He.
      specialize (IH (o + tree_size c ds k)).
      destruct (exp_kids r (o + tree_size c ds k)) as [ns o'] eqn:E. cbn [fst snd] in *.
      destruct IH as [IH1 IH2]. rewrite kids_size_cons. split; [lia|].
      cbn [map kid_roots]. rewrite Hd, IH2. reflexivity.
  Qed.

  Theorem expect_tree_pos : forall d, tree_pos d.
  Proof.
    apply die_ind2. intros code vs ks tm IH off. rewrite expect_tree_eq. cbv zeta.
    set (d := Node code vs ks tm).
    pose proof (tree_size_eq c ds d) as Hts. unfold d_has_kids in Hts. cbn [die_code die_kids die_term d] in Hts.
    unfold x_end. rewrite expect_entry_off, expect_entry_size.
    change (zlen (encode_entry c ds (FEntry code vs))) with (root_size c ds d) in *.
    destruct (has_kids ds (lv code)).
    - destruct (exp_kids_pos ks IH (off + root_size c ds d)) as [H1 _].
      destruct (exp_kids ks (off + root_size c ds d)) as [ns o]. cbn [snd] in H1.
      cbn [xn_die xn_end]. split; [reflexivity|].
      unfold x_end. rewrite expect_entry_off, expect_entry_size. cbn [encode_entry]. lia.
    - cbn [xn_die xn_end]. split; [reflexivity|].
      unfold x_end. rewrite expect_entry_off, expect_entry_size.
      change (zlen (encode_entry c ds (FEntry code vs))) with (root_size c ds d). lia.
  Qed.

  (* children and terminator of the expected tree node = the positional functions *)
  Theorem expect_tree_kids d off :
    map xn_die (xn_kids (ET d off))
    = (if d_has_kids ds d then kid_roots c ds (die_kids d) (off + root_size c ds d) else []) /\
    xn_term (ET d off)
    = (if d_has_kids ds d
       then Some (null_entry c ds (die_term d) (off + root_size c ds d + kids_size c ds (die_kids d)))
       else None).
  Proof.
    destruct d as [code vs ks tm]. rewrite expect_tree_eq. cbv zeta. unfold d_has_kids. cbn [die_code die_kids die_term].
    destruct (has_kids ds (lv code)); [|split; reflexivity].
    unfold x_end. rewrite expect_entry_off, expect_entry_size.
    change (zlen (encode_entry c ds (FEntry code vs))) with (root_size c ds (Node code vs ks tm)).
    assert (Hall : Forall tree_pos ks) by (apply Forall_forall; intros k _; apply expect_tree_pos).
    destruct (exp_kids_pos ks Hall (off + root_size c ds (Node code vs ks tm))) as [H1 H2].
    destruct (exp_kids ks _) as [ns o]. cbn [fst snd] in H1, H2. cbn [xn_kids xn_term].
    split; [exact H2|]. rewrite H1. reflexivity.
  Qed.

  (* ------------------------------------------------------------------ the sibling well-formedness check of the spec *)
  Definition SW : die -> xnode -> bool := siblings_wf c ds in_info (uc_off (mu_ctx M)).

  Section SibGo.
  Variable t : option xdie.
  Fixpoint sib_go (l : list die) (m : list xnode) {struct l} : bool :=
    match l, m with
    | [], [] => true
    | k :: r, kn :: mr =>
        let next := match mr with
                    | nx :: _ => x_off (xn_die nx)
                    | [] => match t with Some td => x_off td | None => 0 end
                    end in
        (negb (has_kids ds (lv (die_code k))) ||
         sibling_ok in_info (uc_off (mu_ctx M)) (entry_codes c ds (die_code k) (die_vals k)) next)
        && SW k kn && sib_go r mr
    | _, _ => false
    end.
  End SibGo.

  Lemma siblings_wf_eq code vs ks tm n :
    SW (Node code vs ks tm) n = sib_go (xn_term n) ks (xn_kids n).
  Proof. reflexivity. Qed.

  Definition sibs_imp (d : die) : Prop := forall off,
    SW d (ET d off) = true -> tree_sibs_ok c ds M in_info d off = true.

  Lemma sib_go_imp (ks : list die) : Forall sibs_imp ks -> forall cur td,
    x_off td = snd (exp_kids ks cur) ->
    sib_go (Some td) ks (fst (exp_kids ks cur)) = true ->
    kids_go c ds M in_info (tree_sibs_ok c ds M in_info) ks cur = true.
  Proof.
    induction 1 as [|k r Hk Hr IH]; intros cur td Htd Hgo; [reflexivity|].
    cbn [exp_kids] in Htd, Hgo.
    destruct (expect_tree_pos k cur) as [Hd He]. rewrite He in Htd, Hgo.
    destruct (exp_kids r (cur + tree_size c ds k)) as [ns o'] eqn:E. cbn [fst snd] in Htd, Hgo.
    cbn [sib_go] in Hgo. apply andb_prop in Hgo. destruct Hgo as [Hgo Hrest].
    apply andb_prop in Hgo. destruct Hgo as [Hsib Hsw].
    assert (Hnext : match ns with
                    | nx :: _ => x_off (xn_die nx)
                    | [] => x_off td
                    end = cur + tree_size c ds k).
    { destruct r as [|k2 r2].
      - cbn [exp_kids] in E. injection E as <- <-. exact Htd.
      - cbn [exp_kids] in E. destruct (exp_kids r2 _) as [ns2 o2]. injection E as <- _.
        destruct (expect_tree_pos k2 (cur + tree_size c ds k)) as [Hd2 _]. rewrite Hd2.
        apply expect_entry_off. }
    rewrite Hnext in Hsib.
    cbn [kids_go]. unfold d_has_kids. rewrite Hsib, (Hk cur Hsw). cbn [andb].
    apply (IH (cur + tree_size c ds k) td); rewrite E; assumption.
  Qed.

  Theorem siblings_wf_imp : forall d, sibs_imp d.
  Proof.
    apply die_ind2. intros code vs ks tm IH off Hsw.
    rewrite siblings_wf_eq in Hsw. rewrite expect_tree_eq in Hsw. cbv zeta in Hsw.
    cbn [tree_sibs_ok].
    destruct (has_kids ds (lv code)); [|reflexivity].
    unfold x_end in Hsw. rewrite expect_entry_off, expect_entry_size in Hsw.
    destruct (exp_kids ks (off + zlen (encode_entry c ds (FEntry code vs)))) as [ns o] eqn:E.
    cbn [xn_term xn_kids] in Hsw.
    apply (sib_go_imp ks IH _ (expect_entry dn_tag dn_at dn_form c ds (FNull tm) o)); rewrite E; cbn [fst snd]; auto.
  Qed.
End Bridge.

(* the driver's per-unit "siblings" wf bit (Extract/DrvC04.v punit_siblings_wf, with the display names of
   the generated dicts) implies the hypothesis of the tree theorems *)
Theorem spec_siblings_wf_imp (u : unit) (in_info : bool) (sec : list Z) (off : Z) :
  siblings_wf (u_cfg u) (t_decls (u_table u)) in_info off (u_root u)
              (expect_tree dn_tag dn_at dn_form (u_cfg u) (t_decls (u_table u)) (u_root u) (off + header_size u)) = true ->
  unit_sibs_ok u in_info sec off = true.
Proof.
  intros H. unfold unit_sibs_ok.
  apply (siblings_wf_imp (u_cfg u) (t_decls (u_table u)) (expect_munit u sec off) in_info (u_root u) (off + header_size u)).
  exact H.
Qed.

(* C04_children_exact in the vocabulary of the spec: for every node of the encoded tree, iter_children of the
   node's entry = (the entries of the expected tree node's children, its terminator) *)
Theorem children_exact_tree (u : unit) (pre tail : list Z) (in_info : bool) (d : die) (off : Z) :
  unit_wf u = true ->
  let sec := pre ++ encode_unit u ++ tail in
  let c := u_cfg u in let ds := t_decls (u_table u) in let M := expect_munit u sec (zlen pre) in
  siblings_wf c ds in_info (zlen pre) (u_root u)
              (expect_tree dn_tag dn_at dn_form c ds (u_root u) (zlen pre + header_size u)) = true ->
  node_at c ds (u_root u) (zlen pre + header_size u) d off ->
  let n := expect_tree dn_tag dn_at dn_form c ds d off in
  iter_children M (unit_fuel M) (xn_die n) = Ok (map xn_die (xn_kids n), xn_term n).
Proof.
  intros Hwf sec c ds M Hs Hn n.
  destruct (expect_tree_pos c ds d off) as [Hd _]. destruct (expect_tree_kids c ds d off) as [Hk Ht].
  unfold n. unfold ET in *. rewrite Hd, Hk, Ht.
  apply unit_children_exact with (in_info := in_info); auto.
  apply spec_siblings_wf_imp. exact Hs.
Qed.

(* the driver's executable placement check implies the Prop used by the theorems *)
Lemma is_prefix_app p : forall l, is_prefix p l = true -> exists tail, l = p ++ tail.
Proof.
  induction p as [|x pr IH]; intros l H; [exists l; reflexivity|].
  destruct l as [|y lr]; [discriminate|]. cbn [is_prefix] in H. apply andb_prop in H. destruct H as [Hxy Hr].
  apply Z.eqb_eq in Hxy. subst y. destruct (IH lr Hr) as (tl & ->). exists tl. reflexivity.
Qed.

Theorem table_at_b_sound (abbrev_sec : list Z) (u : unit) :
  atable_wf (u_table u) = true -> table_at_b abbrev_sec u = true -> table_at abbrev_sec u.
Proof.
  unfold table_at_b, table_at. intros Hwf H.
  apply andb_prop in H. destruct H as [H Hp]. apply andb_prop in H. destruct H as [H0 H1].
  destruct (is_prefix_app _ _ Hp) as (tl & Htl). exists tl. split; [exact Htl|].
  unfold zlen in H1. lia.
Qed.
