(* Proofs/C05Unit.v — the whole header (Dwarf_lineprog_header, versions 2-5) parsed from any valid
   encoding of a unit gives back the encoded tables and stops at the first program byte. *)
From PV Require Import Base.Outcome Base.Prim Spec.PrimSpec Proofs.PrimProofs
  Spec.C05Line Spec.C05Header Model.C05Kinds Model.C05LineProgram Model.C05Header
  Gen.C05Tables Proofs.C05Leb Proofs.C05Tables Proofs.C05Machine Proofs.C05Header.
From Coq Require Import ZifyBool.
Ltac Zify.zify_post_hook ::= Z.to_euclidean_division_equations.
Open Scope list_scope.
Open Scope Z_scope.

Lemma take_std (std rest : list Z) ob : zlen std = ob - 1 ->
  take (Z.to_nat (ob - 1)) (std ++ rest) = Some (std, rest).
Proof. intros H. apply take_exact. unfold zlen in H. lia. Qed.

Lemma stop_is_nil : (fun obj : list Z => match obj with [] => true | _ :: _ => false end) = is_nil.
Proof. reflexivity. Qed.

(* versions 2-4: include_directories and file_names *)
Lemma legacy_tables_valid idirs files ed ef rest :
  enc_list enc_dirname idirs ed -> enc_list enc_file files ef ->
  let r11 := ed ++ 0 :: ef ++ 0 :: rest in
  (do (incdirs, r12) <- of_opt EParse (repeat_until (S (length r11)) cstring_decode is_nil r11);
   do (fentries, r13) <- rd_file_entries (S (length r12)) r12;
   Ok (incdirs, fentries, r13)) = Ok (idirs, files, rest).
Proof.
  intros Hd Hf r11. subst r11.
  rewrite (rd_incdirs_valid idirs ed (ef ++ 0 :: rest) Hd).
  - cbn [of_opt bind]. rewrite (rd_file_entries_valid files ef rest Hf).
    + reflexivity.
    + pose proof (enc_list_len enc_file files ef enc_file_len Hf). rewrite app_length. lia.
  - pose proof (enc_list_len enc_dirname idirs ed enc_dirname_len Hd). rewrite app_length. lia.
Qed.

(* version 5: the two format descriptions and the two entry lists *)
Lemma v5_tables_valid s dfmt dirs ffmt fnames edf ednum ed eff efnum ef rest :
  format_ok dfmt = true -> format_ok ffmt = true ->
  forallb (forms_match dfmt) dirs = true -> forallb (forms_match ffmt) fnames = true ->
  enc_list enc_format dfmt edf -> uleb_valid ednum (zlen dirs) ->
  enc_list (enc_list (enc_fval (ms_le s) (ms_is64 s))) dirs ed ->
  enc_list enc_format ffmt eff -> uleb_valid efnum (zlen fnames) ->
  enc_list (enc_list (enc_fval (ms_le s) (ms_is64 s))) fnames ef ->
  let r11 := zlen dfmt :: edf ++ ednum ++ ed ++ zlen ffmt :: eff ++ efnum ++ ef ++ rest in
  (do (nfmt, r12) <- rd_uint (ms_le s) 1 r11;
   do (dir_format, r13) <- rd_array (Z.to_nat nfmt) rd_format r12;
   do (ndirs, r14) <- rd_uleb r13;
   do (dirs', r15) <- rd_array (Z.to_nat ndirs) (rd_formatted_entry s dir_format) r14;
   do (nffmt, r16) <- rd_uint (ms_le s) 1 r15;
   do (file_format, r17) <- rd_array (Z.to_nat nffmt) rd_format r16;
   do (nfiles, r18) <- rd_uleb r17;
   do (files', r19) <- rd_array (Z.to_nat nfiles) (rd_formatted_entry s file_format) r18;
   Ok (dir_format, dirs', file_format, files', r19))
  = Ok (format_view dfmt, map (raw_entry dfmt) dirs, format_view ffmt, map (raw_entry ffmt) fnames, rest).
Proof.
  intros Hdf Hff Hdm Hfm Hedf Hednum Hed Heff Hefnum Hef r11. subst r11.
  destruct (format_ok_spec dfmt Hdf) as (Hnd1 & _ & Hl1).
  destruct (format_ok_spec ffmt Hff) as (Hnd2 & _ & Hl2).
  pose proof (zlen_nonneg dfmt) as Hn1. pose proof (zlen_nonneg ffmt) as Hn2.
  rewrite rd_uint_byte by lia. cbn [bind].
  unfold zlen at 1. rewrite Nat2Z.id. rewrite (rd_formats_valid dfmt edf _ Hdf Hedf). cbn [bind].
  rewrite (rd_uleb_valid _ _ _ Hednum). cbn [bind].
  unfold zlen at 1. rewrite Nat2Z.id. rewrite (rd_entries_valid s dfmt dirs ed _ Hnd1 Hdm Hed). cbn [bind].
  rewrite rd_uint_byte by lia. cbn [bind].
  unfold zlen at 1. rewrite Nat2Z.id. rewrite (rd_formats_valid ffmt eff _ Hff Heff). cbn [bind].
  rewrite (rd_uleb_valid _ _ _ Hefnum). cbn [bind].
  unfold zlen at 1. rewrite Nat2Z.id. rewrite (rd_entries_valid s ffmt fnames ef _ Hnd2 Hfm Hef). cbn [bind].
  reflexivity.
Qed.

Lemma rd_version le v t : 2 <= v <= 5 -> rd_uint le 2 (int_encode le 2 v ++ t) = Ok (v, t).
Proof. intros H. apply rd_uint_valid. change (2 ^ (8 * Z.of_nat 2)) with 65536. lia. Qed.

Theorem parse_header_valid s h body prog t :
  wf_header h = true -> ms_is64 s = h_is64 h ->
  enc_body (ms_le s) h body ->
  let le := ms_le s in
  let after_len := enc_prefix le h ++ int_encode le (offsz (h_is64 h)) (zlen body) ++ body ++ prog in
  sizes_ok (h_is64 h) (zlen after_len) (zlen body) = true ->
  parse_header s ((initial_length_encode le (zlen after_len) (h_is64 h) ++ after_len) ++ t) =
  Ok {| rh_view := raw_view h (zlen after_len) (zlen body); rh_rest := prog ++ t |}.
Proof.
  intros Hwf Hs64 Hbody le after_len Hsz.
  apply andb_prop in Hsz. destruct Hsz as [Hil Hhl].
  destruct (wf_header_spec h Hwf) as (Hver & Hpar & Hmo & Hstd & Hasz & Hssz & Hv5).
  destruct (wf_params_spec _ Hpar) as (Hmi & Hmops & Hdis & Hlb & Hlr & Hob).
  destruct Hbody as (et & Htab & Hbody).
  pose proof (zlen_nonneg body) as Hbn.
  unfold parse_header. fold le.
  rewrite <- app_assoc. rewrite initial_length_valid by exact Hil. cbn [of_opt bind fst].
  generalize (zlen after_len). intros UL. subst after_len.
  generalize (zlen body) Hhl Hbn. intros HL HHL HHn.
  unfold enc_prefix. fold le. rewrite <- !app_assoc. rewrite rd_version by exact Hver. cbn [bind].
  unfold raw_view.
  destruct h as [is64 ver asz ssz par std idirs files dfmt dirs ffmt fnames].
  destruct par as [mi mo dis lb lr ob].
  cbn [h_is64 h_version h_address_size h_seg_sel_size h_params h_std_lengths h_include_dirs h_files
       h_dir_format h_dirs h_file_format h_file_names p_min_inst p_max_ops p_default_is_stmt
       p_line_base p_line_range p_opcode_base] in *.
  unfold enc_tables in Htab.
  cbn [h_is64 h_version h_address_size h_seg_sel_size h_params h_std_lengths h_include_dirs h_files
       h_dir_format h_dirs h_file_format h_file_names] in Htab.
  assert (Hosz : offset_size s = offsz is64) by (unfold offset_size, offsz; rewrite Hs64; reflexivity).
  rewrite Hosz. subst body.
  destruct (Z.ltb_spec ver 5) as [Hlt|Hge].
  - (* versions 2-4 *)
    destruct Htab as (ed & ef & Hed & Hef & ->).
    replace (ver >=? 5) with false by lia. replace (5 <=? ver) with false by lia.
    cbn [bind app].
    rewrite rd_uint_valid by lia. cbn [bind].
    rewrite rd_uint_byte by lia. cbn [bind].
    destruct (Z.leb_spec 4 ver) as [H4|H4].
    + replace (ver >=? 4) with true by lia. cbn [app].
      rewrite rd_uint_byte by lia. cbn [bind].
      rewrite rd_uint_byte by lia. cbn [bind].
      rewrite rd_sint_byte by lia. cbn [bind].
      rewrite rd_uint_byte by lia. cbn [bind].
      rewrite rd_uint_byte by lia. cbn [bind].
      rewrite <- !app_assoc. rewrite (take_std std _ ob Hstd). cbn [of_opt bind app].
      rewrite stop_is_nil.
      pose proof (legacy_tables_valid idirs files ed ef (prog ++ t) Hed Hef) as HT. cbn zeta in HT.
      repeat (progress (rewrite <- ?app_assoc; cbn [app])).
      destruct (of_opt EParse (repeat_until _ cstring_decode is_nil _)) as [[incdirs r12]|e0]; [|discriminate].
      cbn [bind] in HT |- *.
      destruct (rd_file_entries _ r12) as [[fentries r13]|e1]; [|discriminate].
      cbn [bind] in HT |- *. inversion HT; subst. reflexivity.
    + replace (ver >=? 4) with false by lia. cbn [app bind].
      assert (mo = 1) by lia. subst mo.
      rewrite rd_uint_byte by lia. cbn [bind].
      rewrite rd_sint_byte by lia. cbn [bind].
      rewrite rd_uint_byte by lia. cbn [bind].
      rewrite rd_uint_byte by lia. cbn [bind].
      rewrite <- !app_assoc. rewrite (take_std std _ ob Hstd). cbn [of_opt bind app].
      rewrite stop_is_nil.
      pose proof (legacy_tables_valid idirs files ed ef (prog ++ t) Hed Hef) as HT. cbn zeta in HT.
      repeat (progress (rewrite <- ?app_assoc; cbn [app])).
      destruct (of_opt EParse (repeat_until _ cstring_decode is_nil _)) as [[incdirs r12]|e0]; [|discriminate].
      cbn [bind] in HT |- *.
      destruct (rd_file_entries _ r12) as [[fentries r13]|e1]; [|discriminate].
      cbn [bind] in HT |- *. inversion HT; subst. reflexivity.
  - (* version 5 *)
    destruct Htab as (edf & ednum & ed & eff & efnum & ef & Hedf & Hednum & Hed & Heff & Hefnum & Hef & ->).
    destruct (Hv5 Hge) as (Hdf & Hff & Hdm & Hfm & _).
    replace (ver >=? 5) with true by lia. replace (5 <=? ver) with true by lia.
    replace (ver >=? 4) with true by lia. replace (4 <=? ver) with true by lia.
    cbn [bind app].
    rewrite rd_uint_byte by lia. cbn [bind].
    rewrite rd_uint_byte by lia. cbn [bind].
    rewrite rd_uint_valid by lia. cbn [bind].
    rewrite rd_uint_byte by lia. cbn [bind].
    rewrite rd_uint_byte by lia. cbn [bind].
    rewrite rd_uint_byte by lia. cbn [bind].
    rewrite rd_sint_byte by lia. cbn [bind].
    rewrite rd_uint_byte by lia. cbn [bind].
    rewrite rd_uint_byte by lia. cbn [bind].
    rewrite <- !app_assoc. rewrite (take_std std _ ob Hstd). cbn [of_opt bind app].
    rewrite <- Hs64 in Hed, Hef.
    pose proof (v5_tables_valid s dfmt dirs ffmt fnames edf ednum ed eff efnum ef (prog ++ t)
                  Hdf Hff Hdm Hfm Hedf Hednum Hed Heff Hefnum Hef) as HT. cbn zeta in HT.
    repeat (progress (rewrite <- ?app_assoc; cbn [app])). fold le in HT.
    destruct (rd_uint le 1 _) as [[nfmt r12]|e0]; [|discriminate]. cbn [bind] in HT |- *.
    destruct (rd_array (Z.to_nat nfmt) rd_format r12) as [[dir_format r13]|e1]; [|discriminate]. cbn [bind] in HT |- *.
    destruct (rd_uleb r13) as [[ndirs r14]|e2]; [|discriminate]. cbn [bind] in HT |- *.
    destruct (rd_array (Z.to_nat ndirs) _ r14) as [[dirs' r15]|e3]; [|discriminate]. cbn [bind] in HT |- *.
    destruct (rd_uint le 1 r15) as [[nffmt r16]|e4]; [|discriminate]. cbn [bind] in HT |- *.
    destruct (rd_array (Z.to_nat nffmt) rd_format r16) as [[file_format r17]|e5]; [|discriminate]. cbn [bind] in HT |- *.
    destruct (rd_uleb r17) as [[nfiles r18]|e6]; [|discriminate]. cbn [bind] in HT |- *.
    destruct (rd_array (Z.to_nat nfiles) _ r18) as [[files' r19]|e7]; [|discriminate]. cbn [bind] in HT |- *.
    inversion HT; subst. reflexivity.
Qed.
