(* Proofs/C04Parent.v — DIE.get_parent (DESIGN 4.4 T5, parent_exact): the search
   _search_ancestor_offspring runs from the top entry down ("in each generation the sibling
   with the closest offset not greater than ours is our ancestor") ends at the encoded parent,
   for every child entry and every terminating null entry of the tree. *)
From Coq Require Import String.
From PV Require Import Base.Outcome Base.Prim Spec.PrimSpec Spec.C04Desc Spec.C04Spec Spec.C04Sem Gen.C04Forms
                       Model.C04Model Proofs.PrimProofs Proofs.C04Forms Proofs.C04Header Proofs.C04Abbrev
                       Proofs.C04Entry Proofs.C04Unit Proofs.C04Tree.
From Coq Require Import ZArith List Bool Lia ZifyBool.
Import ListNotations.
Open Scope string_scope.
Open Scope list_scope.
Open Scope Z_scope.

Section Parent.
  Variable c : cfg.
  Variable ds : list adecl.
  Variable M : munit.
  Variable in_info : bool.

  Local Notation tsz := (tree_size c ds).
  Local Notation rsz := (root_size c ds).
  Local Notation ksz := (kids_size c ds).
  Local Notation rent := (root_entry c ds).
  Local Notation roots := (kid_roots c ds).
  Local Notation kat := (kid_at c ds).
  Local Notation nat_ := (node_at c ds).
  Local Notation plc := (placed c ds M in_info).

  (* ------------------------------------------------------------------ spans *)
  Lemma tsz_nonneg d : 0 <= tsz d.  Proof. apply zlen_nonneg. Qed.
  Lemma ksz_nonneg ks : 0 <= ksz ks.  Proof. apply zlen_nonneg. Qed.
  Lemma rsz_nonneg d : 0 <= rsz d.  Proof. apply zlen_nonneg. Qed.

  Lemma tsz_ge_rsz d : rsz d <= tsz d.
  Proof.
    rewrite (tree_size_eq c ds d). destruct (d_has_kids ds d); [|lia].
    pose proof (ksz_nonneg (die_kids d)). pose proof (zlen_nonneg (die_term d)). lia.
  Qed.

  Lemma kid_at_span ks cur k cur' : kat ks cur k cur' -> cur <= cur' /\ cur' + tsz k <= cur + ksz ks.
  Proof.
    induction 1 as [k r cur|k0 r cur k cur' Hk IH]; rewrite kids_size_cons.
    - pose proof (ksz_nonneg r). lia.
    - pose proof (tsz_nonneg k0). lia.
  Qed.

  Lemma node_at_span d off d' off' : nat_ d off d' off' -> off <= off' /\ off' + tsz d' <= off + tsz d.
  Proof.
    induction 1 as [d off|d off k cur d' off' Hhk Hkid Hnode IH]; [lia|].
    destruct (kid_at_span _ _ _ _ Hkid) as [H1 H2].
    rewrite (tree_size_eq c ds d), Hhk. pose proof (rsz_nonneg d). pose proof (zlen_nonneg (die_term d)). lia.
  Qed.

  Lemma placed_root_pos d off : plc d off -> 0 < rsz d.
  Proof.
    intros (_ & Hwf & _). rewrite flatten_eq in Hwf. cbn [forallb] in Hwf. apply andb_prop in Hwf.
    destruct Hwf as [Hr _]. apply encode_entry_nonempty. exact Hr.
  Qed.

  Lemma placed_term_pos d off : plc d off -> d_has_kids ds d = true -> 0 < zlen (die_term d).
  Proof.
    intros (_ & Hwf & _) Hhk. rewrite flatten_eq in Hwf. unfold kid_rest in Hwf. rewrite Hhk in Hwf.
    cbn [forallb] in Hwf. apply andb_prop in Hwf. destruct Hwf as [_ Hwf].
    rewrite forallb_app in Hwf. apply andb_prop in Hwf. destruct Hwf as [_ Hwf].
    cbn [forallb] in Hwf. apply andb_prop in Hwf. destruct Hwf as [Ht _].
    apply (encode_entry_nonempty c ds (FNull (die_term d))). exact Ht.
  Qed.

  Lemma placed_kid_of d off k cur : plc d off -> d_has_kids ds d = true ->
    kat (die_kids d) (off + rsz d) k cur -> plc k cur.
  Proof.
    intros Hp Hhk Hk. apply (placed_node c ds M in_info d off k cur); [|exact Hp].
    eapply node_below; [exact Hhk|exact Hk|apply node_self].
  Qed.

  (* ------------------------------------------------------------------ "the closest offset not greater than ours" *)
  Lemma roots_off_ge : forall ks cur x, In x (roots ks cur) -> cur <= x_off x.
  Proof.
    induction ks as [|k r IH]; intros cur x Hin; [destruct Hin|].
    cbn [kid_roots] in Hin. destruct Hin as [<-|Hin].
    - unfold root_entry. rewrite expect_entry_off. lia.
    - specialize (IH _ _ Hin). pose proof (tsz_nonneg k). lia.
  Qed.

  Lemma last_le_none l t p : (forall x, In x l -> t < x_off x) -> last_le l t p = p.
  Proof.
    revert p. induction l as [|x r IH]; intros p H; [reflexivity|].
    cbn [last_le]. pose proof (H x (or_introl eq_refl)) as Hx.
    destruct (Z.leb_spec (x_off x) t); [lia|]. apply IH. intros y Hy. apply H. right. exact Hy.
  Qed.

  Lemma existsb_none l t : (forall x, In x l -> t < x_off x) -> existsb (fun x => x_off x =? t) l = false.
  Proof.
    induction l as [|x r IH]; intros H; [reflexivity|].
    cbn [existsb]. pose proof (H x (or_introl eq_refl)) as Hx.
    destruct (Z.eqb_spec (x_off x) t); [lia|]. apply IH. intros y Hy. apply H. right. exact Hy.
  Qed.

  Lemma last_le_kid ks cur k cur' t : kat ks cur k cur' -> cur' <= t < cur' + tsz k ->
    forall p, last_le (roots ks cur) t p = rent k cur'.
  Proof.
    induction 1 as [k r cur|k0 r cur k cur' Hk IH]; intros Ht p; cbn [kid_roots last_le].
    - unfold root_entry at 1. rewrite expect_entry_off.
      destruct (Z.leb_spec cur t); [|lia]. apply last_le_none.
      intros x Hx. pose proof (roots_off_ge _ _ _ Hx). lia.
    - apply IH. exact Ht.
  Qed.

  Lemma existsb_kid_hit ks cur k t : kat ks cur k t -> existsb (fun x => x_off x =? t) (roots ks cur) = true.
  Proof.
    induction 1 as [k r cur|k0 r cur k cur' Hk IH]; cbn [kid_roots existsb].
    - unfold root_entry. rewrite expect_entry_off, Z.eqb_refl. reflexivity.
    - rewrite IH. apply orb_true_r.
  Qed.

  Lemma existsb_kid_miss ks cur k cur' t : kat ks cur k cur' -> cur' < t < cur' + tsz k ->
    existsb (fun x => x_off x =? t) (roots ks cur) = false.
  Proof.
    induction 1 as [k r cur|k0 r cur k cur' Hk IH]; intros Ht; cbn [kid_roots existsb];
      unfold root_entry at 1; rewrite expect_entry_off.
    - destruct (Z.eqb_spec cur t); [lia|]. apply existsb_none.
      intros x Hx. pose proof (roots_off_ge _ _ _ Hx). lia.
    - destruct (kid_at_span _ _ _ _ Hk) as [H1 _]. pose proof (tsz_nonneg k0).
      destruct (Z.eqb_spec cur t); [lia|]. apply IH. exact Ht.
  Qed.

  (* ------------------------------------------------------------------ one generation of the search *)
  Definition term_off (d : die) (off : Z) : Z := off + rsz d + ksz (die_kids d).

  Lemma iter_children_placed d off : plc d off -> d_has_kids ds d = true ->
    iter_children M (unit_fuel M) (rent d off)
    = Ok (roots (die_kids d) (off + rsz d), Some (null_entry c ds (die_term d) (term_off d off))).
  Proof.
    intros Hp Hhk. pose proof (iter_children_node c ds M in_info d off d off Hp (node_self c ds d off)) as H.
    rewrite Hhk in H. exact H.
  Qed.

  Lemma null_entry_off tm off : x_off (null_entry c ds tm off) = off.
  Proof. unfold null_entry. apply expect_entry_off. Qed.
  Lemma rent_off d off : x_off (rent d off) = off.
  Proof. unfold root_entry. apply expect_entry_off. Qed.

  (* the target lies strictly inside the subtree of child k: descend into k, nothing recorded *)
  Lemma search_descend d off k cur t f found : plc d off -> d_has_kids ds d = true ->
    kat (die_kids d) (off + rsz d) k cur -> cur < t < cur + tsz k ->
    search_parent M (S f) (rent d off) t found = search_parent M f (rent k cur) t found.
  Proof.
    intros Hp Hhk Hk Ht. pose proof (placed_root_pos d off Hp) as Hr.
    destruct (kid_at_span _ _ _ _ Hk) as [H1 H2].
    cbn [search_parent]. rewrite rent_off. destruct (Z.ltb_spec off t); [|lia].
    rewrite (iter_children_placed d off Hp Hhk).
    rewrite (last_le_kid _ _ _ _ t Hk) by lia.
    rewrite existsb_app, (existsb_kid_miss _ _ _ _ t Hk Ht). cbn [existsb orb].
    rewrite null_entry_off. unfold term_off.
    destruct (Z.eqb_spec (off + rsz d + ksz (die_kids d)) t); [lia|]. cbn [orb].
    destruct (Z.leb_spec (off + rsz d + ksz (die_kids d)) t); [lia|].
    rewrite !rent_off. destruct (Z.eqb_spec cur off); [lia|]. reflexivity.
  Qed.

  (* the target is a child of d, or the null entry closing d's children: d is recorded and the search ends *)
  Lemma search_hit_kid d off k t f found : plc d off -> d_has_kids ds d = true ->
    kat (die_kids d) (off + rsz d) k t ->
    search_parent M (S (S f)) (rent d off) t found = Ok (Some off).
  Proof.
    intros Hp Hhk Hk. pose proof (placed_root_pos d off Hp) as Hr.
    pose proof (placed_root_pos k t (placed_kid_of d off k t Hp Hhk Hk)) as Hkr.
    pose proof (tsz_ge_rsz k) as Hkt.
    destruct (kid_at_span _ _ _ _ Hk) as [H1 H2].
    cbn [search_parent]. rewrite rent_off. destruct (Z.ltb_spec off t); [|lia].
    rewrite (iter_children_placed d off Hp Hhk).
    rewrite (last_le_kid _ _ _ _ t Hk) by lia.
    rewrite existsb_app, (existsb_kid_hit _ _ _ _ Hk). cbn [orb].
    rewrite null_entry_off. unfold term_off.
    destruct (Z.leb_spec (off + rsz d + ksz (die_kids d)) t); [lia|].
    rewrite !rent_off. destruct (Z.eqb_spec t off); [lia|].
    destruct (Z.ltb_spec t t); [lia|]. reflexivity.
  Qed.

  Lemma search_hit_term d off f found : plc d off -> d_has_kids ds d = true ->
    search_parent M (S (S f)) (rent d off) (term_off d off) found = Ok (Some off).
  Proof.
    intros Hp Hhk. pose proof (placed_root_pos d off Hp) as Hr. pose proof (ksz_nonneg (die_kids d)) as Hk0.
    assert (Hto : off < term_off d off) by (unfold term_off; lia).
    remember (term_off d off) as to eqn:Eto.
    cbn [search_parent]. rewrite rent_off. destruct (Z.ltb_spec off to); [|lia].
    rewrite (iter_children_placed d off Hp Hhk). rewrite <- Eto.
    rewrite existsb_app. cbn [existsb]. rewrite null_entry_off, Z.eqb_refl, orb_true_r. cbn [orb].
    destruct (Z.leb_spec to to); [|lia].
    rewrite !null_entry_off. destruct (Z.eqb_spec to off); [lia|].
    destruct (Z.ltb_spec to to); [lia|]. reflexivity.
  Qed.

  (* ------------------------------------------------------------------ the whole search *)
  Inductive child_pos (dp : die) (offp : Z) (t : Z) : Prop :=
  | cp_kid k : kat (die_kids dp) (offp + rsz dp) k t -> child_pos dp offp t
  | cp_term : t = term_off dp offp -> child_pos dp offp t.

  Lemma child_pos_inside dp offp t : plc dp offp -> d_has_kids ds dp = true -> child_pos dp offp t ->
    offp < t < offp + tsz dp.
  Proof.
    intros Hp Hhk Hc. pose proof (placed_root_pos dp offp Hp) as Hr.
    pose proof (placed_term_pos dp offp Hp Hhk) as Htm.
    rewrite (tree_size_eq c ds dp), Hhk.
    destruct Hc as [k Hk| ->].
    - destruct (kid_at_span _ _ _ _ Hk) as [H1 H2].
      pose proof (placed_root_pos k t (placed_kid_of dp offp k t Hp Hhk Hk)) as Hkr.
      pose proof (tsz_ge_rsz k). lia.
    - unfold term_off. pose proof (ksz_nonneg (die_kids dp)). lia.
  Qed.

  Lemma flatten_len_kid d k cur off : d_has_kids ds d = true -> kat (die_kids d) off k cur ->
    (length (flatten ds k) + 2 <= length (flatten ds d))%nat.
  Proof.
    intros Hhk Hk. rewrite (flatten_eq ds d). unfold kid_rest. rewrite Hhk. cbn [length]. rewrite app_length. cbn [length].
    assert (length (flatten ds k) <= length (flat_map (flatten ds) (die_kids d)))%nat; [|lia].
    clear Hhk. induction Hk as [k r cur|k0 r cur k cur' Hk IH]; cbn [flat_map]; rewrite app_length; lia.
  Qed.

  Lemma search_parent_ok : forall d off dp offp, nat_ d off dp offp ->
    plc d off -> d_has_kids ds dp = true ->
    forall t, child_pos dp offp t ->
    forall fuel found, (length (flatten ds d) < fuel)%nat ->
    search_parent M fuel (rent d off) t found = Ok (Some offp).
  Proof.
    induction 1 as [d off|d off k cur dp offp Hhk Hkid Hnode IH]; intros Hp Hhkp t Hc fuel found Hfuel.
    - (* the parent itself *)
      assert (2 <= length (flatten ds d))%nat as Hl.
      { rewrite (flatten_eq ds d). unfold kid_rest. rewrite Hhkp. cbn [length]. rewrite app_length. cbn [length]. lia. }
      destruct fuel as [|[|f]]; try lia.
      destruct Hc as [k Hk| ->]; [eapply search_hit_kid; eauto | apply search_hit_term; auto].
    - pose proof (placed_kid_of d off k cur Hp Hhk Hkid) as Hpk.
      pose proof (placed_node c ds M in_info k cur dp offp Hnode Hpk) as Hpp.
      pose proof (child_pos_inside dp offp t Hpp Hhkp Hc) as Hin.
      destruct (node_at_span _ _ _ _ Hnode) as [H1 H2].
      pose proof (flatten_len_kid d k cur _ Hhk Hkid) as Hlen.
      destruct fuel as [|f]; [lia|].
      rewrite (search_descend d off k cur t f found Hp Hhk Hkid) by lia.
      apply IH; auto. lia.
  Qed.

  (* DIE.get_parent() *)
  Theorem parent_exact (root : die) (off0 : Z) (dp : die) (offp t : Z) (x : xdie) :
    plc root off0 -> uc_die_off (mu_ctx M) = off0 ->
    nat_ root off0 dp offp -> d_has_kids ds dp = true -> child_pos dp offp t -> x_off x = t ->
    get_parent M x = Ok (Some offp).
  Proof.
    intros Hp Hdo Hn Hhk Hc Hx. unfold get_parent, get_top_DIE. rewrite Hdo.
    destruct Hp as (Hok & Hrest). pose proof Hok as Hok'.
    rewrite (flatten_eq ds root), expect_dies_cons in Hok'. apply Forall_inv in Hok'.
    unfold ok in Hok'. rewrite expect_entry_off in Hok'. rewrite Hok'. rewrite Hx.
    apply (search_parent_ok root off0 dp offp Hn (conj Hok Hrest) Hhk t Hc).
    destruct Hrest as (_ & _ & Hlen). exact Hlen.
  Qed.

  Theorem parent_of_top (x : xdie) (top : xdie) :
    get_top_DIE M = Ok top -> x_off x = x_off top -> get_parent M x = Ok None.
  Proof.
    intros Ht Hx. unfold get_parent. rewrite Ht. unfold unit_fuel. cbn [search_parent]. rewrite Hx.
    destruct (Z.ltb_spec (x_off top) (x_off top)); [lia|reflexivity].
  Qed.
End Parent.

(* ------------------------------------------------------------------ the unit *)
Theorem unit_parent_exact (u : unit) (pre tail : list Z) (in_info : bool) (dp : die) (offp t : Z) (x : xdie) :
  unit_wf u = true ->
  let sec := pre ++ encode_unit u ++ tail in
  let c := u_cfg u in let ds := t_decls (u_table u) in let M := expect_munit u sec (zlen pre) in
  unit_sibs_ok u in_info sec (zlen pre) = true ->
  node_at c ds (u_root u) (zlen pre + header_size u) dp offp -> d_has_kids ds dp = true ->
  child_pos c ds dp offp t -> x_off x = t ->
  get_parent M x = Ok (Some offp).
Proof.
  intros Hwf sec c ds M Hs Hn Hhk Hc Hx.
  apply (parent_exact c ds M in_info (u_root u) (zlen pre + header_size u) dp offp t x); auto.
  - apply unit_placed; assumption.
  - unfold M, expect_munit, expect_unit_ctx, expect_uctx, header_size. cbn [mu_ctx uc_die_off]. lia.
Qed.
