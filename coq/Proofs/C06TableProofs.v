(* Proofs/C06TableProofs.v — the model of CFIEntry._decode_CFI_table computes the table of the
   DWARF 6.4 reference interpreter, for all instruction lists and alignment factors: induction
   over the instruction list with a simulation relation between the loop state of the Python
   code (cur_line, table, line_stack, reg_order) and the state of the interpreter. *)
From PV Require Import Spec.C06View.
From Coq Require Import ZifyBool.
Ltac Zify.zify_post_hook ::= Z.to_euclidean_division_equations.
Open Scope Z_scope.

(* ---------------------------------------------------------------- opcode byte arithmetic *)
Definition all_below (n : nat) (f : Z -> bool) : bool := forallb f (map Z.of_nat (seq 0 n)).
Lemma all_below_spec n f : all_below n f = true -> forall x, 0 <= x < Z.of_nat n -> f x = true.
Proof.
  intros H x Hx. unfold all_below in H. rewrite forallb_forall in H. apply H.
  apply in_map_iff. exists (Z.to_nat x). split; [lia|]. apply in_seq. lia.
Qed.
Lemma land_masks x : 0 <= x < 256 ->
  Z.land x 192 = 64 * (x / 64) /\ Z.land x 63 = x mod 64.
Proof.
  intros H.
  pose proof (all_below_spec 256
    (fun x => (Z.land x 192 =? 64 * (x / 64)) && (Z.land x 63 =? x mod 64))
    ltac:(vm_compute; reflexivity) x H) as E.
  cbv beta in E. lia.
Qed.

Open Scope string_scope.
Lemma name_advance_loc d : 0 <= d < 64 ->
  instruction_name (0x40 + d) = Ok "DW_CFA_advance_loc".
Proof.
  intros H. unfold instruction_name, PRIMARY_MASK.
  destruct (land_masks (0x40 + d)) as [E _]; [lia|]. rewrite E.
  replace ((0x40 + d) / 64) with 1 by lia. reflexivity.
Qed.
Lemma name_offset r : 0 <= r < 64 -> instruction_name (0x80 + r) = Ok "DW_CFA_offset".
Proof.
  intros H. unfold instruction_name, PRIMARY_MASK.
  destruct (land_masks (0x80 + r)) as [E _]; [lia|]. rewrite E.
  replace ((0x80 + r) / 64) with 2 by lia. reflexivity.
Qed.
Lemma name_restore r : 0 <= r < 64 -> instruction_name (0xc0 + r) = Ok "DW_CFA_restore".
Proof.
  intros H. unfold instruction_name, PRIMARY_MASK.
  destruct (land_masks (0xc0 + r)) as [E _]; [lia|]. rewrite E.
  replace ((0xc0 + r) / 64) with 3 by lia. reflexivity.
Qed.
Close Scope string_scope.

(* ---------------------------------------------------------------- the dict of a line *)
Lemma reg_get_set_same d k v : reg_get (reg_set d k v) k = Some v.
Proof.
  unfold reg_get. induction d as [|[k' v'] r IH]; cbn [reg_set assocZ].
  - rewrite Z.eqb_refl. reflexivity.
  - destruct (Z.eqb_spec k k') as [->|Hne]; cbn [assocZ].
    + rewrite Z.eqb_refl. reflexivity.
    + destruct (Z.eqb_spec k k'); [contradiction|]. exact IH.
Qed.
Lemma reg_get_set_other d k v j : j <> k -> reg_get (reg_set d k v) j = reg_get d j.
Proof.
  unfold reg_get. intros Hj. induction d as [|[k' v'] r IH]; cbn [reg_set assocZ].
  - destruct (Z.eqb_spec j k); [contradiction|]. reflexivity.
  - destruct (Z.eqb_spec k k') as [->|Hne]; cbn [assocZ].
    + destruct (Z.eqb_spec j k'); [contradiction|]. reflexivity.
    + destruct (Z.eqb_spec j k'); [reflexivity|]. exact IH.
Qed.
Lemma reg_get_none_keys d k : reg_get d k = None <-> ~ In k (map fst d).
Proof.
  unfold reg_get. induction d as [|[k' v'] r IH]; cbn [assocZ map fst In].
  - tauto.
  - destruct (Z.eqb_spec k k') as [->|Hne].
    + split; [discriminate|]. intros H. exfalso. apply H. auto.
    + rewrite IH. split; [intros H [E|E]; [congruence|auto] | intros H E; apply H; auto].
Qed.
Lemma reg_set_keys d k v :
  map fst (reg_set d k v) = if existsb (Z.eqb k) (map fst d) then map fst d else map fst d ++ [k].
Proof.
  induction d as [|[k' v'] r IH]; cbn [reg_set map fst existsb app]; [reflexivity|].
  destruct (Z.eqb_spec k k') as [->|Hne]; cbn [map fst orb]; [reflexivity|].
  rewrite IH. destruct (existsb (Z.eqb k) (map fst r)); reflexivity.
Qed.
Lemma existsb_eqb_in k l : existsb (Z.eqb k) l = true <-> In k l.
Proof.
  rewrite existsb_exists. split.
  - intros (x & Hx & E). apply Z.eqb_eq in E. subst. exact Hx.
  - intros H. exists k. split; [exact H|apply Z.eqb_refl].
Qed.
Lemma NoDup_snoc {A} (l : list A) k : NoDup l -> ~ In k l -> NoDup (l ++ [k]).
Proof.
  induction l as [|x l IH]; intros H Hn; cbn [app].
  - constructor; [intros []|constructor].
  - inversion H as [|? ? Hx Hl]; subst. constructor.
    + intros Hin. apply in_app_or in Hin. destruct Hin as [Hin|[E|[]]]; [contradiction|].
      subst. apply Hn. left. reflexivity.
    + apply IH; [exact Hl|]. intros Hin. apply Hn. right. exact Hin.
Qed.
Lemma reg_set_nodup d k v : NoDup (map fst d) -> NoDup (map fst (reg_set d k v)).
Proof.
  intros H. rewrite reg_set_keys. destruct (existsb (Z.eqb k) (map fst d)) eqn:E; [exact H|].
  apply NoDup_snoc; [exact H|].
  intros Hin. apply existsb_eqb_in in Hin. congruence.
Qed.
Lemma reg_pop_keys_subset d k j : In j (map fst (reg_pop d k)) -> In j (map fst d).
Proof.
  induction d as [|[k' v'] r IH]; cbn [reg_pop map fst In]; [tauto|].
  destruct (Z.eqb_spec k k'); cbn [map fst In]; intuition.
Qed.
Lemma reg_pop_nodup d k : NoDup (map fst d) -> NoDup (map fst (reg_pop d k)).
Proof.
  induction d as [|[k' v'] r IH]; cbn [reg_pop map fst]; intros H; [constructor|].
  inversion H as [|? ? Hn Hr]; subst.
  destruct (Z.eqb_spec k k'); cbn [map fst]; [exact Hr|].
  constructor; [|auto]. intros Hin. apply Hn. eapply reg_pop_keys_subset; eauto.
Qed.
Lemma reg_get_pop_same d k : NoDup (map fst d) -> reg_get (reg_pop d k) k = None.
Proof.
  unfold reg_get. induction d as [|[k' v'] r IH]; cbn [reg_pop map fst assocZ]; intros H;
    [reflexivity|].
  inversion H as [|? ? Hn Hr]; subst.
  destruct (Z.eqb_spec k k') as [->|Hne]; cbn [assocZ].
  - apply reg_get_none_keys. exact Hn.
  - destruct (Z.eqb_spec k k'); [contradiction|]. auto.
Qed.
Lemma reg_get_pop_other d k j : j <> k -> reg_get (reg_pop d k) j = reg_get d j.
Proof.
  unfold reg_get. intros Hj. induction d as [|[k' v'] r IH]; cbn [reg_pop assocZ]; [reflexivity|].
  destruct (Z.eqb_spec k k') as [->|Hne]; cbn [assocZ].
  - destruct (Z.eqb_spec j k'); [contradiction|]. reflexivity.
  - destruct (Z.eqb_spec j k'); [reflexivity|]. exact IH.
Qed.

(* ---------------------------------------------------------------- the spec's finite map *)
Lemma rule_of_drop_same m k : rule_of (drop_rule k m) k = None.
Proof.
  induction m as [|[k' x] r IH]; cbn [drop_rule rule_of]; [reflexivity|].
  destruct (Z.eqb_spec k k') as [->|Hne]; [exact IH|].
  cbn [rule_of]. destruct (Z.eqb_spec k k'); [contradiction|]. exact IH.
Qed.
Lemma rule_of_drop_other m k j : j <> k -> rule_of (drop_rule k m) j = rule_of m j.
Proof.
  intros Hj. induction m as [|[k' x] r IH]; cbn [drop_rule rule_of]; [reflexivity|].
  destruct (Z.eqb_spec k k') as [->|Hne].
  - destruct (Z.eqb_spec j k'); [contradiction|]. exact IH.
  - cbn [rule_of]. destruct (Z.eqb_spec j k'); [reflexivity|]. exact IH.
Qed.

(* ---------------------------------------------------------------- simulation *)
(* the dict has one entry per key and shows the finite map *)
Definition regs_ok (d : regdict) (m : rules) : Prop :=
  NoDup (map fst d) /\ regs_match d m.

Lemma regs_ok_nil : regs_ok [] [].
Proof. split; [constructor|]. intros k. reflexivity. Qed.

Lemma regs_ok_set d m k x :
  regs_ok d m -> regs_ok (reg_set d k (view_rule x)) (set_rule k x m).
Proof.
  intros [Hn Hm]. split; [apply reg_set_nodup; exact Hn|].
  intros j. unfold set_rule. cbn [rule_of].
  destruct (Z.eqb_spec j k) as [->|Hne].
  - rewrite reg_get_set_same. reflexivity.
  - rewrite reg_get_set_other by exact Hne. rewrite rule_of_drop_other by exact Hne. apply Hm.
Qed.
Lemma regs_ok_pop d m k : regs_ok d m -> regs_ok (reg_pop d k) (drop_rule k m).
Proof.
  intros [Hn Hm]. split; [apply reg_pop_nodup; exact Hn|].
  intros j. destruct (Z.eqb_spec j k) as [->|Hne].
  - rewrite reg_get_pop_same by exact Hn. rewrite rule_of_drop_same. reflexivity.
  - rewrite reg_get_pop_other by exact Hne. rewrite rule_of_drop_other by exact Hne. apply Hm.
Qed.
Lemma regs_ok_empty_iff d m : regs_ok d m -> (d = [] <-> m = []).
Proof.
  intros [_ Hm]. split; intros ->.
  - destruct m as [|[k x] r]; [reflexivity|]. specialize (Hm k). cbn [rule_of reg_get assocZ] in Hm.
    rewrite Z.eqb_refl in Hm. discriminate.
  - destruct d as [|[k v] r]; [reflexivity|]. specialize (Hm k).
    unfold reg_get in Hm. cbn [assocZ rule_of] in Hm. rewrite Z.eqb_refl in Hm. discriminate.
Qed.

Definition line_ok (l : line) (r : row) : Prop :=
  pc l = row_loc r /\ cfa l = view_cfa (row_cfa r) /\ regs_ok (regs l) (row_regs r).
Definition saved_ok (l : line) (cm : cfa_rule * rules) : Prop :=
  cfa l = view_cfa (fst cm) /\ regs_ok (regs l) (snd cm).

Record sim (ds : dstate) (s : state) : Prop := mksim {
  sim_cur : line_ok (cur_line ds) (cur_row s);
  sim_rows : Forall2 line_ok (d_table ds) (st_rows s);
  sim_stack : Forall2 saved_ok (line_stack ds) (st_stack s);
  sim_order : d_reg_order ds = st_columns s
}.

Lemma line_ok_matches l r : line_ok l r -> line_matches l r.
Proof. intros (H1 & H2 & _ & H3). repeat split; assumption. Qed.

Lemma Forall2_app_one {A B} (R : A -> B -> Prop) l1 l2 a b :
  Forall2 R l1 l2 -> R a b -> Forall2 R (l1 ++ [a]) (l2 ++ [b]).
Proof. intros H1 H2. apply Forall2_app; [exact H1|]. constructor; [exact H2|constructor]. Qed.

Lemma sim_push ds s newpc :
  sim ds s -> sim (push_line ds newpc) (new_row newpc s).
Proof.
  intros [Hc Hr Hs Ho]. destruct Hc as (Hpc & Hcfa & Hregs).
  constructor; cbn [push_line new_row cur_line d_table line_stack d_reg_order cur_row
                    st_loc st_cfa st_regs st_stack st_rows st_columns pc cfa regs row_loc row_cfa
                    row_regs].
  - repeat split; assumption || apply Hregs.
  - apply Forall2_app_one; [exact Hr|]. repeat split; assumption || apply Hregs.
  - exact Hs.
  - exact Ho.
Qed.
Lemma sim_set_cfa ds s c :
  sim ds s -> sim (set_cfa ds (view_cfa c)) (with_cfa c s).
Proof.
  intros [Hc Hr Hs Ho]. destruct Hc as (Hpc & Hcfa & Hregs).
  constructor; cbn [set_cfa with_cfa cur_line d_table line_stack d_reg_order cur_row
                    st_loc st_cfa st_regs st_stack st_rows st_columns pc cfa regs row_loc row_cfa
                    row_regs]; try assumption.
  repeat split; assumption || apply Hregs.
Qed.
Lemma sim_set_reg ds s r x :
  sim ds s -> sim (set_reg ds r (view_rule x)) (with_rule r x s).
Proof.
  intros [Hc Hr Hs Ho]. destruct Hc as (Hpc & Hcfa & Hregs).
  constructor; cbn [set_reg with_rule cur_line d_table line_stack d_reg_order cur_row
                    st_loc st_cfa st_regs st_stack st_rows st_columns pc cfa regs row_loc row_cfa
                    row_regs]; try assumption.
  - split; [assumption|]. split; [assumption|]. apply regs_ok_set. exact Hregs.
  - unfold add_to_order, mention. rewrite Ho. reflexivity.
Qed.
Lemma sim_pop_reg ds s r :
  sim ds s ->
  sim (mkdstate (mkline (pc (cur_line ds)) (cfa (cur_line ds)) (reg_pop (regs (cur_line ds)) r))
                (d_table ds) (line_stack ds) (add_to_order r (d_reg_order ds)))
      (without_rule r s).
Proof.
  intros [Hc Hr Hs Ho]. destruct Hc as (Hpc & Hcfa & Hregs).
  constructor; cbn [without_rule cur_line d_table line_stack d_reg_order cur_row
                    st_loc st_cfa st_regs st_stack st_rows st_columns pc cfa regs row_loc row_cfa
                    row_regs]; try assumption.
  - split; [assumption|]. split; [assumption|]. apply regs_ok_pop. exact Hregs.
  - unfold add_to_order, mention. rewrite Ho. reflexivity.
Qed.

(* how the loop's parameters relate to the interpreter's *)
Definition params_ok (is_FDE : bool) (last_line_in_CIE : regdict) (P : params) : Prop :=
  match p_initial P with
  | None => is_FDE = false
  | Some init => is_FDE = true /\ regs_match last_line_in_CIE init
  end.

Lemma sim_restore is_FDE ll P ds s r s' :
  params_ok is_FDE ll P -> sim ds s -> restore_reg P r s = Some s' ->
  exists ds',
    (if negb is_FDE then Err EDwarf
     else match reg_get ll r with
          | Some rule => Ok (set_reg ds r rule)
          | None => Ok (mkdstate (mkline (pc (cur_line ds)) (cfa (cur_line ds))
                                         (reg_pop (regs (cur_line ds)) r))
                                 (d_table ds) (line_stack ds) (add_to_order r (d_reg_order ds)))
          end) = Ok ds' /\ sim ds' s'.
Proof.
  unfold params_ok, restore_reg. intros HP Hsim H.
  destruct (p_initial P) as [init|]; [|discriminate].
  destruct HP as [-> Hll]. cbn [negb]. rewrite (Hll r).
  destruct (rule_of init r) as [x|]; cbn [option_map]; inversion H; subst.
  - eexists. split; [reflexivity|]. apply sim_set_reg. exact Hsim.
  - eexists. split; [reflexivity|]. apply sim_pop_reg. exact Hsim.
Qed.

(* the name the library looks an instruction's opcode up under: closed opcodes by computation *)
Ltac name_closed :=
  match goal with
  | |- context [instruction_name ?n] =>
      let r := eval vm_compute in (instruction_name n) in
      change (instruction_name n) with r
  end.

Ltac unfold_step :=
  unfold decode_step, to_raw; cbn [opcode args opcode_of args_of].

Ltac finish_step := cbn -[Z.mul Z.add]; eexists; split; [reflexivity|].

(* ---------------------------------------------------------------- one instruction *)
Lemma step_sim is_FDE ll P ds s i s' :
  params_ok is_FDE ll P -> low6_ok i = true -> sim ds s -> step P s i = Some s' ->
  exists ds', decode_step is_FDE (p_caf P) (p_daf P) ll ds (to_raw i) = Ok ds' /\ sim ds' s'.
Proof.
  intros HP Hwf Hsim Hstep.
  pose proof (sim_cur _ _ Hsim) as (Hpc & Hcfa & Hregs).
  destruct i; cbn [step] in Hstep; cbn [low6_ok] in Hwf.
  - (* advance_loc *)
    unfold_step. rewrite name_advance_loc by lia. inversion Hstep; subst.
    finish_step. rewrite Hpc. apply sim_push. exact Hsim.
  - (* offset *)
    unfold_step. rewrite name_offset by lia. inversion Hstep; subst.
    finish_step. apply (sim_set_reg ds s reg (ROffset (lv off * p_daf P))). exact Hsim.
  - (* restore *)
    unfold_step. rewrite name_restore by lia. cbn -[Z.mul Z.add].
    eapply sim_restore; eauto.
  - (* nop *)
    unfold_step. name_closed. inversion Hstep; subst. finish_step. exact Hsim.
  - (* set_loc *)
    unfold_step. name_closed. inversion Hstep; subst. finish_step. apply sim_push. exact Hsim.
  - (* advance_loc1 *)
    unfold_step. name_closed. inversion Hstep; subst. finish_step. rewrite Hpc.
    apply sim_push. exact Hsim.
  - (* advance_loc2 *)
    unfold_step. name_closed. inversion Hstep; subst. finish_step. rewrite Hpc.
    apply sim_push. exact Hsim.
  - (* advance_loc4 *)
    unfold_step. name_closed. inversion Hstep; subst. finish_step. rewrite Hpc.
    apply sim_push. exact Hsim.
  - (* offset_extended *)
    unfold_step. name_closed. inversion Hstep; subst. finish_step.
    apply (sim_set_reg ds s (lv reg) (ROffset (lv off * p_daf P))). exact Hsim.
  - (* restore_extended *)
    unfold_step. name_closed. cbn -[Z.mul Z.add]. eapply sim_restore; eauto.
  - (* undefined *)
    unfold_step. name_closed. inversion Hstep; subst. finish_step.
    apply (sim_set_reg ds s (lv reg) RUndefined). exact Hsim.
  - (* same_value *)
    unfold_step. name_closed. inversion Hstep; subst. finish_step.
    apply (sim_set_reg ds s (lv reg) RSameValue). exact Hsim.
  - (* register *)
    unfold_step. name_closed. inversion Hstep; subst. finish_step.
    apply (sim_set_reg ds s (lv reg) (RRegister (lv reg2))). exact Hsim.
  - (* remember_state *)
    unfold_step. name_closed. inversion Hstep; subst. finish_step.
    destruct Hsim as [Hc Hr Hs Ho]. constructor; cbn; try assumption.
    constructor; [|exact Hs]. split; [exact Hcfa|exact Hregs].
  - (* restore_state *)
    unfold_step. name_closed. cbn -[Z.mul Z.add].
    destruct Hsim as [Hc Hr Hs Ho].
    destruct (st_stack s) as [|[c m] stk] eqn:Es; [discriminate|].
    inversion Hs as [|top cm below stk' Htop Hbelow]; subst.
    inversion Hstep; subst. eexists. split; [reflexivity|].
    destruct Htop as [Htc Htr]. cbn [fst snd] in Htc, Htr.
    constructor; cbn; try assumption.
    repeat split; assumption || apply Htr.
  - (* def_cfa *)
    unfold_step. name_closed. inversion Hstep; subst. finish_step.
    apply (sim_set_cfa ds s (CfaRegOff (lv reg) (lv off))). exact Hsim.
  - (* def_cfa_register *)
    unfold_step. name_closed. cbn -[Z.mul Z.add].
    cbn [cur_row row_cfa] in Hcfa.
    destruct (st_cfa s) as [|r0 o0|e0] eqn:Ec; try discriminate.
    inversion Hstep; subst. rewrite Hcfa. cbn [view_cfa cfa_offset].
    eexists. split; [reflexivity|].
    apply (sim_set_cfa ds s (CfaRegOff (lv reg) o0)). exact Hsim.
  - (* def_cfa_offset *)
    unfold_step. name_closed. cbn -[Z.mul Z.add].
    cbn [cur_row row_cfa] in Hcfa.
    destruct (st_cfa s) as [|r0 o0|e0] eqn:Ec; try discriminate.
    inversion Hstep; subst. rewrite Hcfa. cbn [view_cfa cfa_reg].
    eexists. split; [reflexivity|].
    apply (sim_set_cfa ds s (CfaRegOff r0 (lv off))). exact Hsim.
  - (* def_cfa_expression *)
    unfold_step. name_closed. inversion Hstep; subst. finish_step.
    apply (sim_set_cfa ds s (CfaExpr e)). exact Hsim.
  - (* expression *)
    unfold_step. name_closed. inversion Hstep; subst. finish_step.
    apply (sim_set_reg ds s (lv reg) (RExpression e)). exact Hsim.
  - (* offset_extended_sf *)
    unfold_step. name_closed. inversion Hstep; subst. finish_step.
    apply (sim_set_reg ds s (lv reg) (ROffset (lv off * p_daf P))). exact Hsim.
  - (* def_cfa_sf *)
    unfold_step. name_closed. inversion Hstep; subst. finish_step.
    apply (sim_set_cfa ds s (CfaRegOff (lv reg) (lv off * p_daf P))). exact Hsim.
  - (* def_cfa_offset_sf *)
    unfold_step. name_closed. cbn -[Z.mul Z.add].
    cbn [cur_row row_cfa] in Hcfa.
    destruct (st_cfa s) as [|r0 o0|e0] eqn:Ec; try discriminate.
    inversion Hstep; subst. rewrite Hcfa. cbn [view_cfa cfa_reg].
    eexists. split; [reflexivity|].
    apply (sim_set_cfa ds s (CfaRegOff r0 (lv off * p_daf P))). exact Hsim.
  - (* val_offset *)
    unfold_step. name_closed. inversion Hstep; subst. finish_step.
    apply (sim_set_reg ds s (lv reg) (RValOffset (lv off * p_daf P))). exact Hsim.
  - (* val_offset_sf *)
    unfold_step. name_closed. inversion Hstep; subst. finish_step.
    apply (sim_set_reg ds s (lv reg) (RValOffset (lv off * p_daf P))). exact Hsim.
  - (* val_expression *)
    unfold_step. name_closed. inversion Hstep; subst. finish_step.
    apply (sim_set_reg ds s (lv reg) (RValExpression e)). exact Hsim.
  - (* GNU_window_save *)
    unfold_step. name_closed. inversion Hstep; subst. finish_step. exact Hsim.
  - (* GNU_args_size *)
    unfold_step. name_closed. inversion Hstep; subst. finish_step. exact Hsim.
  - (* MIPS_advance_loc8: not implemented, excluded by low6_ok *) discriminate.
  - (* AARCH64_negate_ra_state_with_pc *) discriminate.
  - (* GNU_negative_offset_extended *) discriminate.
Qed.

(* ---------------------------------------------------------------- the loop *)
Lemma loop_sim is_FDE ll P : params_ok is_FDE ll P -> forall is ds s s',
  low6_all is = true -> sim ds s -> run P s is = Some s' ->
  exists ds', decode_loop is_FDE (p_caf P) (p_daf P) ll ds (map to_raw is) = Ok ds' /\ sim ds' s'.
Proof.
  intros HP. induction is as [|i r IH]; intros ds s s' Hwf Hsim Hrun.
  - cbn [run] in Hrun. inversion Hrun; subst. exists ds. split; [reflexivity|exact Hsim].
  - cbn [low6_all forallb] in Hwf. apply andb_prop in Hwf. destruct Hwf as [Hi Hr].
    cbn [run] in Hrun. destruct (step P s i) as [s1|] eqn:Es; [|discriminate].
    destruct (step_sim is_FDE ll P ds s i s1 HP Hi Hsim Es) as (ds1 & E1 & Hsim1).
    destruct (IH ds1 s1 s' Hr Hsim1 Hrun) as (ds' & E' & Hsim').
    exists ds'. split; [|exact Hsim'].
    cbn [map decode_loop]. rewrite E1. cbn [bind]. exact E'.
Qed.

(* ---------------------------------------------------------------- after the loop *)
Lemma kept_iff_has_rule l r : line_ok l r -> line_is_kept l = row_has_rule r.
Proof.
  intros (_ & Hcfa & Hregs). unfold line_is_kept, row_has_rule. rewrite Hcfa.
  destruct (row_cfa r) as [|r0 o0|e0]; cbn [view_cfa cfa_reg cfa_expr]; try reflexivity.
  pose proof (regs_ok_empty_iff _ _ Hregs) as Hiff.
  destruct (regs l) as [|x xs]; destruct (row_regs r) as [|y ys]; try reflexivity.
  - destruct Hiff as [H _]. specialize (H eq_refl). discriminate.
  - destruct Hiff as [_ H]. specialize (H eq_refl). discriminate.
Qed.

Lemma Forall2_ok_matches a b : Forall2 line_ok a b -> Forall2 line_matches a b.
Proof. induction 1; constructor; auto using line_ok_matches. Qed.

Lemma finish_matches ds s :
  sim ds s -> row_has_rule (cur_row s) = true -> table_matches (finish ds) (table_of s).
Proof.
  intros [Hc Hr Hs Ho] Hrule. unfold finish, table_of, table_matches.
  rewrite (kept_iff_has_rule _ _ Hc), Hrule. cbn [table reg_order t_rows t_columns].
  split; [|exact Ho]. apply Forall2_ok_matches. apply Forall2_app_one; assumption.
Qed.

Lemma init_sim : sim (mkdstate (mkline 0 empty_cfa []) [] [] []) init_state.
Proof.
  constructor; cbn; try constructor.
  - reflexivity.
  - split; [reflexivity|apply regs_ok_nil].
Qed.

(* ---------------------------------------------------------------- CIE *)
Theorem table_equal_cie caf daf cis t :
  low6_all cis = true ->
  cfi_spec_cie caf daf cis = Some t -> cie_domain caf daf cis = true ->
  result_matches (decode_cie caf daf (map to_raw cis)) t.
Proof.
  unfold cfi_spec_cie, cie_domain. intros Hwf Hspec Hdom.
  destruct (cie_final caf daf cis) as [sc|] eqn:Ec; [|discriminate].
  inversion Hspec; subst t. unfold cie_final in Ec.
  destruct (loop_sim false [] (cie_params caf daf) eq_refl cis _ _ sc Hwf init_sim Ec)
    as (ds & E & Hsim).
  cbn [cie_params p_caf p_daf] in E. unfold decode_cie. rewrite E. cbn [bind result_matches].
  apply finish_matches; assumption.
Qed.

(* ---------------------------------------------------------------- FDE *)
Lemma rev_app_one {A} (l : list A) a : rev (l ++ [a]) = a :: rev l.
Proof. rewrite rev_app_distr. reflexivity. Qed.

Theorem table_equal_fde caf daf cis loc fis t :
  low6_all cis = true -> low6_all fis = true ->
  cfi_spec_fde caf daf cis loc fis = Some t -> fde_domain caf daf cis loc fis = true ->
  result_matches (decode_fde caf daf (map to_raw cis) loc (map to_raw fis)) t.
Proof.
  unfold fde_domain. intros Hwc Hwf Hspec Hdom.
  rewrite Hspec in Hdom. unfold cfi_spec_fde in Hspec.
  destruct (cie_final caf daf cis) as [sc|] eqn:Ec; [|discriminate].
  apply andb_prop in Hdom. destruct Hdom as [Hcie Hlast].
  destruct (run (mkparams caf daf (Some (st_regs sc))) (fde_start sc loc) fis) as [sf|] eqn:Ef;
    [|discriminate].
  inversion Hspec; subst t.
  (* the CIE's own loop *)
  unfold cie_final in Ec.
  destruct (loop_sim false [] (cie_params caf daf) eq_refl cis _ _ sc Hwc init_sim Ec)
    as (dc & E & Hsimc).
  cbn [cie_params p_caf p_daf] in E.
  unfold decode_fde, decode_cie. rewrite E. cbn [bind]. unfold decode_fde_from.
  destruct Hsimc as [Hc Hr Hs Ho].
  (* the line the FDE starts from shows the CIE's final rules *)
  assert (Hstart :
    exists c0 l0,
      match rev (table (finish dc)) with
      | last :: _ => (cfa last, regs last)
      | [] => (empty_cfa, [])
      end = (c0, l0)
      /\ c0 = view_cfa (st_cfa sc) /\ regs_ok l0 (st_regs sc)).
  { unfold finish. rewrite (kept_iff_has_rule _ _ Hc).
    destruct (row_has_rule (cur_row sc)) eqn:Hrule.
    - cbn [table]. rewrite rev_app_one.
      exists (cfa (cur_line dc)), (regs (cur_line dc)). split; [reflexivity|].
      destruct Hc as (_ & Hcfa & Hregs). split; assumption.
    - cbn [orb] in Hcie. destruct (st_rows sc) as [|r0 rs] eqn:Erows; [|discriminate].
      inversion Hr as [E0|]; subst. cbn [table rev].
      exists empty_cfa, []. split; [reflexivity|].
      unfold row_has_rule in Hrule. cbn [cur_row row_cfa row_regs] in Hrule.
      destruct (st_cfa sc); try discriminate.
      destruct (st_regs sc); [|discriminate].
      split; [reflexivity|apply regs_ok_nil]. }
  destruct Hstart as (c0 & l0 & Estart & Hc0 & Hl0).
  rewrite Estart.
  assert (Hsim0 : sim (mkdstate (mkline loc c0 l0) [] [] (reg_order (finish dc)))
                      (fde_start sc loc)).
  { constructor; cbn; try constructor.
    - reflexivity.
    - split; assumption.
    - unfold finish. destruct (line_is_kept (cur_line dc)); exact Ho. }
  assert (HP : params_ok true l0 (mkparams caf daf (Some (st_regs sc)))).
  { cbn. split; [reflexivity|apply Hl0]. }
  destruct (loop_sim true l0 _ HP fis _ _ sf Hwf Hsim0 Ef) as (df & E' & Hsimf).
  cbn [p_caf p_daf] in E'. rewrite E'. cbn [bind result_matches].
  apply finish_matches; [exact Hsimf|].
  unfold last_row_has_rule, table_of in Hlast. cbn [t_rows] in Hlast.
  rewrite rev_app_one in Hlast. exact Hlast.
Qed.

(* ---------------------------------------------------------------- the full-strength statements fail *)
Theorem table_cie_refuted : exists caf daf cis t,
  low6_all cis = true /\ cfi_spec_cie caf daf cis = Some t /\
  ~ result_matches (decode_cie caf daf (map to_raw cis)) t.
Proof.
  exists 1, 1, [I_nop]. eexists. split; [reflexivity|]. split; [reflexivity|].
  vm_compute. intros [H _]. inversion H.
Qed.

Theorem table_fde_refuted : exists caf daf cis loc fis t,
  low6_all cis = true /\ low6_all fis = true /\
  cfi_spec_fde caf daf cis loc fis = Some t /\
  ~ result_matches (decode_fde caf daf (map to_raw cis) loc (map to_raw fis)) t.
Proof.
  exists 1, 1, [I_nop], 4096, [I_advance_loc 1; I_nop]. eexists.
  split; [reflexivity|]. split; [reflexivity|]. split; [reflexivity|].
  vm_compute. intros [H _]. inversion H as [|? ? ? ? _ H2]. inversion H2.
Qed.

(* invalid sequences: the model fails where the standard gives no table *)
Theorem restore_state_underflow caf daf :
  cfi_spec_cie caf daf [I_restore_state] = None /\
  decode_cie caf daf (map to_raw [I_restore_state]) = Err (EPy "IndexError").
Proof. split; reflexivity. Qed.
Theorem restore_in_cie caf daf r : 0 <= r < 64 ->
  cfi_spec_cie caf daf [I_restore r] = None /\
  decode_cie caf daf (map to_raw [I_restore r]) = Err EDwarf.
Proof.
  intros H. split; [reflexivity|].
  unfold decode_cie. cbn [map decode_loop]. unfold decode_step, to_raw.
  cbn [opcode args opcode_of args_of]. rewrite name_restore by lia. reflexivity.
Qed.

(* ---------------------------------------------------------------- entries of a section *)
(* get_decoded on the objects a section yields is decode_cie / decode_fde on their lists *)
Lemma get_decoded_view_cie s off c :
  get_decoded (view_cie s off c) =
  decode_cie (lv (c_caf c)) (lv (c_daf c)) (map to_raw (c_instrs c)).
Proof. reflexivity. Qed.
Lemma get_decoded_view_fde s off f :
  let c := cie_at (s_entries s) (f_cie f) in
  get_decoded (view_fde s off f) =
  decode_fde (lv (c_caf c)) (lv (c_daf c)) (map to_raw (c_instrs c))
             (ptr_meaning (fde_pcrel (s_eh s) c) (s_addr s) (loc_field_off off f) (lv (f_loc f)))
             (map to_raw (f_instrs f)).
Proof. reflexivity. Qed.
