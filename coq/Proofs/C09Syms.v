(* Proofs/C09Syms.v — views_agree for the dynamic symbols: for images satisfying
   sym_consistent_b the symbols enumerated from the DynamicSegment of the stripped image
   (count recovered from the GNU or SysV hash table, then get_symbol through DT_SYMTAB and
   DT_STRTAB) are those of the SHT_DYNSYM section of the original. *)
From PV Require Import Model.C09Dynamic Base.Enum Spec.PrimSpec.
From PV Require Import Proofs.PrimProofs Proofs.FmtProofs Proofs.ElfLayoutFacts Proofs.C09Tables Proofs.C09Tags
                       Proofs.C09Hash Proofs.C09Views Proofs.C09Relocs.
From Coq Require Import ZifyBool.
Open Scope string_scope.
Open Scope list_scope.
Open Scope Z_scope.

Lemma sym_consistent_inv img d : describe img = Some d -> sym_consistent_b img = true ->
  consistent_b img = true /\ exists ds st2 tp rs,
    dynsym_of d = Some ds /\ sh_entsize ds = sym_size (di_is64 d) /\ sh_size ds mod sym_size (di_is64 d) = 0 /\
    nthz (di_shdrs d) (sh_link ds) = Some st2 /\ sh_type st2 = SHT_STRTAB /\ sh_offset st2 = sh_offset (di_str d) /\
    first_val DT_SYMTAB (di_entries d) = Some tp /\
    ptr_ok (di_is64 d) img (di_phdrs d) tp (sh_size ds) = Some (sh_offset ds) /\
    read_syms (di_le d) (di_is64 d) img (sh_offset ds) (sym_size (di_is64 d)) (sh_size ds / sym_size (di_is64 d)) = Some rs /\
    forallb (fun r => match str_at (strtab_bytes d img) (rec_z r "st_name") with Some _ => true | None => false end) rs = true /\
    hash_ok d img (sh_size ds / sym_size (di_is64 d)) = true.
Proof.
  intros Hd H. unfold sym_consistent_b in H. rewrite Hd in H. apply andb_prop in H. destruct H as [Hc H].
  split; [exact Hc|]. destruct (dynsym_of d) as [ds|]; [|discriminate].
  rewrite !andb_true_iff in H. destruct H as [[[[[S1 S2] S3] S4] S5] S6].
  destruct (nthz (di_shdrs d) (sh_link ds)) as [st2|] eqn:En; [|discriminate]. apply andb_prop in S3. destruct S3 as [S3a S3b].
  destruct (first_val DT_SYMTAB (di_entries d)) as [tp|]; [|discriminate].
  destruct (ptr_ok (di_is64 d) img (di_phdrs d) tp (sh_size ds)) as [off|] eqn:Ep; [|discriminate].
  destruct (read_syms _ _ _ _ _ _) as [rs|] eqn:Er; [|discriminate].
  exists ds, st2, tp, rs. assert (off = sh_offset ds) by (clear - S4; lia). subst off.
  repeat split; try assumption; try (clear - S1 S2 S3a S3b; lia).
Qed.

Section with_ctx.
Variables (img img' : list Z) (d : dyninfo) (f f' : elf) (sp : Z).
Hypothesis C : vctx img img' d f f' sp.
Variables (ds st2 : shdr) (tp : Z) (rs : list (list (string * fval))).
Let N := sh_size ds / sym_size (f_is64 f).
Hypothesis Hds : dynsym_of d = Some ds.
Hypothesis Hent : sh_entsize ds = sym_size (f_is64 f).
Hypothesis Hmod : sh_size ds mod sym_size (f_is64 f) = 0.
Hypothesis Hst2 : nthz (di_shdrs d) (sh_link ds) = Some st2.
Hypothesis Hst2ty : sh_type st2 = SHT_STRTAB.
Hypothesis Hst2off : sh_offset st2 = sh_offset (di_str d).
Hypothesis Htp : first_val DT_SYMTAB (di_entries d) = Some tp.
Hypothesis Htpok : ptr_ok (f_is64 f) img (di_phdrs d) tp (sh_size ds) = Some (sh_offset ds).
Hypothesis Hrs : read_syms (f_le f) (f_is64 f) img (sh_offset ds) (sym_size (f_is64 f)) N = Some rs.
Hypothesis Hnames : forallb (fun r => match str_at (strtab_bytes d img) (rec_z r "st_name") with
                                      | Some _ => true | None => false end) rs = true.
Hypothesis Hhash : hash_ok d img N = true.
Hypothesis Hbytes : all_bytes img' = true.

Let ps := di_phdrs d.
Let ts := map (raw_of (f_dtab f)) (di_entries d).
Let dy' := mkDyn (p_offset (di_seg d)) false None.
Let symoff := sh_offset ds.
Let stroff := sh_offset (di_str d).

Lemma ctx_ts' : map (raw_of (f_dtab f')) (di_entries d) = ts.
Proof. unfold ts. rewrite (ctx_dtab_eq _ _ _ _ _ _ C). reflexivity. Qed.

Lemma ctx_dt' val name : In (val, name) spec_dt_names -> name_is (f_dtab f') val name.
Proof. dC C. intros H. apply (dt_name _ _ _ _ _ c_dtab'0 H). Qed.
Lemma ctx_load' : name_is (f_ptab f') PT_LOAD "PT_LOAD".
Proof. dC C. apply c_pt'0. cbn; tauto. Qed.

Lemma ctx_offset' val name ptr len off : In (val, name) spec_dt_names ->
  first_val val (di_entries d) = Some ptr -> ptr_ok (f_is64 f) img ps ptr len = Some off ->
  get_table_offset f' ps ts name = (Some ptr, Some off) /\ ehdr_size (f_is64 f) <= off.
Proof.
  intros Hin Hv Hp. destruct (ptr_ok_inv _ _ _ _ _ _ Hp) as [Hmap [Hnz [_ [Hoff _]]]].
  rewrite <- ctx_ts', (get_table_offset_spec f' ps _ val name (ctx_dt' _ _ Hin)), Hv.
  destruct (Z.eqb_spec ptr 0); [contradiction|].
  rewrite (address_offset_first f' ps ptr len off ctx_load' Hmap). split; [reflexivity|exact Hoff].
Qed.
Lemma ctx_no_offset' val name : In (val, name) spec_dt_names ->
  first_val val (di_entries d) = None -> get_table_offset f' ps ts name = (None, None).
Proof.
  intros Hin Hv. rewrite <- ctx_ts', (get_table_offset_spec f' ps _ val name (ctx_dt' _ _ Hin)), Hv. reflexivity.
Qed.

Lemma ctx_seekz' off : ehdr_size (f_is64 f) <= off -> seekz (f_img f') off = seekz img off.
Proof. dC C. intros H. rewrite c_img'0. symmetry. apply (same_behind_seekz _ _ _ _ c_same0). clear - H c_ehpos0. lia. Qed.

(* num_symbols: the count recovered from the hash table is the section's entry count *)
Lemma ctx_num_symbols' : num_symbols f' ps ts dy' = Ok N.
Proof.
  unfold num_symbols. unfold hash_ok in Hhash.
  assert (Hcfg : f_le f' = f_le f /\ f_is64 f' = f_is64 f /\ f_img f' = img' /\ 0 < ehdr_size (f_is64 f) /\
                 f_is64 f = di_is64 d /\ f_le f = di_le d).
  { dC C. repeat split; assumption. }
  destruct Hcfg as [Hle [H64 [Hi [Hpos [E64 Ele]]]]]. rewrite <- E64, <- Ele in Hhash. fold ps in Hhash.
  destruct (first_val DT_GNU_HASH (di_entries d)) as [gp|] eqn:Eg.
  - destruct (ptr_ok (f_is64 f) img ps gp 16) as [off|] eqn:Ep; [|discriminate].
    destruct (ctx_offset' DT_GNU_HASH "DT_GNU_HASH" gp 16 off ltac:(cbn; tauto) Eg Ep) as [-> Hoff].
    cbn [snd]. rewrite (gnu_count f' off N).
    + reflexivity.
    + rewrite Hi. exact Hbytes.
    + clear - Hoff Hpos. lia.
    + rewrite Hle, H64, (ctx_seekz' off Hoff). exact Hhash.
  - rewrite (ctx_no_offset' DT_GNU_HASH "DT_GNU_HASH" ltac:(cbn; tauto) Eg). cbn [snd bind].
    destruct (first_val DT_HASH (di_entries d)) as [hp|] eqn:Eh; [|discriminate].
    destruct (ptr_ok (f_is64 f) img ps hp 8) as [off|] eqn:Ep; [|discriminate].
    destruct (ctx_offset' DT_HASH "DT_HASH" hp 8 off ltac:(cbn; tauto) Eh Ep) as [-> Hoff].
    cbn [snd]. rewrite (sysv_count f' off N); [reflexivity|].
    assert (Hm : e_machine (f_eh f') = e_machine (f_eh f)) by (dC C; assumption).
    assert (Eeh : f_eh f = di_eh d) by (dC C; assumption).
    rewrite Hle, H64, Hm, Eeh, (ctx_seekz' off Hoff). exact Hhash.
Qed.

(* one symbol, by index *)
Definition sym_at (g : elf) (i : Z) : res symbol :=
  do r <- parse_at (gen_Elf_Sym (f_le g) (f_is64 g)) (f_img g) (symoff + i * sym_size (f_is64 g));
  Ok (r, cstring_or_empty (f_img g) (stroff + rec_z r "st_name")).

Lemma ctx_symoff : ehdr_size (f_is64 f) <= symoff.
Proof. destruct (ptr_ok_inv _ _ _ _ _ _ Htpok) as [_ [_ [_ [H _]]]]. exact H. Qed.

Lemma ctx_get_symbol' i : get_symbol f' ps ts dy' i = sym_at f' i.
Proof.
  unfold get_symbol, sym_at.
  destruct (ctx_offset' DT_SYMTAB "DT_SYMTAB" tp _ _ ltac:(cbn; tauto) Htp Htpok) as [-> _].
  unfold Sym_sizeof. fold symoff.
  destruct (parse_at _ _ _) as [r|]; [|reflexivity]. cbn [bind].
  unfold dy', ps, ts. rewrite (ctx_st_pointed _ _ _ _ _ _ C f' (ctx_dtab_eq _ _ _ _ _ _ C) ctx_load'). cbn [bind get_string]. reflexivity.
Qed.

Lemma cstring_same_behind k (a b : list Z) pos : same_behind k a b -> 0 <= k <= pos ->
  cstring_or_empty a pos = cstring_or_empty b pos.
Proof.
  intros Hs Hk. unfold cstring_or_empty. rewrite (same_behind_seekz k a b pos Hs Hk).
  destruct Hs as [Hl _]. rewrite Hl. reflexivity.
Qed.

Lemma ctx_sym_at i : (i < Z.to_nat N)%nat -> sym_at f' (Z.of_nat i) = sym_at f (Z.of_nat i).
Proof.
  intros Hi. pose proof ctx_symoff as Hso. unfold sym_at.
  assert (Hcfg : f_le f' = f_le f /\ f_is64 f' = f_is64 f /\ f_img f' = img' /\ f_img f = img /\
                 0 < ehdr_size (f_is64 f) /\ same_behind (ehdr_size (f_is64 f)) img img' /\
                 ehdr_size (f_is64 f) <= stroff).
  { dC C. split; [|split; [|split; [|split; [|split; [|split]]]]]; assumption. }
  destruct Hcfg as [Hle [H64 [Hi' [Himg [Hpos [Hsame Hstr]]]]]]. rewrite Hle, H64, Hi', Himg.
  assert (Hsz : 0 < sym_size (f_is64 f)) by (destruct (f_is64 f); cbn; lia).
  rewrite <- (parse_at_same_behind _ _ _ _ _ Hsame) by nia.
  unfold read_syms in Hrs. destruct (read_recs_nth _ _ _ _ _ _ Hrs) as [Hl Hnth].
  destruct (Hnth i Hi) as [t Ht]. unfold parse_at. rewrite gen_Elf_Sym_gabi. fold symoff in Ht. rewrite Ht.
  cbn [bind]. f_equal. f_equal. symmetry.
  rewrite forallb_forall in Hnames.
  assert (Hin : In (nth i rs []) rs) by (apply nth_In; lia). specialize (Hnames _ Hin).
  assert (Hn0 : 0 <= rec_z (nth i rs []) "st_name").
  { unfold str_at in Hnames. destruct (0 <=? rec_z (nth i rs []) "st_name") eqn:E; [lia|discriminate]. }
  apply (cstring_same_behind _ _ _ _ Hsame). lia.
Qed.

Lemma ctx_symbols_go : forall n i, (i + n <= Z.to_nat N)%nat ->
  symbols_go f' ps ts dy' (Z.of_nat i) n = section_symbols_go f ds st2 (Z.of_nat i) n.
Proof.
  induction n as [|n IH]; intros i Hi; [reflexivity|]. cbn [symbols_go section_symbols_go].
  rewrite ctx_get_symbol', (ctx_sym_at i) by lia. unfold sym_at. rewrite Hent, Hst2off. fold symoff stroff.
  destruct (parse_at _ _ _) as [r|]; [|reflexivity]. cbn [bind].
  replace (Z.of_nat i + 1) with (Z.of_nat (S i)) by lia. rewrite IH by lia. reflexivity.
Qed.

Lemma ctx_view_symbols' : view_symbols f' dy' = section_symbols f ds.
Proof.
  unfold view_symbols, dy'. rewrite (ctx_raw_seg' _ _ _ _ _ _ C), (ctx_iter_segments' _ _ _ _ _ _ C). cbn [bind].
  unfold iter_symbols. fold ps ts dy'. rewrite ctx_num_symbols'. cbn [bind].
  unfold section_symbols.
  assert (Hh : section_header f (sh_link ds) = Ok st2) by (dC C; apply c_shdr_nth0; exact Hst2).
  rewrite Hh. cbn [bind].
  assert (Hs : sht_is f st2 "SHT_STRTAB" = true).
  { dC C. rewrite (sht_is_num f c_sht0 st2 SHT_STRTAB "SHT_STRTAB") by (cbn; tauto). rewrite Hst2ty. reflexivity. }
  rewrite Hs. cbn [negb]. rewrite Hent, Hmod.
  assert (Hsz : 0 < sym_size (f_is64 f)) by (destruct (f_is64 f); cbn; lia).
  replace (0 <? sym_size (f_is64 f)) with true by lia. cbn [negb Z.eqb]. fold N.
  assert (Hcl : clampn (f_img f') N = clampn (f_img f) N).
  { dC C. unfold clampn, zlen. rewrite c_img0, c_img'0. destruct c_same0 as [-> _]. reflexivity. }
  rewrite Hcl. apply (ctx_symbols_go _ 0%nat). unfold clampn. lia.
Qed.
End with_ctx.

Theorem views_agree_symbols img img' :
  sym_consistent_b img = true -> stripped_of_b img img' = true -> all_bytes img' = true ->
  segment_symbols img' = section_symbols_view img.
Proof.
  intros Hc Hst Hb. assert (Hcb : consistent_b img = true) by (unfold sym_consistent_b in Hc; apply andb_prop in Hc; tauto).
  destruct (describe img) as [d|] eqn:Hd; [|unfold consistent_b in Hcb; rewrite Hd in Hcb; discriminate].
  destruct (sym_consistent_inv _ _ Hd Hc) as [_ [ds [st2 [tp [rs [Hds [Hent [Hmod [Hst2 [Hty [Hoff [Htp [Hok [Hrs [Hnm Hh]]]]]]]]]]]]]]].
  destruct (consistent_ctx _ _ _ Hd Hcb Hst) as [f [f' [sp C]]].
  pose proof (c_64 _ _ _ _ _ _ C) as E64. pose proof (c_le _ _ _ _ _ _ C) as Ele. rewrite <- E64 in *. rewrite <- Ele in *.
  unfold segment_symbols, section_symbols_view. rewrite (c_open _ _ _ _ _ _ C), (c_open' _ _ _ _ _ _ C). cbn [bind].
  rewrite (ctx_dy_seg' _ _ _ _ _ _ C), (c_ss _ _ _ _ _ _ C). cbn [bind].
  assert (Hf : filter (fun s => sht_is f s "SHT_DYNSYM") (di_shdrs d) = filter (fun s => sh_type s =? SHT_DYNSYM) (di_shdrs d)).
  { apply filter_ext. intros s. apply (sht_is_num f (c_sht _ _ _ _ _ _ C)). cbn; tauto. }
  rewrite Hf. destruct (first_where_filter _ _ _ Hds) as [r ->]. cbn [first_res bind].
  apply (ctx_view_symbols' _ _ _ _ _ _ C ds st2 tp rs); assumption.
Qed.
