(* Proofs/C13Aranges.v — .debug_aranges: round trip of the set parser and the
   address lookup (stable sort + halving bisect + Python index -1). *)
From PV Require Import Base.PyData Base.Prim Spec.PrimSpec Spec.C13Spec Proofs.PrimProofs
     Model.C13Aranges.
From Coq Require Import ZArith List Bool Lia ZifyBool Permutation.
Import ListNotations.
Open Scope Z_scope.
Ltac Zify.zify_post_hook ::= Z.to_euclidean_division_equations.

(* ------------------------------------------------------------------ small helpers *)
Lemma u_ok_range n v : u_ok n v = true -> 0 <= v < 2 ^ (8 * Z.of_nat n).
Proof. unfold u_ok. lia. Qed.

Lemma skipn_zlen_app {A} (pre x : list A) off :
  zlen pre = off -> skipn (Z.to_nat off) (pre ++ x) = x.
Proof.
  intros <-. unfold zlen. rewrite Nat2Z.id, skipn_app, skipn_all, Nat.sub_diag. reflexivity.
Qed.

Lemma zlen_int_encode le n v : zlen (int_encode le n v) = Z.of_nat n.
Proof. unfold zlen. rewrite int_encode_length. reflexivity. Qed.

Lemma zlen_nil {A} : zlen (@nil A) = 0.
Proof. reflexivity. Qed.

Lemma zlen_encode_tuple le n t : zlen (encode_tuple le n t) = 2 * Z.of_nat n.
Proof. unfold encode_tuple. rewrite zlen_app, !zlen_int_encode. lia. Qed.

Lemma zlen_concat_tuples le n ts :
  zlen (concat (map (encode_tuple le n) ts)) = 2 * Z.of_nat n * zlen ts.
Proof.
  induction ts as [|t r IH]; cbn [map concat]; [unfold zlen; cbn [length]; lia|].
  rewrite zlen_app, zlen_cons, zlen_encode_tuple, IH. lia.
Qed.

(* ------------------------------------------------------------------ header *)
Lemma aranges_header_decode_valid le ul v io asz seg rest :
  0 <= ul < 0xfffffff0 -> u_ok 2 v = true -> u_ok 4 io = true ->
  u_ok 1 asz = true -> u_ok 1 seg = true ->
  aranges_header_decode le
    (int_encode le 4 ul ++ int_encode le 2 v ++ int_encode le 4 io ++
     int_encode le 1 asz ++ int_encode le 1 seg ++ rest) =
  Some (mk_aranges_header ul v io asz seg, rest).
Proof.
  intros Hul Hv Hio Ha Hs. unfold aranges_header_decode.
  change (int_encode le 4 ul) with (initial_length_encode le ul false).
  rewrite initial_length_valid by (unfold initial_length_wf; lia).
  rewrite uint_decode_valid by (apply u_ok_range; exact Hv).
  rewrite uint_decode_valid by (apply u_ok_range; exact Hio).
  rewrite uint_decode_valid by (apply u_ok_range; exact Ha).
  rewrite uint_decode_valid by (apply u_ok_range; exact Hs).
  reflexivity.
Qed.

(* ------------------------------------------------------------------ tuples *)
Lemma tuple_decode le n a l rest :
  u_ok n a = true -> u_ok n l = true ->
  uint_decode le n (encode_tuple le n (a, l) ++ rest) = Some (a, int_encode le n l ++ rest) /\
  uint_decode le n (int_encode le n l ++ rest) = Some (l, rest).
Proof.
  intros Ha Hl. unfold encode_tuple. cbn [fst snd]. rewrite <- app_assoc.
  split; apply uint_decode_valid; apply u_ok_range; auto.
Qed.

Lemma tuple_ok_facts n a l : tuple_ok n (a, l) = true ->
  u_ok n a = true /\ u_ok n l = true /\ negb (a =? 0) || negb (l =? 0) = true.
Proof.
  unfold tuple_ok. cbn [fst snd]. intros H.
  apply andb_prop in H. destruct H as [H Hn]. apply andb_prop in H. destruct H as [Ha Hl].
  repeat split; auto. rewrite negb_andb in Hn. exact Hn.
Qed.

Lemma u_ok_0 n : u_ok n 0 = true.
Proof. unfold u_ok. pose proof (pow256_pos n). lia. Qed.

Lemma tuples_loop_null fuel le n need got bs :
  need = false -> tuples_loop (S fuel) le n need 0 0 got bs = Ok [].
Proof. intros ->. cbn [tuples_loop]. rewrite andb_false_r. reflexivity. Qed.

Lemma tuples_loop_valid le n tail : forall ts a l got fuel,
  tuple_ok n (a, l) = true -> forallb (tuple_ok n) ts = true ->
  (length ts + 2 <= fuel)%nat ->
  tuples_loop fuel le n false a l got
    (concat (map (encode_tuple le n) ts) ++ encode_tuple le n (0, 0) ++ tail) = Ok ((a, l) :: ts).
Proof.
  induction ts as [|t r IH]; intros a l got fuel Hal Hts Hf.
  - destruct fuel as [|f]; cbn [length] in Hf; [lia|].
    cbn [tuples_loop map concat app].
    destruct (tuple_ok_facts n a l Hal) as (_ & _ & Hnn).
    rewrite Hnn. cbn [orb].
    destruct (tuple_decode le n 0 0 tail (u_ok_0 n) (u_ok_0 n)) as [E1 E2].
    rewrite E1, E2. destruct f as [|f']; [lia|].
    rewrite tuples_loop_null by reflexivity. reflexivity.
  - destruct fuel as [|f]; cbn [length] in Hf; [lia|].
    cbn [forallb] in Hts. apply andb_prop in Hts. destruct Hts as [Ht Hr].
    destruct t as [a' l'].
    cbn [tuples_loop map concat].
    destruct (tuple_ok_facts n a l Hal) as (_ & _ & Hnn).
    rewrite Hnn. cbn [orb]. rewrite <- app_assoc.
    destruct (tuple_ok_facts n a' l' Ht) as (Ha' & Hl' & _).
    destruct (tuple_decode le n a' l'
                (concat (map (encode_tuple le n) r) ++ encode_tuple le n (0, 0) ++ tail) Ha' Hl') as [E1 E2].
    rewrite E1, E2. rewrite IH; auto. lia.
Qed.

(* the first pair is read before the loop *)
Lemma read_tuples_valid le n ts tail :
  (0 < n)%nat -> forallb (tuple_ok n) ts = true ->
  let bs := concat (map (encode_tuple le n) ts) ++ encode_tuple le n (0, 0) ++ tail in
  match uint_decode le n bs with
  | None => Err EParse
  | Some (addr, r1) =>
      match uint_decode le n r1 with
      | None => Err EParse
      | Some (length, r2) =>
          tuples_loop (S (S (List.length r2))) le n false addr length false r2
      end
  end = Ok ts.
Proof.
  intros Hn Hts bs. subst bs. destruct ts as [|[a l] r].
  - cbn [map concat app].
    destruct (tuple_decode le n 0 0 tail (u_ok_0 n) (u_ok_0 n)) as [E1 E2].
    rewrite E1, E2. apply tuples_loop_null. reflexivity.
  - cbn [forallb] in Hts. apply andb_prop in Hts. destruct Hts as [Ht Hr].
    cbn [map concat]. rewrite <- app_assoc.
    destruct (tuple_ok_facts n a l Ht) as (Ha & Hl & _).
    destruct (tuple_decode le n a l
                (concat (map (encode_tuple le n) r) ++ encode_tuple le n (0, 0) ++ tail) Ha Hl) as [E1 E2].
    rewrite E1, E2. apply tuples_loop_valid; auto.
    assert (Hlen : zlen r <= zlen (concat (map (encode_tuple le n) r) ++ encode_tuple le n (0, 0) ++ tail)).
    { rewrite zlen_app, zlen_concat_tuples. pose proof (zlen_nonneg (encode_tuple le n (0, 0) ++ tail)).
      pose proof (zlen_nonneg r). nia. }
    unfold zlen in Hlen. lia.
Qed.

(* ------------------------------------------------------------------ one set *)
Lemma wf_arange_set_facts st : wf_arange_set st = true ->
  (as_addr_size st = 4 \/ as_addr_size st = 8) /\ u_ok 2 (as_version st) = true /\
  u_ok 4 (as_info_offset st) = true /\ zlen (as_pad st) = 4 /\
  forallb (tuple_ok (as_n st)) (as_tuples st) = true /\ 0 <= as_unit_length st < 0xfffffff0.
Proof.
  unfold wf_arange_set. intros H.
  repeat (apply andb_prop in H; destruct H as [H ?]).
  assert (Ha : as_addr_size st = 4 \/ as_addr_size st = 8) by lia.
  repeat split; auto; try lia.
  - unfold as_pad_len, as_tuple_size, ARANGES_HDR_LEN in *. destruct Ha as [Ha|Ha]; rewrite Ha in *; lia.
  - unfold as_unit_length, as_tuple_size.
    pose proof (zlen_nonneg (as_pad st)). pose proof (zlen_nonneg (as_tuples st)).
    pose proof (zlen_nonneg (as_trail st)). nia.
Qed.

Lemma as_n_of st : (as_addr_size st = 4 \/ as_addr_size st = 8) -> Z.of_nat (as_n st) = as_addr_size st.
Proof. unfold as_n. lia. Qed.

Lemma as_body_length le st : (as_addr_size st = 4 \/ as_addr_size st = 8) ->
  zlen (as_body le st) = as_unit_length st.
Proof.
  intros Ha. unfold as_body, as_unit_length, as_tuple_size.
  rewrite !zlen_app, !zlen_int_encode, zlen_concat_tuples, zlen_encode_tuple, (as_n_of st Ha).
  lia.
Qed.

Definition set_header (st : arange_set) : aranges_header :=
  mk_aranges_header (as_unit_length st) (as_version st) (as_info_offset st) (as_addr_size st) 0.

Lemma set_entries_mk st : map (mk_entry (set_header st)) (as_tuples st) = set_entries st.
Proof. reflexivity. Qed.

Lemma zlen_encode_arange_set le st : (as_addr_size st = 4 \/ as_addr_size st = 8) ->
  zlen (encode_arange_set le st) = 4 + as_unit_length st.
Proof.
  intros Ha. unfold encode_arange_set. rewrite zlen_app, zlen_int_encode, as_body_length by exact Ha. lia.
Qed.

Lemma get_entries_step le st pre post f size :
  wf_arange_set st = true -> zlen pre < size ->
  get_entries_loop (S f) le false (pre ++ encode_arange_set le st ++ post) size (zlen pre) =
  (do more <- get_entries_loop f le false (pre ++ encode_arange_set le st ++ post) size
                (zlen pre + zlen (encode_arange_set le st));
   Ok (set_entries st ++ more)).
Proof.
  intros Hwf Hsz.
  destruct (wf_arange_set_facts st Hwf) as (Ha & Hv & Hio & Hpad & Hts & Hul).
  pose proof (as_n_of st Ha) as Hn.
  rewrite zlen_encode_arange_set by exact Ha.
  set (TB := concat (map (encode_tuple le (as_n st)) (as_tuples st))).
  set (after := as_pad st ++ TB ++ encode_tuple le (as_n st) (0, 0) ++ as_trail st ++ post).
  set (H12 := fun rest => int_encode le 4 (as_unit_length st) ++ int_encode le 2 (as_version st) ++
           int_encode le 4 (as_info_offset st) ++ int_encode le 1 (as_addr_size st) ++
           int_encode le 1 0 ++ rest).
  assert (Henc : encode_arange_set le st ++ post = H12 after).
  { unfold encode_arange_set. rewrite as_body_length by exact Ha.
    unfold as_body, H12, after, TB. rewrite <- !app_assoc. reflexivity. }
  assert (Hs1 : skipn (Z.to_nat (zlen pre)) (pre ++ encode_arange_set le st ++ post) = H12 after).
  { rewrite skipn_zlen_app by reflexivity. exact Henc. }
  assert (Hs2 : skipn (Z.to_nat (zlen pre + 16)) (pre ++ encode_arange_set le st ++ post) =
                TB ++ encode_tuple le (as_n st) (0, 0) ++ as_trail st ++ post).
  { rewrite Henc. unfold H12, after.
    replace (pre ++ int_encode le 4 (as_unit_length st) ++ int_encode le 2 (as_version st) ++
             int_encode le 4 (as_info_offset st) ++ int_encode le 1 (as_addr_size st) ++
             int_encode le 1 0 ++ as_pad st ++ TB ++ encode_tuple le (as_n st) (0, 0) ++ as_trail st ++ post)
      with ((pre ++ int_encode le 4 (as_unit_length st) ++ int_encode le 2 (as_version st) ++
             int_encode le 4 (as_info_offset st) ++ int_encode le 1 (as_addr_size st) ++
             int_encode le 1 0 ++ as_pad st) ++
            TB ++ encode_tuple le (as_n st) (0, 0) ++ as_trail st ++ post)
      by (rewrite <- !app_assoc; reflexivity).
    apply skipn_zlen_app. rewrite !zlen_app, !zlen_int_encode, Hpad. lia. }
  assert (Hlen12 : zlen (H12 after) - zlen after = 12).
  { unfold H12. rewrite !zlen_app, !zlen_int_encode. lia. }
  cbn [get_entries_loop].
  destruct (Z.ltb_spec (zlen pre) size) as [_|]; [|lia].
  rewrite Hs1. unfold H12 at 1.
  rewrite aranges_header_decode_valid; auto.
  2:{ unfold u_ok. destruct Ha as [-> | ->]; reflexivity. }
  cbn [ah_address_size ah_segment_size ah_unit_length bind].
  assert (Hgs : get_addr_size_struct (as_addr_size st) = Ok (as_n st)).
  { unfold get_addr_size_struct, as_n. destruct Ha as [-> | ->]; reflexivity. }
  rewrite Hgs. cbn [bind]. rewrite Z.eqb_refl.
  (* stream.tell() - offset = 12, and the first tuple is at offset + 16 wherever the set starts *)
  rewrite Hlen12.
  replace (zlen pre + - (- (zlen pre + 12 - zlen pre) / (as_addr_size st * 2)) * (as_addr_size st * 2))
    with (zlen pre + 16).
  2:{ replace (zlen pre + 12 - zlen pre) with 12 by lia. destruct Ha as [Ha|Ha]; rewrite Ha; reflexivity. }
  rewrite Hs2.
  pose proof (read_tuples_valid le (as_n st) (as_tuples st) (as_trail st ++ post)) as Hrt.
  cbv zeta in Hrt. fold TB in Hrt.
  destruct (uint_decode le (as_n st) (TB ++ encode_tuple le (as_n st) (0, 0) ++ as_trail st ++ post))
    as [[addr r1]|]; [|specialize (Hrt ltac:(lia) Hts); discriminate].
  destruct (uint_decode le (as_n st) r1) as [[len r2]|]; [|specialize (Hrt ltac:(lia) Hts); discriminate].
  rewrite Hrt by (auto; lia). cbn [bind].
  replace (zlen pre + as_unit_length st + 4) with (zlen pre + (4 + as_unit_length st)) by lia.
  fold (set_header st). rewrite set_entries_mk. reflexivity.
Qed.

Lemma get_entries_loop_valid le : forall sets pre fuel,
  forallb wf_arange_set sets = true -> (length sets < fuel)%nat ->
  get_entries_loop fuel le false (pre ++ encode_aranges le sets)
    (zlen pre + zlen (encode_aranges le sets)) (zlen pre) = Ok (aranges_entries sets).
Proof.
  induction sets as [|st r IH]; intros pre fuel Hwf Hf.
  - destruct fuel as [|f]; [cbn in Hf; lia|]. cbn [get_entries_loop].
    unfold encode_aranges. cbn [map concat]. rewrite zlen_nil, Z.add_0_r, Z.ltb_irrefl. reflexivity.
  - destruct fuel as [|f]; [cbn in Hf; lia|]. cbn [length] in Hf.
    cbn [forallb] in Hwf. apply andb_prop in Hwf. destruct Hwf as [Hst Hr].
    destruct (wf_arange_set_facts st Hst) as (Ha & _ & _ & _ & _ & Hul).
    unfold encode_aranges. cbn [map concat]. fold (encode_aranges le r).
    rewrite get_entries_step; auto.
    2:{ rewrite zlen_app, zlen_encode_arange_set by exact Ha. pose proof (zlen_nonneg (encode_aranges le r)). lia. }
    replace (pre ++ encode_arange_set le st ++ encode_aranges le r)
      with ((pre ++ encode_arange_set le st) ++ encode_aranges le r) by (rewrite <- app_assoc; reflexivity).
    replace (zlen pre + zlen (encode_arange_set le st ++ encode_aranges le r))
      with (zlen (pre ++ encode_arange_set le st) + zlen (encode_aranges le r))
      by (rewrite !zlen_app; lia).
    replace (zlen pre + zlen (encode_arange_set le st)) with (zlen (pre ++ encode_arange_set le st))
      by (rewrite zlen_app; reflexivity).
    rewrite IH; [reflexivity | exact Hr | lia].
Qed.

Lemma encode_aranges_length_ge le : forall sets,
  forallb wf_arange_set sets = true -> zlen sets <= zlen (encode_aranges le sets).
Proof.
  induction sets as [|st r IH]; intros Hwf; [unfold encode_aranges; cbn; lia|].
  cbn [forallb] in Hwf. apply andb_prop in Hwf. destruct Hwf as [Hst Hr].
  destruct (wf_arange_set_facts st Hst) as (Ha & _ & _ & _ & _ & Hul).
  unfold encode_aranges. cbn [map concat]. fold (encode_aranges le r).
  rewrite zlen_app, zlen_cons, zlen_encode_arange_set by exact Ha.
  specialize (IH Hr). lia.
Qed.

(* every tuple of every set, with its set header, in encoded order *)
Theorem aranges_entries_exact le sets : wf_aranges sets = true ->
  get_entries le false (encode_aranges le sets) (zlen (encode_aranges le sets)) =
  Ok (aranges_entries sets).
Proof.
  intros Hwf. unfold get_entries.
  pose proof (get_entries_loop_valid le sets [] (S (Z.to_nat (zlen (encode_aranges le sets))))) as H.
  cbn [app] in H. rewrite zlen_nil, Z.add_0_l in H. apply H; [exact Hwf|].
  pose proof (encode_aranges_length_ge le sets Hwf) as Hl. unfold zlen in *. lia.
Qed.

Theorem aranges_init_exact le sets : wf_aranges sets = true ->
  aranges_init le (encode_aranges le sets) (zlen (encode_aranges le sets)) =
  Ok (mk_aranges (sorted_by ae_begin (aranges_entries sets))
                 (map ae_begin (sorted_by ae_begin (aranges_entries sets)))).
Proof.
  intros Hwf. unfold aranges_init. rewrite aranges_entries_exact by exact Hwf. reflexivity.
Qed.

(* ------------------------------------------------------------------ the code before fix efe8bbe *)
Lemma get_entries_step_unfixed le st pre post f size :
  wf_arange_set st = true -> zlen pre mod as_tuple_size st = 0 -> zlen pre < size ->
  get_entries_loop_unfixed (S f) le false (pre ++ encode_arange_set le st ++ post) size (zlen pre) =
  (do more <- get_entries_loop_unfixed f le false (pre ++ encode_arange_set le st ++ post) size
                (zlen pre + zlen (encode_arange_set le st));
   Ok (set_entries st ++ more)).
Proof.
  intros Hwf Hal Hsz.
  destruct (wf_arange_set_facts st Hwf) as (Ha & Hv & Hio & Hpad & Hts & Hul).
  pose proof (as_n_of st Ha) as Hn.
  rewrite zlen_encode_arange_set by exact Ha.
  set (TB := concat (map (encode_tuple le (as_n st)) (as_tuples st))).
  set (after := as_pad st ++ TB ++ encode_tuple le (as_n st) (0, 0) ++ as_trail st ++ post).
  set (H12 := fun rest => int_encode le 4 (as_unit_length st) ++ int_encode le 2 (as_version st) ++
           int_encode le 4 (as_info_offset st) ++ int_encode le 1 (as_addr_size st) ++
           int_encode le 1 0 ++ rest).
  assert (Henc : encode_arange_set le st ++ post = H12 after).
  { unfold encode_arange_set. rewrite as_body_length by exact Ha.
    unfold as_body, H12, after, TB. rewrite <- !app_assoc. reflexivity. }
  assert (Hs1 : skipn (Z.to_nat (zlen pre)) (pre ++ encode_arange_set le st ++ post) = H12 after).
  { rewrite skipn_zlen_app by reflexivity. exact Henc. }
  assert (Hs2 : skipn (Z.to_nat (zlen pre + 16)) (pre ++ encode_arange_set le st ++ post) =
                TB ++ encode_tuple le (as_n st) (0, 0) ++ as_trail st ++ post).
  { rewrite Henc. unfold H12, after.
    replace (pre ++ int_encode le 4 (as_unit_length st) ++ int_encode le 2 (as_version st) ++
             int_encode le 4 (as_info_offset st) ++ int_encode le 1 (as_addr_size st) ++
             int_encode le 1 0 ++ as_pad st ++ TB ++ encode_tuple le (as_n st) (0, 0) ++ as_trail st ++ post)
      with ((pre ++ int_encode le 4 (as_unit_length st) ++ int_encode le 2 (as_version st) ++
             int_encode le 4 (as_info_offset st) ++ int_encode le 1 (as_addr_size st) ++
             int_encode le 1 0 ++ as_pad st) ++
            TB ++ encode_tuple le (as_n st) (0, 0) ++ as_trail st ++ post)
      by (rewrite <- !app_assoc; reflexivity).
    apply skipn_zlen_app. rewrite !zlen_app, !zlen_int_encode, Hpad. lia. }
  assert (Hlen12 : zlen (H12 after) - zlen after = 12).
  { unfold H12. rewrite !zlen_app, !zlen_int_encode. lia. }
  cbn [get_entries_loop_unfixed].
  destruct (Z.ltb_spec (zlen pre) size) as [_|]; [|lia].
  rewrite Hs1. unfold H12 at 1.
  rewrite aranges_header_decode_valid; auto.
  2:{ unfold u_ok. destruct Ha as [-> | ->]; reflexivity. }
  cbn [ah_address_size ah_segment_size ah_unit_length bind].
  assert (Hgs : get_addr_size_struct (as_addr_size st) = Ok (as_n st)).
  { unfold get_addr_size_struct, as_n. destruct Ha as [-> | ->]; reflexivity. }
  rewrite Hgs. cbn [bind]. rewrite Z.eqb_refl.
  (* stream.tell() = offset + 12, and the first tuple is at offset + 16 *)
  rewrite Hlen12.
  replace (((zlen pre + 12 + as_addr_size st * 2 - 1) / (as_addr_size st * 2)) * (as_addr_size st * 2))
    with (zlen pre + 16).
  2:{ unfold as_tuple_size in Hal. destruct Ha as [Ha|Ha]; rewrite Ha in *; lia. }
  rewrite Hs2.
  pose proof (read_tuples_valid le (as_n st) (as_tuples st) (as_trail st ++ post)) as Hrt.
  cbv zeta in Hrt. fold TB in Hrt.
  destruct (uint_decode le (as_n st) (TB ++ encode_tuple le (as_n st) (0, 0) ++ as_trail st ++ post))
    as [[addr r1]|]; [|specialize (Hrt ltac:(lia) Hts); discriminate].
  destruct (uint_decode le (as_n st) r1) as [[len r2]|]; [|specialize (Hrt ltac:(lia) Hts); discriminate].
  rewrite Hrt by (auto; lia). cbn [bind].
  replace (zlen pre + as_unit_length st + 4) with (zlen pre + (4 + as_unit_length st)) by lia.
  fold (set_header st). rewrite set_entries_mk. reflexivity.
Qed.

Lemma get_entries_loop_unfixed_valid le : forall sets pre fuel,
  forallb wf_arange_set sets = true -> aranges_aligned_from (zlen pre) sets = true ->
  (length sets < fuel)%nat ->
  get_entries_loop_unfixed fuel le false (pre ++ encode_aranges le sets)
    (zlen pre + zlen (encode_aranges le sets)) (zlen pre) = Ok (aranges_entries sets).
Proof.
  induction sets as [|st r IH]; intros pre fuel Hwf Halg Hf.
  - destruct fuel as [|f]; [cbn in Hf; lia|]. cbn [get_entries_loop_unfixed].
    unfold encode_aranges. cbn [map concat]. rewrite zlen_nil, Z.add_0_r, Z.ltb_irrefl. reflexivity.
  - destruct fuel as [|f]; [cbn in Hf; lia|]. cbn [length] in Hf.
    cbn [forallb] in Hwf. apply andb_prop in Hwf. destruct Hwf as [Hst Hr].
    cbn [aranges_aligned_from] in Halg. apply andb_prop in Halg. destruct Halg as [Hal Halr].
    apply Z.eqb_eq in Hal.
    destruct (wf_arange_set_facts st Hst) as (Ha & _ & _ & _ & _ & Hul).
    unfold encode_aranges. cbn [map concat]. fold (encode_aranges le r).
    rewrite get_entries_step_unfixed; auto.
    2:{ rewrite zlen_app, zlen_encode_arange_set by exact Ha. pose proof (zlen_nonneg (encode_aranges le r)). lia. }
    replace (pre ++ encode_arange_set le st ++ encode_aranges le r)
      with ((pre ++ encode_arange_set le st) ++ encode_aranges le r) by (rewrite <- app_assoc; reflexivity).
    replace (zlen pre + zlen (encode_arange_set le st ++ encode_aranges le r))
      with (zlen (pre ++ encode_arange_set le st) + zlen (encode_aranges le r))
      by (rewrite !zlen_app; lia).
    replace (zlen pre + zlen (encode_arange_set le st)) with (zlen (pre ++ encode_arange_set le st))
      by (rewrite zlen_app; reflexivity).
    rewrite IH; [reflexivity | exact Hr | | lia].
    rewrite zlen_app, zlen_encode_arange_set by exact Ha.
    replace (zlen pre + (4 + as_unit_length st)) with (zlen pre + 4 + as_unit_length st) by lia.
    exact Halr.
Qed.

(* where every set starts at a multiple of its tuple size (the domain the theorem had before
   the repair) the old section-relative padding and the repaired code read the same table *)
Theorem aranges_unfixed_agrees_aligned le sets :
  wf_aranges sets = true -> aranges_aligned sets = true ->
  get_entries_unfixed le false (encode_aranges le sets) (zlen (encode_aranges le sets)) =
  get_entries le false (encode_aranges le sets) (zlen (encode_aranges le sets)).
Proof.
  intros Hwf Hal. rewrite aranges_entries_exact by exact Hwf. unfold get_entries_unfixed.
  pose proof (get_entries_loop_unfixed_valid le sets [] (S (Z.to_nat (zlen (encode_aranges le sets))))) as H.
  cbn [app] in H. rewrite zlen_nil, Z.add_0_l in H. apply H; [exact Hwf | exact Hal |].
  pose proof (encode_aranges_length_ge le sets Hwf) as Hl. unfold zlen in *. lia.
Qed.

(* the deviation of the code as found: an 8-byte-address set that follows a 24-byte
   4-byte-address set starts at offset 24, not a multiple of 16; its first tuple is at 24+16 = 40,
   the old code looked for it at ceil(36/16)*16 = 48, took the terminator for the first pair and
   ran off the end of the section: ELFParseError, where readelf and llvm-dwarfdump print the range *)
Theorem aranges_section_padding_refuted :
  exists sets, wf_aranges sets = true /\ ranges_disjoint (aranges_entries sets) = true /\
    aranges_entries sets = [mk_arange_entry 0x1000 0x10 0x40 44 2 8 0] /\
    get_entries_unfixed true false (encode_aranges true sets) (zlen (encode_aranges true sets)) = Err EParse.
Proof.
  exists [mk_arange_set 2 0 4 [0; 0; 0; 0] [] []; mk_arange_set 2 0x40 8 [0; 0; 0; 0] [(0x1000, 0x10)] []].
  vm_compute. repeat split; reflexivity.
Qed.

(* ------------------------------------------------------------------ lookup *)
Lemma cu_offset_empty t a : ar_entries t = [] -> cu_offset_at_addr t a = Ok None.
Proof. intros E. unfold cu_offset_at_addr. rewrite E. reflexivity. Qed.

Lemma cu_offset_nonempty t a : ar_entries t <> [] ->
  cu_offset_at_addr t a = cu_offset_at_addr_unfixed t a.
Proof.
  intros E. unfold cu_offset_at_addr, cu_offset_at_addr_unfixed.
  destruct (ar_entries t); [contradiction|reflexivity].
Qed.

Lemma nth_error_split {A} : forall (l : list A) i x,
  nth_error l i = Some x -> l = firstn i l ++ x :: skipn (S i) l.
Proof.
  induction l as [|h l IH]; intros [|i] x H; cbn in H; try discriminate.
  - inversion H. reflexivity.
  - cbn [firstn skipn app]. f_equal. apply IH. exact H.
Qed.

Lemma ranges_conflict_sym x y : negb (ranges_conflict x y) = negb (ranges_conflict y x).
Proof. unfold ranges_conflict. rewrite orb_comm. reflexivity. Qed.

Lemma lookup_sorted L a : sorted (map ae_begin L) -> ranges_disjoint L = true ->
  exists r, cu_offset_at_addr (mk_aranges L (map ae_begin L)) a = Ok r /\
    forall o, r = Some o <-> exists e, In e L /\ ae_contains e a = true /\ ae_info_offset e = o.
Proof.
  intros Hsorted Hd.
  destruct L as [|s0 S0] eqn:ES.
  { exists None. split; [reflexivity|]. intros o. split; [discriminate|]. intros (e & [] & _). }
  rewrite <- ES in *. assert (HS : L <> []) by (rewrite ES; discriminate). clear ES s0 S0.
  rewrite cu_offset_nonempty by exact HS.
  unfold cu_offset_at_addr_unfixed. cbn [ar_entries ar_keys].
  rewrite bisect_right_count by exact Hsorted.
  destruct (count_le_split a (map ae_begin L) Hsorted) as [Hlow Hhigh].
  pose proof (count_le_bound a (map ae_begin L)) as Hcb. rewrite map_length in Hcb.
  set (c := count_le a (map ae_begin L)) in *.
  rewrite firstn_map in Hlow. rewrite skipn_map in Hhigh.
  assert (HlowS : forall e, In e (firstn c L) -> ae_begin e <= a).
  { intros e He. apply Hlow. apply in_map. exact He. }
  assert (HhighS : forall e, In e (skipn c L) -> a < ae_begin e).
  { intros e He. apply Hhigh. apply in_map. exact He. }
  destruct c as [|c'] eqn:Ec.
  - (* no key <= a: index -1 wraps to the last entry, whose begin is > a *)
    destruct (exists_last HS) as (L' & lst & E).
    change (Z.of_nat 0 - 1) with (-1). cbn [skipn] in HhighS. subst L.
    rewrite py_index_minus1. cbn [bind].
    assert (Hl : a < ae_begin lst) by (apply HhighS; apply in_or_app; right; cbn; auto).
    destruct (Z.leb_spec (ae_begin lst) a); [lia|]. cbn [andb].
    exists None. split; [reflexivity|]. intros o. split; [discriminate|].
    intros (e & He & Hc & _). specialize (HhighS e He). unfold ae_contains in Hc. lia.
  - destruct (nth_error L c') as [tup|] eqn:Hn.
    2:{ apply nth_error_None in Hn. lia. }
    replace (Z.of_nat (S c') - 1) with (Z.of_nat c') by lia.
    rewrite (py_index_nonneg L c' tup Hn). cbn [bind].
    pose proof (nth_error_split L c' tup Hn) as Esplit.
    assert (Htup_in : In tup L) by (eapply nth_error_In; eauto).
    assert (Htup_low : ae_begin tup <= a).
    { apply HlowS. rewrite Esplit. rewrite firstn_app.
      apply in_or_app. right.
      rewrite firstn_length. replace (S c' - Nat.min c' (length L))%nat with 1%nat by lia.
      cbn. auto. }
    (* every other entry either begins after a, or begins at or before tup *)
    assert (Hother : forall e, In e L -> ae_contains e a = true -> e = tup \/
               (In e (firstn c' L) /\ ae_begin e <= ae_begin tup)).
    { intros e He Hc. rewrite Esplit in He. apply in_app_or in He.
      destruct He as [He|[He|He]].
      - right. split; [exact He|].
        rewrite Esplit in Hsorted. rewrite map_app in Hsorted. apply sorted_app in Hsorted.
        destruct Hsorted as (_ & _ & Hab). apply Hab; [apply in_map; exact He | cbn; auto].
      - left. auto.
      - exfalso. specialize (HhighS e He). unfold ae_contains in Hc. lia. }
    assert (Hconf : forall e, In e (firstn c' L) -> negb (ranges_conflict e tup) = true).
    { intros e He. unfold ranges_disjoint in Hd. rewrite Esplit in Hd.
      exact (pairwise_app_mid (fun a b => negb (ranges_conflict a b)) _ _ _ Hd e He). }
    assert (Huniq : forall e, In e L -> ae_contains e a = true -> e = tup).
    { intros e He Hc. destruct (Hother e He Hc) as [|[Hp Hb]]; [auto|].
      exfalso. specialize (Hconf e Hp). unfold ranges_conflict, ae_contains in *. lia. }
    destruct ((ae_begin tup <=? a) && (a <? ae_begin tup + ae_length tup)) eqn:Hc.
    + exists (Some (ae_info_offset tup)). split; [reflexivity|]. intros o. split.
      * intros E. inversion E. exists tup. repeat split; auto.
      * intros (e & He & Hce & Ho). rewrite (Huniq e He Hce) in Ho. rewrite Ho. reflexivity.
    + exists None. split; [reflexivity|]. intros o. split; [discriminate|].
      intros (e & He & Hce & _). rewrite (Huniq e He Hce) in Hce. unfold ae_contains in Hce. congruence.
Qed.

(* the full statement: for pairwise non-conflicting ranges in ANY encoded order,
   Some o iff a tuple with unit offset o contains the address *)
Theorem lookup_iff_contained es a : ranges_disjoint es = true ->
  exists r,
    cu_offset_at_addr (mk_aranges (sorted_by ae_begin es) (map ae_begin (sorted_by ae_begin es))) a = Ok r /\
    forall o, r = Some o <-> exists e, In e es /\ ae_contains e a = true /\ ae_info_offset e = o.
Proof.
  intros Hd.
  assert (HdS : ranges_disjoint (sorted_by ae_begin es) = true).
  { unfold ranges_disjoint in *.
    eapply pairwise_perm; [exact ranges_conflict_sym | apply Permutation_sym; apply sorted_by_perm | exact Hd]. }
  destruct (lookup_sorted (sorted_by ae_begin es) a (sorted_by_sorted ae_begin es) HdS) as (r & Hr & Hiff).
  exists r. split; [exact Hr|]. intros o. rewrite Hiff. split.
  - intros (e & He & H). exists e. split; [apply sorted_by_in in He; exact He | exact H].
  - intros (e & He & H). exists e. split; [apply sorted_by_in; exact He | exact H].
Qed.

Theorem lookup_none_iff es a : ranges_disjoint es = true ->
  (cu_offset_at_addr (mk_aranges (sorted_by ae_begin es) (map ae_begin (sorted_by ae_begin es))) a = Ok None
   <-> forall e, In e es -> ae_contains e a = false).
Proof.
  intros Hd. destruct (lookup_iff_contained es a Hd) as (r & Hr & Hiff). rewrite Hr. split.
  - intros E e He. inversion E. subst r. destruct (ae_contains e a) eqn:Hc; [|reflexivity].
    assert (None = Some (ae_info_offset e)) by (apply Hiff; exists e; auto). discriminate.
  - intros Hall. destruct r as [o|]; [|reflexivity].
    destruct (proj1 (Hiff o) eq_refl) as (e & He & Hc & _). rewrite (Hall e He) in Hc. discriminate.
Qed.

(* the executable spec used by the driver *)
Theorem lookup_matches_spec es a : ranges_disjoint es = true ->
  cu_offset_at_addr (mk_aranges (sorted_by ae_begin es) (map ae_begin (sorted_by ae_begin es))) a
  = Ok (lookup_spec es a).
Proof.
  intros Hd. destruct (lookup_iff_contained es a Hd) as (r & Hr & Hiff). rewrite Hr. f_equal.
  unfold lookup_spec. destruct (find (fun e => ae_contains e a) es) as [e|] eqn:Hf; cbn [option_map].
  - apply find_some in Hf. destruct Hf as [He Hc]. apply Hiff. exists e. auto.
  - destruct r as [o|]; [|reflexivity].
    destruct (proj1 (Hiff o) eq_refl) as (e & He & Hc & _).
    pose proof (find_none _ _ Hf e He) as Hn. cbv beta in Hn. congruence.
Qed.

(* end to end on the bytes *)
Theorem aranges_lookup_end_to_end le sets a :
  wf_aranges sets = true -> ranges_disjoint (aranges_entries sets) = true ->
  (do t <- aranges_init le (encode_aranges le sets) (zlen (encode_aranges le sets));
   cu_offset_at_addr t a) = Ok (lookup_spec (aranges_entries sets) a).
Proof.
  intros Hwf Hd. rewrite aranges_init_exact by exact Hwf. cbn [bind].
  apply lookup_matches_spec. exact Hd.
Qed.

(* the deviation of the code as found: a table without tuples raised IndexError *)
Theorem lookup_unfixed_refuted :
  exists sets a, wf_aranges sets = true /\ ranges_disjoint (aranges_entries sets) = true /\
    (do t <- aranges_init true (encode_aranges true sets) (zlen (encode_aranges true sets));
     cu_offset_at_addr_unfixed t a) = Err (EPy "IndexError") /\
    lookup_spec (aranges_entries sets) a = None.
Proof.
  exists [mk_arange_set 2 0 8 [0; 0; 0; 0] [] []], 0. vm_compute. repeat split; reflexivity.
Qed.

(* away from the empty table the old code and the fixed code agree *)
Theorem lookup_unfixed_agrees t a : ar_entries t <> [] ->
  cu_offset_at_addr_unfixed t a = cu_offset_at_addr t a.
Proof. intros H. symmetry. apply cu_offset_nonempty. exact H. Qed.

(* boundary of the domain: with plain set-theoretic disjointness (a zero-length tuple is
   the empty set and intersects nothing) the statement is false *)
Theorem lookup_setwise_refuted :
  exists es a, ranges_setwise_disjoint es = true /\
    (exists e, In e es /\ ae_contains e a = true) /\
    cu_offset_at_addr (mk_aranges (sorted_by ae_begin es) (map ae_begin (sorted_by ae_begin es))) a = Ok None.
Proof.
  exists [mk_arange_entry 16 8 0 0 2 8 0; mk_arange_entry 16 0 64 0 2 8 0], 16.
  split; [vm_compute; reflexivity|]. split.
  - exists (mk_arange_entry 16 8 0 0 2 8 0). split; [cbn; auto | vm_compute; reflexivity].
  - vm_compute. reflexivity.
Qed.
