(* Proofs/C11Gen.v — the data of the container code, regenerated from the live modules on
   every run (Gen/C11Names.v, tools/gen/gen_c11.py), equals what the specification and the
   hand model use: an edit of the section-name tuple, of the DWARFInfo wiring, of the
   legacy-framing constants or of the link structs stops this file from compiling. *)
From Coq Require Import String.
From PV Require Import Base.Bytes Gen.C11Names Spec.C11Container Model.C11Dwarf.
Open Scope list_scope.
Open Scope Z_scope.

(* which DWARFInfo parameter receives which slot (dwarfinfo.py DWARFInfo.__init__) *)
Definition spec_slot_attrs : list string :=
  ["debug_info_sec"; "debug_aranges_sec"; "debug_abbrev_sec"; "debug_str_sec"; "debug_line_sec";
   "debug_frame_sec"; "debug_loc_sec"; "debug_ranges_sec"; "debug_pubtypes_sec"; "debug_pubnames_sec";
   "debug_addr_sec"; "debug_str_offsets_sec"; "debug_line_str_sec"; "debug_loclists_sec";
   "debug_rnglists_sec"; "debug_sup_sec"; "gnu_debugaltlink_sec"; "debug_types_sec"; "eh_frame_sec"]%string.

(* name, NUL, padding to a multiple of 4, 32-bit checksum in the byte order of the file *)
Definition spec_debuglink_shape (le : bool) : list string :=
  ["cstring:filename"; "padding:strict=1"; if le then "int:checksum:<L" else "int:checksum:>L"]%string.
(* DWARF 5, 7.3.6: version (2 bytes), is_supplementary (1 byte), file name *)
Definition spec_debugsup_shape (le : bool) : list string :=
  [if le then "int:version:<h" else "int:version:>h";
   if le then "int:is_supplementary:<B" else "int:is_supplementary:>B"; "cstring:sup_filename"]%string.
Definition spec_altlink_shape : list string := ["cstring:sup_filename"; "bytes:sup_checksum:20"]%string.

Definition upto12 : list Z := [0; 1; 2; 3; 4; 5; 6; 7; 8; 9; 10; 11].

Theorem gen_tables_match :
  map snd gen_slots = spec_slot_names /\
  map fst gen_slots = spec_slot_attrs /\
  map ascii_bytes (map snd gen_slots) = section_names /\
  map ascii_bytes gen_presence_names = [n_debug_info; n_zdebug_info; n_eh_frame] /\
  forallb (fun n => bytes_eqb (ascii_bytes n) n_debuglink) gen_link_names = true /\
  gen_zdebug_magic = ZLIB_MAGIC /\ gen_zdebug_size_fmt = ">Q"%string /\
  gen_zdebug_min_size = 12 /\ gen_zdebug_chunk = 4096 /\
  gen_debuglink_shape_le = spec_debuglink_shape true /\ gen_debuglink_shape_be = spec_debuglink_shape false /\
  gen_debugsup_shape_le = spec_debugsup_shape true /\ gen_debugsup_shape_be = spec_debugsup_shape false /\
  gen_altlink_shape_le = spec_altlink_shape /\ gen_altlink_shape_be = spec_altlink_shape /\
  gen_debuglink_padding_le = map (fun k => 3 - k mod 4) upto12 /\
  gen_debuglink_padding_be = map (fun k => 3 - k mod 4) upto12 /\
  map (fun k => Z.of_nat (debuglink_padlen (repeat 1 (Z.to_nat k)))) upto12 = gen_debuglink_padding_le.
Proof. repeat split; reflexivity. Qed.
