(* Proofs/C06TableExact.v — the exact extent of the known finding
   table/final-row-without-rules-dropped: for ALL instruction lists and alignment factors on which
   section 6.4 defines a table, the model of _decode_CFI_table computes that table with at most
   one change: the row closed by the end of the instruction stream is missing when it carries
   neither a CFA rule nor a register rule.  (For an FDE: provided the CIE's own initial
   instructions do not end in such a rule-less row after having created rows; then the library
   starts the FDE from the last row the CIE's table kept.) *)
From PV Require Import Spec.C06View Proofs.C06TableProofs.
Open Scope Z_scope.

Definition drop_ruleless_last (t : Spec.C06Cfi.table) : Spec.C06Cfi.table :=
  match rev (t_rows t) with
  | r :: before => if row_has_rule r then t else mktable (rev before) (t_columns t)
  | [] => t
  end.

Lemma finish_matches_exact ds s :
  sim ds s -> table_matches (finish ds) (drop_ruleless_last (table_of s)).
Proof.
  intros Hsim. unfold drop_ruleless_last, table_of. cbn [t_rows t_columns].
  rewrite rev_app_one. destruct (row_has_rule (cur_row s)) eqn:Hrule.
  - apply finish_matches; assumption.
  - rewrite rev_involutive. destruct Hsim as [Hc Hr Hs Ho].
    unfold finish, table_matches. rewrite (kept_iff_has_rule _ _ Hc), Hrule.
    cbn [table reg_order t_rows t_columns]. split; [|exact Ho].
    apply Forall2_ok_matches. exact Hr.
Qed.

(* CIE: no restriction at all *)
Theorem table_exact_cie caf daf cis t :
  low6_all cis = true -> cfi_spec_cie caf daf cis = Some t ->
  result_matches (decode_cie caf daf (map to_raw cis)) (drop_ruleless_last t).
Proof.
  unfold cfi_spec_cie. intros Hwf Hspec.
  destruct (cie_final caf daf cis) as [sc|] eqn:Ec; [|discriminate].
  inversion Hspec; subst t. unfold cie_final in Ec.
  destruct (loop_sim false [] (cie_params caf daf) eq_refl cis _ _ sc Hwf init_sim Ec)
    as (ds & E & Hsim).
  cbn [cie_params p_caf p_daf] in E. unfold decode_cie. rewrite E. cbn [bind result_matches].
  apply finish_matches_exact. exact Hsim.
Qed.

(* the CIE's initial instructions end in a row that says something, or never create a row *)
Definition cie_closed (caf daf : Z) (cis : list instr) : bool :=
  match cie_final caf daf cis with
  | Some sc => row_has_rule (cur_row sc) || match st_rows sc with [] => true | _ => false end
  | None => false
  end.

Theorem table_exact_fde caf daf cis loc fis t :
  low6_all cis = true -> low6_all fis = true ->
  cfi_spec_fde caf daf cis loc fis = Some t -> cie_closed caf daf cis = true ->
  result_matches (decode_fde caf daf (map to_raw cis) loc (map to_raw fis)) (drop_ruleless_last t).
Proof.
  unfold cie_closed, cfi_spec_fde. intros Hwc Hwf Hspec Hcie.
  destruct (cie_final caf daf cis) as [sc|] eqn:Ec; [|discriminate].
  destruct (run (mkparams caf daf (Some (st_regs sc))) (fde_start sc loc) fis) as [sf|] eqn:Ef;
    [|discriminate].
  inversion Hspec; subst t.
  unfold cie_final in Ec.
  destruct (loop_sim false [] (cie_params caf daf) eq_refl cis _ _ sc Hwc init_sim Ec)
    as (dc & E & Hsimc).
  cbn [cie_params p_caf p_daf] in E.
  unfold decode_fde, decode_cie. rewrite E. cbn [bind]. unfold decode_fde_from.
  destruct Hsimc as [Hc Hr Hs Ho].
  assert (Hstart :
    exists c0 l0,
      match rev (table (finish dc)) with
      | last :: _ => (cfa last, regs last)
      | [] => (empty_cfa, [])
      end = (c0, l0)
      /\ c0 = view_cfa (st_cfa sc) /\ regs_ok l0 (st_regs sc)).
  { unfold finish. rewrite (kept_iff_has_rule _ _ Hc).
    destruct (row_has_rule (cur_row sc)) eqn:Hrule.
    - cbn [table]. rewrite rev_app_one.
      exists (cfa (cur_line dc)), (regs (cur_line dc)). split; [reflexivity|].
      destruct Hc as (_ & Hcfa & Hregs). split; assumption.
    - cbn [orb] in Hcie. destruct (st_rows sc) as [|r0 rs] eqn:Erows; [|discriminate].
      inversion Hr as [E0|]; subst. cbn [table rev].
      exists empty_cfa, []. split; [reflexivity|].
      unfold row_has_rule in Hrule. cbn [cur_row row_cfa row_regs] in Hrule.
      destruct (st_cfa sc); try discriminate.
      destruct (st_regs sc); [|discriminate].
      split; [reflexivity|apply regs_ok_nil]. }
  destruct Hstart as (c0 & l0 & Estart & Hc0 & Hl0).
  rewrite Estart.
  assert (Hsim0 : sim (mkdstate (mkline loc c0 l0) [] [] (reg_order (finish dc)))
                      (fde_start sc loc)).
  { constructor; cbn; try constructor.
    - reflexivity.
    - split; assumption.
    - unfold finish. destruct (line_is_kept (cur_line dc)); exact Ho. }
  assert (HP : params_ok true l0 (mkparams caf daf (Some (st_regs sc)))).
  { cbn. split; [reflexivity|apply Hl0]. }
  destruct (loop_sim true l0 _ HP fis _ _ sf Hwf Hsim0 Ef) as (df & E' & Hsimf).
  cbn [p_caf p_daf] in E'. rewrite E'. cbn [bind result_matches].
  apply finish_matches_exact. exact Hsimf.
Qed.

(* the restricted theorems are instances: on their domains nothing is dropped *)
Lemma drop_nothing t : last_row_has_rule t = true -> drop_ruleless_last t = t.
Proof.
  unfold last_row_has_rule, drop_ruleless_last. destruct (rev (t_rows t)) as [|r b]; [reflexivity|].
  intros ->. reflexivity.
Qed.
