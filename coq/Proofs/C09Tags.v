(* Proofs/C09Tags.v — the tag iterator yields exactly the entries up to and including the
   first DT_NULL; string-valued tags are resolved inside the designated table; a dynamic
   pointer maps to the file offset the PT_LOAD rule gives. *)
From PV Require Import Model.C09Dynamic Base.Enum Spec.PrimSpec.
From PV Require Import Proofs.PrimProofs Proofs.FmtProofs Proofs.ElfLayoutFacts Proofs.C09Tables.
From Coq Require Import ZifyBool.
Open Scope string_scope.
Open Scope list_scope.
Open Scope Z_scope.

(* ---------- positions ---------- *)
Lemma seekz_skipn {A} (l : list A) : forall pos, seekz l pos = skipn (Z.to_nat pos) l.
Proof.
  induction l as [|x r IH]; intros pos; cbn [seekz].
  - rewrite skipn_nil. reflexivity.
  - destruct (Z.leb_spec pos 0) as [Hp|Hp].
    + replace (Z.to_nat pos) with O by lia. reflexivity.
    + rewrite IH. replace (Z.to_nat pos) with (S (Z.to_nat (pos - 1))) by lia. reflexivity.
Qed.

Lemma seekz_app {A} (pre r : list A) : seekz (pre ++ r) (zlen pre) = r.
Proof.
  rewrite seekz_skipn. unfold zlen. rewrite Nat2Z.id.
  rewrite skipn_app, skipn_all, Nat.sub_diag. reflexivity.
Qed.

Lemma skipn_add {A} (l : list A) : forall a b, skipn b (skipn a l) = skipn (a + b) l.
Proof.
  induction l as [|x r IH]; intros a b.
  - rewrite !skipn_nil. reflexivity.
  - destruct a as [|a]; [reflexivity|]. cbn [skipn Nat.add]. apply IH.
Qed.

Lemma seekz_add {A} (l : list A) a b : 0 <= a -> 0 <= b -> seekz l (a + b) = seekz (seekz l a) b.
Proof.
  intros Ha Hb. rewrite !seekz_skipn, skipn_add. f_equal. lia.
Qed.

Lemma seekz_length {A} (l : list A) pos : 0 <= pos -> zlen (seekz l pos) = Z.max 0 (zlen l - pos).
Proof. intros H. rewrite seekz_skipn. unfold zlen. rewrite skipn_length. lia. Qed.

(* ---------- one Elf_Dyn entry ---------- *)
Definition raw_of (T : list (Z * string)) (e : dent) : rawtag := (dec_enum T (fst e), snd e).

Lemma annot_dyn le is64 t v :
  annot_layout (spec_Elf_Dyn le is64) [VZ t; VZ v] = [("d_tag", VZ t); ("d_val", VZ v); ("d_ptr", VZ v)].
Proof. destruct le, is64; reflexivity. Qed.

Lemma encode_dyn_length le is64 e : dyn_fits le is64 e = true ->
  zlen (encode_dyn le is64 e) = dyn_size is64.
Proof.
  intros H. unfold zlen, encode_dyn, encode_layout.
  rewrite (encode_fields_length _ [] _ _ H (size_Dyn le is64)). destruct is64; reflexivity.
Qed.

Lemma parse_dyn_entry le is64 e (pre tail : list Z) : dyn_fits le is64 e = true ->
  parse_at (gen_Elf_Dyn le is64) (pre ++ encode_dyn le is64 e ++ tail) (zlen pre)
  = Ok [("d_tag", VZ (fst e)); ("d_val", VZ (snd e)); ("d_ptr", VZ (snd e))].
Proof.
  intros H. unfold parse_at. rewrite seekz_app, gen_Elf_Dyn_gabi.
  unfold encode_dyn. rewrite decode_encode_layout by exact H.
  unfold dyn_vals. rewrite annot_dyn. reflexivity.
Qed.

Lemma cut_at_null_prefix es : forall l, cut_at_null es = Some l ->
  exists rest, es = l ++ rest /\ (length l <= length es)%nat.
Proof.
  induction es as [|e r IH]; intros l H; cbn [cut_at_null] in H; [discriminate|].
  destruct (fst e =? DT_NULL).
  - inversion H; subst. exists r. split; [reflexivity|]. cbn [length]. lia.
  - destruct (cut_at_null r) as [l'|]; [|discriminate]. inversion H; subst.
    destruct (IH l' eq_refl) as [rest [-> Hl]]. exists rest. split; [reflexivity|].
    cbn [length]. rewrite app_length in *. lia.
Qed.

Lemma encode_dyns_length le is64 es : forallb (dyn_fits le is64) es = true ->
  zlen (encode_dyns le is64 es) = zlen es * dyn_size is64.
Proof.
  unfold encode_dyns. induction es as [|e r IH]; intros H; [reflexivity|].
  cbn [forallb] in H. apply andb_prop in H. destruct H as [He Hr].
  cbn [map concat]. rewrite zlen_app, zlen_cons, IH by exact Hr.
  rewrite encode_dyn_length by exact He. lia.
Qed.

(* ---------- _iter_tags: exactly the entries up to and including the first DT_NULL ---------- *)
Section iter.
Variable f : elf.
Variable dy : dynobj.
Hypothesis Hne : dy_empty dy = false.
Hypothesis Hnull : name_is (f_dtab f) DT_NULL "DT_NULL".

Lemma raw_tags_go_exact (tail : list Z) : forall es l fuel n pre,
  forallb (dyn_fits (f_le f) (f_is64 f)) es = true ->
  cut_at_null es = Some l ->
  f_img f = pre ++ encode_dyns (f_le f) (f_is64 f) es ++ tail ->
  dy_off dy + n * Dyn_sizeof f = zlen pre ->
  (length l <= fuel)%nat ->
  raw_tags_go fuel f dy n = Ok (map (raw_of (f_dtab f)) l).
Proof.
  induction es as [|e r IH]; intros l fuel n pre Hfit Hcut Himg Hoff Hfuel;
    cbn [cut_at_null] in Hcut; [discriminate|].
  cbn [forallb] in Hfit. apply andb_prop in Hfit. destruct Hfit as [He Hr].
  assert (Hget : get_tag_raw f dy n = Ok (raw_of (f_dtab f) e)).
  { unfold get_tag_raw. rewrite Hne, Hoff, Himg. unfold encode_dyns. cbn [map concat].
    rewrite <- app_assoc. rewrite parse_dyn_entry by exact He. reflexivity. }
  destruct (fst e =? DT_NULL) eqn:En.
  - inversion Hcut; subst l. destruct fuel as [|k]; [cbn in Hfuel; lia|].
    cbn [raw_tags_go]. rewrite Hget. cbn [bind raw_of fst].
    rewrite (Hnull (fst e)), En. reflexivity.
  - destruct (cut_at_null r) as [l'|] eqn:Ec; [|discriminate]. inversion Hcut; subst l.
    destruct fuel as [|k]; [cbn in Hfuel; lia|].
    cbn [raw_tags_go]. rewrite Hget. cbn [bind raw_of fst].
    rewrite (Hnull (fst e)), En.
    rewrite (IH l' k (n + 1) (pre ++ encode_dyn (f_le f) (f_is64 f) e) Hr eq_refl).
    + reflexivity.
    + rewrite Himg. unfold encode_dyns. cbn [map concat]. rewrite <- !app_assoc. reflexivity.
    + rewrite zlen_app, encode_dyn_length by exact He. unfold Dyn_sizeof in *. lia.
    + cbn [length] in Hfuel. lia.
Qed.

Theorem raw_tags_exact es l (pre tail : list Z) :
  forallb (dyn_fits (f_le f) (f_is64 f)) es = true ->
  cut_at_null es = Some l ->
  f_img f = pre ++ encode_dyns (f_le f) (f_is64 f) es ++ tail ->
  dy_off dy = zlen pre ->
  raw_tags f dy = Ok (map (raw_of (f_dtab f)) l).
Proof.
  intros Hfit Hcut Himg Hoff. unfold raw_tags. rewrite Hne.
  apply (raw_tags_go_exact tail es l _ 0 pre Hfit Hcut Himg); [lia|].
  destruct (cut_at_null_prefix es l Hcut) as [rest [_ Hl]].
  pose proof (encode_dyns_length _ _ es Hfit) as Hlen.
  assert (Hi : zlen (f_img f) = zlen pre + zlen (encode_dyns (f_le f) (f_is64 f) es) + zlen tail)
    by (rewrite Himg, !zlen_app; lia).
  unfold zlen in *. assert (1 <= dyn_size (f_is64 f)) by (destruct (f_is64 f); cbn; lia). nia.
Qed.
End iter.

(* ---------- strings: resolved inside the designated table ---------- *)
Lemma upto_nul_split bs : forall s, upto_nul bs = Some s ->
  exists rest, bs = s ++ 0 :: rest /\ no_nul s = true.
Proof.
  induction bs as [|b r IH]; intros s H; cbn [upto_nul] in H; [discriminate|].
  destruct (Z.eqb_spec b 0) as [->|Hb].
  - inversion H; subst. exists r. split; reflexivity.
  - destruct (upto_nul r) as [s'|]; [|discriminate]. inversion H; subst.
    destruct (IH s' eq_refl) as [rest [-> Hs]]. exists rest. split; [reflexivity|].
    apply no_nul_cons. split; assumption.
Qed.

Lemma cstring_or_empty_valid img s rest pos :
  no_nul s = true -> seekz img pos = s ++ 0 :: rest -> cstring_or_empty img pos = s.
Proof.
  intros Hs Hseek. unfold cstring_or_empty. rewrite Hseek.
  rewrite cstr_chunks_valid; [reflexivity|exact Hs|].
  assert (Hl : (length (seekz img pos) <= length img)%nat)
    by (rewrite seekz_skipn, skipn_length; lia).
  rewrite Hseek, app_length in Hl. cbn [length] in Hl. unfold CHUNK. lia.
Qed.

(* the string table placed anywhere in the image, followed by anything *)
Theorem string_in_table (pre tab tail : list Z) i s :
  str_at tab i = Some s ->
  cstring_or_empty (pre ++ tab ++ tail) (zlen pre + i) = s.
Proof.
  unfold str_at. intros H.
  destruct ((0 <=? i) && (i <? zlen tab)) eqn:Ei; [|discriminate].
  destruct (upto_nul_split _ _ H) as [rest [Hsk Hs]].
  apply (cstring_or_empty_valid _ s (rest ++ tail)); [exact Hs|].
  rewrite seekz_add by (pose proof (zlen_nonneg pre); lia).
  rewrite seekz_app, seekz_skipn, skipn_app.
  replace (Z.to_nat i - length tab)%nat with O by (unfold zlen in Ei; lia).
  cbn [skipn]. rewrite Hsk, <- app_assoc. reflexivity.
Qed.

(* DynamicTag over the section's or the pointer's string table *)
Definition st_off (st : strtab) : Z := match st with StSection o _ => o | StDynamic o => o end.
Definition st_usable (st : strtab) : bool := match st with StSection _ b => b | StDynamic _ => true end.

Definition expected_tag (T : list (Z * string)) (solaris : bool) (tab : list Z) (e : dent) : dyntag :=
  (raw_of T e, match snd (spec_entry solaris tab e) with
               | Some (Some s) => Some s
               | Some None => Some []
               | None => None
               end).
Definition strings_ok (solaris : bool) (tab : list Z) (l : list dent) : bool :=
  forallb (fun e => negb (string_tag solaris (fst e)) ||
                    match str_at tab (snd e) with Some _ => true | None => false end) l.

Theorem dynamic_tags_exact f st m o (pre tab tail : list Z) : forall l,
  f_dtab f = spec_dtab m o ->
  f_img f = pre ++ tab ++ tail -> st_off st = zlen pre -> st_usable st = true ->
  strings_ok (spec_is_solaris m o) tab l = true ->
  dynamic_tags f (Ok (Some st)) (map (raw_of (f_dtab f)) l)
  = Ok (map (expected_tag (f_dtab f) (spec_is_solaris m o) tab) l).
Proof.
  intros l HT Himg Hoff Hus. induction l as [|e r IH]; intros Hok; [reflexivity|].
  cbn [strings_ok forallb] in Hok. apply andb_prop in Hok. destruct Hok as [He Hr].
  cbn [map dynamic_tags bind]. fold (strings_ok (spec_is_solaris m o) tab r) in Hr.
  rewrite (IH Hr). unfold dynamic_tag, expected_tag, spec_entry. cbn [raw_of fst snd].
  rewrite HT at 1. rewrite handled_is_string_tag.
  destruct (string_tag (spec_is_solaris m o) (fst e)); [|reflexivity].
  cbn [negb orb] in He. destruct (str_at tab (snd e)) as [s|] eqn:Es; [|discriminate].
  assert (Hg : get_string (f_img f) st (snd e) = Ok s).
  { destruct st as [off b|off]; cbn [st_off st_usable] in Hoff, Hus; cbn [get_string];
      [subst b|]; rewrite Hoff, Himg, (string_in_table _ _ _ _ _ Es); reflexivity. }
  rewrite Hg. reflexivity.
Qed.

(* ---------- pointer -> file offset ---------- *)
Lemma address_offsets_spec f ps addr len : name_is (f_ptab f) PT_LOAD "PT_LOAD" ->
  address_offsets f ps addr len = map (fun p => load_off p addr) (filter (fun p => in_load p addr len) ps).
Proof.
  intros Hn. unfold address_offsets. f_equal. apply filter_ext. intros p.
  unfold pt_is, in_load. rewrite (Hn (p_type p)). reflexivity.
Qed.

Theorem address_offset_first f ps addr len off : name_is (f_ptab f) PT_LOAD "PT_LOAD" ->
  addr_to_off ps addr len = Some off ->
  hd_error (address_offsets f ps addr 1) = Some off.
Proof.
  intros Hn H. rewrite address_offsets_spec by exact Hn. unfold addr_to_off in H.
  destruct (filter (fun p => in_load p addr 1) ps) as [|p r]; [discriminate|].
  destruct (_ && _); [|discriminate]. inversion H; subst. reflexivity.
Qed.

(* every offset the code could pick is that one: the mapping does not depend on the segment order *)
Theorem address_offsets_unambiguous f ps addr len off : name_is (f_ptab f) PT_LOAD "PT_LOAD" ->
  addr_to_off ps addr len = Some off ->
  forall o, In o (address_offsets f ps addr 1) -> o = off.
Proof.
  intros Hn H o Hin. rewrite address_offsets_spec in Hin by exact Hn. unfold addr_to_off in H.
  destruct (filter (fun p => in_load p addr 1) ps) as [|p r]; [discriminate|].
  destruct (existsb _ _); [|discriminate]. cbn [andb] in H.
  destruct (forallb _ r) eqn:Ea; [|discriminate]. inversion H; subst.
  cbn [map] in Hin. destruct Hin as [<-|Hin]; [reflexivity|].
  apply in_map_iff in Hin. destruct Hin as [q [<- Hq]].
  rewrite forallb_forall in Ea. specialize (Ea q Hq). lia.
Qed.

(* ---------- get_table_offset: the first entry carrying the tag, mapped through PT_LOAD ---------- *)
Lemma tags_of_type_spec T val name : name_is T val name -> forall l,
  tags_of_type (map (raw_of T) l) name = map (raw_of T) (filter (fun e => fst e =? val) l).
Proof.
  intros Hn. induction l as [|e r IH]; [reflexivity|].
  cbn [map tags_of_type filter raw_of fst]. fold (tags_of_type (map (raw_of T) r) name).
  rewrite (Hn (fst e)). destruct (fst e =? val); cbn [map]; rewrite IH; reflexivity.
Qed.

Lemma first_val_filter val : forall l,
  first_val val l = match filter (fun e : Z * Z => fst e =? val) l with e :: _ => Some (snd e) | [] => None end.
Proof.
  induction l as [|e r IH]; [reflexivity|]. cbn [first_val filter].
  destruct (fst e =? val); [reflexivity|exact IH].
Qed.

Lemma get_table_offset_spec f ps l val name : name_is (f_dtab f) val name ->
  get_table_offset f ps (map (raw_of (f_dtab f)) l) name =
  match first_val val l with
  | None => (None, None)
  | Some ptr => (Some ptr, if ptr =? 0 then None else hd_error (address_offsets f ps ptr 1))
  end.
Proof.
  intros Hn. unfold get_table_offset. rewrite (tags_of_type_spec _ _ _ Hn), first_val_filter.
  destruct (filter (fun e : Z * Z => fst e =? val) l) as [|e r]; reflexivity.
Qed.

(* ---------- what ELFFile.__init__ fixes: the decoding dicts are the standard's ---------- *)
Lemma elf_open_inv img f : elf_open img = Ok f ->
  f_img f = img /\
  f_dtab f = spec_dtab (e_machine (f_eh f)) (e_osabi (f_eh f)) /\
  (forall val name, In (val, name) spec_pt_names -> name_is (f_ptab f) val name) /\
  (forall val name, In (val, name) spec_sht_names -> name_is (f_stab f) val name).
Proof.
  unfold elf_open. destruct img as [|m0 [|m1 [|m2 [|m3 [|c [|d img']]]]]]; try discriminate.
  destruct (negb _); [discriminate|]. destruct (negb _); [discriminate|]. destruct (negb _); [discriminate|].
  destruct (parse_at _ _ 0) as [r|]; [|discriminate]. cbn [bind].
  destruct (ptab_ok (e_machine (ehdr_of r))) as [pt [-> Hpt]].
  destruct (stab_ok (e_machine (ehdr_of r))) as [st [-> Hst]].
  rewrite dtab_selection. cbn [bind]. intros H. inversion H; subst f. cbn [f_img f_dtab f_eh f_ptab f_stab].
  repeat split; try reflexivity; apply names_okb_sound; assumption.
Qed.

Lemma dt_name f m o val name : f_dtab f = spec_dtab m o -> In (val, name) spec_dt_names ->
  name_is (f_dtab f) val name.
Proof. intros -> H. unfold name_is. apply dt_is. exact H. Qed.

(* ---------- iter_tags of one Dynamic object, end to end ---------- *)
(* the table given to the constructor (DynamicSection: the section sh_link designates) *)
Theorem view_tags_linked img f off st es l (pre tail pre2 tab tail2 : list Z) :
  elf_open img = Ok f ->
  forallb (dyn_fits (f_le f) (f_is64 f)) es = true -> cut_at_null es = Some l ->
  img = pre ++ encode_dyns (f_le f) (f_is64 f) es ++ tail -> off = zlen pre ->
  img = pre2 ++ tab ++ tail2 -> st_off st = zlen pre2 -> st_usable st = true ->
  strings_ok (spec_is_solaris (e_machine (f_eh f)) (e_osabi (f_eh f))) tab l = true ->
  view_tags f (mkDyn off false (Some st))
  = Ok (map (expected_tag (f_dtab f) (spec_is_solaris (e_machine (f_eh f)) (e_osabi (f_eh f))) tab) l).
Proof.
  intros Ho Hfit Hcut Himg Hoff Himg2 Hst Hus Hok.
  destruct (elf_open_inv _ _ Ho) as [Hi [HT [Hpt Hsht]]].
  unfold view_tags.
  rewrite (raw_tags_exact f (mkDyn off false (Some st)) eq_refl (dt_name _ _ _ _ _ HT ltac:(cbn; tauto)) es l pre tail Hfit Hcut)
    by (cbn [dy_off]; congruence).
  cbn [bind dy_str]. unfold iter_tags_all, get_stringtable. cbn [dy_str].
  apply (dynamic_tags_exact f st _ _ pre2 tab tail2 l HT); congruence.
Qed.

(* no table given (DynamicSegment of a file without section headers): DT_STRTAB through PT_LOAD *)
Theorem iter_tags_pointed img f ps off es l sp (pre tail pre2 tab tail2 : list Z) :
  elf_open img = Ok f ->
  forallb (dyn_fits (f_le f) (f_is64 f)) es = true -> cut_at_null es = Some l ->
  img = pre ++ encode_dyns (f_le f) (f_is64 f) es ++ tail -> off = zlen pre ->
  img = pre2 ++ tab ++ tail2 ->
  first_val DT_STRTAB l = Some sp -> sp <> 0 -> addr_to_off ps sp 1 = Some (zlen pre2) ->
  strings_ok (spec_is_solaris (e_machine (f_eh f)) (e_osabi (f_eh f))) tab l = true ->
  let dy := mkDyn off false None in
  raw_tags f dy = Ok (map (raw_of (f_dtab f)) l) /\
  iter_tags_all f ps (map (raw_of (f_dtab f)) l) dy
  = Ok (map (expected_tag (f_dtab f) (spec_is_solaris (e_machine (f_eh f)) (e_osabi (f_eh f))) tab) l).
Proof.
  intros Ho Hfit Hcut Himg Hoff Himg2 Hsp Hnz Hmap Hok dy.
  destruct (elf_open_inv _ _ Ho) as [Hi [HT [Hpt Hsht]]].
  split.
  - apply (raw_tags_exact f dy eq_refl (dt_name _ _ _ _ _ HT ltac:(cbn; tauto)) es l pre tail Hfit Hcut);
      subst dy; cbn [dy_off]; congruence.
  - subst dy. unfold iter_tags_all, get_stringtable. cbn [dy_str].
    rewrite (get_table_offset_spec f ps l DT_STRTAB "DT_STRTAB") by (apply (dt_name _ _ _ _ _ HT); cbn; tauto).
    rewrite Hsp. cbn [snd]. destruct (Z.eqb_spec sp 0) as [|_]; [contradiction|].
    rewrite (address_offset_first f ps sp 1 _ (Hpt _ _ ltac:(cbn; tauto)) Hmap).
    apply (dynamic_tags_exact f (StDynamic (zlen pre2)) _ _ pre2 tab tail2 l HT); try reflexivity; congruence.
Qed.
