(* Proofs/PyFunsC16.v — ULEB128._parse and SLEB128._parse as TRANSLATED from the live source
   (Gen/PyFuns.v, tools/gen/pyast.py: byte-at-a-time `while True` loop -> structural Fixpoint)
   equal the hand models of Base/Prim.v on every byte string; hence every C16 theorem about the
   LEB128 decoders holds of the translated code. *)
From Coq Require Import ZArith List.
From Coq Require Import Lia.
From PV Require Import Base.Bytes Base.Outcome Base.Prim Spec.PrimSpec Gen.PyFuns Proofs.PrimProofs Model.C16Run.
Import ListNotations.
Open Scope Z_scope.

(* a ConstructError inside struct_parse surfaces as ELFParseError *)
Definition res_of_dec {A} (o : option (A * list Z)) : res (A * list Z) :=
  match o with Some r => Ok r | None => Err EParse end.

Lemma gen_uleb_loop_is_model : forall bs value shift,
  gen_ULEB128_parse_loop bs value shift = res_of_dec (uleb_go bs value shift).
Proof.
  induction bs as [|b r IH]; intros value shift; cbn [gen_ULEB128_parse_loop uleb_go]; [reflexivity|].
  destruct (Z.land b 128 =? 0); [reflexivity | apply IH].
Qed.

Lemma gen_uleb_is_model : forall bs, gen_ULEB128_parse bs = res_of_dec (uleb_decode bs).
Proof. intros bs. unfold gen_ULEB128_parse, uleb_decode. apply gen_uleb_loop_is_model. Qed.

Lemma gen_sleb_loop_is_model : forall bs value shift,
  gen_SLEB128_parse_loop bs value shift = res_of_dec (sleb_go bs value shift).
Proof.
  induction bs as [|b r IH]; intros value shift; cbn [gen_SLEB128_parse_loop sleb_go]; [reflexivity|].
  destruct (Z.land b 128 =? 0); [|apply IH].
  destruct (Z.land b 64 =? 0); reflexivity.
Qed.

Lemma gen_sleb_is_model : forall bs, gen_SLEB128_parse bs = res_of_dec (sleb_decode bs).
Proof. intros bs. unfold gen_SLEB128_parse, sleb_decode. apply gen_sleb_loop_is_model. Qed.

(* the round-trip, truncation and totality theorems, restated for the translated code *)
Lemma gen_uleb_valid : forall bs v tail, uleb_valid bs v -> gen_ULEB128_parse (bs ++ tail) = Ok (v, tail).
Proof. intros bs v tail H. rewrite gen_uleb_is_model, (uleb_decode_valid bs v tail H). reflexivity. Qed.
Lemma gen_uleb_truncated : forall bs v p q,
  uleb_valid bs v -> bs = p ++ q -> q <> [] -> gen_ULEB128_parse p = Err EParse.
Proof. intros bs v p q H E Q. rewrite gen_uleb_is_model, (uleb_decode_truncated bs v p q H E Q). reflexivity. Qed.
Lemma gen_uleb_total : forall bs, all_bytes bs = true -> gen_ULEB128_parse bs = res_of_dec (uleb_spec bs).
Proof. intros bs H. rewrite gen_uleb_is_model, (uleb_decode_total bs H). reflexivity. Qed.
Lemma gen_sleb_valid : forall bs v tail, sleb_valid bs v -> gen_SLEB128_parse (bs ++ tail) = Ok (v, tail).
Proof. intros bs v tail H. rewrite gen_sleb_is_model, (sleb_decode_valid bs v tail H). reflexivity. Qed.
Lemma gen_sleb_truncated : forall bs v p q,
  sleb_valid bs v -> bs = p ++ q -> q <> [] -> gen_SLEB128_parse p = Err EParse.
Proof. intros bs v p q H E Q. rewrite gen_sleb_is_model, (sleb_decode_truncated bs v p q H E Q). reflexivity. Qed.
Lemma gen_sleb_total : forall bs, all_bytes bs = true -> gen_SLEB128_parse bs = res_of_dec (sleb_spec bs).
Proof. intros bs H. rewrite gen_sleb_is_model, (sleb_decode_total bs H). reflexivity. Qed.

(* ---- RepeatUntilExcluding: a list whose terminator is missing is a parse error, wherever the data ends:
   on an element boundary (including the empty input) or inside an element *)
Lemma repeat_until_unterminated : forall A (d : dec A) (stop : A -> bool) enc xs fuel,
  (forall x t, d (enc x ++ t) = Some (x, t)) -> d [] = None ->
  forallb (fun x => negb (stop x)) xs = true ->
  repeat_until fuel d stop (concat (map enc xs)) = None.
Proof.
  intros A d stop enc xs. induction xs as [|x r IH]; intros fuel Hd Hnil Hns.
  - destruct fuel as [|f]; cbn [repeat_until concat map]; [reflexivity | rewrite Hnil; reflexivity].
  - cbn [forallb] in Hns. apply andb_prop in Hns. destruct Hns as [Hx Hr].
    destruct fuel as [|f]; [reflexivity|].
    cbn [repeat_until concat map]. rewrite Hd.
    destruct (stop x); [discriminate Hx|]. rewrite (IH f Hd Hnil Hr). reflexivity.
Qed.

Lemma repeat_until_cut_inside : forall A (d : dec A) (stop : A -> bool) enc xs cut fuel,
  (forall x t, d (enc x ++ t) = Some (x, t)) -> d cut = None ->
  forallb (fun x => negb (stop x)) xs = true ->
  repeat_until fuel d stop (concat (map enc xs) ++ cut) = None.
Proof.
  intros A d stop enc xs cut. induction xs as [|x r IH]; intros fuel Hd Hcut Hns.
  - destruct fuel as [|f]; cbn [repeat_until concat map app]; [reflexivity | rewrite Hcut; reflexivity].
  - cbn [forallb] in Hns. apply andb_prop in Hns. destruct Hns as [Hx Hr].
    destruct fuel as [|f]; [reflexivity|].
    cbn [repeat_until concat map]. rewrite <- app_assoc, Hd.
    destruct (stop x); [discriminate Hx|]. rewrite (IH f Hd Hcut Hr). reflexivity.
Qed.

(* the encoded initial length is 4 bytes (32-bit format) or 12 bytes (64-bit format) long *)
Lemma initial_length_encode_size : forall (le : bool) (len : Z) (is64 : bool),
  initial_length_wf len is64 = true ->
  Z.of_nat (List.length (initial_length_encode le len is64)) = spec_initlen_field_size (if is64 then 64 else 32).
Proof.
  intros le len is64 _. unfold initial_length_encode, spec_initlen_field_size.
  destruct is64; cbn [Z.eqb]; rewrite ?app_length, ?int_encode_length; reflexivity.
Qed.

(* the driver's form of the block decoder (length compared before counting) is the model, on every input *)
Lemma block_decode_run_eq : forall (len : dec Z) bs, block_decode_run len bs = block_decode len bs.
Proof.
  intros len bs. unfold block_decode_run, block_decode.
  destruct (len bs) as [[n r]|] eqn:Hl; [|reflexivity].
  destruct (Z.of_nat (length r) <? n) eqn:Hc; [|reflexivity].
  apply Z.ltb_lt in Hc. rewrite take_short; [reflexivity | lia].
Qed.
