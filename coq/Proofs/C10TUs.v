(* Proofs/C10TUs.v — C10 refinement: type units (iter_TUs, the lazily built _type_units_by_sig index,
   get_TU_by_sig8). *)
From PV Require Import Spec.C10Spec Proofs.C10Base Proofs.C10Tree Proofs.C10Elf Proofs.C10Units Proofs.C10Lines
  Proofs.C10Main Proofs.C10Top.
From Coq Require Import ZArith List Bool Lia ZifyBool.
Import ListNotations.
Open Scope Z_scope.

(* the unit cache machinery neither reads nor writes _type_units_by_sig *)
Lemma cus_iter_next_comm P off s v :
  cus_iter_next P off (set_tu_map s v) = (let '(s', r) := cus_iter_next P off s in (set_tu_map s' v, r)).
Proof.
  unfold cus_iter_next. destruct (off <? p_info_size P); [|reflexivity].
  repeat progress unfold cached_CU_at_offset, parse_CU_at_offset, struct_parse, seek, parse_stream, tell, alloc_cu,
    modify, get_cu, get_state, bindM, ret, fail, lift, nth_res.
  scbn.
  repeat (match goal with
          | |- context [match ?x with _ => _ end] =>
              match x with
              | context [set_tu_map] => fail 1
              | _ => destruct x; scbn
              end
          end); reflexivity.
Qed.

Definition put {V} (d : dict Z V) (kv : Z * V) : dict Z V := dict_set Z.eqb d (fst kv) (snd kv).
Definition tu_kv (x : Z * tu_raw * Z) : Z * (Z * Z * Z) := (tu_sig (tu_hdr x), (0, tu_off x, tu_pid (tu_hdr x))).
Definition unit_kvs (ud : udesc) : list (Z * (Z * Z * Z)) :=
  match uh_tsig (ud_hdr ud) with Some sig => [(sig, (1, ud_off ud, uh_pid (ud_hdr ud)))] | None => [] end.

Lemma tus_chain_next l : forall pos size x, tus_chain pos l size = true -> In x l ->
  tu_off x + tu_size (tu_hdr x) = size \/ exists x', In x' l /\ tu_off x' = tu_off x + tu_size (tu_hdr x).
Proof.
  induction l as [|y r IH]; intros pos size x H Hin; [destruct Hin|].
  cbn [tus_chain] in H. apply andb_prop in H. destruct H as [H H3]. apply andb_prop in H. destruct H as [H1 H2].
  destruct Hin as [<-|Hin].
  - destruct r as [|z r']; cbn [tus_chain] in H3; [left; lia|].
    right. exists z. split; [cbn; auto|]. apply andb_prop in H3. destruct H3 as [H3 _]. apply andb_prop in H3. lia.
  - destruct (IH _ _ _ H3 Hin) as [E|(x' & Hx' & E)]; [auto|]. right. exists x'. split; [cbn; auto|exact E].
Qed.

Section TUs.
  Set Default Proof Using "All".
  Variable F : file.
  Hypothesis WF : wf_file F = true.
  Variable fuel : nat.
  Hypothesis Hfuel : fuel_ok F fuel = true.
  Let P := parsers_of F.
  Let Hfu := Hfu F WF fuel Hfuel.

  Lemma Hft : (length (f_tus F) < fuel)%nat.
  Proof. pose proof Hfuel as Hf. unfold fuel_ok, fuel_bound in Hf. apply Nat.ltb_lt in Hf. lia. Qed.

  Definition core (s : state) : state := set_tu_map s None.

  Lemma set_tu_map_self s : set_tu_map s (tu_map s) = s.
  Proof. destruct s; reflexivity. Qed.

  Lemma Inv_core s : Inv F s -> Inv F (core s).
  Proof. intros [I1 I2 I3 I4 I5 I6 I7 I8 I9 I10 I11 I12 I13]. unfold core. constructor; scbn; auto. intros m H; discriminate. Qed.

  Lemma Inv_with_tumap s m : Inv F (core s) -> m = tumap_spec F -> Inv F (set_tu_map s (Some m)).
  Proof.
    intros [I1 I2 I3 I4 I5 I6 I7 I8 I9 I10 I11 I12 I13] Hm. unfold core in *. revert I1 I2 I3 I4 I5 I6 I7 I8 I9 I10 I11 I12. scbn.
    intros. constructor; scbn; auto. intros m' E. congruence.
  Qed.

  Lemma ext_tu_map s v : ext s (set_tu_map s v).
  Proof. ext_triv. Qed.

  Lemma tu_at_self x : In x (f_tus F) -> tu_at F (tu_off x) = Some x.
  Proof. intros H. unfold tu_at. eapply (tus_chain_find F WF); [apply (wf_file_tus F WF)|exact H]. Qed.

  Lemma tu_at_in off x : tu_at F off = Some x -> In x (f_tus F) /\ tu_off x = off.
  Proof. unfold tu_at. intros H. apply find_some in H. destruct H. split; auto. lia. Qed.

  Lemma tu_next off x : tu_at F off = Some x ->
    off + tu_size (tu_hdr x) = f_types_size F \/ exists x', tu_at F (off + tu_size (tu_hdr x)) = Some x'.
  Proof.
    intros H. destruct (tu_at_in _ _ H) as [Hin <-].
    destruct (tus_chain_next _ _ _ _ (wf_file_tus F WF) Hin) as [E|(x' & Hx' & E)]; [auto|].
    right. exists x'. rewrite <- E. apply tu_at_self. exact Hx'.
  Qed.

  Lemma parse_TU_ok s off x : curlen s -> tu_at F off = Some x -> cur_only (parse_TU_at_offset P off) s (Ok (tu_hdr x)).
  Proof.
    intros Hc Hx. unfold parse_TU_at_offset.
    assert (Hsid : (S_TYPES < length (cur s))%nat) by (rewrite Hc; unfold S_TYPES, NSTREAMS; lia).
    pose proof (cur_only_struct_parse (p_tu P) S_TYPES off s Hsid) as X.
    assert (Hp : p_tu P off = Ok (tu_hdr x, snd x)) by (unfold P; pcbn; rewrite Hx; reflexivity).
    rewrite Hp in X. exact X.
  Qed.

  Lemma tus_iter_next_ok s off x : curlen s -> tu_at F off = Some x ->
    cur_only (tus_iter_next P off) s (Ok (Some (tu_hdr x, off + tu_size (tu_hdr x)))).
  Proof.
    intros Hc Hx. unfold tus_iter_next. destruct (tu_at_in _ _ Hx) as [Hin Eo].
    destruct (tus_chain_props F WF _ _ _ (wf_file_tus F WF)) as [_ Hr]. destruct (Hr x Hin) as (A & B & C).
    replace (p_types_size P) with (f_types_size F) by reflexivity.
    destruct (Z.ltb_spec off (f_types_size F)); [|lia].
    eapply cur_only_bind; [apply parse_TU_ok; eauto|]. intros c1 L1. apply cur_only_ret.
  Qed.

  Lemma types_loop_ok l : forall pos n s m, tus_chain pos l (f_types_size F) = true ->
    (forall x, In x l -> tu_at F (tu_off x) = Some x) -> (length l < n)%nat -> curlen s -> tu_map s = Some m ->
    exists c', types_loop P n pos s = (set_cur (set_tu_map s (Some (fold_left put (map tu_kv l) m))) c', Ok tt) /\
               length c' = length (cur s).
  Proof.
    induction l as [|x r IH]; intros pos n s m Hch Hself Hn Hc Hm; (destruct n as [|n]; [cbn in Hn; lia|]); cbn [types_loop].
    - cbn [tus_chain] in Hch. unfold tus_iter_next. replace (p_types_size P) with (f_types_size F) by reflexivity.
      destruct (Z.ltb_spec pos (f_types_size F)); [lia|]. exists (cur s). split; [|reflexivity].
      cbn [map fold_left]. unfold bindM, ret. f_equal. rewrite <- Hm. destruct s; reflexivity.
    - pose proof Hch as Hch0. cbn [tus_chain] in Hch. apply andb_prop in Hch. destruct Hch as [Hch H3].
      apply andb_prop in Hch. destruct Hch as [H1 H2]. assert (Epos : tu_off x = pos) by lia.
      pose proof (Hself x (or_introl eq_refl)) as Hx. rewrite Epos in Hx.
      destruct (tus_iter_next_ok s pos x Hc Hx) as (c1 & E1 & L1).
      rewrite (bind_ok _ _ _ _ _ E1). unfold tumap_put. rewrite bind_modify. scbn. rewrite Hm.
      edestruct (IH (pos + tu_size (tu_hdr x)) n
                    (set_tu_map (set_cur s c1) (Some (dict_set Z.eqb m (tu_sig (tu_hdr x)) (0, pos, tu_pid (tu_hdr x))))))
        as (c2 & E2 & L2); [exact H3 | intros y Hy; apply Hself; cbn; auto | cbn in Hn; lia | unfold curlen in *; scbn; congruence | reflexivity |].
      exists c2. rewrite E2. split; [|cbn [cur set_cur set_tu_map] in L2; congruence].
      cbn [map fold_left].
      replace (put m (tu_kv x)) with (dict_set Z.eqb m (tu_sig (tu_hdr x)) (0, pos, tu_pid (tu_hdr x)))
        by (unfold put, tu_kv; cbn [fst snd]; rewrite Epos; reflexivity).
      reflexivity.
  Qed.

  Lemma info_types_loop_ok l : forall pos n s m, Inv F (core s) -> tu_map s = Some m ->
    units_chain pos l (f_info_size F) = true -> (forall ud, In ud l -> unit_at F (ud_off ud) = Some ud) ->
    (length l < n)%nat ->
    exists s', info_types_loop P n pos s = (s', Ok tt) /\ Inv F (core s') /\ ext s s' /\
               tu_map s' = Some (fold_left put (flat_map unit_kvs l) m).
  Proof.
    induction l as [|ud r IH]; intros pos n s m HI Hm Hch Hself Hn; (destruct n as [|n]; [cbn in Hn; lia|]); cbn [info_types_loop].
    - cbn [units_chain] in Hch. unfold cus_iter_next. replace (p_info_size P) with (f_info_size F) by reflexivity.
      destruct (Z.ltb_spec pos (f_info_size F)); [lia|]. exists s. split; [reflexivity|]. split; [exact HI|].
      split; [apply ext_refl|exact Hm].
    - pose proof Hch as Hch0. cbn [units_chain] in Hch. apply andb_prop in Hch. destruct Hch as [Hch H3].
      apply andb_prop in Hch. destruct Hch as [H1 H2]. assert (Epos : ud_off ud = pos) by lia.
      pose proof (Hself ud (or_introl eq_refl)) as Hu. rewrite Epos in Hu.
      destruct (cus_iter_next_ok F WF fuel Hfu (core s) pos ud HI Hu) as (s1 & id & E1 & HI1 & X1 & Hat).
      assert (E1' : cus_iter_next P pos s = (set_tu_map s1 (Some m), Ok (Some (id, pos + usize ud)))).
      { rewrite <- (set_tu_map_self s) at 1. rewrite Hm.
        change (set_tu_map s (Some m)) with (set_tu_map (core s) (Some m)).
        rewrite cus_iter_next_comm. fold P in E1. rewrite E1. reflexivity. }
      rewrite (bind_ok _ _ _ _ _ E1').
      destruct (cu_at_facts F WF fuel Hfu _ _ _ HI1 Hat) as (c & ud' & Hc & Eo & Hu' & Eh & _).
      assert (ud' = ud) by congruence. subst ud'.
      assert (Hc' : nth_error (cus (set_tu_map s1 (Some m))) id = Some c) by exact Hc.
      rewrite (bind_get_cu _ _ _ _ Hc'). rewrite Eh.
      set (m' := fold_left put (unit_kvs ud) m).
      assert (Estep : (match uh_tsig (ud_hdr ud) with
                       | Some sig => tumap_put sig (1, c_off c, uh_pid (ud_hdr ud))
                       | None => ret tt end) (set_tu_map s1 (Some m)) = (set_tu_map s1 (Some m'), Ok tt)).
      { unfold m', unit_kvs. destruct (uh_tsig (ud_hdr ud)) as [sig|]; [|reflexivity].
        unfold tumap_put, modify. scbn. cbn [fold_left put fst snd]. rewrite Eo, Epos. reflexivity. }
      rewrite (bind_ok _ _ _ _ _ Estep).
      destruct (IH (pos + usize ud) n (set_tu_map s1 (Some m')) m') as (s2 & E2 & HI2 & X2 & Hm2).
      + apply (Inv_core s1 HI1).
      + reflexivity.
      + exact H3.
      + intros x Hx. apply Hself. cbn; auto.
      + cbn in Hn. lia.
      + exists s2. split; [exact E2|]. split; [exact HI2|].
        split; [eapply ext_trans; [|exact X2]; destruct X1 as (XA & XB & XF); repeat split; auto|].
        rewrite Hm2. cbn [flat_map]. rewrite fold_left_app. reflexivity.
  Qed.

  Lemma parse_debug_types_ok s : Inv F s ->
    exists s', parse_debug_types P fuel s = (s', Ok tt) /\ Inv F s' /\ ext s s' /\ tu_map s' = Some (tumap_spec F).
  Proof.
    intros HI. unfold parse_debug_types. rewrite bind_get_state.
    destruct (tu_map s) as [m|] eqn:Hm.
    - exists s. split; [reflexivity|]. split; [exact HI|]. split; [apply ext_refl|].
      rewrite (inv_tumap _ _ HI _ Hm) in Hm. exact Hm.
    - rewrite bind_modify.
      destruct (types_loop_ok (f_tus F) 0 fuel (set_tu_map s (Some [])) [] (wf_file_tus F WF)) as (c1 & E1 & L1);
        [intros x Hx; apply tu_at_self; exact Hx | apply Hft | apply (inv_cur _ _ HI) | reflexivity |].
      rewrite (bind_ok _ _ _ _ _ E1).
      set (m1 := fold_left put (map tu_kv (f_tus F)) []) in *.
      destruct (wf_file_parts F WF) as (Hchain & _).
      destruct (info_types_loop_ok (f_units F) 0 fuel (set_cur (set_tu_map (set_tu_map s (Some [])) (Some m1)) c1) m1)
        as (s2 & E2 & HI2 & X2 & Hm2).
      + unfold core. scbn. apply (Inv_core (set_cur s c1)). apply Inv_set_cur; [exact HI|]. cbn [cur set_cur set_tu_map] in L1. exact L1.
      + reflexivity.
      + exact Hchain.
      + intros ud Hud. apply (unit_at_self F WF). exact Hud.
      + exact Hfu.
      + exists s2. split; [exact E2|]. split; [|split].
        * rewrite <- (set_tu_map_self s2). rewrite Hm2. apply Inv_with_tumap; [exact HI2|].
          unfold tumap_spec, dict_of_list, tumap_list. rewrite fold_left_app. reflexivity.
        * eapply ext_trans; [|exact X2]. ext_triv.
        * rewrite Hm2. unfold tumap_spec, dict_of_list, tumap_list. rewrite fold_left_app. reflexivity.
  Qed.

  Lemma ref_TUBySig s afs sig : Inv F s -> frames_rel F s afs -> refines F fuel s afs (TUBySig sig).
  Proof.
    intros HI Hfr. destruct (parse_debug_types_ok s HI) as (s1 & E1 & HI1 & X1 & Hm1).
    eapply (query_finish F WF fuel Hfuel) with (s' := s1) (r := match dict_get Z.eqb (tumap_spec F) sig with
                                             | Some v => Ok (AVals [fst (fst v); snd (fst v); snd v])
                                             | None => Err (EPy "KeyError") end);
      [exact Hfr| |exact HI1|exact X1| |reflexivity].
    - cbn [run_op]. unfold get_TU_by_sig8. fold P.
      destruct (dict_get Z.eqb (tumap_spec F) sig) as [v|] eqn:Hg.
      + assert (Eg : get_TU_by_sig8 P fuel sig s = (s1, Ok v)).
        { unfold get_TU_by_sig8. rewrite (bind_ok _ _ _ _ _ E1), bind_get_state, Hm1, Hg. reflexivity. }
        unfold get_TU_by_sig8 in Eg. rewrite (bind_ok _ _ _ _ _ Eg). reflexivity.
      + assert (Eg : get_TU_by_sig8 P fuel sig s = (s1, Err (EPy "KeyError"))).
        { unfold get_TU_by_sig8. rewrite (bind_ok _ _ _ _ _ E1), bind_get_state, Hm1, Hg. reflexivity. }
        unfold get_TU_by_sig8 in Eg. rewrite (bind_err _ _ _ _ _ Eg). reflexivity.
    - cbn [query_spec]. destruct (dict_get Z.eqb (tumap_spec F) sig); reflexivity.
  Qed.

  Lemma first_tu : 0 < f_types_size F -> exists x, tu_at F 0 = Some x.
  Proof.
    intros H. pose proof (wf_file_tus F WF) as Hc.
    assert (G : forall l, tus_chain 0 l (f_types_size F) = true -> exists x, In x l /\ tu_off x = 0).
    { intros [|x r] Hl; cbn [tus_chain] in Hl; [lia|]. exists x.
      apply andb_prop in Hl. destruct Hl as [Hl _]. apply andb_prop in Hl. destruct Hl as [Hl _].
      split; [cbn; auto|lia]. }
    destruct (G _ Hc) as (x & Hin & E0). exists x. rewrite <- E0. apply tu_at_self. exact Hin.
  Qed.

  Lemma ref_NewIterTUs s afs slot : Inv F s -> frames_rel F s afs -> refines F fuel s afs (NewIterTUs slot).
  Proof.
    intros HI Hfr. eapply (new_finish F WF fuel Hfuel) with (s1 := s) (f := FTUs 0) (af := AFTUs 0);
      [exact Hfr|reflexivity|exact HI|apply ext_refl| |reflexivity].
    constructor. apply first_tu.
  Qed.

  Lemma next_tus s off : Inv F s -> frame_rel F s (FTUs off) (AFTUs off) -> next_ok F fuel s (FTUs off) (AFTUs off).
  Proof.
    intros HI Hf. inversion Hf as [| |? Hx| | | | | | |]. subst. unfold next_ok. cbn [frame_next aframe_next].
    destruct (Z.ltb_spec off (f_types_size F)) as [Hlt|Hge].
    - destruct (Hx Hlt) as (x & Hxo). rewrite Hxo.
      destruct (tus_iter_next_ok s off x (inv_cur _ _ HI) Hxo) as (c1 & E1 & L1).
      exists (set_cur s c1), (Ok (Some (FTUs (off + tu_size (tu_hdr x)), AVals [0; off; tu_pid (tu_hdr x)]))).
      fold P. rewrite (bind_ok _ _ _ _ _ E1).
      split; [reflexivity|]. split; [apply Inv_set_cur; auto|]. split; [apply ext_set_cur|].
      eexists. split; [reflexivity|]. constructor. intros Hlt2.
      destruct (tu_next _ _ Hxo) as [E|H]; [lia|exact H].
    - exists s, (Ok None). split.
      + unfold tus_iter_next. replace (p_types_size (parsers_of F)) with (f_types_size F) by reflexivity.
        destruct (Z.ltb_spec off (f_types_size F)); [lia|]. reflexivity.
      + split; [exact HI|]. split; [apply ext_refl|reflexivity].
  Qed.
End TUs.
