(* Proofs/C09Tables.v — the decoding dicts the code selects (tabulated by the translator
   from the live ELFStructs) against the standard: which tag set applies to which
   machine / OS ABI, and that every selectable dict gives the interpreted tags,
   segment types and section types their gABI numbers (and only those). *)
From PV Require Import Model.C09Dynamic Base.Enum.
Open Scope string_scope.
Open Scope list_scope.
Open Scope Z_scope.

Definition table_of_kind (k : dtab_kind) : list (Z * string) :=
  let pick := fun m o => match table_of_id (dtab_id m o) with Ok t => t | Err _ => [] end in
  match k with
  | KCommon => pick 0 0
  | KMips => pick 8 0
  | KAarch64 => pick 183 0
  | KSolaris => pick 0 6
  end.
Definition spec_dtab (machine osabi : Z) : list (Z * string) :=
  table_of_kind (spec_dtab_kind machine osabi).
