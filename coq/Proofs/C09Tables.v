(* Proofs/C09Tables.v — the decoding dicts the code selects (tabulated by the translator
   from the live ELFStructs) against the standard: which tag set applies to which
   machine / OS ABI, and that every selectable dict gives the interpreted tags,
   segment types and section types their gABI numbers (and only those). *)
From PV Require Import Model.C09Dynamic Base.Enum Gen.C09Hash.
Open Scope string_scope.
Open Scope list_scope.
Open Scope Z_scope.

Definition table_of_kind (k : dtab_kind) : list (Z * string) :=
  let pick := fun m o => match table_of_id (dtab_id m o) with Ok t => t | Err _ => [] end in
  match k with
  | KCommon => pick 0 0
  | KMips => pick 8 0
  | KAarch64 => pick 183 0
  | KSolaris => pick 0 6
  end.
Definition spec_dtab (machine osabi : Z) : list (Z * string) :=
  table_of_kind (spec_dtab_kind machine osabi).

(* ---------- a name of a decoding dict stands for exactly one number ---------- *)
Definition name_is (T : list (Z * string)) (val : Z) (name : string) : Prop :=
  forall v, is_name (dec_enum T v) name = (v =? val).
Definition name_absent (T : list (Z * string)) (name : string) : Prop :=
  forall v, is_name (dec_enum T v) name = false.

Definition name_okb (T : list (Z * string)) (p : Z * string) : bool :=
  match dict_get T (fst p) with Some n => (n =? snd p)%string | None => false end &&
  forallb (fun kn => negb (snd kn =? snd p)%string || (fst kn =? fst p)) T.
Definition name_absentb (T : list (Z * string)) (name : string) : bool :=
  forallb (fun kn => negb (snd kn =? name)%string) T.

Lemma dict_get_in T : forall v n, dict_get T v = Some n -> In (v, n) T.
Proof.
  induction T as [|[k x] T IH]; intros v n H; cbn [dict_get] in H; [discriminate|].
  destruct (Z.eqb_spec k v) as [->|Hne].
  - inversion H; subst. left; reflexivity.
  - right. apply IH. exact H.
Qed.

Lemma name_okb_sound T val name : name_okb T (val, name) = true -> name_is T val name.
Proof.
  unfold name_okb, name_is. cbn [fst snd]. intros H v.
  apply andb_prop in H. destruct H as [Hget Hall].
  destruct (dict_get T val) as [n0|] eqn:E0; [|discriminate].
  apply String.eqb_eq in Hget. subst n0.
  unfold dec_enum. destruct (dict_get T v) as [n|] eqn:E; cbn [is_name].
  - destruct (String.eqb_spec n name) as [->|Hn].
    + apply dict_get_in in E. rewrite forallb_forall in Hall. specialize (Hall _ E).
      cbn [fst snd] in Hall. rewrite String.eqb_refl in Hall. cbn in Hall. symmetry. exact Hall.
    + destruct (Z.eqb_spec v val) as [->|Hv]; [|reflexivity].
      rewrite E0 in E. inversion E. congruence.
  - destruct (Z.eqb_spec v val) as [->|Hv]; [|reflexivity]. congruence.
Qed.

Lemma name_absentb_sound T name : name_absentb T name = true -> name_absent T name.
Proof.
  unfold name_absentb, name_absent. intros H v. unfold dec_enum.
  destruct (dict_get T v) as [n|] eqn:E; cbn [is_name]; [|reflexivity].
  apply dict_get_in in E. rewrite forallb_forall in H. specialize (H _ E). cbn [snd] in H.
  destruct (n =? name)%string; [discriminate|reflexivity].
Qed.

Lemma names_okb_sound T l :
  forallb (name_okb T) l = true -> forall val name, In (val, name) l -> name_is T val name.
Proof.
  intros H val name Hin. rewrite forallb_forall in H. apply name_okb_sound. apply H. exact Hin.
Qed.

(* ---------- the machine -> dict maps are total; what holds of every selectable dict ---------- *)
Lemma machine_key_cases m :
  (exists n, machine_key m = n /\ In (m, n) E005_e_machine) \/ machine_key m = "<raw>".
Proof.
  unfold machine_key. destruct (dict_get E005_e_machine m) as [n|] eqn:E.
  - left. exists n. split; [reflexivity|]. apply dict_get_in. exact E.
  - right. reflexivity.
Qed.

Section sel.
Variable M : list (string * string).          (* machine name -> dict id *)
Variable okb : list (Z * string) -> bool.
Definition sel_key_okb (n : string) : bool :=
  match assoc_s M n with
  | Some id => match assoc_s gen_enum_tables id with Some T => okb T | None => false end
  | None => false
  end.
Definition sel_okb : bool := forallb (fun kn => sel_key_okb (snd kn)) ((0, "<raw>") :: E005_e_machine).
Lemma sel_ok : sel_okb = true ->
  forall m, exists T, table_of_id (assoc_s M (machine_key m)) = Ok T /\ okb T = true.
Proof.
  intros H m. unfold sel_okb in H. rewrite forallb_forall in H.
  assert (Hk : sel_key_okb (machine_key m) = true).
  { destruct (machine_key_cases m) as [[n [-> Hin]]| ->].
    - apply (H (m, n)). right. exact Hin.
    - apply (H (0, "<raw>")). left. reflexivity. }
  unfold sel_key_okb in Hk. destruct (assoc_s M (machine_key m)) as [id|]; [|discriminate].
  cbn [table_of_id]. destruct (assoc_s gen_enum_tables id) as [T|]; [|discriminate].
  exists T. split; [reflexivity|exact Hk].
Qed.
End sel.

(* segment types and section types: every machine's dict has the gABI numbers *)
Lemma ptab_ok : forall m, exists T,
  table_of_id (assoc_s gen_p_type_table_of_machine (machine_key m)) = Ok T /\
  forallb (name_okb T) spec_pt_names = true.
Proof. apply sel_ok. vm_compute. reflexivity. Qed.

Lemma stab_ok : forall m, exists T,
  table_of_id (assoc_s gen_sh_type_table_of_machine (machine_key m)) = Ok T /\
  forallb (name_okb T) spec_sht_names = true.
Proof. apply sel_ok. vm_compute. reflexivity. Qed.

(* ---------- which d_tag dict: the code's choice is the standard's ---------- *)
Definition rep_machine (k : dtab_kind) : Z := match k with KMips => 8 | KAarch64 => 183 | _ => 0 end.
Definition rep_osabi (k : dtab_kind) : Z := match k with KSolaris => 6 | _ => 0 end.
Definition opt_eqb (a b : option string) : bool :=
  match a, b with Some x, Some y => (x =? y)%string | None, None => true | _, _ => false end.
Lemma opt_eqb_eq a b : opt_eqb a b = true -> a = b.
Proof.
  destruct a as [x|], b as [y|]; cbn; intros H; try discriminate; [|reflexivity].
  apply String.eqb_eq in H. congruence.
Qed.
Definition dsel (sol : bool) (n : string) : option string :=
  if sol then assoc_s gen_d_tag_table_of_machine_solaris n else assoc_s gen_d_tag_table_of_machine n.
Definition kind_of (m : Z) (sol : bool) : dtab_kind :=
  if (m =? 8) || (m =? 10) then KMips else if m =? 183 then KAarch64 else if sol then KSolaris else KCommon.
Definition dsel_okb (sol : bool) (kn : Z * string) : bool :=
  let k := kind_of (fst kn) sol in
  opt_eqb (dsel sol (snd kn)) (dtab_id (rep_machine k) (rep_osabi k)).

Lemma osabi_solaris o : (osabi_key o =? "ELFOSABI_SOLARIS")%string = (o =? 6).
Proof.
  assert (H : name_is E003_EI_OSABI 6 "ELFOSABI_SOLARIS") by (apply name_okb_sound; vm_compute; reflexivity).
  specialize (H o). unfold osabi_key. unfold dec_enum in H.
  destruct (dict_get E003_EI_OSABI o) as [n|]; cbn [is_name] in H; [exact H|].
  rewrite <- H. reflexivity.
Qed.

Lemma dtab_id_kind m o :
  dtab_id m o = let k := spec_dtab_kind m o in dtab_id (rep_machine k) (rep_osabi k).
Proof.
  assert (Hall : forall sol, forallb (dsel_okb sol) E005_e_machine = true)
    by (intros [|]; vm_compute; reflexivity).
  assert (Hraw : forall sol, dsel sol "<raw>" = dtab_id (rep_machine (if sol then KSolaris else KCommon))
                                                        (rep_osabi (if sol then KSolaris else KCommon)))
    by (intros [|]; vm_compute; reflexivity).
  assert (Hd : dtab_id m o = dsel (o =? 6) (machine_key m)).
  { unfold dtab_id, dsel. rewrite osabi_solaris. reflexivity. }
  assert (Hk : spec_dtab_kind m o = kind_of m (o =? 6)) by reflexivity.
  cbv zeta. rewrite Hk, Hd.
  destruct (machine_key_cases m) as [[n [-> Hin]]|Hr].
  - specialize (Hall (o =? 6)). rewrite forallb_forall in Hall. specialize (Hall _ Hin).
    unfold dsel_okb in Hall. cbn [fst snd] in Hall. apply opt_eqb_eq in Hall. exact Hall.
  - rewrite Hr, Hraw. unfold machine_key in Hr.
    assert (Hm : ((m =? 8) || (m =? 10)) = false /\ (m =? 183) = false).
    { destruct (dict_get E005_e_machine m) as [n|] eqn:E.
      - exfalso. apply dict_get_in in E. subst n.
        assert (Hno : forallb (fun kn => negb (snd kn =? "<raw>")%string) E005_e_machine = true)
          by (vm_compute; reflexivity).
        rewrite forallb_forall in Hno. specialize (Hno _ E). discriminate.
      - split.
        + destruct (Z.eqb_spec m 8) as [->|]; [vm_compute in E; discriminate|].
          destruct (Z.eqb_spec m 10) as [->|]; [vm_compute in E; discriminate|]. reflexivity.
        + destruct (Z.eqb_spec m 183) as [->|]; [vm_compute in E; discriminate|]. reflexivity. }
    destruct Hm as [Hm1 Hm2]. unfold kind_of. rewrite Hm1, Hm2. reflexivity.
Qed.

(* the dict ELFStructs._create_dyn builds is the standard's tag set for the platform *)
Lemma dtab_selection m o : table_of_id (dtab_id m o) = Ok (spec_dtab m o).
Proof.
  rewrite dtab_id_kind. unfold spec_dtab. cbv zeta.
  destruct (spec_dtab_kind m o); vm_compute; reflexivity.
Qed.

(* in each of the four tag sets the interpreted tags have their standard numbers;
   DT_SUNW_FILTER exists in the Solaris set only *)
Definition is_solaris_kind (k : dtab_kind) : bool := match k with KSolaris => true | _ => false end.
Lemma dtab_names k : forall val name, In (val, name) spec_dt_names -> name_is (table_of_kind k) val name.
Proof. apply names_okb_sound. destruct k; vm_compute; reflexivity. Qed.
Lemma dtab_sunw k :
  if is_solaris_kind k then name_is (table_of_kind k) DT_SUNW_FILTER "DT_SUNW_FILTER"
  else name_absent (table_of_kind k) "DT_SUNW_FILTER".
Proof.
  destruct k; cbn [is_solaris_kind];
    first [apply name_okb_sound; vm_compute; reflexivity | apply name_absentb_sound; vm_compute; reflexivity].
Qed.

(* consequences used by the other proofs *)
Lemma dt_is m o val name : In (val, name) spec_dt_names ->
  forall v, is_name (dec_enum (spec_dtab m o) v) name = (v =? val).
Proof. intros H. apply dtab_names. exact H. Qed.

Lemma handled_is_string_tag m o v :
  handled_tag (dec_enum (spec_dtab m o) v) = string_tag (spec_is_solaris m o) v.
Proof.
  unfold handled_tag, string_tag, spec_is_solaris, spec_dtab.
  pose proof (dtab_sunw (spec_dtab_kind m o)) as Hs.
  rewrite (dtab_names _ DT_NEEDED "DT_NEEDED"), (dtab_names _ DT_RPATH "DT_RPATH"),
          (dtab_names _ DT_RUNPATH "DT_RUNPATH"), (dtab_names _ DT_SONAME "DT_SONAME")
    by (cbn; tauto).
  destruct (spec_dtab_kind m o); cbn [is_solaris_kind] in Hs; rewrite Hs; cbn [andb];
    destruct (v =? DT_NEEDED), (v =? DT_SONAME), (v =? DT_RPATH), (v =? DT_RUNPATH); reflexivity.
Qed.

(* ---------- SysV hash entry width: the code's choice per machine and class is the psABIs' ---------- *)
Definition hash_wide_of (n : string) (b : bool) : bool :=
  existsb (fun p => (fst p =? n)%string && Bool.eqb (snd p) b) gen_hash_wide.

Lemma hash_wide_spec f : hash_wide f = spec_hash_wide (e_machine (f_eh f)) (f_is64 f).
Proof.
  unfold hash_wide. fold (hash_wide_of (machine_key (e_machine (f_eh f))) (f_is64 f)).
  generalize (e_machine (f_eh f)) as m. generalize (f_is64 f) as b. intros b m.
  assert (Hall : forall b, forallb (fun kn => Bool.eqb (hash_wide_of (snd kn) b) (spec_hash_wide (fst kn) b))
                                   E005_e_machine = true) by (intros [|]; vm_compute; reflexivity).
  destruct (machine_key_cases m) as [[n [-> Hin]]|Hr].
  - specialize (Hall b). rewrite forallb_forall in Hall. specialize (Hall _ Hin). cbn [fst snd] in Hall.
    apply Bool.eqb_prop in Hall. exact Hall.
  - rewrite Hr. replace (hash_wide_of "<raw>" b) with false by (destruct b; vm_compute; reflexivity).
    unfold machine_key in Hr. destruct (dict_get E005_e_machine m) as [n|] eqn:E.
    + exfalso. apply dict_get_in in E. subst n.
      assert (Hno : forallb (fun kn => negb (snd kn =? "<raw>")%string) E005_e_machine = true) by (vm_compute; reflexivity).
      rewrite forallb_forall in Hno. specialize (Hno _ E). discriminate.
    + unfold spec_hash_wide.
      destruct (Z.eqb_spec m EM_ALPHA) as [->|]; [vm_compute in E; discriminate|].
      destruct (Z.eqb_spec m EM_S390) as [->|]; [vm_compute in E; discriminate|].
      destruct b; reflexivity.
Qed.

Lemma gen_Elf_Hash_wide_spec le : gen_Elf_Hash_wide le = spec_Elf_Hash_w le true.
Proof. destruct le; reflexivity. Qed.
