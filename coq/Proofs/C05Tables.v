(* Proofs/C05Tables.v — the tables regenerated from the live modules (Gen/C05Tables.v) are the
   standard's.  An edit of a constant, of ENUM_DW_LNCT, of a form value or of the parser bound to
   one of the domain's forms changes the Gen file and one of these stops compiling. *)
From PV Require Import Spec.C05Line Spec.C05Header Model.C05Kinds Model.C05Header Gen.C05Tables.
Open Scope list_scope.
Open Scope Z_scope.

Lemma gen_lns_standard : tbl_c05_lns = spec_lns.
Proof. reflexivity. Qed.
Lemma gen_lne_standard : tbl_c05_lne = spec_lne.
Proof. reflexivity. Qed.
Lemma gen_lnct_standard : tbl_c05_lnct = spec_lnct /\ c05_lnct_default = false.
Proof. split; reflexivity. Qed.

(* the constants the decoder branches on *)
Lemma gen_opcode_constants :
  [DW_LNS_copy; DW_LNS_advance_pc; DW_LNS_advance_line; DW_LNS_set_file; DW_LNS_set_column;
   DW_LNS_negate_stmt; DW_LNS_set_basic_block; DW_LNS_const_add_pc; DW_LNS_fixed_advance_pc;
   DW_LNS_set_prologue_end; DW_LNS_set_epilogue_begin; DW_LNS_set_isa] = map snd spec_lns /\
  [DW_LNE_end_sequence; DW_LNE_set_address; DW_LNE_define_file; DW_LNE_set_discriminator] =
  firstn 4 (map snd spec_lne).
Proof. split; reflexivity. Qed.

(* the parser construct bound to each form of the domain, as the standard encodes that form
   (DWARF 5 section 7.5.6) *)
Definition spec_form_kind (f : lform) : pkind :=
  match f with
  | LF_string => KCString
  | LF_line_strp | LF_strp => KOffset
  | LF_udata => KUleb
  | LF_data1 => KUInt 1 | LF_data2 => KUInt 2 | LF_data4 => KUInt 4 | LF_data8 => KUInt 8
  | LF_data16 => KArray 16
  | LF_block => KBlock KUleb
  end.
Definition spec_form_name (f : lform) : string :=
  match f with
  | LF_string => "DW_FORM_string" | LF_line_strp => "DW_FORM_line_strp" | LF_strp => "DW_FORM_strp"
  | LF_udata => "DW_FORM_udata" | LF_data1 => "DW_FORM_data1" | LF_data2 => "DW_FORM_data2"
  | LF_data4 => "DW_FORM_data4" | LF_data8 => "DW_FORM_data8" | LF_data16 => "DW_FORM_data16"
  | LF_block => "DW_FORM_block"
  end.
Lemma gen_forms_standard : forall f,
  form_lookup tbl_c05_forms (lform_code f) = Some (spec_form_name f, spec_form_kind f).
Proof. intros f; destruct f; reflexivity. Qed.
