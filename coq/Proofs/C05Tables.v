(* Proofs/C05Tables.v — the tables regenerated from the live modules (Gen/C05Tables.v) are the
   standard's.  An edit of a constant, of ENUM_DW_LNCT, of a form value or of the parser bound to
   one of the domain's forms changes the Gen file and one of these stops compiling. *)
From PV Require Import Spec.C05Line Spec.C05Header Model.C05Kinds Model.C05Header Gen.C05Tables.
Open Scope list_scope.
Open Scope Z_scope.

Lemma gen_lns_standard : tbl_c05_lns = spec_lns.
Proof. reflexivity. Qed.
Lemma gen_lne_standard : tbl_c05_lne = spec_lne.
Proof. reflexivity. Qed.
Lemma gen_lnct_standard : tbl_c05_lnct = spec_lnct /\ c05_lnct_default = false.
Proof. split; reflexivity. Qed.

(* the constants the decoder branches on *)
Lemma gen_opcode_constants :
  [DW_LNS_copy; DW_LNS_advance_pc; DW_LNS_advance_line; DW_LNS_set_file; DW_LNS_set_column;
   DW_LNS_negate_stmt; DW_LNS_set_basic_block; DW_LNS_const_add_pc; DW_LNS_fixed_advance_pc;
   DW_LNS_set_prologue_end; DW_LNS_set_epilogue_begin; DW_LNS_set_isa] = map snd spec_lns /\
  [DW_LNE_end_sequence; DW_LNE_set_address; DW_LNE_define_file; DW_LNE_set_discriminator] =
  firstn 4 (map snd spec_lne).
Proof. split; reflexivity. Qed.

(* the parser construct bound to each form of the domain, as the standard encodes that form
   (DWARF 5 section 7.5.6) *)
Definition spec_form_kind (f : lform) : pkind :=
  match f with
  | LF_string => KCString
  | LF_line_strp | LF_strp => KOffset
  | LF_udata => KUleb
  | LF_data1 => KUInt 1 | LF_data2 => KUInt 2 | LF_data4 => KUInt 4 | LF_data8 => KUInt 8
  | LF_data16 => KArray 16
  | LF_block => KBlock KUleb
  | LF_strp_sup | LF_GNU_strp_alt => KOffset
  end.
Definition spec_form_name (f : lform) : string :=
  match f with
  | LF_string => "DW_FORM_string" | LF_line_strp => "DW_FORM_line_strp" | LF_strp => "DW_FORM_strp"
  | LF_udata => "DW_FORM_udata" | LF_data1 => "DW_FORM_data1" | LF_data2 => "DW_FORM_data2"
  | LF_data4 => "DW_FORM_data4" | LF_data8 => "DW_FORM_data8" | LF_data16 => "DW_FORM_data16"
  | LF_block => "DW_FORM_block"
  | LF_strp_sup => "DW_FORM_strp_sup" | LF_GNU_strp_alt => "DW_FORM_GNU_strp_alt"
  end.
Lemma gen_forms_standard : forall f,
  form_lookup tbl_c05_forms (lform_code f) = Some (spec_form_name f, spec_form_kind f).
Proof. intros f; destruct f; reflexivity. Qed.

(* ---------------------------------------------------------------- the header struct *)
(* DWARF 2-5 section 6.2.4, field by field, under the names the library publishes (these names are
   API: LineProgram and its users read header['opcode_base'], header['file_entry'], ...):
     1 unit_length (initial length, 7.4)            2 version (uhalf)
     3 address_size (ubyte, version 5)              4 segment_selector_size (ubyte, version 5)
     5 header_length (4 or 8 bytes by format)       6 minimum_instruction_length (ubyte)
     7 maximum_operations_per_instruction (ubyte, version >= 4; otherwise the value is 1)
     8 default_is_stmt (ubyte)   9 line_base (sbyte)   10 line_range (ubyte)   11 opcode_base (ubyte)
    12 standard_opcode_lengths (opcode_base - 1 ubytes)
    versions 2-4: 13 include_directories (strings up to an empty one)
                  14 file_names (entries up to one with an empty name)
    version 5:    13 directory_entry_format_count (ubyte) 14 directory_entry_format (pairs of ULEB128)
                  15 directories_count (ULEB128)           16 directories
                  17 file_name_entry_format_count (ubyte)  18 file_name_entry_format
                  19 file_names_count (ULEB128)            20 file_names
   Parse_header of Model/C05Header.v reads exactly this list in this order. *)
Definition spec_header_layout : list (string * hfield) := [
  ("unit_length", HInitialLength);
  ("version", HField (KUInt 2));
  ("address_size", HIfVerGe 5 (HField (KUInt 1)) None);
  ("segment_selector_size", HIfVerGe 5 (HField (KUInt 1)) None);
  ("header_length", HField KOffset);
  ("minimum_instruction_length", HField (KUInt 1));
  ("maximum_operations_per_instruction", HIfVerGe 4 (HField (KUInt 1)) (Some 1));
  ("default_is_stmt", HField (KUInt 1));
  ("line_base", HField (KSInt 1));
  ("line_range", HField (KUInt 1));
  ("opcode_base", HField (KUInt 1));
  ("standard_opcode_lengths", HCountMinus1 "opcode_base" (KUInt 1));
  ("directory_entry_format", HIfVerGe 5 (HPrefixed "directory_entry_format_count" (KUInt 1) HFormatStruct) None);
  ("directories", HIfVerGe 5 (HPrefixed "directories_count" KUleb (HFormattedEntry "directory_entry_format")) None);
  ("file_name_entry_format", HIfVerGe 5 (HPrefixed "file_name_entry_format_count" (KUInt 1) HFormatStruct) None);
  ("file_names", HIfVerGe 5 (HPrefixed "file_names_count" KUleb (HFormattedEntry "file_name_entry_format")) None);
  ("include_directory", HIfVerLt 5 HUntilEmptyString None);
  ("file_entry", HIfVerLt 5 HUntilEmptyName None)
]%string.
(* 6.2.4 item 12 of DWARF 2-4 (file_names) and DW_LNE_define_file: a name, then three unsigned LEB128
   numbers, absent after the empty name that ends the list *)
Definition spec_file_entry_layout : list (string * hfield) := [
  ("name", HField KCString);
  ("", HIfNonEmpty "name" [("dir_index", KUleb); ("mtime", KUleb); ("length", KUleb)])
]%string.

Lemma gen_header_layout_standard :
  gen_c05_header = spec_header_layout /\ gen_c05_file_entry = spec_file_entry_layout.
Proof. split; reflexivity. Qed.
