(* Proofs/C10Elf.v — C10 refinement, ELF level: sections, section-name map, segments, symbols,
   symbol-name map, strings, dynamic tags (memoised count), and their generators.
   Every function is shown to (a) move cursors only, or cursors and one memo field, (b) return the
   stateless answer of Spec/C10Spec.v whatever the cursors and memo fields were before. *)
From PV Require Import Spec.C10Spec Proofs.C10Base.
From Coq Require Import ZArith List Bool Lia ZifyBool.
Import ListNotations.
Open Scope Z_scope.

Ltac pcbn := cbn [parsers_of p_info_size p_unit p_die p_types_size p_tu p_abbrev_size p_abbrev p_lphdr p_lpbody p_cfi p_cfi_count p_cfi_kind p_cfi_table
                  p_stream_len p_shoff p_shnum p_shentsize p_shstr_base p_shdr p_cstr p_phoff p_phentsize
                  p_phdr p_sym_base p_sym_entsize p_sym_count p_strtab_base p_sym p_dyn_base p_dyn_entsize p_dyn].

Lemma table_at_index {A} base es (l : list (A * Z)) n : 0 < es -> 0 <= n ->
  table_at base es l (base + n * es) =
  match nth_error l (Z.to_nat n) with Some v => Ok v | None => Err EParse end.
Proof.
  intros Hes Hn. unfold table_at, table_index.
  replace (base + n * es - base) with (n * es) by lia.
  rewrite Z.mod_mul, Z.div_mul by lia.
  destruct (Z.ltb_spec 0 es); [|lia]. destruct (Z.leb_spec 0 (n * es)); [|nia].
  rewrite Z.eqb_refl. reflexivity.
Qed.

Lemma in_table_nth {A} n (l : list A) : in_table n l = true -> exists v, nth_error l (Z.to_nat n) = Some v.
Proof.
  unfold in_table, zlen. intros H. apply andb_prop in H. destruct H as [H1 H2].
  destruct (nth_error l (Z.to_nat n)) as [v|] eqn:E; [eauto|]. apply nth_error_None in E. lia.
Qed.

Lemma in_table_range {A} n (l : list A) : in_table n l = true -> 0 <= n < zlen l.
Proof. unfold in_table. intros H. lia. Qed.

Lemma dict_get_in {V} (d : dict Z V) k v : dict_get Z.eqb d k = Some v -> In (k, v) d.
Proof.
  induction d as [|[k' v'] r IH]; cbn [dict_get]; [discriminate|].
  destruct (Z.eqb_spec k k') as [->|Hne]; intros H; [left; congruence | right; auto].
Qed.

(* ---- DT_NULL position *)
Lemma count_tags_spec l : forall nt, count_tags l = Some nt ->
  1 <= nt <= zlen l /\
  (exists t e, nth_error l (Z.to_nat (nt - 1)) = Some (t, e) /\ dy_null t = true) /\
  (forall j t e, Z.of_nat j < nt - 1 -> nth_error l j = Some (t, e) -> dy_null t = false).
Proof.
  induction l as [|[t e] r IH]; intros nt H; cbn [count_tags] in H; [discriminate|].
  rewrite zlen_cons. pose proof (zlen_nonneg r) as Hr.
  destruct (dy_null t) eqn:Et.
  - inversion H. subst nt. split; [lia|]. split.
    + exists t, e. cbn. auto.
    + intros j t' e' Hj. lia.
  - destruct (count_tags r) as [n|] eqn:Er; [|discriminate]. inversion H. subst nt.
    destruct (IH n eq_refl) as (Hb & (t1 & e1 & Hn & Hnull) & Hbefore). split; [lia|]. split.
    + exists t1, e1. split; auto. replace (Z.to_nat (n + 1 - 1)) with (S (Z.to_nat (n - 1))) by lia. exact Hn.
    + intros [|j] t' e' Hj Hnth; cbn [nth_error] in Hnth.
      * congruence.
      * eapply Hbefore; [|exact Hnth]. lia.
Qed.

Section Elf.
  Set Default Proof Using "All".
  Variable F : file.
  Hypothesis WF : wf_elf F = true.
  Variable fuel : nat.
  Hypothesis Hfuel : zlen (f_dyns F) <= Z.of_nat fuel.
  Let P := parsers_of F.

  Lemma wf_elf_facts :
    0 < f_shentsize F /\ 0 < f_shoff F /\ f_shnum F = zlen (f_shdrs F) /\ 0 < f_shnum F /\
    f_shoff F + f_shnum F * f_shentsize F <= f_stream_len F /\
    (forall h, In h (f_shdrs F) -> exists v, str_at F (f_shstr_base F + sh_name (fst h)) = Some v) /\
    (0 < f_phentsize F \/ f_phdrs F = []) /\
    (has_symtab F = true \/ f_syms F = []) /\
    (forall e, In e (f_syms F) -> exists v, str_at F (f_strtab_base F + sy_name (fst e)) = Some v) /\
    (has_dyn F = true \/ f_dyns F = []).
  Proof.
    unfold wf_elf in WF.
    apply andb_prop in WF. destruct WF as [W Hdy].
    apply andb_prop in W. destruct W as [W Hsn].
    apply andb_prop in W. destruct W as [W Hsy].
    apply andb_prop in W. destruct W as [W Hph].
    apply andb_prop in W. destruct W as [W Hnm].
    apply andb_prop in W. destruct W as [W Hbd].
    apply andb_prop in W. destruct W as [W Hpos].
    apply andb_prop in W. destruct W as [W Hnum].
    apply andb_prop in W. destruct W as [Hes Hoff].
    split; [lia|]. split; [lia|]. split; [lia|]. split; [lia|]. split; [lia|].
    split.
    { intros h Hh. rewrite forallb_forall in Hnm. specialize (Hnm _ Hh).
      destruct (str_at F (f_shstr_base F + sh_name (fst h))); [eauto|discriminate]. }
    split.
    { destruct (f_phdrs F); [auto|]. left. lia. }
    split.
    { destruct (f_syms F); [auto|]. left. lia. }
    split.
    { intros e He. rewrite forallb_forall in Hsn. specialize (Hsn _ He).
      destruct (str_at F (f_strtab_base F + sy_name (fst e))); [eauto|discriminate]. }
    destruct (f_dyns F); [auto|]. left. lia.
  Qed.

  Definition curlen (s : state) : Prop := length (cur s) = NSTREAMS.

  Lemma curlen_elf s : curlen s -> (S_ELF < length (cur s))%nat.
  Proof. unfold curlen, NSTREAMS, S_ELF. lia. Qed.

  Lemma curlen_set s c : curlen s -> length c = length (cur s) -> curlen (set_cur s c).
  Proof. unfold curlen. cbn. congruence. Qed.

  (* ---- strings *)
  Lemma get_string_ok s base off v : curlen s -> str_at F (base + off) = Some v ->
    cur_only (get_string P base off) s (Ok v).
  Proof.
    intros Hc Hs. unfold get_string.
    pose proof (cur_only_seek_parse (p_cstr P) S_ELF (base + off) s (curlen_elf _ Hc)) as X.
    unfold str_at in Hs.
    destruct (zassoc (base + off) (f_strs F)) as [[v' e]|] eqn:Ez; [|discriminate].
    inversion Hs. subst.
    assert (Hp : p_cstr P (base + off) = Ok (v, e)) by (unfold P; pcbn; rewrite Ez; reflexivity).
    rewrite Hp in X. exact X.
  Qed.

  (* ---- sections *)
  Lemma get_section_header_ok s n h e : curlen s -> 0 <= n ->
    nth_error (f_shdrs F) (Z.to_nat n) = Some (h, e) -> cur_only (get_section_header P n) s (Ok h).
  Proof.
    intros Hc Hn Hnth. destruct wf_elf_facts as (Hes & Hoff & Hnum & Hpos & Hbound & _).
    assert (Hlt : n < f_shnum F).
    { rewrite Hnum. unfold zlen. assert (Z.to_nat n < length (f_shdrs F))%nat by (apply nth_error_Some; congruence). lia. }
    unfold get_section_header. unfold P. pcbn.
    destruct (Z.ltb_spec (f_stream_len F) (f_shoff F + n * f_shentsize F)) as [Hbad|_]; [nia|].
    pose proof (cur_only_struct_parse (table_at (f_shoff F) (f_shentsize F) (f_shdrs F)) S_ELF
                  (f_shoff F + n * f_shentsize F) s (curlen_elf _ Hc)) as X.
    rewrite table_at_index, Hnth in X by lia. exact X.
  Qed.

  Lemma get_section_ok s n : curlen s -> in_table n (f_shdrs F) = true ->
    exists v, section_vals F (Z.to_nat n) = Some v /\ cur_only (get_section P n) s (Ok v).
  Proof.
    intros Hc Hin. destruct (in_table_nth _ _ Hin) as ([h e] & Hnth).
    pose proof (in_table_range _ _ Hin) as Hr.
    destruct wf_elf_facts as (_ & _ & _ & _ & _ & Hnames & _).
    destruct (Hnames (h, e) (nth_error_In _ _ Hnth)) as (nm & Hnm). cbn [fst] in Hnm.
    exists [nm; sh_pid h]. split.
    - unfold section_vals. rewrite Hnth, Hnm. reflexivity.
    - unfold get_section.
      eapply cur_only_bind; [eapply get_section_header_ok; eauto; lia|]. intros c1 L1.
      eapply cur_only_bind; [apply get_string_ok; [apply curlen_set; auto | exact Hnm]|]. intros c2 L2.
      eapply cur_only_bind; [apply cur_only_apply_eff|]. intros c3 L3.
      apply cur_only_ret.
  Qed.

  Lemma num_sections_ok s : num_sections P s = (s, Ok (f_shnum F)).
  Proof.
    destruct wf_elf_facts as (_ & Hoff & _ & Hpos & _).
    unfold num_sections, P. pcbn.
    destruct (Z.eqb_spec (f_shoff F) 0); [lia|]. destruct (Z.eqb_spec (f_shnum F) 0); [lia|]. reflexivity.
  Qed.

  (* ---- the section-name map *)
  Definition sec_kv (i : nat) : Z * Z :=
    (match section_vals F i with Some (nm :: _) => nm | _ => 0 end, Z.of_nat i).

  Lemma secmap_loop_ok k : forall j s m, curlen s -> e_secmap s = Some m ->
    (j + k = length (f_shdrs F))%nat ->
    exists c', secmap_loop P k (Z.of_nat j) s =
      (set_cur (set_secmap s (Some (fold_left (fun d kv => dict_set Z.eqb d (fst kv) (snd kv))
                                              (map sec_kv (seq j k)) m))) c', Ok tt) /\
      length c' = length (cur s).
  Proof.
    induction k as [|k IH]; intros j s m Hc Hm Hjk.
    - exists (cur s). cbn [secmap_loop seq map fold_left]. split; [|reflexivity].
      unfold ret. f_equal. destruct s; cbn in *. subst. reflexivity.
    - cbn [secmap_loop].
      assert (Hin : in_table (Z.of_nat j) (f_shdrs F) = true) by (unfold in_table, zlen; lia).
      destruct (get_section_ok s _ Hc Hin) as (v & Hv & (c1 & E1 & L1)).
      rewrite Nat2Z.id in Hv.
      rewrite (bind_ok _ _ _ _ _ E1), bind_modify.
      cbn [e_secmap set_cur]. rewrite Hm.
      replace (Z.of_nat j + 1) with (Z.of_nat (S j)) by lia.
      edestruct (IH (S j) (set_secmap (set_cur s c1) (Some (dict_set Z.eqb m (nth 0 v 0) (Z.of_nat j)))))
        as (c2 & E2 & L2); [apply curlen_set; auto | reflexivity | lia |].
      exists c2. rewrite E2. split; [|cbn in L2; congruence].
      cbn [seq map fold_left].
      assert (Ekv : sec_kv j = (nth 0 v 0, Z.of_nat j)).
      { unfold sec_kv. rewrite Hv. unfold section_vals in Hv.
        destruct (nth_error (f_shdrs F) j) as [[h e]|]; [|discriminate].
        destruct (str_at F (f_shstr_base F + sh_name h)); [|discriminate]. inversion Hv. reflexivity. }
      rewrite Ekv. reflexivity.
  Qed.

  Lemma make_section_name_map_ok s : curlen s ->
    exists c', make_section_name_map P s = (set_cur (set_secmap s (Some (secmap_spec F))) c', Ok tt) /\
               length c' = length (cur s).
  Proof.
    intros Hc. destruct wf_elf_facts as (_ & _ & Hnum & _).
    unfold make_section_name_map. rewrite bind_modify.
    rewrite (bind_ok _ _ _ _ _ (num_sections_ok _)).
    edestruct (secmap_loop_ok (Z.to_nat (f_shnum F)) 0%nat (set_secmap s (Some [])) []) as (c' & E & L);
      [exact Hc | reflexivity | rewrite Hnum; unfold zlen; lia |].
    exists c'. cbn [Z.of_nat] in E. rewrite E. split; [|exact L].
    unfold secmap_spec, dict_of_list, section_names. rewrite Hnum. unfold zlen. rewrite Nat2Z.id. reflexivity.
  Qed.

  Lemma secmap_spec_in name i : dict_get Z.eqb (secmap_spec F) name = Some i -> in_table i (f_shdrs F) = true.
  Proof.
    unfold secmap_spec. rewrite (dict_of_list_get Z.eqb Z.eqb_eq). unfold assoc_last. intros H.
    apply dict_get_in in H. apply in_rev in H. unfold section_names in H. apply in_map_iff in H.
    destruct H as (j & Ej & Hj). apply in_seq in Hj. inversion Ej. unfold in_table, zlen. lia.
  Qed.

  (* ---- segments *)
  Lemma get_segment_ok s n : curlen s -> in_table n (f_phdrs F) = true ->
    exists h e, nth_error (f_phdrs F) (Z.to_nat n) = Some (h, e) /\ cur_only (get_segment P n) s (Ok [ph_pid h]).
  Proof.
    intros Hc Hin. destruct (in_table_nth _ _ Hin) as ([h e] & Hnth). pose proof (in_table_range _ _ Hin) as Hr.
    destruct wf_elf_facts as (_ & _ & _ & _ & _ & _ & Hph & _).
    destruct Hph as [Hph|Hph]; [|rewrite Hph in Hnth; destruct (Z.to_nat n); discriminate].
    exists h, e. split; [exact Hnth|]. unfold get_segment, P. pcbn.
    pose proof (cur_only_struct_parse (table_at (f_phoff F) (f_phentsize F) (f_phdrs F)) S_ELF
                  (f_phoff F + n * f_phentsize F) s (curlen_elf _ Hc)) as X.
    rewrite table_at_index, Hnth in X by lia.
    eapply cur_only_bind; [exact X|]. intros c1 L1.
    eapply cur_only_bind; [apply cur_only_apply_eff|]. intros c2 L2. apply cur_only_ret.
  Qed.

  (* ---- symbols *)
  Lemma get_symbol_ok s n : curlen s -> in_table n (f_syms F) = true ->
    exists v, symbol_vals F (Z.to_nat n) = Some v /\ cur_only (get_symbol P n) s (Ok v).
  Proof.
    intros Hc Hin. destruct (in_table_nth _ _ Hin) as ([h e] & Hnth). pose proof (in_table_range _ _ Hin) as Hr.
    destruct wf_elf_facts as (_ & _ & _ & _ & _ & _ & _ & Hsy & Hnames & _).
    destruct Hsy as [Hsy|Hsy]; [|rewrite Hsy in Hnth; destruct (Z.to_nat n); discriminate].
    unfold has_symtab in Hsy.
    destruct (Hnames (h, e) (nth_error_In _ _ Hnth)) as (nm & Hnm). cbn [fst] in Hnm.
    exists [nm; sy_pid h]. split.
    - unfold symbol_vals. rewrite Hnth, Hnm. reflexivity.
    - unfold get_symbol, P. pcbn.
      pose proof (cur_only_struct_parse (table_at (f_sym_base F) (f_sym_entsize F) (f_syms F)) S_ELF
                    (f_sym_base F + n * f_sym_entsize F) s (curlen_elf _ Hc)) as X.
      rewrite table_at_index, Hnth in X by lia.
      eapply cur_only_bind; [exact X|]. intros c1 L1.
      eapply cur_only_bind; [apply get_string_ok; [apply curlen_set; auto | exact Hnm]|]. intros c2 L2.
      apply cur_only_ret.
  Qed.

  Definition sym_kv (i : nat) : Z * Z :=
    (match symbol_vals F i with Some (nm :: _) => nm | _ => 0 end, Z.of_nat i).

  Lemma symmap_loop_ok k : forall j s m, curlen s -> e_symmap s = Some m ->
    (j + k = length (f_syms F))%nat ->
    exists c', symmap_loop P k (Z.of_nat j) s =
      (set_cur (set_symmap s (Some (fold_left symmap_add (map sym_kv (seq j k)) m))) c', Ok tt) /\
      length c' = length (cur s).
  Proof.
    induction k as [|k IH]; intros j s m Hc Hm Hjk.
    - exists (cur s). cbn [symmap_loop seq map fold_left]. split; [|reflexivity].
      unfold ret. f_equal. destruct s; cbn in *. subst. reflexivity.
    - cbn [symmap_loop].
      assert (Hin : in_table (Z.of_nat j) (f_syms F) = true) by (unfold in_table, zlen; lia).
      destruct (get_symbol_ok s _ Hc Hin) as (v & Hv & (c1 & E1 & L1)).
      rewrite Nat2Z.id in Hv.
      rewrite (bind_ok _ _ _ _ _ E1), bind_modify.
      cbn [e_symmap set_cur]. rewrite Hm.
      replace (Z.of_nat j + 1) with (Z.of_nat (S j)) by lia.
      edestruct (IH (S j) (set_symmap (set_cur s c1)
                   (Some (dict_set Z.eqb m (nth 0 v 0)
                            (match dict_get Z.eqb m (nth 0 v 0) with Some l => l | None => [] end ++ [Z.of_nat j])))))
        as (c2 & E2 & L2); [apply curlen_set; auto | reflexivity | lia |].
      exists c2. rewrite E2. split; [|cbn in L2; congruence].
      cbn [seq map fold_left].
      assert (Ekv : sym_kv j = (nth 0 v 0, Z.of_nat j)).
      { unfold sym_kv. rewrite Hv. unfold symbol_vals in Hv.
        destruct (nth_error (f_syms F) j) as [[h e]|]; [|discriminate].
        destruct (str_at F (f_strtab_base F + sy_name h)); [|discriminate]. inversion Hv. reflexivity. }
      rewrite Ekv. reflexivity.
  Qed.

  Lemma symmap_vals_in (Q : Z -> Prop) kvs : forall m,
    (forall k l, dict_get Z.eqb m k = Some l -> Forall Q l) -> Forall (fun kv => Q (snd kv)) kvs ->
    forall k l, dict_get Z.eqb (fold_left symmap_add kvs m) k = Some l -> Forall Q l.
  Proof.
    induction kvs as [|[k1 i1] r IH]; intros m Hm Hkvs k l; cbn [fold_left]; [apply Hm|].
    inversion Hkvs as [|? ? Hq Hr]. subst. apply IH; auto.
    intros k' l' H. unfold symmap_add in H. cbn [fst snd] in H.
    destruct (Z.eq_dec k' k1) as [->|Hne].
    - rewrite (dict_get_set_same Z.eqb Z.eqb_eq) in H. inversion H. subst l'.
      apply Forall_app. split; [|constructor; auto].
      destruct (dict_get Z.eqb m k1) eqn:E; [eapply Hm; eauto | constructor].
    - rewrite (dict_get_set_other Z.eqb Z.eqb_eq) in H by exact Hne. eapply Hm; eauto.
  Qed.

  Lemma symmap_spec_in name l : dict_get Z.eqb (symmap_spec F) name = Some l ->
    Forall (fun i => in_table i (f_syms F) = true) l.
  Proof.
    unfold symmap_spec. apply symmap_vals_in.
    - intros k l' H. discriminate.
    - unfold symbol_names. apply Forall_forall. intros kv H. apply in_map_iff in H.
      destruct H as (j & <- & Hj). apply in_seq in Hj. cbn [snd]. unfold in_table, zlen. lia.
  Qed.

  Lemma get_symbols_ok l : forall s, curlen s -> Forall (fun i => in_table i (f_syms F) = true) l ->
    exists v, symbols_vals F l = Some v /\ cur_only (get_symbols P l) s (Ok v).
  Proof.
    induction l as [|i r IH]; intros s Hc Hall; cbn [get_symbols symbols_vals].
    - exists []. split; auto. apply cur_only_ret.
    - inversion Hall as [|? ? Hi Hr]. subst.
      destruct (get_symbol_ok s i Hc Hi) as (v & Hv & X). rewrite Hv.
      assert (Hrest : forall c1, length c1 = length (cur s) ->
                exists vr, symbols_vals F r = Some vr /\ cur_only (get_symbols P r) (set_cur s c1) (Ok vr)).
      { intros c1 L1. apply IH; auto. apply curlen_set; auto. }
      destruct (Hrest (cur s) eq_refl) as (vr & Hvr & _). rewrite Hvr.
      exists (v ++ vr). split; auto.
      eapply cur_only_bind; [exact X|]. intros c1 L1.
      destruct (Hrest c1 L1) as (vr' & Hvr' & Y). assert (vr' = vr) by congruence. subst vr'.
      eapply cur_only_bind; [exact Y|]. intros c2 L2. apply cur_only_ret.
  Qed.

  (* ---- dynamic tags *)
  Lemma raw_get_tag_ok s n t e : curlen s -> 0 < f_dyn_entsize F -> 0 <= n ->
    (e_numtags s = -1 \/ n < e_numtags s) ->
    nth_error (f_dyns F) (Z.to_nat n) = Some (t, e) -> cur_only (raw_get_tag P n) s (Ok t).
  Proof.
    intros Hc Hes Hn Hnt Hnth. unfold raw_get_tag, cur_only. rewrite bind_get_state.
    assert (Hif : negb (e_numtags s =? -1) && (e_numtags s <=? n) = false).
    { destruct Hnt as [->|Hlt]; [reflexivity|].
      destruct (Z.leb_spec (e_numtags s) n); [lia|]. apply andb_false_r. }
    rewrite Hif. unfold P. pcbn.
    pose proof (cur_only_struct_parse (table_at (f_dyn_base F) (f_dyn_entsize F) (f_dyns F)) S_ELF
                  (f_dyn_base F + n * f_dyn_entsize F) s (curlen_elf _ Hc)) as X.
    rewrite table_at_index, Hnth in X by lia. exact X.
  Qed.

  Lemma num_tags_loop_ok nt : count_tags (f_dyns F) = Some nt -> 0 < f_dyn_entsize F ->
    forall k j s, curlen s -> e_numtags s = -1 -> Z.of_nat j < nt -> nt - Z.of_nat j <= Z.of_nat k ->
    exists c', num_tags_loop P k (Z.of_nat j) s = (set_cur (set_numtags s nt) c', Ok nt) /\
               length c' = length (cur s).
  Proof.
    intros Hct Hes. destruct (count_tags_spec _ _ Hct) as (Hb & (tn & en & Hn & Hnull) & Hbefore).
    induction k as [|k IH]; intros j s Hc Hnt Hj Hk; [lia|].
    cbn [num_tags_loop].
    destruct (nth_error (f_dyns F) j) as [[t e]|] eqn:Hnth; [|apply nth_error_None in Hnth; unfold zlen in Hb; lia].
    assert (X : cur_only (raw_get_tag P (Z.of_nat j)) s (Ok t)).
    { eapply raw_get_tag_ok; eauto; [lia | rewrite Nat2Z.id; exact Hnth]. }
    destruct X as (c1 & E1 & L1). rewrite (bind_ok _ _ _ _ _ E1).
    destruct (dy_null t) eqn:Et.
    - assert (Z.of_nat j = nt - 1).
      { destruct (Z.lt_ge_cases (Z.of_nat j) (nt - 1)) as [Hlt|Hge]; [|lia].
        rewrite (Hbefore _ _ _ Hlt Hnth) in Et. discriminate. }
      rewrite bind_modify. exists c1. replace (Z.of_nat j + 1) with nt by lia. split; [reflexivity|exact L1].
    - assert (Z.of_nat j <> nt - 1).
      { intros E. rewrite <- E, Nat2Z.id in Hn. congruence. }
      replace (Z.of_nat j + 1) with (Z.of_nat (S j)) by lia.
      edestruct (IH (S j) (set_cur s c1)) as (c2 & E2 & L2); [apply curlen_set; auto | exact Hnt | lia | lia |].
      exists c2. rewrite E2. split; [reflexivity | cbn in L2; congruence].
  Qed.

  Lemma num_tags_ok s nt : curlen s -> count_tags (f_dyns F) = Some nt -> 0 < f_dyn_entsize F ->
    (e_numtags s = -1 \/ e_numtags s = nt) ->
    exists c', num_tags P fuel s = (set_cur (set_numtags s nt) c', Ok nt) /\ length c' = length (cur s).
  Proof.
    intros Hc Hct Hes Hnt. destruct (count_tags_spec _ _ Hct) as (Hb & _).
    unfold num_tags. rewrite bind_get_state.
    destruct (Z.eqb_spec (e_numtags s) (-1)) as [E|Hne]; cbn [negb].
    - apply (num_tags_loop_ok nt Hct Hes fuel 0%nat s Hc E); lia.
    - destruct Hnt as [Hnt|Hnt]; [contradiction|]. exists (cur s). split; [|reflexivity].
      unfold ret. rewrite <- Hnt. destruct s; reflexivity.
  Qed.
End Elf.
