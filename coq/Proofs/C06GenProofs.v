(* Proofs/C06GenProofs.v — the data of callframe.py (Gen/C06Tables.v, regenerated from the live
   module on every run) is the data of the standards (Spec/C06Instr.v, Spec/C06Entries.v). *)
From PV Require Import Base.Bytes Gen.C06Tables Spec.C06Instr Spec.C06Entries Model.C06Callframe.
From Coq Require Import String.
Open Scope Z_scope.

Fixpoint assoc_s (n : string) (l : list (string * Z)) : option Z :=
  match l with
  | [] => None
  | (k, v) :: r => if String.eqb n k then Some v else assoc_s n r
  end.

Definition oz_eqb (a b : option Z) : bool :=
  match a, b with
  | Some x, Some y => x =? y
  | None, None => true
  | _, _ => false
  end.
Lemma oz_eqb_eq a b : oz_eqb a b = true -> a = b.
Proof.
  destruct a as [x|], b as [y|]; cbn; try discriminate; auto.
  intros H. apply Z.eqb_eq in H. congruence.
Qed.

(* the same name -> value function: every key of either list has the same binding in both *)
Definition same_bindings (a b : list (string * Z)) : bool :=
  forallb (fun kv => oz_eqb (assoc_s (fst kv) a) (assoc_s (fst kv) b)) (a ++ b).

Lemma assoc_s_none n l : (forall kv, In kv l -> fst kv <> n) -> assoc_s n l = None.
Proof.
  induction l as [|[k v] r IH]; intros H; [reflexivity|].
  cbn [assoc_s]. destruct (String.eqb_spec n k) as [->|Hne].
  - exfalso. apply (H (k, v)); cbn; auto.
  - apply IH. intros kv Hin. apply H. cbn; auto.
Qed.

Lemma same_bindings_sound a b : same_bindings a b = true ->
  forall n, assoc_s n a = assoc_s n b.
Proof.
  unfold same_bindings. intros H n. rewrite forallb_forall in H.
  destruct (in_dec string_dec n (map fst (a ++ b))) as [Hin|Hnin].
  - apply in_map_iff in Hin. destruct Hin as (kv & <- & Hkv).
    apply oz_eqb_eq. apply H. exact Hkv.
  - assert (Ha : assoc_s n a = None).
    { apply assoc_s_none. intros kv Hkv E. apply Hnin. apply in_map_iff.
      exists kv. split; auto. apply in_or_app; auto. }
    assert (Hb : assoc_s n b = None).
    { apply assoc_s_none. intros kv Hkv E. apply Hnin. apply in_map_iff.
      exists kv. split; auto. apply in_or_app; auto. }
    congruence.
Qed.

(* every binding of the first list is a binding of the second *)
Definition sub_bindings (a b : list (string * Z)) : bool :=
  forallb (fun kv => oz_eqb (assoc_s (fst kv) a) (assoc_s (fst kv) b)) a.
Lemma assoc_s_in n l v : assoc_s n l = Some v -> In n (map fst l).
Proof.
  induction l as [|[k w] r IH]; cbn [assoc_s map fst In]; [discriminate|].
  destruct (String.eqb_spec n k) as [->|Hne]; [auto|]. intros H. right. auto.
Qed.
Lemma sub_bindings_sound a b : sub_bindings a b = true ->
  forall n v, assoc_s n a = Some v -> assoc_s n b = Some v.
Proof.
  unfold sub_bindings. intros H n v Hn. rewrite forallb_forall in H.
  pose proof (assoc_s_in _ _ _ Hn) as Hin. apply in_map_iff in Hin.
  destruct Hin as (kv & <- & Hkv). specialize (H _ Hkv). apply oz_eqb_eq in H. congruence.
Qed.

(* DW_CFA_* as callframe.py sees them: every name it has carries the value the standard
   (Table 7.29) or the binutils/LLVM registry gives that name ... *)
Theorem gen_DW_CFA_sound : forall n v,
  assoc_s n gen_DW_CFA = Some v -> assoc_s n spec_DW_CFA = Some v.
Proof. apply sub_bindings_sound. vm_compute. reflexivity. Qed.

(* ... and it has every name of Table 7.29 and the GNU extensions ELF producers emit *)
Theorem gen_DW_CFA_core : forall n v,
  assoc_s n spec_DW_CFA_core = Some v -> assoc_s n gen_DW_CFA = Some v.
Proof. apply sub_bindings_sound. vm_compute. reflexivity. Qed.

(* _OPCODE_NAME_MAP: every opcode it knows is named by a name the standard/registry gives that
   opcode, and it knows every opcode of the core table *)
Definition name_map_sound : bool :=
  forallb (fun kv => oz_eqb (assoc_s (snd kv) spec_DW_CFA) (Some (fst kv))) gen_OPCODE_NAME_MAP.
Definition name_map_complete : bool :=
  forallb (fun kv => match assocZ (snd kv) gen_OPCODE_NAME_MAP with Some _ => true | None => false end)
          spec_DW_CFA_core.

Lemma assocZ_in {A} k (l : list (Z * A)) v : assocZ k l = Some v -> In (k, v) l.
Proof.
  induction l as [|[k' v'] r IH]; cbn [assocZ]; [discriminate|].
  destruct (Z.eqb_spec k k') as [->|Hne]; intros H.
  - inversion H; subst. cbn; auto.
  - right. auto.
Qed.

Theorem gen_OPCODE_NAME_MAP_sound : forall op name,
  assocZ op gen_OPCODE_NAME_MAP = Some name -> assoc_s name spec_DW_CFA = Some op.
Proof.
  intros op name H. apply assocZ_in in H.
  assert (Hs : name_map_sound = true) by (vm_compute; reflexivity).
  unfold name_map_sound in Hs. rewrite forallb_forall in Hs.
  specialize (Hs _ H). cbn [fst snd] in Hs. apply oz_eqb_eq in Hs. exact Hs.
Qed.

Theorem gen_OPCODE_NAME_MAP_complete : forall name op,
  In (name, op) spec_DW_CFA_core -> exists name', assocZ op gen_OPCODE_NAME_MAP = Some name'.
Proof.
  intros name op H.
  assert (Hc : name_map_complete = true) by (vm_compute; reflexivity).
  unfold name_map_complete in Hc. rewrite forallb_forall in Hc.
  specialize (Hc _ H). cbn [fst snd] in Hc.
  destruct (assocZ op gen_OPCODE_NAME_MAP) as [n'|]; [eauto|discriminate].
Qed.

Theorem gen_masks : PRIMARY_MASK = 0xC0 /\ PRIMARY_ARG_MASK = 0x3F.
Proof. split; reflexivity. Qed.

(* _eh_encoding_to_field = the DW_EH_PE value formats; the application codes *)
Theorem gen_eh_formats :
  gen_eh_encoding_to_field = map (fun f => (format_code f, format_kind f)) all_formats
  /\ DW_EH_PE_absptr = 0 /\ DW_EH_PE_pcrel = DW_EH_PE_pcrel_code
  /\ DW_EH_PE_omit = DW_EH_PE_omit_code.
Proof. repeat split; reflexivity. Qed.

(* ---------------------------------------------------------------- header structs *)
(* The construct trees of Dwarf_CIE_header / EH_CIE_header / Dwarf_FDE_header, walked on the live
   DWARFStructs objects, are the field lists of DWARF 5 section 7.24 / 6.4.1:
   CIE: length, CIE_id, version (ubyte), augmentation (string), address_size and
   segment_selector_size (ubyte, version 4 on), code_alignment_factor (ULEB128),
   data_alignment_factor (SLEB128), return_address_register (ubyte in version 1, ULEB128 after);
   FDE: length, CIE_pointer, initial_location and address_range (target addresses). *)
Open Scope string_scope.
Theorem gen_headers_are_spec :
  gen_Dwarf_CIE_header =
    [("length", HInitLen); ("CIE_id", HOffset); ("version", HU 1); ("augmentation", HCStr);
     ("address_size", HIfVer 4 (HU 1) HNone); ("segment_size", HIfVer 4 (HU 1) HNone);
     ("code_alignment_factor", HUleb); ("data_alignment_factor", HSleb);
     ("return_address_register", HIfVer 2 HUleb (HU 1))]
  /\ gen_EH_CIE_header = gen_Dwarf_CIE_header
  /\ gen_Dwarf_FDE_header =
    [("length", HInitLen); ("CIE_pointer", HOffset); ("initial_location", HAddr);
     ("address_range", HAddr)].
Proof. repeat split; reflexivity. Qed.
Close Scope string_scope.

(* what a generated layout means: parse the fields in order into a context (name -> value),
   If/IfThenElse deciding on the version already in the context *)
Inductive hval : Type := HVint (z : Z) | HVbytes (b : list Z) | HVnone.
Fixpoint ctx_get (n : string) (ctx : list (string * hval)) : hval :=
  match ctx with
  | [] => HVnone
  | (k, v) :: r => if String.eqb n k then v else ctx_get n r
  end.
Definition ctx_int (n : string) (ctx : list (string * hval)) : Z :=
  match ctx_get n ctx with HVint z => z | _ => 0 end.
Definition ctx_opt (n : string) (ctx : list (string * hval)) : option Z :=
  match ctx_get n ctx with HVint z => Some z | _ => None end.
Definition ctx_bytes (n : string) (ctx : list (string * hval)) : list Z :=
  match ctx_get n ctx with HVbytes b => b | _ => [] end.

Fixpoint parse_hkind (St : structs) (ctx : list (string * hval)) (k : hkind) : parser hval :=
  match k with
  | HInitLen => let* v := Dwarf_initial_length St in pret (HVint v)
  | HOffset => let* v := Dwarf_offset St in pret (HVint v)
  | HAddr => let* v := Dwarf_target_addr St in pret (HVint v)
  | HU n => let* v := of_dec (uint_decode (little_endian St) (Z.to_nat n)) in pret (HVint v)
  | HS n => let* v := of_dec (sint_decode_n (little_endian St) (Z.to_nat n)) in pret (HVint v)
  | HUleb => let* v := Dwarf_uleb128 in pret (HVint v)
  | HSleb => let* v := Dwarf_sleb128 in pret (HVint v)
  | HCStr => let* b := CString in pret (HVbytes b)
  | HNone => pret HVnone
  | HIfVer n a b =>
      if n <=? ctx_int "version" ctx then parse_hkind St ctx a else parse_hkind St ctx b
  end.
Fixpoint parse_layout (St : structs) (ctx : list (string * hval)) (l : list (string * hkind))
  : parser (list (string * hval)) :=
  match l with
  | [] => pret ctx
  | (n, k) :: r => let* v := parse_hkind St ctx k in parse_layout St ((n, v) :: ctx) r
  end.

Definition cie_header_of (ctx : list (string * hval)) : cie_header :=
  mkcie_header (ctx_int "length" ctx) (ctx_int "CIE_id" ctx) (ctx_int "version" ctx)
               (ctx_bytes "augmentation" ctx) (ctx_opt "address_size" ctx)
               (ctx_opt "segment_size" ctx) (ctx_int "code_alignment_factor" ctx)
               (ctx_int "data_alignment_factor" ctx) (ctx_int "return_address_register" ctx).
Definition fde_header_of (ctx : list (string * hval)) : fde_header :=
  mkfde_header (ctx_int "length" ctx) (ctx_int "CIE_pointer" ctx)
               (ctx_int "initial_location" ctx) (ctx_int "address_range" ctx).

Definition pmap {A B} (f : A -> B) (p : parser A) : parser B :=
  fun bs => match p bs with Ok (a, r) => Ok (f a, r) | Err e => Err e end.

Ltac step_parser :=
  match goal with
  | |- context [pbind ?p _ ?bs] =>
      unfold pbind at 1; let v := fresh "v" in let r := fresh "r" in let e := fresh "e" in
      destruct (p bs) as [[v r]|e]; [|reflexivity]
  end.

(* the hand model of the header structs IS the interpretation of the generated layouts, on all
   byte strings (also the failing ones) *)
Theorem model_FDE_header_is_gen : forall St bs,
  Dwarf_FDE_header St bs = pmap fde_header_of (parse_layout St [] gen_Dwarf_FDE_header) bs.
Proof.
  intros St bs. unfold Dwarf_FDE_header, pmap, gen_Dwarf_FDE_header.
  cbn [parse_layout parse_hkind].
  unfold pbind.
  destruct (Dwarf_initial_length St bs) as [[v1 r1]|e1]; [|reflexivity]. cbn [pret].
  destruct (Dwarf_offset St r1) as [[v2 r2]|e2]; [|reflexivity]. cbn [pret].
  destruct (Dwarf_target_addr St r2) as [[v3 r3]|e3]; [|reflexivity]. cbn [pret].
  destruct (Dwarf_target_addr St r3) as [[v4 r4]|e4]; reflexivity.
Qed.

Lemma ltb_leb_succ v : (1 <? v) = (2 <=? v).
Proof. destruct (Z.ltb_spec 1 v), (Z.leb_spec 2 v); auto; exfalso; apply (Z.lt_irrefl v); 
  [apply Z.lt_le_trans with 2; [assumption|]|]; auto with zarith. Qed.

(* destruct the next primitive parse both sides are waiting for *)
Ltac dparse :=
  match goal with
  | |- context [match ?X with Ok _ => _ | Err _ => _ end] =>
      match X with
      | Dwarf_initial_length _ _ => idtac | Dwarf_offset _ _ => idtac | Dwarf_target_addr _ _ => idtac
      | of_dec _ _ => idtac | CString _ => idtac | Dwarf_uleb128 _ => idtac | Dwarf_sleb128 _ => idtac
      end;
      destruct X as [[? ?]|?]; cbv beta iota; try reflexivity
  end.

Theorem model_CIE_header_is_gen : forall St bs,
  Dwarf_CIE_header St bs = pmap cie_header_of (parse_layout St [] gen_Dwarf_CIE_header) bs.
Proof.
  intros St bs. unfold Dwarf_CIE_header, pmap, gen_Dwarf_CIE_header.
  cbn [parse_layout parse_hkind]. unfold Dwarf_uint8.
  change (Z.to_nat 1) with 1%nat.
  unfold pbind, pret.
  do 4 dparse.
  cbn [ctx_int ctx_get String.eqb Ascii.eqb Bool.eqb]. rewrite ltb_leb_succ.
  match goal with |- context [4 <=? ?ver] => destruct (4 <=? ver); destruct (2 <=? ver) end;
    repeat dparse; reflexivity.
Qed.
