(* Proofs/C06GenProofs.v — the data of callframe.py (Gen/C06Tables.v, regenerated from the live
   module on every run) is the data of the standards (Spec/C06Instr.v, Spec/C06Entries.v). *)
From PV Require Import Base.Bytes Gen.C06Tables Spec.C06Instr Spec.C06Entries Model.C06Callframe.
From Coq Require Import String.
Open Scope Z_scope.

Fixpoint assoc_s (n : string) (l : list (string * Z)) : option Z :=
  match l with
  | [] => None
  | (k, v) :: r => if String.eqb n k then Some v else assoc_s n r
  end.

Definition oz_eqb (a b : option Z) : bool :=
  match a, b with
  | Some x, Some y => x =? y
  | None, None => true
  | _, _ => false
  end.
Lemma oz_eqb_eq a b : oz_eqb a b = true -> a = b.
Proof.
  destruct a as [x|], b as [y|]; cbn; try discriminate; auto.
  intros H. apply Z.eqb_eq in H. congruence.
Qed.

(* the same name -> value function: every key of either list has the same binding in both *)
Definition same_bindings (a b : list (string * Z)) : bool :=
  forallb (fun kv => oz_eqb (assoc_s (fst kv) a) (assoc_s (fst kv) b)) (a ++ b).

Lemma assoc_s_none n l : (forall kv, In kv l -> fst kv <> n) -> assoc_s n l = None.
Proof.
  induction l as [|[k v] r IH]; intros H; [reflexivity|].
  cbn [assoc_s]. destruct (String.eqb_spec n k) as [->|Hne].
  - exfalso. apply (H (k, v)); cbn; auto.
  - apply IH. intros kv Hin. apply H. cbn; auto.
Qed.

Lemma same_bindings_sound a b : same_bindings a b = true ->
  forall n, assoc_s n a = assoc_s n b.
Proof.
  unfold same_bindings. intros H n. rewrite forallb_forall in H.
  destruct (in_dec string_dec n (map fst (a ++ b))) as [Hin|Hnin].
  - apply in_map_iff in Hin. destruct Hin as (kv & <- & Hkv).
    apply oz_eqb_eq. apply H. exact Hkv.
  - assert (Ha : assoc_s n a = None).
    { apply assoc_s_none. intros kv Hkv E. apply Hnin. apply in_map_iff.
      exists kv. split; auto. apply in_or_app; auto. }
    assert (Hb : assoc_s n b = None).
    { apply assoc_s_none. intros kv Hkv E. apply Hnin. apply in_map_iff.
      exists kv. split; auto. apply in_or_app; auto. }
    congruence.
Qed.

(* DW_CFA_* as callframe.py sees them = Table 7.29 + the GNU extensions, name by name *)
Theorem gen_DW_CFA_is_spec : forall n, assoc_s n gen_DW_CFA = assoc_s n spec_DW_CFA.
Proof. apply same_bindings_sound. vm_compute. reflexivity. Qed.

(* _OPCODE_NAME_MAP: every opcode it knows is named by a name the standard gives that opcode,
   and it knows every opcode of the table *)
Definition name_map_sound : bool :=
  forallb (fun kv => oz_eqb (assoc_s (snd kv) spec_DW_CFA) (Some (fst kv))) gen_OPCODE_NAME_MAP.
Definition name_map_complete : bool :=
  forallb (fun kv => match assocZ (snd kv) gen_OPCODE_NAME_MAP with Some _ => true | None => false end)
          spec_DW_CFA.

Lemma assocZ_in {A} k (l : list (Z * A)) v : assocZ k l = Some v -> In (k, v) l.
Proof.
  induction l as [|[k' v'] r IH]; cbn [assocZ]; [discriminate|].
  destruct (Z.eqb_spec k k') as [->|Hne]; intros H.
  - inversion H; subst. cbn; auto.
  - right. auto.
Qed.

Theorem gen_OPCODE_NAME_MAP_sound : forall op name,
  assocZ op gen_OPCODE_NAME_MAP = Some name -> assoc_s name spec_DW_CFA = Some op.
Proof.
  intros op name H. apply assocZ_in in H.
  assert (Hs : name_map_sound = true) by (vm_compute; reflexivity).
  unfold name_map_sound in Hs. rewrite forallb_forall in Hs.
  specialize (Hs _ H). cbn [fst snd] in Hs. apply oz_eqb_eq in Hs. exact Hs.
Qed.

Theorem gen_OPCODE_NAME_MAP_complete : forall name op,
  In (name, op) spec_DW_CFA -> exists name', assocZ op gen_OPCODE_NAME_MAP = Some name'.
Proof.
  intros name op H.
  assert (Hc : name_map_complete = true) by (vm_compute; reflexivity).
  unfold name_map_complete in Hc. rewrite forallb_forall in Hc.
  specialize (Hc _ H). cbn [fst snd] in Hc.
  destruct (assocZ op gen_OPCODE_NAME_MAP) as [n'|]; [eauto|discriminate].
Qed.

Theorem gen_masks : PRIMARY_MASK = 0xC0 /\ PRIMARY_ARG_MASK = 0x3F.
Proof. split; reflexivity. Qed.

(* _eh_encoding_to_field = the DW_EH_PE value formats; the application codes *)
Theorem gen_eh_formats :
  gen_eh_encoding_to_field = map (fun f => (format_code f, format_kind f)) all_formats
  /\ DW_EH_PE_absptr = 0 /\ DW_EH_PE_pcrel = DW_EH_PE_pcrel_code
  /\ DW_EH_PE_omit = DW_EH_PE_omit_code.
Proof. repeat split; reflexivity. Qed.
