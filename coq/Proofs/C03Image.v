(* Proofs/C03Image.v — ELFHashSection / GNUHashSection over a file image: the hash section,
   the symbol table it links to and that table's string table are placed ANYWHERE in the
   image (any order, anything between and after them — a GNU hash section may end the file).
   Ties Proofs/C03Sysv.v and Proofs/C03Gnu.v (tables) to Proofs/C03Sym.v (decoded symbols)
   through the generic layout round trip of the hash headers. *)
From PV Require Import Base.Fmt Base.Outcome Base.Prim Base.Enum Gen.ElfLayouts Gen.C09Hash Spec.ElfGabi Spec.PrimSpec
                       Spec.C03Sym Spec.C03Hash Model.C03Sections Model.C03Hash.
From PV Require Import Proofs.PrimProofs Proofs.FmtProofs Proofs.ElfLayoutFacts
                       Proofs.C03HashFn Proofs.C03Sysv Proofs.C03Gnu Proofs.C03Sym.
From Coq Require Import Lia ZifyBool.
Open Scope string_scope.
Open Scope list_scope.
Open Scope Z_scope.

Lemma names_of_views strtab rows : names_of strtab rows = map fst (views strtab rows).
Proof. unfold names_of, views. rewrite map_map. reflexivity. Qed.

Lemma zlen_encode_arr le n zs : zlen (encode_arr le n zs) = Z.of_nat n * zlen zs.
Proof.
  unfold encode_arr. induction zs as [|z zs IH]; [cbn; lia|].
  cbn [map concat]. rewrite zlen_app, IH, zlen_cons. unfold zlen at 1. rewrite int_encode_length. lia.
Qed.

Lemma zlen_int_encode le n v : zlen (int_encode le n v) = Z.of_nat n.
Proof. unfold zlen. rewrite int_encode_length. reflexivity. Qed.

Lemma words_ok_forallb n l : words_ok n l = forallb (in_urange n) l.
Proof. reflexivity. Qed.

(* ------------------------------------------------------------------ ELFHashTable.__init__ *)
Lemma elf_hash_init_ok le is64 img hoff T :
  zlen (sv_buckets T) < 2 ^ 32 -> zlen (sv_chains T) < 2 ^ 32 ->
  words_ok 4 (sv_buckets T) = true -> words_ok 4 (sv_chains T) = true ->
  placed img hoff (encode_sysv_hash le T) ->
  elf_hash_init le is64 img hoff = Ok (sysv_params T).
Proof.
  intros Hb Hc Hwb Hwc Hp. unfold elf_hash_init. rewrite gen_Elf_Hash_gabi.
  rewrite (struct_parse_at_dyn (spec_Elf_Hash le)
             [VZ (zlen (sv_buckets T)); VZ (zlen (sv_chains T)); VL (sv_buckets T); VL (sv_chains T)]).
  - reflexivity.
  - reflexivity.
  - pose proof (zlen_nonneg (sv_buckets T)). pose proof (zlen_nonneg (sv_chains T)).
    cbn. rewrite !Z.eqb_refl. rewrite words_ok_forallb in Hwb, Hwc. rewrite Hwb, Hwc.
    unfold in_urange. change (2 ^ (8 * Z.of_nat 4)) with (2 ^ 32). cbn [andb]. lia.
  - unfold encode_sysv_hash in Hp. cbn. rewrite app_nil_r. exact Hp.
Qed.

(* ------------------------------------------------------------------ the entry width per machine *)
Lemma dict_get_in : forall d k n, dict_get d k = Some n -> In (k, n) d.
Proof.
  induction d as [|[k' x] d IH]; intros k n H; cbn [dict_get] in H; [discriminate|].
  destruct (Z.eqb_spec k' k) as [->|_]; [inversion H; left; reflexivity|right; apply IH; exact H].
Qed.

Lemma wide_names_only_22_41 :
  forallb (fun kv => negb (existsb (fun p => (fst p =? snd kv)%string) gen_hash_wide)
                     || (fst kv =? EM_S390) || (fst kv =? EM_ALPHA)) E005_e_machine = true.
Proof. vm_compute. reflexivity. Qed.

(* the machines for which the live code reads 64-bit entries are exactly the psABI's *)
Theorem hash_wide_spec is64 machine : hash_wide is64 machine = Nat.eqb (sysv_entry_bytes is64 machine) 8.
Proof.
  unfold sysv_entry_bytes.
  destruct (Z.eqb_spec machine EM_ALPHA) as [->|Ha]; [destruct is64; vm_compute; reflexivity|].
  destruct (Z.eqb_spec machine EM_S390) as [->|Hs]; [destruct is64; vm_compute; reflexivity|].
  rewrite andb_false_r. cbn [Nat.eqb].
  unfold hash_wide. apply not_true_is_false. intros H. apply existsb_exists in H.
  destruct H as [p [Hp Hk]]. apply andb_true_iff in Hk. destruct Hk as [Hk _]. apply String.eqb_eq in Hk.
  unfold machine_key in Hk. destruct (dict_get E005_e_machine machine) as [n|] eqn:E.
  - apply dict_get_in in E. pose proof wide_names_only_22_41 as W. rewrite forallb_forall in W.
    specialize (W _ E). cbn [fst snd] in W. rewrite !orb_true_iff in W. destruct W as [[W|W]|W].
    + apply negb_true_iff in W. assert (X : existsb (fun p0 => (fst p0 =? n)%string) gen_hash_wide = true).
      { apply existsb_exists. exists p. split; [exact Hp|]. apply String.eqb_eq. exact Hk. }
      congruence.
    + apply Z.eqb_eq in W. contradiction.
    + apply Z.eqb_eq in W. contradiction.
  - unfold gen_hash_wide in Hp. cbn [In] in Hp. destruct Hp as [H|[H|[]]]; subst p; discriminate Hk.
Qed.

Lemma words_ok_wider l : words_ok 4 l = true -> words_ok 8 l = true.
Proof.
  unfold words_ok. rewrite !forallb_forall. intros H x Hx. specialize (H x Hx). unfold in_urange in *.
  change (2 ^ (8 * Z.of_nat 4)) with (2 ^ 32) in H. change (2 ^ (8 * Z.of_nat 8)) with (2 ^ 64). lia.
Qed.

Lemma elf_hash_init_w_ok (wide le is64 : bool) img hoff T :
  zlen (sv_buckets T) < 2 ^ 32 -> zlen (sv_chains T) < 2 ^ 32 ->
  words_ok 4 (sv_buckets T) = true -> words_ok 4 (sv_chains T) = true ->
  placed img hoff (encode_sysv_hash_w (if wide then 8%nat else 4%nat) le T) ->
  elf_hash_init_w wide le is64 img hoff = Ok (sysv_params T).
Proof.
  intros Hb Hc Hwb Hwc Hp. destruct wide.
  - unfold elf_hash_init_w, Elf_Hash_layout.
    assert (EL : gen_Elf_Hash_wide le =
                 [("nbuckets", KU le 8); ("nchains", KU le 8);
                  ("buckets", KArr (CField "nbuckets") le 8); ("chains", KArr (CField "nchains") le 8)])
      by (destruct le; reflexivity).
    rewrite EL.
    rewrite (struct_parse_at_dyn _
               [VZ (zlen (sv_buckets T)); VZ (zlen (sv_chains T)); VL (sv_buckets T); VL (sv_chains T)]).
    + reflexivity.
    + reflexivity.
    + pose proof (zlen_nonneg (sv_buckets T)). pose proof (zlen_nonneg (sv_chains T)).
      apply words_ok_wider in Hwb, Hwc. rewrite words_ok_forallb in Hwb, Hwc.
      cbn. rewrite !Z.eqb_refl. rewrite Hwb, Hwc.
      unfold in_urange. change (2 ^ (8 * Z.of_nat 8)) with (2 ^ 64). cbn [andb]. lia.
    + unfold encode_sysv_hash_w in Hp. cbn. rewrite app_nil_r. exact Hp.
  - apply (elf_hash_init_ok le is64 img hoff T Hb Hc Hwb Hwc Hp).
Qed.

(* ------------------------------------------------------------------ GNUHashTable.__init__ *)
Definition gnu_chain_pos (is64 : bool) (T : gnu_table) (hoff : Z) : Z :=
  hoff + 4 * gnu_wordsize + zlen (gt_bloom T) * gnu_xwordsize is64 + zlen (gt_buckets T) * gnu_wordsize.

Lemma gnu_hash_init_ok le is64 img hoff T :
  zlen (gt_buckets T) < 2 ^ 32 -> zlen (gt_bloom T) < 2 ^ 32 ->
  0 <= gt_symoffset T < 2 ^ 32 -> 0 <= gt_shift T < 2 ^ 32 ->
  words_ok (addr_bytes is64) (gt_bloom T) = true -> words_ok 4 (gt_buckets T) = true ->
  placed img hoff (encode_gnu_hash le is64 T) ->
  gnu_hash_init le is64 img hoff = Ok (gnu_params T (gnu_chain_pos is64 T hoff)).
Proof.
  intros Hb Hbl Hso Hsh Hwbl Hwb Hp. unfold gnu_hash_init. rewrite gen_Gnu_Hash_gabi.
  rewrite (struct_parse_at_dyn (spec_Gnu_Hash le is64)
             [VZ (zlen (gt_buckets T)); VZ (gt_symoffset T); VZ (zlen (gt_bloom T)); VZ (gt_shift T);
              VL (gt_bloom T); VL (gt_buckets T)]).
  - reflexivity.
  - destruct is64; reflexivity.
  - pose proof (zlen_nonneg (gt_buckets T)). pose proof (zlen_nonneg (gt_bloom T)).
    rewrite words_ok_forallb in Hwbl, Hwb.
    destruct is64; cbn [addr_bytes] in Hwbl; cbn; rewrite !Z.eqb_refl; rewrite Hwbl, Hwb;
      unfold in_urange; change (2 ^ (8 * Z.of_nat 4)) with (2 ^ 32); cbn [andb]; lia.
  - unfold encode_gnu_hash in Hp.
    replace (encode_layout (spec_Gnu_Hash le is64)
               [VZ (zlen (gt_buckets T)); VZ (gt_symoffset T); VZ (zlen (gt_bloom T)); VZ (gt_shift T);
                VL (gt_bloom T); VL (gt_buckets T)])
      with (int_encode le 4 (zlen (gt_buckets T)) ++ int_encode le 4 (gt_symoffset T) ++
            int_encode le 4 (zlen (gt_bloom T)) ++ int_encode le 4 (gt_shift T) ++
            encode_arr le (addr_bytes is64) (gt_bloom T) ++ encode_arr le 4 (gt_buckets T))
      by (destruct is64; cbn; rewrite app_nil_r; reflexivity).
    apply (placed_prefix _ _ _ (encode_arr le 4 (gt_chain T))).
    rewrite <- !app_assoc. exact Hp.
Qed.

(* the chain array follows the header, bloom words and buckets *)
Lemma gnu_chain_placed le is64 img hoff T :
  placed img hoff (encode_gnu_hash le is64 T) ->
  placed img (gnu_chain_pos is64 T hoff) (encode_arr le 4 (gt_chain T)).
Proof.
  intros Hp. unfold encode_gnu_hash in Hp.
  assert (E : forall a b c d e f g : list Z, a ++ b ++ c ++ d ++ e ++ f ++ g = (a ++ b ++ c ++ d ++ e ++ f) ++ g ++ [])
    by (intros; rewrite app_nil_r, <- !app_assoc; reflexivity).
  rewrite E in Hp. apply placed_sub in Hp.
  replace (gnu_chain_pos is64 T hoff) with
    (hoff + zlen (int_encode le 4 (zlen (gt_buckets T)) ++ int_encode le 4 (gt_symoffset T) ++
                  int_encode le 4 (zlen (gt_bloom T)) ++ int_encode le 4 (gt_shift T) ++
                  encode_arr le (addr_bytes is64) (gt_bloom T) ++ encode_arr le 4 (gt_buckets T))); [exact Hp|].
  rewrite !zlen_app, !zlen_int_encode, !zlen_encode_arr. unfold gnu_chain_pos, gnu_wordsize, gnu_xwordsize.
  destruct is64; cbn [addr_bytes]; lia.
Qed.

Lemma read_chain_word_ok le is64 img hoff T i :
  words_ok 4 (gt_chain T) = true ->
  placed img hoff (encode_gnu_hash le is64 T) ->
  gt_symoffset T <= i < gt_symoffset T + zlen (gt_chain T) ->
  read_chain_word le img (gnu_params T (gnu_chain_pos is64 T hoff)) i = Ok (zth (gt_chain T) (i - gt_symoffset T)).
Proof.
  intros Hw Hp Hi. apply gnu_chain_placed in Hp.
  unfold read_chain_word, gnu_params. cbn [gh_chain_pos gh_symoffset]. change gnu_wordsize with 4.
  unfold encode_arr in Hp.
  assert (Hsz : forall r, In r (gt_chain T) -> zlen (int_encode le 4 r) = 4)
    by (intros r _; apply zlen_int_encode).
  pose proof (placed_row (int_encode le 4) 4 0 img _ (gt_chain T) (i - gt_symoffset T) Hsz ltac:(lia) Hp) as Hq.
  rewrite <- (app_nil_r (int_encode le 4 _)) in Hq.
  rewrite (read_uint_placed le 4 (nth (Z.to_nat (i - gt_symoffset T)) (gt_chain T) 0) img _ [] ); [reflexivity| |exact Hq].
  rewrite words_ok_forallb, forallb_forall in Hw.
  assert (Hin : In (nth (Z.to_nat (i - gt_symoffset T)) (gt_chain T) 0) (gt_chain T))
    by (apply nth_In; apply to_nat_lt; lia).
  specialize (Hw _ Hin). unfold in_urange in Hw. lia.
Qed.

Lemma gnu_fuel_enough le is64 img hoff T :
  placed img hoff (encode_gnu_hash le is64 T) -> (Z.to_nat (zlen (gt_chain T)) <= gnu_fuel img)%nat.
Proof.
  intros Hp. apply gnu_chain_placed in Hp. destruct Hp as [pre [post [-> _]]].
  unfold gnu_fuel. rewrite !app_length.
  pose proof (zlen_encode_arr le 4 (gt_chain T)) as H. unfold zlen in *. lia.
Qed.

(* wf_gnu_hash / wf_sysv_hash include the range facts the decoders need *)
Lemma wf_sysv_ranges T names : wf_sysv_hash T names = true ->
  zlen (sv_buckets T) < 2 ^ 32 /\ zlen (sv_chains T) < 2 ^ 32 /\
  words_ok 4 (sv_buckets T) = true /\ words_ok 4 (sv_chains T) = true.
Proof.
  intros W. unfold wf_sysv_hash in W. cbv zeta in W. rewrite !andb_true_iff in W.
  destruct W as [[[[[[[_ H1] _] H2] H3] H4] _] _]. apply Z.ltb_lt in H1, H2. repeat split; assumption.
Qed.

Lemma wf_gnu_ranges is64 T names : wf_gnu_hash is64 T names = true ->
  zlen (gt_buckets T) < 2 ^ 32 /\ zlen (gt_bloom T) < 2 ^ 32 /\
  0 <= gt_symoffset T < 2 ^ 32 /\ 0 <= gt_shift T < 2 ^ 32 /\
  words_ok (addr_bytes is64) (gt_bloom T) = true /\ words_ok 4 (gt_buckets T) = true /\
  words_ok 4 (gt_chain T) = true /\ zlen (gt_chain T) = zlen names - gt_symoffset T.
Proof.
  intros W. unfold wf_gnu_hash in W. cbv zeta in W. rewrite !andb_true_iff in W.
  destruct W as [[[[[[[[[[[[[_ H1] _] H2] H3] H4] _] H5] H6] H7] H8] H9] _] _].
  unfold below in H3. apply Z.ltb_lt in H1, H2, H5. apply Z.leb_le in H4. apply Z.eqb_eq in H6.
  repeat split; try assumption; lia.
Qed.

(* ================================================================== ELFHashSection *)
Section sysv_image.
Variables (le is64 : bool) (es : Z) (rows : list row) (strtab img : list Z) (off size stroff : Z).
Variables (T : sysv_table) (hoff : Z) (machine : Z).
Hypothesis Hok : symtab_ok is64 es rows = true.
Hypothesis Hnames : names_ok strtab rows = true.
Hypothesis Hsym : placed img off (encode_symtab le is64 rows).
Hypothesis Hstr : placed img stroff strtab.
Hypothesis Hsize : es * zlen rows <= size < es * (zlen rows + 1).
Hypothesis Hwf : wf_sysv_hash T (names_of strtab rows) = true.
Hypothesis Hhash : placed img hoff (encode_sysv_hash_w (sysv_entry_bytes is64 machine) le T).

Let c := mkSymCfg le is64 (mkSec off size es) stroff.
Let vs := views strtab rows.

Lemma sysv_init : elf_hash_init_w (hash_wide is64 machine) le is64 img hoff = Ok (sysv_params T).
Proof.
  destruct (wf_sysv_ranges _ _ Hwf) as [H1 [H2 [H3 H4]]].
  apply elf_hash_init_w_ok; try assumption.
  rewrite hash_wide_spec. unfold sysv_entry_bytes in *.
  destruct (is64 && ((machine =? EM_ALPHA) || (machine =? EM_S390))); exact Hhash.
Qed.

Lemma sysv_section_unfold q :
  elf_hash_section_get_symbol_m machine img c hoff q = elf_hash_get_symbol (get_symbol img c) (sysv_params T) q.
Proof.
  unfold elf_hash_section_get_symbol_m, c. cbn [c_le c_is64]. rewrite sysv_init. reflexivity.
Qed.

Let Hwf' : wf_sysv_hash T (map fst vs) = true.
Proof. unfold vs. rewrite <- names_of_views. exact Hwf. Qed.

Let Hget : forall i, 0 <= i < zlen vs -> get_symbol img c i = Ok (vth vs i).
Proof.
  intros i Hi. apply (get_symbol_exact le is64 es rows strtab img off size stroff Hok Hnames Hsym Hstr).
  unfold vs, views, zlen in Hi. rewrite map_length in Hi. exact Hi.
Qed.

Lemma zlen_vs : zlen vs = zlen rows.
Proof. unfold vs, views, zlen. rewrite map_length. reflexivity. Qed.

Theorem sysv_section_sound q v :
  elf_hash_section_get_symbol_m machine img c hoff q = Ok (Some v) ->
  fst v = q /\ exists i, 1 <= i < zlen rows /\ v = vth vs i.
Proof. rewrite sysv_section_unfold, <- zlen_vs. apply (sysv_lookup_sound T vs _ Hwf' Hget). Qed.

Theorem sysv_section_complete q :
  (exists i, 1 <= i < zlen rows /\ fst (vth vs i) = q) ->
  exists v, elf_hash_section_get_symbol_m machine img c hoff q = Ok (Some v) /\ fst v = q.
Proof. rewrite sysv_section_unfold, <- zlen_vs. apply (sysv_lookup_complete T vs _ Hwf' Hget). Qed.

Theorem sysv_section_absent q :
  (forall i, 1 <= i < zlen rows -> fst (vth vs i) <> q) ->
  elf_hash_section_get_symbol_m machine img c hoff q = Ok None.
Proof. rewrite sysv_section_unfold, <- zlen_vs. apply (sysv_lookup_absent T vs _ Hwf' Hget). Qed.

Theorem sysv_section_count : elf_hash_section_number_of_symbols_m machine img c hoff = Ok (zlen rows).
Proof.
  unfold elf_hash_section_number_of_symbols_m, c. cbn [c_le c_is64]. rewrite sysv_init. cbn [bind].
  rewrite (sysv_count_exact T vs Hwf'). rewrite zlen_vs. reflexivity.
Qed.
End sysv_image.

(* ================================================================== GNUHashSection *)
Section gnu_image.
Variables (le is64 : bool) (es : Z) (rows : list row) (strtab img : list Z) (off size stroff : Z).
Variables (T : gnu_table) (hoff : Z).
Hypothesis Hok : symtab_ok is64 es rows = true.
Hypothesis Hnames : names_ok strtab rows = true.
Hypothesis Hsym : placed img off (encode_symtab le is64 rows).
Hypothesis Hstr : placed img stroff strtab.
Hypothesis Hsize : es * zlen rows <= size < es * (zlen rows + 1).
Hypothesis Hwf : wf_gnu_hash is64 T (names_of strtab rows) = true.
Hypothesis Hhash : placed img hoff (encode_gnu_hash le is64 T).

Let c := mkSymCfg le is64 (mkSec off size es) stroff.
Let vs := views strtab rows.
Let P := gnu_params T (gnu_chain_pos is64 T hoff).
Let so := gt_symoffset T.

Let Hwf' : wf_gnu_hash is64 T (map fst vs) = true.
Proof. unfold vs. rewrite <- names_of_views. exact Hwf. Qed.

Lemma gzlen_vs : zlen vs = zlen rows.
Proof. unfold vs, views, zlen. rewrite map_length. reflexivity. Qed.

Lemma chain_len : zlen (gt_chain T) = zlen vs - so.
Proof.
  destruct (wf_gnu_ranges _ _ _ Hwf') as [_ [_ [_ [_ [_ [_ [_ H]]]]]]]. rewrite H.
  unfold zlen. rewrite map_length. reflexivity.
Qed.

Let Hrc : forall i, so <= i < zlen vs -> read_chain_word le img P i = Ok (zth (gt_chain T) (i - so)).
Proof.
  intros i Hi. destruct (wf_gnu_ranges _ _ _ Hwf') as [_ [_ [_ [_ [_ [_ [Hw _]]]]]]].
  apply (read_chain_word_ok le is64 img hoff T i Hw Hhash). rewrite chain_len. fold so. clear - Hi. lia.
Qed.

Let Hfuel : (Z.to_nat (zlen vs - so) <= gnu_fuel img)%nat.
Proof. rewrite <- chain_len. apply (gnu_fuel_enough le is64 img hoff T Hhash). Qed.

Lemma gnu_init : gnu_hash_init le is64 img hoff = Ok P.
Proof.
  destruct (wf_gnu_ranges _ _ _ Hwf') as [H1 [H2 [H3 [H4 [H5 [H6 _]]]]]].
  apply gnu_hash_init_ok; assumption.
Qed.

Let Hget : forall i, 0 <= i < zlen vs -> get_symbol img c i = Ok (vth vs i).
Proof.
  intros i Hi. apply (get_symbol_exact le is64 es rows strtab img off size stroff Hok Hnames Hsym Hstr).
  rewrite gzlen_vs in Hi. exact Hi.
Qed.

Lemma gnu_section_unfold q :
  gnu_hash_section_get_symbol img c hoff q
  = gnu_hash_get_symbol is64 (read_chain_word le img P) (get_symbol img c) (gnu_fuel img) P q.
Proof.
  unfold gnu_hash_section_get_symbol, c. cbn [c_le c_is64]. rewrite gnu_init. reflexivity.
Qed.

Theorem gnu_section_sound q v :
  gnu_hash_section_get_symbol img c hoff q = Ok (Some v) ->
  fst v = q /\ exists i, so <= i < zlen rows /\ v = vth vs i.
Proof.
  rewrite gnu_section_unfold, <- gzlen_vs.
  apply (gnu_lookup_sound is64 T vs _ _ (gnu_chain_pos is64 T hoff) Hwf' Hget Hrc _ Hfuel).
Qed.

Theorem gnu_section_complete q :
  (exists i, so <= i < zlen rows /\ fst (vth vs i) = q) ->
  exists v, gnu_hash_section_get_symbol img c hoff q = Ok (Some v) /\ fst v = q.
Proof.
  rewrite gnu_section_unfold, <- gzlen_vs.
  apply (gnu_lookup_complete is64 T vs _ _ (gnu_chain_pos is64 T hoff) Hwf' Hget Hrc _ Hfuel).
Qed.

Theorem gnu_section_absent q :
  (forall i, so <= i < zlen rows -> fst (vth vs i) <> q) ->
  gnu_hash_section_get_symbol img c hoff q = Ok None.
Proof.
  rewrite gnu_section_unfold, <- gzlen_vs.
  apply (gnu_lookup_absent is64 T vs _ _ (gnu_chain_pos is64 T hoff) Hwf' Hget Hrc _ Hfuel).
Qed.

Theorem gnu_section_count : gnu_hash_section_number_of_symbols img c hoff = Ok (zlen rows).
Proof using Hwf Hhash Hrc.
  unfold gnu_hash_section_number_of_symbols, c. cbn [c_le c_is64]. rewrite gnu_init. cbn [bind].
  rewrite <- gzlen_vs.
  apply (gnu_count_exact is64 T vs _ (gnu_chain_pos is64 T hoff) Hwf' Hrc _ Hfuel).
Qed.
End gnu_image.
