(* Proofs/ElfLayoutFacts.v — the record layouts regenerated from the live code
   equal the gABI tables, for both byte orders and both classes (finite: 4
   configurations, decided by computation), and have the standard sizes. *)
From PV Require Import Base.Fmt Spec.ElfGabi Gen.ElfLayouts.

Ltac four := intros [|] [|]; vm_compute; reflexivity.
Ltac two := intros [|]; vm_compute; reflexivity.

Lemma gen_Elf_Ehdr_gabi : forall le is64, gen_Elf_Ehdr le is64 = spec_Elf_Ehdr le is64. Proof. four. Qed.
Lemma gen_Elf_Phdr_gabi : forall le is64, gen_Elf_Phdr le is64 = spec_Elf_Phdr le is64. Proof. four. Qed.
Lemma gen_Elf_Shdr_gabi : forall le is64, gen_Elf_Shdr le is64 = spec_Elf_Shdr le is64. Proof. four. Qed.
Lemma gen_Elf_Chdr_gabi : forall le is64, gen_Elf_Chdr le is64 = spec_Elf_Chdr le is64. Proof. four. Qed.
Lemma gen_Elf_Sym_gabi : forall le is64, gen_Elf_Sym le is64 = spec_Elf_Sym le is64. Proof. four. Qed.
Lemma gen_Elf_Rel_gabi : forall le is64, gen_Elf_Rel le is64 = spec_Elf_Rel le is64. Proof. four. Qed.
Lemma gen_Elf_Rela_gabi : forall le is64, gen_Elf_Rela le is64 = spec_Elf_Rela le is64. Proof. four. Qed.
Lemma gen_Elf_Relr_gabi : forall le is64, gen_Elf_Relr le is64 = spec_Elf_Relr le is64. Proof. four. Qed.
Lemma gen_Elf_Rel_mips64_gabi : forall le, gen_Elf_Rel_mips64 le = spec_Elf_Rel_mips64 le. Proof. two. Qed.
Lemma gen_Elf_Rela_mips64_gabi : forall le, gen_Elf_Rela_mips64 le = spec_Elf_Rela_mips64 le. Proof. two. Qed.
Lemma gen_Elf_Dyn_gabi : forall le is64, gen_Elf_Dyn le is64 = spec_Elf_Dyn le is64. Proof. four. Qed.
Lemma gen_Elf_Sunw_Syminfo_gabi : forall le is64, gen_Elf_Sunw_Syminfo le is64 = spec_Elf_Sunw_Syminfo le. Proof. four. Qed.
Lemma gen_Elf_Verneed_gabi : forall le is64, gen_Elf_Verneed le is64 = spec_Elf_Verneed le. Proof. four. Qed.
Lemma gen_Elf_Vernaux_gabi : forall le is64, gen_Elf_Vernaux le is64 = spec_Elf_Vernaux le. Proof. four. Qed.
Lemma gen_Elf_Verdef_gabi : forall le is64, gen_Elf_Verdef le is64 = spec_Elf_Verdef le. Proof. four. Qed.
Lemma gen_Elf_Verdaux_gabi : forall le is64, gen_Elf_Verdaux le is64 = spec_Elf_Verdaux le. Proof. four. Qed.
Lemma gen_Elf_Versym_gabi : forall le is64, gen_Elf_Versym le is64 = spec_Elf_Versym le. Proof. four. Qed.
Lemma gen_Elf_Nhdr_gabi : forall le is64, gen_Elf_Nhdr le is64 = spec_Elf_Nhdr le. Proof. four. Qed.
Lemma gen_Elf_abi_gabi : forall le is64, gen_Elf_abi le is64 = spec_Elf_abi le. Proof. four. Qed.
Lemma gen_Elf_Stabs_gabi : forall le is64, gen_Elf_Stabs le is64 = spec_Elf_Stabs le. Proof. four. Qed.
Lemma gen_Elf_Hash_gabi : forall le is64, gen_Elf_Hash le is64 = spec_Elf_Hash le. Proof. four. Qed.
Lemma gen_Gnu_Hash_gabi : forall le is64, gen_Gnu_Hash le is64 = spec_Gnu_Hash le is64. Proof. four. Qed.
Lemma gen_Elf_Prpsinfo_gabi : forall le is64, gen_Elf_Prpsinfo le is64 = spec_Elf_Prpsinfo le is64 false. Proof. four. Qed.
Lemma gen_Elf_Prpsinfo_half32_gabi : forall le, gen_Elf_Prpsinfo_half32 le = spec_Elf_Prpsinfo le false true. Proof. two. Qed.
Lemma gen_rel_mips64_only : gen_rel_mips64_machines = ["EM_MIPS"%string]. Proof. reflexivity. Qed.

(* standard entry sizes *)
Lemma size_Ehdr : forall le is64, layout_size (spec_Elf_Ehdr le is64) = Some (if is64 then 64 else 52)%nat. Proof. four. Qed.
Lemma size_Phdr : forall le is64, layout_size (spec_Elf_Phdr le is64) = Some (if is64 then 56 else 32)%nat. Proof. four. Qed.
Lemma size_Shdr : forall le is64, layout_size (spec_Elf_Shdr le is64) = Some (if is64 then 64 else 40)%nat. Proof. four. Qed.
Lemma size_Sym : forall le is64, layout_size (spec_Elf_Sym le is64) = Some (if is64 then 24 else 16)%nat. Proof. four. Qed.
Lemma size_Rel : forall le is64, layout_size (spec_Elf_Rel le is64) = Some (if is64 then 16 else 8)%nat. Proof. four. Qed.
Lemma size_Rela : forall le is64, layout_size (spec_Elf_Rela le is64) = Some (if is64 then 24 else 12)%nat. Proof. four. Qed.
Lemma size_Dyn : forall le is64, layout_size (spec_Elf_Dyn le is64) = Some (if is64 then 16 else 8)%nat. Proof. four. Qed.
Lemma size_Chdr : forall le is64, layout_size (spec_Elf_Chdr le is64) = Some (if is64 then 24 else 12)%nat. Proof. four. Qed.
Lemma size_Nhdr : forall le, layout_size (spec_Elf_Nhdr le) = Some 12%nat. Proof. two. Qed.
