(* Proofs/C20Attr.v — the build-attributes reader (Model/C20Attr.v) inverts the
   encoding of Spec/C20Attr.v for any number of subsections, sub-subsections and
   attributes, wherever the section lies in the file. *)
From PV Require Import Base.Bytes Base.Outcome Base.Prim Spec.PrimSpec Proofs.PrimProofs
  Model.C20Types Spec.C20Attr Model.C20Attr Gen.C20Tables.
From Coq Require Import ZifyBool.
Ltac Zify.zify_post_hook ::= Z.to_euclidean_division_equations.
Open Scope list_scope.
Open Scope Z_scope.

(* ---------------- all encodings of a uleb128 value ---------------- *)
Lemma uleb_pad_zero_valid k : uleb_valid (uleb_pad_zero k) 0.
Proof.
  induction k as [|k IH]; cbn [uleb_pad_zero].
  - constructor. lia.
  - eapply uv_more'; [|exact IH|]; lia.
Qed.

Lemma uleb_valid_nonempty bs v : uleb_valid bs v -> (1 <= List.length bs)%nat.
Proof. intros H. destruct H; cbn [List.length]; lia. Qed.

Lemma uleb_pad_valid bs v n : uleb_valid bs v -> uleb_valid (uleb_pad bs n) v.
Proof.
  induction 1 as [b Hb | b r v Hb Hr IH].
  - cbn [uleb_pad]. destruct n as [|k].
    + constructor. exact Hb.
    + eapply uv_more'; [|apply uleb_pad_zero_valid|]; lia.
  - pose proof (uleb_valid_nonempty r v Hr) as Hne.
    destruct r as [|x r']; [cbn in Hne; lia|].
    change (uleb_pad (b :: x :: r') n) with (b :: uleb_pad (x :: r') n).
    constructor; assumption.
Qed.

Lemma upad_valid v p : 0 <= v -> uleb_valid (upad v p) v.
Proof. intros H. unfold upad. apply uleb_pad_valid, uleb_encode_valid. exact H. Qed.

Lemma upad_length v p : 0 <= v -> 1 <= zlen (upad v p).
Proof.
  intros H. pose proof (uleb_valid_nonempty _ _ (upad_valid v p H)). unfold zlen. lia.
Qed.

Lemma p_uleb_valid e v t : uleb_valid e v -> p_uleb (e ++ t) = Ok (v, t).
Proof. intros H. unfold p_uleb. rewrite (uleb_decode_valid e v t H). reflexivity. Qed.

Lemma p_uleb_upad v p t : 0 <= v -> p_uleb (upad v p ++ t) = Ok (v, t).
Proof. intros H. apply p_uleb_valid, upad_valid, H. Qed.

Lemma p_word_valid le v t : 0 <= v < 2 ^ 32 -> p_word le (int_encode le 4 v ++ t) = Ok (v, t).
Proof.
  intros H. unfold p_word. rewrite uint_decode_valid; [reflexivity|].
  change (2 ^ (8 * Z.of_nat 4)) with (2 ^ 32). exact H.
Qed.

Lemma p_ntbs_valid s t : no_nul s = true -> p_ntbs (cstring_encode s ++ t) = Ok (s, t).
Proof. intros H. unfold p_ntbs. rewrite cstring_decode_valid by exact H. reflexivity. Qed.

(* ---------------- seek / tell ---------------- *)
Lemma seek_length img off : (List.length (seek img off) <= List.length img)%nat.
Proof.
  unfold seek. destruct (off <? 0); [cbn; lia|]. destruct (zlen img <=? off); [cbn; lia|].
  rewrite skipn_length. lia.
Qed.

Lemma seek_prefix_length img off x t : seek img off = x ++ t -> (List.length x <= List.length img)%nat.
Proof.
  intros H. pose proof (seek_length img off) as Hl. rewrite H, app_length in Hl. lia.
Qed.

Lemma skipn_skipn' {A} (x : nat) : forall (y : nat) (l : list A), skipn x (skipn y l) = skipn (x + y) l.
Proof.
  induction y as [|y IH]; intros l.
  - rewrite Nat.add_0_r. reflexivity.
  - rewrite Nat.add_succ_r. destruct l as [|a l]; cbn [skipn].
    + apply skipn_nil.
    + apply IH.
Qed.

Lemma seek_app img off x t : 0 <= off -> seek img off = x ++ t -> seek img (off + zlen x) = t.
Proof.
  intros Hoff H. pose proof (zlen_nonneg x) as Hx. unfold seek in *.
  destruct (Z.ltb_spec off 0) as [Hn|_]; [lia|].
  destruct (Z.ltb_spec (off + zlen x) 0) as [Hn|_]; [lia|].
  destruct (Z.leb_spec (zlen img) off) as [Hge|Hlt].
  - symmetry in H. apply app_eq_nil in H. destruct H as [-> ->].
    destruct (Z.leb_spec (zlen img) (off + zlen (@nil Z))) as [_|Hc]; [reflexivity|].
    unfold zlen in *. cbn [List.length] in *. lia.
  - assert (Hlen : (List.length img = Z.to_nat off + List.length (x ++ t))%nat).
    { rewrite <- H, skipn_length. unfold zlen in Hlt. lia. }
    rewrite app_length in Hlen.
    destruct (Z.leb_spec (zlen img) (off + zlen x)) as [Hge2|Hlt2].
    + unfold zlen in *. destruct t as [|y t']; [reflexivity|]. cbn [List.length] in Hlen. lia.
    + replace (Z.to_nat (off + zlen x)) with (List.length x + Z.to_nat off)%nat by (unfold zlen; lia).
      rewrite <- skipn_skipn', H, skipn_app, skipn_all, Nat.sub_diag. reflexivity.
Qed.

Lemma tell_seek img off x t : 0 <= off -> seek img off = x ++ t -> x <> [] ->
  tell img t = off + zlen x.
Proof.
  intros Hoff H Hne. unfold seek in H.
  destruct (Z.ltb_spec off 0) as [Hn|_]; [lia|].
  destruct (Z.leb_spec (zlen img) off) as [Hge|Hlt].
  - symmetry in H. apply app_eq_nil in H. destruct H as [-> _]. contradiction.
  - assert (Hlen : (List.length img = Z.to_nat off + List.length (x ++ t))%nat).
    { rewrite <- H, skipn_length. unfold zlen in Hlt. lia. }
    rewrite app_length in Hlen. unfold tell, zlen in *. lia.
Qed.

Lemma seek_pre pre x : seek (pre ++ x) (zlen pre) = x.
Proof.
  pose proof (zlen_nonneg pre) as Hp. unfold seek.
  destruct (Z.ltb_spec (zlen pre) 0) as [Hn|_]; [lia|].
  destruct (Z.leb_spec (zlen (pre ++ x)) (zlen pre)) as [Hge|Hlt].
  - rewrite zlen_app in Hge. destruct x as [|y x']; [reflexivity|].
    rewrite zlen_cons in Hge. pose proof (zlen_nonneg x'). lia.
  - unfold zlen. rewrite Nat2Z.id, skipn_app, skipn_all, Nat.sub_diag. reflexivity.
Qed.

Lemma nonempty_zlen {A} (x : list A) : 1 <= zlen x -> x <> [].
Proof. intros H ->. unfold zlen in H. cbn in H. lia. Qed.

(* ---------------- Gen tables = Spec tables, extensionally ---------------- *)
Definition impl_of (fl : flavour) : attr_impl :=
  match fl with ARM => arm_impl | RISCV => riscv_impl end.

Definition class_of_kind (k : vkind) : aclass :=
  match k with
  | KFile => CFile | KScoped => CScoped | KUleb => CUleb
  | KNtbs => CNtbs | KCompat => CCompat | KNested => CNested
  end.
Definition aclass_eqb (a b : aclass) : bool :=
  match a, b with
  | CFile, CFile | CScoped, CScoped | CNtbs, CNtbs | CCompat, CCompat
  | CNested, CNested | CUleb, CUleb => true
  | _, _ => false
  end.
Lemma aclass_eqb_eq a b : aclass_eqb a b = true -> a = b.
Proof. destruct a, b; cbn; congruence. Qed.

Definition opt_str_eqb (a b : option string) : bool :=
  match a, b with
  | Some x, Some y => String.eqb x y
  | None, None => true
  | _, _ => false
  end.
Lemma opt_str_eqb_eq a b : opt_str_eqb a b = true -> a = b.
Proof.
  destruct a as [x|], b as [y|]; cbn; try congruence.
  intros H. apply String.eqb_eq in H. congruence.
Qed.

Lemma enum_name_notin tbl t : ~ In t (map snd tbl) -> enum_name tbl t = None.
Proof.
  induction tbl as [|[n x] r IH]; intros H; [reflexivity|].
  cbn [enum_name]. cbn [map snd In] in H.
  destruct (Z.eqb_spec x t) as [->|Hne]; [tauto|]. apply IH. tauto.
Qed.
Lemma name_of_tag_notin tbl t : ~ In t (map snd tbl) -> name_of_tag tbl t = None.
Proof.
  induction tbl as [|[n x] r IH]; intros H; [reflexivity|].
  cbn [name_of_tag]. cbn [map snd In] in H.
  destruct (Z.eqb_spec x t) as [->|Hne]; [tauto|]. apply IH. tauto.
Qed.

(* a finite check over the values that occur in either table decides equality of the
   two lookups on every integer *)
Definition tables_agree (gen spec : list (string * Z)) : bool :=
  forallb (fun p => opt_str_eqb (enum_name gen (snd p)) (name_of_tag spec (snd p))) (gen ++ spec).

Lemma tables_agree_sound gen spec : tables_agree gen spec = true ->
  forall t, enum_name gen t = name_of_tag spec t.
Proof.
  intros H t. unfold tables_agree in H. rewrite forallb_forall in H.
  destruct (in_dec Z.eq_dec t (map snd (gen ++ spec))) as [Hin|Hout].
  - apply in_map_iff in Hin. destruct Hin as (p & <- & Hp).
    apply opt_str_eqb_eq, H, Hp.
  - rewrite map_app, in_app_iff in Hout.
    rewrite enum_name_notin, name_of_tag_notin by tauto. reflexivity.
Qed.

Theorem tag_tables_agree fl t : enum_name (ai_table (impl_of fl)) t = name_of_tag (tag_table fl) t.
Proof. destruct fl; apply tables_agree_sound; vm_compute; reflexivity. Qed.

Lemma name_of_tag_in tbl t n : name_of_tag tbl t = Some n -> In (n, t) tbl.
Proof.
  induction tbl as [|[m x] r IH]; intros H; [discriminate|].
  cbn [name_of_tag] in H. destruct (Z.eqb_spec x t) as [->|Hne].
  - inversion H; subst. left. reflexivity.
  - right. apply IH, H.
Qed.

(* the if/elif chain on the tag NAME selects the value kind the standard gives the tag NUMBER,
   for every entry of the tables (finite: 50 + 11 entries) *)
Definition class_ok (fl : flavour) : bool :=
  forallb (fun p => aclass_eqb (ai_class (impl_of fl) (fst p)) (class_of_kind (tag_kind fl (snd p)))
                    && (0 <=? snd p))
          (tag_table fl).

Lemma class_ok_all fl : class_ok fl = true.
Proof. destruct fl; vm_compute; reflexivity. Qed.

Lemma tag_facts fl tag k : has_kind fl tag k = true ->
  0 <= tag /\
  enum_name (ai_table (impl_of fl)) tag = Some (tag_name fl tag) /\
  ai_class (impl_of fl) (tag_name fl tag) = class_of_kind k.
Proof.
  unfold has_kind, tag_known, tag_name. intros H. apply andb_prop in H. destruct H as [Hk Hv].
  destruct (name_of_tag (tag_table fl) tag) as [n|] eqn:E; [|discriminate].
  pose proof (name_of_tag_in _ _ _ E) as Hin.
  pose proof (class_ok_all fl) as Hc. unfold class_ok in Hc. rewrite forallb_forall in Hc.
  specialize (Hc _ Hin). cbn [fst snd] in Hc. apply andb_prop in Hc. destruct Hc as [Hc Hpos].
  apply aclass_eqb_eq in Hc.
  assert (Hkind : tag_kind fl tag = k) by (destruct (tag_kind fl tag), k; cbn in Hv; congruence).
  rewrite tag_tables_agree, E, Hc, Hkind. repeat split; auto. lia.
Qed.

(* ---------------- one attribute ---------------- *)
Lemma enc_attr_length a fl : wf_attr fl a = true -> 1 <= zlen (enc_attr a).
Proof.
  intros H.
  assert (Ht : forall tag tp k rest, has_kind fl tag k = true -> 1 <= zlen (upad tag tp ++ rest)).
  { intros tag tp k rest Hk. destruct (tag_facts fl tag k Hk) as (Hp & _ & _).
    rewrite zlen_app. pose proof (upad_length tag tp Hp). pose proof (zlen_nonneg rest). lia. }
  destruct a; cbn [wf_attr enc_attr] in *; rewrite ?andb_true_iff in H;
    repeat match goal with H : _ /\ _ |- _ => destruct H end; eapply Ht; eauto.
Qed.

Lemma p_attr_go_valid fl le a t fuel : wf_attr fl a = true -> (2 <= fuel)%nat ->
  p_attr_go (impl_of fl) fuel le (enc_attr a ++ t) = Ok (expected_attr fl a, t).
Proof.
  intros Hwf Hfuel. destruct fuel as [|[|f]]; try lia.
  destruct a as [tag tp v vp | tag tp s | tag tp v vp s | tag tp itag itp v vp | tag tp itag itp s];
    cbn [wf_attr enc_attr expected_attr] in *; rewrite ?andb_true_iff in Hwf.
  - destruct Hwf as [Hk Hv]. destruct (tag_facts fl tag _ Hk) as (Hp & Hn & Hc).
    cbn [p_attr_go]. rewrite <- app_assoc, p_uleb_upad by exact Hp. cbn [bind].
    rewrite Hn. cbn [of_opt bind]. rewrite Hc. cbn [class_of_kind].
    rewrite p_uleb_upad by lia. reflexivity.
  - destruct Hwf as [Hk Hs]. destruct (tag_facts fl tag _ Hk) as (Hp & Hn & Hc).
    cbn [p_attr_go]. rewrite <- app_assoc, p_uleb_upad by exact Hp. cbn [bind].
    rewrite Hn. cbn [of_opt bind]. rewrite Hc. cbn [class_of_kind].
    rewrite p_ntbs_valid by exact Hs. reflexivity.
  - destruct Hwf as [[Hk Hv] Hs]. destruct (tag_facts fl tag _ Hk) as (Hp & Hn & Hc).
    cbn [p_attr_go]. rewrite <- !app_assoc, p_uleb_upad by exact Hp. cbn [bind].
    rewrite Hn. cbn [of_opt bind]. rewrite Hc. cbn [class_of_kind].
    rewrite p_uleb_upad by lia. cbn [bind]. rewrite p_ntbs_valid by exact Hs. reflexivity.
  - destruct Hwf as [[Hk Hik] Hv]. destruct (tag_facts fl tag _ Hk) as (Hp & Hn & Hc).
    destruct (tag_facts fl itag _ Hik) as (Hip & Hin & Hic).
    cbn [p_attr_go]. rewrite <- !app_assoc, p_uleb_upad by exact Hp. cbn [bind].
    rewrite Hn. cbn [of_opt bind]. rewrite Hc. cbn [class_of_kind].
    rewrite p_uleb_upad by exact Hip. cbn [bind].
    rewrite Hin. cbn [of_opt bind]. rewrite Hic. cbn [class_of_kind].
    rewrite p_uleb_upad by lia. cbn [bind app].
    unfold p_byte. change (0 :: t) with (int_encode true 1 0 ++ t).
    rewrite uint_decode_valid by (cbn; lia). reflexivity.
  - destruct Hwf as [[Hk Hik] Hs]. destruct (tag_facts fl tag _ Hk) as (Hp & Hn & Hc).
    destruct (tag_facts fl itag _ Hik) as (Hip & Hin & Hic).
    cbn [p_attr_go]. rewrite <- !app_assoc, p_uleb_upad by exact Hp. cbn [bind].
    rewrite Hn. cbn [of_opt bind]. rewrite Hc. cbn [class_of_kind].
    rewrite p_uleb_upad by exact Hip. cbn [bind].
    rewrite Hin. cbn [of_opt bind]. rewrite Hic. cbn [class_of_kind].
    rewrite p_ntbs_valid by exact Hs. reflexivity.
Qed.

Lemma p_attr_valid fl le a t : wf_attr fl a = true ->
  p_attr (impl_of fl) le (enc_attr a ++ t) = Ok (expected_attr fl a, t).
Proof.
  intros H. unfold p_attr. apply p_attr_go_valid; [exact H|].
  pose proof (enc_attr_length a fl H) as Hl. rewrite app_length. unfold zlen in Hl. lia.
Qed.

(* ---------------- section / symbol number lists ---------------- *)
Lemma enc_nums_length nums tp : forallb (fun p => 0 <? fst p) nums = true ->
  (List.length nums < List.length (enc_nums nums tp))%nat.
Proof.
  unfold enc_nums. induction nums as [|[v p] r IH]; intros H.
  - cbn [map List.concat app List.length]. pose proof (uleb_valid_nonempty _ _ (uleb_pad_zero_valid tp)). lia.
  - cbn [forallb fst] in H. apply andb_prop in H. destruct H as [Hv Hr].
    cbn [map List.concat fst snd]. rewrite <- app_assoc, app_length. cbn [List.length].
    specialize (IH Hr). pose proof (upad_length v p ltac:(lia)) as Hl. unfold zlen in Hl. lia.
Qed.

Lemma p_numbers_go_valid tp t : forall nums fuel,
  forallb (fun p => 0 <? fst p) nums = true -> (List.length nums < fuel)%nat ->
  p_numbers_go fuel (enc_nums nums tp ++ t) = Ok (map fst nums, t).
Proof.
  unfold enc_nums. induction nums as [|[v p] r IH]; intros fuel H Hf.
  - destruct fuel as [|f]; [cbn in Hf; lia|]. cbn [map List.concat app p_numbers_go].
    rewrite (p_uleb_valid _ 0 t (uleb_pad_zero_valid tp)). reflexivity.
  - destruct fuel as [|f]; [cbn in Hf; lia|].
    cbn [forallb fst] in H. apply andb_prop in H. destruct H as [Hv Hr].
    cbn [map List.concat fst snd p_numbers_go]. rewrite <- !app_assoc.
    rewrite p_uleb_upad by lia. cbn [bind].
    destruct (Z.eqb_spec v 0) as [Hz|_]; [lia|].
    rewrite app_assoc, IH by (auto; cbn in Hf; lia). reflexivity.
Qed.

Lemma p_numbers_valid nums tp t : forallb (fun p => 0 <? fst p) nums = true ->
  p_numbers (enc_nums nums tp ++ t) = Ok (map fst nums, t).
Proof.
  intros H. unfold p_numbers. apply p_numbers_go_valid; [exact H|].
  pose proof (enc_nums_length nums tp H). rewrite app_length. lia.
Qed.

(* ---------------- attributes of a sub-subsection ---------------- *)
Lemma enc_attrs_length fl attrs : forallb (wf_attr fl) attrs = true ->
  (List.length attrs <= List.length (enc_attrs attrs))%nat.
Proof.
  unfold enc_attrs. induction attrs as [|a r IH]; intros H; [cbn; lia|].
  cbn [forallb] in H. apply andb_prop in H. destruct H as [Ha Hr].
  cbn [map List.concat List.length]. rewrite app_length.
  pose proof (enc_attr_length a fl Ha) as Hl. unfold zlen in Hl. specialize (IH Hr). lia.
Qed.

Lemma make_attributes_valid fl le img : forall attrs pos t fuel,
  forallb (wf_attr fl) attrs = true -> 0 <= pos ->
  seek img pos = enc_attrs attrs ++ t -> (List.length attrs < fuel)%nat ->
  make_attributes (impl_of fl) fuel le img pos (pos + zlen (enc_attrs attrs))
  = Ok (map (expected_attr fl) attrs).
Proof.
  unfold enc_attrs. induction attrs as [|a r IH]; intros pos t fuel Hwf Hpos Hseek Hf.
  - destruct fuel as [|f]; [cbn in Hf; lia|]. cbn [map List.concat make_attributes].
    replace (pos + zlen (@nil Z)) with pos by (unfold zlen; cbn; lia).
    rewrite Z.eqb_refl. reflexivity.
  - destruct fuel as [|f]; [cbn in Hf; lia|].
    cbn [forallb] in Hwf. apply andb_prop in Hwf. destruct Hwf as [Ha Hr].
    cbn [map List.concat] in *. rewrite <- app_assoc in Hseek.
    pose proof (enc_attr_length a fl Ha) as Hl.
    cbn [make_attributes]. rewrite zlen_app.
    pose proof (zlen_nonneg (List.concat (map enc_attr r))) as Hnn.
    destruct (Z.eqb_spec pos (pos + (zlen (enc_attr a) + zlen (List.concat (map enc_attr r))))) as [Hc|_]; [lia|].
    rewrite Hseek, p_attr_valid by exact Ha. cbn [bind].
    rewrite (tell_seek img pos (enc_attr a) _ Hpos Hseek (nonempty_zlen _ Hl)).
    replace (pos + (zlen (enc_attr a) + zlen (List.concat (map enc_attr r))))
      with ((pos + zlen (enc_attr a)) + zlen (List.concat (map enc_attr r))) by lia.
    rewrite (IH (pos + zlen (enc_attr a)) t f Hr).
    + reflexivity.
    + lia.
    + apply (seek_app img pos (enc_attr a) _ Hpos Hseek).
    + cbn in Hf. lia.
Qed.

(* ---------------- one sub-subsection ---------------- *)
Lemma scope_kind fl : has_kind fl 1 KFile = true /\ has_kind fl 2 KScoped = true /\ has_kind fl 3 KScoped = true.
Proof. destruct fl; vm_compute; auto. Qed.

Definition ssub_head (le : bool) (s : ssub) : list Z :=
  upad (ss_scope s) (ss_tp s) ++ int_encode le 4 (ssub_size s)
  ++ (if ss_scope s =? 1 then [] else enc_nums (ss_nums s) (ss_termpad s)).

Lemma enc_ssub_split le s : enc_ssub le s = ssub_head le s ++ enc_attrs (ss_attrs s).
Proof. unfold enc_ssub, ssub_head, ssub_body. rewrite <- !app_assoc. reflexivity. Qed.

Lemma ssub_size_nonneg s : 0 <= ss_scope s -> 5 <= ssub_size s.
Proof.
  intros H. unfold ssub_size. pose proof (upad_length (ss_scope s) (ss_tp s) H).
  pose proof (zlen_nonneg (ssub_body s)). lia.
Qed.

Lemma wf_ssub_scope fl s : wf_ssub fl s = true ->
  (ss_scope s = 1 /\ ss_nums s = []) \/ ss_scope s = 2 \/ ss_scope s = 3.
Proof.
  unfold wf_ssub. rewrite !andb_true_iff, !orb_true_iff, andb_true_iff.
  intros [[[[[[H1 H2]|H]|H] _] _] _]; [left|right; left|right; right]; try lia.
  split; [lia|]. destruct (ss_nums s); [reflexivity|discriminate].
Qed.

Lemma p_attr_header fl le s t : wf_ssub fl s = true ->
  p_attr (impl_of fl) le (ssub_head le s ++ t)
  = Ok ((tag_name fl (ss_scope s), OInt (ssub_size s),
         if ss_scope s =? 1 then XNone else XNums (map fst (ss_nums s))), t).
Proof.
  intros Hwf. pose proof (wf_ssub_scope fl s Hwf) as Hsc.
  unfold wf_ssub in Hwf. rewrite !andb_true_iff in Hwf. destruct Hwf as [[[_ Hnums] _] Hsz].
  destruct (scope_kind fl) as (K1 & K2 & K3).
  assert (Hk : exists k, has_kind fl (ss_scope s) k = true /\
                         (k = KFile /\ ss_scope s = 1 \/ k = KScoped /\ ss_scope s <> 1)).
  { destruct Hsc as [[-> _]|[-> | ->]]; eauto 6 with zarith. }
  destruct Hk as (k & Hk & Hcase).
  destruct (tag_facts fl _ _ Hk) as (Hp & Hn & Hc).
  pose proof (ssub_size_nonneg s Hp) as Hsz5.
  unfold p_attr, ssub_head.
  match goal with |- context [List.length ?x] => set (bs := x) end.
  assert (Hlen : (1 <= List.length bs)%nat).
  { subst bs. rewrite !app_length. pose proof (upad_length _ (ss_tp s) Hp) as Hl. unfold zlen in Hl. lia. }
  destruct (List.length bs) as [|n]; [lia|]. clear Hlen. subst bs.
  cbn [p_attr_go]. rewrite <- !app_assoc, p_uleb_upad by exact Hp. cbn [bind].
  rewrite Hn. cbn [of_opt bind]. rewrite Hc.
  destruct Hcase as [[-> Hs1]|[-> Hs1]]; cbn [class_of_kind].
  - rewrite p_word_valid by lia. cbn [bind]. rewrite Hs1. cbn [Z.eqb Pos.eqb app]. reflexivity.
  - rewrite p_word_valid by lia. cbn [bind].
    destruct (Z.eqb_spec (ss_scope s) 1) as [Heq|_]; [contradiction|].
    rewrite p_numbers_valid by exact Hnums. reflexivity.
Qed.

Lemma ssub_head_length le s : 0 <= ss_scope s -> 5 <= zlen (ssub_head le s).
Proof.
  intros H. unfold ssub_head. rewrite !zlen_app. pose proof (upad_length _ (ss_tp s) H).
  unfold zlen at 2. rewrite int_encode_length.
  pose proof (zlen_nonneg (if ss_scope s =? 1 then [] else enc_nums (ss_nums s) (ss_termpad s))). lia.
Qed.

Lemma ssub_size_split le s : ssub_size s = zlen (ssub_head le s) + zlen (enc_attrs (ss_attrs s)).
Proof.
  unfold ssub_size, ssub_head, ssub_body. rewrite !zlen_app.
  unfold zlen at 5. rewrite int_encode_length. lia.
Qed.

Lemma enc_ssub_length le s : zlen (enc_ssub le s) = ssub_size s.
Proof. rewrite enc_ssub_split, zlen_app, <- ssub_size_split. reflexivity. Qed.

Lemma wf_ssub_scope_nonneg fl s : wf_ssub fl s = true -> 0 <= ss_scope s.
Proof. intros H. destruct (wf_ssub_scope fl s H) as [[-> _]|[-> | ->]]; lia. Qed.

Lemma read_subsubsection_valid fl le img s off t :
  wf_ssub fl s = true -> 0 <= off -> seek img off = enc_ssub le s ++ t ->
  read_subsubsection (impl_of fl) le img off = Ok (ssub_size s, expected_ssub fl s).
Proof.
  intros Hwf Hoff Hseek. pose proof (wf_ssub_scope_nonneg fl s Hwf) as Hsc.
  rewrite enc_ssub_split, <- app_assoc in Hseek.
  unfold read_subsubsection. rewrite Hseek, p_attr_header by exact Hwf. cbn [bind attr_int_value].
  pose proof (ssub_head_length le s Hsc) as Hh.
  rewrite (tell_seek img off _ _ Hoff Hseek (nonempty_zlen (ssub_head le s) ltac:(lia))).
  rewrite (ssub_size_split le s), Z.add_assoc.
  assert (Hattrs : forallb (wf_attr fl) (ss_attrs s) = true).
  { unfold wf_ssub in Hwf. rewrite !andb_true_iff in Hwf. tauto. }
  rewrite (make_attributes_valid fl le img (ss_attrs s) (off + zlen (ssub_head le s)) t).
  - cbn [bind]. unfold expected_ssub. rewrite <- !(ssub_size_split le s). reflexivity.
  - exact Hattrs.
  - lia.
  - apply (seek_app img off _ _ Hoff Hseek).
  - pose proof (seek_app img off _ _ Hoff Hseek) as Hs2.
    pose proof (seek_prefix_length _ _ _ _ Hs2). pose proof (enc_attrs_length fl _ Hattrs). lia.
Qed.

(* ---------------- the sub-subsections of a subsection ---------------- *)
Lemma enc_ssubs_length le l : zlen (enc_ssubs le l) = ssubs_size l.
Proof.
  unfold enc_ssubs, ssubs_size. induction l as [|s r IH]; [reflexivity|].
  cbn [map List.concat zsum fold_right]. rewrite zlen_app, enc_ssub_length.
  unfold zsum in IH. rewrite IH. reflexivity.
Qed.

Lemma make_subsubsections_valid fl le img : forall l off t fuel,
  forallb (wf_ssub fl) l = true -> 0 <= off ->
  seek img off = enc_ssubs le l ++ t -> (List.length l < fuel)%nat ->
  make_subsubsections (impl_of fl) fuel le img off (off + ssubs_size l)
  = Ok (map (expected_ssub fl) l).
Proof.
  induction l as [|s r IH]; intros off t fuel Hwf Hoff Hseek Hf.
  - destruct fuel as [|f]; [cbn in Hf; lia|]. cbn [make_subsubsections].
    unfold ssubs_size. cbn [map zsum fold_right]. rewrite Z.add_0_r, Z.eqb_refl. reflexivity.
  - destruct fuel as [|f]; [cbn in Hf; lia|].
    cbn [forallb] in Hwf. apply andb_prop in Hwf. destruct Hwf as [Hs Hr].
    unfold enc_ssubs in Hseek. cbn [map List.concat] in Hseek. rewrite <- app_assoc in Hseek.
    fold (enc_ssubs le r) in Hseek.
    pose proof (ssub_size_nonneg s (wf_ssub_scope_nonneg fl s Hs)) as Hsz.
    assert (Hrest : 0 <= ssubs_size r) by (rewrite <- (enc_ssubs_length le); apply zlen_nonneg).
    unfold ssubs_size in *. cbn [map zsum fold_right]. fold (zsum (map ssub_size r)) in *.
    cbn [make_subsubsections].
    destruct (Z.eqb_spec off (off + (ssub_size s + zsum (map ssub_size r)))) as [Hc|_]; [lia|].
    rewrite (read_subsubsection_valid fl le img s off _ Hs Hoff Hseek). cbn [bind].
    replace (off + (ssub_size s + zsum (map ssub_size r)))
      with ((off + ssub_size s) + zsum (map ssub_size r)) by lia.
    rewrite (IH (off + ssub_size s) t f Hr).
    + reflexivity.
    + lia.
    + rewrite <- (enc_ssub_length le s). apply (seek_app img off _ _ Hoff Hseek).
    + cbn in Hf. lia.
Qed.

(* ---------------- one subsection ---------------- *)
Definition subsec_head (le : bool) (s : subsec) : list Z :=
  int_encode le 4 (subsec_length s) ++ cstring_encode (sb_vendor s).

Lemma subsec_head_length le s : zlen (subsec_head le s) = 4 + (zlen (sb_vendor s) + 1).
Proof.
  unfold subsec_head, cstring_encode, zlen. rewrite !app_length, int_encode_length.
  cbn [List.length]. lia.
Qed.

Lemma enc_subsec_length le s : zlen (enc_subsec le s) = subsec_length s.
Proof.
  unfold enc_subsec. rewrite app_assoc. fold (subsec_head le s).
  rewrite zlen_app, subsec_head_length, enc_ssubs_length. reflexivity.
Qed.

Lemma ssubs_length_le fl le l : forallb (wf_ssub fl) l = true -> (List.length l <= List.length (enc_ssubs le l))%nat.
Proof.
  unfold enc_ssubs. induction l as [|s r IH]; intros H; [cbn; lia|].
  cbn [forallb] in H. apply andb_prop in H. destruct H as [Hs Hr].
  cbn [map List.concat List.length]. rewrite app_length.
  pose proof (ssub_size_nonneg s (wf_ssub_scope_nonneg fl s Hs)) as Hsz.
  rewrite <- (enc_ssub_length le) in Hsz. unfold zlen in Hsz. specialize (IH Hr). lia.
Qed.

Lemma read_subsection_valid fl le img s off t :
  wf_subsec fl s = true -> 0 <= off -> seek img off = enc_subsec le s ++ t ->
  read_subsection (impl_of fl) le img off = Ok (subsec_length s, expected_subsec fl s).
Proof.
  intros Hwf Hoff Hseek. unfold wf_subsec in Hwf. rewrite !andb_true_iff in Hwf.
  destruct Hwf as [[Hv Hsubs] Hlen].
  assert (Hpos : 5 <= subsec_length s).
  { unfold subsec_length. pose proof (zlen_nonneg (sb_vendor s)).
    assert (0 <= ssubs_size (sb_subs s)) by (rewrite <- (enc_ssubs_length le); apply zlen_nonneg). lia. }
  assert (Hsplit : enc_subsec le s = subsec_head le s ++ enc_ssubs le (sb_subs s)).
  { unfold enc_subsec, subsec_head. rewrite <- app_assoc. reflexivity. }
  rewrite Hsplit, <- app_assoc in Hseek.
  unfold read_subsection. rewrite Hseek. unfold subsec_head at 1. rewrite <- app_assoc.
  rewrite p_word_valid by lia. cbn [bind]. rewrite p_ntbs_valid by exact Hv. cbn [bind].
  pose proof (subsec_head_length le s) as Hh. pose proof (zlen_nonneg (sb_vendor s)) as Hvn.
  rewrite (tell_seek img off _ _ Hoff Hseek (nonempty_zlen (subsec_head le s) ltac:(lia))).
  replace (off + subsec_length s) with ((off + zlen (subsec_head le s)) + ssubs_size (sb_subs s))
    by (unfold subsec_length; lia).
  rewrite (make_subsubsections_valid fl le img (sb_subs s) (off + zlen (subsec_head le s)) t).
  - reflexivity.
  - exact Hsubs.
  - lia.
  - apply (seek_app img off _ _ Hoff Hseek).
  - pose proof (seek_app img off _ _ Hoff Hseek) as Hs2.
    pose proof (seek_prefix_length _ _ _ _ Hs2). pose proof (ssubs_length_le fl le _ Hsubs). lia.
Qed.

(* ---------------- all subsections ---------------- *)
Definition subsecs_size (l : list subsec) : Z := zsum (map subsec_length l).

Lemma enc_subsecs_length le l : zlen (enc_subsecs le l) = subsecs_size l.
Proof.
  unfold enc_subsecs, subsecs_size. induction l as [|s r IH]; [reflexivity|].
  cbn [map List.concat zsum fold_right]. rewrite zlen_app, enc_subsec_length.
  unfold zsum in IH. rewrite IH. reflexivity.
Qed.

Lemma make_subsections_valid fl le img : forall l off t fuel,
  forallb (wf_subsec fl) l = true -> 0 <= off ->
  seek img off = enc_subsecs le l ++ t -> (List.length l < fuel)%nat ->
  make_subsections (impl_of fl) fuel le img off (off + subsecs_size l)
  = Ok (map (expected_subsec fl) l).
Proof.
  induction l as [|s r IH]; intros off t fuel Hwf Hoff Hseek Hf.
  - destruct fuel as [|f]; [cbn in Hf; lia|]. cbn [make_subsections].
    unfold subsecs_size. cbn [map zsum fold_right]. rewrite Z.add_0_r, Z.eqb_refl. reflexivity.
  - destruct fuel as [|f]; [cbn in Hf; lia|].
    cbn [forallb] in Hwf. apply andb_prop in Hwf. destruct Hwf as [Hs Hr].
    unfold enc_subsecs in Hseek. cbn [map List.concat] in Hseek. rewrite <- app_assoc in Hseek.
    fold (enc_subsecs le r) in Hseek.
    assert (Hsz : 5 <= subsec_length s).
    { unfold subsec_length. pose proof (zlen_nonneg (sb_vendor s)).
      assert (0 <= ssubs_size (sb_subs s)) by (rewrite <- (enc_ssubs_length le); apply zlen_nonneg). lia. }
    assert (Hrest : 0 <= subsecs_size r) by (rewrite <- (enc_subsecs_length le); apply zlen_nonneg).
    unfold subsecs_size in *. cbn [map zsum fold_right]. fold (zsum (map subsec_length r)) in *.
    cbn [make_subsections].
    destruct (Z.eqb_spec off (off + (subsec_length s + zsum (map subsec_length r)))) as [Hc|_]; [lia|].
    rewrite (read_subsection_valid fl le img s off _ Hs Hoff Hseek). cbn [bind].
    replace (off + (subsec_length s + zsum (map subsec_length r)))
      with ((off + subsec_length s) + zsum (map subsec_length r)) by lia.
    rewrite (IH (off + subsec_length s) t f Hr).
    + reflexivity.
    + lia.
    + rewrite <- (enc_subsec_length le s). apply (seek_app img off _ _ Hoff Hseek).
    + cbn in Hf. lia.
Qed.

Lemma subsecs_length_le fl le l : forallb (wf_subsec fl) l = true ->
  (List.length l <= List.length (enc_subsecs le l))%nat.
Proof.
  unfold enc_subsecs. induction l as [|s r IH]; intros H; [cbn; lia|].
  cbn [forallb] in H. apply andb_prop in H. destruct H as [Hs Hr].
  cbn [map List.concat List.length]. rewrite app_length.
  assert (Hsz : 5 <= zlen (enc_subsec le s)).
  { rewrite enc_subsec_length. unfold subsec_length. pose proof (zlen_nonneg (sb_vendor s)).
    assert (0 <= ssubs_size (sb_subs s)) by (rewrite <- (enc_ssubs_length le); apply zlen_nonneg). lia. }
  unfold zlen in Hsz. specialize (IH Hr). lia.
Qed.

(* ---------------- the section, anywhere in the file ---------------- *)
Theorem read_attr_section_valid fl le pre post l :
  wf_section fl l = true ->
  read_attr_section (impl_of fl) le (pre ++ enc_section le l ++ post)
                    (zlen pre) (zlen (enc_section le l))
  = Ok (expected_section fl l).
Proof.
  intros Hwf. unfold wf_section in Hwf.
  set (img := pre ++ enc_section le l ++ post).
  assert (Hseek : seek img (zlen pre) = [65] ++ enc_subsecs le l ++ post).
  { unfold img. rewrite seek_pre. reflexivity. }
  pose proof (zlen_nonneg pre) as Hp.
  unfold read_attr_section. rewrite Hseek. unfold p_byte.
  change ([65] ++ enc_subsecs le l ++ post) with (int_encode true 1 65 ++ enc_subsecs le l ++ post).
  rewrite uint_decode_valid by (cbn; lia). cbn [of_opt bind Z.eqb Pos.eqb negb].
  change (int_encode true 1 65) with [65] in *.
  rewrite (tell_seek img (zlen pre) [65] _ Hp Hseek ltac:(discriminate)).
  replace (zlen pre + zlen (enc_section le l)) with ((zlen pre + zlen [65]) + subsecs_size l).
  - apply (make_subsections_valid fl le img l (zlen pre + zlen [65]) post); auto.
    + unfold zlen. cbn. lia.
    + apply (seek_app img (zlen pre) [65] _ Hp Hseek).
    + pose proof (seek_app img (zlen pre) [65] _ Hp Hseek) as Hs2.
      pose proof (seek_prefix_length _ _ _ _ Hs2). pose proof (subsecs_length_le fl le l Hwf). lia.
  - unfold enc_section. rewrite (zlen_cons 65 (enc_subsecs le l)), enc_subsecs_length.
    unfold zlen. cbn [List.length]. lia.
Qed.

(* ---------------- statements about the regenerated tables ---------------- *)
Theorem tag_dispatch_agrees fl name t : In (name, t) (tag_table fl) ->
  ai_class (impl_of fl) name = class_of_kind (tag_kind fl t).
Proof.
  intros Hin. pose proof (class_ok_all fl) as Hc. unfold class_ok in Hc.
  rewrite forallb_forall in Hc. specialize (Hc _ Hin). cbn [fst snd] in Hc.
  apply andb_prop in Hc. apply aclass_eqb_eq. tauto.
Qed.

Theorem attr_layouts_agree le :
  gen_attr_subsection_header le = spec_attr_subsection_header le /\
  gen_elf_word le = u32_kind le /\ gen_elf_byte le = "u8"%string /\
  gen_elf_uleb128 le = "uleb128"%string /\ gen_elf_ntbs le = "ntbs"%string.
Proof. destruct le; repeat split; reflexivity. Qed.
