(* Proofs/PrimProofs.v — the primitive decoders invert every valid encoding,
   consume exactly its bytes, and fail on every strict prefix. *)
From PV Require Import Base.Bytes Base.Prim Spec.PrimSpec.
From Coq Require Import ZifyBool.
Ltac Zify.zify_post_hook ::= Z.to_euclidean_division_equations.

(* ---------- bit-twiddling bridge: disjoint lor is addition ---------- *)
Lemma testbit_above a s n : 0 <= a < 2 ^ s -> s <= n -> Z.testbit a n = false.
Proof.
  intros [Ha Hlt] Hn.
  destruct (Z.eq_dec a 0) as [->|Hnz]; [apply Z.bits_0|].
  apply Z.bits_above_log2; [lia|].
  assert (Z.log2 a < s) by (apply Z.log2_lt_pow2; lia). lia.
Qed.

Lemma land_disjoint a x s : 0 <= s -> 0 <= a < 2 ^ s -> Z.land a (Z.shiftl x s) = 0.
Proof.
  intros Hs Ha. apply Z.bits_inj'. intros n Hn.
  rewrite Z.land_spec, Z.bits_0.
  destruct (Z.lt_ge_cases n s) as [Hlt|Hge].
  - rewrite (Z.shiftl_spec_low x s n Hlt). apply andb_false_r.
  - rewrite (testbit_above a s n Ha Hge). reflexivity.
Qed.

Lemma lor_shift_add a x s : 0 <= s -> 0 <= a < 2 ^ s ->
  Z.lor a (Z.shiftl x s) = a + x * 2 ^ s.
Proof.
  intros Hs Ha.
  pose proof (land_disjoint a x s Hs Ha) as Hd.
  rewrite <- Z.lxor_lor by exact Hd.
  rewrite <- Z.add_nocarry_lxor by exact Hd.
  rewrite Z.shiftl_mul_pow2 by lia. reflexivity.
Qed.

Lemma land127 b : 0 <= b -> Z.land b 127 = b mod 128.
Proof. intros _. change 127 with (Z.ones 7). rewrite Z.land_ones by lia. reflexivity. Qed.

Lemma land128_low b : 0 <= b < 128 -> Z.land b 128 = 0.
Proof.
  intros H. change 128 with (Z.shiftl 1 7). apply land_disjoint; [lia|].
  change (2 ^ 7) with 128. lia.
Qed.

Lemma land_bit b k : 0 <= k -> Z.land b (2 ^ k) = if Z.testbit b k then 2 ^ k else 0.
Proof.
  intros Hk. apply Z.bits_inj'. intros n Hn.
  rewrite Z.land_spec, Z.pow2_bits_eqb by lia.
  destruct (Z.eqb_spec k n) as [->|Hne].
  - rewrite andb_true_r. destruct (Z.testbit b n) eqn:E.
    + rewrite Z.pow2_bits_true; auto.
    + rewrite Z.bits_0. reflexivity.
  - rewrite andb_false_r. destruct (Z.testbit b k).
    + rewrite Z.pow2_bits_false; auto.
    + rewrite Z.bits_0. reflexivity.
Qed.

Lemma testbit_div b k : 0 <= k -> Z.testbit b k = Z.odd (b / 2 ^ k).
Proof. intros Hk. rewrite Z.testbit_odd, Z.shiftr_div_pow2 by lia. reflexivity. Qed.

Lemma land128_high b : 128 <= b < 256 -> Z.land b 128 = 128.
Proof.
  intros H. change 128 with (2 ^ 7) at 1. rewrite land_bit by lia.
  rewrite testbit_div by lia. change (2 ^ 7) with 128.
  replace (b / 128) with 1 by lia. reflexivity.
Qed.

Lemma land64_clear b : 0 <= b < 64 -> Z.land b 64 = 0.
Proof.
  intros H. change 64 with (2 ^ 6) at 1. rewrite land_bit by lia.
  rewrite testbit_div by lia. change (2 ^ 6) with 64.
  replace (b / 64) with 0 by lia. reflexivity.
Qed.

Lemma land64_set b : 64 <= b < 128 -> Z.land b 64 = 64.
Proof.
  intros H. change 64 with (2 ^ 6) at 1. rewrite land_bit by lia.
  rewrite testbit_div by lia. change (2 ^ 6) with 64.
  replace (b / 64) with 1 by lia. reflexivity.
Qed.

Lemma pow_plus7 s : 0 <= s -> 2 ^ (s + 7) = 128 * 2 ^ s.
Proof. intros H. rewrite Z.pow_add_r by lia. change (2 ^ 7) with 128. lia. Qed.

(* ---------- ULEB128 ---------- *)
Lemma uleb_valid_nonneg bs v : uleb_valid bs v -> 0 <= v.
Proof. induction 1; lia. Qed.

Lemma uleb_go_valid bs v : uleb_valid bs v ->
  forall tail acc s, 0 <= s -> 0 <= acc < 2 ^ s ->
  uleb_go (bs ++ tail) acc s = Some (acc + v * 2 ^ s, tail).
Proof.
  induction 1 as [b Hb | b r v Hb Hr IH]; intros tail acc s Hs Hacc.
  - cbn [app uleb_go]. rewrite land128_low by lia. cbn [Z.eqb].
    rewrite land127 by lia. rewrite Z.mod_small by lia.
    rewrite lor_shift_add by lia. reflexivity.
  - cbn [app uleb_go]. rewrite land128_high by lia.
    replace (128 =? 0) with false by reflexivity.
    rewrite land127 by lia.
    replace (b mod 128) with (b - 128) by lia.
    rewrite lor_shift_add by lia.
    rewrite IH.
    + f_equal. f_equal. rewrite pow_plus7 by lia. ring.
    + lia.
    + rewrite pow_plus7 by lia.
      pose proof (Z.pow_pos_nonneg 2 s ltac:(lia) Hs). nia.
Qed.

Theorem uleb_decode_valid bs v tail :
  uleb_valid bs v -> uleb_decode (bs ++ tail) = Some (v, tail).
Proof.
  intros H. unfold uleb_decode. rewrite (uleb_go_valid bs v H) by (cbn; lia).
  f_equal. f_equal. cbn. lia.
Qed.

Lemma uleb_go_truncated bs v : uleb_valid bs v ->
  forall p q acc s, bs = p ++ q -> q <> [] -> uleb_go p acc s = None.
Proof.
  induction 1 as [b Hb | b r v Hb Hr IH]; intros p q acc s E Hq.
  - destruct p as [|x p]; [reflexivity|]. cbn in E. inversion E as [[Hx Hp]].
    destruct p; destruct q; cbn in *; congruence.
  - destruct p as [|x p]; [reflexivity|]. cbn in E. inversion E as [[Hx Hp]]. subst x.
    cbn [uleb_go]. rewrite land128_high by lia.
    replace (128 =? 0) with false by reflexivity.
    eapply IH; eauto.
Qed.

Theorem uleb_decode_truncated bs v p q :
  uleb_valid bs v -> bs = p ++ q -> q <> [] -> uleb_decode p = None.
Proof. intros H E Hq. unfold uleb_decode. eapply uleb_go_truncated; eauto. Qed.

(* ---------- SLEB128 ---------- *)
Lemma sleb_go_valid bs v : sleb_valid bs v ->
  forall tail acc s, 0 <= s -> 0 <= acc < 2 ^ s ->
  sleb_go (bs ++ tail) acc s = Some (acc + v * 2 ^ s, tail).
Proof.
  induction 1 as [b Hb | b Hb | b r v Hb Hr IH]; intros tail acc s Hs Hacc.
  - cbn [app sleb_go]. rewrite land128_low by lia. cbn [Z.eqb].
    rewrite land64_clear by lia. cbn [Z.eqb].
    rewrite land127 by lia. rewrite Z.mod_small by lia.
    rewrite lor_shift_add by lia. reflexivity.
  - cbn [app sleb_go]. rewrite land128_low by lia. cbn [Z.eqb].
    rewrite land64_set by lia. replace (64 =? 0) with false by reflexivity.
    rewrite land127 by lia. rewrite Z.mod_small by lia.
    rewrite (lor_shift_add acc b s) by lia.
    pose proof (Z.pow_pos_nonneg 2 s ltac:(lia) Hs) as Hp.
    rewrite lor_shift_add.
    + f_equal. f_equal. rewrite pow_plus7 by lia. ring.
    + lia.
    + rewrite pow_plus7 by lia. nia.
  - cbn [app sleb_go]. rewrite land128_high by lia.
    replace (128 =? 0) with false by reflexivity.
    rewrite land127 by lia.
    replace (b mod 128) with (b - 128) by lia.
    rewrite lor_shift_add by lia.
    rewrite IH.
    + f_equal. f_equal. rewrite pow_plus7 by lia. ring.
    + lia.
    + rewrite pow_plus7 by lia.
      pose proof (Z.pow_pos_nonneg 2 s ltac:(lia) Hs). nia.
Qed.

Theorem sleb_decode_valid bs v tail :
  sleb_valid bs v -> sleb_decode (bs ++ tail) = Some (v, tail).
Proof.
  intros H. unfold sleb_decode. rewrite (sleb_go_valid bs v H) by (cbn; lia).
  f_equal. f_equal. cbn. lia.
Qed.

Lemma sleb_go_truncated bs v : sleb_valid bs v ->
  forall p q acc s, bs = p ++ q -> q <> [] -> sleb_go p acc s = None.
Proof.
  induction 1 as [b Hb | b Hb | b r v Hb Hr IH]; intros p q acc s E Hq.
  - destruct p as [|x p]; [reflexivity|]. cbn in E. inversion E as [[Hx Hp]].
    destruct p; destruct q; cbn in *; congruence.
  - destruct p as [|x p]; [reflexivity|]. cbn in E. inversion E as [[Hx Hp]].
    destruct p; destruct q; cbn in *; congruence.
  - destruct p as [|x p]; [reflexivity|]. cbn in E. inversion E as [[Hx Hp]]. subst x.
    cbn [sleb_go]. rewrite land128_high by lia.
    replace (128 =? 0) with false by reflexivity.
    eapply IH; eauto.
Qed.

Theorem sleb_decode_truncated bs v p q :
  sleb_valid bs v -> bs = p ++ q -> q <> [] -> sleb_decode p = None.
Proof. intros H E Hq. unfold sleb_decode. eapply sleb_go_truncated; eauto. Qed.

(* the relations are inhabited for every value: the canonical encoders are valid *)
Lemma uv_more' b r v v' : 128 <= b < 256 -> uleb_valid r v ->
  v' = (b - 128) + 128 * v -> uleb_valid (b :: r) v'.
Proof. intros Hb Hr ->. constructor; auto. Qed.

Lemma uleb_encode_fuel_valid fuel : forall v, 0 <= v ->
  v < 2 ^ (7 * (Z.of_nat fuel + 1)) -> uleb_valid (uleb_encode_fuel fuel v) v.
Proof.
  induction fuel as [|f IH]; intros v Hv Hlt.
  - cbn [uleb_encode_fuel]. change (2 ^ (7 * (Z.of_nat 0 + 1))) with 128 in Hlt.
    rewrite Z.mod_small by lia. constructor. lia.
  - cbn [uleb_encode_fuel]. destruct (Z.ltb_spec v 128) as [Hs|Hb].
    + constructor. lia.
    + eapply uv_more'; [lia| apply IH | lia].
      * lia.
      * replace (7 * (Z.of_nat (S f) + 1)) with (7 + 7 * (Z.of_nat f + 1)) in Hlt by lia.
        rewrite Z.pow_add_r in Hlt by lia. change (2 ^ 7) with 128 in Hlt. lia.
Qed.

Theorem uleb_encode_valid v : 0 <= v -> uleb_valid (uleb_encode v) v.
Proof.
  intros Hv. unfold uleb_encode.
  destruct (Z.eq_dec v 0) as [->|Hnz]; [cbn; constructor; lia|].
  apply uleb_encode_fuel_valid; [lia|].
  rewrite Z2Nat.id by apply Z.log2_nonneg.
  pose proof (Z.log2_spec v ltac:(lia)) as [_ Hhi].
  eapply Z.lt_le_trans; [exact Hhi|].
  apply Z.pow_le_mono_r; [lia|]. pose proof (Z.log2_nonneg v). lia.
Qed.

(* ---------- fixed-width integers ---------- *)
Theorem uint_decode_valid le n v tail :
  0 <= v < 2 ^ (8 * Z.of_nat n) ->
  uint_decode le n (int_encode le n v ++ tail) = Some (v, tail).
Proof.
  intros H. unfold uint_decode.
  rewrite <- (int_encode_length le n v) at 1. rewrite take_app.
  rewrite int_decode_encode_u; auto.
Qed.

Theorem sint_decode_valid le n v tail :
  (0 < n)%nat -> - (2 ^ (8 * Z.of_nat n) / 2) <= v < 2 ^ (8 * Z.of_nat n) / 2 ->
  sint_decode_n le n (int_encode le n v ++ tail) = Some (v, tail).
Proof.
  intros Hn H. unfold sint_decode_n.
  rewrite <- (int_encode_length le n v) at 1. rewrite take_app.
  rewrite sint_decode_encode; auto.
Qed.

Theorem uint_decode_truncated le n bs :
  (length bs < n)%nat -> uint_decode le n bs = None.
Proof. intros H. unfold uint_decode. rewrite take_short; auto. Qed.

Theorem sint_decode_truncated le n bs :
  (length bs < n)%nat -> sint_decode_n le n bs = None.
Proof. intros H. unfold sint_decode_n. rewrite take_short; auto. Qed.

(* every n-byte string decodes to the value the standard assigns it *)
Theorem uint_decode_any le (a tail : list Z) :
  uint_decode le (length a) (a ++ tail) = Some (int_decode le a, tail).
Proof. unfold uint_decode. rewrite take_app. reflexivity. Qed.

(* ---------- 24-bit integers ---------- *)
Theorem ub24_decode_spec b0 b1 b2 tail :
  all_bytes [b0; b1; b2] = true ->
  ub24_decode ([b0; b1; b2] ++ tail) = Some (be_decode [b0; b1; b2], tail).
Proof.
  intros H. unfold ub24_decode.
  change (take 3 ([b0; b1; b2] ++ tail)) with (take (length [b0; b1; b2]) ([b0; b1; b2] ++ tail)).
  rewrite take_app.
  cbn [all_bytes forallb] in H. rewrite !andb_true_iff in H.
  destruct H as (H0 & H1 & H2 & _). apply is_byte_iff in H0, H1, H2.
  f_equal. f_equal. unfold be_decode. cbn [rev app le_decode].
  rewrite (lor_shift_add _ b0 16) by (change (2 ^ 16) with 65536; lia).
  change (2 ^ 16) with 65536. lia.
Qed.

Theorem ul24_decode_spec b0 b1 b2 tail :
  all_bytes [b0; b1; b2] = true ->
  ul24_decode ([b0; b1; b2] ++ tail) = Some (le_decode [b0; b1; b2], tail).
Proof.
  intros H. unfold ul24_decode.
  change (take 3 ([b0; b1; b2] ++ tail)) with (take (length [b0; b1; b2]) ([b0; b1; b2] ++ tail)).
  rewrite take_app.
  cbn [all_bytes forallb] in H. rewrite !andb_true_iff in H.
  destruct H as (H0 & H1 & H2 & _). apply is_byte_iff in H0, H1, H2.
  f_equal. f_equal. cbn [le_decode].
  rewrite (lor_shift_add _ b2 16) by (change (2 ^ 16) with 65536; lia).
  change (2 ^ 16) with 65536. lia.
Qed.

Theorem u24_decode_valid le v tail :
  0 <= v < 2 ^ 24 ->
  u24_decode le (int_encode le 3 v ++ tail) = Some (v, tail).
Proof.
  intros Hv.
  pose proof (int_encode_bytes le 3 v) as Hb.
  pose proof (int_decode_encode_u le 3 v ltac:(cbn; lia)) as Hd.
  pose proof (int_encode_length le 3 v) as Hl.
  destruct (int_encode le 3 v) as [|b0 [|b1 [|b2 [|? ?]]]] eqn:E; cbn in Hl; try lia.
  destruct le; cbn [u24_decode].
  - rewrite ul24_decode_spec by exact Hb. cbn [int_decode] in Hd. rewrite Hd. reflexivity.
  - rewrite ub24_decode_spec by exact Hb. cbn [int_decode] in Hd. rewrite Hd. reflexivity.
Qed.

Theorem u24_decode_truncated le bs : (length bs < 3)%nat -> u24_decode le bs = None.
Proof.
  intros H. destruct le; cbn; unfold ul24_decode, ub24_decode; rewrite take_short; auto.
Qed.

(* ---------- construct CString ---------- *)
Lemma no_nul_cons b s : no_nul (b :: s) = true <-> b <> 0 /\ no_nul s = true.
Proof.
  unfold no_nul. cbn [forallb]. rewrite andb_true_iff.
  destruct (Z.eqb_spec b 0); cbn; intuition congruence.
Qed.

Theorem cstring_decode_valid s tail :
  no_nul s = true -> cstring_decode (cstring_encode s ++ tail) = Some (s, tail).
Proof.
  unfold cstring_encode. induction s as [|b s IH]; intros H.
  - reflexivity.
  - apply no_nul_cons in H. destruct H as [Hb Hs].
    cbn [app cstring_decode]. destruct (Z.eqb_spec b 0); [contradiction|].
    cbn [app] in IH. rewrite IH by exact Hs. reflexivity.
Qed.

Theorem cstring_decode_unterminated s :
  no_nul s = true -> cstring_decode s = None.
Proof.
  induction s as [|b s IH]; intros H; [reflexivity|].
  apply no_nul_cons in H. destruct H as [Hb Hs].
  cbn [cstring_decode]. destruct (Z.eqb_spec b 0); [contradiction|].
  rewrite IH by exact Hs. reflexivity.
Qed.

(* ---------- parse_cstring_from_stream (64-byte chunks) ---------- *)
Lemma find0_app_nul s t : no_nul s = true -> find0 (s ++ 0 :: t) = Some (length s).
Proof.
  induction s as [|b s IH]; intros H; [reflexivity|].
  apply no_nul_cons in H. destruct H as [Hb Hs].
  cbn [app find0 length]. destruct (Z.eqb_spec b 0); [contradiction|].
  rewrite IH by exact Hs. reflexivity.
Qed.

Lemma find0_no_nul s : no_nul s = true -> find0 s = None.
Proof.
  induction s as [|b s IH]; intros H; [reflexivity|].
  apply no_nul_cons in H. destruct H as [Hb Hs].
  cbn [find0]. destruct (Z.eqb_spec b 0); [contradiction|].
  rewrite IH by exact Hs. reflexivity.
Qed.

Lemma no_nul_app a b : no_nul (a ++ b) = no_nul a && no_nul b.
Proof. apply forallb_app. Qed.

Lemma no_nul_firstn n s : no_nul s = true -> no_nul (firstn n s) = true.
Proof.
  intros H. rewrite <- (firstn_skipn n s) in H. rewrite no_nul_app in H.
  apply andb_prop in H. tauto.
Qed.
Lemma no_nul_skipn n s : no_nul s = true -> no_nul (skipn n s) = true.
Proof.
  intros H. rewrite <- (firstn_skipn n s) in H. rewrite no_nul_app in H.
  apply andb_prop in H. tauto.
Qed.

Lemma cstr_chunks_valid fuel : forall s tail,
  no_nul s = true -> (length s < fuel * CHUNK)%nat ->
  cstr_chunks fuel (s ++ 0 :: tail) = Some s.
Proof.
  induction fuel as [|f IH]; intros s tail Hs Hlen; [cbn in Hlen; lia|].
  cbn [cstr_chunks].
  destruct (Nat.lt_ge_cases (length s) CHUNK) as [Hshort|Hlong].
  - (* the terminator is inside this chunk *)
    rewrite firstn_app.
    rewrite (firstn_all2 s) by lia.
    replace (CHUNK - length s)%nat with (S (CHUNK - length s - 1)) by lia.
    cbn [firstn]. rewrite find0_app_nul by exact Hs.
    rewrite firstn_app, firstn_all, Nat.sub_diag. cbn [firstn]. rewrite app_nil_r. reflexivity.
  - (* a full chunk without terminator *)
    rewrite firstn_app. replace (CHUNK - length s)%nat with O by lia.
    cbn [firstn]. rewrite app_nil_r.
    rewrite find0_no_nul by (apply no_nul_firstn; exact Hs).
    rewrite firstn_length_le by lia.
    rewrite Nat.ltb_irrefl.
    rewrite skipn_app. replace (CHUNK - length s)%nat with O by lia. cbn [skipn].
    rewrite IH.
    + rewrite firstn_skipn. reflexivity.
    + apply no_nul_skipn. exact Hs.
    + rewrite skipn_length. unfold CHUNK in *. lia.
Qed.

Theorem parse_cstring_at_valid pre s tail :
  no_nul s = true ->
  parse_cstring_at (pre ++ s ++ 0 :: tail) (length pre) = Some s.
Proof.
  intros Hs. unfold parse_cstring_at.
  rewrite skipn_app, skipn_all, Nat.sub_diag. cbn [skipn app].
  apply cstr_chunks_valid; [exact Hs|].
  rewrite !app_length. cbn [length]. unfold CHUNK. lia.
Qed.

Lemma cstr_chunks_unterminated fuel : forall s,
  no_nul s = true -> (length s < fuel * CHUNK)%nat -> cstr_chunks fuel s = None.
Proof.
  induction fuel as [|f IH]; intros s Hs Hlen; [reflexivity|].
  cbn [cstr_chunks].
  rewrite find0_no_nul by (apply no_nul_firstn; exact Hs).
  destruct (Nat.lt_ge_cases (length s) CHUNK) as [Hshort|Hlong].
  - rewrite firstn_all2 by lia.
    destruct (Nat.ltb_spec (length s) CHUNK); [reflexivity|lia].
  - rewrite firstn_length_le by lia. rewrite Nat.ltb_irrefl.
    rewrite IH; [reflexivity| apply no_nul_skipn; exact Hs |].
    rewrite skipn_length. unfold CHUNK in *. lia.
Qed.

Theorem parse_cstring_at_unterminated pre s :
  no_nul s = true -> parse_cstring_at (pre ++ s) (length pre) = None.
Proof.
  intros Hs. unfold parse_cstring_at.
  rewrite skipn_app, skipn_all, Nat.sub_diag. cbn [skipn app].
  apply cstr_chunks_unterminated; [exact Hs|].
  rewrite !app_length. unfold CHUNK. lia.
Qed.

(* ---------- length-prefixed blocks ---------- *)
Theorem block_decode_valid (len : dec Z) (lenc : list Z) (payload tail : list Z) :
  (forall t, len (lenc ++ t) = Some (zlen payload, t)) ->
  block_decode len (lenc ++ payload ++ tail) = Some (payload, tail).
Proof.
  intros Hlen. unfold block_decode. rewrite Hlen. unfold zlen.
  rewrite Nat2Z.id, take_app. reflexivity.
Qed.

Theorem block_decode_truncated (len : dec Z) lenc n (short : list Z) :
  len (lenc ++ short) = Some (n, short) -> (length short < Z.to_nat n)%nat ->
  block_decode len (lenc ++ short) = None.
Proof.
  intros Hlen Hs. unfold block_decode. rewrite Hlen, take_short; auto.
Qed.

(* ---------- RepeatUntilExcluding ---------- *)
Theorem repeat_until_valid {A} (d : dec A) (stop : A -> bool) (enc : A -> list Z)
        (xs : list A) (term : A) (tail : list Z) fuel :
  (forall x t, d (enc x ++ t) = Some (x, t)) ->
  forallb (fun x => negb (stop x)) xs = true -> stop term = true ->
  (length xs < fuel)%nat ->
  repeat_until fuel d stop (concat (map enc xs) ++ enc term ++ tail) = Some (xs, tail).
Proof.
  intros Hd. revert fuel. induction xs as [|x xs IH]; intros fuel Hxs Ht Hf.
  - destruct fuel as [|f]; [cbn in Hf; lia|]. cbn [map concat app repeat_until].
    rewrite Hd, Ht. reflexivity.
  - destruct fuel as [|f]; [cbn in Hf; lia|].
    cbn [forallb] in Hxs. apply andb_prop in Hxs. destruct Hxs as [Hx Hxs].
    cbn [map concat repeat_until]. rewrite <- app_assoc, Hd.
    destruct (stop x); [discriminate|].
    rewrite IH; auto. cbn in Hf. lia.
Qed.

(* ---------- DWARF initial length ---------- *)
Theorem initial_length_valid le len is64 tail :
  initial_length_wf len is64 = true ->
  initial_length_decode le (initial_length_encode le len is64 ++ tail) = Some ((len, is64), tail).
Proof.
  unfold initial_length_wf, initial_length_decode, initial_length_encode.
  destruct is64; intros H.
  - rewrite <- app_assoc. rewrite uint_decode_valid by (cbn; lia).
    cbn [Z.eqb Pos.eqb]. rewrite uint_decode_valid by (change (8 * Z.of_nat 8) with 64; lia).
    reflexivity.
  - rewrite uint_decode_valid by (change (2 ^ (8 * Z.of_nat 4)) with 4294967296; lia).
    unfold INITLEN_RESERVED_LO.
    destruct (Z.eqb_spec len 4294967295); [lia|].
    destruct (Z.ltb_spec len 4294967280); [reflexivity|lia].
Qed.

Theorem initial_length_reserved_rejected le first tail :
  initial_length_reserved first = true ->
  initial_length_decode le (int_encode le 4 first ++ tail) = None.
Proof.
  unfold initial_length_reserved, initial_length_decode. intros H.
  rewrite uint_decode_valid by (change (2 ^ (8 * Z.of_nat 4)) with 4294967296; lia).
  unfold INITLEN_RESERVED_LO.
  destruct (Z.eqb_spec first 4294967295); [lia|].
  destruct (Z.ltb_spec first 4294967280); [lia|reflexivity].
Qed.

Theorem initial_length_truncated le bs :
  (length bs < 4)%nat -> initial_length_decode le bs = None.
Proof.
  intros H. unfold initial_length_decode. rewrite uint_decode_truncated; auto.
Qed.

Theorem initial_length_truncated64 le (bs : list Z) :
  (length bs < 8)%nat ->
  initial_length_decode le (int_encode le 4 0xffffffff ++ bs) = None.
Proof.
  intros H. unfold initial_length_decode.
  rewrite uint_decode_valid by (cbn; lia). cbn [Z.eqb Pos.eqb].
  rewrite uint_decode_truncated; auto.
Qed.

(* ---------- total agreement with the arithmetic reading, on all byte strings ---------- *)
Lemma uleb_spec_sound bs : all_bytes bs = true -> forall v t,
  uleb_spec bs = Some (v, t) -> exists e, bs = e ++ t /\ uleb_valid e v.
Proof.
  induction bs as [|b r IH]; intros Hb v t E; [discriminate|].
  cbn [all_bytes forallb] in Hb. apply andb_prop in Hb. destruct Hb as [Hb Hr].
  apply is_byte_iff in Hb. cbn [uleb_spec] in E.
  destruct (Z.ltb_spec b 128).
  - inversion E; subst. exists [v]. split; [reflexivity|constructor; lia].
  - destruct (uleb_spec r) as [[v' t']|] eqn:Er; [|discriminate].
    inversion E; subst. destruct (IH Hr v' t eq_refl) as (e & -> & Hv).
    exists (b :: e). split; [reflexivity|constructor; [lia|exact Hv]].
Qed.

Lemma uleb_spec_none bs : all_bytes bs = true -> uleb_spec bs = None ->
  forall acc s, uleb_go bs acc s = None.
Proof.
  induction bs as [|b r IH]; intros Hb E acc s; [reflexivity|].
  cbn [all_bytes forallb] in Hb. apply andb_prop in Hb. destruct Hb as [Hb Hr].
  apply is_byte_iff in Hb. cbn [uleb_spec] in E. cbn [uleb_go].
  destruct (Z.ltb_spec b 128); [discriminate|].
  destruct (uleb_spec r) as [[v' t']|] eqn:Er; [discriminate|].
  rewrite land128_high by lia. replace (128 =? 0) with false by reflexivity.
  apply IH; auto.
Qed.

Theorem uleb_decode_total bs : all_bytes bs = true -> uleb_decode bs = uleb_spec bs.
Proof.
  intros Hb. destruct (uleb_spec bs) as [[v t]|] eqn:E.
  - destruct (uleb_spec_sound bs Hb v t E) as (e & -> & Hv).
    apply uleb_decode_valid. exact Hv.
  - apply uleb_spec_none; auto.
Qed.

Lemma sleb_spec_sound bs : all_bytes bs = true -> forall v t,
  sleb_spec bs = Some (v, t) -> exists e, bs = e ++ t /\ sleb_valid e v.
Proof.
  induction bs as [|b r IH]; intros Hb v t E; [discriminate|].
  cbn [all_bytes forallb] in Hb. apply andb_prop in Hb. destruct Hb as [Hb Hr].
  apply is_byte_iff in Hb. cbn [sleb_spec] in E.
  destruct (Z.ltb_spec b 64).
  - inversion E; subst. exists [v]. split; [reflexivity|constructor; lia].
  - destruct (Z.ltb_spec b 128).
    + inversion E; subst. exists [b]. split; [reflexivity|constructor; lia].
    + destruct (sleb_spec r) as [[v' t']|] eqn:Er; [|discriminate].
      inversion E; subst. destruct (IH Hr v' t eq_refl) as (e & -> & Hv).
      exists (b :: e). split; [reflexivity|constructor; [lia|exact Hv]].
Qed.

Lemma sleb_spec_none bs : all_bytes bs = true -> sleb_spec bs = None ->
  forall acc s, sleb_go bs acc s = None.
Proof.
  induction bs as [|b r IH]; intros Hb E acc s; [reflexivity|].
  cbn [all_bytes forallb] in Hb. apply andb_prop in Hb. destruct Hb as [Hb Hr].
  apply is_byte_iff in Hb. cbn [sleb_spec] in E. cbn [sleb_go].
  destruct (Z.ltb_spec b 64); [discriminate|].
  destruct (Z.ltb_spec b 128); [discriminate|].
  destruct (sleb_spec r) as [[v' t']|] eqn:Er; [discriminate|].
  rewrite land128_high by lia. replace (128 =? 0) with false by reflexivity.
  apply IH; auto.
Qed.

Theorem sleb_decode_total bs : all_bytes bs = true -> sleb_decode bs = sleb_spec bs.
Proof.
  intros Hb. destruct (sleb_spec bs) as [[v t]|] eqn:E.
  - destruct (sleb_spec_sound bs Hb v t E) as (e & -> & Hv).
    apply sleb_decode_valid. exact Hv.
  - apply sleb_spec_none; auto.
Qed.
