(* Proofs/C09Examples.v — concrete inputs for the non-vacuity Examples of Props/C09.v:
   a small ELF64 little-endian shared object (ELF header, PT_LOAD + PT_DYNAMIC, a dynamic
   array with a duplicate tag and an entry behind the terminator, .dynstr, three section
   headers), its stripped form, and a GNU / a SysV hash table. *)
From PV Require Import Model.C09Dynamic.
Open Scope string_scope.
Open Scope list_scope.
Open Scope Z_scope.

Definition ex_dyn : list dent :=
  [(DT_NEEDED, 1); (DT_SONAME, 6); (DT_STRTAB, 0x1000 + 272); (DT_NEEDED, 1); (DT_NULL, 0); (DT_NEEDED, 6)].
Definition ex_strtab : list Z := [0; 108; 105; 98; 99; 0; 102; 111; 111; 0].     (* \0libc\0foo\0 *)
Definition ex_ehdr (shoff shnum : Z) : list Z :=
  encode_layout (spec_Elf_Ehdr true true)
    [VB [127; 69; 76; 70]; VZ 2; VZ 1; VZ 1; VZ 0; VZ 0; VB [0;0;0;0;0;0;0]; VZ 3; VZ 62; VZ 1; VZ 0;
     VZ 64; VZ shoff; VZ 0; VZ 64; VZ 56; VZ 2; VZ 64; VZ shnum; VZ 0].
Definition ex_phdrs : list Z :=
  encode_layout (spec_Elf_Phdr true true) [VZ 1; VZ 5; VZ 0; VZ 0x1000; VZ 0x1000; VZ 474; VZ 474; VZ 4096] ++
  encode_layout (spec_Elf_Phdr true true) [VZ 2; VZ 6; VZ 176; VZ (0x1000 + 176); VZ (0x1000 + 176); VZ 96; VZ 96; VZ 8].
Definition ex_shdrs : list Z :=
  encode_layout (spec_Elf_Shdr true true) [VZ 0; VZ 0; VZ 0; VZ 0; VZ 0; VZ 0; VZ 0; VZ 0; VZ 0; VZ 0] ++
  encode_layout (spec_Elf_Shdr true true) [VZ 1; VZ 6; VZ 3; VZ (0x1000 + 176); VZ 176; VZ 96; VZ 2; VZ 0; VZ 8; VZ 16] ++
  encode_layout (spec_Elf_Shdr true true) [VZ 10; VZ 3; VZ 2; VZ (0x1000 + 272); VZ 272; VZ 10; VZ 0; VZ 0; VZ 1; VZ 0].
Definition ex_pre : list Z := ex_ehdr 282 3 ++ ex_phdrs.
Definition ex_pre' : list Z := ex_ehdr 0 0 ++ ex_phdrs.
Definition ex_img : list Z := ex_pre ++ encode_dyns true true ex_dyn ++ ex_strtab ++ ex_shdrs.
Definition ex_img' : list Z := ex_pre' ++ encode_dyns true true ex_dyn ++ ex_strtab ++ ex_shdrs.
Definition ex_f : elf := match elf_open ex_img with Ok f => f | Err _ => mkElf [] true true (mkEhdr 0 0 0 0 0 0 0 0 0) [] [] [] end.
Definition ex_ps : list phdr := [mkPhdr 1 0 0x1000 474; mkPhdr 2 176 (0x1000 + 176) 96].

(* GNU hash over 5 symbols, symoffset 1: buckets 1 and 3, chains {1,2} and {3,4} *)
Definition ex_gnu : list Z :=
  encode_layout (spec_Gnu_Hash true true) [VZ 2; VZ 1; VZ 1; VZ 5; VL [0xdeadbeef]; VL [1; 3]] ++
  encode_arr true 4 [2; 5; 8; 9] ++ [7; 7; 7].
(* SysV hash: 2 buckets, 5 chain entries *)
Definition ex_sysv : list Z :=
  encode_layout (spec_Elf_Hash true) [VZ 2; VZ 5; VL [1; 3]; VL [0; 2; 0; 4; 0]] ++ [7; 7].
Definition ex_hash_f (img : list Z) : elf := mkElf img true true (mkEhdr 0 62 0 0 0 0 0 0 0) [] [] [].

(* a second image, with a RELA table of two entries behind the string table *)
Definition ex2_dyn : list dent :=
  [(DT_NEEDED, 1); (DT_STRTAB, 0x1000 + 272); (DT_RELA, 0x1000 + 282); (DT_RELASZ, 48); (DT_RELAENT, 24); (DT_NULL, 0)].
Definition ex2_rela : list Z :=
  encode_layout (spec_Elf_Rela true true) [VZ 0x2000; VZ 0x100000007; VZ (-8)] ++
  encode_layout (spec_Elf_Rela true true) [VZ 0x2008; VZ 8; VZ 0x1234].
Definition ex2_ehdr (shoff shnum : Z) : list Z :=
  encode_layout (spec_Elf_Ehdr true true)
    [VB [127; 69; 76; 70]; VZ 2; VZ 1; VZ 1; VZ 0; VZ 0; VB [0;0;0;0;0;0;0]; VZ 3; VZ 62; VZ 1; VZ 0;
     VZ 64; VZ shoff; VZ 0; VZ 64; VZ 56; VZ 2; VZ 64; VZ shnum; VZ 0].
Definition ex2_phdrs : list Z :=
  encode_layout (spec_Elf_Phdr true true) [VZ 1; VZ 5; VZ 0; VZ 0x1000; VZ 0x1000; VZ 522; VZ 522; VZ 4096] ++
  encode_layout (spec_Elf_Phdr true true) [VZ 2; VZ 6; VZ 176; VZ (0x1000 + 176); VZ (0x1000 + 176); VZ 96; VZ 96; VZ 8].
Definition ex2_shdrs : list Z :=
  encode_layout (spec_Elf_Shdr true true) [VZ 0; VZ 0; VZ 0; VZ 0; VZ 0; VZ 0; VZ 0; VZ 0; VZ 0; VZ 0] ++
  encode_layout (spec_Elf_Shdr true true) [VZ 1; VZ 6; VZ 3; VZ (0x1000 + 176); VZ 176; VZ 96; VZ 2; VZ 0; VZ 8; VZ 16] ++
  encode_layout (spec_Elf_Shdr true true) [VZ 10; VZ 3; VZ 2; VZ (0x1000 + 272); VZ 272; VZ 10; VZ 0; VZ 0; VZ 1; VZ 0].
Definition ex2_body := ex2_phdrs ++ encode_dyns true true ex2_dyn ++ ex_strtab ++ ex2_rela ++ ex2_shdrs.
Definition ex2_img := ex2_ehdr 330 3 ++ ex2_body.
Definition ex2_img' := ex2_ehdr 0 0 ++ ex2_body.

(* a third image, with a two-entry .dynsym and a SysV hash table *)
Definition ex3_dyn : list dent :=
  [(DT_NEEDED, 1); (DT_STRTAB, 0x1000 + 256); (DT_SYMTAB, 0x1000 + 266); (DT_HASH, 0x1000 + 314); (DT_NULL, 0)].
Definition ex3_syms : list Z :=
  encode_layout (spec_Elf_Sym true true) [VZ 0; VZ 0; VZ 0; VZ 0; VZ 0; VZ 0; VZ 0; VZ 0; VZ 0] ++
  encode_layout (spec_Elf_Sym true true) [VZ 6; VZ 1; VZ 2; VZ 0; VZ 0; VZ 0; VZ 5; VZ 0x2000; VZ 16].
Definition ex3_hash : list Z := encode_layout (spec_Elf_Hash true) [VZ 1; VZ 2; VL [1]; VL [0; 0]].
Definition ex3_ehdr (shoff shnum : Z) : list Z :=
  encode_layout (spec_Elf_Ehdr true true)
    [VB [127; 69; 76; 70]; VZ 2; VZ 1; VZ 1; VZ 0; VZ 0; VB [0;0;0;0;0;0;0]; VZ 3; VZ 62; VZ 1; VZ 0;
     VZ 64; VZ shoff; VZ 0; VZ 64; VZ 56; VZ 2; VZ 64; VZ shnum; VZ 0].
Definition ex3_phdrs : list Z :=
  encode_layout (spec_Elf_Phdr true true) [VZ 1; VZ 5; VZ 0; VZ 0x1000; VZ 0x1000; VZ 590; VZ 590; VZ 4096] ++
  encode_layout (spec_Elf_Phdr true true) [VZ 2; VZ 6; VZ 176; VZ (0x1000 + 176); VZ (0x1000 + 176); VZ 80; VZ 80; VZ 8].
Definition ex3_shdrs : list Z :=
  encode_layout (spec_Elf_Shdr true true) [VZ 0; VZ 0; VZ 0; VZ 0; VZ 0; VZ 0; VZ 0; VZ 0; VZ 0; VZ 0] ++
  encode_layout (spec_Elf_Shdr true true) [VZ 1; VZ 6; VZ 3; VZ (0x1000 + 176); VZ 176; VZ 80; VZ 2; VZ 0; VZ 8; VZ 16] ++
  encode_layout (spec_Elf_Shdr true true) [VZ 10; VZ 3; VZ 2; VZ (0x1000 + 256); VZ 256; VZ 10; VZ 0; VZ 0; VZ 1; VZ 0] ++
  encode_layout (spec_Elf_Shdr true true) [VZ 18; VZ 11; VZ 2; VZ (0x1000 + 266); VZ 266; VZ 48; VZ 2; VZ 1; VZ 8; VZ 24].
Definition ex3_body := ex3_phdrs ++ encode_dyns true true ex3_dyn ++ ex_strtab ++ ex3_syms ++ ex3_hash ++ ex3_shdrs.
Definition ex3_img := ex3_ehdr 334 4 ++ ex3_body.
Definition ex3_img' := ex3_ehdr 0 0 ++ ex3_body.

(* a fourth image: PT_DYNAMIC at one offset, a .dynamic section holding ANOTHER array, linked to ANOTHER
   string table with other strings at the same indices, at a different offset *)
Definition ex4_dyn : list dent :=
  [(DT_NEEDED, 1); (DT_SONAME, 6); (DT_STRTAB, 0x1000 + 256); (DT_STRSZ, 10); (DT_NULL, 0)].
Definition ex4_strtab2 : list Z := [0; 76; 73; 66; 67; 0; 70; 79; 79; 0].     (* \0LIBC\0FOO\0 *)
Definition ex4_dyn2 : list dent := [(DT_NEEDED, 1); (DT_STRTAB, 0x1000 + 266); (DT_STRSZ, 10); (DT_NULL, 0)].
Definition ex4_ehdr (shoff shnum : Z) : list Z :=
  encode_layout (spec_Elf_Ehdr true true)
    [VB [127; 69; 76; 70]; VZ 2; VZ 1; VZ 1; VZ 0; VZ 0; VB [0;0;0;0;0;0;0]; VZ 3; VZ 62; VZ 1; VZ 0;
     VZ 64; VZ shoff; VZ 0; VZ 64; VZ 56; VZ 2; VZ 64; VZ shnum; VZ 0].
Definition ex4_phdrs : list Z :=
  encode_layout (spec_Elf_Phdr true true) [VZ 1; VZ 5; VZ 0; VZ 0x1000; VZ 0x1000; VZ 532; VZ 532; VZ 4096] ++
  encode_layout (spec_Elf_Phdr true true) [VZ 2; VZ 6; VZ 176; VZ (0x1000 + 176); VZ (0x1000 + 176); VZ 80; VZ 80; VZ 8].
Definition ex4_shdrs : list Z :=
  encode_layout (spec_Elf_Shdr true true) [VZ 0; VZ 0; VZ 0; VZ 0; VZ 0; VZ 0; VZ 0; VZ 0; VZ 0; VZ 0] ++
  encode_layout (spec_Elf_Shdr true true) [VZ 1; VZ 6; VZ 3; VZ (0x1000 + 276); VZ 276; VZ 64; VZ 2; VZ 0; VZ 8; VZ 16] ++
  encode_layout (spec_Elf_Shdr true true) [VZ 10; VZ 3; VZ 2; VZ (0x1000 + 266); VZ 266; VZ 10; VZ 0; VZ 0; VZ 1; VZ 0].
Definition ex4_body := ex4_phdrs ++ encode_dyns true true ex4_dyn ++ ex_strtab ++ ex4_strtab2 ++
                       encode_dyns true true ex4_dyn2 ++ ex4_shdrs.
Definition ex4_img := ex4_ehdr 340 3 ++ ex4_body.
Definition ex4_img' := ex4_ehdr 0 0 ++ ex4_body.

(* SysV hash with 64-bit entries (s390x / alpha ELF64): 2 buckets, 5 chain entries *)
Definition ex_sysv64 : list Z :=
  encode_layout (spec_Elf_Hash_w true true) [VZ 2; VZ 5; VL [1; 3]; VL [0; 2; 0; 4; 0]] ++ [7; 7].
Definition ex_hash_f_s390x (img : list Z) : elf := mkElf img true true (mkEhdr 0 22 0 0 0 0 0 0 0) [] [] [].
