(* Proofs/C09Examples.v — concrete inputs for the non-vacuity Examples of Props/C09.v:
   a small ELF64 little-endian shared object (ELF header, PT_LOAD + PT_DYNAMIC, a dynamic
   array with a duplicate tag and an entry behind the terminator, .dynstr, three section
   headers), its stripped form, and a GNU / a SysV hash table. *)
From PV Require Import Model.C09Dynamic.
Open Scope string_scope.
Open Scope list_scope.
Open Scope Z_scope.

Definition ex_dyn : list dent :=
  [(DT_NEEDED, 1); (DT_SONAME, 6); (DT_STRTAB, 0x1000 + 272); (DT_NEEDED, 1); (DT_NULL, 0); (DT_NEEDED, 6)].
Definition ex_strtab : list Z := [0; 108; 105; 98; 99; 0; 102; 111; 111; 0].     (* \0libc\0foo\0 *)
Definition ex_ehdr (shoff shnum : Z) : list Z :=
  encode_layout (spec_Elf_Ehdr true true)
    [VB [127; 69; 76; 70]; VZ 2; VZ 1; VZ 1; VZ 0; VZ 0; VB [0;0;0;0;0;0;0]; VZ 3; VZ 62; VZ 1; VZ 0;
     VZ 64; VZ shoff; VZ 0; VZ 64; VZ 56; VZ 2; VZ 64; VZ shnum; VZ 0].
Definition ex_phdrs : list Z :=
  encode_layout (spec_Elf_Phdr true true) [VZ 1; VZ 5; VZ 0; VZ 0x1000; VZ 0x1000; VZ 474; VZ 474; VZ 4096] ++
  encode_layout (spec_Elf_Phdr true true) [VZ 2; VZ 6; VZ 176; VZ (0x1000 + 176); VZ (0x1000 + 176); VZ 96; VZ 96; VZ 8].
Definition ex_shdrs : list Z :=
  encode_layout (spec_Elf_Shdr true true) [VZ 0; VZ 0; VZ 0; VZ 0; VZ 0; VZ 0; VZ 0; VZ 0; VZ 0; VZ 0] ++
  encode_layout (spec_Elf_Shdr true true) [VZ 1; VZ 6; VZ 3; VZ (0x1000 + 176); VZ 176; VZ 96; VZ 2; VZ 0; VZ 8; VZ 16] ++
  encode_layout (spec_Elf_Shdr true true) [VZ 10; VZ 3; VZ 2; VZ (0x1000 + 272); VZ 272; VZ 10; VZ 0; VZ 0; VZ 1; VZ 0].
Definition ex_pre : list Z := ex_ehdr 282 3 ++ ex_phdrs.
Definition ex_pre' : list Z := ex_ehdr 0 0 ++ ex_phdrs.
Definition ex_img : list Z := ex_pre ++ encode_dyns true true ex_dyn ++ ex_strtab ++ ex_shdrs.
Definition ex_img' : list Z := ex_pre' ++ encode_dyns true true ex_dyn ++ ex_strtab ++ ex_shdrs.
Definition ex_f : elf := match elf_open ex_img with Ok f => f | Err _ => mkElf [] true true (mkEhdr 0 0 0 0 0 0 0 0 0) [] [] [] end.
Definition ex_ps : list phdr := [mkPhdr 1 0 0x1000 474; mkPhdr 2 176 (0x1000 + 176) 96].

(* GNU hash over 5 symbols, symoffset 1: buckets 1 and 3, chains {1,2} and {3,4} *)
Definition ex_gnu : list Z :=
  encode_layout (spec_Gnu_Hash true true) [VZ 2; VZ 1; VZ 1; VZ 5; VL [0xdeadbeef]; VL [1; 3]] ++
  encode_arr true 4 [2; 5; 8; 9] ++ [7; 7; 7].
(* SysV hash: 2 buckets, 5 chain entries *)
Definition ex_sysv : list Z :=
  encode_layout (spec_Elf_Hash true) [VZ 2; VZ 5; VL [1; 3]; VL [0; 2; 0; 4; 0]] ++ [7; 7].
Definition ex_hash_f (img : list Z) : elf := mkElf img true true (mkEhdr 0 62 0 0 0 0 0 0 0) [] [] [].
