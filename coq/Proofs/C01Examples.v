(* Proofs/C01Examples.v — two concrete images with the abstract content they carry, used by the
   non-vacuity Examples of Props/C01.v (the hypotheses of the theorems are satisfiable, the
   conclusions evaluate to the expected observations).
   ex1: ELF32 LSB, EM_ARM, 10 sections (duplicate names, '.stab', a symbol table with its string
        table, a REL section, ARM attributes, an unknown and a processor-specific type),
        3 segments, entry sizes 44 and 40 (standard + 4 / + 8), garbage filler everywhere.
   ex2: ELF64 MSB, unknown e_machine 0x1234, all three extended-numbering escapes
        (e_shnum = 0, e_phnum = PN_XNUM, e_shstrndx = SHN_XINDEX), a PT_DYNAMIC segment over
        a DynamicSection. *)
From Coq Require Import String.
From PV Require Import Base.Bytes Base.Fmt Spec.C01Image.
Open Scope Z_scope.

Definition ex1_img : list Z :=
  [127; 69; 76; 70; 1; 1; 1; 97; 9; 1; 2; 3; 4; 5; 6; 7; 2; 0; 40; 0; 1; 0; 0; 0; 0; 128; 0; 0; 55; 0; 0; 0; 24; 1; 0; 0; 2; 0; 0; 5; 52; 0; 40; 0; 3; 0; 44; 0; 10; 0; 5; 0; 8; 136; 57; 1; 0; 0; 0; 0; 0; 0; 0; 0; 128; 0; 0; 0; 128; 0; 0; 0; 7; 0; 0; 0; 7; 0; 0; 5; 0; 0; 0; 0; 16; 0; 0; 230; 185; 250; 183; 129; 240; 248; 109; 4; 0; 0; 0; 17; 1; 0; 0; 0; 0; 0; 0; 0; 0; 0; 0; 32; 0; 0; 0; 32; 0; 0; 0; 4; 0; 0; 0; 4; 0; 0; 0; 189; 96; 23; 113; 170; 131; 28; 200; 1; 0; 0; 112; 0; 6; 0; 0; 0; 144; 0; 0; 0; 144; 0; 0; 8; 0; 0; 0; 8; 0; 0; 0; 4; 0; 0; 0; 4; 0; 0; 0; 104; 132; 89; 244; 217; 148; 91; 118; 233; 69; 169; 141; 156; 65; 41; 0; 0; 0; 97; 101; 97; 98; 105; 190; 132; 0; 46; 116; 101; 120; 116; 0; 46; 115; 116; 97; 98; 0; 46; 115; 121; 109; 116; 97; 98; 0; 46; 115; 116; 114; 116; 97; 98; 0; 46; 115; 104; 115; 116; 114; 116; 97; 98; 0; 46; 65; 82; 77; 46; 97; 116; 116; 114; 105; 98; 117; 116; 101; 115; 0; 46; 114; 101; 108; 46; 116; 101; 120; 116; 0; 46; 116; 101; 120; 116; 0; 46; 65; 82; 77; 46; 101; 120; 105; 100; 120; 0; 7; 8; 83; 128; 122; 30; 0; 0; 0; 0; 0; 0; 0; 0; 0; 0; 0; 0; 0; 0; 0; 0; 0; 0; 0; 0; 0; 0; 0; 0; 0; 0; 0; 0; 0; 0; 0; 0; 0; 0; 0; 0; 0; 0; 0; 0; 205; 178; 133; 116; 1; 0; 0; 0; 1; 0; 0; 0; 6; 0; 0; 0; 0; 128; 0; 0; 35; 1; 0; 0; 64; 0; 0; 0; 0; 0; 0; 0; 0; 0; 0; 0; 4; 0; 0; 0; 0; 0; 0; 0; 210; 56; 247; 231; 7; 0; 0; 0; 1; 0; 0; 0; 0; 0; 0; 0; 0; 0; 0; 0; 0; 2; 0; 0; 24; 0; 0; 0; 0; 0; 0; 0; 0; 0; 0; 0; 4; 0; 0; 0; 12; 0; 0; 0; 52; 220; 84; 208; 13; 0; 0; 0; 2; 0; 0; 0; 0; 0; 0; 0; 0; 0; 0; 0; 0; 3; 0; 0; 48; 0; 0; 0; 4; 0; 0; 0; 1; 0; 0; 0; 4; 0; 0; 0; 16; 0; 0; 0; 216; 66; 95; 87; 21; 0; 0; 0; 3; 0; 0; 0; 0; 0; 0; 0; 0; 0; 0; 0; 0; 4; 0; 0; 16; 0; 0; 0; 0; 0; 0; 0; 0; 0; 0; 0; 1; 0; 0; 0; 0; 0; 0; 0; 21; 244; 69; 94; 29; 0; 0; 0; 3; 0; 0; 0; 0; 0; 0; 0; 0; 0; 0; 0; 192; 0; 0; 0; 64; 0; 0; 0; 0; 0; 0; 0; 0; 0; 0; 0; 1; 0; 0; 0; 0; 0; 0; 0; 27; 112; 234; 247; 39; 0; 0; 0; 3; 0; 0; 112; 0; 0; 0; 0; 0; 0; 0; 0; 180; 0; 0; 0; 42; 0; 0; 0; 0; 0; 0; 0; 0; 0; 0; 0; 1; 0; 0; 0; 0; 0; 0; 0; 56; 201; 159; 200; 55; 0; 0; 0; 9; 0; 0; 0; 64; 0; 0; 0; 0; 0; 0; 0; 0; 5; 0; 0; 16; 0; 0; 0; 3; 0; 0; 0; 1; 0; 0; 0; 4; 0; 0; 0; 8; 0; 0; 0; 229; 236; 78; 63; 65; 0; 0; 0; 120; 86; 52; 18; 0; 0; 0; 0; 0; 0; 0; 0; 0; 0; 0; 0; 0; 0; 0; 0; 0; 0; 0; 0; 0; 0; 0; 0; 0; 0; 0; 0; 0; 0; 0; 0; 244; 171; 45; 46; 71; 0; 0; 0; 1; 0; 0; 112; 130; 0; 0; 0; 0; 144; 0; 0; 0; 6; 0; 0; 8; 0; 0; 0; 1; 0; 0; 0; 0; 0; 0; 0; 4; 0; 0; 0; 0; 0; 0; 0; 111; 138; 41; 13; 183; 221; 171; 64; 65; 200].

Definition ex1_spec : image_spec :=
  {| i_is64 := false; i_le := true;
     i_ehdr := {| ei_version := 1; ei_osabi := 97; ei_abiversion := 9; ei_pad := [1; 2; 3; 4; 5; 6; 7]; e_type := 2; e_machine := 40; e_version := 1; e_entry := 32768; e_phoff := 55; e_shoff := 280; e_flags := 83886082; e_ehsize := 52; e_phentsize := 40; e_phnum := 3; e_shentsize := 44; e_shnum := 10; e_shstrndx := 5 |};
     i_sections := [
      ([], {| sh_name := 0; sh_type := 0; sh_flags := 0; sh_addr := 0; sh_offset := 0; sh_size := 0; sh_link := 0; sh_info := 0; sh_addralign := 0; sh_entsize := 0 |});
      ([46; 116; 101; 120; 116], {| sh_name := 1; sh_type := 1; sh_flags := 6; sh_addr := 32768; sh_offset := 291; sh_size := 64; sh_link := 0; sh_info := 0; sh_addralign := 4; sh_entsize := 0 |});
      ([46; 115; 116; 97; 98], {| sh_name := 7; sh_type := 1; sh_flags := 0; sh_addr := 0; sh_offset := 512; sh_size := 24; sh_link := 0; sh_info := 0; sh_addralign := 4; sh_entsize := 12 |});
      ([46; 115; 121; 109; 116; 97; 98], {| sh_name := 13; sh_type := 2; sh_flags := 0; sh_addr := 0; sh_offset := 768; sh_size := 48; sh_link := 4; sh_info := 1; sh_addralign := 4; sh_entsize := 16 |});
      ([46; 115; 116; 114; 116; 97; 98], {| sh_name := 21; sh_type := 3; sh_flags := 0; sh_addr := 0; sh_offset := 1024; sh_size := 16; sh_link := 0; sh_info := 0; sh_addralign := 1; sh_entsize := 0 |});
      ([46; 115; 104; 115; 116; 114; 116; 97; 98], {| sh_name := 29; sh_type := 3; sh_flags := 0; sh_addr := 0; sh_offset := 192; sh_size := 64; sh_link := 0; sh_info := 0; sh_addralign := 1; sh_entsize := 0 |});
      ([46; 65; 82; 77; 46; 97; 116; 116; 114; 105; 98; 117; 116; 101; 115], {| sh_name := 39; sh_type := 1879048195; sh_flags := 0; sh_addr := 0; sh_offset := 180; sh_size := 42; sh_link := 0; sh_info := 0; sh_addralign := 1; sh_entsize := 0 |});
      ([46; 114; 101; 108; 46; 116; 101; 120; 116], {| sh_name := 55; sh_type := 9; sh_flags := 64; sh_addr := 0; sh_offset := 1280; sh_size := 16; sh_link := 3; sh_info := 1; sh_addralign := 4; sh_entsize := 8 |});
      ([46; 116; 101; 120; 116], {| sh_name := 65; sh_type := 305419896; sh_flags := 0; sh_addr := 0; sh_offset := 0; sh_size := 0; sh_link := 0; sh_info := 0; sh_addralign := 0; sh_entsize := 0 |});
      ([46; 65; 82; 77; 46; 101; 120; 105; 100; 120], {| sh_name := 71; sh_type := 1879048193; sh_flags := 130; sh_addr := 36864; sh_offset := 1536; sh_size := 8; sh_link := 1; sh_info := 0; sh_addralign := 4; sh_entsize := 0 |}) ];
     i_segments := [
      {| p_type := 1; p_flags := 5; p_offset := 0; p_vaddr := 32768; p_paddr := 32768; p_filesz := 1792; p_memsz := 1792; p_align := 4096 |};
      {| p_type := 4; p_flags := 4; p_offset := 273; p_vaddr := 0; p_paddr := 0; p_filesz := 32; p_memsz := 32; p_align := 4 |};
      {| p_type := 1879048193; p_flags := 4; p_offset := 1536; p_vaddr := 36864; p_paddr := 36864; p_filesz := 8; p_memsz := 8; p_align := 4 |} ];
     i_shstrndx := 5 |}.

Definition ex2_img : list Z :=
  [127; 69; 76; 70; 2; 2; 1; 3; 9; 1; 2; 3; 4; 5; 6; 7; 0; 3; 18; 52; 0; 0; 0; 1; 0; 0; 0; 0; 0; 0; 128; 0; 0; 0; 0; 0; 0; 0; 0; 67; 0; 0; 0; 0; 0; 0; 0; 220; 5; 0; 0; 2; 0; 64; 0; 56; 255; 255; 0; 64; 0; 0; 255; 255; 93; 132; 173; 0; 0; 0; 2; 0; 0; 0; 6; 0; 0; 0; 0; 0; 0; 1; 80; 0; 0; 0; 0; 0; 0; 32; 0; 0; 0; 0; 0; 0; 0; 32; 0; 0; 0; 0; 0; 0; 0; 0; 32; 0; 0; 0; 0; 0; 0; 0; 32; 0; 0; 0; 0; 0; 0; 0; 8; 100; 116; 229; 81; 0; 0; 0; 6; 0; 0; 0; 0; 0; 0; 0; 0; 0; 0; 0; 0; 0; 0; 0; 0; 0; 0; 0; 0; 0; 0; 0; 0; 0; 0; 0; 0; 0; 0; 0; 0; 0; 0; 0; 0; 0; 0; 0; 0; 0; 0; 0; 0; 0; 0; 0; 16; 225; 235; 28; 194; 134; 0; 46; 100; 117; 112; 0; 46; 115; 104; 115; 116; 114; 116; 97; 98; 0; 46; 100; 121; 110; 97; 109; 105; 99; 0; 46; 100; 117; 112; 0; 7; 8; 33; 209; 240; 41; 0; 0; 0; 0; 0; 0; 0; 0; 0; 0; 0; 0; 0; 0; 0; 0; 0; 0; 0; 0; 0; 0; 0; 0; 0; 0; 0; 0; 0; 0; 0; 0; 0; 0; 0; 0; 0; 0; 0; 5; 0; 0; 0; 2; 0; 0; 0; 2; 0; 0; 0; 0; 0; 0; 0; 0; 0; 0; 0; 0; 0; 0; 0; 0; 0; 0; 0; 1; 0; 0; 0; 8; 0; 0; 0; 0; 0; 0; 0; 3; 0; 0; 0; 0; 0; 0; 16; 0; 0; 0; 0; 0; 0; 0; 0; 153; 0; 0; 0; 0; 0; 0; 0; 16; 0; 0; 0; 0; 0; 0; 0; 0; 0; 0; 0; 0; 0; 0; 0; 8; 0; 0; 0; 0; 0; 0; 0; 0; 0; 0; 0; 6; 0; 0; 0; 3; 0; 0; 0; 0; 0; 0; 0; 0; 0; 0; 0; 0; 0; 0; 0; 0; 0; 0; 0; 0; 0; 0; 0; 184; 0; 0; 0; 0; 0; 0; 0; 32; 0; 0; 0; 0; 0; 0; 0; 0; 0; 0; 0; 0; 0; 0; 0; 1; 0; 0; 0; 0; 0; 0; 0; 0; 0; 0; 0; 16; 0; 0; 0; 6; 0; 0; 0; 0; 0; 0; 0; 3; 0; 0; 0; 0; 0; 0; 32; 0; 0; 0; 0; 0; 0; 0; 1; 80; 0; 0; 0; 0; 0; 0; 0; 32; 0; 0; 0; 2; 0; 0; 0; 0; 0; 0; 0; 0; 0; 0; 0; 8; 0; 0; 0; 0; 0; 0; 0; 16; 0; 0; 0; 25; 112; 0; 0; 1; 0; 0; 0; 0; 0; 0; 0; 0; 0; 0; 0; 0; 0; 0; 0; 0; 0; 0; 0; 0; 0; 0; 0; 0; 0; 0; 0; 0; 0; 0; 0; 0; 0; 0; 0; 0; 0; 0; 0; 0; 0; 0; 0; 0; 0; 0; 0; 0; 0; 0; 0; 0; 0; 0; 0; 0; 172; 227; 175; 85; 113; 45].

Definition ex2_spec : image_spec :=
  {| i_is64 := true; i_le := false;
     i_ehdr := {| ei_version := 1; ei_osabi := 3; ei_abiversion := 9; ei_pad := [1; 2; 3; 4; 5; 6; 7]; e_type := 3; e_machine := 4660; e_version := 1; e_entry := 32768; e_phoff := 67; e_shoff := 220; e_flags := 83886082; e_ehsize := 64; e_phentsize := 56; e_phnum := 65535; e_shentsize := 64; e_shnum := 0; e_shstrndx := 65535 |};
     i_sections := [
      ([], {| sh_name := 0; sh_type := 0; sh_flags := 0; sh_addr := 0; sh_offset := 0; sh_size := 5; sh_link := 2; sh_info := 2; sh_addralign := 0; sh_entsize := 0 |});
      ([46; 100; 117; 112], {| sh_name := 1; sh_type := 8; sh_flags := 3; sh_addr := 4096; sh_offset := 153; sh_size := 16; sh_link := 0; sh_info := 0; sh_addralign := 8; sh_entsize := 0 |});
      ([46; 115; 104; 115; 116; 114; 116; 97; 98], {| sh_name := 6; sh_type := 3; sh_flags := 0; sh_addr := 0; sh_offset := 184; sh_size := 32; sh_link := 0; sh_info := 0; sh_addralign := 1; sh_entsize := 0 |});
      ([46; 100; 121; 110; 97; 109; 105; 99], {| sh_name := 16; sh_type := 6; sh_flags := 3; sh_addr := 8192; sh_offset := 336; sh_size := 32; sh_link := 2; sh_info := 0; sh_addralign := 8; sh_entsize := 16 |});
      ([46; 100; 117; 112], {| sh_name := 25; sh_type := 1879048193; sh_flags := 0; sh_addr := 0; sh_offset := 0; sh_size := 0; sh_link := 0; sh_info := 0; sh_addralign := 0; sh_entsize := 0 |}) ];
     i_segments := [
      {| p_type := 2; p_flags := 6; p_offset := 336; p_vaddr := 8192; p_paddr := 8192; p_filesz := 32; p_memsz := 32; p_align := 8 |};
      {| p_type := 1685382481; p_flags := 6; p_offset := 0; p_vaddr := 0; p_paddr := 0; p_filesz := 0; p_memsz := 0; p_align := 16 |} ];
     i_shstrndx := 2 |}.
