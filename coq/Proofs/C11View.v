(* Proofs/C11View.v — property C11, gABI part and the generic machinery:
   * debug_view depends on a file only through its slots, the payload of its debug
     link and the presence formula (debug_view_ext);
   * sections that agree on name, type, address and stored payload are
     interchangeable (secs_equiv_view);
   * T_gabi replaces chosen sections by equivalent ones (gabi_view_invariant).
   zlib is the Section variable [inflate]; the only thing assumed about it is the
   law [deflated blob content] for the blobs handed to the transform. *)
From PV Require Import Base.Bytes Base.Fmt Proofs.FmtProofs Spec.C11Container Proofs.C11Names.
From Coq Require Import Lia.
Open Scope list_scope.
Open Scope Z_scope.

(* ---------- lists with positions ---------- *)
Lemma Forall2_map_idx {A B} (R : A -> B -> Prop) (f : nat -> A -> B) l : forall i,
  (forall j s, nth_error l j = Some s -> R s (f (i + j)%nat s)) ->
  Forall2 R l (map_idx f i l).
Proof.
  induction l as [|x r IH]; intros i H; cbn [map_idx]; constructor.
  - specialize (H O x eq_refl). rewrite Nat.add_0_r in H. exact H.
  - apply IH. intros j s Hj. specialize (H (S j) s Hj).
    rewrite Nat.add_succ_r in H. exact H.
Qed.

Lemma all_idx_nth {A} (p : nat -> A -> bool) l : forall i,
  all_idx p i l = true -> forall j s, nth_error l j = Some s -> p (i + j)%nat s = true.
Proof.
  induction l as [|x r IH]; intros i H j s Hj.
  - destruct j; discriminate.
  - cbn [all_idx] in H. apply andb_prop in H. destruct H as [Hx Hr].
    destruct j as [|j]; cbn [nth_error] in Hj.
    + inversion Hj; subst. rewrite Nat.add_0_r. exact Hx.
    + rewrite Nat.add_succ_r. apply (IH (S i) Hr j s Hj).
Qed.

Lemma firstn_zlen {A} (l t : list A) : firstn (Z.to_nat (zlen l)) (l ++ t) = l.
Proof.
  unfold zlen. rewrite Nat2Z.id. rewrite firstn_app, Nat.sub_diag, firstn_all.
  cbn [firstn]. apply app_nil_r.
Qed.

Lemma zlen_firstn (l : list Z) n : 0 <= n <= zlen l -> zlen (firstn (Z.to_nat n) l) = n.
Proof. unfold zlen. intros H. rewrite firstn_length. lia. Qed.

Section View.
Variable inflate : list Z -> Z -> option (list Z * bool).
Variable parse : list Z -> option elf.

Notation read_container := (read_container inflate).
Notation read_slot := (read_slot inflate).
Notation read_slots := (read_slots inflate).
Notation own_slots := (own_slots inflate).
Notation own_view := (own_view inflate parse).
Notation debug_view := (debug_view inflate parse).
Notation stored_payload := (stored_payload inflate).
Notation deflated := (deflated inflate).

(* ---------- what debug_view looks at ---------- *)
Lemma read_slots_ext e e' relocate ns :
  (forall n, In n ns -> read_slot e' relocate n = read_slot e relocate n) ->
  read_slots e' relocate ns = read_slots e relocate ns.
Proof.
  induction ns as [|n r IH]; intros H; [reflexivity|].
  cbn [C11Container.read_slots]. rewrite (H n (or_introl eq_refl)).
  rewrite IH by (intros m Hm; apply H; right; exact Hm). reflexivity.
Qed.

Lemma own_view_ext e e' relocate :
  config_of e' = config_of e ->
  (forall n, In n slot_names -> read_slot e' relocate n = read_slot e relocate n) ->
  forall fs follow, own_view fs e' relocate follow = own_view fs e relocate follow.
Proof.
  intros Hc Hs fs follow. unfold C11Container.own_view, C11Container.own_slots.
  rewrite (read_slots_ext e e' relocate slot_names Hs). rewrite Hc.
  replace (e_le e') with (e_le e) by (unfold config_of in Hc; congruence).
  reflexivity.
Qed.

Lemma debug_view_ext e e' relocate :
  config_of e' = config_of e ->
  (forall n, In n slot_names -> read_slot e' relocate n = read_slot e relocate n) ->
  option_map s_stream (sec_named e' n_debuglink) = option_map s_stream (sec_named e n_debuglink) ->
  presence e' true = presence e true ->
  forall fuel fs follow, debug_view fuel fs e' relocate follow = debug_view fuel fs e relocate follow.
Proof.
  intros Hc Hs Hl Hp fuel fs follow.
  destruct fuel as [|f]; [reflexivity|]. cbn [C11Container.debug_view].
  rewrite (own_view_ext e e' relocate Hc Hs). rewrite Hp.
  replace (e_le e') with (e_le e) by (unfold config_of in Hc; congruence).
  destruct (sec_named e' n_debuglink) as [dl'|], (sec_named e n_debuglink) as [dl|];
    cbn [option_map] in Hl; try discriminate; [|reflexivity].
  inversion Hl as [Hst]. rewrite Hst. reflexivity.
Qed.

(* ---------- interchangeable sections ---------- *)
(* same name, same role as a relocation section; same address and payload when the DWARF
   reader asks for the name; same bytes when it is the debug-link carrier *)
Definition sec_equiv (le is64 : bool) (s s' : sec) : Prop :=
  s_name s' = s_name s /\ is_reloc_sec s' = is_reloc_sec s /\
  (observed (s_name s) = true ->
     s_addr s' = s_addr s /\ stored_payload le is64 s' = stored_payload le is64 s) /\
  (s_name s = n_debuglink -> s_stream s' = s_stream s).

Lemma find_last_name n : forall l i j s, find_last_from i n l = Some (j, s) -> s_name s = n.
Proof.
  induction l as [|x r IH]; intros i j s H; [discriminate|].
  cbn [find_last_from] in H. destruct (find_last_from (S i) n r) as [y|] eqn:Er.
  - inversion H; subst. apply (IH (S i) j s Er).
  - destruct (bytes_eqb (s_name x) n) eqn:Ex; [|discriminate].
    inversion H; subst. apply bytes_eqb_eq. exact Ex.
Qed.

Lemma sec_named_name e n s : sec_named e n = Some s -> s_name s = n.
Proof.
  unfold sec_named. destruct (find_last_from 0 n (e_secs e)) as [[j t]|] eqn:E; [|discriminate].
  cbn [option_map snd]. intros H. inversion H; subst. apply (find_last_name _ _ _ _ _ E).
Qed.

Lemma observed_slot n : In n slot_names -> observed n = true /\ observed (zname n) = true.
Proof.
  intros H. unfold observed. split.
  - apply orb_true_iff. left. apply name_in_iff. exact H.
  - apply orb_true_iff. right. apply name_in_iff. apply in_map. exact H.
Qed.

Lemma sec_equiv_refl le is64 s : sec_equiv le is64 s s.
Proof. repeat split. Qed.

Lemma find_last_equiv le is64 l l' : Forall2 (sec_equiv le is64) l l' -> forall i n,
  match find_last_from i n l, find_last_from i n l' with
  | Some (j, s), Some (j', s') => j = j' /\ sec_equiv le is64 s s'
  | None, None => True
  | _, _ => False
  end.
Proof.
  induction 1 as [|s s' l l' Hs Hl IH]; intros i n; cbn [find_last_from]; [exact I|].
  specialize (IH (S i) n).
  destruct (find_last_from (S i) n l) as [[j t]|], (find_last_from (S i) n l') as [[j' t']|];
    try exact IH; try contradiction.
  destruct Hs as [Hn Hrest]. rewrite Hn.
  destruct (bytes_eqb (s_name s) n); [|exact I].
  split; [reflexivity|]. split; [exact Hn|exact Hrest].
Qed.

Lemma reloc_index_equiv le is64 l l' : Forall2 (sec_equiv le is64) l l' -> forall i name,
  reloc_index_from i name l' = reloc_index_from i name l.
Proof.
  induction 1 as [|s s' l l' Hs Hl IH]; intros i name; cbn [reloc_index_from]; [reflexivity|].
  destruct Hs as [Hn [Ht _]]. rewrite Hn, Ht, IH. reflexivity.
Qed.

Lemma has_named_equiv le is64 l l' n : Forall2 (sec_equiv le is64) l l' ->
  existsb (fun s => bytes_eqb (s_name s) n) l' = existsb (fun s => bytes_eqb (s_name s) n) l.
Proof.
  induction 1 as [|s s' r r' Hs Hl IH]; [reflexivity|].
  cbn [existsb]. destruct Hs as [Hn _]. rewrite Hn, IH. reflexivity.
Qed.

Section Equiv.
Variables e e' : elf.
Hypothesis Hle : e_le e' = e_le e.
Hypothesis H64 : e_is64 e' = e_is64 e.
Hypothesis Hm : e_machine e' = e_machine e.
Hypothesis Hf : e_flags e' = e_flags e.
Hypothesis Hsecs : Forall2 (sec_equiv (e_le e) (e_is64 e)) (e_secs e) (e_secs e').

Lemma equiv_read_container relocate legacy s s' :
  sec_equiv (e_le e) (e_is64 e) s s' -> observed (s_name s) = true ->
  read_container e' relocate legacy s' = read_container e relocate legacy s.
Proof.
  intros [Hn [Ht [Hp _]]] Hobs. destruct (Hp Hobs) as [Ha Hpay]. unfold C11Container.read_container.
  rewrite Hle, H64, Hpay, Hn, Ha.
  replace (has_phantom e') with (has_phantom e) by (unfold has_phantom; rewrite Hm, Hf; reflexivity).
  unfold reloc_index. rewrite (reloc_index_equiv _ _ _ _ Hsecs). reflexivity.
Qed.

Lemma equiv_sec_named n :
  match sec_named e n, sec_named e' n with
  | Some s, Some s' => sec_equiv (e_le e) (e_is64 e) s s'
  | None, None => True
  | _, _ => False
  end.
Proof.
  unfold sec_named. pose proof (find_last_equiv _ _ _ _ Hsecs O n) as H.
  destruct (find_last_from 0 n (e_secs e)) as [[j s]|], (find_last_from 0 n (e_secs e')) as [[j' s']|];
    cbn [option_map snd]; try exact H. destruct H as [_ H]. exact H.
Qed.

Lemma equiv_read_slot relocate n : In n slot_names ->
  read_slot e' relocate n = read_slot e relocate n.
Proof.
  intros Hin. destruct (observed_slot n Hin) as [Ho Hoz].
  unfold C11Container.read_slot.
  pose proof (equiv_sec_named n) as H1.
  destruct (sec_named e n) as [s|] eqn:En, (sec_named e' n) as [s'|]; try contradiction.
  - rewrite (equiv_read_container relocate false s s' H1)
      by (rewrite (sec_named_name e n s En); exact Ho). reflexivity.
  - destruct (is_prefix p_debug n); [|reflexivity].
    pose proof (equiv_sec_named (zname n)) as H2.
    destruct (sec_named e (zname n)) as [s|] eqn:Ez, (sec_named e' (zname n)) as [s'|]; try contradiction.
    + rewrite (equiv_read_container relocate true s s' H2)
        by (rewrite (sec_named_name e _ s Ez); exact Hoz). reflexivity.
    + reflexivity.
Qed.

Lemma equiv_has_named n : has_named e' n = has_named e n.
Proof.
  unfold has_named. apply (has_named_equiv _ _ _ _ n Hsecs).
Qed.

Theorem secs_equiv_view relocate fuel fs follow :
  debug_view fuel fs e' relocate follow = debug_view fuel fs e relocate follow.
Proof.
  apply debug_view_ext.
  - unfold config_of. rewrite Hle, H64, Hm. reflexivity.
  - intros n Hn. apply equiv_read_slot. exact Hn.
  - pose proof (equiv_sec_named n_debuglink) as H.
    unfold sec_named in *.
    destruct (find_last_from 0 n_debuglink (e_secs e)) as [[j s]|] eqn:E,
             (find_last_from 0 n_debuglink (e_secs e')) as [[j' s']|];
      cbn [option_map snd] in *; try contradiction; [|reflexivity].
    destruct H as [_ [_ [_ Hst]]]. f_equal. apply Hst. apply (find_last_name _ _ _ _ _ E).
  - unfold presence. rewrite !equiv_has_named. reflexivity.
Qed.
End Equiv.

(* ---------- gABI: one compressed section means what the plain one meant ---------- *)
Lemma land_lor_bit f : Z.land (Z.lor f SHF_COMPRESSED) SHF_COMPRESSED =? 0 = false.
Proof.
  apply Z.eqb_neq. intros H.
  assert (Hb : Z.testbit (Z.land (Z.lor f SHF_COMPRESSED) SHF_COMPRESSED) 11 = false)
    by (rewrite H; apply Z.bits_0).
  rewrite Z.land_spec, Z.lor_spec in Hb.
  replace (Z.testbit SHF_COMPRESSED 11) with true in Hb by reflexivity.
  rewrite orb_true_r in Hb. discriminate.
Qed.

Lemma chdr_decode le is64 rsv size align tail :
  fits_layout (spec_Elf_Chdr le is64) (chdr_vals is64 ELFCOMPRESS_ZLIB rsv size align) = true ->
  exists h, decode_layout (spec_Elf_Chdr le is64)
              (chdr_bytes le is64 ELFCOMPRESS_ZLIB rsv size align ++ tail) = Some (h, tail) /\
            rec_z h "ch_size" = size /\ rec_z h "ch_type" = ELFCOMPRESS_ZLIB /\
            length (chdr_bytes le is64 ELFCOMPRESS_ZLIB rsv size align) = chdr_size is64.
Proof.
  intros Hfit. eexists. split; [|split; [|split]].
  - unfold chdr_bytes. apply decode_encode_layout. exact Hfit.
  - destruct is64; reflexivity.
  - destruct is64; reflexivity.
  - unfold chdr_bytes, encode_layout.
    apply (encode_fields_length _ [] _ _ Hfit). destruct is64, le; reflexivity.
Qed.

Lemma plain_complete_payload le is64 s : plain_complete s = true ->
  stored_payload le is64 s = Some (firstn (Z.to_nat (s_size s)) (s_stream s), s_size s) /\
  0 <= s_size s <= zlen (s_stream s).
Proof.
  unfold plain_complete. intros H. rewrite !andb_true_iff in H.
  destruct H as [[[Hc Hn] H0] Hl]. unfold C11Container.stored_payload.
  apply negb_true_iff in Hc. apply negb_true_iff in Hn. rewrite Hc, Hn.
  split; [reflexivity|]. apply Z.leb_le in H0. apply Z.leb_le in Hl. lia.
Qed.

Lemma gabi_section_equiv le is64 a s :
  gabi_ok le is64 a s = true ->
  deflated (g_blob a) (firstn (Z.to_nat (s_size s)) (s_stream s)) ->
  sec_equiv le is64 s (gabi_compress le is64 a s).
Proof.
  unfold gabi_ok. intros Hok [Hd0 Hdn]. rewrite !andb_true_iff in Hok.
  destruct Hok as [[[Hpc H63] Hnl] Hfit]. apply Z.ltb_lt in H63.
  destruct (plain_complete_payload le is64 s Hpc) as [Hpay Hsz].
  unfold sec_equiv, gabi_compress. cbn [s_name s_type s_addr s_stream]. rewrite Hpay.
  split; [reflexivity|]. split; [reflexivity|]. split.
  2:{ intros Hn. apply negb_true_iff in Hnl. apply bytes_eqb_neq in Hnl. contradiction. }
  intros _. split; [reflexivity|]. unfold C11Container.stored_payload, is_compressed. cbn [s_flags].
  rewrite land_lor_bit. cbn [negb].
  unfold gabi_payload, gabi_body. cbn [s_stream s_size]. rewrite <- app_assoc.
  destruct (chdr_decode le is64 (g_reserved a) (s_size s) (g_align a) (g_blob a ++ g_tail a) Hfit)
    as [h [Hdec [Hsize [Htype Hlen]]]].
  rewrite Hdec, Hsize, Htype.
  unfold plain_complete in Hpc. rewrite !andb_true_iff in Hpc. destruct Hpc as [[[_ Hnb] _] _].
  apply negb_true_iff in Hnb. unfold is_nobits in *. cbn [s_type]. rewrite Hnb.
  rewrite Z.eqb_refl.
  replace (skipn (chdr_size is64) (chdr_bytes le is64 ELFCOMPRESS_ZLIB (g_reserved a) (s_size s) (g_align a)
                                     ++ g_blob a ++ g_tail a)) with (g_blob a ++ g_tail a)
    by (rewrite <- Hlen; rewrite skipn_app, skipn_all, Nat.sub_diag; reflexivity).
  replace (Z.of_nat (chdr_size is64) + zlen (g_blob a) - Z.of_nat (chdr_size is64)) with (zlen (g_blob a)) by lia.
  unfold py_read. destruct (Z.ltb_spec (zlen (g_blob a)) 0) as [Hneg|_];
    [pose proof (zlen_nonneg (g_blob a)); lia|].
  rewrite firstn_zlen.
  set (p := firstn (Z.to_nat (s_size s)) (s_stream s)) in *.
  assert (Hzp : zlen p = s_size s) by (apply zlen_firstn; exact Hsz).
  destruct (Z.eq_dec (s_size s) 0) as [Hz|Hnz].
  - rewrite Hz, Hd0. cbn [andb]. rewrite Hzp, Hz. reflexivity.
  - rewrite (Hdn (s_size s)) by lia. rewrite Hzp, Z.leb_refl. cbn [andb].
    rewrite zlen_firstn by lia. rewrite Z.eqb_refl.
    f_equal. f_equal. unfold p. rewrite firstn_firstn, Nat.min_id. reflexivity.
Qed.

(* ---------- keep-debug ---------- *)
Lemma keep_debug_equiv le is64 fill i s : sec_equiv le is64 s (keep_debug_sec fill i s).
Proof.
  unfold keep_debug_sec. destruct (kept s) eqn:Ek; [apply sec_equiv_refl|].
  unfold kept in Ek. rewrite !orb_false_iff in Ek. destruct Ek as [[[Ho Hd] Hr] _].
  unfold sec_equiv. cbn [s_name]. split; [reflexivity|]. split.
  - rewrite Hr. reflexivity.
  - split; [rewrite Ho; discriminate|]. intros Hn. rewrite Hn, bytes_eqb_refl in Hd. discriminate.
Qed.

Theorem keep_debug_view_invariant fill e :
  forall fuel fs relocate follow,
    debug_view fuel fs (T_keep_debug fill e) relocate follow = debug_view fuel fs e relocate follow.
Proof.
  intros fuel fs relocate follow. apply secs_equiv_view; try reflexivity.
  unfold T_keep_debug. cbn [e_secs]. apply Forall2_map_idx. intros j s Hj. apply keep_debug_equiv.
Qed.

Definition gabi_blobs_ok (choice : nat -> option gabi_args) (e : elf) : Prop :=
  forall i s a, nth_error (e_secs e) i = Some s -> choice i = Some a ->
                deflated (g_blob a) (firstn (Z.to_nat (s_size s)) (s_stream s)).

Theorem gabi_view_invariant choice e :
  gabi_choice_ok choice e = true -> gabi_blobs_ok choice e ->
  forall fuel fs relocate follow,
    debug_view fuel fs (T_gabi choice e) relocate follow = debug_view fuel fs e relocate follow.
Proof.
  intros Hok Hblobs fuel fs relocate follow.
  apply secs_equiv_view; try reflexivity.
  unfold T_gabi. cbn [e_secs]. apply Forall2_map_idx. intros j s Hj. cbn [Nat.add].
  pose proof (all_idx_nth _ _ _ Hok j s Hj) as Hp. cbn [Nat.add] in Hp.
  destruct (choice j) as [a|] eqn:Ec; [|apply sec_equiv_refl].
  apply gabi_section_equiv; [exact Hp|]. apply (Hblobs j s a Hj Ec).
Qed.

End View.
