(* Proofs/C11Links.v — property C11, separate files:
   * a section appended to a file shadows earlier sections of its name and changes
     nothing else;
   * .gnu_debuglink with the right CRC: the view IS the view of the linked file
     (debuglink_view); wrong CRC: rejected (debuglink_crc_mismatch); not followed
     (no loader or follow_links=False): the link is inert (debuglink_inert);
   * .gnu_debugaltlink and .debug_sup: both encodings name the same supplementary file,
     whose own view becomes v_sup; the data slots are untouched (altlink_view, debugsup_view). *)
From PV Require Import Base.Bytes Base.Fmt Base.Prim Spec.PrimSpec Proofs.PrimProofs
  Spec.C11Container Proofs.C11Names Proofs.C11View.
From Coq Require Import Lia.
Open Scope list_scope.
Open Scope Z_scope.

(* ---------- appending a section ---------- *)
Lemma find_last_app n x : forall l i,
  find_last_from i n (l ++ [x]) =
  if bytes_eqb (s_name x) n then Some ((i + length l)%nat, x) else find_last_from i n l.
Proof.
  induction l as [|y r IH]; intros i; cbn [app find_last_from length].
  - rewrite Nat.add_0_r. reflexivity.
  - rewrite IH. destruct (bytes_eqb (s_name x) n).
    + rewrite Nat.add_succ_r. reflexivity.
    + reflexivity.
Qed.

Lemma reloc_index_app name x : is_reloc_sec x = false -> forall l i,
  reloc_index_from i name (l ++ [x]) = reloc_index_from i name l.
Proof.
  intros Hx. induction l as [|y r IH]; intros i; cbn [app reloc_index_from].
  - rewrite Hx. reflexivity.
  - rewrite IH. reflexivity.
Qed.

Lemma has_named_app e x n : has_named (add_section x e) n = has_named e n || bytes_eqb (s_name x) n.
Proof.
  unfold has_named, add_section. cbn [e_secs]. rewrite existsb_app. cbn [existsb].
  rewrite orb_false_r. reflexivity.
Qed.

Lemma sec_named_app_other e x n : bytes_eqb (s_name x) n = false ->
  sec_named (add_section x e) n = sec_named e n.
Proof.
  intros H. unfold sec_named, add_section. cbn [e_secs]. rewrite find_last_app, H. reflexivity.
Qed.

Lemma sec_named_app_same e x n : bytes_eqb (s_name x) n = true ->
  sec_named (add_section x e) n = Some x.
Proof.
  intros H. unfold sec_named, add_section. cbn [e_secs]. rewrite find_last_app, H. reflexivity.
Qed.

Section Links.
Variable inflate : list Z -> Z -> option (list Z * bool).
Variable parse : list Z -> option elf.

Notation read_container := (read_container inflate).
Notation read_slot := (read_slot inflate).
Notation read_slots := (read_slots inflate).
Notation own_slots := (own_slots inflate).
Notation own_view := (own_view inflate parse).
Notation debug_view := (debug_view inflate parse).

Lemma read_container_app e x relocate legacy s : is_reloc_sec x = false ->
  read_container (add_section x e) relocate legacy s = read_container e relocate legacy s.
Proof.
  intros Hx. unfold C11Container.read_container, reloc_index, add_section, has_phantom.
  cbn [e_le e_is64 e_machine e_flags e_secs]. rewrite (reloc_index_app _ x Hx). reflexivity.
Qed.

Lemma read_slot_app_other e x relocate n : is_reloc_sec x = false ->
  bytes_eqb (s_name x) n = false -> bytes_eqb (s_name x) (zname n) = false ->
  read_slot (add_section x e) relocate n = read_slot e relocate n.
Proof.
  intros Hx H1 H2. unfold C11Container.read_slot.
  rewrite (sec_named_app_other e x n H1), (sec_named_app_other e x (zname n) H2).
  destruct (sec_named e n) as [s|]; [rewrite read_container_app by exact Hx; reflexivity|].
  destruct (is_prefix p_debug n); [|reflexivity].
  destruct (sec_named e (zname n)) as [s|]; [rewrite read_container_app by exact Hx|]; reflexivity.
Qed.

Lemma read_slot_app_same e x relocate n : is_reloc_sec x = false ->
  bytes_eqb (s_name x) n = true ->
  read_slot (add_section x e) relocate n = option_map Some (read_container e relocate false x).
Proof.
  intros Hx H1. unfold C11Container.read_slot. rewrite (sec_named_app_same e x n H1).
  rewrite read_container_app by exact Hx. reflexivity.
Qed.

(* what a link section (PROGBITS, no flags) holds *)
Lemma link_section_container e relocate name body off tail :
  no_phantom e = true ->
  read_container e relocate false (link_section name body off tail) =
  Some (mkDesc body (zlen body) 0 (if relocate then reloc_index e name else None)).
Proof.
  intros Hph. unfold no_phantom in Hph. apply negb_true_iff in Hph.
  unfold C11Container.read_container, stored_payload, link_section, is_compressed, is_nobits.
  cbn [s_flags s_type s_size s_stream s_name s_addr]. cbn [Z.land Z.eqb negb SHT_NOBITS Pos.eqb].
  rewrite firstn_zlen, Hph.
  destruct (if relocate then reloc_index e name else None); reflexivity.
Qed.

(* ---------- the names a link carrier can clash with ---------- *)
Definition differs (nx n : list Z) : bool := negb (bytes_eqb nx n) && negb (bytes_eqb nx (zname n)).
Definition differs_all (nx : list Z) (ns : list (list Z)) : bool := forallb (differs nx) ns.
(* the name is the k-th of the list and differs from all the others *)
Fixpoint differs_but (nx : list Z) (k : nat) (ns : list (list Z)) : bool :=
  match ns, k with
  | [], _ => false
  | n :: r, O => bytes_eqb nx n && differs_all nx r
  | n :: r, S k' => differs nx n && differs_but nx k' r
  end.

Lemma read_slots_app_none e x relocate : is_reloc_sec x = false -> forall ns,
  differs_all (s_name x) ns = true ->
  read_slots (add_section x e) relocate ns = read_slots e relocate ns.
Proof.
  intros Hx. induction ns as [|n r IH]; intros Hd; [reflexivity|].
  cbn [differs_all forallb] in Hd. apply andb_prop in Hd. destruct Hd as [H12 H3].
  unfold differs in H12. apply andb_prop in H12. destruct H12 as [H1 H2].
  apply negb_true_iff in H1. apply negb_true_iff in H2.
  cbn [C11Container.read_slots]. rewrite (read_slot_app_other e x relocate n Hx H1 H2).
  rewrite (IH H3). reflexivity.
Qed.

Lemma read_slots_app_at e x relocate d : is_reloc_sec x = false ->
  read_container e relocate false x = Some d -> forall ns k sl,
  differs_but (s_name x) k ns = true ->
  read_slots e relocate ns = Some sl ->
  read_slots (add_section x e) relocate ns = Some (set_nth k (Some d) sl).
Proof.
  intros Hx Hd. induction ns as [|n r IH]; intros k sl Ho Hs.
  - destruct k; discriminate.
  - cbn [C11Container.read_slots] in Hs |- *.
    destruct (read_slot e relocate n) as [d0|] eqn:E0; [|discriminate].
    destruct (read_slots e relocate r) as [ds|] eqn:Er; [|discriminate].
    inversion Hs; subst sl. clear Hs.
    destruct k as [|k]; cbn [differs_but] in Ho; apply andb_prop in Ho; destruct Ho as [H1 H3].
    + rewrite (read_slot_app_same e x relocate n Hx H1), Hd. cbn [option_map set_nth].
      rewrite (read_slots_app_none e x relocate Hx r H3), Er. reflexivity.
    + unfold differs in H1. apply andb_prop in H1. destruct H1 as [H1 H2].
      apply negb_true_iff in H1. apply negb_true_iff in H2.
      rewrite (read_slot_app_other e x relocate n Hx H1 H2), E0.
      rewrite (IH k ds H3 eq_refl). reflexivity.
Qed.

(* ---------- a link carrier that is not looked at ---------- *)
Lemma own_view_app_none e x : is_reloc_sec x = false -> differs_all (s_name x) slot_names = true ->
  forall fs relocate follow,
  own_view fs (add_section x e) relocate follow = own_view fs e relocate follow.
Proof.
  intros Hx Hd fs relocate follow. unfold C11Container.own_view, C11Container.own_slots.
  rewrite (read_slots_app_none e x relocate Hx slot_names Hd). reflexivity.
Qed.

(* ---------- .gnu_debuglink ---------- *)
Lemma debuglink_parse_body le name pad crc tail :
  debuglink_ok name pad crc = true ->
  debuglink_parse le (debuglink_body le name pad crc ++ tail) = Some (name, crc).
Proof.
  unfold debuglink_ok. rewrite !andb_true_iff. intros [[[[Hn Hp] Hl] H0] H1].
  apply Nat.eqb_eq in Hl. apply Z.leb_le in H0. apply Z.ltb_lt in H1.
  unfold debuglink_parse, debuglink_body.
  replace ((name ++ [0] ++ pad ++ int_encode le 4 crc) ++ tail)
    with (cstring_encode name ++ pad ++ int_encode le 4 crc ++ tail)
    by (unfold cstring_encode; rewrite <- !app_assoc; reflexivity).
  rewrite cstring_decode_valid by exact Hn.
  rewrite <- Hl, take_app, Hp.
  rewrite uint_decode_valid by (change (2 ^ (8 * Z.of_nat 4)) with (2 ^ 32); lia).
  reflexivity.
Qed.

Definition debuglink_sec (le : bool) (name pad : list Z) (crc off : Z) (tail : list Z) : sec :=
  link_section n_debuglink (debuglink_body le name pad crc) off tail.

Lemma presence_add_debuglink es x : s_name x = n_debuglink ->
  presence (add_section x es) true = presence es true.
Proof.
  intros Hn. unfold presence. rewrite !has_named_app, Hn.
  replace (bytes_eqb n_debuglink n_debug_info) with false by reflexivity.
  replace (bytes_eqb n_debuglink n_zdebug_info) with false by reflexivity.
  rewrite !orb_false_r. reflexivity.
Qed.

(* right CRC: the view is the view of the linked file *)
Theorem debuglink_view es name pad crc off tail load dbg ed :
  presence es true = false -> debuglink_ok name pad crc = true ->
  load name = Some dbg -> crc32_poly dbg = crc -> parse dbg = Some ed ->
  forall fuel relocate,
  debug_view (S fuel) (Some load)
             (add_section (debuglink_sec (e_le es) name pad crc off tail) es) relocate true
  = debug_view fuel (Some load) ed relocate true.
Proof.
  intros Hp Hok Hload Hcrc Hparse fuel relocate. cbn [C11Container.debug_view].
  rewrite (sec_named_app_same es _ n_debuglink) by reflexivity.
  rewrite presence_add_debuglink by reflexivity. rewrite Hp. cbn [negb andb].
  unfold debuglink_sec, link_section. cbn [s_stream add_section e_le].
  rewrite (debuglink_parse_body _ _ _ _ _ Hok), Hload, Hcrc, Z.eqb_refl, Hparse. reflexivity.
Qed.

(* wrong CRC: rejected *)
Theorem debuglink_crc_mismatch es name pad crc off tail load dbg :
  presence es true = false -> debuglink_ok name pad crc = true ->
  load name = Some dbg -> crc32_poly dbg <> crc ->
  forall fuel relocate,
  debug_view (S fuel) (Some load)
             (add_section (debuglink_sec (e_le es) name pad crc off tail) es) relocate true = None.
Proof.
  intros Hp Hok Hload Hcrc fuel relocate. cbn [C11Container.debug_view].
  rewrite (sec_named_app_same es _ n_debuglink) by reflexivity.
  rewrite presence_add_debuglink by reflexivity. rewrite Hp. cbn [negb andb].
  unfold debuglink_sec, link_section. cbn [s_stream add_section e_le].
  rewrite (debuglink_parse_body _ _ _ _ _ Hok), Hload.
  apply Z.eqb_neq in Hcrc. rewrite Hcrc. reflexivity.
Qed.

(* not followed (no loader, follow_links=False, or the file has debug info of its own):
   the link is inert, the view is the file's own *)
Theorem debuglink_inert es le name pad crc off tail fs follow :
  fs = None \/ follow = false \/ presence es true = true ->
  forall fuel relocate,
  debug_view (S fuel) fs (add_section (debuglink_sec le name pad crc off tail) es) relocate follow
  = own_view fs es relocate follow.
Proof.
  intros H fuel relocate. cbn [C11Container.debug_view].
  rewrite (sec_named_app_same es _ n_debuglink) by reflexivity.
  rewrite presence_add_debuglink by reflexivity.
  rewrite own_view_app_none by reflexivity.
  destruct fs as [load|]; [|reflexivity].
  destruct H as [H|[H|H]]; [discriminate| |]; rewrite H; cbn [negb andb];
    [rewrite andb_false_r|]; reflexivity.
Qed.

(* objcopy --only-keep-debug + --add-gnu-debuglink: the debug file is the original with the
   contents of the unobserved sections dropped; the stripped file shows the original's view *)
Corollary keep_debug_workflow es name pad crc off tail load dbg e fill :
  presence es true = false -> debuglink_ok name pad crc = true ->
  load name = Some dbg -> crc32_poly dbg = crc -> parse dbg = Some (T_keep_debug fill e) ->
  forall fuel relocate,
  debug_view (S fuel) (Some load)
             (add_section (debuglink_sec (e_le es) name pad crc off tail) es) relocate true
  = debug_view fuel (Some load) e relocate true.
Proof.
  intros Hp Hok Hload Hcrc Hparse fuel relocate.
  rewrite (debuglink_view es name pad crc off tail load dbg _ Hp Hok Hload Hcrc Hparse).
  apply keep_debug_view_invariant.
Qed.

(* ---------- supplementary file ---------- *)
Lemma read_slots_length e relocate : forall ns sl,
  read_slots e relocate ns = Some sl -> length sl = length ns.
Proof.
  induction ns as [|n r IH]; intros sl H; cbn [C11Container.read_slots] in H.
  - inversion H. reflexivity.
  - destruct (read_slot e relocate n); [|discriminate].
    destruct (read_slots e relocate r) as [ds|]; [|discriminate].
    inversion H; subst. cbn [length]. rewrite (IH ds eq_refl). reflexivity.
Qed.

Lemma nth_set_nth_same {A} (x d : A) : forall l k, (k < length l)%nat -> nth k (set_nth k x l) d = x.
Proof.
  induction l as [|y r IH]; intros k Hk; cbn [length] in Hk; [lia|].
  destruct k as [|k]; cbn [set_nth nth]; [reflexivity|]. apply IH. lia.
Qed.
Lemma nth_set_nth_other {A} (x d : A) : forall l k j, j <> k -> nth j (set_nth k x l) d = nth j l d.
Proof.
  induction l as [|y r IH]; intros k j Hjk; [destruct k; reflexivity|].
  destruct k as [|k], j as [|j]; cbn [set_nth nth]; try reflexivity; [contradiction|].
  apply IH. congruence.
Qed.

Lemma altlink_parse_body name id rest :
  no_nul name = true -> length id = 20%nat ->
  altlink_parse (altlink_body name (id ++ rest)) = Some name.
Proof.
  intros Hn Hl. unfold altlink_parse, altlink_body.
  change (name ++ [0] ++ id ++ rest) with (name ++ [0] ++ (id ++ rest)).
  replace (name ++ [0] ++ id ++ rest) with (cstring_encode name ++ id ++ rest)
    by (unfold cstring_encode; rewrite <- app_assoc; reflexivity).
  rewrite cstring_decode_valid by exact Hn. rewrite <- Hl, take_app. reflexivity.
Qed.

Lemma debugsup_parse_body le version is_sup name rest :
  no_nul name = true ->
  debugsup_parse le (debugsup_body le version is_sup name rest) = Some (is_sup, name).
Proof.
  intros Hn. unfold debugsup_parse, debugsup_body.
  replace (int_encode le 2 version ++ [is_sup] ++ name ++ [0] ++ rest)
    with ((int_encode le 2 version ++ [is_sup]) ++ cstring_encode name ++ rest)
    by (unfold cstring_encode; rewrite <- !app_assoc; reflexivity).
  replace 3%nat with (length (int_encode le 2 version ++ [is_sup]))
    by (rewrite app_length, int_encode_length; reflexivity).
  rewrite take_app, cstring_decode_valid by exact Hn.
  rewrite app_nth2 by (rewrite int_encode_length; lia).
  rewrite int_encode_length. reflexivity.
Qed.

(* the view of a file to which a carrier of a supplementary link (slot k) was appended *)
Lemma sup_link_view e nx k body off tail load path b esup sl slsup relocate :
  no_phantom e = true -> differs_but nx k slot_names = true ->
  own_slots e relocate = Some sl ->
  let d := mkDesc body (zlen body) 0 (if relocate then reloc_index e nx else None) in
  let e' := add_section (link_section nx body off tail) e in
  sup_path (e_le e) (set_nth k (Some d) sl) = Some (Some path) ->
  load path = Some b -> parse b = Some esup ->
  own_slots esup true = Some slsup -> sup_path (e_le esup) slsup <> None ->
  own_slots e' relocate = Some (set_nth k (Some d) sl) /\
  own_view (Some load) e' relocate true =
    Some (mkView (config_of e) (set_nth k (Some d) sl) (Some (config_of esup, slsup))) /\
  own_view None e' relocate true = Some (mkView (config_of e) (set_nth k (Some d) sl) None) /\
  forall fs, own_view fs e' relocate false = Some (mkView (config_of e) (set_nth k (Some d) sl) None).
Proof.
  intros Hph Hk Hsl d e' Hpath Hload Hparse Hsup Hsp.
  assert (Hs' : own_slots e' relocate = Some (set_nth k (Some d) sl)).
  { unfold C11Container.own_slots in *. unfold e'.
    apply (read_slots_app_at e (link_section nx body off tail) relocate d); try reflexivity; try assumption.
    apply link_section_container. exact Hph. }
  split; [exact Hs'|].
  unfold C11Container.own_view. rewrite Hs'.
  replace (e_le e') with (e_le e) by reflexivity. replace (config_of e') with (config_of e) by reflexivity.
  rewrite Hpath, Hload, Hparse, Hsup.
  destruct (sup_path (e_le esup) slsup); [|contradiction].
  repeat split; reflexivity.
Qed.

Lemma slot_names_length : length slot_names = 19%nat. Proof. reflexivity. Qed.

(* .gnu_debugaltlink (file name, NUL, 20-byte build id) in a file without .debug_sup *)
Theorem altlink_view e name id rest off tail load b esup sl slsup relocate :
  no_phantom e = true -> own_slots e relocate = Some sl -> nth SLOT_SUP sl None = None ->
  no_nul name = true -> length id = 20%nat ->
  load name = Some b -> parse b = Some esup ->
  own_slots esup true = Some slsup -> sup_path (e_le esup) slsup <> None ->
  let body := altlink_body name (id ++ rest) in
  let d := mkDesc body (zlen body) 0 (if relocate then reloc_index e n_debugaltlink else None) in
  let e' := add_section (link_section n_debugaltlink body off tail) e in
  own_view (Some load) e' relocate true =
    Some (mkView (config_of e) (set_nth SLOT_ALTLINK (Some d) sl) (Some (config_of esup, slsup))) /\
  own_view None e' relocate true = Some (mkView (config_of e) (set_nth SLOT_ALTLINK (Some d) sl) None) /\
  forall fs, own_view fs e' relocate false = Some (mkView (config_of e) (set_nth SLOT_ALTLINK (Some d) sl) None).
Proof.
  intros Hph Hsl Hnosup Hn Hid Hload Hparse Hsup Hsp body d e'.
  apply (sup_link_view e n_debugaltlink SLOT_ALTLINK body off tail load name b esup sl slsup relocate);
    try assumption; try reflexivity.
  assert (Hlen : length sl = 19%nat)
    by (rewrite <- slot_names_length; apply (read_slots_length e relocate); exact Hsl).
  unfold sup_path, slot_data.
  rewrite nth_set_nth_other by (unfold SLOT_SUP, SLOT_ALTLINK; lia). rewrite Hnosup.
  rewrite nth_set_nth_same by (unfold SLOT_ALTLINK; lia). unfold d. cbn [d_data]. unfold body.
  rewrite altlink_parse_body by assumption. reflexivity.
Qed.

(* .debug_sup (DWARF 5) with is_supplementary = 0 *)
Theorem debugsup_view e version name rest off tail load b esup sl slsup relocate :
  no_phantom e = true -> own_slots e relocate = Some sl ->
  no_nul name = true ->
  load name = Some b -> parse b = Some esup ->
  own_slots esup true = Some slsup -> sup_path (e_le esup) slsup <> None ->
  let body := debugsup_body (e_le e) version 0 name rest in
  let d := mkDesc body (zlen body) 0 (if relocate then reloc_index e n_debug_sup else None) in
  let e' := add_section (link_section n_debug_sup body off tail) e in
  own_view (Some load) e' relocate true =
    Some (mkView (config_of e) (set_nth SLOT_SUP (Some d) sl) (Some (config_of esup, slsup))) /\
  own_view None e' relocate true = Some (mkView (config_of e) (set_nth SLOT_SUP (Some d) sl) None) /\
  forall fs, own_view fs e' relocate false = Some (mkView (config_of e) (set_nth SLOT_SUP (Some d) sl) None).
Proof.
  intros Hph Hsl Hn Hload Hparse Hsup Hsp body d e'.
  apply (sup_link_view e n_debug_sup SLOT_SUP body off tail load name b esup sl slsup relocate);
    try assumption; try reflexivity.
  assert (Hlen : length sl = 19%nat)
    by (rewrite <- slot_names_length; apply (read_slots_length e relocate); exact Hsl).
  unfold sup_path, slot_data.
  rewrite nth_set_nth_same by (unfold SLOT_SUP; lia). unfold d. cbn [d_data].
  unfold body. rewrite debugsup_parse_body by assumption. reflexivity.
Qed.

(* ---------- two hops: stripped file --.gnu_debuglink--> debug file --supplementary link--> ... ---------- *)
Lemma debug_view_own e : sec_named e n_debuglink = None ->
  forall fuel fs relocate follow,
  debug_view (S fuel) fs e relocate follow = own_view fs e relocate follow.
Proof. intros H fuel fs relocate follow. cbn [C11Container.debug_view]. rewrite H. reflexivity. Qed.

(* the loader is handed down: what is seen through the debug link is the debug file's own
   view INCLUDING the view of the supplementary file it names, resolved by the same loader *)
Theorem two_hop_view es name pad crc off tail load dbg ed :
  presence es true = false -> debuglink_ok name pad crc = true ->
  load name = Some dbg -> crc32_poly dbg = crc -> parse dbg = Some ed ->
  sec_named ed n_debuglink = None ->
  forall fuel relocate,
  debug_view (S (S fuel)) (Some load)
             (add_section (debuglink_sec (e_le es) name pad crc off tail) es) relocate true
  = own_view (Some load) ed relocate true.
Proof.
  intros Hp Hok Hload Hcrc Hparse Hnl fuel relocate.
  rewrite (debuglink_view es name pad crc off tail load dbg ed Hp Hok Hload Hcrc Hparse).
  apply debug_view_own. exact Hnl.
Qed.

Theorem two_hop_altlink es name pad crc off tail load dbg e supname id rest off2 tail2 b esup sl slsup relocate :
  presence es true = false -> debuglink_ok name pad crc = true ->
  load name = Some dbg -> crc32_poly dbg = crc ->
  parse dbg = Some (add_section (link_section n_debugaltlink (altlink_body supname (id ++ rest)) off2 tail2) e) ->
  sec_named e n_debuglink = None ->
  no_phantom e = true -> own_slots e relocate = Some sl -> nth SLOT_SUP sl None = None ->
  no_nul supname = true -> length id = 20%nat ->
  load supname = Some b -> parse b = Some esup ->
  own_slots esup true = Some slsup -> sup_path (e_le esup) slsup <> None ->
  forall fuel,
  debug_view (S (S fuel)) (Some load)
             (add_section (debuglink_sec (e_le es) name pad crc off tail) es) relocate true
  = Some (mkView (config_of e)
            (set_nth SLOT_ALTLINK
               (Some (mkDesc (altlink_body supname (id ++ rest)) (zlen (altlink_body supname (id ++ rest))) 0
                             (if relocate then reloc_index e n_debugaltlink else None))) sl)
            (Some (config_of esup, slsup))).
Proof.
  intros Hp Hok Hload Hcrc Hparse Hnl Hph Hsl Hns Hnn Hid Hl2 Hp2 Hss Hsp fuel.
  rewrite (two_hop_view es name pad crc off tail load dbg _ Hp Hok Hload Hcrc Hparse).
  - apply (altlink_view e supname id rest off2 tail2 load b esup sl slsup relocate); assumption.
  - rewrite sec_named_app_other by reflexivity. exact Hnl.
Qed.

Theorem two_hop_debugsup es name pad crc off tail load dbg e version supname rest off2 tail2 b esup sl slsup relocate :
  presence es true = false -> debuglink_ok name pad crc = true ->
  load name = Some dbg -> crc32_poly dbg = crc ->
  parse dbg = Some (add_section (link_section n_debug_sup (debugsup_body (e_le e) version 0 supname rest) off2 tail2) e) ->
  sec_named e n_debuglink = None ->
  no_phantom e = true -> own_slots e relocate = Some sl ->
  no_nul supname = true ->
  load supname = Some b -> parse b = Some esup ->
  own_slots esup true = Some slsup -> sup_path (e_le esup) slsup <> None ->
  forall fuel,
  debug_view (S (S fuel)) (Some load)
             (add_section (debuglink_sec (e_le es) name pad crc off tail) es) relocate true
  = Some (mkView (config_of e)
            (set_nth SLOT_SUP
               (Some (mkDesc (debugsup_body (e_le e) version 0 supname rest)
                             (zlen (debugsup_body (e_le e) version 0 supname rest)) 0
                             (if relocate then reloc_index e n_debug_sup else None))) sl)
            (Some (config_of esup, slsup))).
Proof.
  intros Hp Hok Hload Hcrc Hparse Hnl Hph Hsl Hnn Hl2 Hp2 Hss Hsp fuel.
  rewrite (two_hop_view es name pad crc off tail load dbg _ Hp Hok Hload Hcrc Hparse).
  - apply (debugsup_view e version supname rest off2 tail2 load b esup sl slsup relocate); assumption.
  - rewrite sec_named_app_other by reflexivity. exact Hnl.
Qed.

End Links.
