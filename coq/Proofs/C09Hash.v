(* Proofs/C09Hash.v — the symbol count recovered from a SysV or GNU hash table equals
   the true count, for every valid table (C03 has no count lemmas yet; these are C09's own). *)
From PV Require Import Model.C09Dynamic Base.Enum Gen.C09Hash.
From PV Require Import Proofs.PrimProofs Proofs.FmtProofs Proofs.ElfLayoutFacts Proofs.C09Tables Proofs.C09Tags.
From Coq Require Import ZifyBool.
Open Scope string_scope.
Open Scope list_scope.
Open Scope Z_scope.

(* ---------- SysV: nchain ---------- *)
Theorem sysv_count f off N :
  sysv_valid (f_le f) (spec_hash_wide (e_machine (f_eh f)) (f_is64 f)) (seekz (f_img f) off) N = true ->
  sysv_num_symbols f off = Ok N.
Proof.
  unfold sysv_valid, sysv_num_symbols, Elf_Hash_layout. rewrite hash_wide_spec.
  assert (HL : (if spec_hash_wide (e_machine (f_eh f)) (f_is64 f) then gen_Elf_Hash_wide (f_le f)
                else gen_Elf_Hash (f_le f) (f_is64 f))
               = spec_Elf_Hash_w (f_le f) (spec_hash_wide (e_machine (f_eh f)) (f_is64 f))).
  { destruct (spec_hash_wide _ _); [apply gen_Elf_Hash_wide_spec|apply gen_Elf_Hash_gabi]. }
  rewrite HL. destruct (decode_counted_w _ _ _ _ _) as [[r t]|]; [|discriminate].
  intros H. f_equal. lia.
Qed.

(* ---------- arrays of words ---------- *)
Lemma all_bytes_firstn n l : all_bytes l = true -> all_bytes (firstn n l) = true.
Proof.
  intros H. rewrite <- (firstn_skipn n l) in H. rewrite all_bytes_app in H.
  apply andb_prop in H. tauto.
Qed.
Lemma all_bytes_skipn n l : all_bytes l = true -> all_bytes (skipn n l) = true.
Proof.
  intros H. rewrite <- (firstn_skipn n l) in H. rewrite all_bytes_app in H.
  apply andb_prop in H. tauto.
Qed.

Lemma take_eq n bs a t : take n bs = Some (a, t) -> a = firstn n bs /\ t = skipn n bs /\ (n <= length bs)%nat.
Proof.
  rewrite take_unfold. destruct (Nat.leb_spec n (length bs)) as [H|H]; [|discriminate].
  intros E. inversion E; subst. auto.
Qed.

Lemma decode_arr_consumes le n : forall cnt bs zs t,
  decode_arr le n cnt bs = Some (zs, t) ->
  length zs = cnt /\ t = skipn (cnt * n) bs /\ (cnt * n <= length bs)%nat.
Proof.
  induction cnt as [|c IH]; intros bs zs t H; cbn [decode_arr] in H.
  - inversion H; subst. cbn. repeat split. lia.
  - destruct (take n bs) as [[a r]|] eqn:Et; [|discriminate].
    destruct (decode_arr le n c r) as [[zs' t']|] eqn:Ed; [|discriminate].
    inversion H; subst. apply take_eq in Et. destruct Et as [-> [-> Hn]].
    destruct (IH _ _ _ Ed) as [Hl [-> Hc]]. rewrite skipn_length in Hc.
    cbn [length]. rewrite skipn_add. split; [lia|]. split; [f_equal; lia | lia].
Qed.

Lemma decode_arr_nth le n : forall cnt bs zs t i,
  decode_arr le n cnt bs = Some (zs, t) -> (i < cnt)%nat ->
  take n (skipn (i * n) bs) = Some (firstn n (skipn (i * n) bs), skipn n (skipn (i * n) bs)) /\
  nth i zs 0 = int_decode le (firstn n (skipn (i * n) bs)).
Proof.
  induction cnt as [|c IH]; intros bs zs t i H Hi; [lia|]. cbn [decode_arr] in H.
  destruct (take n bs) as [[a r]|] eqn:Et; [|discriminate].
  destruct (decode_arr le n c r) as [[zs' t']|] eqn:Ed; [|discriminate].
  inversion H; subst. destruct i as [|i].
  - cbn [Nat.mul skipn nth]. pose proof (take_eq _ _ _ _ Et) as [-> [-> Hn]]. split; [exact Et|reflexivity].
  - pose proof (take_eq _ _ _ _ Et) as [-> [-> Hn]].
    destruct (IH _ _ _ i Ed ltac:(lia)) as [H1 H2]. rewrite skipn_add in H1, H2.
    replace (S i * n)%nat with (n + i * n)%nat by lia. cbn [nth]. split; assumption.
Qed.

(* ---------- the GNU header ---------- *)
Lemma int_decode_nonneg le bs : all_bytes bs = true -> 0 <= int_decode le bs.
Proof. intros H. pose proof (int_decode_bound le bs H). lia. Qed.

Lemma decode_gnu_header le is64 bs r rest :
  all_bytes bs = true ->
  decode_layout (spec_Gnu_Hash le is64) bs = Some (r, rest) ->
  exists bk,
    rec_get r "buckets" = Some (VL bk) /\
    0 <= rec_z r "bloom_size" /\ 0 <= rec_z r "nbuckets" /\
    zlen bk = rec_z r "nbuckets" /\
    rest = skipn (Z.to_nat (16 + rec_z r "bloom_size" * (if is64 then 8 else 4) + rec_z r "nbuckets" * 4)) bs.
Proof.
  intros Hb. unfold decode_layout, spec_Gnu_Hash. cbn [decode_fields decode_kind].
  destruct (take 4 bs) as [[a0 t0]|] eqn:E0; [|discriminate].
  cbn [rev app]. destruct (take 4 t0) as [[a1 t1]|] eqn:E1; [|discriminate].
  cbn [rev app]. destruct (take 4 t1) as [[a2 t2]|] eqn:E2; [|discriminate].
  cbn [rev app]. destruct (take 4 t2) as [[a3 t3]|] eqn:E3; [|discriminate].
  cbn [rev app eval lookup String.eqb Ascii.eqb Bool.eqb].
  apply take_eq in E0, E1, E2, E3.
  destruct E0 as [-> [-> L0]]. destruct E1 as [-> [-> L1]].
  destruct E2 as [-> [-> L2]]. destruct E3 as [-> [-> L3]].
  rewrite !skipn_add in *. rewrite !skipn_length in *. cbn [Nat.add] in *.
  set (nb := int_decode le (firstn 4 bs)).
  set (bsz := int_decode le (firstn 4 (skipn 8 bs))).
  assert (Hnb : 0 <= nb) by (apply int_decode_nonneg, all_bytes_firstn; exact Hb).
  assert (Hbsz : 0 <= bsz) by (apply int_decode_nonneg, all_bytes_firstn, all_bytes_skipn; exact Hb).
  destruct (decode_arr le (if is64 then 8 else 4) (Z.to_nat bsz) (skipn 16 bs)) as [[bl t4]|] eqn:E4; [|discriminate].
  cbn [rev app eval lookup String.eqb Ascii.eqb Bool.eqb].
  destruct (decode_arr le 4 (Z.to_nat nb) t4) as [[bk t5]|] eqn:E5; [|discriminate].
  intros H. inversion H; subst r rest. clear H.
  apply decode_arr_consumes in E4, E5.
  destruct E4 as [Hl4 [-> Hc4]]. destruct E5 as [Hl5 [-> Hc5]].
  exists bk. split; [reflexivity|].
  change (rec_z _ "bloom_size") with bsz. change (rec_z _ "nbuckets") with nb.
  repeat split; try assumption.
  - unfold zlen. lia.
  - rewrite !skipn_add. f_equal. destruct is64; lia.
Qed.

(* ---------- the chain walk ---------- *)
Lemma list_max_ge l : forall x, In x l -> x <= list_max l.
Proof.
  induction l as [|y r IH]; intros x H; [contradiction|].
  cbn [list_max fold_right]. fold (list_max r). destruct H as [->|H]; [lia|].
  specialize (IH x H). lia.
Qed.
Lemma list_max_in l : 0 < list_max l -> In (list_max l) l.
Proof.
  induction l as [|y r IH]; cbn [list_max fold_right]; [lia|]. fold (list_max r). intros H.
  destruct (Z.max_spec y (list_max r)) as [[Hlt ->]|[Hge ->]].
  - right. apply IH. lia.
  - left. reflexivity.
Qed.

Lemma land1_odd x : negb (Z.land x 1 =? 0) = Z.odd x.
Proof.
  change 1 with (Z.ones 1). rewrite Z.land_ones by lia. change (2 ^ 1) with 2.
  rewrite Zmod_odd. destruct (Z.odd x); reflexivity.
Qed.

Lemma gnu_walk_end f cp so N (chw : Z -> Z) (M : Z) :
  (forall i, 0 <= i < N - so ->
     exists w t, take 4 (seekz (f_img f) (cp + i * 4)) = Some (w, t) /\ int_decode (f_le f) w = chw i) ->
  Z.odd (chw (N - so - 1)) = true ->
  (forall i, 0 <= i < N - so - 1 -> Z.odd (chw i) = true -> so + i + 1 <= M) ->
  forall k idx fuel, M <= idx -> so <= idx -> idx = N - 1 - Z.of_nat k -> (k < fuel)%nat ->
  gnu_walk fuel f (cp + (idx - so) * 4) idx = Ok N.
Proof.
  intros Hrd Hlast Hends. induction k as [|k IH]; intros idx fuel HM Hso Hidx Hfuel;
    (destruct fuel as [|fuel]; [lia|]); cbn [gnu_walk];
    destruct (Hrd (idx - so) ltac:(lia)) as [w [t [Ht Hw]]]; rewrite Ht, land1_odd, Hw.
  - replace (idx - so) with (N - so - 1) by lia. rewrite Hlast. cbn [negb]. f_equal. lia.
  - destruct (Z.odd (chw (idx - so))) eqn:Eo.
    + specialize (Hends (idx - so) ltac:(lia) Eo). lia.
    + replace (cp + (idx - so) * 4 + 4) with (cp + (idx + 1 - so) * 4) by lia.
      apply IH; lia.
Qed.

(* ---------- GNU: the walk from the largest bucket ends at the last symbol ---------- *)
Theorem gnu_count f off N :
  all_bytes (f_img f) = true -> 0 <= off ->
  gnu_valid (f_le f) (f_is64 f) (seekz (f_img f) off) N = true ->
  gnu_num_symbols f off = Ok N.
Proof.
  intros Hbytes Hoff. unfold gnu_valid, gnu_num_symbols, parse_counted_at. rewrite gen_Gnu_Hash_gabi.
  set (bs := seekz (f_img f) off).
  destruct (decode_counted _ _ _ bs) as [[r rest]|] eqn:Ed; [|discriminate].
  cbn [bind]. unfold decode_counted in Ed.
  destruct (forallb _ _); [|discriminate].
  assert (Hbs : all_bytes bs = true) by (unfold bs; rewrite seekz_skipn; apply all_bytes_skipn; exact Hbytes).
  destruct (decode_gnu_header _ _ _ _ _ Hbs Ed) as [bk [Hbk [Hbl [Hnb [Hlen Hrest]]]]].
  rewrite Hbk. set (so := rec_z r "symoffset") in *.
  destruct (decode_arr (f_le f) 4 (Z.to_nat (N - so)) rest) as [[ch t]|] eqn:Ech; [|discriminate].
  intros H. rewrite !andb_true_iff in H.
  destruct H as [[[[[[C1 C2] C3] C4] C5] C6] C7].
  destruct bk as [|b bk']; [discriminate|]. set (bk := b :: bk') in *.
  set (M := list_max bk). set (starts := filter (fun b => so <=? b) bk) in *.
  set (chw := fun i => nth (Z.to_nat i) ch 0) in *.
  rewrite forallb_forall in C4, C7.
  destruct (Z.ltb_spec M so) as [HM|HM].
  - (* every bucket is empty: no symbol beyond symoffset *)
    assert (Hst : starts = []).
    { unfold starts. destruct (filter _ bk) as [|x l] eqn:Ef; [reflexivity|].
      assert (Hin : In x (filter (fun b => so <=? b) bk)) by (rewrite Ef; left; reflexivity).
      apply filter_In in Hin. destruct Hin as [Hin Hx]. pose proof (list_max_ge bk x Hin). fold M in H. lia. }
    rewrite Hst in C6. cbn [length Nat.eqb negb andb] in C6. f_equal. destruct (Z.eqb_spec N so) as [->|]; [reflexivity|discriminate].
  - assert (HinM : In M starts).
    { unfold starts. apply filter_In. split; [apply list_max_in; fold M; lia| lia]. }
    pose proof (C4 M HinM) as HMN.
    assert (Hlast : Z.odd (chw (N - so - 1)) = true).
    { apply orb_true_iff in C6. destruct C6 as [C6|C6]; [lia|]. apply andb_prop in C6. exact (proj2 C6). }
    set (cp := off + 4 * 4 + rec_z r "bloom_size" * (if f_is64 f then 8 else 4) + rec_z r "nbuckets" * 4).
    assert (Hrest' : rest = seekz (f_img f) cp).
    { rewrite Hrest. unfold bs, cp. rewrite <- seekz_skipn, <- seekz_add by (destruct (f_is64 f); lia).
      f_equal. lia. }
    destruct (decode_arr_consumes _ _ _ _ _ _ Ech) as [Hlch [_ Hcons]].
    apply (gnu_walk_end f cp so N chw M) with (k := Z.to_nat (N - 1 - M)).
    + intros i Hi. destruct (decode_arr_nth _ _ _ _ _ _ (Z.to_nat i) Ech ltac:(lia)) as [Htk Hnth].
      exists (firstn 4 (skipn (Z.to_nat i * 4) rest)), (skipn 4 (skipn (Z.to_nat i * 4) rest)).
      assert (Hsk : seekz (f_img f) (cp + i * 4) = skipn (Z.to_nat i * 4) rest).
      { rewrite Hrest', seekz_add, (seekz_skipn (seekz _ _)) by (unfold cp; destruct (f_is64 f); lia).
        f_equal. lia. }
      rewrite Hsk. split; [exact Htk|]. unfold chw. symmetry. exact Hnth.
    + exact Hlast.
    + intros i Hi Ho.
      assert (Hin : In i (map Z.of_nat (seq 0 (Z.to_nat (N - so - 1))))).
      { apply in_map_iff. exists (Z.to_nat i). split; [lia|]. apply in_seq. lia. }
      specialize (C7 i Hin). unfold chw in Ho. rewrite Ho in C7. cbn [negb orb] in C7.
      apply existsb_exists in C7. destruct C7 as [x [Hx Hxe]].
      apply filter_In in Hx. destruct Hx as [Hx _]. pose proof (list_max_ge bk x Hx). fold M in H. lia.
    + lia.
    + lia.
    + lia.
    + assert (Hr : (length rest <= length (f_img f))%nat)
        by (rewrite Hrest', seekz_skipn, skipn_length; lia).
      lia.
Qed.
