(* Proofs/C15Proofs.v — lemmas for property C15 (symbol versions).
   Structure:
   1. placement facts: [placed]/[str_at] give the bytes at an offset of ANY image;
      with the generic layout round trip (FmtProofs) a placed record parses to its fields,
      with the chunked C-string theorem (PrimProofs) a placed string resolves to itself.
   2. the model's walks against a semantic chain ([aux_ok]/[ents_ok]: "parsing at this offset
      gives this record, and the rest of the chain hangs off its displacement"), for any
      struct configuration — plain inductions.
   3. the Spec layout predicates imply the semantic chains (Gen layouts = gABI layouts).
   4. section-level statements through the header table. *)
From PV Require Import Base.Fmt Base.Outcome Base.Prim Base.Enum Gen.ElfLayouts
     Spec.ElfGabi Spec.PrimSpec Spec.C15Versions Model.C15GnuVersions
     Proofs.FmtProofs Proofs.PrimProofs Proofs.ElfLayoutFacts.
From Coq Require Import ZifyBool.
Ltac Zify.zify_post_hook ::= Z.to_euclidean_division_equations.
Open Scope Z_scope.
Open Scope list_scope.

(* ====================== 1. placement ====================== *)
Lemma bytes_eqb_eq : forall a b, bytes_eqb a b = true -> a = b.
Proof.
  induction a as [|x a IH]; intros [|y b] H; cbn [bytes_eqb] in H; try discriminate; [reflexivity|].
  apply andb_prop in H. destruct H as [Hx Hr]. apply Z.eqb_eq in Hx. subst y.
  rewrite (IH b Hr). reflexivity.
Qed.

Lemma bytes_eqb_refl : forall a, bytes_eqb a a = true.
Proof. induction a as [|x a IH]; cbn [bytes_eqb]; [reflexivity|]. rewrite Z.eqb_refl, IH. reflexivity. Qed.

Lemma from_off_eq : forall img off, from_off img off = skipn (Z.to_nat off) img.
Proof.
  induction img as [|x r IH]; intros off; cbn [from_off].
  - destruct (off <=? 0); rewrite skipn_nil; reflexivity.
  - destruct (Z.leb_spec off 0) as [H|H].
    + replace (Z.to_nat off) with 0%nat by lia. reflexivity.
    + replace (Z.to_nat off) with (S (Z.to_nat (off - 1))) by lia. cbn [skipn]. apply IH.
Qed.

Lemma placed_skipn img off bs :
  placed img off bs = true -> 0 <= off /\ exists tail, skipn (Z.to_nat off) img = bs ++ tail.
Proof.
  unfold placed. rewrite from_off_eq. intros H. apply andb_prop in H. destruct H as [H0 H1].
  apply bytes_eqb_eq in H1. split; [lia|].
  exists (skipn (List.length bs) (skipn (Z.to_nat off) img)).
  pose proof (firstn_skipn (List.length bs) (skipn (Z.to_nat off) img)) as E.
  rewrite H1 in E. symmetry. exact E.
Qed.

(* the converse: a record sitting between any prefix and any tail is placed *)
Lemma placed_app pre bs tail : placed (pre ++ bs ++ tail) (zlen pre) bs = true.
Proof.
  unfold placed. rewrite from_off_eq. unfold zlen. rewrite Nat2Z.id.
  rewrite skipn_app, skipn_all, Nat.sub_diag. cbn [skipn app].
  rewrite firstn_app, firstn_all, Nat.sub_diag. cbn [firstn]. rewrite app_nil_r.
  rewrite bytes_eqb_refl. lia.
Qed.

Lemma seek_eq : forall img off, seek img off = skipn (Z.to_nat off) img.
Proof.
  induction img as [|x r IH]; intros off; cbn [seek].
  - destruct (off <=? 0); rewrite skipn_nil; reflexivity.
  - destruct (Z.leb_spec off 0) as [H|H].
    + replace (Z.to_nat off) with 0%nat by lia. reflexivity.
    + replace (Z.to_nat off) with (S (Z.to_nat (off - 1))) by lia. cbn [skipn]. apply IH.
Qed.

Lemma str_at_get_string img st o s :
  str_at img (sh_offset st + o) s = true -> get_string img st o = s.
Proof.
  unfold str_at, get_string. intros H. apply andb_prop in H. destruct H as [Hn Hp].
  apply placed_skipn in Hp. destruct Hp as [H0 [tail Ht]].
  rewrite <- app_assoc in Ht. cbn [app] in Ht.
  cbv zeta. rewrite seek_eq, Ht.
  rewrite cstr_chunks_valid; [reflexivity|exact Hn|].
  rewrite !app_length. cbn [List.length]. unfold CHUNK. lia.
Qed.

(* ---- Enum bindings that are not strict never fail ---- *)
Definition nonstrict (b : binds) : bool := forallb (fun x => negb (snd x)) b.

Lemma bind_lookup_nonstrict : forall b, nonstrict b = true ->
  forall f id s, bind_lookup b f = Some (id, s) -> s = false.
Proof.
  induction b as [|[[f0 id0] s0] r IH]; intros Hb f id s H; cbn [bind_lookup] in H; [discriminate|].
  unfold nonstrict in Hb. cbn [forallb snd] in Hb. apply andb_prop in Hb. destruct Hb as [H0 Hr].
  destruct (f0 =? f)%string.
  - inversion H; subst. destruct s; [discriminate|reflexivity].
  - eapply IH; eauto.
Qed.

Lemma enum_field_nonstrict b f v : nonstrict b = true -> enum_field b f v <> MappingError.
Proof.
  intros Hb. unfold enum_field.
  destruct (bind_lookup b f) as [[id s]|] eqn:E; [|discriminate].
  rewrite (bind_lookup_nonstrict b Hb _ _ _ E).
  destruct (table_lookup gen_enum_tables id) as [t|]; [|discriminate].
  destruct (dict_get t v); discriminate.
Qed.

Lemma enums_ok_nonstrict b r : nonstrict b = true -> enums_ok b r = true.
Proof.
  intros Hb. unfold enums_ok. apply forallb_forall. intros x _.
  destruct (enum_field b (fst (fst x)) (rec_z r (fst (fst x)))) eqn:E; auto.
  exfalso. eapply enum_field_nonstrict; eauto.
Qed.

(* a fitting record placed anywhere in any image parses to exactly its fields *)
Lemma struct_parse_placed L b vals img off :
  nonstrict b = true -> fits_layout L vals = true -> placed img off (encode_layout L vals) = true ->
  struct_parse_at (L, b) img off = Ok (annot_layout L vals).
Proof.
  intros Hb Hf Hp. apply placed_skipn in Hp. destruct Hp as [_ [tail Ht]].
  unfold struct_parse_at. cbn [fst snd]. rewrite seek_eq, Ht.
  rewrite decode_encode_layout by exact Hf.
  rewrite enums_ok_nonstrict by exact Hb. reflexivity.
Qed.

Lemma to_nat_zlen {A} (l : list A) : Z.to_nat (zlen l) = List.length l.
Proof. unfold zlen. apply Nat2Z.id. Qed.
Lemma map_length_z {A B} (f : A -> B) (l : list A) : zlen (map f l) = zlen l.
Proof. unfold zlen. rewrite map_length. reflexivity. Qed.

(* ====================== 2. the walks over a semantic chain ====================== *)
Lemma link_ok_map {A B} (f : A -> B) z (r : list A) : link_ok z r = true -> map f r <> [] -> z <> 0.
Proof. destruct r as [|x r]; cbn [link_ok map]; intros H Hn; [congruence|lia]. Qed.

Lemma ends_with_zero_map {A B} (f : A -> B) (na : A -> Z) (nb : B -> Z) :
  (forall x, nb (f x) = na x) -> forall l, ends_with_zero nb (map f l) = ends_with_zero na l.
Proof.
  intros Hf. induction l as [|x r IH]; [reflexivity|].
  destruct r as [|y r']; cbn [map ends_with_zero]; [rewrite Hf; reflexivity|exact IH].
Qed.

Section generic.
Variable c : vcfg.
Variable img : list Z.
Variable st : shdr.

(* a record with a successor carries a non-zero next link (a zero link ends the walk) *)
Fixpoint aux_ok (off : Z) (auxs : list aux_view) : Prop :=
  match auxs with
  | [] => True
  | a :: rest =>
      struct_parse_at (version_auxiliaries_struct c) img off = Ok (fst a)
      /\ get_string img st (rec_z (fst a) (field_name c "name" true)) = snd a
      /\ (rest <> [] -> rec_z (fst a) (field_name c "next" true) <> 0)
      /\ aux_ok (off + rec_z (fst a) (field_name c "next" true)) rest
  end.

Fixpoint ents_ok (ff : option string) (off : Z) (vs : list ver_view) : Prop :=
  match vs with
  | [] => True
  | v :: rest =>
      let r := fst (fst v) in
      struct_parse_at (version_struct c) img off = Ok r
      /\ rec_z r (field_name c "cnt" false) = zlen (snd v)
      /\ 0 < zlen (snd v)
      /\ snd (fst v) = option_map (fun f => get_string img st (rec_z r f)) ff
      /\ aux_ok (off + rec_z r (field_name c "aux" false)) (snd v)
      /\ (rest <> [] -> rec_z r (field_name c "next" false) <> 0)
      /\ ents_ok ff (off + rec_z r (field_name c "next" false)) rest
  end.

Definition ver_next (v : ver_view) : Z := rec_z (fst (fst v)) (field_name c "next" false).

Lemma nonempty_cons {A} (x : A) l : x :: l <> [].
Proof. discriminate. Qed.

Lemma iter_aux_ok : forall auxs off, aux_ok off auxs ->
  iter_version_auxiliaries c img st (List.length auxs) off = Ok auxs.
Proof.
  induction auxs as [|[r nm] rest IH]; intros off H; [reflexivity|].
  cbn [aux_ok fst snd] in H. destruct H as (Hp & Hn & Hz & Hr).
  cbn [List.length iter_version_auxiliaries]. rewrite Hp. cbn [bind]. rewrite Hn.
  destruct (Z.eqb_spec (rec_z r (field_name c "next" true)) 0) as [E|E].
  - destruct rest as [|x rest']; [reflexivity|]. exfalso. exact (Hz (nonempty_cons _ _) E).
  - rewrite (IH _ Hr). reflexivity.
Qed.

Lemma iter_versions_ok ff : forall vs off, ents_ok ff off vs ->
  iter_versions_from c ff img st (List.length vs) off = Ok vs.
Proof.
  induction vs as [|[[r nm] auxs] rest IH]; intros off H; [reflexivity|].
  cbn [ents_ok fst snd] in H. destruct H as (Hp & Hc & Hpos & Hn & Ha & Hz & Hr).
  cbn [List.length iter_versions_from]. rewrite Hp. cbn [bind]. rewrite Hc.
  replace (zlen auxs >? 0) with true by lia. cbn [negb].
  rewrite to_nat_zlen, (iter_aux_ok _ _ Ha). cbn [bind]. rewrite <- Hn.
  destruct (Z.eqb_spec (rec_z r (field_name c "next" false)) 0) as [E|E].
  - destruct rest as [|x rest']; [reflexivity|]. exfalso. exact (Hz (nonempty_cons _ _) E).
  - rewrite (IH _ Hr). reflexivity.
Qed.

(* the behaviour commit eedb89f introduced: the chain's last record carries a zero link and the
   count claims MORE records; the walk ends at the zero link *)
Lemma iter_versions_ended ff : forall vs off extra, ents_ok ff off vs ->
  ends_with_zero ver_next vs = true ->
  iter_versions_from c ff img st (List.length vs + extra) off = Ok vs.
Proof.
  induction vs as [|[[r nm] auxs] rest IH]; intros off extra H Hend; [discriminate|].
  cbn [ents_ok fst snd] in H. destruct H as (Hp & Hc & Hpos & Hn & Ha & Hz & Hr).
  cbn [List.length Nat.add iter_versions_from]. rewrite Hp. cbn [bind]. rewrite Hc.
  replace (zlen auxs >? 0) with true by lia. cbn [negb].
  rewrite to_nat_zlen, (iter_aux_ok _ _ Ha). cbn [bind]. rewrite <- Hn.
  destruct (Z.eqb_spec (rec_z r (field_name c "next" false)) 0) as [E|E].
  - destruct rest as [|x rest']; [reflexivity|]. exfalso. exact (Hz (nonempty_cons _ _) E).
  - destruct rest as [|x rest'].
    + exfalso. cbn [ends_with_zero] in Hend. unfold ver_next in Hend. cbn [fst] in Hend. lia.
    + cbn [ends_with_zero] in Hend. rewrite (IH _ _ Hr Hend). reflexivity.
Qed.

Lemma iter_aux_ended : forall auxs off extra, aux_ok off auxs ->
  ends_with_zero (fun a : aux_view => rec_z (fst a) (field_name c "next" true)) auxs = true ->
  iter_version_auxiliaries c img st (List.length auxs + extra) off = Ok auxs.
Proof.
  induction auxs as [|[r nm] rest IH]; intros off extra H Hend; [discriminate|].
  cbn [aux_ok fst snd] in H. destruct H as (Hp & Hn & Hz & Hr).
  cbn [List.length Nat.add iter_version_auxiliaries]. rewrite Hp. cbn [bind]. rewrite Hn.
  destruct (Z.eqb_spec (rec_z r (field_name c "next" true)) 0) as [E|E].
  - destruct rest as [|x rest']; [reflexivity|]. exfalso. exact (Hz (nonempty_cons _ _) E).
  - destruct rest as [|x rest'].
    + exfalso. cbn [ends_with_zero fst] in Hend. lia.
    + cbn [ends_with_zero] in Hend. rewrite (IH _ _ Hr Hend). reflexivity.
Qed.

(* GNUVerDefSection.get_version *)
Lemma verdef_get_version_ok idx : forall vs off, ents_ok None off vs ->
  verdef_get_version_from c img st (List.length vs) off idx
  = Ok (find (fun v => rec_z (fst (fst v)) "vd_ndx" =? idx) vs).
Proof.
  induction vs as [|[[r nm] auxs] rest IH]; intros off H; [reflexivity|].
  cbn [ents_ok fst snd option_map] in H. destruct H as (Hp & Hc & Hpos & Hn & Ha & Hz & Hr).
  cbn [List.length verdef_get_version_from find fst]. rewrite Hp. cbn [bind]. rewrite Hc.
  replace (zlen auxs >? 0) with true by lia. cbn [negb].
  destruct (rec_z r "vd_ndx" =? idx).
  - rewrite to_nat_zlen, (iter_aux_ok _ _ Ha). cbn [bind]. rewrite Hn. reflexivity.
  - destruct (Z.eqb_spec (rec_z r (field_name c "next" false)) 0) as [E|E].
    + destruct rest as [|x rest']; [reflexivity|]. exfalso. exact (Hz (nonempty_cons _ _) E).
    + apply IH. exact Hr.
Qed.

(* inner loop of GNUVerNeedSection.get_version *)
Lemma find_vernaux_ok idx : forall auxs off, aux_ok off auxs ->
  find_vernaux c img st (List.length auxs) off idx
  = Ok (find (fun a => rec_z (fst a) "vna_other" =? idx) auxs).
Proof.
  induction auxs as [|[r nm] rest IH]; intros off H; [reflexivity|].
  cbn [aux_ok fst snd] in H. destruct H as (Hp & Hn & Hz & Hr).
  cbn [List.length find_vernaux find fst]. rewrite Hp. cbn [bind].
  destruct (rec_z r "vna_other" =? idx).
  - rewrite Hn. reflexivity.
  - destruct (Z.eqb_spec (rec_z r (field_name c "next" true)) 0) as [E|E].
    + destruct rest as [|x rest']; [reflexivity|]. exfalso. exact (Hz (nonempty_cons _ _) E).
    + apply IH. exact Hr.
Qed.

Fixpoint need_find (idx : Z) (vs : list ver_view) : option (record * list Z * aux_view) :=
  match vs with
  | [] => None
  | v :: rest =>
      match find (fun a => rec_z (fst a) "vna_other" =? idx) (snd v) with
      | Some a => Some (fst (fst v), match snd (fst v) with Some nm => nm | None => [] end, a)
      | None => need_find idx rest
      end
  end.

Lemma verneed_get_version_ok idx : forall vs off, ents_ok (Some "vn_file"%string) off vs ->
  verneed_get_version_from c img st (List.length vs) off idx = Ok (need_find idx vs).
Proof.
  induction vs as [|[[r nm] auxs] rest IH]; intros off H; [reflexivity|].
  cbn [ents_ok fst snd option_map] in H. destruct H as (Hp & Hc & Hpos & Hn & Ha & Hz & Hr).
  cbn [List.length verneed_get_version_from need_find fst snd]. rewrite Hp. cbn [bind]. rewrite Hc.
  replace (zlen auxs >? 0) with true by lia. cbn [negb].
  rewrite to_nat_zlen, (find_vernaux_ok idx _ _ Ha). cbn [bind].
  destruct (find (fun a => rec_z (fst a) "vna_other" =? idx) auxs) as [a|].
  - rewrite Hn. reflexivity.
  - destruct (Z.eqb_spec (rec_z r (field_name c "next" false)) 0) as [E|E].
    + destruct rest as [|x rest']; [reflexivity|]. exfalso. exact (Hz (nonempty_cons _ _) E).
    + apply IH. exact Hr.
Qed.

(* has_indexes *)
Definition aux_has_index (a : aux_view) : bool := negb (rec_z (fst a) "vna_other" =? 0).

Lemma has_indexes_inner_ok : forall auxs off, aux_ok off auxs ->
  has_indexes_inner c img (List.length auxs) off = Ok (existsb aux_has_index auxs).
Proof.
  induction auxs as [|[r nm] rest IH]; intros off H; [reflexivity|].
  cbn [aux_ok fst snd] in H. destruct H as (Hp & Hn & Hz & Hr).
  cbn [List.length has_indexes_inner existsb]. rewrite Hp. cbn [bind].
  unfold aux_has_index at 1. cbn [fst].
  destruct (negb (rec_z r "vna_other" =? 0)); [reflexivity|].
  cbn [orb].
  destruct (Z.eqb_spec (rec_z r (field_name c "next" true)) 0) as [E|E].
  - destruct rest as [|x rest']; [reflexivity|]. exfalso. exact (Hz (nonempty_cons _ _) E).
  - apply IH. exact Hr.
Qed.

Lemma has_indexes_outer_ok ff : forall vs off flag, ents_ok ff off vs ->
  has_indexes_outer c img (List.length vs) off flag
  = (None, flag || existsb (fun v => existsb aux_has_index (snd v)) vs).
Proof.
  induction vs as [|[[r nm] auxs] rest IH]; intros off flag H.
  - cbn [List.length has_indexes_outer existsb]. rewrite orb_false_r. reflexivity.
  - cbn [ents_ok fst snd] in H. destruct H as (Hp & Hc & Hpos & Hn & Ha & Hz & Hr).
    cbn [List.length has_indexes_outer existsb snd]. rewrite Hp, Hc.
    replace (zlen auxs >? 0) with true by lia. cbn [negb].
    rewrite to_nat_zlen, (has_indexes_inner_ok _ _ Ha).
    destruct (Z.eqb_spec (rec_z r (field_name c "next" false)) 0) as [E|E].
    + destruct rest as [|x rest']; [|exfalso; exact (Hz (nonempty_cons _ _) E)].
      cbn [existsb]. rewrite orb_false_r. reflexivity.
    + rewrite (IH _ _ Hr). rewrite orb_assoc. reflexivity.
Qed.
End generic.

(* ====================== 3. the layout predicates give semantic chains ====================== *)
Lemma parse_verdaux le is64 img off a :
  verdaux_fits le a = true -> placed img off (enc_verdaux le a) = true ->
  struct_parse_at (version_auxiliaries_struct (verdef_cfg le is64)) img off = Ok (fst (verdaux_view a)).
Proof.
  intros Hf Hp. unfold verdef_cfg. cbn [version_auxiliaries_struct]. rewrite gen_Elf_Verdaux_gabi.
  change (fst (verdaux_view a)) with (annot_layout (spec_Elf_Verdaux le) (verdaux_vals a)).
  apply struct_parse_placed; [destruct is64; reflexivity|exact Hf|exact Hp].
Qed.

Lemma parse_verdef le is64 img off d :
  verdef_fits le d = true -> placed img off (enc_verdef le d) = true ->
  struct_parse_at (version_struct (verdef_cfg le is64)) img off = Ok (verdef_fields d).
Proof.
  intros Hf Hp. unfold verdef_cfg. cbn [version_struct]. rewrite gen_Elf_Verdef_gabi.
  change (verdef_fields d) with (annot_layout (spec_Elf_Verdef le) (verdef_vals d)).
  apply struct_parse_placed; [destruct is64; reflexivity|exact Hf|exact Hp].
Qed.

Lemma parse_vernaux le is64 img off a :
  vernaux_fits le a = true -> placed img off (enc_vernaux le a) = true ->
  struct_parse_at (version_auxiliaries_struct (verneed_cfg le is64)) img off = Ok (fst (vernaux_view a)).
Proof.
  intros Hf Hp. unfold verneed_cfg. cbn [version_auxiliaries_struct]. rewrite gen_Elf_Vernaux_gabi.
  change (fst (vernaux_view a)) with (annot_layout (spec_Elf_Vernaux le) (vernaux_vals a)).
  apply struct_parse_placed; [destruct is64; reflexivity|exact Hf|exact Hp].
Qed.

Lemma parse_verneed le is64 img off d :
  verneed_fits le d = true -> placed img off (enc_verneed le d) = true ->
  struct_parse_at (version_struct (verneed_cfg le is64)) img off = Ok (verneed_fields d).
Proof.
  intros Hf Hp. unfold verneed_cfg. cbn [version_struct]. rewrite gen_Elf_Verneed_gabi.
  change (verneed_fields d) with (annot_layout (spec_Elf_Verneed le) (verneed_vals d)).
  apply struct_parse_placed; [destruct is64; reflexivity|exact Hf|exact Hp].
Qed.

Lemma verdaux_chain_ok le is64 img st : forall auxs off,
  verdaux_chain le img (sh_offset st) off auxs = true ->
  aux_ok (verdef_cfg le is64) img st off (map verdaux_view auxs).
Proof.
  induction auxs as [|a r IH]; intros off H; cbn [map aux_ok]; [exact I|].
  cbn [verdaux_chain] in H. rewrite !andb_true_iff in H. destruct H as [[[[Hf Hp] Hs] Hl] Hr].
  change (rec_z (fst (verdaux_view a)) (field_name (verdef_cfg le is64) "name" true)) with (vda_name a).
  change (rec_z (fst (verdaux_view a)) (field_name (verdef_cfg le is64) "next" true)) with (vda_next a).
  split; [apply parse_verdaux; assumption|]. split; [apply str_at_get_string; exact Hs|].
  split; [exact (link_ok_map _ _ _ Hl)|apply IH; exact Hr].
Qed.

Lemma verdef_chain_ok le is64 img st : forall defs off,
  verdef_chain le img (sh_offset st) off defs = true ->
  ents_ok (verdef_cfg le is64) img st None off (map verdef_view defs).
Proof.
  induction defs as [|d r IH]; intros off H; cbn [map ents_ok]; [exact I|].
  cbn [verdef_chain] in H. rewrite !andb_true_iff in H. destruct H as [[[[[Hf Hc] Hp] Ha] Hl] Hr].
  unfold verdef_view at 1 2 3 4 5 6 7. cbn [fst snd option_map]. rewrite map_length_z.
  change (rec_z (verdef_fields d) (field_name (verdef_cfg le is64) "cnt" false)) with (zlen (vd_auxs d)).
  change (rec_z (verdef_fields d) (field_name (verdef_cfg le is64) "aux" false)) with (vd_aux d).
  change (rec_z (verdef_fields d) (field_name (verdef_cfg le is64) "next" false)) with (vd_next d).
  split; [apply parse_verdef; assumption|]. split; [reflexivity|]. split; [lia|]. split; [reflexivity|].
  split; [apply verdaux_chain_ok; exact Ha|].
  split; [exact (link_ok_map _ _ _ Hl)|apply IH; exact Hr].
Qed.

Lemma vernaux_chain_ok le is64 img st : forall auxs off,
  vernaux_chain le img (sh_offset st) off auxs = true ->
  aux_ok (verneed_cfg le is64) img st off (map vernaux_view auxs).
Proof.
  induction auxs as [|a r IH]; intros off H; cbn [map aux_ok]; [exact I|].
  cbn [vernaux_chain] in H. rewrite !andb_true_iff in H. destruct H as [[[[Hf Hp] Hs] Hl] Hr].
  change (rec_z (fst (vernaux_view a)) (field_name (verneed_cfg le is64) "name" true)) with (vna_name a).
  change (rec_z (fst (vernaux_view a)) (field_name (verneed_cfg le is64) "next" true)) with (vna_next a).
  split; [apply parse_vernaux; assumption|]. split; [apply str_at_get_string; exact Hs|].
  split; [exact (link_ok_map _ _ _ Hl)|apply IH; exact Hr].
Qed.

Lemma verneed_chain_ok le is64 img st : forall needs off,
  verneed_chain le img (sh_offset st) off needs = true ->
  ents_ok (verneed_cfg le is64) img st (Some "vn_file"%string) off (map verneed_view needs).
Proof.
  induction needs as [|d r IH]; intros off H; cbn [map ents_ok]; [exact I|].
  cbn [verneed_chain] in H. rewrite !andb_true_iff in H. destruct H as [[[[[[Hf Hc] Hp] Hs] Ha] Hl] Hr].
  unfold verneed_view at 1 2 3 4 5 6 7 8. cbn [fst snd option_map]. rewrite map_length_z.
  change (rec_z (verneed_fields d) (field_name (verneed_cfg le is64) "cnt" false)) with (zlen (vn_auxs d)).
  change (rec_z (verneed_fields d) (field_name (verneed_cfg le is64) "aux" false)) with (vn_aux d).
  change (rec_z (verneed_fields d) (field_name (verneed_cfg le is64) "next" false)) with (vn_next d).
  change (rec_z (verneed_fields d) "vn_file") with (vn_file d).
  split; [apply parse_verneed; assumption|]. split; [reflexivity|]. split; [lia|].
  split; [f_equal; symmetry; apply str_at_get_string; exact Hs|].
  split; [apply vernaux_chain_ok; exact Ha|].
  split; [exact (link_ok_map _ _ _ Hl)|apply IH; exact Hr].
Qed.

(* ---- chain-level statements (no header table involved) ---- *)
Theorem verdef_chain_exact le is64 img h st defs :
  sh_info h = zlen defs ->
  verdef_chain le img (sh_offset st) (sh_offset h) defs = true ->
  verdef_iter_versions le is64 img h st = Ok (map verdef_view defs).
Proof.
  intros Hn Hc. unfold verdef_iter_versions, iter_versions, num_versions. rewrite Hn, to_nat_zlen.
  rewrite <- (map_length verdef_view). apply iter_versions_ok. apply verdef_chain_ok. exact Hc.
Qed.

Theorem verneed_chain_exact le is64 img h st needs :
  sh_info h = zlen needs ->
  verneed_chain le img (sh_offset st) (sh_offset h) needs = true ->
  verneed_iter_versions le is64 img h st = Ok (map verneed_view needs).
Proof.
  intros Hn Hc. unfold verneed_iter_versions, iter_versions, num_versions. rewrite Hn, to_nat_zlen.
  rewrite <- (map_length verneed_view). apply iter_versions_ok. apply verneed_chain_ok. exact Hc.
Qed.

(* the count claims more entries than the chain has, the chain's last entry says "no further entry" *)
Theorem verdef_chain_ended le is64 img h st defs :
  zlen defs <= sh_info h -> ends_with_zero vd_next defs = true ->
  verdef_chain le img (sh_offset st) (sh_offset h) defs = true ->
  verdef_iter_versions le is64 img h st = Ok (map verdef_view defs).
Proof.
  intros Hn He Hc. unfold verdef_iter_versions, iter_versions, num_versions.
  replace (Z.to_nat (sh_info h))
    with (List.length (map verdef_view defs) + (Z.to_nat (sh_info h) - List.length defs))%nat
    by (rewrite map_length; unfold zlen in Hn; lia).
  apply iter_versions_ended; [apply verdef_chain_ok; exact Hc|].
  rewrite (ends_with_zero_map verdef_view vd_next); [exact He|reflexivity].
Qed.

Theorem verneed_chain_ended le is64 img h st needs :
  zlen needs <= sh_info h -> ends_with_zero vn_next needs = true ->
  verneed_chain le img (sh_offset st) (sh_offset h) needs = true ->
  verneed_iter_versions le is64 img h st = Ok (map verneed_view needs).
Proof.
  intros Hn He Hc. unfold verneed_iter_versions, iter_versions, num_versions.
  replace (Z.to_nat (sh_info h))
    with (List.length (map verneed_view needs) + (Z.to_nat (sh_info h) - List.length needs))%nat
    by (rewrite map_length; unfold zlen in Hn; lia).
  apply iter_versions_ended; [apply verneed_chain_ok; exact Hc|].
  rewrite (ends_with_zero_map verneed_view vn_next); [exact He|reflexivity].
Qed.

(* the same for an auxiliary chain: the entry's count claims more auxiliaries than the chain has, the
   chain's last auxiliary says "no further auxiliary" *)
Theorem verdaux_chain_ended le is64 img st auxs off extra :
  ends_with_zero vda_next auxs = true ->
  verdaux_chain le img (sh_offset st) off auxs = true ->
  iter_version_auxiliaries (verdef_cfg le is64) img st (List.length auxs + extra) off
  = Ok (map verdaux_view auxs).
Proof.
  intros He Hc. rewrite <- (map_length verdaux_view).
  apply iter_aux_ended; [apply verdaux_chain_ok; exact Hc|].
  rewrite (ends_with_zero_map verdaux_view vda_next); [exact He|reflexivity].
Qed.

Theorem vernaux_chain_ended le is64 img st auxs off extra :
  ends_with_zero vna_next auxs = true ->
  vernaux_chain le img (sh_offset st) off auxs = true ->
  iter_version_auxiliaries (verneed_cfg le is64) img st (List.length auxs + extra) off
  = Ok (map vernaux_view auxs).
Proof.
  intros He Hc. rewrite <- (map_length vernaux_view).
  apply iter_aux_ended; [apply vernaux_chain_ok; exact Hc|].
  rewrite (ends_with_zero_map vernaux_view vna_next); [exact He|reflexivity].
Qed.

Lemma find_verdef_view idx : forall defs,
  find (fun v : ver_view => rec_z (fst (fst v)) "vd_ndx" =? idx) (map verdef_view defs)
  = option_map verdef_view (verdef_find idx defs).
Proof.
  unfold verdef_find. induction defs as [|d r IH]; [reflexivity|].
  cbn [map find].
  change (rec_z (fst (fst (verdef_view d))) "vd_ndx") with (vd_ndx d).
  destruct (vd_ndx d =? idx); [reflexivity|exact IH].
Qed.

Theorem verdef_get_version_chain le is64 img h st defs idx :
  sh_info h = zlen defs ->
  verdef_chain le img (sh_offset st) (sh_offset h) defs = true ->
  verdef_get_version le is64 img h st idx = Ok (option_map verdef_view (verdef_find idx defs)).
Proof.
  intros Hn Hc. unfold verdef_get_version, num_versions. rewrite Hn, to_nat_zlen.
  rewrite <- (map_length verdef_view). rewrite <- find_verdef_view.
  apply verdef_get_version_ok. apply verdef_chain_ok. exact Hc.
Qed.

Lemma find_vernaux_view idx : forall auxs,
  find (fun a : aux_view => rec_z (fst a) "vna_other" =? idx) (map vernaux_view auxs)
  = option_map vernaux_view (find (fun a => vna_other a =? idx) auxs).
Proof.
  induction auxs as [|a r IH]; [reflexivity|]. cbn [map find].
  change (rec_z (fst (vernaux_view a)) "vna_other") with (vna_other a).
  destruct (vna_other a =? idx); [reflexivity|exact IH].
Qed.

Lemma need_find_view idx : forall needs,
  need_find idx (map verneed_view needs) = option_map verneed_hit_view (verneed_find idx needs).
Proof.
  induction needs as [|d r IH]; [reflexivity|]. cbn [map need_find verneed_find].
  unfold verneed_view at 1 2 3. cbn [fst snd]. rewrite find_vernaux_view.
  destruct (find (fun a => vna_other a =? idx) (vn_auxs d)) as [a|]; [reflexivity|exact IH].
Qed.

Theorem verneed_get_version_chain le is64 img h st needs idx :
  sh_info h = zlen needs ->
  verneed_chain le img (sh_offset st) (sh_offset h) needs = true ->
  verneed_get_version le is64 img h st idx = Ok (option_map verneed_hit_view (verneed_find idx needs)).
Proof.
  intros Hn Hc. unfold verneed_get_version, num_versions. rewrite Hn, to_nat_zlen.
  rewrite <- (map_length verneed_view). rewrite <- need_find_view.
  apply verneed_get_version_ok. apply verneed_chain_ok. exact Hc.
Qed.

Lemma has_index_view : forall needs,
  existsb (fun v : ver_view => existsb aux_has_index (snd v)) (map verneed_view needs)
  = verneed_has_indexes needs.
Proof.
  unfold verneed_has_indexes. induction needs as [|d r IH]; [reflexivity|].
  cbn [map existsb]. rewrite IH. f_equal.
  unfold verneed_view. cbn [snd]. generalize (vn_auxs d). intros l.
  induction l as [|a l IHl]; [reflexivity|]. cbn [map existsb]. rewrite IHl. reflexivity.
Qed.

(* first call computes the flag, any later call returns the memoised flag *)
Theorem has_indexes_chain le is64 img h st needs :
  sh_info h = zlen needs ->
  verneed_chain le img (sh_offset st) (sh_offset h) needs = true ->
  has_indexes le is64 img h None = (Ok (verneed_has_indexes needs), Some (verneed_has_indexes needs))
  /\ has_indexes le is64 img h (Some (verneed_has_indexes needs))
     = (Ok (verneed_has_indexes needs), Some (verneed_has_indexes needs)).
Proof.
  intros Hn Hc. split; [|reflexivity].
  unfold has_indexes, num_versions. rewrite Hn, to_nat_zlen.
  rewrite <- (map_length verneed_view).
  rewrite (has_indexes_outer_ok _ _ st _ _ _ _ (verneed_chain_ok le is64 img st _ _ Hc)).
  cbn [orb]. rewrite has_index_view. reflexivity.
Qed.

(* ====================== the version-symbol table ====================== *)
(* the Enum table bound to Elf_Versym.ndx in the live code is the standard one, not strict *)
Lemma gen_versym_enum_table is64 :
  exists id, bind_lookup (snd (versym_struct true is64)) "ndx" = Some (id, false)
             /\ table_lookup gen_enum_tables id = Some spec_versym_names.
Proof. destruct is64; eexists; split; reflexivity. Qed.

Lemma enum_field_ndx le is64 x : enum_field (snd (versym_struct le is64)) "ndx" x = versym_report x.
Proof. destruct is64; reflexivity. Qed.

Lemma versym_value_range v : versym_fits v = true -> 0 <= versym_value v < 65536.
Proof. unfold versym_fits, versym_value. intros H. destruct (vs_hidden v); lia. Qed.

(* "index with hidden bit": both parts are recoverable from the half-word *)
Lemma versym_value_split v : versym_fits v = true ->
  versym_value v mod 32768 = vs_index v /\ (32768 <=? versym_value v) = vs_hidden v.
Proof. unfold versym_fits, versym_value. intros H. destruct (vs_hidden v); split; lia. Qed.

Lemma parse_versym le is64 img off v :
  versym_fits v = true -> placed img off (enc_versym le v) = true ->
  struct_parse_at (versym_struct le is64) img off = Ok [("ndx"%string, VZ (versym_value v))].
Proof.
  intros Hf Hp. unfold versym_struct. rewrite gen_Elf_Versym_gabi.
  change [("ndx"%string, VZ (versym_value v))]
    with (annot_layout (spec_Elf_Versym le) [VZ (versym_value v)]).
  apply struct_parse_placed; [destruct is64; reflexivity| |exact Hp].
  pose proof (versym_value_range v Hf) as Hr.
  unfold fits_layout, spec_Elf_Versym. cbn [fits_fields nvals firstn skipn List.length Nat.eqb fits_kind andb].
  unfold in_urange. change (2 ^ (8 * Z.of_nat 2)) with 65536. lia.
Qed.

Lemma parse_dynsym le is64 img off s :
  dynsym_fits le is64 s = true -> placed img off (enc_dynsym le is64 s) = true ->
  exists r, struct_parse_at (sym_struct le is64) img off = Ok r /\ rec_z r "st_name" = st_name s.
Proof.
  intros Hf Hp. exists (annot_layout (spec_Elf_Sym le is64) (dynsym_vals is64 s)). split.
  - unfold sym_struct. rewrite gen_Elf_Sym_gabi.
    apply struct_parse_placed; [destruct is64; reflexivity|exact Hf|exact Hp].
  - destruct is64; reflexivity.
Qed.

Lemma versym_iter_ok le is64 img h sy st : forall entries i,
  versym_table le is64 img (sh_offset h) (sh_entsize h) (sh_offset sy) (sh_entsize sy) (sh_offset st)
               i entries = true ->
  versym_iter_from le is64 img h (sy, st) (List.length entries) i = Ok (map versym_view entries).
Proof.
  induction entries as [|[v s] r IH]; intros i H; [reflexivity|].
  cbn [versym_table] in H. rewrite !andb_true_iff in H.
  destruct H as [[[[[Hfv Hfs] Hpv] Hps] Hstr] Hr].
  cbn [List.length versym_iter_from map]. unfold versym_get_symbol, symtab_get_symbol_name. cbn [fst snd].
  rewrite (parse_versym le is64 _ _ _ Hfv Hpv). cbn [bind].
  destruct (parse_dynsym le is64 _ _ _ Hfs Hps) as [rs [Hrs Hname]].
  rewrite Hrs. cbn [bind]. rewrite Hname.
  rewrite (str_at_get_string _ _ _ _ Hstr).
  rewrite (IH _ Hr). cbn [bind].
  rewrite enum_field_ndx. reflexivity.
Qed.

(* ====================== 4. through the header table ====================== *)
Lemma linked_inv shdrs n ty kty h k :
  linked shdrs n ty kty = Some (h, k) ->
  nth_error shdrs n = Some h /\ sh_type h = ty /\ 0 <= sh_link h
  /\ nth_error shdrs (Z.to_nat (sh_link h)) = Some k /\ In (sh_type k) kty.
Proof.
  unfold linked. destruct (nth_error shdrs n) as [h0|] eqn:E1; [|discriminate].
  destruct (negb (sh_type h0 =? ty) || (sh_link h0 <? 0)) eqn:E2; [discriminate|].
  destruct (nth_error shdrs (Z.to_nat (sh_link h0))) as [k0|] eqn:E3; [|discriminate].
  destruct (existsb (Z.eqb (sh_type k0)) kty) eqn:E4; [|discriminate].
  intros H. inversion H; subst h0 k0. apply existsb_exists in E4. destruct E4 as [x [Hin Hx]].
  apply Z.eqb_eq in Hx. subst x. repeat split; auto; lia.
Qed.

Lemma get_section_header_nat shdrs n h :
  nth_error shdrs n = Some h -> get_section_header shdrs (Z.of_nat n) = Ok h.
Proof.
  intros H. unfold get_section_header. destruct (Z.ltb_spec (Z.of_nat n) 0); [lia|].
  rewrite Nat2Z.id, H. reflexivity.
Qed.

Lemma get_section_header_z shdrs z h :
  0 <= z -> nth_error shdrs (Z.to_nat z) = Some h -> get_section_header shdrs z = Ok h.
Proof.
  intros H0 H. unfold get_section_header. destruct (Z.ltb_spec z 0); [lia|]. rewrite H. reflexivity.
Qed.

Lemma type_strtab is64 h : sh_type h = SHT_STRTAB -> sh_type_is is64 h "SHT_STRTAB" = true.
Proof. intros E. unfold sh_type_is. rewrite E. destruct is64; vm_compute; reflexivity. Qed.
Lemma type_verneed is64 h : sh_type h = SHT_GNU_verneed -> sh_type_is is64 h "SHT_GNU_verneed" = true.
Proof. intros E. unfold sh_type_is. rewrite E. destruct is64; vm_compute; reflexivity. Qed.
Lemma type_verdef is64 h : sh_type h = SHT_GNU_verdef ->
  sh_type_is is64 h "SHT_GNU_verneed" = false /\ sh_type_is is64 h "SHT_GNU_verdef" = true.
Proof. intros E. unfold sh_type_is. rewrite E. destruct is64; vm_compute; auto. Qed.
Lemma type_versym is64 h : sh_type h = SHT_GNU_versym ->
  sh_type_is is64 h "SHT_GNU_verneed" = false /\ sh_type_is is64 h "SHT_GNU_verdef" = false
  /\ sh_type_is is64 h "SHT_GNU_versym" = true.
Proof. intros E. unfold sh_type_is. rewrite E. destruct is64; vm_compute; auto. Qed.
Lemma type_symtab is64 h : In (sh_type h) [SHT_SYMTAB; SHT_DYNSYM] ->
  sh_type_is is64 h "SHT_SYMTAB" || sh_type_is is64 h "SHT_DYNSYM" = true.
Proof.
  intros [E|[E|[]]]; unfold sh_type_is; rewrite <- E; destruct is64; vm_compute; reflexivity.
Qed.

Lemma linked_strtab is64 shdrs z k :
  0 <= z -> nth_error shdrs (Z.to_nat z) = Some k -> sh_type k = SHT_STRTAB ->
  get_linked_strtab_section is64 shdrs z = Ok k.
Proof.
  intros H0 Hn Ht. unfold get_linked_strtab_section.
  rewrite (get_section_header_z _ _ _ H0 Hn). cbn [bind]. rewrite (type_strtab is64 k Ht). reflexivity.
Qed.

Lemma get_section_verdef is64 shdrs n h st :
  linked shdrs n SHT_GNU_verdef [SHT_STRTAB] = Some (h, st) ->
  get_section is64 shdrs (Z.of_nat n) = Ok (GNUVerDefSection h st).
Proof.
  intros H. apply linked_inv in H. destruct H as (Hn & Ht & Hl & Hk & [Hkt|[]]).
  unfold get_section. rewrite (get_section_header_nat _ _ _ Hn). cbn [bind]. unfold make_section.
  destruct (type_verdef is64 h Ht) as [E1 E2]. rewrite E1, E2.
  rewrite (linked_strtab is64 _ _ _ Hl Hk (eq_sym Hkt)). reflexivity.
Qed.

Lemma get_section_verneed is64 shdrs n h st :
  linked shdrs n SHT_GNU_verneed [SHT_STRTAB] = Some (h, st) ->
  get_section is64 shdrs (Z.of_nat n) = Ok (GNUVerNeedSection h st).
Proof.
  intros H. apply linked_inv in H. destruct H as (Hn & Ht & Hl & Hk & [Hkt|[]]).
  unfold get_section. rewrite (get_section_header_nat _ _ _ Hn). cbn [bind]. unfold make_section.
  rewrite (type_verneed is64 h Ht).
  rewrite (linked_strtab is64 _ _ _ Hl Hk (eq_sym Hkt)). reflexivity.
Qed.

Theorem verdef_section_exact le is64 img shdrs n defs :
  verdef_section_wf le img shdrs n defs = true ->
  file_verdef_versions le is64 img shdrs (Z.of_nat n) = Ok (map verdef_view defs)
  /\ file_num_versions is64 shdrs (Z.of_nat n) = Ok (zlen defs).
Proof.
  unfold verdef_section_wf.
  destruct (linked shdrs n SHT_GNU_verdef [SHT_STRTAB]) as [[h st]|] eqn:E; [|discriminate].
  intros H. apply andb_prop in H. destruct H as [Hn Hc]. apply Z.eqb_eq in Hn.
  unfold file_verdef_versions, file_num_versions. rewrite (get_section_verdef is64 _ _ _ _ E). cbn [bind].
  split; [apply verdef_chain_exact; assumption|]. unfold num_versions. rewrite Hn. reflexivity.
Qed.

Theorem verneed_section_exact le is64 img shdrs n needs :
  verneed_section_wf le img shdrs n needs = true ->
  file_verneed_versions le is64 img shdrs (Z.of_nat n) = Ok (map verneed_view needs)
  /\ file_num_versions is64 shdrs (Z.of_nat n) = Ok (zlen needs).
Proof.
  unfold verneed_section_wf.
  destruct (linked shdrs n SHT_GNU_verneed [SHT_STRTAB]) as [[h st]|] eqn:E; [|discriminate].
  intros H. apply andb_prop in H. destruct H as [Hn Hc]. apply Z.eqb_eq in Hn.
  unfold file_verneed_versions, file_num_versions. rewrite (get_section_verneed is64 _ _ _ _ E). cbn [bind].
  split; [apply verneed_chain_exact; assumption|]. unfold num_versions. rewrite Hn. reflexivity.
Qed.

Theorem verdef_section_ended le is64 img shdrs n defs :
  verdef_section_ended_wf le img shdrs n defs = true ->
  file_verdef_versions le is64 img shdrs (Z.of_nat n) = Ok (map verdef_view defs).
Proof.
  unfold verdef_section_ended_wf.
  destruct (linked shdrs n SHT_GNU_verdef [SHT_STRTAB]) as [[h st]|] eqn:E; [|discriminate].
  intros H. rewrite !andb_true_iff in H. destruct H as [[Hn He] Hc].
  unfold file_verdef_versions. rewrite (get_section_verdef is64 _ _ _ _ E). cbn [bind].
  apply verdef_chain_ended; [lia|exact He|exact Hc].
Qed.

Theorem verneed_section_ended le is64 img shdrs n needs :
  verneed_section_ended_wf le img shdrs n needs = true ->
  file_verneed_versions le is64 img shdrs (Z.of_nat n) = Ok (map verneed_view needs).
Proof.
  unfold verneed_section_ended_wf.
  destruct (linked shdrs n SHT_GNU_verneed [SHT_STRTAB]) as [[h st]|] eqn:E; [|discriminate].
  intros H. rewrite !andb_true_iff in H. destruct H as [[Hn He] Hc].
  unfold file_verneed_versions. rewrite (get_section_verneed is64 _ _ _ _ E). cbn [bind].
  apply verneed_chain_ended; [lia|exact He|exact Hc].
Qed.

Theorem verdef_get_version_exact le is64 img shdrs n defs idx :
  verdef_section_wf le img shdrs n defs = true ->
  file_verdef_get_version le is64 img shdrs (Z.of_nat n) idx
  = Ok (option_map verdef_view (verdef_find idx defs)).
Proof.
  unfold verdef_section_wf.
  destruct (linked shdrs n SHT_GNU_verdef [SHT_STRTAB]) as [[h st]|] eqn:E; [|discriminate].
  intros H. apply andb_prop in H. destruct H as [Hn Hc]. apply Z.eqb_eq in Hn.
  unfold file_verdef_get_version. rewrite (get_section_verdef is64 _ _ _ _ E). cbn [bind].
  apply verdef_get_version_chain; assumption.
Qed.

Theorem verneed_get_version_exact le is64 img shdrs n needs idx :
  verneed_section_wf le img shdrs n needs = true ->
  file_verneed_get_version le is64 img shdrs (Z.of_nat n) idx
  = Ok (option_map verneed_hit_view (verneed_find idx needs)).
Proof.
  unfold verneed_section_wf.
  destruct (linked shdrs n SHT_GNU_verneed [SHT_STRTAB]) as [[h st]|] eqn:E; [|discriminate].
  intros H. apply andb_prop in H. destruct H as [Hn Hc]. apply Z.eqb_eq in Hn.
  unfold file_verneed_get_version. rewrite (get_section_verneed is64 _ _ _ _ E). cbn [bind].
  apply verneed_get_version_chain; assumption.
Qed.

Theorem has_indexes_exact le is64 img shdrs n needs :
  verneed_section_wf le img shdrs n needs = true ->
  file_verneed_has_indexes le is64 img shdrs (Z.of_nat n)
  = Ok (Ok (verneed_has_indexes needs), Ok (verneed_has_indexes needs)).
Proof.
  unfold verneed_section_wf.
  destruct (linked shdrs n SHT_GNU_verneed [SHT_STRTAB]) as [[h st]|] eqn:E; [|discriminate].
  intros H. apply andb_prop in H. destruct H as [Hn Hc]. apply Z.eqb_eq in Hn.
  unfold file_verneed_has_indexes. rewrite (get_section_verneed is64 _ _ _ _ E). cbn [bind].
  destruct (has_indexes_chain le is64 img h st needs Hn Hc) as [H1 H2].
  rewrite H1, H2. reflexivity.
Qed.

(* what the two searches mean *)
Lemma verdef_find_some idx defs d : verdef_find idx defs = Some d ->
  exists pre post, defs = pre ++ d :: post /\ vd_ndx d = idx /\ (forall x, In x pre -> vd_ndx x <> idx).
Proof.
  unfold verdef_find. induction defs as [|x r IH]; [discriminate|]. cbn [find].
  destruct (Z.eqb_spec (vd_ndx x) idx) as [E|E]; intros H.
  - inversion H; subst. exists [], r. repeat split; auto; intros y [].
  - destruct (IH H) as (pre & post & -> & Hd & Hpre).
    exists (x :: pre), post. repeat split; auto; intros y [<-|Hy]; auto.
Qed.
Lemma verdef_find_none idx defs : verdef_find idx defs = None <-> (forall d, In d defs -> vd_ndx d <> idx).
Proof.
  unfold verdef_find. split.
  - intros H d Hin E. apply (find_none _ _ H) in Hin. cbn in Hin. lia.
  - induction defs as [|x r IH]; intros H; [reflexivity|]. cbn [find].
    destruct (Z.eqb_spec (vd_ndx x) idx) as [E|E]; [exfalso; apply (H x); [left; reflexivity|exact E]|].
    apply IH. intros d Hd. apply H. right. exact Hd.
Qed.

Lemma verneed_find_some idx needs d a : verneed_find idx needs = Some (d, a) ->
  In d needs /\ In a (vn_auxs d) /\ vna_other a = idx.
Proof.
  induction needs as [|x r IH]; [discriminate|]. cbn [verneed_find].
  destruct (find (fun a0 => vna_other a0 =? idx) (vn_auxs x)) as [a0|] eqn:E; intros H.
  - inversion H; subst. apply find_some in E. destruct E as [Hin He]. cbn in He.
    repeat split; [left; reflexivity|exact Hin|lia].
  - destruct (IH H) as (H1 & H2 & H3). repeat split; auto. right. exact H1.
Qed.
Lemma verneed_find_none idx needs : verneed_find idx needs = None <->
  (forall d a, In d needs -> In a (vn_auxs d) -> vna_other a <> idx).
Proof.
  split.
  - induction needs as [|x r IH]; intros H d a Hd Ha; [destruct Hd|]. cbn [verneed_find] in H.
    destruct (find (fun a0 => vna_other a0 =? idx) (vn_auxs x)) as [a0|] eqn:E; [discriminate|].
    destruct Hd as [<-|Hd]; [|eapply IH; eauto].
    apply (find_none _ _ E) in Ha. cbn in Ha. lia.
  - induction needs as [|x r IH]; intros H; [reflexivity|]. cbn [verneed_find].
    destruct (find (fun a0 => vna_other a0 =? idx) (vn_auxs x)) as [a0|] eqn:E.
    + apply find_some in E. destruct E as [Hin He]. cbn in He.
      exfalso. apply (H x a0); [left; reflexivity|exact Hin|lia].
    + apply IH. intros d a Hd Ha. apply (H d a); [right; exact Hd|exact Ha].
Qed.

(* the version-symbol section *)
Theorem versym_section_exact le is64 img shdrs n entries :
  versym_section_wf le is64 img shdrs n entries = true ->
  file_versym_symbols le is64 img shdrs (Z.of_nat n) = Ok (map versym_view entries)
  /\ file_versym_num_symbols is64 shdrs (Z.of_nat n) = Ok (zlen entries).
Proof.
  unfold versym_section_wf.
  destruct (linked shdrs n SHT_GNU_versym [SHT_SYMTAB; SHT_DYNSYM]) as [[h sy]|] eqn:E; [|discriminate].
  destruct (nth_error shdrs (Z.to_nat (sh_link sy))) as [st|] eqn:Est; [|discriminate].
  intros H. rewrite !andb_true_iff in H.
  destruct H as [[[[[[[Hl Hst] Heh] Hsh] Hes] Hss] Hsk] Htab].
  apply linked_inv in E. destruct E as (Hn & Ht & Hlk & Hk & Hkt).
  assert (Hsec : get_section is64 shdrs (Z.of_nat n) = Ok (GNUVerSymSection h (sy, st))).
  { unfold get_section. rewrite (get_section_header_nat _ _ _ Hn). cbn [bind]. unfold make_section.
    destruct (type_versym is64 h Ht) as (E1 & E2 & E3). rewrite E1, E2, E3.
    unfold get_linked_symtab_section. rewrite (get_section_header_z _ _ _ Hlk Hk). cbn [bind].
    rewrite (type_symtab is64 sy Hkt). cbn [negb].
    rewrite (linked_strtab is64 shdrs (sh_link sy) st) by (try assumption; lia). cbn [bind].
    replace (sh_entsize sy >? 0) with true by lia. cbn [negb].
    rewrite Hss. reflexivity. }
  unfold file_versym_symbols, file_versym_num_symbols. rewrite Hsec. cbn [bind].
  assert (Hnum : versym_num_symbols h = Ok (zlen entries)).
  { unfold versym_num_symbols. replace (sh_entsize h =? 0) with false by lia.
    apply Z.eqb_eq in Hsh. rewrite Hsh, Z.div_mul by lia. reflexivity. }
  split; [|exact Hnum].
  unfold versym_iter_symbols. rewrite Hnum. cbn [bind]. rewrite to_nat_zlen.
  apply versym_iter_ok. exact Htab.
Qed.

(* several version sections in ONE file: every answer is a function of (image, header table, section index)
   alone, so each section is resolved through ITS OWN sh_link whatever else the file holds and whatever was
   asked before; definitions, requirements and the version-symbol table of one file, with three (possibly
   different) string tables *)
Theorem one_file_sections_exact le is64 img shdrs nd nn nv defs needs entries :
  verdef_section_wf le img shdrs nd defs = true ->
  verneed_section_wf le img shdrs nn needs = true ->
  versym_section_wf le is64 img shdrs nv entries = true ->
  file_verdef_versions le is64 img shdrs (Z.of_nat nd) = Ok (map verdef_view defs)
  /\ file_verneed_versions le is64 img shdrs (Z.of_nat nn) = Ok (map verneed_view needs)
  /\ file_versym_symbols le is64 img shdrs (Z.of_nat nv) = Ok (map versym_view entries).
Proof.
  intros Hd Hn Hv. split; [exact (proj1 (verdef_section_exact le is64 _ _ _ _ Hd))|].
  split; [exact (proj1 (verneed_section_exact le is64 _ _ _ _ Hn))|].
  exact (proj1 (versym_section_exact le is64 _ _ _ _ Hv)).
Qed.

(* ====================== the layout predicates are monotone in the image ====================== *)
(* whatever is appended to an image, every record and string stays where it was: a section certified on a
   prefix of a file is certified on the file (used to certify files whose tail is megabytes of section headers) *)
Lemma placed_any_tail img t off bs : placed img off bs = true -> placed (img ++ t) off bs = true.
Proof.
  intros H. apply placed_skipn in H. destruct H as [H0 [tail Ht]].
  unfold placed. rewrite from_off_eq, skipn_app, Ht, <- app_assoc, firstn_app, firstn_all, Nat.sub_diag.
  cbn [firstn]. rewrite app_nil_r, bytes_eqb_refl. lia.
Qed.

Lemma str_at_any_tail img t off s : str_at img off s = true -> str_at (img ++ t) off s = true.
Proof.
  unfold str_at. rewrite !andb_true_iff. intros [Hn Hp]. split; [exact Hn|apply placed_any_tail; exact Hp].
Qed.

Lemma verdaux_chain_any_tail le img t so : forall auxs off,
  verdaux_chain le img so off auxs = true -> verdaux_chain le (img ++ t) so off auxs = true.
Proof.
  induction auxs as [|a r IH]; intros off H; [reflexivity|]. cbn [verdaux_chain] in H |- *.
  rewrite !andb_true_iff in *. intuition auto using placed_any_tail, str_at_any_tail.
Qed.
Lemma vernaux_chain_any_tail le img t so : forall auxs off,
  vernaux_chain le img so off auxs = true -> vernaux_chain le (img ++ t) so off auxs = true.
Proof.
  induction auxs as [|a r IH]; intros off H; [reflexivity|]. cbn [vernaux_chain] in H |- *.
  rewrite !andb_true_iff in *. intuition auto using placed_any_tail, str_at_any_tail.
Qed.
Lemma verdef_chain_any_tail le img t so : forall defs off,
  verdef_chain le img so off defs = true -> verdef_chain le (img ++ t) so off defs = true.
Proof.
  induction defs as [|d r IH]; intros off H; [reflexivity|]. cbn [verdef_chain] in H |- *.
  rewrite !andb_true_iff in *. intuition auto using placed_any_tail, verdaux_chain_any_tail.
Qed.
Lemma verneed_chain_any_tail le img t so : forall needs off,
  verneed_chain le img so off needs = true -> verneed_chain le (img ++ t) so off needs = true.
Proof.
  induction needs as [|d r IH]; intros off H; [reflexivity|]. cbn [verneed_chain] in H |- *.
  rewrite !andb_true_iff in *. intuition auto using placed_any_tail, str_at_any_tail, vernaux_chain_any_tail.
Qed.
Lemma versym_table_any_tail le is64 img t a b c d e : forall entries i,
  versym_table le is64 img a b c d e i entries = true -> versym_table le is64 (img ++ t) a b c d e i entries = true.
Proof.
  induction entries as [|[v s] r IH]; intros i H; [reflexivity|]. cbn [versym_table] in H |- *.
  rewrite !andb_true_iff in *. intuition auto using placed_any_tail, str_at_any_tail.
Qed.

Theorem section_wf_any_tail le is64 img t shdrs :
  (forall n defs, verdef_section_wf le img shdrs n defs = true -> verdef_section_wf le (img ++ t) shdrs n defs = true)
  /\ (forall n needs, verneed_section_wf le img shdrs n needs = true -> verneed_section_wf le (img ++ t) shdrs n needs = true)
  /\ (forall n entries, versym_section_wf le is64 img shdrs n entries = true ->
                        versym_section_wf le is64 (img ++ t) shdrs n entries = true).
Proof.
  split; [|split]; intros n x.
  - unfold verdef_section_wf. destruct (linked shdrs n SHT_GNU_verdef [SHT_STRTAB]) as [[h st]|]; [|discriminate].
    rewrite !andb_true_iff. intuition auto using verdef_chain_any_tail.
  - unfold verneed_section_wf. destruct (linked shdrs n SHT_GNU_verneed [SHT_STRTAB]) as [[h st]|]; [|discriminate].
    rewrite !andb_true_iff. intuition auto using verneed_chain_any_tail.
  - unfold versym_section_wf.
    destruct (linked shdrs n SHT_GNU_versym [SHT_SYMTAB; SHT_DYNSYM]) as [[h sy]|]; [|discriminate].
    destruct (nth_error shdrs (Z.to_nat (sh_link sy))) as [st|]; [|discriminate].
    rewrite !andb_true_iff. intuition auto using versym_table_any_tail.
Qed.

(* the six record layouts this property reads, as regenerated from the live code, are the standard ones *)
Lemma layouts_standard le is64 :
  gen_Elf_Verdef le is64 = spec_Elf_Verdef le /\ gen_Elf_Verdaux le is64 = spec_Elf_Verdaux le /\
  gen_Elf_Verneed le is64 = spec_Elf_Verneed le /\ gen_Elf_Vernaux le is64 = spec_Elf_Vernaux le /\
  gen_Elf_Versym le is64 = spec_Elf_Versym le /\ gen_Elf_Sym le is64 = spec_Elf_Sym le is64.
Proof.
  repeat split; [apply gen_Elf_Verdef_gabi|apply gen_Elf_Verdaux_gabi|apply gen_Elf_Verneed_gabi|
                 apply gen_Elf_Vernaux_gabi|apply gen_Elf_Versym_gabi|apply gen_Elf_Sym_gabi].
Qed.
