(* Proofs/C04Abbrev.v — abbreviation table round trip (DESIGN 4.4 T2, second half):
   AbbrevTable._parse_abbrev_table over the standard's encoding (every LEB128 number in
   any valid encoding, arbitrary codes, unknown tag / attribute / form numbers,
   DW_FORM_implicit_const values), placed at any offset of .debug_abbrev. *)
From Coq Require Import String.
From PV Require Import Base.Outcome Base.Prim Spec.PrimSpec Spec.C04Desc Spec.C04Spec Gen.C04Forms Model.C04Model
                       Proofs.PrimProofs Proofs.C04Forms Proofs.C04Header.
From Coq Require Import ZArith List Bool Lia ZifyBool.
Import ListNotations.
Open Scope string_scope.
Open Scope list_scope.
Open Scope Z_scope.

(* ------------------------------------------------------------------ LEB128 numbers carried with their encoding *)
Lemma uleb_ok_valid v enc : uleb_ok v enc = true -> uleb_valid enc v.
Proof.
  unfold uleb_ok. intros H. apply andb_prop in H. destruct H as [Hb H].
  destruct (uleb_spec enc) as [[v' t]|] eqn:E; [|discriminate].
  destruct t; [|discriminate]. apply Z.eqb_eq in H. subst v'.
  destruct (uleb_spec_sound enc Hb v [] E) as (e & He & Hv). rewrite app_nil_r in He. subst e. exact Hv.
Qed.

Lemma sleb_ok_valid v enc : sleb_ok v enc = true -> sleb_valid enc v.
Proof.
  unfold sleb_ok. intros H. apply andb_prop in H. destruct H as [Hb H].
  destruct (sleb_spec enc) as [[v' t]|] eqn:E; [|discriminate].
  destruct t; [|discriminate]. apply Z.eqb_eq in H. subst v'.
  destruct (sleb_spec_sound enc Hb v [] E) as (e & He & Hv). rewrite app_nil_r in He. subst e. exact Hv.
Qed.

Lemma uleb_ok_decode v enc t : uleb_ok v enc = true -> uleb_decode (enc ++ t) = Some (v, t).
Proof. intros H. apply uleb_decode_valid, uleb_ok_valid, H. Qed.
Lemma sleb_ok_decode v enc t : sleb_ok v enc = true -> sleb_decode (enc ++ t) = Some (v, t).
Proof. intros H. apply sleb_decode_valid, sleb_ok_valid, H. Qed.

Lemma uleb_valid_nonempty enc v : uleb_valid enc v -> (1 <= length enc)%nat.
Proof. destruct 1; cbn [length]; lia. Qed.
Lemma uleb_ok_nonempty v enc : uleb_ok v enc = true -> (1 <= length enc)%nat.
Proof. intros H. eapply uleb_valid_nonempty, uleb_ok_valid, H. Qed.
Lemma uleb_ok_nonneg v enc : uleb_ok v enc = true -> 0 <= v.
Proof. intros H. eapply uleb_valid_nonneg, uleb_ok_valid, H. Qed.
Lemma uleb_ok_bytes v enc : uleb_ok v enc = true -> all_bytes enc = true.
Proof. unfold uleb_ok. intros H. apply andb_prop in H. tauto. Qed.

(* ------------------------------------------------------------------ display names *)
Lemma enum_dec_pass tbl v : enum_dec tbl true v = Some (enum_pass tbl v).
Proof. unfold enum_dec, enum_pass. destruct (zfind tbl v); reflexivity. Qed.

Lemma is_name_enum_pass tbl code name :
  (forall a b, enum_pass tbl a = enum_pass tbl b -> a = b) ->
  zfind tbl code = Some name -> forall f, is_name (enum_pass tbl f) name = (f =? code).
Proof.
  intros Hinj Hc f. destruct (Z.eqb_spec f code) as [->|Hne].
  - unfold enum_pass. rewrite Hc. cbn [is_name]. apply String.eqb_refl.
  - destruct (is_name (enum_pass tbl f) name) eqn:E; [|reflexivity]. exfalso. apply Hne, Hinj.
    unfold enum_pass at 2. rewrite Hc.
    destruct (enum_pass tbl f) as [n|v]; cbn [is_name] in E; [|discriminate].
    apply String.eqb_eq in E. subst. reflexivity.
Qed.

Lemma form_is_implicit f : is_name (enum_pass gen_dec_form f) "DW_FORM_implicit_const" = (f =? 0x21).
Proof. apply is_name_enum_pass; [exact gen_form_names_one_to_one | reflexivity]. Qed.
Lemma form_is_null f : is_name (enum_pass gen_dec_form f) "DW_FORM_null" = (f =? 0).
Proof. apply is_name_enum_pass; [exact gen_form_names_one_to_one | reflexivity]. Qed.
Lemma at_is_null f : is_name (enum_pass gen_dec_at f) "DW_AT_null" = (f =? 0).
Proof. apply is_name_enum_pass; [exact gen_at_names_one_to_one | reflexivity]. Qed.

(* ------------------------------------------------------------------ what the table must decode to *)
Definition expect_mspec (a : aspec) : mspec :=
  mkmspec (enum_pass gen_dec_at (lv (a_name a))) (enum_pass gen_dec_form (lv (a_form a)))
          (option_map lv (a_const a)).
Definition expect_mdecl (d : adecl) : mdecl :=
  mkmdecl (enum_pass gen_dec_tag (lv (d_tag d))) (d_kids d) (map expect_mspec (d_attrs d)).
(* the dict of AbbrevTable (kept newest-first by the model) *)
Definition expect_abbrevs (t : atable) : list (Z * mdecl) :=
  rev (map (fun d => (lv (d_code d), expect_mdecl d)) (t_decls t)).

(* the part of aspec_wf the parser needs: valid numbers, a constant exactly for implicit_const *)
Definition aspec_readable (a : aspec) : bool :=
  uleb_wf (a_name a) && uleb_wf (a_form a) &&
  match a_const a with
  | Some l => (lv (a_form a) =? FORM_implicit_const) && sleb_wf l
  | None => negb (lv (a_form a) =? FORM_implicit_const)
  end.

Lemma aspec_wf_readable a : aspec_wf a = true ->
  aspec_readable a = true /\ ((lv (a_name a) =? 0) && (lv (a_form a) =? 0)) = false.
Proof.
  unfold aspec_wf, aspec_readable. intros H.
  apply andb_prop in H. destruct H as [H Hc]. apply andb_prop in H. destruct H as [H Hz].
  split; [|apply negb_true_iff; assumption].
  rewrite H, Hc. reflexivity.
Qed.

Lemma parse_attr_spec_ok a t : aspec_readable a = true ->
  parse_attr_spec (encode_aspec a ++ t) = Some (expect_mspec a, t).
Proof.
  unfold aspec_readable, uleb_wf, sleb_wf, encode_aspec, expect_mspec. intros H.
  apply andb_prop in H. destruct H as [H Hc]. apply andb_prop in H. destruct H as [Hn Hf].
  unfold parse_attr_spec, gen_abbrev_at_field, gen_abbrev_form_field, gen_abbrev_value_field,
    gen_abbrev_value_forms, gen_dec_at_pass, gen_dec_form_pass.
  cbn [parse_int existsb]. rewrite <- !app_assoc.
  rewrite (uleb_ok_decode _ _ _ Hn). rewrite enum_dec_pass.
  rewrite (uleb_ok_decode _ _ _ Hf). rewrite enum_dec_pass.
  rewrite form_is_implicit, orb_false_r. unfold FORM_implicit_const in Hc.
  destruct (a_const a) as [l|].
  - apply andb_prop in Hc. destruct Hc as [Hi Hl]. rewrite Hi.
    rewrite (sleb_ok_decode _ _ _ Hl). reflexivity.
  - apply negb_true_iff in Hc. rewrite Hc. reflexivity.
Qed.

Lemma spec_stop_expect a :
  spec_stop (expect_mspec a) = (lv (a_name a) =? 0) && (lv (a_form a) =? 0).
Proof.
  unfold spec_stop, expect_mspec, gen_abbrev_stop. cbn [fst snd ms_name ms_form].
  rewrite at_is_null, form_is_null. reflexivity.
Qed.

Lemma encode_aspec_nonempty a : aspec_readable a = true -> (1 <= length (encode_aspec a))%nat.
Proof.
  unfold aspec_readable, uleb_wf, encode_aspec. intros H.
  apply andb_prop in H. destruct H as [H _]. apply andb_prop in H. destruct H as [Hn _].
  rewrite app_length. pose proof (uleb_ok_nonempty _ _ Hn). lia.
Qed.

(* RepeatUntilExcluding(lambda obj, ctx: obj.name == 'DW_AT_null' and obj.form == 'DW_FORM_null', attr_spec) *)
Lemma attr_specs_ok (attrs : list aspec) : forall fuel (en ef t : list Z),
  forallb aspec_wf attrs = true -> uleb_ok 0 en = true -> uleb_ok 0 ef = true ->
  (length attrs < fuel)%nat ->
  repeat_until fuel parse_attr_spec spec_stop (concat (map encode_aspec attrs) ++ en ++ ef ++ t)
  = Some (map expect_mspec attrs, t).
Proof.
  induction attrs as [|a r IH]; intros fuel en ef t Hwf Hen Hef Hfuel.
  - destruct fuel as [|f]; [cbn in Hfuel; lia|]. cbn [map concat app repeat_until].
    pose (z := mkaspec (mklebn 0 en) (mklebn 0 ef) None).
    assert (Hz : aspec_readable z = true).
    { unfold aspec_readable, uleb_wf, z. cbn [a_name a_form a_const lv lenc]. rewrite Hen, Hef. reflexivity. }
    pose proof (parse_attr_spec_ok z t Hz) as Hp. unfold encode_aspec, z in Hp.
    cbn [a_name a_form a_const lv lenc] in Hp. rewrite app_nil_r in Hp.
    rewrite <- app_assoc in Hp. rewrite Hp.
    rewrite spec_stop_expect. reflexivity.
  - destruct fuel as [|f]; [cbn in Hfuel; lia|].
    cbn [forallb] in Hwf. apply andb_prop in Hwf. destruct Hwf as [Ha Hr].
    destruct (aspec_wf_readable a Ha) as [Hra Hns].
    cbn [map concat repeat_until]. rewrite <- app_assoc.
    rewrite (parse_attr_spec_ok a _ Hra). rewrite spec_stop_expect, Hns.
    rewrite IH; auto. cbn [length] in Hfuel. lia.
Qed.

Lemma concat_length_ge {A} (f : A -> list Z) (l : list A) :
  (forall x, In x l -> (1 <= length (f x))%nat) -> (length l <= length (concat (map f l)))%nat.
Proof.
  induction l as [|x r IH]; intros H; [cbn; lia|].
  cbn [map concat length]. rewrite app_length.
  pose proof (H x (or_introl eq_refl)). specialize (IH (fun y Hy => H y (or_intror Hy))). lia.
Qed.

Lemma adecl_wf_parts d : adecl_wf d = true ->
  uleb_ok (lv (d_code d)) (lenc (d_code d)) = true /\ lv (d_code d) <> 0 /\
  uleb_ok (lv (d_tag d)) (lenc (d_tag d)) = true /\ forallb aspec_wf (d_attrs d) = true /\
  uleb_ok 0 (d_end_name d) = true /\ uleb_ok 0 (d_end_form d) = true.
Proof.
  unfold adecl_wf, uleb_wf. intros H.
  apply andb_prop in H. destruct H as [H H6]. apply andb_prop in H. destruct H as [H H5].
  apply andb_prop in H. destruct H as [H H4]. apply andb_prop in H. destruct H as [H H3].
  apply andb_prop in H. destruct H as [H1 H2].
  repeat split; try assumption. apply negb_true_iff in H2. lia.
Qed.

(* struct_parse(Dwarf_abbrev_declaration, stream) *)
Lemma parse_abbrev_decl_ok d t : adecl_wf d = true ->
  parse_abbrev_decl (encode_adecl_body d ++ t) = Some (expect_mdecl d, t).
Proof.
  intros H. destruct (adecl_wf_parts d H) as (_ & _ & Ht & Ha & Hen & Hef).
  unfold parse_abbrev_decl, encode_adecl_body, gen_abbrev_tag_field, gen_abbrev_children_field, gen_dec_tag_pass.
  cbn [parse_int]. rewrite <- !app_assoc.
  rewrite (uleb_ok_decode _ _ _ Ht). rewrite enum_dec_pass.
  cbn [app]. rewrite uint_decode_byte.
  assert (Hk : enum_dec gen_dec_children gen_dec_children_pass (if d_kids d then 1 else 0)
               = Some (EName (if d_kids d then "DW_CHILDREN_yes" else "DW_CHILDREN_no"))).
  { destruct (d_kids d); reflexivity. }
  rewrite Hk. rewrite attr_specs_ok; auto.
  - unfold expect_mdecl. destruct (d_kids d); reflexivity.
  - rewrite !app_length.
    pose proof (concat_length_ge encode_aspec (d_attrs d)) as Hl.
    assert (forall x, In x (d_attrs d) -> (1 <= length (encode_aspec x))%nat) as Hx.
    { intros x Hin. apply encode_aspec_nonempty. rewrite forallb_forall in Ha.
      apply aspec_wf_readable, Ha, Hin. }
    specialize (Hl Hx). lia.
Qed.

Lemma encode_adecl_nonempty d : adecl_wf d = true -> (1 <= length (encode_adecl d))%nat.
Proof.
  intros H. destruct (adecl_wf_parts d H) as (Hc & _). unfold encode_adecl. rewrite app_length.
  pose proof (uleb_ok_nonempty _ _ Hc). lia.
Qed.

(* AbbrevTable._parse_abbrev_table: the while True loop *)
Lemma abbrev_loop_ok (decls : list adecl) : forall fuel acc (tend t : list Z),
  forallb adecl_wf decls = true -> uleb_ok 0 tend = true -> (length decls < fuel)%nat ->
  abbrev_loop fuel (concat (map encode_adecl decls) ++ tend ++ t) acc
  = Ok (rev (map (fun d => (lv (d_code d), expect_mdecl d)) decls) ++ acc).
Proof.
  induction decls as [|d r IH]; intros fuel acc tend t Hwf Hend Hfuel.
  - destruct fuel as [|f]; [cbn in Hfuel; lia|]. cbn [map concat app abbrev_loop rev].
    rewrite (uleb_ok_decode _ _ _ Hend). reflexivity.
  - destruct fuel as [|f]; [cbn in Hfuel; lia|].
    cbn [forallb] in Hwf. apply andb_prop in Hwf. destruct Hwf as [Hd Hr].
    destruct (adecl_wf_parts d Hd) as (Hc & Hnz & _).
    cbn [map concat abbrev_loop rev]. unfold encode_adecl at 1. rewrite <- !app_assoc.
    rewrite (uleb_ok_decode _ _ _ Hc).
    destruct (Z.eqb_spec (lv (d_code d)) 0) as [E|_]; [contradiction|].
    rewrite (parse_abbrev_decl_ok d _ Hd).
    rewrite IH by (first [assumption | cbn [length] in Hfuel; lia]).
    reflexivity.
Qed.

(* DWARFInfo.get_abbrev_table(offset) -> AbbrevTable: the table placed anywhere in .debug_abbrev *)
Theorem abbrev_roundtrip (t : atable) (sec : list Z) (off : Z) (tail : list Z) :
  atable_wf t = true -> 0 <= off -> (Z.to_nat off < length sec)%nat ->
  skipn (Z.to_nat off) sec = encode_atable t ++ tail ->
  get_abbrev_table sec off = Ok (expect_abbrevs t).
Proof.
  unfold atable_wf. intros Hwf Hoff Hlt Hat.
  apply andb_prop in Hwf. destruct Hwf as [Hwf _]. apply andb_prop in Hwf. destruct Hwf as [Hd He].
  unfold get_abbrev_table.
  destruct (Z.ltb_spec off (zlen sec)) as [_|Hge]; [|unfold zlen in Hge; lia].
  unfold zskipn. destruct (Z.leb_spec (zlen sec) off) as [Hle|_]; [unfold zlen in Hle; lia|].
  rewrite Hat. unfold encode_atable. rewrite <- app_assoc.
  rewrite abbrev_loop_ok; auto.
  - rewrite app_nil_r. reflexivity.
  - rewrite !app_length.
    pose proof (concat_length_ge encode_adecl (t_decls t)) as Hl.
    assert (forall x, In x (t_decls t) -> (1 <= length (encode_adecl x))%nat) as Hx.
    { intros x Hin. apply encode_adecl_nonempty. rewrite forallb_forall in Hd. apply Hd, Hin. }
    specialize (Hl Hx). lia.
Qed.

Corollary abbrev_roundtrip_at (t : atable) (pre tail : list Z) :
  atable_wf t = true ->
  get_abbrev_table (pre ++ encode_atable t ++ tail) (zlen pre) = Ok (expect_abbrevs t).
Proof.
  intros Hwf. apply abbrev_roundtrip with (tail := tail); auto.
  - apply zlen_nonneg.
  - unfold zlen. rewrite Nat2Z.id, !app_length.
    unfold atable_wf in Hwf. apply andb_prop in Hwf. destruct Hwf as [Hwf _].
    apply andb_prop in Hwf. destruct Hwf as [_ He].
    unfold encode_atable. rewrite app_length. pose proof (uleb_ok_nonempty _ _ He). lia.
  - unfold zlen. rewrite Nat2Z.id, skipn_app, skipn_all, Nat.sub_diag. reflexivity.
Qed.

(* ------------------------------------------------------------------ lookups: AbbrevTable.get_abbrev(code) *)
Lemma zfind_app {A} (a b : list (Z * A)) k :
  zfind (a ++ b) k = match zfind a k with Some y => Some y | None => zfind b k end.
Proof.
  induction a as [|[k' x] r IH]; [reflexivity|]. cbn [app zfind]. destruct (k' =? k); auto.
Qed.

Lemma find_decl_none ds code : zmem code (map (fun d => lv (d_code d)) ds) = false -> find_decl ds code = None.
Proof.
  induction ds as [|d r IH]; intros H; [reflexivity|].
  cbn [map zmem] in H. apply orb_false_iff in H. destruct H as [H1 H2].
  cbn [find_decl]. rewrite H1. auto.
Qed.

Theorem abbrev_lookup (t : atable) (code : Z) :
  atable_wf t = true ->
  zfind (expect_abbrevs t) code = option_map expect_mdecl (find_decl (t_decls t) code).
Proof.
  unfold atable_wf, expect_abbrevs. intros H. apply andb_prop in H. destruct H as [_ Hnd].
  induction (t_decls t) as [|d r IH]; [reflexivity|].
  cbn [map znodup] in Hnd. apply andb_prop in Hnd. destruct Hnd as [Hd Hr].
  cbn [map rev find_decl]. rewrite zfind_app, (IH Hr). cbn [zfind].
  destruct (Z.eqb_spec (lv (d_code d)) code) as [E|E].
  - subst code. apply negb_true_iff in Hd. rewrite (find_decl_none _ _ Hd). reflexivity.
  - destruct (find_decl r code); reflexivity.
Qed.
