(* Proofs/C10Base.v — foundations of the C10 refinement proof:
     - list facts (upd_nth, bisect hit / miss on sorted duplicate-free key lists, insertion),
     - the state-and-exception monad of Model/C10Machine.v (bind rules, seek / parse_stream),
     - the invariant [Inv F s] on the model state and the relation [frames_rel] between the live
       generator frames of the model and the iterator positions of the reference machine,
     - [ext s s']: objects never disappear and their immutable part never changes. *)
From PV Require Import Spec.C10Spec.
From Coq Require Import ZArith List Bool Lia ZifyBool.
Import ListNotations.
Open Scope Z_scope.

(* ================================================================== lists *)
Lemma upd_nth_length {A} n (f : A -> A) l : length (upd_nth n f l) = length l.
Proof. revert n. induction l as [|x r IH]; intros [|n]; cbn [upd_nth length]; auto. Qed.

Lemma nth_upd_nth_same {A} n (f : A -> A) l d : (n < length l)%nat -> nth n (upd_nth n f l) d = f (nth n l d).
Proof.
  revert n. induction l as [|x r IH]; intros [|n] H; cbn [upd_nth nth length] in *; try lia; auto.
  apply IH. lia.
Qed.

Lemma nth_error_upd_nth_same {A} n (f : A -> A) l x :
  nth_error l n = Some x -> nth_error (upd_nth n f l) n = Some (f x).
Proof.
  revert n. induction l as [|y r IH]; intros [|n] H; cbn [upd_nth nth_error] in *; try discriminate.
  - congruence.
  - auto.
Qed.

Lemma nth_error_upd_nth_other {A} n m (f : A -> A) l :
  n <> m -> nth_error (upd_nth n f l) m = nth_error l m.
Proof.
  revert n m. induction l as [|y r IH]; intros [|n] [|m] H; cbn [upd_nth nth_error]; auto; try congruence.
Qed.

Lemma nth_error_upd_nth {A} n m (f : A -> A) l x :
  nth_error (upd_nth n f l) m = Some x ->
  (n = m /\ exists y, nth_error l m = Some y /\ x = f y) \/ (n <> m /\ nth_error l m = Some x).
Proof.
  intros H. destruct (Nat.eq_dec n m) as [->|Hne].
  - left. split; auto. destruct (nth_error l m) as [y|] eqn:E.
    + rewrite (nth_error_upd_nth_same _ _ _ _ E) in H. exists y. split; congruence.
    + apply nth_error_None in E. assert (nth_error (upd_nth m f l) m = None).
      { apply nth_error_None. rewrite upd_nth_length. exact E. } congruence.
  - right. rewrite nth_error_upd_nth_other in H by exact Hne. auto.
Qed.

Lemma nth_error_snoc {A} (l : list A) x id y :
  nth_error (l ++ [x]) id = Some y -> (id < length l /\ nth_error l id = Some y)%nat \/ (id = length l /\ y = x).
Proof.
  intros H. destruct (Nat.lt_ge_cases id (length l)) as [Hlt|Hge].
  - left. rewrite nth_error_app1 in H by exact Hlt. auto.
  - right. rewrite nth_error_app2 in H by exact Hge.
    destruct (id - length l)%nat as [|k] eqn:E; cbn in H; [|destruct k; discriminate].
    split; [lia|congruence].
Qed.

Lemma nth_error_snoc_old {A} (l : list A) x id y :
  nth_error l id = Some y -> nth_error (l ++ [x]) id = Some y.
Proof.
  intros H. rewrite nth_error_app1; auto. apply nth_error_Some. congruence.
Qed.

Lemma nth_error_snoc_new {A} (l : list A) x : nth_error (l ++ [x]) (length l) = Some x.
Proof. rewrite nth_error_app2, Nat.sub_diag by lia. reflexivity. Qed.

Lemma nth_error_nth_default {A} (l : list A) n d x : nth_error l n = Some x -> nth n l d = x.
Proof. revert n. induction l as [|y r IH]; intros [|n] H; cbn in *; try discriminate; [congruence|auto]. Qed.

Lemma in_combine_nth {A B} (ks : list A) (vs : list B) k v :
  In (k, v) (combine ks vs) -> exists j, nth_error ks j = Some k /\ nth_error vs j = Some v.
Proof.
  revert vs. induction ks as [|a ks IH]; intros [|b vs] H; cbn [combine In] in H; try contradiction.
  destruct H as [E|H].
  - inversion E. subst. exists 0%nat. auto.
  - destruct (IH _ H) as (j & H1 & H2). exists (S j). auto.
Qed.

Lemma nth_combine_in {A B} (ks : list A) (vs : list B) j k v :
  nth_error ks j = Some k -> nth_error vs j = Some v -> In (k, v) (combine ks vs).
Proof.
  revert vs j. induction ks as [|a ks IH]; intros [|b vs] [|j] H1 H2; cbn in *; try discriminate.
  - left. congruence.
  - right. eapply IH; eauto.
Qed.

(* a duplicate-free key list is a function *)
Lemma combine_functional {A} (ks : list Z) (vs : list A) k v1 v2 :
  NoDup ks -> In (k, v1) (combine ks vs) -> In (k, v2) (combine ks vs) -> v1 = v2.
Proof.
  revert vs. induction ks as [|a ks IH]; intros [|b vs] Hnd H1 H2; cbn [combine In] in *; try contradiction.
  inversion Hnd as [|? ? Hna Hnd']. subst.
  destruct H1 as [E1|H1], H2 as [E2|H2].
  - congruence.
  - inversion E1. subst. apply in_combine_l in H2. contradiction.
  - inversion E2. subst. apply in_combine_l in H1. contradiction.
  - eapply IH; eauto.
Qed.

Lemma Forall2_imp {A B} (R R' : A -> B -> Prop) l l' :
  (forall a b, R a b -> R' a b) -> Forall2 R l l' -> Forall2 R' l l'.
Proof. intros H H2. induction H2; constructor; auto. Qed.

(* ---- bisect on a sorted key list: hit and miss *)
Lemma count_le_hit x l : sorted l -> In x l ->
  (1 <= count_le x l)%nat /\ nth (count_le x l - 1) l 0 = x.
Proof.
  intros Hs Hin. destruct (count_le_split x l Hs) as [H1 H2].
  pose proof (count_le_bound x l) as Hb. set (i := count_le x l) in *.
  rewrite <- (firstn_skipn i l) in Hin. apply in_app_or in Hin.
  destruct Hin as [Hin|Hin]; [|specialize (H2 _ Hin); lia].
  assert (Hi : (1 <= i)%nat) by (destruct i; [destruct Hin | lia]).
  split; [exact Hi|].
  assert (Hle : nth (i - 1) l 0 <= x).
  { apply H1. rewrite <- (firstn_skipn i l) at 1. rewrite app_nth1 by (rewrite firstn_length; lia).
    apply nth_In. rewrite firstn_length. lia. }
  destruct (In_nth _ _ 0 Hin) as (j & Hj & Ej). rewrite firstn_length in Hj.
  assert (Ej' : nth j l 0 = x).
  { rewrite <- Ej. rewrite <- (firstn_skipn i l) at 1. rewrite app_nth1 by (rewrite firstn_length; lia). reflexivity. }
  pose proof (sorted_nth l Hs j (i - 1)%nat). lia.
Qed.

Lemma bisect_miss x l : sorted l ->
  (1 <=? bisect_right l x)%nat && (x =? nth (bisect_right l x - 1) l 0) = false -> ~ In x l.
Proof.
  intros Hs Hf Hin. rewrite bisect_right_count in Hf by exact Hs.
  destruct (count_le_hit x l Hs Hin) as [H1 H2].
  apply Nat.leb_le in H1. rewrite H1, H2, Z.eqb_refl in Hf. discriminate.
Qed.

Lemma bisect_hit {A} x l (vs : list A) : sorted l -> length l = length vs ->
  (1 <=? bisect_right l x)%nat && (x =? nth (bisect_right l x - 1) l 0) = true ->
  exists v, nth_error vs (bisect_right l x - 1) = Some v /\ In (x, v) (combine l vs).
Proof.
  intros Hs Hl Ht. rewrite bisect_right_count in * by exact Hs.
  apply andb_prop in Ht. destruct Ht as [H1 H2]. apply Nat.leb_le in H1. apply Z.eqb_eq in H2.
  pose proof (count_le_bound x l) as Hb. set (i := count_le x l) in *.
  destruct (nth_error vs (i - 1)) as [v|] eqn:E; [|apply nth_error_None in E; lia].
  exists v. split; auto. eapply nth_combine_in; eauto.
  rewrite H2. apply nth_error_nth'. lia.
Qed.

Lemma NoDup_list_insert {A} i (x : A) l : NoDup l -> ~ In x l -> NoDup (list_insert i x l).
Proof.
  intros Hnd Hn. unfold list_insert. rewrite <- (firstn_skipn i l) in Hnd, Hn.
  eapply Permutation.Permutation_NoDup; [apply Permutation.Permutation_middle|].
  constructor; auto.
Qed.

Lemma in_combine_insert {K A} i (k : K) (v : A) ks vs k' v' : length ks = length vs ->
  In (k', v') (combine (list_insert i k ks) (list_insert i v vs)) <->
  (k', v') = (k, v) \/ In (k', v') (combine ks vs).
Proof. intros Hl. rewrite list_insert_combine by exact Hl. apply list_insert_in. Qed.

Lemma sorted_insert_bisect x l : sorted l -> sorted (list_insert (bisect_right l x) x l).
Proof. intros Hs. rewrite bisect_right_count by exact Hs. apply sorted_insert. exact Hs. Qed.

(* the head of a sorted list stays the head when a larger key is inserted by bisect *)
Lemma insert_bisect_head x l h r : sorted l -> l = h :: r -> h <= x ->
  exists r', list_insert (bisect_right l x) x l = h :: r'.
Proof.
  intros Hs -> Hle. rewrite bisect_right_count by exact Hs. rewrite count_le_cons.
  destruct (Z.leb_spec h x); [|lia]. unfold list_insert. cbn [firstn skipn app]. eauto.
Qed.

Lemma py_index_pred {A} (l : list A) (i : nat) v :
  (1 <= i)%nat -> nth_error l (i - 1) = Some v -> py_index l (Z.of_nat i - 1) = Ok v.
Proof.
  intros Hi Hn. replace (Z.of_nat i - 1) with (Z.of_nat (i - 1)) by lia. apply py_index_nonneg. exact Hn.
Qed.

(* ================================================================== the monad *)
Lemma bind_ok {A B} (m : M A) (k : A -> M B) s s1 a : m s = (s1, Ok a) -> bindM m k s = k a s1.
Proof. intros H. unfold bindM. rewrite H. reflexivity. Qed.
Lemma bind_err {A B} (m : M A) (k : A -> M B) s s1 e : m s = (s1, Err e) -> bindM m k s = (s1, Err e).
Proof. intros H. unfold bindM. rewrite H. reflexivity. Qed.
Lemma bind_assoc_ok {A B C} (m : M A) (f : A -> M B) (g : B -> M C) s s1 b :
  bindM m f s = (s1, Ok b) -> bindM m (fun x => bindM (f x) g) s = g b s1.
Proof. unfold bindM. destruct (m s) as [s0 [a|e]]; [|discriminate]. intros H. rewrite H. reflexivity. Qed.
Lemma bind_ret {A B} (a : A) (k : A -> M B) s : bindM (ret a) k s = k a s.
Proof. reflexivity. Qed.
Lemma bind_get_state {B} (k : state -> M B) s : bindM get_state k s = k s s.
Proof. reflexivity. Qed.
Lemma bind_modify {B} f (k : unit -> M B) s : bindM (modify f) k s = k tt (f s).
Proof. reflexivity. Qed.
Lemma bind_tell {B} sid (k : Z -> M B) s : bindM (tell sid) k s = k (nth sid (cur s) 0) s.
Proof. reflexivity. Qed.
Lemma bind_lift_ok {A B} (a : A) (k : A -> M B) s : bindM (lift (Ok a)) k s = k a s.
Proof. reflexivity. Qed.

Lemma set_cur_set_cur s c1 c2 : set_cur (set_cur s c1) c2 = set_cur s c2.
Proof. reflexivity. Qed.
Lemma set_cur_same s : set_cur s (cur s) = s.
Proof. destruct s; reflexivity. Qed.

(* a computation that only moves cursors *)
Definition cur_only {A} (m : M A) (s : state) (r : res A) : Prop :=
  exists c', m s = (set_cur s c', r) /\ length c' = length (cur s).

Lemma cur_only_ret {A} (a : A) s : cur_only (ret a) s (Ok a).
Proof. exists (cur s). rewrite set_cur_same. split; reflexivity. Qed.

Lemma cur_only_seek sid pos s : cur_only (seek sid pos) s (Ok tt).
Proof. eexists. split; [reflexivity|]. apply upd_nth_length. Qed.

Lemma cur_only_bind {A B} (m : M A) (k : A -> M B) s a r :
  cur_only m s (Ok a) -> (forall c', length c' = length (cur s) -> cur_only (k a) (set_cur s c') r) ->
  cur_only (bindM m k) s r.
Proof.
  intros (c1 & E1 & L1) Hk. destruct (Hk c1 L1) as (c2 & E2 & L2).
  exists c2. rewrite (bind_ok _ _ _ _ _ E1), E2. split; [reflexivity|].
  cbn [cur set_cur] in L2. congruence.
Qed.

Lemma cur_only_bind_err {A B} (m : M A) (k : A -> M B) s e :
  cur_only m s (Err e) -> cur_only (bindM m k) s (Err e).
Proof. intros (c1 & E1 & L1). exists c1. rewrite (bind_err _ _ _ _ _ E1). auto. Qed.

Lemma cur_only_apply_eff eff s : cur_only (apply_eff eff) s (Ok tt).
Proof.
  revert s. induction eff as [|[sid pos] r IH]; intros s; cbn [apply_eff].
  - apply cur_only_ret.
  - eapply cur_only_bind; [apply cur_only_seek|]. intros c' _. apply IH.
Qed.

(* seek + relative parse = the pure parse at that position *)
Lemma cur_only_seek_parse {A} (p : Z -> res (A * Z)) sid pos s :
  (sid < length (cur s))%nat ->
  cur_only (seek sid pos ;;; parse_stream p sid) s (match p pos with Ok (a, _) => Ok a | Err e => Err e end).
Proof.
  intros Hsid. unfold seek at 1. rewrite <- (set_cur_same s) at 1.
  unfold parse_stream, cur_only. rewrite bind_modify, bind_tell. cbn [cur set_cur].
  rewrite nth_upd_nth_same by exact Hsid.
  destruct (p pos) as [[a e]|e].
  - eexists. unfold seek. rewrite bind_modify. cbn [ret set_cur cur]. split; [reflexivity|].
    rewrite !upd_nth_length. reflexivity.
  - eexists. cbn [fail]. rewrite set_cur_same. split; [reflexivity|]. rewrite upd_nth_length. reflexivity.
Qed.

Lemma cur_only_struct_parse {A} (p : Z -> res (A * Z)) sid pos s :
  (sid < length (cur s))%nat ->
  cur_only (struct_parse p sid (Some pos)) s (match p pos with Ok (a, _) => Ok a | Err e => Err e end).
Proof. intros H. unfold struct_parse. apply cur_only_seek_parse. exact H. Qed.

(* the cursor after [seek; parse_stream] (needed where the code calls tell() afterwards) *)
Lemma seek_parse_tell {A} (p : Z -> res (A * Z)) sid pos s a e :
  (sid < length (cur s))%nat -> p pos = Ok (a, e) ->
  exists c', (seek sid pos ;;; parse_stream p sid) s = (set_cur s c', Ok a) /\
             length c' = length (cur s) /\ nth sid c' 0 = e.
Proof.
  intros Hsid Hp. unfold seek at 1. unfold parse_stream. rewrite bind_modify, bind_tell. cbn [cur set_cur].
  rewrite nth_upd_nth_same by exact Hsid. rewrite Hp.
  eexists. unfold seek. rewrite bind_modify. cbn [ret set_cur cur]. split; [reflexivity|].
  split; [rewrite !upd_nth_length; reflexivity|].
  rewrite nth_upd_nth_same by (rewrite upd_nth_length; exact Hsid). reflexivity.
Qed.

(* ================================================================== the invariant *)
Section WithFile.
  Variable F : file.

  Definition cache_lists_ok {A} (keys : list Z) (objs : list A) : Prop :=
    sorted keys /\ NoDup keys /\ length keys = length objs.

  (* the immutable part of a unit object is the pure parse at its offset *)
  Definition cu_static (c : cu_obj) (ud : udesc) : Prop :=
    unit_at F (c_off c) = Some ud /\ c_hdr c = ud_hdr ud /\ c_die_off c = ud_die_off ud.

  (* CompileUnit: _diemap/_dielist sorted, duplicate-free, parallel; the first entry, when there
     is one, is the top entry; every cached object is the entry object of this unit at its key;
     the memoised abbreviation table is the table at debug_abbrev_offset *)
  Definition cu_ok (D : list die_obj) (id : nat) (c : cu_obj) : Prop :=
    exists ud, cu_static c ud /\
      cache_lists_ok (c_diemap c) (c_dielist c) /\
      match c_diemap c with [] => True | h :: _ => h = c_die_off c end /\
      (forall o did, In (o, did) (combine (c_diemap c) (c_dielist c)) ->
         exists d, nth_error D did = Some d /\ d_cu d = id /\ d_off d = o) /\
      match c_abbrev c with
      | None => True
      | Some t => exists e, zassoc (uh_abbrev (c_hdr c)) (f_abbrevs F) = Some (t, e)
      end.

  (* DIE: its contents are the pure parse at its offset; it is the object its unit's cache holds
     for that offset (identity); a set _parent / _terminator link points to the object of the true
     parent / closing null entry *)
  Definition die_ok (C : list cu_obj) (D : list die_obj) (id : nat) (d : die_obj) : Prop :=
    exists c e, nth_error C (d_cu d) = Some c /\ entry_at F (c_off c) (d_off d) = Some e /\
      d_raw d = en_raw e /\
      In (d_off d, id) (combine (c_diemap c) (c_dielist c)) /\
      (forall p, d_parent d = Some p ->
         exists pd, nth_error D p = Some pd /\ d_cu pd = d_cu d /\ en_parent e = Some (d_off pd)) /\
      (forall t, d_term d = Some t ->
         exists td, nth_error D t = Some td /\ d_cu td = d_cu d /\ en_term e = Some (d_off td)).

  (* LineProgram object cached at key k *)
  Definition lp_ok (k : Z) (lp : lp_obj) : Prop :=
    exists ld, zassoc k (f_lines F) = Some ld /\ l_raw lp = ld_raw ld /\ l_start lp = ld_start ld /\
      match l_entries lp with
      | None => l_files lp = lr_files (ld_raw ld)
      | Some e => e = lb_pid (ld_body ld) /\ l_files lp = lr_files (ld_raw ld) + lb_defs (ld_body ld)
      end.

  Definition held_ok (eh : bool) (l : list (option Z)) : Prop :=
    length l = length (cfi_ents F eh) /\
    forall i t, nth_error l i = Some (Some t) -> exists e, nth_error (cfi_ents F eh) i = Some e /\ ent_table e = t.

  Record Inv (s : state) : Prop := mk_Inv {
    inv_cur : length (cur s) = NSTREAMS;
    inv_culists : cache_lists_ok (cu_keys s) (cu_objs s);
    inv_cucache : forall k id, In (k, id) (combine (cu_keys s) (cu_objs s)) ->
                    exists c, nth_error (cus s) id = Some c /\ c_off c = k;
    inv_cus : forall id c, nth_error (cus s) id = Some c -> cu_ok (dies s) id c;
    inv_dies : forall id d, nth_error (dies s) id = Some d -> die_ok (cus s) (dies s) id d;
    inv_abbrevs : forall k t, dict_get Z.eqb (abbrevs s) k = Some t ->
                    exists e, zassoc k (f_abbrevs F) = Some (t, e);
    inv_lines : forall k lp, dict_get Z.eqb (lines s) k = Some lp -> lp_ok k lp;
    inv_secmap : forall m, e_secmap s = Some m -> m = secmap_spec F;
    inv_symmap : forall m, e_symmap s = Some m -> m = symmap_spec F;
    inv_numtags : e_numtags s = -1 \/ count_tags (f_dyns F) = Some (e_numtags s);
    (* every unit object is the one the unit cache holds for its offset (identity) *)
    inv_cuheap : forall id c, nth_error (cus s) id = Some c -> In (c_off c, id) (combine (cu_keys s) (cu_objs s));
    (* the CFI entries a client holds: one memo per entry of the section; a decoded table, when present, is
       the pure decoding of that entry *)
    inv_cfis : forall eh l, held eh s = Some l -> held_ok eh l;
    (* _type_units_by_sig, once built, indexes every type unit *)
    inv_tumap : forall m, tu_map s = Some m -> m = tumap_spec F
  }.

  Lemma Inv_init n : Inv (init_state n).
  Proof.
    constructor; cbn.
    - reflexivity.
    - repeat split; auto. constructor.
    - intros k id [].
    - intros [|id] c H; discriminate.
    - intros [|id] d H; discriminate.
    - intros k t H; discriminate.
    - intros k lp H; discriminate.
    - intros m H; discriminate.
    - intros m H; discriminate.
    - left. reflexivity.
    - intros [|id] c H; discriminate.
    - intros [|] l H; discriminate.
    - intros m H; discriminate.
  Qed.

  Lemma Inv_set_cur s c : Inv s -> length c = length (cur s) -> Inv (set_cur s c).
  Proof.
    intros [H1 H2 H3 H4 H5 H6 H7 H8 H9 H10 H11 H12 H13] Hl. constructor; cbn; auto. congruence.
  Qed.

  (* ---- objects persist; their immutable part does not change; generator frames are only changed
          by the top level of [run_op] *)
  Definition cus_mono (C C' : list cu_obj) : Prop :=
    forall id c, nth_error C id = Some c ->
      exists c', nth_error C' id = Some c' /\ c_off c' = c_off c /\ c_hdr c' = c_hdr c /\
                 c_die_off c' = c_die_off c /\
                 incl (combine (c_diemap c) (c_dielist c)) (combine (c_diemap c') (c_dielist c')).
  Definition dies_mono (D D' : list die_obj) : Prop :=
    forall id d, nth_error D id = Some d ->
      exists d', nth_error D' id = Some d' /\ d_cu d' = d_cu d /\ d_off d' = d_off d /\ d_raw d' = d_raw d /\
                 (d_parent d <> None -> d_parent d' <> None) /\ (d_term d <> None -> d_term d' <> None).

  Definition ext (s s' : state) : Prop :=
    cus_mono (cus s) (cus s') /\ dies_mono (dies s) (dies s') /\ frames s' = frames s.

  Lemma cus_mono_refl C : cus_mono C C.
  Proof. intros id c H. exists c. repeat split; auto. apply incl_refl. Qed.
  Lemma dies_mono_refl D : dies_mono D D.
  Proof. intros id d H. exists d. repeat split; auto. Qed.

  Lemma cus_mono_trans C1 C2 C3 : cus_mono C1 C2 -> cus_mono C2 C3 -> cus_mono C1 C3.
  Proof.
    intros A1 A2 id c H. destruct (A1 _ _ H) as (c' & H' & E1 & E2 & E3 & I1).
    destruct (A2 _ _ H') as (c'' & H'' & E1' & E2' & E3' & I2). exists c''.
    repeat split; try congruence. eapply incl_tran; eauto.
  Qed.
  Lemma dies_mono_trans D1 D2 D3 : dies_mono D1 D2 -> dies_mono D2 D3 -> dies_mono D1 D3.
  Proof.
    intros B1 B2 id d H. destruct (B1 _ _ H) as (d' & H' & E1 & E2 & E3 & L1 & L2).
    destruct (B2 _ _ H') as (d'' & H'' & E1' & E2' & E3' & L1' & L2'). exists d''. repeat split; try congruence; auto.
  Qed.

  Lemma ext_refl s : ext s s.
  Proof. repeat split; auto using cus_mono_refl, dies_mono_refl. Qed.

  Lemma ext_trans s1 s2 s3 : ext s1 s2 -> ext s2 s3 -> ext s1 s3.
  Proof.
    intros (A1 & B1 & F1) (A2 & B2 & F2). repeat split;
      eauto using cus_mono_trans, dies_mono_trans. congruence.
  Qed.

  Lemma ext_set_cur s c : ext s (set_cur s c).
  Proof. repeat split; cbn; auto using cus_mono_refl, dies_mono_refl. Qed.

  Lemma cus_mono_snoc C x : cus_mono C (C ++ [x]).
  Proof.
    intros id c H. exists c. repeat split; auto using incl_refl. apply nth_error_snoc_old. exact H.
  Qed.
  Lemma dies_mono_snoc D x : dies_mono D (D ++ [x]).
  Proof. intros id d H. exists d. repeat split; auto. apply nth_error_snoc_old. exact H. Qed.

  (* "object [id] is the entry at offset [o] of the unit at offset [u]" *)
  Definition die_at (s : state) (id : nat) (u o : Z) : Prop :=
    exists d c, nth_error (dies s) id = Some d /\ nth_error (cus s) (d_cu d) = Some c /\
                c_off c = u /\ d_off d = o.
  Definition cu_at (s : state) (id : nat) (u : Z) : Prop :=
    exists c, nth_error (cus s) id = Some c /\ c_off c = u.

  Lemma die_at_ext s s' id u o : ext s s' -> die_at s id u o -> die_at s' id u o.
  Proof.
    intros (A & B & _) (d & c & Hd & Hc & Eu & Eo).
    destruct (B _ _ Hd) as (d' & Hd' & E1 & E2 & E3 & _).
    destruct (A _ _ Hc) as (c' & Hc' & E1' & _).
    exists d', c'. rewrite E1. repeat split; congruence.
  Qed.

  Lemma cu_at_ext s s' id u : ext s s' -> cu_at s id u -> cu_at s' id u.
  Proof.
    intros (A & _) (c & Hc & Eu). destruct (A _ _ Hc) as (c' & Hc' & E1' & _).
    exists c'. split; congruence.
  Qed.

  (* ---- generator frames against iterator positions *)
  (* c is the offset of a child of the entry at p in the unit at u *)
  Definition is_kid (u p c : Z) : Prop :=
    exists ud, unit_at F u = Some ud /\ In c (kids_of (ud_entries ud) p).
  (* the entry whose children a suspended iter_DIE_children generator enumerates *)
  Definition cframe_die (cf : cframe) : option nat :=
    match cf with CStart d => Some d | CYield d _ _ => Some d | CDone => None end.

  Inductive cframe_rel (s : state) (u : Z) : cframe -> acframe -> Prop :=
  | CR_start die p : die_at s die u p -> cframe_rel s u (CStart die) (ACStart p)
  | CR_yield die child p c : die_at s die u p -> die_at s child u c -> is_kid u p c ->
      cframe_rel s u (CYield die child c) (ACYield p c)
  | CR_done : cframe_rel s u CDone ACDone.

  Inductive level_rel (s : state) (u : Z) : slevel -> Z * apc -> Prop :=
  | LR_start die o : die_at s die u o -> level_rel s u (mk_sl die PStart) (o, APStart)
  | LR_die die o : die_at s die u o -> level_rel s u (mk_sl die PDie) (o, APDie)
  | LR_kids die o cf acf : die_at s die u o -> cframe_rel s u cf acf -> cframe_die cf = Some die ->
      level_rel s u (mk_sl die (PKids cf)) (o, APKids acf)
  | LR_term die o : die_at s die u o -> level_rel s u (mk_sl die PTerm) (o, APTerm).

  (* the levels of a suspended iter_DIEs generator are a chain of nodes, each a child of the next *)
  Fixpoint nchain (ns : list node) : Prop :=
    match ns with
    | a :: ((b :: _) as r) => In a (node_kids b) /\ nchain r
    | _ => True
    end.
  Definition stack_nodes (u : Z) (ast : list (Z * apc)) : Prop :=
    ast = [] \/
    exists ud ns, unit_at F u = Some ud /\ map node_off ns = map fst ast /\ nchain ns /\
                  last ns (ud_tree ud) = ud_tree ud.

  Inductive frame_rel (s : state) : frame -> aframe -> Prop :=
  | FR_empty : frame_rel s FEmpty AFEmpty
  | FR_cus off : (off < f_info_size F -> exists ud, unit_at F off = Some ud) -> frame_rel s (FCUs off) (AFCUs off)
  | FR_tus off : (off < f_types_size F -> exists x, tu_at F off = Some x) -> frame_rel s (FTUs off) (AFTUs off)
  | FR_children u cf acf : cframe_rel s u cf acf -> frame_rel s (FChildren cf) (AFChildren u acf)
  | FR_siblings_new u self o : die_at s self u o -> frame_rel s (FSiblings self None) (AFSiblings u o None)
  | FR_siblings u self o cf acf : die_at s self u o -> cframe_rel s u cf acf ->
      frame_rel s (FSiblings self (Some cf)) (AFSiblings u o (Some acf))
  | FR_subtree u st ast : Forall2 (level_rel s u) st ast -> stack_nodes u ast ->
      frame_rel s (FSubtree st) (AFSubtree u ast)
  | FR_sections i n : 0 <= i -> (n = None \/ n = Some (f_shnum F)) -> frame_rel s (FSections i n) (AFSections i)
  | FR_symbols i n : 0 <= i -> has_symtab F = true -> (n = None \/ n = Some (f_sym_count F)) ->
      frame_rel s (FSymbols i n) (AFSymbols i)
  | FR_tags n fin : 0 <= n -> has_dyn F = true ->
      (fin = false -> forall nt, count_tags (f_dyns F) = Some nt -> n < nt) ->
      frame_rel s (FTags n fin) (AFTags n fin).

  Definition frames_rel (s : state) (afs : list aframe) : Prop := Forall2 (frame_rel s) (frames s) afs.

  Lemma cframe_rel_ext s s' u cf acf : ext s s' -> cframe_rel s u cf acf -> cframe_rel s' u cf acf.
  Proof. intros He H. inversion H; subst; constructor; eauto using die_at_ext. Qed.

  Lemma level_rel_ext s s' u l al : ext s s' -> level_rel s u l al -> level_rel s' u l al.
  Proof. intros He H. inversion H; subst; constructor; eauto using die_at_ext, cframe_rel_ext. Qed.

  Lemma frame_rel_ext s s' f af : ext s s' -> frame_rel s f af -> frame_rel s' f af.
  Proof.
    intros He H. inversion H; subst; try (constructor; eauto using die_at_ext, cframe_rel_ext; fail).
    constructor; [|assumption]. eapply Forall2_imp; [|eassumption]. intros a b Hab. eapply level_rel_ext; eauto.
  Qed.

  Lemma frames_rel_ext s s' afs : ext s s' -> frames_rel s afs -> frames_rel s' afs.
  Proof.
    intros He H. unfold frames_rel in *. destruct He as (A & B & Fr). rewrite Fr.
    eapply Forall2_imp; [|eassumption]. intros a b Hab. eapply frame_rel_ext; eauto. repeat split; auto.
  Qed.

  (* frames of states that differ in the frame list only *)
  Lemma frame_rel_heaps s s' f af : cus s' = cus s -> dies s' = dies s -> frame_rel s f af -> frame_rel s' f af.
  Proof.
    intros Ec Ed H.
    assert (Hd : forall id u o, die_at s id u o -> die_at s' id u o).
    { intros id u o (d & c & H1 & H2 & H3). exists d, c. rewrite Ec, Ed. auto. }
    assert (Hc : forall u cf acf, cframe_rel s u cf acf -> cframe_rel s' u cf acf).
    { intros u cf acf H0. inversion H0; subst; constructor; auto. }
    inversion H; subst; try (constructor; auto; fail).
    constructor; [|assumption]. eapply Forall2_imp; [|eassumption]. intros a b Hab.
    inversion Hab; subst; constructor; auto.
  Qed.

  Lemma Forall2_upd {A B} (R : A -> B -> Prop) n x y l l' :
    Forall2 R l l' -> R x y -> Forall2 R (upd_nth n (fun _ => x) l) (upd_slot n y l').
  Proof.
    intros H. revert n. induction H as [|a b l l' Hab H IH]; intros [|n] Hxy; cbn [upd_nth upd_slot];
      constructor; auto.
  Qed.

  Lemma Forall2_nth {A B} (R : A -> B -> Prop) n l l' da db :
    Forall2 R l l' -> R da db -> R (nth n l da) (nth n l' db).
  Proof.
    intros H Hd. revert n. induction H as [|a b l l' Hab H IH]; intros [|n]; cbn [nth]; auto.
  Qed.

  Lemma Inv_set_frames s fr : Inv s -> Inv (set_frames s fr).
  Proof. intros [H1 H2 H3 H4 H5 H6 H7 H8 H9 H10 H11 H12 H13]. constructor; cbn; auto. Qed.

  Lemma frames_rel_set_slot s afs slot f af :
    frames_rel s afs -> frame_rel s f af ->
    frames_rel (set_frames s (upd_nth slot (fun _ => f) (frames s))) (upd_slot slot af afs).
  Proof.
    intros H Hf. unfold frames_rel. cbn [frames set_frames].
    apply Forall2_upd.
    - eapply Forall2_imp; [|exact H]. intros a b Hab. eapply frame_rel_heaps; [| |exact Hab]; reflexivity.
    - eapply frame_rel_heaps; [| |exact Hf]; reflexivity.
  Qed.
End WithFile.
